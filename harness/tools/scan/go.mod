module scan

go 1.22
