package main

import (
	"fmt"
	"go/ast"
	"go/parser"
	"go/token"
	"os"
	"path/filepath"
	"regexp"
	"strings"
)

var pat = regexp.MustCompile(`^(Unmarshal|SetBytes|FromBytes|Import|Unpack|Verify|Decapsulate|AuthDecapsulate|Open|Decrypt|FromString|Parse|Setup|CouldDecrypt|ExtractFromCiphertext|Recover|Combine|Finalize|Evaluate|BlindSign|Decode|SetString|Read)`)

func typ(e ast.Expr) string {
	switch t := e.(type) {
	case *ast.ArrayType:
		return "[]" + typ(t.Elt)
	case *ast.Ident:
		return t.Name
	case *ast.StarExpr:
		return "*" + typ(t.X)
	case *ast.SelectorExpr:
		return typ(t.X) + "." + t.Sel.Name
	case *ast.Ellipsis:
		return "..." + typ(t.Elt)
	}
	return "?"
}

func main() {
	root := os.Args[1]
	filepath.Walk(root, func(p string, info os.FileInfo, err error) error {
		if err != nil || info.IsDir() || !strings.HasSuffix(p, ".go") || strings.HasSuffix(p, "_test.go") {
			return nil
		}
		if strings.Contains(p, "/internal/") || strings.Contains(p, "/templates/") || strings.Contains(p, "/asm/") || strings.Contains(p, "zzverif") {
			return nil
		}
		fs := token.NewFileSet()
		f, err := parser.ParseFile(fs, p, nil, 0)
		if err != nil {
			return nil
		}
		for _, d := range f.Decls {
			fd, ok := d.(*ast.FuncDecl)
			if !ok || !fd.Name.IsExported() || !pat.MatchString(fd.Name.Name) {
				continue
			}
			takes := false
			var ps []string
			for _, fl := range fd.Type.Params.List {
				t := typ(fl.Type)
				ps = append(ps, t)
				if t == "[]byte" || t == "string" || t == "io.Reader" || strings.HasPrefix(t, "*[") || t == "Signature" || t == "[][]byte" {
					takes = true
				}
			}
			if !takes {
				continue
			}
			recv := ""
			if fd.Recv != nil && len(fd.Recv.List) > 0 {
				recv = typ(fd.Recv.List[0].Type)
				if r := strings.TrimPrefix(recv, "*"); r != "" && !ast.IsExported(strings.Split(r, "[")[0]) && !ast.IsExported(r) {
					recv = "(" + recv + ")"
				}
			}
			rel, _ := filepath.Rel(root, filepath.Dir(p))
			fmt.Printf("%s\t%s\t%s\t%s\n", rel, recv, fd.Name.Name, strings.Join(ps, ","))
		}
		return nil
	})
}
