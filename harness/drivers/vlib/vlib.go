// Package vlib: plumbing shared by the /verif conformance drivers (standard library only).
// The drivers are compiled INTO the circl module with `go build -overlay`, so they always
// exercise /repo's current working tree.
package vlib

import (
	"bufio"
	"encoding/hex"
	"encoding/json"
	"fmt"
	"math/big"
	"math/rand"
	"os"
	"strconv"
	"runtime/debug"
	"time"
)

// Out is an ndjson event writer.
type Out struct {
	f *os.File
	w *bufio.Writer
	N int
}

func Create(path string) *Out {
	f, err := os.Create(path)
	if err != nil {
		Die("create %s: %v", path, err)
	}
	return &Out{f: f, w: bufio.NewWriterSize(f, 1<<20)}
}

func (o *Out) Emit(v interface{}) {
	b, err := json.Marshal(v)
	if err != nil {
		Die("marshal: %v", err)
	}
	o.w.Write(b)
	o.w.WriteByte('\n')
	o.N++
}

func (o *Out) Close() { o.w.Flush(); o.f.Close() }

func Die(format string, a ...interface{}) {
	fmt.Fprintf(os.Stderr, "DRIVER-INFRA: "+format+"\n", a...)
	os.Exit(3)
}

func ReadJSON(path string, v interface{}) {
	b, err := os.ReadFile(path)
	if err != nil {
		Die("read %s: %v", path, err)
	}
	if err := json.Unmarshal(b, v); err != nil {
		Die("parse %s: %v", path, err)
	}
}

func WriteJSON(path string, v interface{}) {
	b, err := json.MarshalIndent(v, "", " ")
	if err != nil {
		Die("marshal: %v", err)
	}
	if err := os.WriteFile(path, b, 0o644); err != nil {
		Die("write %s: %v", path, err)
	}
}

func Rng(seed int64, stream string) *rand.Rand {
	h := int64(1469598103934665603)
	for _, c := range []byte(stream) {
		h = (h ^ int64(c)) * 1099511628211
	}
	return rand.New(rand.NewSource(seed*7919 + h))
}

// Bytes returns n seeded pseudo-random bytes.
func Bytes(r *rand.Rand, n int) []byte {
	b := make([]byte, n)
	r.Read(b)
	return b
}

func Hex(b []byte) string { return hex.EncodeToString(b) }
func UnHex(s string) []byte {
	b, err := hex.DecodeString(s)
	if err != nil {
		Die("bad hex %q", s)
	}
	return b
}

// Outcome of a guarded call.
type Outcome struct {
	Panic   string
	Timeout bool
}

// Safe runs f under recover and a deadline; a call that neither returns nor panics within d is
// reported as Timeout (the goroutine is abandoned).
func Safe(d time.Duration, f func()) (o Outcome) {
	done := make(chan Outcome, 1)
	go func() {
		var oc Outcome
		defer func() {
			if r := recover(); r != nil {
				oc.Panic = fmt.Sprintf("%v | %s", r, firstFrames(debug.Stack()))
			}
			done <- oc
		}()
		f()
	}()
	select {
	case o = <-done:
		return o
	case <-time.After(d):
		return Outcome{Timeout: true}
	}
}

func firstFrames(st []byte) string {
	// keep the stack short: the first circl frame is what identifies a root cause
	lines := []byte{}
	n := 0
	for _, c := range st {
		if c == '\n' {
			n++
			if n > 14 {
				break
			}
			c = ';'
		}
		lines = append(lines, c)
	}
	return string(lines)
}

// SeededReader is a deterministic io.Reader.
type SeededReader struct{ R *rand.Rand }

func (s SeededReader) Read(p []byte) (int, error) { return s.R.Read(p) }

// ConstReader yields a constant byte.
type ConstReader struct{ B byte }

func (z ConstReader) Read(p []byte) (int, error) {
	for i := range p {
		p[i] = z.B
	}
	return len(p), nil
}

// BytesReader replays a fixed byte string, then zeros.
type BytesReader struct {
	B     []byte
	i     int
	Chunk int
}

// Chunk > 0: every Read returns at most that many bytes (a pipe, a socket, a small buffered reader): callers must use io.ReadFull.
func (b *BytesReader) Read(p []byte) (int, error) {
	if b.Chunk > 0 && len(p) > b.Chunk {
		p = p[:b.Chunk]
	}
	return b.read(p)
}

func (b *BytesReader) read(p []byte) (int, error) {
	for i := range p {
		if b.i < len(b.B) {
			p[i] = b.B[b.i]
			b.i++
		} else {
			p[i] = 0
		}
	}
	return len(p), nil
}

// ---- base-4096 little-endian digit arrays (spec/lib/BigNat.tla)

// Digits converts a non-negative big integer to base-4096 little-endian digits.
func Digits(x *big.Int) []int {
	if x.Sign() < 0 {
		Die("Digits of a negative number")
	}
	out := []int{}
	t := new(big.Int).Set(x)
	m := big.NewInt(4095)
	for t.Sign() > 0 {
		out = append(out, int(new(big.Int).And(t, m).Int64()))
		t.Rsh(t, 12)
	}
	return out
}

// FromLE / FromBE read byte strings as integers.
func FromLE(b []byte) *big.Int {
	r := make([]byte, len(b))
	for i := range b {
		r[len(b)-1-i] = b[i]
	}
	return new(big.Int).SetBytes(r)
}
func FromBE(b []byte) *big.Int { return new(big.Int).SetBytes(b) }

// ToLE writes x as n little-endian bytes (x must fit).
func ToLE(x *big.Int, n int) []byte {
	b := x.FillBytes(make([]byte, n))
	for i, j := 0, n-1; i < j; i, j = i+1, j-1 {
		b[i], b[j] = b[j], b[i]
	}
	return b
}

// Quot returns floor(a / p) as digits: the untrusted hint TLC uses to check a congruence.
func Quot(a, p *big.Int) []int { return Digits(new(big.Int).Div(a, p)) }

// Bad reports a panic or a timeout.
func (o Outcome) Bad() bool { return o.Panic != "" || o.Timeout }

// EnvSeed is the seed the check passed in VERIF_SEED (0 if absent).
func EnvSeed() int64 {
	s, _ := strconv.ParseInt(os.Getenv("VERIF_SEED"), 10, 64)
	return s
}
