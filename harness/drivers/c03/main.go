// Driver for C03: ML-KEM-512/768/1024 and Kyber512/768/1024 key generation, encapsulation and decapsulation on
// structured seeds and ciphertext classes against mlkemref (a transcription of FIPS 203 / round-3 Kyber), the
// Fujisaki-Okamoto decision facts for every decapsulation, and ML-KEM key parsing on well-formed and malformed keys.
package main

import (
	"bytes"
	"flag"
	"fmt"
	"time"

	"github.com/cloudflare/circl/kem"
	"github.com/cloudflare/circl/kem/kyber/kyber1024"
	"github.com/cloudflare/circl/kem/kyber/kyber512"
	"github.com/cloudflare/circl/kem/kyber/kyber768"
	"github.com/cloudflare/circl/kem/mlkem/mlkem1024"
	"github.com/cloudflare/circl/kem/mlkem/mlkem512"
	"github.com/cloudflare/circl/kem/mlkem/mlkem768"
	"github.com/cloudflare/circl/zzverif/mlkemref"
	"github.com/cloudflare/circl/zzverif/vlib"
)

type line struct {
	Ev     string `json:"ev"`
	Param  string `json:"param"`
	Class  string `json:"class"`
	Panics int    `json:"panics"`
	Ek     string `json:"ek"`
	RefEk  string `json:"ref_ek"`
	Dk     string `json:"dk"`
	RefDk  string `json:"ref_dk"`
	Ct     string `json:"ct"`
	RefCt  string `json:"ref_ct"`
	Ss     string `json:"ss"`
	RefSs  string `json:"ref_ss"`
	// decaps
	K        string `json:"k"`
	Same     bool   `json:"same"`
	KAccept  string `json:"k_accept"`
	KReject  string `json:"k_reject"`
	KRejectC string `json:"k_reject_cprime"`
	// parse
	Bytes     []int  `json:"bytes"`
	KK        int    `json:"kk"`
	Accepted  bool   `json:"accepted"`
	Reencodes bool   `json:"reencodes"`
	HashOK    bool   `json:"hash_ok"`
	EkCanon   bool   `json:"ek_canon"`
	Seed      string `json:"seed"`
	Note      string `json:"note"`
}

func ints(b []byte) []int {
	o := make([]int, len(b))
	for i := range b {
		o[i] = int(b[i])
	}
	return o
}

func main() {
	out := flag.String("out", "trace.ndjson", "")
	seed := flag.Int64("seed", 1, "")
	thorough := flag.Bool("thorough", false, "")
	flag.Parse()
	rng := vlib.Rng(*seed, "c03")
	o := vlib.Create(*out)
	defer o.Close()
	emit := func(l line) {
		if l.Bytes == nil {
			l.Bytes = []int{}
		}
		o.Emit(l)
	}
	schemes := map[string]kem.Scheme{"ML-KEM-512": mlkem512.Scheme(), "ML-KEM-768": mlkem768.Scheme(), "ML-KEM-1024": mlkem1024.Scheme(),
		"Kyber512": kyber512.Scheme(), "Kyber768": kyber768.Scheme(), "Kyber1024": kyber1024.Scheme()}
	nseeds := 3
	if *thorough {
		nseeds = 25
	}
	si0 := 0
	for _, p := range mlkemref.All {
		si0++
		sch := schemes[p.Name]
		seeds := [][]byte{make([]byte, 64), bytes.Repeat([]byte{0xff}, 64)}
		for i := 0; i < nseeds; i++ {
			seeds = append(seeds, vlib.Bytes(rng, 64))
		}
		// boundary seeds: one matrix entry (each position in turn over the runs: here two per run, all in thorough) needs more than three
		// SHAKE128 blocks, resp. more than 510 bytes, of its stream
		for pos := 0; pos < p.K*p.K; pos++ {
			if !*thorough && pos != int(*seed+int64(si0))%(p.K*p.K) && pos != p.K*p.K-1 {
				continue
			}
			for _, nb := range []int{504, 510} {
				if d := p.BoundarySeed(vlib.Bytes(rng, 32), pos/p.K, pos%p.K, nb, 20000); d != nil {
					seeds = append(seeds, append(d, vlib.Bytes(rng, 32)...))
				}
			}
		}
		for si, sd := range seeds {
			refEk, refDk := p.KeyGen(sd[:32], sd[32:])
			l := line{Ev: "keygen", Param: p.Name, Class: fmt.Sprintf("seed#%d", si), RefEk: vlib.Hex(refEk), RefDk: vlib.Hex(refDk), Seed: vlib.Hex(sd)}
			var pk kem.PublicKey
			var sk kem.PrivateKey
			oc := vlib.Safe(60*time.Second, func() {
				pk, sk = sch.DeriveKeyPair(sd)
				a, _ := pk.MarshalBinary()
				b, _ := sk.MarshalBinary()
				l.Ek, l.Dk = vlib.Hex(a), vlib.Hex(b)
			})
			if oc.Bad() {
				l.Panics, l.Note = 1, oc.Panic
				emit(l)
				continue
			}
			emit(l)
			ms := [][]byte{make([]byte, 32), bytes.Repeat([]byte{0xff}, 32), vlib.Bytes(rng, 32)}
			var honest []byte
			for mi, m := range ms {
				rc, rk := p.Encaps(refEk, m)
				l := line{Ev: "encaps", Param: p.Name, Class: fmt.Sprintf("seed#%d m#%d", si, mi), RefCt: vlib.Hex(rc), RefSs: vlib.Hex(rk), Seed: vlib.Hex(sd) + "/" + vlib.Hex(m)}
				oc := vlib.Safe(60*time.Second, func() {
					ct, ss, err := sch.EncapsulateDeterministically(pk, m)
					if err != nil {
						panic(err)
					}
					l.Ct, l.Ss = vlib.Hex(ct), vlib.Hex(ss)
				})
				if oc.Bad() {
					l.Panics, l.Note = 1, oc.Panic
				}
				emit(l)
				honest = rc
			}
			// ---- decapsulation classes
			type ctc struct {
				class string
				c     []byte
			}
			cts := []ctc{{"honest", honest}, {"all-zero", make([]byte, p.CtSize)}, {"all-ones", bytes.Repeat([]byte{0xff}, p.CtSize)},
				{"0x55", bytes.Repeat([]byte{0x55}, p.CtSize)}, {"random", vlib.Bytes(rng, p.CtSize)}}
			nflip := 6
			if *thorough {
				nflip = 40
			}
			for i := 0; i < nflip; i++ {
				c := append([]byte{}, honest...)
				pos := rng.Intn(len(c))
				if i%3 == 0 {
					pos = len(c) - 1 - rng.Intn(32*p.Dv) // in c2
				}
				c[pos] ^= 1 << uint(rng.Intn(8))
				cts = append(cts, ctc{"bit-flip", c})
			}
			// another honest ciphertext for the same key, and one made for a different key
			c2, _ := p.Encaps(refEk, vlib.Bytes(rng, 32))
			cts = append(cts, ctc{"honest-2", c2})
			ek3, _ := p.KeyGen(vlib.Bytes(rng, 32), vlib.Bytes(rng, 32))
			c3, _ := p.Encaps(ek3, ms[2])
			cts = append(cts, ctc{"other-key", c3})
			for _, c := range cts {
				t := p.Decaps(refDk, c.c)
				l := line{Ev: "decaps", Param: p.Name, Class: c.class, Same: t.Same, KAccept: vlib.Hex(t.KAccept), KReject: vlib.Hex(t.KReject), KRejectC: vlib.Hex(t.KRejectCPrime),
					Ct: vlib.Hex(c.c), Seed: vlib.Hex(sd)}
				oc := vlib.Safe(60*time.Second, func() {
					ss, err := sch.Decapsulate(sk, c.c)
					if err != nil {
						panic(err)
					}
					l.K = vlib.Hex(ss)
				})
				if oc.Bad() {
					l.Panics, l.Note = 1, oc.Panic
				}
				emit(l)
			}
			if !p.MLKEM || si > 2 {
				continue
			}
			// ---- ML-KEM key parsing
			set12 := func(ek []byte, idx, val int) []byte {
				b := append([]byte{}, ek...)
				o := 3 * (idx / 2)
				if idx%2 == 0 {
					b[o] = byte(val)
					b[o+1] = b[o+1]&0xf0 | byte(val>>8)
				} else {
					b[o+1] = b[o+1]&0x0f | byte(val<<4)
					b[o+2] = byte(val >> 4)
				}
				return b
			}
			type ekc struct {
				class string
				b     []byte
			}
			eks := []ekc{{"honest", refEk}}
			ncoef := 256 * p.K
			for _, idx := range []int{0, 1, ncoef - 2, ncoef - 1, rng.Intn(ncoef), rng.Intn(ncoef)} {
				for _, val := range []int{mlkemref.Q - 1, mlkemref.Q, mlkemref.Q + 1, 4095, 0} {
					eks = append(eks, ekc{fmt.Sprintf("coef=%d", val), set12(refEk, idx, val)})
				}
			}
			eks = append(eks, ekc{"all-ff", bytes.Repeat([]byte{0xff}, p.EkSize)}, ekc{"all-zero", make([]byte, p.EkSize)})
			for _, e := range eks {
				l := line{Ev: "parse-ek", Param: p.Name, Class: e.class, Bytes: ints(e.b), KK: p.K}
				oc := vlib.Safe(60*time.Second, func() {
					k, err := sch.UnmarshalBinaryPublicKey(e.b)
					l.Accepted = err == nil
					if err == nil {
						b2, _ := k.MarshalBinary()
						l.Reencodes = bytes.Equal(b2, e.b)
					}
				})
				if oc.Bad() {
					l.Panics, l.Note = 1, oc.Panic
				}
				emit(l)
			}
			hoff := 384*p.K + p.EkSize
			for _, d := range []struct {
				class string
				f     func(b []byte)
			}{{"honest", func(b []byte) {}}, {"hash-bit", func(b []byte) { b[hoff+rng.Intn(32)] ^= 1 << uint(rng.Intn(8)) }},
				{"ek-bit", func(b []byte) { b[384*p.K+rng.Intn(p.EkSize)] ^= 1 << uint(rng.Intn(8)) }}, {"hash-zero", func(b []byte) { copy(b[hoff:hoff+32], make([]byte, 32)) }},
				{"z-bit", func(b []byte) { b[hoff+32+rng.Intn(32)] ^= 1 }},
				// the embedded encapsulation key spelled with one coefficient c < 767 as c + q: the stored hash is then the hash of the REDUCED
				// spelling, not of the bytes that are there, and FIPS 203 7.3 hashes the bytes that are there
				{"ek-coef+q", func(b []byte) {
					ek := b[384*p.K : 384*p.K+384*p.K]
					for idx := rng.Intn(256 * p.K); ; idx = (idx + 1) % (256 * p.K) {
						o := 3 * (idx / 2)
						var c int
						if idx%2 == 0 {
							c = int(ek[o]) | int(ek[o+1]&0x0f)<<8
						} else {
							c = int(ek[o+1]>>4) | int(ek[o+2])<<4
						}
						if c < 767 {
							copy(ek, set12(ek, idx, c+mlkemref.Q))
							return
						}
					}
				}}, {"ek-coef+q-rehash", nil}} {
				b := append([]byte{}, refDk...)
				if d.f == nil {
					// the same spelling with the stored hash recomputed over the bytes that are there: both FIPS 203 7.3 checks pass, so
					// the key is either refused as not well formed or kept and re-encoded byte for byte
					ek := b[384*p.K : 384*p.K+384*p.K]
					for idx := rng.Intn(256 * p.K); ; idx = (idx + 1) % (256 * p.K) {
						o := 3 * (idx / 2)
						var c int
						if idx%2 == 0 {
							c = int(ek[o]) | int(ek[o+1]&0x0f)<<8
						} else {
							c = int(ek[o+1]>>4) | int(ek[o+2])<<4
						}
						if c < 767 {
							copy(ek, set12(ek, idx, c+mlkemref.Q))
							break
						}
					}
					copy(b[hoff:hoff+32], mlkemref.H(b[384*p.K:hoff]))
				} else {
					d.f(b)
				}
				canon := true
				for idx := 0; idx < 256*p.K; idx++ {
					o := 384*p.K + 3*(idx/2)
					c := int(b[o]) | int(b[o+1]&0x0f)<<8
					if idx%2 == 1 {
						c = int(b[o+1]>>4) | int(b[o+2])<<4
					}
					canon = canon && c < mlkemref.Q
				}
				l := line{Ev: "parse-dk", Param: p.Name, Class: d.class, KK: p.K, HashOK: bytes.Equal(mlkemref.H(b[384*p.K:hoff]), b[hoff:hoff+32]), EkCanon: canon}
				oc := vlib.Safe(60*time.Second, func() {
					k, err := sch.UnmarshalBinaryPrivateKey(b)
					l.Accepted = err == nil
					if err == nil {
						b2, _ := k.MarshalBinary()
						l.Reencodes = bytes.Equal(b2, b)
					}
				})
				if oc.Bad() {
					l.Panics, l.Note = 1, oc.Panic
				}
				emit(l)
			}
		}
	}
	fmt.Printf("lines=%d\n", o.N)
}
