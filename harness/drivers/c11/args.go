package main

// Caller-owned byte slices: every byte-slice argument of a call is presented as a window of a larger buffer - canary bytes before it,
// spare CAPACITY and canary bytes behind it - and after the call the window, the canaries and the result are compared with what the same
// call gives on exactly-sized private copies.  A library function that appends to, or writes through, a slice it was handed shows here.

import (
	"bytes"
	"crypto"
	"crypto/rsa"
	"fmt"
	"math/rand"

	"github.com/cloudflare/circl/blindsign/blindrsa/partiallyblindrsa"
	"github.com/cloudflare/circl/cipher/ascon"
	"github.com/cloudflare/circl/ecc/bls12381"
	"github.com/cloudflare/circl/expander"
	"github.com/cloudflare/circl/group"
	"github.com/cloudflare/circl/hpke"
	"github.com/cloudflare/circl/kem/mlkem/mlkem768"
	"github.com/cloudflare/circl/sign/ed25519"
	"github.com/cloudflare/circl/sign/ed448"
	"github.com/cloudflare/circl/sign/mldsa/mldsa65"
	"github.com/cloudflare/circl/xof"
	"github.com/cloudflare/circl/xof/k12"
	"github.com/cloudflare/circl/zzverif/vlib"
)

type argLine struct {
	Ev         string `json:"ev"`
	Call       string `json:"call"`
	Lens       []int  `json:"lens"`
	ArgsIntact bool   `json:"args_intact"`
	Canaries   bool   `json:"canaries_intact"`
	SameResult bool   `json:"same_result"`
	Panics     int    `json:"panics"`
	Note       string `json:"note"`
}

func argsGuard(path string, rng *rand.Rand, reps int) {
	o := vlib.Create(path)
	defer o.Close()
	var seed [mldsa65.SeedSize]byte
	rng.Read(seed[:])
	_, dsk := mldsa65.NewKeyFromSeed(&seed)
	edsk := ed25519.NewKeyFromSeed(vlib.Bytes(rng, 32))
	e4sk := ed448.NewKeyFromSeed(vlib.Bytes(rng, 57))
	mpk, _ := mlkem768.NewKeyFromSeed(vlib.Bytes(rng, 64))
	hsuite := hpke.NewSuite(hpke.KEM_X25519_HKDF_SHA256, hpke.KDF_HKDF_SHA256, hpke.AEAD_AES128GCM)
	hpk, _ := hpke.KEM_X25519_HKDF_SHA256.Scheme().DeriveKeyPair(vlib.Bytes(rng, 32))
	pbKey, err := rsa.GenerateKey(vlib.SeededReader{R: rng}, 2048)
	if err != nil {
		vlib.Die("rsa.GenerateKey: %v", err)
	}
	pbVerifier := partiallyblindrsa.NewVerifier(&pbKey.PublicKey, crypto.SHA384)
	type fn struct {
		name string
		lens []int // lengths of the byte-slice arguments (0 = random small)
		do   func(a [][]byte) []byte
	}
	small := func() int { return []int{0, 1, 7, 31, 32, 33, 64, 200}[rng.Intn(8)] }
	fns := []fn{
		{"expander.xmd-sha256(dst,msg)", []int{-1, -1}, func(a [][]byte) []byte { return expander.NewExpanderMD(crypto.SHA256, a[0]).Expand(a[1], 48) }},
		{"expander.xmd-sha512(dst>255,msg)", []int{300, -1}, func(a [][]byte) []byte { return expander.NewExpanderMD(crypto.SHA512, a[0]).Expand(a[1], 70) }},
		{"expander.xof-shake128(dst,msg)", []int{-1, -1}, func(a [][]byte) []byte { return expander.NewExpanderXOF(xof.SHAKE128, 128, a[0]).Expand(a[1], 48) }},
		{"expander.xmd twice", []int{-1, -1}, func(a [][]byte) []byte {
			e := expander.NewExpanderMD(crypto.SHA256, a[0])
			return append(e.Expand(a[1], 32), e.Expand(a[1], 32)...)
		}},
		{"group.P256.HashToElement(msg,dst)", []int{-1, -1}, func(a [][]byte) []byte { b, _ := group.P256.HashToElement(a[0], a[1]).MarshalBinary(); return b }},
		{"group.P384.HashToScalar(msg,dst)", []int{-1, -1}, func(a [][]byte) []byte { b, _ := group.P384.HashToScalar(a[0], a[1]).MarshalBinary(); return b }},
		{"group.Ristretto255.HashToElement(msg,dst)", []int{-1, -1}, func(a [][]byte) []byte {
			b, _ := group.Ristretto255.HashToElement(a[0], a[1]).MarshalBinary()
			return b
		}},
		{"bls12381.G1.Hash(msg,dst)", []int{-1, -1}, func(a [][]byte) []byte { var g bls12381.G1; g.Hash(a[0], a[1]); return g.BytesCompressed() }},
		{"bls12381.G2.Hash(msg,dst)", []int{-1, -1}, func(a [][]byte) []byte { var g bls12381.G2; g.Hash(a[0], a[1]); return g.BytesCompressed() }},
		{"xof.SHAKE128 Write,Read", []int{-1}, func(a [][]byte) []byte {
			h := xof.SHAKE128.New()
			_, _ = h.Write(a[0])
			out := make([]byte, 40)
			_, _ = h.Read(out)
			return out
		}},
		{"k12 Write(9000),Read", []int{9000}, func(a [][]byte) []byte {
			h := k12.NewDraft10(nil)
			_, _ = h.Write(a[0])
			out := make([]byte, 40)
			_, _ = h.Read(out)
			return out
		}},
		{"k12 customisation", []int{-1, -1}, func(a [][]byte) []byte {
			h := k12.NewDraft10(a[0])
			_, _ = h.Write(a[1])
			out := make([]byte, 40)
			_, _ = h.Read(out)
			return out
		}},
		{"ed25519.Sign(msg)", []int{-1}, func(a [][]byte) []byte { return ed25519.Sign(edsk, a[0]) }},
		{"ed448.Sign(msg,ctx)", []int{-1, 20}, func(a [][]byte) []byte { return ed448.Sign(e4sk, a[0], string(a[1])) }},
		{"mldsa65.SignTo(msg,ctx)", []int{-1, 20}, func(a [][]byte) []byte {
			sig := make([]byte, mldsa65.SignatureSize)
			if err := mldsa65.SignTo(dsk, a[0], a[1], false, sig); err != nil {
				panic(err)
			}
			return sig
		}},
		{"mlkem768.EncapsulateTo(seed)", []int{32}, func(a [][]byte) []byte {
			ct, ss := make([]byte, mlkem768.CiphertextSize), make([]byte, mlkem768.SharedKeySize)
			mpk.EncapsulateTo(ct, ss, a[0])
			return append(ct, ss...)
		}},
		{"hpke sender(info).Seal(pt,aad)", []int{-1, -1, -1}, func(a [][]byte) []byte {
			s, err := hsuite.NewSender(hpk, a[0])
			if err != nil {
				panic(err)
			}
			enc, sealer, err := s.Setup(vlib.SeededReader{R: rand.New(rand.NewSource(7))})
			if err != nil {
				panic(err)
			}
			ct, err := sealer.Seal(a[1], a[2])
			if err != nil {
				panic(err)
			}
			return append(append(enc, ct...), sealer.Export(a[0], 16)...)
		}},
		{"partiallyblindrsa.Verify(msg,metadata,sig)", []int{-1, 8, 256}, func(a [][]byte) []byte {
			err := pbVerifier.Verify(a[0], a[1], a[2])
			return []byte(fmt.Sprint(err))
		}},
		{"ascon128.Seal(nonce,pt,ad)", []int{16, -1, -1}, func(a [][]byte) []byte {
			c, err := ascon.New(bytes.Repeat([]byte{3}, 16), ascon.Ascon128)
			if err != nil {
				panic(err)
			}
			return c.Seal(nil, a[0], a[1], a[2])
		}},
	}
	for rep := 0; rep < reps; rep++ {
		for _, f := range fns {
			l := argLine{Ev: "args", Call: f.name}
			var vals [][]byte
			for _, n := range f.lens {
				if n < 0 {
					n = small()
				}
				vals = append(vals, vlib.Bytes(rng, n))
				l.Lens = append(l.Lens, n)
			}
			// reference: exactly-sized private copies
			var want []byte
			oc := vlib.Safe(120e9, func() {
				priv := make([][]byte, len(vals))
				for i, v := range vals {
					priv[i] = append(make([]byte, 0, len(v)), v...)
				}
				want = f.do(priv)
			})
			if oc.Bad() {
				l.Panics, l.Note = 1, "reference call: "+oc.Panic
				o.Emit(l)
				continue
			}
			// windows of ONE shared buffer, laid out back to back: [canary | arg0 | spare+canary | arg1 | spare+canary ...]
			const pad = 24
			total := pad
			for _, v := range vals {
				total += len(v) + pad
			}
			buf := bytes.Repeat([]byte{0xa5}, total)
			win := make([][]byte, len(vals))
			off := pad
			for i, v := range vals {
				copy(buf[off:], v)
				win[i] = buf[off : off+len(v) : total] // capacity runs on into what follows: the next canary and the NEXT ARGUMENT
				off += len(v) + pad
			}
			before := append([]byte{}, buf...)
			var got []byte
			oc = vlib.Safe(120e9, func() { got = f.do(win) })
			if oc.Bad() {
				l.Panics, l.Note = 1, oc.Panic
				o.Emit(l)
				continue
			}
			l.SameResult = bytes.Equal(got, want)
			l.ArgsIntact, l.Canaries = true, true
			off = pad
			for i, v := range vals {
				if !bytes.Equal(buf[off:off+len(v)], v) {
					l.ArgsIntact = false
				}
				_ = i
				off += len(v) + pad
			}
			if !bytes.Equal(buf, before) && l.ArgsIntact {
				l.Canaries = false
			}
			o.Emit(l)
		}
	}
	retainProbe(o, rng)
}
