package main

// Decoded objects own their data: a value is decoded from a buffer, the object's own serialisation is taken, the caller's buffer is
// overwritten (callers reuse read buffers), and the object must still serialise to the same bytes.  An object that kept a slice of its
// input shows here ("retain" lines, spec/C11/Trace_Conc.tla).

import (
	"bytes"
	"crypto"
	"crypto/rsa"
	"encoding"
	"math/rand"

	"github.com/cloudflare/circl/abe/cpabe/tkn20"
	"github.com/cloudflare/circl/group"
	"github.com/cloudflare/circl/hpke"
	"github.com/cloudflare/circl/kem"
	kemschemes "github.com/cloudflare/circl/kem/schemes"
	"github.com/cloudflare/circl/oprf"
	"github.com/cloudflare/circl/sign"
	"github.com/cloudflare/circl/sign/bls"
	signschemes "github.com/cloudflare/circl/sign/schemes"
	trsa "github.com/cloudflare/circl/tss/rsa"
	"github.com/cloudflare/circl/zk/dleq"
	"github.com/cloudflare/circl/zzverif/vlib"
)

type retainLine struct {
	Ev     string `json:"ev"`
	Call   string `json:"call"`
	Same   bool   `json:"same_after_wipe"`
	Panics int    `json:"panics"`
	Note   string `json:"note"`
}

type retainCase struct {
	name   string
	enc    []byte
	decode func(b []byte) (func() []byte, error) // returns the object's serialiser
}

func mb(m encoding.BinaryMarshaler) func() []byte {
	return func() []byte { b, _ := m.MarshalBinary(); return b }
}

func retainProbe(o *vlib.Out, rng *rand.Rand) {
	rd := vlib.SeededReader{R: rng}
	var cases []retainCase
	add := func(name string, enc []byte, dec func(b []byte) (func() []byte, error)) {
		cases = append(cases, retainCase{name, enc, dec})
	}
	// ---- tkn20
	{
		pk, msk, err := tkn20.Setup(rd)
		if err != nil {
			vlib.Die("tkn20.Setup: %v", err)
		}
		var at tkn20.Attributes
		at.FromMap(map[string]string{"a": "1", "b": "2"})
		ak, err := msk.KeyGen(rd, at)
		if err != nil {
			vlib.Die("tkn20.KeyGen: %v", err)
		}
		b, _ := msk.MarshalBinary()
		add("tkn20.SystemSecretKey", b, func(b []byte) (func() []byte, error) {
			var k tkn20.SystemSecretKey
			if err := k.UnmarshalBinary(b); err != nil {
				return nil, err
			}
			// what the key DOES after the wipe: the attribute keys it derives are randomised, so compare the key with a fresh decoding
			var ref tkn20.SystemSecretKey
			_ = ref.UnmarshalBinary(append([]byte{}, b...))
			return func() []byte {
				if k.Equal(&ref) {
					return []byte("equal")
				}
				return []byte("differs")
			}, nil
		})
		b, _ = pk.MarshalBinary()
		add("tkn20.PublicKey", b, func(b []byte) (func() []byte, error) {
			var k tkn20.PublicKey
			err := k.UnmarshalBinary(b)
			return mb(&k), err
		})
		b, _ = ak.MarshalBinary()
		add("tkn20.AttributeKey", b, func(b []byte) (func() []byte, error) {
			var k tkn20.AttributeKey
			err := k.UnmarshalBinary(b)
			return mb(&k), err
		})
	}
	// ---- every KEM and signature scheme
	for _, s := range append(kemschemes.All(), hpke.KEM_X25519_HKDF_SHA256.Scheme(), hpke.KEM_X448_HKDF_SHA512.Scheme(), hpke.KEM_P256_HKDF_SHA256.Scheme(),
		hpke.KEM_P384_HKDF_SHA384.Scheme(), hpke.KEM_P521_HKDF_SHA512.Scheme(), hpke.KEM_X25519_KYBER768_DRAFT00.Scheme(), hpke.KEM_XWING.Scheme()) {
		s := s
		pk, sk := s.DeriveKeyPair(vlib.Bytes(rng, s.SeedSize()))
		b, _ := pk.MarshalBinary()
		add("kem "+s.Name()+" public key", b, func(b []byte) (func() []byte, error) {
			k, err := s.UnmarshalBinaryPublicKey(b)
			if err != nil {
				return nil, err
			}
			return mb(k.(kem.PublicKey)), nil
		})
		b, _ = sk.MarshalBinary()
		add("kem "+s.Name()+" private key", b, func(b []byte) (func() []byte, error) {
			k, err := s.UnmarshalBinaryPrivateKey(b)
			if err != nil {
				return nil, err
			}
			return func() []byte { x, _ := k.MarshalBinary(); y, _ := k.Public().MarshalBinary(); return append(x, y...) }, nil
		})
	}
	for _, s := range signschemes.All() {
		s := s
		pk, sk := s.DeriveKey(vlib.Bytes(rng, s.SeedSize()))
		b, _ := pk.MarshalBinary()
		add("sign "+s.Name()+" public key", b, func(b []byte) (func() []byte, error) {
			k, err := s.UnmarshalBinaryPublicKey(b)
			if err != nil {
				return nil, err
			}
			return mb(k.(sign.PublicKey)), nil
		})
		b, _ = sk.MarshalBinary()
		add("sign "+s.Name()+" private key", b, func(b []byte) (func() []byte, error) {
			k, err := s.UnmarshalBinaryPrivateKey(b)
			if err != nil {
				return nil, err
			}
			msg := []byte("m")
			return func() []byte {
				x, _ := k.MarshalBinary()
				return append(x, b2(s.Verify(k.Public().(sign.PublicKey), msg, s.Sign(k, msg, nil), nil))...)
			}, nil
		})
	}
	// ---- groups, OPRF, DLEQ, BLS, threshold RSA, HPKE contexts
	for _, g := range []group.Group{group.P256, group.P384, group.P521, group.Ristretto255} {
		g := g
		e, sc := g.HashToElement([]byte("e"), nil), g.HashToScalar([]byte("s"), nil)
		b, _ := e.MarshalBinary()
		add("group element "+g.(interface{ String() string }).String(), b, func(b []byte) (func() []byte, error) {
			x := g.NewElement()
			err := x.UnmarshalBinary(b)
			return mb(x), err
		})
		b, _ = sc.MarshalBinary()
		add("group scalar "+g.(interface{ String() string }).String(), b, func(b []byte) (func() []byte, error) {
			x := g.NewScalar()
			err := x.UnmarshalBinary(b)
			return mb(x), err
		})
		k := g.RandomNonZeroScalar(rd)
		A := g.RandomElement(rd)
		kA := g.NewElement().Mul(A, k)
		B := g.RandomElement(rd)
		kB := g.NewElement().Mul(B, k)
		pr, err := dleq.Prover{Params: dleq.Params{G: g, H: crypto.SHA256, DST: []byte("d")}}.Prove(k, A, kA, B, kB, rd)
		if err == nil {
			b, _ = pr.MarshalBinary()
			add("dleq.Proof "+g.(interface{ String() string }).String(), b, func(b []byte) (func() []byte, error) {
				p := new(dleq.Proof)
				err := p.UnmarshalBinary(g, b)
				return mb(p), err
			})
		}
	}
	for _, su := range []oprf.Suite{oprf.SuiteP256, oprf.SuiteRistretto255} {
		su := su
		sk, err := oprf.DeriveKey(su, oprf.BaseMode, vlib.Bytes(rng, 32), nil)
		if err != nil {
			vlib.Die("oprf: %v", err)
		}
		b, _ := sk.MarshalBinary()
		add("oprf.PrivateKey", b, func(b []byte) (func() []byte, error) {
			k := new(oprf.PrivateKey)
			if err := k.UnmarshalBinary(su, b); err != nil {
				return nil, err
			}
			return func() []byte { x, _ := k.MarshalBinary(); y, _ := k.Public().MarshalBinary(); return append(x, y...) }, nil
		})
		b, _ = sk.Public().MarshalBinary()
		add("oprf.PublicKey", b, func(b []byte) (func() []byte, error) {
			k := new(oprf.PublicKey)
			err := k.UnmarshalBinary(su, b)
			return mb(k), err
		})
	}
	{
		sk, _ := bls.KeyGen[bls.G1](vlib.Bytes(rng, 32), nil, nil)
		b, _ := sk.MarshalBinary()
		add("bls.PrivateKey[G1]", b, func(b []byte) (func() []byte, error) {
			k := new(bls.PrivateKey[bls.G1])
			if err := k.UnmarshalBinary(b); err != nil {
				return nil, err
			}
			return func() []byte {
				x, _ := k.MarshalBinary()
				y, _ := k.PublicKey().MarshalBinary()
				return append(x, y...)
			}, nil
		})
		b, _ = sk.PublicKey().MarshalBinary()
		add("bls.PublicKey[G1]", b, func(b []byte) (func() []byte, error) {
			k := new(bls.PublicKey[bls.G1])
			err := k.UnmarshalBinary(b)
			return mb(k), err
		})
	}
	{
		key, err := rsa.GenerateKey(rd, 1024)
		if err != nil {
			vlib.Die("rsa: %v", err)
		}
		shares, err := trsa.Deal(rd, 3, 2, key, false)
		if err != nil {
			vlib.Die("trsa.Deal: %v", err)
		}
		b, _ := shares[0].MarshalBinary()
		add("tss/rsa.KeyShare", b, func(b []byte) (func() []byte, error) {
			var k trsa.KeyShare
			err := k.UnmarshalBinary(b)
			return func() []byte { x, _ := k.MarshalBinary(); return x }, err
		})
	}
	{
		id := hpke.KEM_X25519_HKDF_SHA256
		suite := hpke.NewSuite(id, hpke.KDF_HKDF_SHA256, hpke.AEAD_AES128GCM)
		pk, sk := id.Scheme().DeriveKeyPair(vlib.Bytes(rng, 32))
		snd, _ := suite.NewSender(pk, nil)
		enc, sealer, err := snd.Setup(rd)
		if err != nil {
			vlib.Die("hpke: %v", err)
		}
		rcv, _ := suite.NewReceiver(sk, nil)
		opener, _ := rcv.Setup(enc)
		b, _ := sealer.MarshalBinary()
		add("hpke.Sealer", b, func(b []byte) (func() []byte, error) {
			s, err := hpke.UnmarshalSealer(b)
			if err != nil {
				return nil, err
			}
			return mb(s), nil
		})
		b, _ = opener.MarshalBinary()
		add("hpke.Opener", b, func(b []byte) (func() []byte, error) {
			s, err := hpke.UnmarshalOpener(b)
			if err != nil {
				return nil, err
			}
			return mb(s), nil
		})
	}
	for _, c := range cases {
		l := retainLine{Ev: "retain", Call: c.name}
		oc := vlib.Safe(120e9, func() {
			buf := append([]byte{}, c.enc...)
			ser, err := c.decode(buf)
			if err != nil {
				panic("own encoding refused: " + err.Error())
			}
			before := ser()
			for i := range buf {
				buf[i] ^= 0xff
			}
			l.Same = bytes.Equal(before, ser())
		})
		if oc.Bad() {
			l.Panics, l.Note = 1, oc.Panic
		}
		o.Emit(l)
	}
}
