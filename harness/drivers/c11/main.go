// Driver for C11 (sequential part): random call sequences with deliberate aliasing over pools of library objects.
// After every call the value token (canonical serialisation) of EVERY pool object is logged; spec/C11/PureCalls.tla
// decides whether the history is that of deterministic functions that change nothing but their receiver.
package main

import (
	"bytes"
	"crypto/sha256"
	"encoding/binary"
	"flag"
	"fmt"
	"math/rand"
	"time"

	"github.com/cloudflare/circl/dh/csidh"
	"github.com/cloudflare/circl/ecc/bls12381"
	"github.com/cloudflare/circl/ecc/fourq"
	"github.com/cloudflare/circl/ecc/goldilocks"
	"github.com/cloudflare/circl/group"
	"github.com/cloudflare/circl/kem/frodo/frodo640shake"
	"github.com/cloudflare/circl/kem/kyber/kyber768"
	"github.com/cloudflare/circl/kem/mlkem/mlkem768"
	"github.com/cloudflare/circl/math/polynomial"
	"github.com/cloudflare/circl/oprf"
	"github.com/cloudflare/circl/sign/bls"
	"github.com/cloudflare/circl/sign/mldsa/mldsa65"
	"github.com/cloudflare/circl/xof"
	"github.com/cloudflare/circl/zzverif/vlib"
)

type kind struct {
	name  string
	n     int
	token func(o interface{}) []byte
	init  func(rng *rand.Rand) interface{}
}

type call struct {
	recv *interface{}
	args []interface{}
	x    []byte
	rng  *rand.Rand
}

type op struct {
	name      string
	recv      int // kind of the receiver slot, -1: none (the call returns a value)
	args      []int
	recvIsArg bool // the receiver's old value is an input (in-place update)
	x         func(rng *rand.Rand, pool [][]interface{}) []byte
	do        func(c *call) []byte
	weight    int
	fresh     func() interface{} // decoding operations: the first decode of every input goes into a FRESH object (memo seed)
}

type domain struct {
	name    string
	kinds   []kind
	ops     []op
	prelude func(d *domain) [][3]interface{} // optional: forced first calls (op index, recv slot, x)
	calls   int
}

type event struct {
	Ev     string `json:"ev"`
	Tr     int    `json:"tr"`
	Dom    string `json:"dom"`
	Op     string `json:"op"`
	Recv   int    `json:"recv"`
	Args   []int  `json:"args"`
	X      int    `json:"x"`
	Res    int    `json:"res"`
	Post   []int  `json:"post"`
	Panics int    `json:"panics"`
	Note   string `json:"note"`
}

type tokens struct{ m map[string]int }

func (t *tokens) of(b []byte) int {
	h := sha256.Sum256(b)
	k := string(h[:])
	if v, ok := t.m[k]; ok {
		return v
	}
	t.m[k] = len(t.m) + 1
	return len(t.m)
}

func must(b []byte, err error) []byte {
	if err != nil {
		return []byte("error:" + err.Error())
	}
	return b
}

// outbuf returns an output buffer for a *To / Pack call: zeroed, or pre-filled - what such a call writes must not depend on what was there
func outbuf(rng *rand.Rand, n int) []byte {
	b := make([]byte, n)
	if rng.Intn(2) == 0 {
		for i := range b {
			b[i] = 0xff
		}
	}
	return b
}

func b2(v bool) []byte {
	if v {
		return []byte{1}
	}
	return []byte{0}
}

func bit(rng *rand.Rand, _ [][]interface{}) []byte { return []byte{byte(rng.Intn(2))} }

// ---------------------------------------------------------------- group.Group
func groupDomain(g group.Group, name string) *domain {
	const E, S, P = 0, 1, 2
	el := func(o interface{}) group.Element { return o.(group.Element) }
	sc := func(o interface{}) group.Scalar { return o.(group.Scalar) }
	d := &domain{name: "group." + name, calls: 260}
	d.kinds = []kind{
		{"elt", 5, func(o interface{}) []byte { return must(el(o).MarshalBinaryCompress()) },
			func(rng *rand.Rand) interface{} { return g.HashToElement(vlib.Bytes(rng, 8), []byte("c11")) }},
		{"scl", 4, func(o interface{}) []byte { return must(sc(o).MarshalBinary()) },
			func(rng *rand.Rand) interface{} { return g.HashToScalar(vlib.Bytes(rng, 8), []byte("c11")) }},
		{"poly", 2, func(o interface{}) []byte {
			p := o.(polynomial.Polynomial)
			var out []byte
			for i := 0; i <= p.Degree(); i++ {
				out = append(out, must(p.Coefficient(uint(i)).MarshalBinary())...)
			}
			return append(out, byte(p.Degree()))
		}, func(rng *rand.Rand) interface{} {
			return polynomial.New([]group.Scalar{g.HashToScalar(vlib.Bytes(rng, 8), nil), g.HashToScalar(vlib.Bytes(rng, 8), nil)})
		}},
	}
	// an interpolating polynomial through the nodes 1 and 2 (scalars the pool often holds: SetUint64 writes 0..3), seen through its values
	// at three points that are not nodes
	const L = 3
	u64 := func(v uint64) group.Scalar { return g.NewScalar().SetUint64(v) }
	d.kinds = append(d.kinds, kind{"lagrange", 2, func(o interface{}) []byte {
		lp := o.(polynomial.LagrangePolynomial)
		var out []byte
		for _, x := range []uint64{11, 12, 13} {
			out = append(out, must(lp.Evaluate(u64(x)).MarshalBinary())...)
		}
		return out
	}, func(rng *rand.Rand) interface{} {
		return polynomial.NewLagrangePolynomial([]group.Scalar{u64(1), u64(2)}, []group.Scalar{g.HashToScalar(vlib.Bytes(rng, 8), nil), g.HashToScalar(vlib.Bytes(rng, 8), nil)})
	}})
	encOf := func(k int, compressed bool) func(rng *rand.Rand, pool [][]interface{}) []byte {
		return func(rng *rand.Rand, pool [][]interface{}) []byte {
			o := pool[k][rng.Intn(len(pool[k]))]
			if k == E {
				if compressed && rng.Intn(2) == 0 {
					return must(el(o).MarshalBinaryCompress())
				}
				return must(el(o).MarshalBinary())
			}
			return must(sc(o).MarshalBinary())
		}
	}
	d.ops = []op{
		{name: "E.Add", recv: E, args: []int{E, E}, do: func(c *call) []byte { el(*c.recv).Add(el(c.args[0]), el(c.args[1])); return nil }, weight: 3},
		{name: "E.Dbl", recv: E, args: []int{E}, do: func(c *call) []byte { el(*c.recv).Dbl(el(c.args[0])); return nil }, weight: 2},
		{name: "E.Neg", recv: E, args: []int{E}, do: func(c *call) []byte { el(*c.recv).Neg(el(c.args[0])); return nil }, weight: 3},
		{name: "E.Mul", recv: E, args: []int{E, S}, do: func(c *call) []byte { el(*c.recv).Mul(el(c.args[0]), sc(c.args[1])); return nil }, weight: 2},
		{name: "E.MulGen", recv: E, args: []int{S}, do: func(c *call) []byte { el(*c.recv).MulGen(sc(c.args[0])); return nil }, weight: 2},
		{name: "E.Set", recv: E, args: []int{E}, do: func(c *call) []byte { el(*c.recv).Set(el(c.args[0])); return nil }, weight: 2},
		{name: "E.CMov", recv: E, args: []int{E}, recvIsArg: true, x: bit, do: func(c *call) []byte { el(*c.recv).CMov(int(c.x[0]), el(c.args[1])); return nil }, weight: 2},
		{name: "E.CSelect", recv: E, args: []int{E, E}, x: bit, do: func(c *call) []byte { el(*c.recv).CSelect(int(c.x[0]), el(c.args[0]), el(c.args[1])); return nil }, weight: 2},
		{name: "E.Copy", recv: E, args: []int{E}, do: func(c *call) []byte { *c.recv = el(c.args[0]).Copy(); return nil }, weight: 3},
		{name: "E.Generator", recv: E, do: func(c *call) []byte { *c.recv = g.Generator(); return nil }, weight: 3},
		{name: "E.Identity", recv: E, do: func(c *call) []byte { *c.recv = g.Identity(); return nil }, weight: 2},
		{name: "E.NewElement", recv: E, do: func(c *call) []byte { *c.recv = g.NewElement(); return nil }, weight: 1},
		{name: "E.Unmarshal", recv: E, x: encOf(E, true), do: func(c *call) []byte {
			if err := el(*c.recv).UnmarshalBinary(c.x); err != nil {
				panic(err)
			}
			return nil
		}, fresh: func() interface{} { return g.NewElement() }, weight: 3},
		{name: "E.IsEqual", recv: -1, args: []int{E, E}, do: func(c *call) []byte { return b2(el(c.args[0]).IsEqual(el(c.args[1]))) }, weight: 1},
		{name: "E.IsIdentity", recv: -1, args: []int{E}, do: func(c *call) []byte { return b2(el(c.args[0]).IsIdentity()) }, weight: 1},
		{name: "E.Marshal", recv: -1, args: []int{E}, do: func(c *call) []byte {
			return append(must(el(c.args[0]).MarshalBinary()), must(el(c.args[0]).MarshalBinaryCompress())...)
		}, weight: 2},
		{name: "S.Add", recv: S, args: []int{S, S}, do: func(c *call) []byte { sc(*c.recv).Add(sc(c.args[0]), sc(c.args[1])); return nil }, weight: 2},
		{name: "S.Sub", recv: S, args: []int{S, S}, do: func(c *call) []byte { sc(*c.recv).Sub(sc(c.args[0]), sc(c.args[1])); return nil }, weight: 2},
		{name: "S.Mul", recv: S, args: []int{S, S}, do: func(c *call) []byte { sc(*c.recv).Mul(sc(c.args[0]), sc(c.args[1])); return nil }, weight: 2},
		{name: "S.Neg", recv: S, args: []int{S}, do: func(c *call) []byte { sc(*c.recv).Neg(sc(c.args[0])); return nil }, weight: 2},
		{name: "S.Inv", recv: S, args: []int{S}, do: func(c *call) []byte { sc(*c.recv).Inv(sc(c.args[0])); return nil }, weight: 1},
		{name: "S.Set", recv: S, args: []int{S}, do: func(c *call) []byte { sc(*c.recv).Set(sc(c.args[0])); return nil }, weight: 3},
		{name: "S.SetUint64", recv: S, x: func(rng *rand.Rand, _ [][]interface{}) []byte { return []byte{byte(rng.Intn(4))} },
			do: func(c *call) []byte { sc(*c.recv).SetUint64(uint64(c.x[0])); return nil }, weight: 2},
		{name: "S.CMov", recv: S, args: []int{S}, recvIsArg: true, x: bit, do: func(c *call) []byte { sc(*c.recv).CMov(int(c.x[0]), sc(c.args[1])); return nil }, weight: 4},
		{name: "S.CSelect", recv: S, args: []int{S, S}, x: bit, do: func(c *call) []byte { sc(*c.recv).CSelect(int(c.x[0]), sc(c.args[0]), sc(c.args[1])); return nil }, weight: 4},
		{name: "S.Copy", recv: S, args: []int{S}, do: func(c *call) []byte { *c.recv = sc(c.args[0]).Copy(); return nil }, weight: 4},
		{name: "S.NewScalar", recv: S, do: func(c *call) []byte { *c.recv = g.NewScalar(); return nil }, weight: 1},
		{name: "S.Unmarshal", recv: S, x: encOf(S, false), do: func(c *call) []byte {
			if err := sc(*c.recv).UnmarshalBinary(c.x); err != nil {
				panic(err)
			}
			return nil
		}, fresh: func() interface{} { return g.NewScalar() }, weight: 2},
		{name: "S.IsEqual", recv: -1, args: []int{S, S}, do: func(c *call) []byte { return b2(sc(c.args[0]).IsEqual(sc(c.args[1]))) }, weight: 1},
		{name: "S.IsZero", recv: -1, args: []int{S}, do: func(c *call) []byte { return b2(sc(c.args[0]).IsZero()) }, weight: 1},
		{name: "S.Marshal", recv: -1, args: []int{S}, do: func(c *call) []byte { return must(sc(c.args[0]).MarshalBinary()) }, weight: 1},
		{name: "P.New", recv: P, args: []int{S, S, S}, do: func(c *call) []byte {
			*c.recv = polynomial.New([]group.Scalar{sc(c.args[0]), sc(c.args[1]), sc(c.args[2])})
			return nil
		}, weight: 3},
		{name: "P.Evaluate", recv: -1, args: []int{P, S}, do: func(c *call) []byte {
			return must(c.args[0].(polynomial.Polynomial).Evaluate(sc(c.args[1])).MarshalBinary())
		}, weight: 2},
		{name: "P.Coefficient", recv: S, args: []int{P}, x: func(rng *rand.Rand, _ [][]interface{}) []byte { return []byte{byte(rng.Intn(2))} },
			do: func(c *call) []byte {
				*c.recv = c.args[0].(polynomial.Polynomial).Coefficient(uint(c.x[0]))
				return nil
			}, weight: 3},
		{name: "L.New", recv: L, args: []int{S, S}, do: func(c *call) []byte {
			*c.recv = polynomial.NewLagrangePolynomial([]group.Scalar{u64(1), u64(2)}, []group.Scalar{sc(c.args[0]), sc(c.args[1])})
			return nil
		}, weight: 2},
		{name: "L.Evaluate", recv: S, args: []int{L, S}, do: func(c *call) []byte {
			*c.recv = c.args[0].(polynomial.LagrangePolynomial).Evaluate(sc(c.args[1]))
			return nil
		}, weight: 4},
		{name: "G.HashToElement", recv: E, x: func(rng *rand.Rand, _ [][]interface{}) []byte { return []byte{byte(rng.Intn(3))} },
			do: func(c *call) []byte { *c.recv = g.HashToElement(c.x, []byte("dst")); return nil }, weight: 1},
		{name: "G.Params", recv: -1, do: func(c *call) []byte { p := g.Params(); return []byte(fmt.Sprint(*p)) }, weight: 1},
	}
	return d
}

// ---------------------------------------------------------------- ecc/bls12381
func blsCurveDomain() *domain {
	const G1, G2, S = 0, 1, 2
	g1 := func(o interface{}) *bls12381.G1 { return o.(*bls12381.G1) }
	g2 := func(o interface{}) *bls12381.G2 { return o.(*bls12381.G2) }
	sc := func(o interface{}) *bls12381.Scalar { return o.(*bls12381.Scalar) }
	rs := func(rng *rand.Rand) *bls12381.Scalar {
		s := new(bls12381.Scalar)
		s.SetBytes(vlib.Bytes(rng, 40))
		return s
	}
	d := &domain{name: "ecc.bls12381", calls: 200}
	d.kinds = []kind{
		{"g1", 4, func(o interface{}) []byte { return g1(o).BytesCompressed() }, func(rng *rand.Rand) interface{} {
			p := new(bls12381.G1)
			p.ScalarMult(rs(rng), bls12381.G1Generator())
			return p
		}},
		{"g2", 3, func(o interface{}) []byte { return g2(o).BytesCompressed() }, func(rng *rand.Rand) interface{} {
			p := new(bls12381.G2)
			p.ScalarMult(rs(rng), bls12381.G2Generator())
			return p
		}},
		{"scalar", 3, func(o interface{}) []byte { return must(sc(o).MarshalBinary()) }, func(rng *rand.Rand) interface{} { return rs(rng) }},
	}
	enc := func(k int) func(rng *rand.Rand, pool [][]interface{}) []byte {
		return func(rng *rand.Rand, pool [][]interface{}) []byte {
			o := pool[k][rng.Intn(len(pool[k]))]
			c := rng.Intn(2) == 0
			switch k {
			case G1:
				if c {
					return g1(o).BytesCompressed()
				}
				return g1(o).Bytes()
			case G2:
				if c {
					return g2(o).BytesCompressed()
				}
				return g2(o).Bytes()
			}
			return must(sc(o).MarshalBinary())
		}
	}
	d.ops = []op{
		{name: "G1.Add", recv: G1, args: []int{G1, G1}, do: func(c *call) []byte { g1(*c.recv).Add(g1(c.args[0]), g1(c.args[1])); return nil }, weight: 3},
		{name: "G1.Double", recv: G1, recvIsArg: true, do: func(c *call) []byte { g1(*c.recv).Double(); return nil }, weight: 2},
		{name: "G1.Neg", recv: G1, recvIsArg: true, do: func(c *call) []byte { g1(*c.recv).Neg(); return nil }, weight: 3},
		{name: "G1.ScalarMult", recv: G1, args: []int{S, G1}, do: func(c *call) []byte { g1(*c.recv).ScalarMult(sc(c.args[0]), g1(c.args[1])); return nil }, weight: 2},
		{name: "G1.SetIdentity", recv: G1, do: func(c *call) []byte { g1(*c.recv).SetIdentity(); return nil }, weight: 1},
		{name: "G1.Generator", recv: G1, do: func(c *call) []byte { *c.recv = bls12381.G1Generator(); return nil }, weight: 3},
		{name: "G1.SetBytes", recv: G1, x: enc(G1), do: func(c *call) []byte {
			if err := g1(*c.recv).SetBytes(c.x); err != nil {
				panic(err)
			}
			return nil
		}, fresh: func() interface{} { return new(bls12381.G1) }, weight: 2},
		{name: "G1.IsEqual", recv: -1, args: []int{G1, G1}, do: func(c *call) []byte { return b2(g1(c.args[0]).IsEqual(g1(c.args[1]))) }, weight: 1},
		{name: "G1.Bytes", recv: -1, args: []int{G1}, do: func(c *call) []byte { return g1(c.args[0]).Bytes() }, weight: 1},
		{name: "G1.Hash", recv: G1, x: func(rng *rand.Rand, _ [][]interface{}) []byte { return []byte{byte(rng.Intn(3))} },
			do: func(c *call) []byte { g1(*c.recv).Hash(c.x, []byte("dst")); return nil }, weight: 1},
		{name: "G2.Add", recv: G2, args: []int{G2, G2}, do: func(c *call) []byte { g2(*c.recv).Add(g2(c.args[0]), g2(c.args[1])); return nil }, weight: 3},
		{name: "G2.Double", recv: G2, recvIsArg: true, do: func(c *call) []byte { g2(*c.recv).Double(); return nil }, weight: 2},
		{name: "G2.Neg", recv: G2, recvIsArg: true, do: func(c *call) []byte { g2(*c.recv).Neg(); return nil }, weight: 3},
		{name: "G2.ScalarMult", recv: G2, args: []int{S, G2}, do: func(c *call) []byte { g2(*c.recv).ScalarMult(sc(c.args[0]), g2(c.args[1])); return nil }, weight: 2},
		{name: "G2.Generator", recv: G2, do: func(c *call) []byte { *c.recv = bls12381.G2Generator(); return nil }, weight: 3},
		{name: "G2.SetBytes", recv: G2, x: enc(G2), do: func(c *call) []byte {
			if err := g2(*c.recv).SetBytes(c.x); err != nil {
				panic(err)
			}
			return nil
		}, fresh: func() interface{} { return new(bls12381.G2) }, weight: 2},
		{name: "G2.IsEqual", recv: -1, args: []int{G2, G2}, do: func(c *call) []byte { return b2(g2(c.args[0]).IsEqual(g2(c.args[1]))) }, weight: 1},
		{name: "Pair", recv: -1, args: []int{G1, G2}, do: func(c *call) []byte { return must(bls12381.Pair(g1(c.args[0]), g2(c.args[1])).MarshalBinary()) }, weight: 1},
		{name: "Sc.Add", recv: S, args: []int{S, S}, do: func(c *call) []byte { sc(*c.recv).Add(sc(c.args[0]), sc(c.args[1])); return nil }, weight: 2},
		{name: "Sc.Mul", recv: S, args: []int{S, S}, do: func(c *call) []byte { sc(*c.recv).Mul(sc(c.args[0]), sc(c.args[1])); return nil }, weight: 2},
		{name: "Sc.Sub", recv: S, args: []int{S, S}, do: func(c *call) []byte { sc(*c.recv).Sub(sc(c.args[0]), sc(c.args[1])); return nil }, weight: 1},
		{name: "Sc.Inv", recv: S, args: []int{S}, do: func(c *call) []byte { sc(*c.recv).Inv(sc(c.args[0])); return nil }, weight: 1},
		{name: "Sc.Neg", recv: S, recvIsArg: true, do: func(c *call) []byte { sc(*c.recv).Neg(); return nil }, weight: 1},
		{name: "Sc.Set", recv: S, args: []int{S}, do: func(c *call) []byte { sc(*c.recv).Set(sc(c.args[0])); return nil }, weight: 2},
		{name: "Sc.Unmarshal", recv: S, x: enc(S), do: func(c *call) []byte {
			if err := sc(*c.recv).UnmarshalBinary(c.x); err != nil {
				panic(err)
			}
			return nil
		}, fresh: func() interface{} { return new(bls12381.Scalar) }, weight: 1},
	}
	return d
}

// ---------------------------------------------------------------- goldilocks / fourq
func goldilocksDomain() *domain {
	const P, S = 0, 1
	var e goldilocks.Curve
	pt := func(o interface{}) *goldilocks.Point { return o.(*goldilocks.Point) }
	sc := func(o interface{}) *goldilocks.Scalar { return o.(*goldilocks.Scalar) }
	d := &domain{name: "ecc.goldilocks", calls: 160}
	d.kinds = []kind{
		{"point", 4, func(o interface{}) []byte { return must(pt(o).MarshalBinary()) }, func(rng *rand.Rand) interface{} {
			var k goldilocks.Scalar
			k.FromBytes(vlib.Bytes(rng, 56))
			return e.ScalarBaseMult(&k)
		}},
		{"scalar", 3, func(o interface{}) []byte { t := *sc(o); t.Red(); return t[:] }, func(rng *rand.Rand) interface{} {
			k := new(goldilocks.Scalar)
			k.FromBytes(vlib.Bytes(rng, 56))
			return k
		}},
	}
	d.ops = []op{
		{name: "ScalarMult", recv: P, args: []int{S, P}, do: func(c *call) []byte { *c.recv = e.ScalarMult(sc(c.args[0]), pt(c.args[1])); return nil }, weight: 3},
		{name: "ScalarBaseMult", recv: P, args: []int{S}, do: func(c *call) []byte { *c.recv = e.ScalarBaseMult(sc(c.args[0])); return nil }, weight: 2},
		{name: "CombinedMult", recv: P, args: []int{S, S, P}, do: func(c *call) []byte {
			*c.recv = e.CombinedMult(sc(c.args[0]), sc(c.args[1]), pt(c.args[2]))
			return nil
		}, weight: 2},
		{name: "Curve.Add", recv: P, args: []int{P, P}, do: func(c *call) []byte { *c.recv = e.Add(pt(c.args[0]), pt(c.args[1])); return nil }, weight: 2},
		{name: "Curve.Double", recv: P, args: []int{P}, do: func(c *call) []byte { *c.recv = e.Double(pt(c.args[0])); return nil }, weight: 2},
		{name: "Point.Add", recv: P, recvIsArg: true, args: []int{P}, do: func(c *call) []byte { pt(*c.recv).Add(pt(c.args[1])); return nil }, weight: 2},
		{name: "Point.Neg", recv: P, recvIsArg: true, do: func(c *call) []byte { pt(*c.recv).Neg(); return nil }, weight: 3},
		{name: "Generator", recv: P, do: func(c *call) []byte { *c.recv = e.Generator(); return nil }, weight: 3},
		{name: "Identity", recv: P, do: func(c *call) []byte { *c.recv = e.Identity(); return nil }, weight: 2},
		{name: "Unmarshal", recv: P, x: func(rng *rand.Rand, pool [][]interface{}) []byte {
			return must(pt(pool[P][rng.Intn(len(pool[P]))]).MarshalBinary())
		},
			do: func(c *call) []byte {
				if err := pt(*c.recv).UnmarshalBinary(c.x); err != nil {
					panic(err)
				}
				return nil
			}, fresh: func() interface{} { return new(goldilocks.Point) }, weight: 2},
		{name: "IsEqual", recv: -1, args: []int{P, P}, do: func(c *call) []byte { return b2(pt(c.args[0]).IsEqual(pt(c.args[1]))) }, weight: 1},
		{name: "Order", recv: S, do: func(c *call) []byte { o := e.Order(); *c.recv = &o; return nil }, weight: 1},
		{name: "S.Add", recv: S, args: []int{S, S}, do: func(c *call) []byte { sc(*c.recv).Add(sc(c.args[0]), sc(c.args[1])); return nil }, weight: 2},
		{name: "S.Mul", recv: S, args: []int{S, S}, do: func(c *call) []byte { sc(*c.recv).Mul(sc(c.args[0]), sc(c.args[1])); return nil }, weight: 2},
		{name: "S.Sub", recv: S, args: []int{S, S}, do: func(c *call) []byte { sc(*c.recv).Sub(sc(c.args[0]), sc(c.args[1])); return nil }, weight: 1},
		{name: "S.Neg", recv: S, recvIsArg: true, do: func(c *call) []byte { sc(*c.recv).Neg(); return nil }, weight: 2},
		{name: "S.IsZero", recv: -1, args: []int{S}, do: func(c *call) []byte { return b2(sc(c.args[0]).IsZero()) }, weight: 1},
	}
	return d
}

func fourqDomain() *domain {
	const P, K = 0, 1
	pt := func(o interface{}) *fourq.Point { return o.(*fourq.Point) }
	ks := func(o interface{}) *[32]byte { return o.(*[32]byte) }
	d := &domain{name: "ecc.fourq", calls: 160}
	d.kinds = []kind{
		{"point", 4, func(o interface{}) []byte { var b [32]byte; q := *pt(o); q.Marshal(&b); return b[:] }, func(rng *rand.Rand) interface{} {
			var k [32]byte
			rng.Read(k[:])
			p := new(fourq.Point)
			p.ScalarBaseMult(&k)
			return p
		}},
		{"scalar", 3, func(o interface{}) []byte { return ks(o)[:] }, func(rng *rand.Rand) interface{} { k := new([32]byte); rng.Read(k[:]); return k }},
	}
	d.ops = []op{
		{name: "ScalarMult", recv: P, args: []int{K, P}, do: func(c *call) []byte { pt(*c.recv).ScalarMult(ks(c.args[0]), pt(c.args[1])); return nil }, weight: 3},
		{name: "ScalarBaseMult", recv: P, args: []int{K}, do: func(c *call) []byte { pt(*c.recv).ScalarBaseMult(ks(c.args[0])); return nil }, weight: 2},
		{name: "Add", recv: P, args: []int{P, P}, do: func(c *call) []byte { pt(*c.recv).Add(pt(c.args[0]), pt(c.args[1])); return nil }, weight: 3},
		{name: "SetGenerator", recv: P, do: func(c *call) []byte { pt(*c.recv).SetGenerator(); return nil }, weight: 2},
		{name: "SetIdentity", recv: P, do: func(c *call) []byte { pt(*c.recv).SetIdentity(); return nil }, weight: 1},
		{name: "Unmarshal", recv: P, x: func(rng *rand.Rand, pool [][]interface{}) []byte {
			var b [32]byte
			q := *pt(pool[P][rng.Intn(len(pool[P]))])
			q.Marshal(&b)
			return b[:]
		},
			do: func(c *call) []byte {
				var b [32]byte
				copy(b[:], c.x)
				if !pt(*c.recv).Unmarshal(&b) {
					panic("unmarshal failed")
				}
				return nil
			}, fresh: func() interface{} { return new(fourq.Point) }, weight: 2},
		{name: "Params", recv: -1, do: func(c *call) []byte { p := fourq.Params(); return []byte(fmt.Sprint(p.Name, p.P, p.N, p.G.String())) }, weight: 1},
		{name: "IsOnCurve", recv: -1, args: []int{P}, do: func(c *call) []byte { return b2(pt(c.args[0]).IsOnCurve()) }, weight: 1},
	}
	return d
}

// ---------------------------------------------------------------- decoding into used key objects
func csidhDomain(rng *rand.Rand) *domain {
	const PUB, PRV = 0, 1
	var pubs, prvs [][]byte
	rd := vlib.SeededReader{R: rng}
	for i := 0; i < 3; i++ {
		var sk csidh.PrivateKey
		var pk csidh.PublicKey
		if err := csidh.GeneratePrivateKey(&sk, rd); err != nil {
			vlib.Die("csidh: %v", err)
		}
		csidh.GeneratePublicKey(&pk, &sk, rd)
		b := make([]byte, csidh.PublicKeySize)
		pk.Export(b)
		pubs = append(pubs, b)
		s := make([]byte, csidh.PrivateKeySize)
		sk.Export(s)
		prvs = append(prvs, s)
	}
	d := &domain{name: "dh.csidh", calls: 24}
	d.kinds = []kind{
		{"pub", 3, func(o interface{}) []byte {
			b := make([]byte, csidh.PublicKeySize)
			o.(*csidh.PublicKey).Export(b)
			return b
		},
			func(*rand.Rand) interface{} { return new(csidh.PublicKey) }},
		{"prv", 2, func(o interface{}) []byte {
			b := make([]byte, csidh.PrivateKeySize)
			o.(*csidh.PrivateKey).Export(b)
			return b
		},
			func(*rand.Rand) interface{} { return new(csidh.PrivateKey) }},
	}
	d.ops = []op{
		{name: "PublicKey.Import", recv: PUB, x: func(rng *rand.Rand, _ [][]interface{}) []byte { return pubs[rng.Intn(len(pubs))] },
			do: func(c *call) []byte {
				if !(*c.recv).(*csidh.PublicKey).Import(c.x) {
					panic("import failed")
				}
				return nil
			}, fresh: func() interface{} { return new(csidh.PublicKey) }, weight: 6},
		{name: "PrivateKey.Import", recv: PRV, x: func(rng *rand.Rand, _ [][]interface{}) []byte { return prvs[rng.Intn(len(prvs))] },
			do: func(c *call) []byte {
				if !(*c.recv).(*csidh.PrivateKey).Import(c.x) {
					panic("import failed")
				}
				return nil
			}, fresh: func() interface{} { return new(csidh.PrivateKey) }, weight: 4},
		{name: "DeriveSecret", recv: -1, args: []int{PUB, PRV}, do: func(c *call) []byte {
			var out [64]byte
			ok := csidh.DeriveSecret(&out, c.args[0].(*csidh.PublicKey), c.args[1].(*csidh.PrivateKey), vlib.SeededReader{R: c.rng})
			return append(out[:], b2(ok)...)
		}, weight: 1},
	}
	return d
}

func pqDomain(rng *rand.Rand) *domain {
	const KSK, KPK, MSK, MPK, DSK, DPK = 0, 1, 2, 3, 4, 5
	var ksk, kpk, msk, mpk, dsk, dpk, dsig [][]byte
	for i := 0; i < 3; i++ {
		pk, sk := kyber768.NewKeyFromSeed(vlib.Bytes(rng, kyber768.KeySeedSize))
		a, b := make([]byte, kyber768.PrivateKeySize), make([]byte, kyber768.PublicKeySize)
		sk.Pack(a)
		pk.Pack(b)
		ksk, kpk = append(ksk, a), append(kpk, b)
		pk2, sk2 := mlkem768.NewKeyFromSeed(vlib.Bytes(rng, mlkem768.KeySeedSize))
		a, b = make([]byte, mlkem768.PrivateKeySize), make([]byte, mlkem768.PublicKeySize)
		sk2.Pack(a)
		pk2.Pack(b)
		msk, mpk = append(msk, a), append(mpk, b)
		var seed [mldsa65.SeedSize]byte
		rng.Read(seed[:])
		pk3, sk3 := mldsa65.NewKeyFromSeed(&seed)
		dsk, dpk = append(dsk, sk3.Bytes()), append(dpk, pk3.Bytes())
		sg := make([]byte, mldsa65.SignatureSize)
		_ = mldsa65.SignTo(sk3, []byte("probe"), nil, false, sg)
		dsig = append(dsig, sg)
	}
	// The token of an ML-DSA key is its encoding followed by a probe of what the key does (the cached matrix and hash are not part of the
	// encoding): a public key verifies the probe signature of the key it encodes, a private key signs the probe message.
	pkToken := func(o interface{}) []byte {
		pk := o.(*mldsa65.PublicKey)
		b := pk.Bytes()
		for i := range dpk {
			if bytes.Equal(dpk[i], b) {
				return append(b, b2(mldsa65.Verify(pk, []byte("probe"), nil, dsig[i]))...)
			}
		}
		return b
	}
	skToken := func(o interface{}) []byte {
		sk := o.(*mldsa65.PrivateKey)
		sg := make([]byte, mldsa65.SignatureSize)
		_ = mldsa65.SignTo(sk, []byte("probe"), nil, false, sg)
		return append(sk.Bytes(), sg[:32]...)
	}
	pick := func(set *[][]byte) func(rng *rand.Rand, _ [][]interface{}) []byte {
		return func(rng *rand.Rand, _ [][]interface{}) []byte { return (*set)[rng.Intn(len(*set))] }
	}
	d := &domain{name: "pq.keys", calls: 120}
	d.kinds = []kind{
		{"kyber768.sk", 2, func(o interface{}) []byte {
			b := make([]byte, kyber768.PrivateKeySize)
			o.(*kyber768.PrivateKey).Pack(b)
			return b
		},
			func(*rand.Rand) interface{} { sk := new(kyber768.PrivateKey); sk.Unpack(ksk[0]); return sk }},
		{"kyber768.pk", 2, func(o interface{}) []byte {
			b := make([]byte, kyber768.PublicKeySize)
			o.(*kyber768.PublicKey).Pack(b)
			return b
		},
			func(*rand.Rand) interface{} { pk := new(kyber768.PublicKey); pk.Unpack(kpk[0]); return pk }},
		{"mlkem768.sk", 2, func(o interface{}) []byte {
			b := make([]byte, mlkem768.PrivateKeySize)
			o.(*mlkem768.PrivateKey).Pack(b)
			return b
		},
			func(*rand.Rand) interface{} { sk := new(mlkem768.PrivateKey); sk.Unpack(msk[0]); return sk }},
		{"mlkem768.pk", 2, func(o interface{}) []byte {
			b := make([]byte, mlkem768.PublicKeySize)
			o.(*mlkem768.PublicKey).Pack(b)
			return b
		},
			func(*rand.Rand) interface{} { pk := new(mlkem768.PublicKey); _ = pk.Unpack(mpk[0]); return pk }},
		{"mldsa65.sk", 2, skToken,
			func(*rand.Rand) interface{} { sk := new(mldsa65.PrivateKey); _ = sk.UnmarshalBinary(dsk[0]); return sk }},
		{"mldsa65.pk", 2, pkToken,
			func(*rand.Rand) interface{} { pk := new(mldsa65.PublicKey); _ = pk.UnmarshalBinary(dpk[0]); return pk }},
	}
	seed32 := func(rng *rand.Rand, _ [][]interface{}) []byte { return []byte{byte(rng.Intn(3))} }
	const FSK, FPK = 6, 7
	var fsk, fpk [][]byte
	for i := 0; i < 3; i++ {
		pk, sk := frodo640shake.Scheme().DeriveKeyPair(vlib.Bytes(rng, frodo640shake.KeySeedSize))
		a, _ := sk.MarshalBinary()
		b, _ := pk.MarshalBinary()
		fsk, fpk = append(fsk, a), append(fpk, b)
	}
	d.kinds = append(d.kinds,
		kind{"frodo.sk", 2, func(o interface{}) []byte {
			b := outbuf(rng, frodo640shake.PrivateKeySize)
			o.(*frodo640shake.PrivateKey).Pack(b)
			return b
		},
			func(*rand.Rand) interface{} { sk := new(frodo640shake.PrivateKey); sk.Unpack(fsk[0]); return sk }},
		kind{"frodo.pk", 2, func(o interface{}) []byte {
			b := outbuf(rng, frodo640shake.PublicKeySize)
			o.(*frodo640shake.PublicKey).Pack(b)
			return b
		},
			func(*rand.Rand) interface{} { pk := new(frodo640shake.PublicKey); pk.Unpack(fpk[0]); return pk }})
	d.ops = []op{
		{name: "kyber.sk.Unpack", recv: KSK, x: pick(&ksk), do: func(c *call) []byte { (*c.recv).(*kyber768.PrivateKey).Unpack(c.x); return nil }, fresh: func() interface{} { return new(kyber768.PrivateKey) }, weight: 3},
		{name: "kyber.pk.Unpack", recv: KPK, x: pick(&kpk), do: func(c *call) []byte { (*c.recv).(*kyber768.PublicKey).Unpack(c.x); return nil }, fresh: func() interface{} { return new(kyber768.PublicKey) }, weight: 3},
		{name: "kyber.EncapDecap", recv: -1, args: []int{KPK, KSK}, x: seed32, do: func(c *call) []byte {
			ct, ss, ss2 := outbuf(c.rng, kyber768.CiphertextSize), outbuf(c.rng, 32), outbuf(c.rng, 32)
			c.args[0].(*kyber768.PublicKey).EncapsulateTo(ct, ss, bytes.Repeat(c.x, 32))
			c.args[1].(*kyber768.PrivateKey).DecapsulateTo(ss2, ct)
			return append(append(ct, ss...), ss2...)
		}, weight: 2},
		{name: "kyber.sk.Public", recv: KPK, args: []int{KSK}, do: func(c *call) []byte {
			*c.recv = c.args[0].(*kyber768.PrivateKey).Public().(*kyber768.PublicKey)
			return nil
		}, weight: 2},
		{name: "mlkem.sk.Unpack", recv: MSK, x: pick(&msk), do: func(c *call) []byte { (*c.recv).(*mlkem768.PrivateKey).Unpack(c.x); return nil }, fresh: func() interface{} { return new(mlkem768.PrivateKey) }, weight: 3},
		{name: "mlkem.pk.Unpack", recv: MPK, x: pick(&mpk), do: func(c *call) []byte {
			if err := (*c.recv).(*mlkem768.PublicKey).Unpack(c.x); err != nil {
				panic(err)
			}
			return nil
		}, fresh: func() interface{} { return new(mlkem768.PublicKey) }, weight: 3},
		{name: "mlkem.EncapDecap", recv: -1, args: []int{MPK, MSK}, x: seed32, do: func(c *call) []byte {
			ct, ss, ss2 := outbuf(c.rng, mlkem768.CiphertextSize), outbuf(c.rng, 32), outbuf(c.rng, 32)
			c.args[0].(*mlkem768.PublicKey).EncapsulateTo(ct, ss, bytes.Repeat(c.x, 32))
			c.args[1].(*mlkem768.PrivateKey).DecapsulateTo(ss2, ct)
			return append(append(ct, ss...), ss2...)
		}, weight: 2},
		{name: "mlkem.sk.Public", recv: MPK, args: []int{MSK}, do: func(c *call) []byte {
			*c.recv = c.args[0].(*mlkem768.PrivateKey).Public().(*mlkem768.PublicKey)
			return nil
		}, weight: 2},
		{name: "frodo.sk.Unpack", recv: FSK, x: pick(&fsk), do: func(c *call) []byte { (*c.recv).(*frodo640shake.PrivateKey).Unpack(c.x); return nil }, fresh: func() interface{} { return new(frodo640shake.PrivateKey) }, weight: 3},
		{name: "frodo.pk.Unpack", recv: FPK, x: pick(&fpk), do: func(c *call) []byte { (*c.recv).(*frodo640shake.PublicKey).Unpack(c.x); return nil }, fresh: func() interface{} { return new(frodo640shake.PublicKey) }, weight: 3},
		{name: "frodo.EncapDecap", recv: -1, args: []int{FPK, FSK}, x: seed32, do: func(c *call) []byte {
			ct, ss, ss2 := outbuf(c.rng, frodo640shake.CiphertextSize), outbuf(c.rng, frodo640shake.SharedKeySize), outbuf(c.rng, frodo640shake.SharedKeySize)
			c.args[0].(*frodo640shake.PublicKey).EncapsulateTo(ct, ss, bytes.Repeat(c.x, frodo640shake.EncapsulationSeedSize))
			c.args[1].(*frodo640shake.PrivateKey).DecapsulateTo(ss2, ct)
			return append(append(ct, ss...), ss2...)
		}, weight: 2},
		{name: "frodo.sk.Public", recv: FPK, args: []int{FSK}, do: func(c *call) []byte {
			*c.recv = c.args[0].(*frodo640shake.PrivateKey).Public().(*frodo640shake.PublicKey)
			return nil
		}, weight: 2},
		{name: "mldsa.sk.Unmarshal", recv: DSK, x: pick(&dsk), do: func(c *call) []byte {
			if err := (*c.recv).(*mldsa65.PrivateKey).UnmarshalBinary(c.x); err != nil {
				panic(err)
			}
			return nil
		}, fresh: func() interface{} { return new(mldsa65.PrivateKey) }, weight: 3},
		{name: "mldsa.pk.Unmarshal", recv: DPK, x: pick(&dpk), do: func(c *call) []byte {
			if err := (*c.recv).(*mldsa65.PublicKey).UnmarshalBinary(c.x); err != nil {
				panic(err)
			}
			return nil
		}, fresh: func() interface{} { return new(mldsa65.PublicKey) }, weight: 3},
		{name: "mldsa.SignVerify", recv: -1, args: []int{DSK, DPK}, x: seed32, do: func(c *call) []byte {
			sig := make([]byte, mldsa65.SignatureSize)
			if err := mldsa65.SignTo(c.args[0].(*mldsa65.PrivateKey), c.x, nil, false, sig); err != nil {
				panic(err)
			}
			return append(sig, b2(mldsa65.Verify(c.args[1].(*mldsa65.PublicKey), c.x, nil, sig))...)
		}, weight: 2},
		{name: "mldsa.sk.Public", recv: DPK, args: []int{DSK}, do: func(c *call) []byte {
			*c.recv = c.args[0].(*mldsa65.PrivateKey).Public().(*mldsa65.PublicKey)
			return nil
		}, weight: 2},
	}
	return d
}

func cachedKeyDomain(rng *rand.Rand) *domain {
	const B1, B2, O, P1, P2, OP = 0, 1, 2, 3, 4, 5
	var b1, b2k, ok, p1, p2, opk [][]byte
	suite := oprf.SuiteP256
	for i := 0; i < 3; i++ {
		k1, err := bls.KeyGen[bls.G1](vlib.Bytes(rng, 32), nil, nil)
		if err != nil {
			vlib.Die("bls: %v", err)
		}
		b1 = append(b1, must(k1.MarshalBinary()))
		p1 = append(p1, must(k1.PublicKey().MarshalBinary()))
		k2, _ := bls.KeyGen[bls.G2](vlib.Bytes(rng, 32), nil, nil)
		b2k = append(b2k, must(k2.MarshalBinary()))
		p2 = append(p2, must(k2.PublicKey().MarshalBinary()))
		k3, err := oprf.DeriveKey(suite, oprf.BaseMode, vlib.Bytes(rng, 32), nil)
		if err != nil {
			vlib.Die("oprf: %v", err)
		}
		ok = append(ok, must(k3.MarshalBinary()))
		opk = append(opk, must(k3.Public().MarshalBinary()))
	}
	pick := func(set *[][]byte) func(rng *rand.Rand, _ [][]interface{}) []byte {
		return func(rng *rand.Rand, _ [][]interface{}) []byte { return (*set)[rng.Intn(len(*set))] }
	}
	d := &domain{name: "cached.keys", calls: 120}
	// the value of a private-key object is what it says about itself: its bytes AND the public key it hands out
	d.kinds = []kind{
		{"bls.G1.sk", 2, func(o interface{}) []byte {
			k := o.(*bls.PrivateKey[bls.G1])
			return append(must(k.MarshalBinary()), must(k.PublicKey().MarshalBinary())...)
		}, func(*rand.Rand) interface{} { k := new(bls.PrivateKey[bls.G1]); _ = k.UnmarshalBinary(b1[0]); return k }},
		{"bls.G2.sk", 2, func(o interface{}) []byte {
			k := o.(*bls.PrivateKey[bls.G2])
			return append(must(k.MarshalBinary()), must(k.PublicKey().MarshalBinary())...)
		}, func(*rand.Rand) interface{} {
			k := new(bls.PrivateKey[bls.G2])
			_ = k.UnmarshalBinary(b2k[0])
			return k
		}},
		{"oprf.sk", 2, func(o interface{}) []byte {
			k := o.(*oprf.PrivateKey)
			return append(must(k.MarshalBinary()), must(k.Public().MarshalBinary())...)
		}, func(*rand.Rand) interface{} { k := new(oprf.PrivateKey); _ = k.UnmarshalBinary(suite, ok[0]); return k }},
		// the public keys the private keys hand out: a caller may decode another key into such an object
		{"bls.G1.pk", 2, func(o interface{}) []byte { return must(o.(*bls.PublicKey[bls.G1]).MarshalBinary()) },
			func(*rand.Rand) interface{} { k := new(bls.PublicKey[bls.G1]); _ = k.UnmarshalBinary(p1[0]); return k }},
		{"bls.G2.pk", 2, func(o interface{}) []byte { return must(o.(*bls.PublicKey[bls.G2]).MarshalBinary()) },
			func(*rand.Rand) interface{} { k := new(bls.PublicKey[bls.G2]); _ = k.UnmarshalBinary(p2[0]); return k }},
		{"oprf.pk", 2, func(o interface{}) []byte { return must(o.(*oprf.PublicKey).MarshalBinary()) },
			func(*rand.Rand) interface{} { k := new(oprf.PublicKey); _ = k.UnmarshalBinary(suite, opk[0]); return k }},
	}
	d.ops = []op{
		{name: "bls.G1.sk.PublicKey", recv: P1, args: []int{B1}, do: func(c *call) []byte { *c.recv = c.args[0].(*bls.PrivateKey[bls.G1]).PublicKey(); return nil }, weight: 2},
		{name: "bls.G2.sk.PublicKey", recv: P2, args: []int{B2}, do: func(c *call) []byte { *c.recv = c.args[0].(*bls.PrivateKey[bls.G2]).PublicKey(); return nil }, weight: 2},
		{name: "oprf.sk.Public", recv: OP, args: []int{O}, do: func(c *call) []byte { *c.recv = c.args[0].(*oprf.PrivateKey).Public(); return nil }, weight: 2},
		{name: "bls.G1.pk.Unmarshal", recv: P1, x: pick(&p1), do: func(c *call) []byte {
			if err := (*c.recv).(*bls.PublicKey[bls.G1]).UnmarshalBinary(c.x); err != nil {
				panic(err)
			}
			return nil
		}, fresh: func() interface{} { return new(bls.PublicKey[bls.G1]) }, weight: 2},
		{name: "bls.G2.pk.Unmarshal", recv: P2, x: pick(&p2), do: func(c *call) []byte {
			if err := (*c.recv).(*bls.PublicKey[bls.G2]).UnmarshalBinary(c.x); err != nil {
				panic(err)
			}
			return nil
		}, fresh: func() interface{} { return new(bls.PublicKey[bls.G2]) }, weight: 2},
		{name: "oprf.pk.Unmarshal", recv: OP, x: pick(&opk), do: func(c *call) []byte {
			if err := (*c.recv).(*oprf.PublicKey).UnmarshalBinary(suite, c.x); err != nil {
				panic(err)
			}
			return nil
		}, fresh: func() interface{} { return new(oprf.PublicKey) }, weight: 2},
		{name: "bls.G1.Unmarshal", recv: B1, x: pick(&b1), do: func(c *call) []byte {
			if err := (*c.recv).(*bls.PrivateKey[bls.G1]).UnmarshalBinary(c.x); err != nil {
				panic(err)
			}
			return nil
		}, fresh: func() interface{} { return new(bls.PrivateKey[bls.G1]) }, weight: 3},
		{name: "bls.G2.Unmarshal", recv: B2, x: pick(&b2k), do: func(c *call) []byte {
			if err := (*c.recv).(*bls.PrivateKey[bls.G2]).UnmarshalBinary(c.x); err != nil {
				panic(err)
			}
			return nil
		}, fresh: func() interface{} { return new(bls.PrivateKey[bls.G2]) }, weight: 3},
		{name: "oprf.Unmarshal", recv: O, x: pick(&ok), do: func(c *call) []byte {
			if err := (*c.recv).(*oprf.PrivateKey).UnmarshalBinary(suite, c.x); err != nil {
				panic(err)
			}
			return nil
		}, fresh: func() interface{} { return new(oprf.PrivateKey) }, weight: 3},
		{name: "bls.G1.SignVerify", recv: -1, args: []int{B1}, do: func(c *call) []byte {
			k := c.args[0].(*bls.PrivateKey[bls.G1])
			sig := bls.Sign(k, []byte("m"))
			return append(sig, b2(bls.Verify(k.PublicKey(), []byte("m"), sig))...)
		}, weight: 1},
		{name: "oprf.Evaluate", recv: -1, args: []int{O}, do: func(c *call) []byte {
			k := c.args[0].(*oprf.PrivateKey)
			out, err := oprf.NewServer(suite, k).FullEvaluate([]byte("in"))
			return must(out, err)
		}, weight: 1},
	}
	return d
}

// ---------------------------------------------------------------- XOF states
func xofDomain(id xof.ID, name string) *domain {
	const A, Q = 0, 1
	peek := func(o interface{}) []byte {
		b := make([]byte, 16)
		c := o.(xof.XOF).Clone()
		_, _ = c.Read(b)
		return b
	}
	d := &domain{name: "xof." + name, calls: 120}
	d.kinds = []kind{
		{"absorbing", 3, peek, func(rng *rand.Rand) interface{} { h := id.New(); _, _ = h.Write(vlib.Bytes(rng, 3)); return h }},
		{"squeezing", 3, peek, func(rng *rand.Rand) interface{} {
			h := id.New()
			_, _ = h.Write(vlib.Bytes(rng, 3))
			b := make([]byte, 1)
			_, _ = h.Read(b)
			return h
		}},
	}
	data := func(rng *rand.Rand, _ [][]interface{}) []byte {
		return bytes.Repeat([]byte{byte(rng.Intn(3))}, []int{1, 135, 136, 168, 200}[rng.Intn(5)])
	}
	d.ops = []op{
		{name: "Write", recv: A, recvIsArg: true, x: data, do: func(c *call) []byte { _, _ = (*c.recv).(xof.XOF).Write(c.x); return nil }, weight: 3},
		{name: "Clone", recv: A, args: []int{A}, do: func(c *call) []byte { *c.recv = c.args[0].(xof.XOF).Clone(); return nil }, weight: 3},
		{name: "Reset", recv: A, do: func(c *call) []byte { (*c.recv).(xof.XOF).Reset(); return nil }, weight: 1},
		{name: "StartSqueeze", recv: Q, args: []int{A}, do: func(c *call) []byte {
			h := c.args[0].(xof.XOF).Clone()
			b := make([]byte, 1)
			_, _ = h.Read(b)
			*c.recv = h
			return nil
		}, weight: 2},
		{name: "Read", recv: Q, recvIsArg: true, x: func(rng *rand.Rand, _ [][]interface{}) []byte {
			return []byte{byte([]int{1, 7, 136, 168, 169}[rng.Intn(5)])}
		},
			do: func(c *call) []byte { b := make([]byte, int(c.x[0])); _, _ = (*c.recv).(xof.XOF).Read(b); return nil }, weight: 3},
		{name: "CloneSqueezing", recv: Q, args: []int{Q}, do: func(c *call) []byte { *c.recv = c.args[0].(xof.XOF).Clone(); return nil }, weight: 3},
	}
	return d
}

// ---------------------------------------------------------------- runner
func runDomain(d *domain, tr int, rng *rand.Rand, o *vlib.Out, calls int) {
	tk := &tokens{m: map[string]int{}}
	pool := make([][]interface{}, len(d.kinds))
	base := make([]int, len(d.kinds))
	total := 0
	for k := range d.kinds {
		base[k] = total
		for i := 0; i < d.kinds[k].n; i++ {
			pool[k] = append(pool[k], d.kinds[k].init(rng))
		}
		total += d.kinds[k].n
	}
	snapshot := func() []int {
		out := make([]int, 0, total)
		for k := range d.kinds {
			for _, ob := range pool[k] {
				out = append(out, tk.of(d.kinds[k].token(ob)))
			}
		}
		return out
	}
	o.Emit(event{Ev: "start", Tr: tr, Dom: d.name, Args: []int{}, Post: snapshot()})
	seen := map[string]bool{}
	wsum := 0
	for _, p := range d.ops {
		wsum += p.weight
	}
	// derived: the (kind, index) of the object the previous call derived something from, when that something went into an object of
	// another kind (sk.Public and the like).  Half of the time the next call then decodes another value into that very object, in place,
	// so that storage shared between the two shows as a change of the derived object.
	derived := [2]int{-1, -1}
	produced := [2]int{-1, -1} // and the (kind, index) of the object that call wrote: the other half of the next calls decodes into THAT one in place
	for n := 0; n < calls; n++ {
		r := rng.Intn(wsum)
		var p *op
		for i := range d.ops {
			if r < d.ops[i].weight {
				p = &d.ops[i]
				break
			}
			r -= d.ops[i].weight
		}
		forced := -1
		if derived[0] >= 0 && rng.Intn(2) == 0 {
			target := derived
			if rng.Intn(2) == 0 {
				target = produced
			}
			for i := range d.ops {
				if d.ops[i].fresh != nil && d.ops[i].recv == target[0] {
					p, forced = &d.ops[i], target[1]
					break
				}
			}
		}
		derived, produced = [2]int{-1, -1}, [2]int{-1, -1}
		e := event{Ev: "call", Tr: tr, Dom: d.name, Op: p.name, Args: []int{}}
		c := &call{rng: rng}
		if p.recv >= 0 {
			i := rng.Intn(len(pool[p.recv]))
			if forced >= 0 {
				i = forced
			}
			c.recv = &pool[p.recv][i]
			e.Recv = base[p.recv] + i + 1
			if p.recvIsArg {
				c.args = append(c.args, *c.recv)
				e.Args = append(e.Args, e.Recv)
			}
		}
		for _, k := range p.args {
			i := rng.Intn(len(pool[k]))
			if p.recv == k && rng.Intn(3) == 0 { // aliasing on purpose: an argument is the receiver
				i = e.Recv - base[k] - 1
			}
			c.args = append(c.args, pool[k][i])
			e.Args = append(e.Args, base[k]+i+1)
			if p.recv >= 0 && p.recv != k && len(p.args) == 1 {
				derived = [2]int{k, i}
				produced = [2]int{p.recv, e.Recv - base[p.recv] - 1}
			}
		}
		if p.x != nil {
			c.x = p.x(rng, pool)
			e.X = tk.of(append([]byte("x:"), c.x...))
		}
		if p.fresh != nil {
			k := fmt.Sprintf("%s/%d", p.name, e.X)
			if forced < 0 && (!seen[k] || rng.Intn(4) == 0) {
				*c.recv = p.fresh()
			}
			seen[k] = true
		}
		var ret []byte
		oc := vlib.Safe(120*time.Second, func() { ret = p.do(c) })
		if oc.Bad() {
			e.Panics, e.Note = 1, oc.Panic
			o.Emit(e)
			return
		}
		e.Post = snapshot()
		if p.recv >= 0 {
			e.Res = e.Post[e.Recv-1]
		} else {
			e.Res = tk.of(append([]byte("ret:"), ret...))
		}
		o.Emit(e)
	}
}

func main() {
	out := flag.String("out", "trace.ndjson", "")
	seed := flag.Int64("seed", 1, "")
	reps := flag.Int("reps", 1, "")
	scale := flag.Int("scale", 1, "")
	argsOut := flag.String("args", "", "")
	flag.Parse()
	if *argsOut != "" {
		argsGuard(*argsOut, vlib.Rng(*seed, "c11-args"), 3**reps)
	}
	o := vlib.Create(*out)
	defer o.Close()
	tr := 0
	for rep := 0; rep < *reps; rep++ {
		rng := vlib.Rng(*seed, fmt.Sprintf("c11-%d", rep))
		doms := []*domain{groupDomain(group.P256, "P256"), groupDomain(group.P384, "P384"), groupDomain(group.P521, "P521"),
			groupDomain(group.Ristretto255, "Ristretto255"), blsCurveDomain(), goldilocksDomain(), fourqDomain(), csidhDomain(rng), pqDomain(rng),
			cachedKeyDomain(rng), xofDomain(xof.SHAKE128, "SHAKE128"), xofDomain(xof.SHAKE256, "SHAKE256"), xofDomain(xof.BLAKE2XB, "BLAKE2XB"),
			xofDomain(xof.BLAKE2XS, "BLAKE2XS"), xofDomain(xof.K12D10, "K12D10")}
		for _, d := range doms {
			tr++
			runDomain(d, tr, rng, o, d.calls**scale)
		}
	}
	_ = binary.LittleEndian
	fmt.Printf("lines=%d\n", o.N)
}
