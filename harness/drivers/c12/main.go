// Driver for C12 (exported field and scalar types): fp25519, fp448, Goldilocks scalars, BLS12-381 Fp / Scalar,
// Prio3 fp64 / fp128, and the scalars of the group package (P-256, P-384, P-521, ristretto255).
// Unexported fields (P-384, FourQ, CSIDH, Ed25519 scalar reduction) are recorded by in-package tests that use
// the same runner (harness/intree/*).  The build tag / GODEBUG configuration is chosen by the orchestrator.
package main

import (
	"crypto/elliptic"
	"flag"
	"fmt"
	"math/big"
	"sync"

	"github.com/cloudflare/circl/ecc/bls12381/ff"
	"github.com/cloudflare/circl/ecc/goldilocks"
	"github.com/cloudflare/circl/group"
	"github.com/cloudflare/circl/math/fp25519"
	"github.com/cloudflare/circl/math/fp448"
	"github.com/cloudflare/circl/vdaf/prio3/arith/fp128"
	"github.com/cloudflare/circl/vdaf/prio3/arith/fp64"
	"github.com/cloudflare/circl/zzverif/fieldrun"
	"github.com/cloudflare/circl/zzverif/vlib"
)

func pow2(n uint) *big.Int { return new(big.Int).Lsh(big.NewInt(1), n) }
func m1(x *big.Int) *big.Int { return new(big.Int).Sub(x, big.NewInt(1)) }

func fields(impl string) []*fieldrun.Field {
	var fs []*fieldrun.Field
	{ // GF(2^255-19): any 32-byte string is an element
		var r [4]fp25519.Elt
		p := fp25519.P()
		f := &fieldrun.Field{Name: "fp25519", Impl: "math/fp25519 " + impl, P: vlib.FromLE(p[:]), Max: m1(pow2(256)), NRegs: 4, FoldBits: 256,
			Set: func(i int, v *big.Int) { copy(r[i][:], vlib.ToLE(v, 32)) }, Get: func(i int) *big.Int { return vlib.FromLE(r[i][:]) },
			Mul: func(z, x, y int) { fp25519.Mul(&r[z], &r[x], &r[y]) }, Add: func(z, x, y int) { fp25519.Add(&r[z], &r[x], &r[y]) },
			Sub: func(z, x, y int) { fp25519.Sub(&r[z], &r[x], &r[y]) }, Sqr: func(z, x int) { fp25519.Sqr(&r[z], &r[x]) },
			Neg: func(z, x int) { fp25519.Neg(&r[z], &r[x]) }, Inv: func(z, x int) { fp25519.Inv(&r[z], &r[x]) },
			Canon:  func(z, x int) { r[z] = r[x]; fp25519.Modp(&r[z]) },
			AddSub: func(x, y int) { fp25519.AddSub(&r[x], &r[y]) }, IsZero: func(x int) bool { return fp25519.IsZero(&r[x]) },
			Cmov:  func(z, y int, b bool) { fp25519.Cmov(&r[z], &r[y], bu(b)) },
			Cswap: func(x, y int, b bool) { fp25519.Cswap(&r[x], &r[y], bu(b)) },
			SqrtRatio: func(z, x, y int) bool { return fp25519.InvSqrt(&r[z], &r[x], &r[y]) }, InvZeroDefined: true}
		fs = append(fs, f)
		// ToBytes as a second canonicaliser
		g := *f
		g.Mul, g.Add, g.Sub, g.Sqr, g.Neg, g.Inv, g.AddSub, g.IsZero, g.Cmov, g.Cswap, g.SqrtRatio = nil, nil, nil, nil, nil, nil, nil, nil, nil, nil, nil
		g.Impl = "math/fp25519.ToBytes " + impl
		g.Canon = func(z, x int) {
			var b [32]byte
			if err := fp25519.ToBytes(b[:], &r[x]); err != nil {
				vlib.Die("fp25519.ToBytes: %v", err)
			}
			copy(r[z][:], b[:])
		}
		fs = append(fs, &g)
	}
	{ // GF(2^448-2^224-1)
		var r [4]fp448.Elt
		p := fp448.P()
		f := &fieldrun.Field{Name: "fp448", Impl: "math/fp448 " + impl, P: vlib.FromLE(p[:]), Max: m1(pow2(448)), NRegs: 4, FoldBits: 448,
			Set: func(i int, v *big.Int) { copy(r[i][:], vlib.ToLE(v, 56)) }, Get: func(i int) *big.Int { return vlib.FromLE(r[i][:]) },
			Mul: func(z, x, y int) { fp448.Mul(&r[z], &r[x], &r[y]) }, Add: func(z, x, y int) { fp448.Add(&r[z], &r[x], &r[y]) },
			Sub: func(z, x, y int) { fp448.Sub(&r[z], &r[x], &r[y]) }, Sqr: func(z, x int) { fp448.Sqr(&r[z], &r[x]) },
			Neg: func(z, x int) { fp448.Neg(&r[z], &r[x]) }, Inv: func(z, x int) { fp448.Inv(&r[z], &r[x]) },
			Canon:  func(z, x int) { r[z] = r[x]; fp448.Modp(&r[z]) },
			AddSub: func(x, y int) { fp448.AddSub(&r[x], &r[y]) }, IsZero: func(x int) bool { return fp448.IsZero(&r[x]) },
			Cmov:  func(z, y int, b bool) { fp448.Cmov(&r[z], &r[y], bu(b)) },
			Cswap: func(x, y int, b bool) { fp448.Cswap(&r[x], &r[y], bu(b)) },
			SqrtRatio: func(z, x, y int) bool { return fp448.InvSqrt(&r[z], &r[x], &r[y]) }, InvZeroDefined: true}
		fs = append(fs, f)
	}
	{ // Goldilocks scalars: values produced by the API are reduced; FromBytes reduces any byte string
		var r [4]goldilocks.Scalar
		ord := goldilocks.Curve{}.Order()
		P := vlib.FromLE(ord[:])
		f := &fieldrun.Field{Name: "goldilocksscalar", Impl: "ecc/goldilocks.Scalar " + impl, P: P, Max: m1(P), NRegs: 4,
			Set: func(i int, v *big.Int) { copy(r[i][:], vlib.ToLE(v, 56)) }, Get: func(i int) *big.Int { return vlib.FromLE(r[i][:]) },
			Mul: func(z, x, y int) { r[z].Mul(&r[x], &r[y]) }, Add: func(z, x, y int) { r[z].Add(&r[x], &r[y]) },
			Sub: func(z, x, y int) { r[z].Sub(&r[x], &r[y]) },
			Neg: func(z, x int) { r[z] = r[x]; r[z].Neg() },
			Canon: func(z, x int) { r[z] = r[x]; r[z].Red() }, IsZero: func(x int) bool { return r[x].IsZero() },
			FromBytes: func(z int, v *big.Int) bool { r[z].FromBytes(vlib.ToLE(v, (v.BitLen()+7)/8+1)); return true }, FromBytesMax: m1(pow2(912))}
		fs = append(fs, f)
		// Red on a full-width (unreduced) 56-byte scalar: the type admits it and Red is its canonicaliser
		g := &fieldrun.Field{Name: "goldilocksscalar", Impl: "ecc/goldilocks.Scalar.Red(unreduced) " + impl, P: P, Max: m1(pow2(448)), NRegs: 4,
			Set: f.Set, Get: f.Get, Canon: f.Canon, IsZero: f.IsZero}
		fs = append(fs, g)
		// and the arithmetic on full-width operands: a Scalar is an exported [56]byte, Mul / Neg / Red / FromBytes take any value of it
		fs = append(fs, &fieldrun.Field{Name: "goldilocksscalar", Impl: "ecc/goldilocks.Scalar(unreduced operands) " + impl, P: P, Max: m1(pow2(448)), NRegs: 4,
			Set: f.Set, Get: f.Get, Mul: f.Mul, Add: f.Add, Sub: f.Sub, Neg: f.Neg, Canon: f.Canon, IsZero: f.IsZero})
	}
	{ // BLS12-381 base field and scalar field (Montgomery form inside; values through big-endian bytes)
		var r [4]ff.Fp
		P := new(big.Int).SetBytes(ff.FpOrder())
		fs = append(fs, &fieldrun.Field{Name: "bls12381fp", Impl: "ecc/bls12381/ff.Fp " + impl, P: P, Max: m1(P), NRegs: 4,
			Set: func(i int, v *big.Int) { r[i].SetBytes(v.Bytes()) },
			Get: func(i int) *big.Int { b, _ := r[i].MarshalBinary(); return new(big.Int).SetBytes(b) },
			Mul: func(z, x, y int) { r[z].Mul(&r[x], &r[y]) }, Add: func(z, x, y int) { r[z].Add(&r[x], &r[y]) },
			Sub: func(z, x, y int) { r[z].Sub(&r[x], &r[y]) }, Sqr: func(z, x int) { r[z].Sqr(&r[x]) },
			Neg: func(z, x int) { r[z] = r[x]; r[z].Neg() }, Inv: func(z, x int) { r[z].Inv(&r[x]) },
			IsZero: func(x int) bool { return r[x].IsZero() == 1 }, Eq: func(x, y int) bool { return r[x].IsEqual(&r[y]) == 1 },
			Cmov: func(z, y int, b bool) { r[z].CMov(&r[z], &r[y], int(bu(b))) },
			SqrtRatio: func(z, x, y int) bool { // only y = 1 makes this a plain square root
				var one ff.Fp
				one.SetOne()
				if r[y].IsEqual(&one) != 1 {
					var yi, t ff.Fp
					yi.Inv(&r[y])
					t.Mul(&r[x], &yi)
					return r[z].Sqrt(&t) == 1
				}
				return r[z].Sqrt(&r[x]) == 1
			},
			FromBytes: func(z int, v *big.Int) bool { r[z].SetBytes(v.Bytes()); return true }, FromBytesMax: m1(pow2(800)), InvZeroDefined: true, MontBits: 384})
		var s [4]ff.Scalar
		Ps := new(big.Int).SetBytes(ff.ScalarOrder())
		fs = append(fs, &fieldrun.Field{Name: "bls12381scalar", Impl: "ecc/bls12381/ff.Scalar " + impl, P: Ps, Max: m1(Ps), NRegs: 4,
			Set: func(i int, v *big.Int) { s[i].SetBytes(v.Bytes()) },
			Get: func(i int) *big.Int { b, _ := s[i].MarshalBinary(); return new(big.Int).SetBytes(b) },
			Mul: func(z, x, y int) { s[z].Mul(&s[x], &s[y]) }, Add: func(z, x, y int) { s[z].Add(&s[x], &s[y]) },
			Sub: func(z, x, y int) { s[z].Sub(&s[x], &s[y]) }, Sqr: func(z, x int) { s[z].Sqr(&s[x]) },
			Neg: func(z, x int) { s[z] = s[x]; s[z].Neg() }, Inv: func(z, x int) { s[z].Inv(&s[x]) },
			IsZero: func(x int) bool { return s[x].IsZero() == 1 }, Eq: func(x, y int) bool { return s[x].IsEqual(&s[y]) == 1 },
			FromBytes: func(z int, v *big.Int) bool { s[z].SetBytes(v.Bytes()); return true }, FromBytesMax: m1(pow2(600)), InvZeroDefined: true, MontBits: 256})
		// strict decoders
		fs = append(fs, &fieldrun.Field{Name: "bls12381fp", Impl: "ecc/bls12381/ff.Fp.UnmarshalBinary " + impl, P: P, Max: m1(P), NRegs: 1,
			Set: func(i int, v *big.Int) { r[i].SetBytes(v.Bytes()) }, Get: func(i int) *big.Int { b, _ := r[i].MarshalBinary(); return new(big.Int).SetBytes(b) },
			FromBytes: func(z int, v *big.Int) bool { return r[z].UnmarshalBinary(v.FillBytes(make([]byte, ff.FpSize))) == nil }, FromBytesStrict: true, FromBytesMax: m1(pow2(384))})
		fs = append(fs, &fieldrun.Field{Name: "bls12381scalar", Impl: "ecc/bls12381/ff.Scalar.UnmarshalBinary " + impl, P: Ps, Max: m1(Ps), NRegs: 1,
			Set: func(i int, v *big.Int) { s[i].SetBytes(v.Bytes()) }, Get: func(i int) *big.Int { b, _ := s[i].MarshalBinary(); return new(big.Int).SetBytes(b) },
			FromBytes: func(z int, v *big.Int) bool { return s[z].UnmarshalBinary(v.FillBytes(make([]byte, ff.ScalarSize))) == nil }, FromBytesStrict: true, FromBytesMax: m1(pow2(256))})
	}
	{ // Prio3 fields
		var r [4]fp64.Fp
		P64 := new(big.Int).SetBytes(r[0].Order())
		get64 := func(i int) *big.Int { b, _ := r[i].MarshalBinary(); return vlib.FromLE(b) }
		fs = append(fs, &fieldrun.Field{Name: "fp64", Impl: "vdaf/prio3/arith/fp64 " + impl, P: P64, Max: m1(P64), NRegs: 4,
			Set: func(i int, v *big.Int) {
				if err := r[i].UnmarshalBinary(vlib.ToLE(v, 8)); err != nil {
					vlib.Die("fp64 set: %v", err)
				}
			}, Get: get64,
			Mul: func(z, x, y int) { r[z].Mul(&r[x], &r[y]) }, Add: func(z, x, y int) { r[z].Add(&r[x], &r[y]) },
			Sub: func(z, x, y int) { r[z].Sub(&r[x], &r[y]) }, Sqr: func(z, x int) { r[z].Sqr(&r[x]) },
			IsZero: func(x int) bool { return r[x].IsZero() }, Eq: func(x, y int) bool { return r[x].IsEqual(&r[y]) },
			FromBytes: func(z int, v *big.Int) bool { return r[z].UnmarshalBinary(vlib.ToLE(v, 8)) == nil }, FromBytesStrict: true, FromBytesMax: m1(pow2(64)), MontBits: 64,
			Inv: func(z, x int) { r[z].Inv(&r[x]) }, InvSmall: func(z int, x uint64) { r[z].InvUint64(x) }, InvSmallMax: 8})
		var q [4]fp128.Fp
		P128 := new(big.Int).SetBytes(q[0].Order())
		fs = append(fs, &fieldrun.Field{Name: "fp128", Impl: "vdaf/prio3/arith/fp128 " + impl, P: P128, Max: m1(P128), NRegs: 4,
			Set: func(i int, v *big.Int) {
				if err := q[i].UnmarshalBinary(vlib.ToLE(v, 16)); err != nil {
					vlib.Die("fp128 set: %v", err)
				}
			}, Get: func(i int) *big.Int { b, _ := q[i].MarshalBinary(); return vlib.FromLE(b) },
			Mul: func(z, x, y int) { q[z].Mul(&q[x], &q[y]) }, Add: func(z, x, y int) { q[z].Add(&q[x], &q[y]) },
			Sub: func(z, x, y int) { q[z].Sub(&q[x], &q[y]) }, Sqr: func(z, x int) { q[z].Sqr(&q[x]) },
			IsZero: func(x int) bool { return q[x].IsZero() }, Eq: func(x, y int) bool { return q[x].IsEqual(&q[y]) },
			FromBytes: func(z int, v *big.Int) bool { return q[z].UnmarshalBinary(vlib.ToLE(v, 16)) == nil }, FromBytesStrict: true, FromBytesMax: m1(pow2(128)), MontBits: 128,
			Inv: func(z, x int) { q[z].Inv(&q[x]) }, InvSmall: func(z int, x uint64) { q[z].InvUint64(x) }, InvSmallMax: 8})
	}
	l25519, _ := new(big.Int).SetString("7237005577332262213973186563042994240857116359379907606001950938285454250989", 10)
	for _, gi := range []struct {
		g    group.Group
		name string
		le   bool
		ord  *big.Int
	}{{group.P256, "p256scalar", false, elliptic.P256().Params().N}, {group.P384, "p384scalar", false, elliptic.P384().Params().N},
		{group.P521, "p521scalar", false, elliptic.P521().Params().N}, {group.Ristretto255, "ed25519scalar", true, l25519}} {
		g, le := gi.g, gi.le
		r := []group.Scalar{g.NewScalar(), g.NewScalar(), g.NewScalar(), g.NewScalar()}
		P := gi.ord // the group package exposes no order accessor: the standard value; TLC compares it with FieldConsts
		size := int(g.Params().ScalarLength)
		set := func(i int, v *big.Int) {
			b := v.FillBytes(make([]byte, size))
			if le {
				b = vlib.ToLE(v, size)
			}
			if err := r[i].UnmarshalBinary(b); err != nil {
				vlib.Die("%s scalar set: %v", gi.name, err)
			}
		}
		get := func(i int) *big.Int {
			b, _ := r[i].MarshalBinary()
			if le {
				return vlib.FromLE(b)
			}
			return new(big.Int).SetBytes(b)
		}
		max := m1(P)
		if !le { // the P-curve scalars take any byte string of the right length: every such value is an operand the API accepts
			max = m1(pow2(uint(8 * size)))
		}
		fs = append(fs, &fieldrun.Field{Name: gi.name, Impl: fmt.Sprintf("group.%v.Scalar %s", g, impl), P: P, Max: max, NRegs: 4, Set: set, Get: get,
			Mul: func(z, x, y int) { r[z].Mul(r[x], r[y]) }, Add: func(z, x, y int) { r[z].Add(r[x], r[y]) }, Sub: func(z, x, y int) { r[z].Sub(r[x], r[y]) },
			Neg: func(z, x int) { r[z].Neg(r[x]) }, Inv: func(z, x int) { r[z].Inv(r[x]) },
			IsZero: func(x int) bool { return r[x].IsZero() }, Eq: func(x, y int) bool { return r[x].IsEqual(r[y]) },
			Cmov: func(z, y int, b bool) { r[z].CMov(int(bu(b)), r[y]) }})
	}
	return fs
}

func bu(b bool) uint {
	if b {
		return 1
	}
	return 0
}

func main() {
	out := flag.String("out", "trace.ndjson", "")
	seed := flag.Int64("seed", 1, "")
	n := flag.Int("n", 600, "events per field adapter")
	impl := flag.String("impl", "default", "label of the build / CPU configuration")
	tower := flag.String("tower", "", "also record Fp2 / Fp6 / Fp12 operations of ecc/bls12381/ff into this file")
	ntower := flag.Int("ntower", 5, "tower iterations (22 operations each)")
	flag.Parse()
	if *tower != "" {
		to := vlib.Create(*tower)
		towerPart(to, vlib.Rng(*seed, "c12-tower"), *ntower)
		to.Close()
	}
	o := vlib.Create(*out)
	defer o.Close()
	var mu sync.Mutex
	for _, f := range fields(*impl) {
		rng := vlib.Rng(*seed, "c12"+f.Impl)
		fieldrun.Run(f, rng, *n, func(e fieldrun.Event) { mu.Lock(); o.Emit(e); mu.Unlock() })
	}
	fmt.Printf("events=%d\n", o.N)
}
