package main

import (
	"math/big"
	"math/rand"

	"github.com/cloudflare/circl/ecc/bls12381/ff"
	"github.com/cloudflare/circl/zzverif/vlib"
)

// Recorder for the BLS12-381 tower Fp2 / Fp6 / Fp12 (spec/C12/TowerMachine.tla).  The hints (quotients) are computed with the same
// positive/negative-part schoolbook formulas as the specification so that the integers agree; TLC verifies them.

type towerEv struct {
	Ev     string  `json:"ev"`
	F      string  `json:"f"`
	Op     string  `json:"op"`
	Alias  string  `json:"alias"`
	X      [][]int `json:"x"`
	Y      [][]int `json:"y"`
	Z      [][]int `json:"z"`
	XAfter [][]int `json:"xafter"`
	YAfter [][]int `json:"yafter"`
	Qa     [][]int `json:"qa"`
	Qb     [][]int `json:"qb"`
}

type wide struct{ pos, neg *big.Int }

func wd(a *big.Int) wide { return wide{new(big.Int).Set(a), new(big.Int)} }
func wadd(x, y wide) wide {
	return wide{new(big.Int).Add(x.pos, y.pos), new(big.Int).Add(x.neg, y.neg)}
}
func wsub(x, y wide) wide {
	return wide{new(big.Int).Add(x.pos, y.neg), new(big.Int).Add(x.neg, y.pos)}
}
func wneg(x wide) wide { return wide{x.neg, x.pos} }
func wmul(x, y wide) wide {
	p := new(big.Int).Add(new(big.Int).Mul(x.pos, y.pos), new(big.Int).Mul(x.neg, y.neg))
	n := new(big.Int).Add(new(big.Int).Mul(x.pos, y.neg), new(big.Int).Mul(x.neg, y.pos))
	return wide{p, n}
}

type f2 [2]wide
type f6 [3]f2
type f12 [2]f6

func f2add(x, y f2) f2 { return f2{wadd(x[0], y[0]), wadd(x[1], y[1])} }
func f2sub(x, y f2) f2 { return f2{wsub(x[0], y[0]), wsub(x[1], y[1])} }
func f2neg(x f2) f2    { return f2{wneg(x[0]), wneg(x[1])} }
func f2mul(x, y f2) f2 {
	return f2{wsub(wmul(x[0], y[0]), wmul(x[1], y[1])), wadd(wmul(x[0], y[1]), wmul(x[1], y[0]))}
}
func f2xi(a f2) f2  { return f2{wsub(a[0], a[1]), wadd(a[0], a[1])} }
func f2cjg(x f2) f2 { return f2{x[0], wneg(x[1])} }
func f6add(x, y f6) f6 {
	return f6{f2add(x[0], y[0]), f2add(x[1], y[1]), f2add(x[2], y[2])}
}
func f6sub(x, y f6) f6 {
	return f6{f2sub(x[0], y[0]), f2sub(x[1], y[1]), f2sub(x[2], y[2])}
}
func f6neg(x f6) f6 { return f6{f2neg(x[0]), f2neg(x[1]), f2neg(x[2])} }
func f6mul(x, y f6) f6 {
	return f6{
		f2add(f2mul(x[0], y[0]), f2xi(f2add(f2mul(x[1], y[2]), f2mul(x[2], y[1])))),
		f2add(f2add(f2mul(x[0], y[1]), f2mul(x[1], y[0])), f2xi(f2mul(x[2], y[2]))),
		f2add(f2add(f2mul(x[0], y[2]), f2mul(x[1], y[1])), f2mul(x[2], y[0])),
	}
}
func f6v(a f6) f6 { return f6{f2xi(a[2]), a[0], a[1]} }
func f12mul(x, y f12) f12 {
	return f12{f6add(f6mul(x[0], y[0]), f6v(f6mul(x[1], y[1]))), f6add(f6mul(x[0], y[1]), f6mul(x[1], y[0]))}
}

func e2(c []*big.Int, o int) f2   { return f2{wd(c[o]), wd(c[o+1])} }
func e6(c []*big.Int, o int) f6   { return f6{e2(c, o), e2(c, o+2), e2(c, o+4)} }
func e12(c []*big.Int, o int) f12 { return f12{e6(c, o), e6(c, o+6)} }
func fl2(e f2) []wide             { return []wide{e[0], e[1]} }
func fl6(e f6) []wide             { return append(append(fl2(e[0]), fl2(e[1])...), fl2(e[2])...) }
func fl12(e f12) []wide           { return append(fl6(e[0]), fl6(e[1])...) }

func expected(f, op string, x, y []*big.Int) []wide {
	switch f {
	case "fp2":
		a, b := e2(x, 0), e2(y, 0)
		switch op {
		case "add":
			return fl2(f2add(a, b))
		case "sub":
			return fl2(f2sub(a, b))
		case "neg":
			return fl2(f2neg(a))
		case "mul", "inv":
			return fl2(f2mul(a, b))
		case "sqr":
			return fl2(f2mul(a, a))
		case "cjg":
			return fl2(f2cjg(a))
		case "mulxi":
			return fl2(f2xi(a))
		}
	case "fp6":
		a, b := e6(x, 0), e6(y, 0)
		switch op {
		case "add":
			return fl6(f6add(a, b))
		case "sub":
			return fl6(f6sub(a, b))
		case "neg":
			return fl6(f6neg(a))
		case "mul", "inv":
			return fl6(f6mul(a, b))
		case "sqr":
			return fl6(f6mul(a, a))
		case "mulxi":
			return fl6(f6v(a))
		}
	case "fp12":
		a, b := e12(x, 0), e12(y, 0)
		switch op {
		case "add":
			return fl12(f12{f6add(a[0], b[0]), f6add(a[1], b[1])})
		case "sub":
			return fl12(f12{f6sub(a[0], b[0]), f6sub(a[1], b[1])})
		case "neg":
			return fl12(f12{f6neg(a[0]), f6neg(a[1])})
		case "mul", "inv":
			return fl12(f12mul(a, b))
		case "sqr":
			return fl12(f12mul(a, a))
		case "cjg":
			return fl12(f12{a[0], f6neg(a[1])})
		}
	}
	panic("expected: " + f + " " + op)
}

var towerP = new(big.Int).SetBytes(ff.FpOrder())

func fpBig(z *ff.Fp) *big.Int {
	b, _ := z.MarshalBinary()
	return new(big.Int).SetBytes(b)
}

func fpSet(z *ff.Fp, v *big.Int) {
	z.SetBytes(new(big.Int).Mod(v, towerP).FillBytes(make([]byte, 48)))
}

func coef2(z *ff.Fp2) []*big.Int { return []*big.Int{fpBig(&z[0]), fpBig(&z[1])} }
func coef6(z *ff.Fp6) []*big.Int {
	return append(append(coef2(&z[0]), coef2(&z[1])...), coef2(&z[2])...)
}
func coef12(z *ff.Fp12) []*big.Int { return append(coef6(&z[0]), coef6(&z[1])...) }

func digs(c []*big.Int) [][]int {
	o := make([][]int, len(c))
	for i := range c {
		o[i] = vlib.Digits(c[i])
	}
	return o
}

func structuredFp(rng *rand.Rand) *big.Int {
	switch rng.Intn(8) {
	case 0:
		return big.NewInt(0)
	case 1:
		return big.NewInt(1)
	case 2:
		return new(big.Int).Sub(towerP, big.NewInt(1))
	case 3:
		return new(big.Int).Sub(towerP, big.NewInt(int64(2+rng.Intn(5))))
	case 4:
		return new(big.Int).Rsh(towerP, 1)
	case 5:
		return new(big.Int).Lsh(big.NewInt(1), uint(64*(1+rng.Intn(5))))
	}
	return new(big.Int).Rand(rng, towerP)
}

func towerPart(out *vlib.Out, rng *rand.Rand, n int) {
	emit := func(f, op, alias string, x, y, z, xa, ya []*big.Int) {
		hx, hy := x, y
		if op == "inv" {
			hy = z
		}
		if hy == nil {
			hy = x
		}
		e := expected(f, op, hx, hy)
		ev := towerEv{Ev: "tower", F: f, Op: op, Alias: alias, X: digs(x), Y: digs(hy), Z: digs(z), XAfter: digs(xa), YAfter: digs(ya)}
		if op == "inv" {
			ev.YAfter = ev.Y
		}
		for i := range e {
			target := z[i]
			if op == "inv" {
				target = big.NewInt(0)
				if i == 0 {
					target = big.NewInt(1)
				}
			}
			ev.Qa = append(ev.Qa, vlib.Quot(e[i].pos, towerP))
			ev.Qb = append(ev.Qb, vlib.Quot(new(big.Int).Add(target, e[i].neg), towerP))
		}
		out.Emit(ev)
	}
	aliases := []string{"distinct", "z=x", "z=y", "x=y", "all"}
	for it := 0; it < n; it++ {
		alias := aliases[it%len(aliases)]
		// ---- Fp2
		{
			var r [3]ff.Fp2
			for i := range r {
				for j := range r[i] {
					fpSet(&r[i][j], structuredFp(rng))
				}
			}
			for _, op := range []string{"add", "sub", "mul", "sqr", "neg", "inv", "cjg", "mulxi"} {
				xi, yi, zi := pick(alias)
				if op != "add" && op != "sub" && op != "mul" {
					yi = xi
				}
				x0, y0 := coef2(&r[xi]), coef2(&r[yi])
				switch op {
				case "add":
					r[zi].Add(&r[xi], &r[yi])
				case "sub":
					r[zi].Sub(&r[xi], &r[yi])
				case "mul":
					r[zi].Mul(&r[xi], &r[yi])
				case "sqr":
					r[zi].Sqr(&r[xi])
				case "inv":
					r[zi].Inv(&r[xi])
				case "neg":
					r[zi] = r[xi]
					r[zi].Neg()
				case "cjg":
					r[zi] = r[xi]
					r[zi].Cjg()
				case "mulxi":
					r[zi] = r[xi]
					r[zi].MulBeta()
				}
				xa, ya := coef2(&r[xi]), coef2(&r[yi])
				if zi == xi {
					xa = x0
				}
				if zi == yi {
					ya = y0
				}
				emit("fp2", op, alias, x0, y0, coef2(&r[zi]), xa, ya)
			}
		}
		// ---- Fp6
		{
			var r [3]ff.Fp6
			for i := range r {
				for j := range r[i] {
					for k := range r[i][j] {
						fpSet(&r[i][j][k], structuredFp(rng))
					}
				}
			}
			for _, op := range []string{"add", "sub", "mul", "sqr", "neg", "inv", "mulxi"} {
				xi, yi, zi := pick(alias)
				if op != "add" && op != "sub" && op != "mul" {
					yi = xi
				}
				x0, y0 := coef6(&r[xi]), coef6(&r[yi])
				switch op {
				case "add":
					r[zi].Add(&r[xi], &r[yi])
				case "sub":
					r[zi].Sub(&r[xi], &r[yi])
				case "mul":
					r[zi].Mul(&r[xi], &r[yi])
				case "sqr":
					r[zi].Sqr(&r[xi])
				case "inv":
					r[zi].Inv(&r[xi])
				case "neg":
					r[zi] = r[xi]
					r[zi].Neg()
				case "mulxi":
					r[zi] = r[xi]
					r[zi].MulBeta()
				}
				xa, ya := coef6(&r[xi]), coef6(&r[yi])
				if zi == xi {
					xa = x0
				}
				if zi == yi {
					ya = y0
				}
				emit("fp6", op, alias, x0, y0, coef6(&r[zi]), xa, ya)
			}
		}
		// ---- Fp12
		{
			var r [3]ff.Fp12
			for i := range r {
				for j := range r[i] {
					for k := range r[i][j] {
						for m := range r[i][j][k] {
							fpSet(&r[i][j][k][m], structuredFp(rng))
						}
					}
				}
			}
			for _, op := range []string{"add", "sub", "mul", "sqr", "neg", "inv", "cjg"} {
				xi, yi, zi := pick(alias)
				if op != "add" && op != "sub" && op != "mul" {
					yi = xi
				}
				x0, y0 := coef12(&r[xi]), coef12(&r[yi])
				switch op {
				case "add":
					r[zi].Add(&r[xi], &r[yi])
				case "sub":
					r[zi].Sub(&r[xi], &r[yi])
				case "mul":
					r[zi].Mul(&r[xi], &r[yi])
				case "sqr":
					r[zi].Sqr(&r[xi])
				case "inv":
					r[zi].Inv(&r[xi])
				case "neg":
					r[zi] = r[xi]
					r[zi].Neg()
				case "cjg":
					r[zi] = r[xi]
					r[zi].Cjg()
				}
				xa, ya := coef12(&r[xi]), coef12(&r[yi])
				if zi == xi {
					xa = x0
				}
				if zi == yi {
					ya = y0
				}
				emit("fp12", op, alias, x0, y0, coef12(&r[zi]), xa, ya)
			}
		}
	}
}

// pick returns register indices (x, y, z) for an aliasing pattern.
func pick(alias string) (int, int, int) {
	switch alias {
	case "z=x":
		return 0, 1, 0
	case "z=y":
		return 0, 1, 1
	case "x=y":
		return 0, 0, 2
	case "all":
		return 0, 0, 0
	}
	return 0, 1, 2
}
