// Package mlkemref is a plain transcription of FIPS 203 (ML-KEM) and of the round-3 Kyber specification with
// schoolbook modular arithmetic (int, % q) and golang.org/x/crypto/sha3.  It shares no code with circl.
package mlkemref

import (
	"bytes"

	"golang.org/x/crypto/sha3"
)

const (
	Q = 3329
	N = 256
)

type Params struct {
	Name             string
	K, Eta1, Eta2    int
	Du, Dv           int
	MLKEM            bool // false: round-3 Kyber
	EkSize, DkSize   int
	CtSize           int
}

func mk(name string, k, eta1, du, dv int, ml bool) Params {
	p := Params{Name: name, K: k, Eta1: eta1, Eta2: 2, Du: du, Dv: dv, MLKEM: ml}
	p.EkSize = 384*k + 32
	p.DkSize = 384*k + p.EkSize + 64
	p.CtSize = 32 * (du*k + dv)
	return p
}

var (
	MLKEM512  = mk("ML-KEM-512", 2, 3, 10, 4, true)
	MLKEM768  = mk("ML-KEM-768", 3, 2, 10, 4, true)
	MLKEM1024 = mk("ML-KEM-1024", 4, 2, 11, 5, true)
	Kyber512  = mk("Kyber512", 2, 3, 10, 4, false)
	Kyber768  = mk("Kyber768", 3, 2, 10, 4, false)
	Kyber1024 = mk("Kyber1024", 4, 2, 11, 5, false)
	All       = []Params{MLKEM512, MLKEM768, MLKEM1024, Kyber512, Kyber768, Kyber1024}
)

type poly [N]int

func mod(x int) int { x %= Q; if x < 0 { x += Q }; return x }

func powmod(b, e int) int {
	r := 1
	for ; e > 0; e >>= 1 {
		if e&1 == 1 {
			r = r * b % Q
		}
		b = b * b % Q
	}
	return r
}

func bitrev7(i int) int {
	r := 0
	for b := 0; b < 7; b++ {
		r |= ((i >> b) & 1) << (6 - b)
	}
	return r
}

var zeta, gamma [128]int

func init() {
	for i := 0; i < 128; i++ {
		zeta[i] = powmod(17, bitrev7(i))
		gamma[i] = powmod(17, 2*bitrev7(i)+1)
	}
}

// FIPS 203 Algorithm 9
func ntt(f poly) poly {
	i := 1
	for l := 128; l >= 2; l /= 2 {
		for start := 0; start < N; start += 2 * l {
			z := zeta[i]
			i++
			for j := start; j < start+l; j++ {
				t := z * f[j+l] % Q
				f[j+l] = mod(f[j] - t)
				f[j] = mod(f[j] + t)
			}
		}
	}
	return f
}

// FIPS 203 Algorithm 10
func invntt(f poly) poly {
	i := 127
	for l := 2; l <= 128; l *= 2 {
		for start := 0; start < N; start += 2 * l {
			z := zeta[i]
			i--
			for j := start; j < start+l; j++ {
				t := f[j]
				f[j] = mod(t + f[j+l])
				f[j+l] = z * mod(f[j+l]-t) % Q
			}
		}
	}
	for j := range f {
		f[j] = f[j] * 3303 % Q
	}
	return f
}

func mulntt(a, b poly) (c poly) {
	for i := 0; i < 128; i++ {
		a0, a1, b0, b1 := a[2*i], a[2*i+1], b[2*i], b[2*i+1]
		c[2*i] = mod(a0*b0 + a1*b1%Q*gamma[i])
		c[2*i+1] = mod(a0*b1 + a1*b0)
	}
	return
}

func add(a, b poly) (c poly) {
	for i := range a {
		c[i] = mod(a[i] + b[i])
	}
	return
}

func sub(a, b poly) (c poly) {
	for i := range a {
		c[i] = mod(a[i] - b[i])
	}
	return
}

func Compress(x, d int) int   { return ((x<<uint(d+1) + Q) / (2 * Q)) & (1<<uint(d) - 1) }
func Decompress(y, d int) int { return (2*Q*y + 1<<uint(d)) >> uint(d+1) }

func byteEncode(f poly, d int) []byte {
	out := make([]byte, 32*d)
	for i := 0; i < N; i++ {
		for b := 0; b < d; b++ {
			if f[i]>>uint(b)&1 == 1 {
				k := i*d + b
				out[k/8] |= 1 << uint(k%8)
			}
		}
	}
	return out
}

func byteDecode(b []byte, d int) (f poly) {
	for i := 0; i < N; i++ {
		for j := 0; j < d; j++ {
			k := i*d + j
			f[i] |= int(b[k/8]>>uint(k%8)&1) << uint(j)
		}
	}
	return
}

func shake(rate128 bool, outlen int, parts ...[]byte) []byte {
	var h sha3.ShakeHash
	if rate128 {
		h = sha3.NewShake128()
	} else {
		h = sha3.NewShake256()
	}
	for _, p := range parts {
		_, _ = h.Write(p)
	}
	out := make([]byte, outlen)
	_, _ = h.Read(out)
	return out
}

func G(parts ...[]byte) ([]byte, []byte) {
	h := sha3.New512()
	for _, p := range parts {
		h.Write(p)
	}
	s := h.Sum(nil)
	return s[:32], s[32:]
}

func H(b []byte) []byte { s := sha3.Sum256(b); return s[:] }

func sampleNTT(rho []byte, j, i byte) (a poly) {
	h := sha3.NewShake128()
	_, _ = h.Write(rho)
	_, _ = h.Write([]byte{j, i})
	n := 0
	var c [3]byte
	for n < N {
		_, _ = h.Read(c[:])
		d1 := int(c[0]) + 256*int(c[1]&15)
		d2 := int(c[1]>>4) + 16*int(c[2])
		if d1 < Q {
			a[n] = d1
			n++
		}
		if d2 < Q && n < N {
			a[n] = d2
			n++
		}
	}
	return
}

func cbd(b []byte, eta int) (f poly) {
	bit := func(k int) int { return int(b[k/8]>>uint(k%8)) & 1 }
	for i := 0; i < N; i++ {
		x, y := 0, 0
		for j := 0; j < eta; j++ {
			x += bit(2*i*eta + j)
			y += bit(2*i*eta + eta + j)
		}
		f[i] = mod(x - y)
	}
	return
}

func prf(eta int, s []byte, b byte) []byte { return shake(false, 64*eta, s, []byte{b}) }

func (p Params) matrix(rho []byte) [][]poly {
	A := make([][]poly, p.K)
	for i := range A {
		A[i] = make([]poly, p.K)
		for j := range A[i] {
			A[i][j] = sampleNTT(rho, byte(j), byte(i))
		}
	}
	return A
}

// KeyGen is ML-KEM.KeyGen_internal(d, z) resp. round-3 Kyber key generation from (d, z).
func (p Params) KeyGen(d, z []byte) (ek, dk []byte) {
	var rho, sigma []byte
	if p.MLKEM {
		rho, sigma = G(d, []byte{byte(p.K)})
	} else {
		rho, sigma = G(d)
	}
	A := p.matrix(rho)
	n := byte(0)
	s, e := make([]poly, p.K), make([]poly, p.K)
	for i := 0; i < p.K; i++ {
		s[i] = ntt(cbd(prf(p.Eta1, sigma, n), p.Eta1))
		n++
	}
	for i := 0; i < p.K; i++ {
		e[i] = ntt(cbd(prf(p.Eta1, sigma, n), p.Eta1))
		n++
	}
	var dkpke []byte
	for i := 0; i < p.K; i++ {
		t := e[i]
		for j := 0; j < p.K; j++ {
			t = add(t, mulntt(A[i][j], s[j]))
		}
		ek = append(ek, byteEncode(t, 12)...)
		dkpke = append(dkpke, byteEncode(s[i], 12)...)
	}
	ek = append(ek, rho...)
	dk = append(append(append(dkpke, ek...), H(ek)...), z...)
	return
}

// Encrypt is K-PKE.Encrypt(ek, m, r).
func (p Params) Encrypt(ek, m, r []byte) []byte {
	t := make([]poly, p.K)
	for i := range t {
		t[i] = byteDecode(ek[384*i:384*i+384], 12)
		for j := range t[i] {
			t[i][j] %= Q // Kyber round 3 decodes without a modulus check; ML-KEM refuses such keys earlier
		}
	}
	A := p.matrix(ek[384*p.K:])
	n := byte(0)
	y, e1 := make([]poly, p.K), make([]poly, p.K)
	for i := 0; i < p.K; i++ {
		y[i] = ntt(cbd(prf(p.Eta1, r, n), p.Eta1))
		n++
	}
	for i := 0; i < p.K; i++ {
		e1[i] = cbd(prf(p.Eta2, r, n), p.Eta2)
		n++
	}
	e2 := cbd(prf(p.Eta2, r, n), p.Eta2)
	var c []byte
	var v poly
	for i := 0; i < p.K; i++ {
		var u poly
		for j := 0; j < p.K; j++ {
			u = add(u, mulntt(A[j][i], y[j]))
		}
		u = add(invntt(u), e1[i])
		for j := range u {
			u[j] = Compress(u[j], p.Du)
		}
		c = append(c, byteEncode(u, p.Du)...)
		v = add(v, mulntt(t[i], y[i]))
	}
	mu := byteDecode(m, 1)
	for j := range mu {
		mu[j] = Decompress(mu[j], 1)
	}
	v = add(add(invntt(v), e2), mu)
	for j := range v {
		v[j] = Compress(v[j], p.Dv)
	}
	return append(c, byteEncode(v, p.Dv)...)
}

// Decrypt is K-PKE.Decrypt(dkPKE, c).
func (p Params) Decrypt(dkpke, c []byte) []byte {
	var w poly
	for i := 0; i < p.K; i++ {
		u := byteDecode(c[32*p.Du*i:32*p.Du*(i+1)], p.Du)
		for j := range u {
			u[j] = Decompress(u[j], p.Du)
		}
		s := byteDecode(dkpke[384*i:384*i+384], 12)
		for j := range s {
			s[j] %= Q
		}
		w = add(w, mulntt(s, ntt(u)))
	}
	v := byteDecode(c[32*p.Du*p.K:], p.Dv)
	for j := range v {
		v[j] = Decompress(v[j], p.Dv)
	}
	w = sub(v, invntt(w))
	for j := range w {
		w[j] = Compress(w[j], 1)
	}
	return byteEncode(w, 1)
}

// Encaps is ML-KEM.Encaps_internal(ek, m) resp. Kyber.Encaps with the 32 random bytes m.
func (p Params) Encaps(ek, m []byte) (c, K []byte) {
	if p.MLKEM {
		K, r := G(m, H(ek))
		return p.Encrypt(ek, m, r), K
	}
	mm := H(m)
	kbar, r := G(mm, H(ek))
	c = p.Encrypt(ek, mm, r)
	return c, shake(false, 32, kbar, H(c))
}

// DecapsTrace exposes the values the Fujisaki-Okamoto decision depends on.
type DecapsTrace struct {
	MPrime, CPrime []byte
	Same           bool   // c = c'
	KAccept        []byte // the key for c = c'
	KReject        []byte // the implicit-rejection key, from the RECEIVED ciphertext
	KRejectCPrime  []byte // what one gets by (wrongly) using the re-encrypted ciphertext
	K              []byte
}

// Decaps is ML-KEM.Decaps_internal(dk, c) resp. Kyber.Decaps.
func (p Params) Decaps(dk, c []byte) DecapsTrace {
	dkpke := dk[:384*p.K]
	ek := dk[384*p.K : 384*p.K+p.EkSize]
	h := dk[384*p.K+p.EkSize : 384*p.K+p.EkSize+32]
	z := dk[384*p.K+p.EkSize+32:]
	var t DecapsTrace
	t.MPrime = p.Decrypt(dkpke, c)
	k1, r := G(t.MPrime, h)
	t.CPrime = p.Encrypt(ek, t.MPrime, r)
	t.Same = bytes.Equal(c, t.CPrime)
	if p.MLKEM {
		t.KAccept = k1
		t.KReject = shake(false, 32, z, c)
		t.KRejectCPrime = shake(false, 32, z, t.CPrime)
	} else {
		t.KAccept = shake(false, 32, k1, H(c))
		t.KReject = shake(false, 32, z, H(c))
		t.KRejectCPrime = shake(false, 32, z, H(t.CPrime))
	}
	if t.Same {
		t.K = t.KAccept
	} else {
		t.K = t.KReject
	}
	return t
}

// EkCoefficientsReduced reports whether every 12-bit coefficient of an encapsulation key is below q.
func (p Params) EkCoefficientsReduced(ek []byte) bool {
	for i := 0; i < p.K; i++ {
		f := byteDecode(ek[384*i:384*i+384], 12)
		for _, c := range f {
			if c >= Q {
				return false
			}
		}
	}
	return true
}

// ---- boundary seeds.  SampleNTT needs more than three SHAKE128 blocks (504 bytes = 336 candidates) for about 0.15% of its streams:
// that is where code that refills its buffer, carries left-over bytes from one squeeze to the next, or switches from a vectorised to a
// scalar sampler is exercised.  BoundarySeed searches, deterministically from `start`, for a key-generation seed d whose matrix entry
// (row, col) consumes more than `bytes` bytes of its stream.
func streamBytesNeeded(rho []byte, j, i byte) int {
	h := sha3.NewShake128()
	_, _ = h.Write(rho)
	_, _ = h.Write([]byte{j, i})
	n, used := 0, 0
	var c [3]byte
	for n < N {
		_, _ = h.Read(c[:])
		used += 3
		d1 := int(c[0]) + 256*int(c[1]&15)
		d2 := int(c[1]>>4) + 16*int(c[2])
		if d1 < Q {
			n++
		}
		if d2 < Q && n < N {
			n++
		}
	}
	return used
}

func (p Params) BoundarySeed(start []byte, row, col, bytes, maxTries int) []byte {
	d := append([]byte{}, start...)
	for t := 0; t < maxTries; t++ {
		var rho []byte
		if p.MLKEM {
			rho, _ = G(d, []byte{byte(p.K)})
		} else {
			rho, _ = G(d)
		}
		if streamBytesNeeded(rho, byte(col), byte(row)) > bytes {
			return d
		}
		for i := 0; i < len(d); i++ {
			d[i]++
			if d[i] != 0 {
				break
			}
		}
	}
	return nil
}
