// Driver for C08: replays TLC-generated call schedules (and seeded random ones) on real HPKE
// sealing/opening contexts and records one event per public call with the values observed
// through the public API.  The verdict is TLC's (Trace_HpkeContext.tla), not this program's.
package main

import (
	"bytes"
	"crypto/aes"
	"crypto/cipher"
	"flag"
	"fmt"

	"github.com/cloudflare/circl/hpke"
	"github.com/cloudflare/circl/zzverif/vlib"
	"golang.org/x/crypto/chacha20poly1305"
)

type step struct {
	Op  string `json:"op"`
	A   int    `json:"a"`
	B   int    `json:"b"`
	Seq []int  `json:"seq"`
}

type ev struct {
	Ev       string `json:"ev"`
	Tr       int    `json:"tr"`
	Aead     int    `json:"aead"`
	Pt       int    `json:"pt"`
	Aad      int    `json:"aad"`
	K        int    `json:"k"`
	Ok       bool   `json:"ok"`
	Released bool   `json:"released"`
	SeqS     []int  `json:"sseq"`
	SeqO     []int  `json:"oseq"`
	Nonce    []int  `json:"nonce"`
	GotPt    int    `json:"gotpt"`
}

type parsed struct {
	key, base, seq []byte
	seqOff         int
}

// parse the documented context serialisation (hpke/marshal.go doc comment); validated below
// by re-deriving a real ciphertext, so a format change is an infrastructure error, not a verdict.
func parse(m []byte) (p parsed, ok bool) {
	defer func() {
		if recover() != nil {
			ok = false
		}
	}()
	pos := 1 + 6
	pos += 1 + int(m[pos])
	kl := int(m[pos])
	p.key = m[pos+1 : pos+1+kl]
	pos += 1 + kl
	nl := int(m[pos])
	p.base = m[pos+1 : pos+1+nl]
	pos += 1 + nl
	sl := int(m[pos])
	p.seq = m[pos+1 : pos+1+sl]
	p.seqOff = pos + 1
	return p, pos+1+sl == len(m) && sl == 12 && nl == 12
}

func digits(b []byte) []int {
	o := make([]int, len(b))
	for i := range b {
		o[i] = int(b[i])
	}
	return o
}

func newAEAD(id hpke.AEAD, key []byte) cipher.AEAD {
	if id == hpke.AEAD_ChaCha20Poly1305 {
		a, err := chacha20poly1305.New(key)
		if err != nil {
			vlib.Die("chacha: %v", err)
		}
		return a
	}
	blk, err := aes.NewCipher(key)
	if err != nil {
		vlib.Die("aes: %v", err)
	}
	a, _ := cipher.NewGCM(blk)
	return a
}

func xorNonce(base, seq []byte) []byte {
	n := make([]byte, len(base))
	for i := range n {
		n[i] = base[i] ^ seq[i]
	}
	return n
}

func main() {
	beh := flag.String("beh", "", "behaviours.json from TLC")
	out := flag.String("out", "trace.ndjson", "")
	seed := flag.Int64("seed", 1, "")
	nrand := flag.Int("nrand", 50, "extra seeded random schedules per AEAD")
	maxb := flag.Int("maxb", 400, "max TLC behaviours replayed per AEAD")
	aeads := flag.Int("aeads", 3, "")
	flag.Parse()

	var behs [][]step
	vlib.ReadJSON(*beh, &behs)
	rng := vlib.Rng(*seed, "c08")
	rng.Shuffle(len(behs), func(i, j int) { behs[i], behs[j] = behs[j], behs[i] })
	if len(behs) > *maxb {
		behs = behs[:*maxb]
	}
	// seeded random schedules on top of TLC's
	starts := [][]int{}
	for _, b := range behs {
		starts = append(starts, b[0].Seq)
	}
	for i := 0; i < *nrand && len(starts) > 0; i++ {
		b := []step{{Op: "start", Seq: starts[rng.Intn(len(starts))]}}
		ns := 0
		for j := 0; j < 18; j++ {
			switch c := rng.Intn(10); {
			case c < 4:
				b = append(b, step{Op: "seal", A: rng.Intn(2), B: rng.Intn(2)})
				ns++
			case c < 7 && ns > 0:
				b = append(b, step{Op: "open", A: rng.Intn(ns), B: rng.Intn(2)})
			case c == 7:
				b = append(b, step{Op: "garbage"})
			case c == 8:
				b = append(b, step{Op: "export"})
			default:
				b = append(b, step{Op: "restore", A: rng.Intn(2)})
			}
		}
		behs = append(behs, b)
	}

	o := vlib.Create(*out)
	defer o.Close()
	aeadIDs := []hpke.AEAD{hpke.AEAD_ChaCha20Poly1305, hpke.AEAD_AES128GCM, hpke.AEAD_AES256GCM}[:*aeads]
	kem := hpke.KEM_X25519_HKDF_SHA256
	pkR, skR := kem.Scheme().DeriveKeyPair(vlib.Bytes(rng, kem.Scheme().SeedSize()))
	pts := [][]byte{{}, []byte("plaintext-one-longer-than-a-block-of-sixteen")} // the EMPTY plaintext (an aad-only message) is a message like any other
	aads := [][]byte{nil, []byte("aad-one")}
	tr := 0
	for ai, aid := range aeadIDs {
		suite := hpke.NewSuite(kem, hpke.KDF_HKDF_SHA256, aid)
		for _, b := range behs {
			tr++
			snd, err := suite.NewSender(pkR, []byte("c08"))
			if err != nil {
				vlib.Die("NewSender: %v", err)
			}
			encap, sealer, err := snd.Setup(vlib.SeededReader{R: rng})
			if err != nil {
				vlib.Die("Setup: %v", err)
			}
			rcv, _ := suite.NewReceiver(skR, []byte("c08"))
			opener, err := rcv.Setup(encap)
			if err != nil {
				vlib.Die("Receiver.Setup: %v", err)
			}
			ms, _ := sealer.MarshalBinary()
			mo, _ := opener.MarshalBinary()
			ps, ok1 := parse(ms)
			po, ok2 := parse(mo)
			if !ok1 || !ok2 || !bytes.Equal(ps.key, po.key) {
				vlib.Die("context serialisation no longer has the documented layout")
			}
			// a context restores from its own marshalled form: otherwise it cannot "continue where the original would" at all - an event the
			// specification has no step for (restore with ok = false)
			if _, e1 := hpke.UnmarshalSealer(append([]byte{}, ms...)); e1 != nil {
				o.Emit(ev{Ev: "restore", Tr: tr, Aead: ai, Ok: false, SeqS: []int{}, SeqO: []int{}, Nonce: []int{}, GotPt: -1})
				continue
			}
			if _, e2 := hpke.UnmarshalOpener(append([]byte{}, mo...)); e2 != nil {
				o.Emit(ev{Ev: "restore", Tr: tr, Aead: ai, Ok: false, SeqS: []int{}, SeqO: []int{}, Nonce: []int{}, GotPt: -1})
				continue
			}
			ref := newAEAD(aid, ps.key)
			base := append([]byte{}, ps.base...)
			// patch the start value into both contexts
			for i, d := range b[0].Seq {
				ms[ps.seqOff+i] = byte(d)
				mo[po.seqOff+i] = byte(d)
			}
			sealer, err = hpke.UnmarshalSealer(ms)
			if err != nil {
				vlib.Die("UnmarshalSealer(patched): %v", err)
			}
			opener, err = hpke.UnmarshalOpener(mo)
			if err != nil {
				vlib.Die("UnmarshalOpener(patched): %v", err)
			}
			// the caller reuses its buffers: a restored context must own its state
			for i := range ms {
				ms[i] = 0xee
			}
			for i := range mo {
				mo[i] = 0xee
			}
			seqs := func() ([]byte, []byte) {
				a, e1 := sealer.MarshalBinary()
				c, e2 := opener.MarshalBinary()
				pa, k1 := parse(a)
				pc, k2 := parse(c)
				if e1 != nil || e2 != nil || !k1 || !k2 {
					vlib.Die("cannot read back sequence numbers")
				}
				return pa.seq, pc.seq
			}
			s0, o0 := seqs()
			o.Emit(ev{Ev: "reset", Tr: tr, Aead: ai, SeqS: digits(s0), SeqO: digits(o0), Nonce: []int{}})
			var cts [][]byte
			var exp0 []byte
			for _, st := range b[1:] {
				e := ev{Ev: st.Op, Tr: tr, Aead: ai, Nonce: []int{}, GotPt: -1}
				sb, ob := seqs()
				switch st.Op {
				case "seal":
					e.Pt, e.Aad = st.A, st.B
					ct, err := sealer.Seal(pts[st.A], aads[st.B])
					e.Ok = err == nil
					if err == nil {
						cts = append(cts, ct)
						// which counter value's nonce sealed it?  candidates: before, after, zero, before-1
						sa, _ := seqs()
						cands := [][]byte{sb, sa, make([]byte, 12)}
						e.Nonce = []int{-1, -1, -1, -1, -1, -1, -1, -1, -1, -1, -1, -1}
						for _, c := range cands {
							if bytes.Equal(ref.Seal(nil, xorNonce(base, c), pts[st.A], aads[st.B]), ct) {
								e.Nonce = digits(c)
								break
							}
						}
					} else {
						e.Released = ct != nil
					}
				case "open":
					e.K, e.Aad = st.A, st.B
					if st.A >= len(cts) {
						continue // schedule refers to a ciphertext the real sealer refused to produce
					}
					pt, err := opener.Open(cts[st.A], aads[st.B])
					e.Ok = err == nil
					if err == nil {
						for i := range pts {
							if bytes.Equal(pt, pts[i]) {
								e.GotPt = i
							}
						}
					} else {
						e.Released = pt != nil
					}
				case "garbage":
					g := vlib.Bytes(rng, 16+rng.Intn(40))
					if len(cts) > 0 && rng.Intn(2) == 0 { // a real ciphertext with one bit flipped
						g = append([]byte{}, cts[rng.Intn(len(cts))]...)
						g[rng.Intn(len(g))] ^= 1 << uint(rng.Intn(8))
					}
					pt, err := opener.Open(g, aads[rng.Intn(2)])
					e.Ok = err == nil
					e.Released = pt != nil
				case "export":
					ctx := vlib.Bytes(rng, rng.Intn(20))
					n := uint(1 + rng.Intn(64))
					a := sealer.Export(ctx, n)
					c := opener.Export(ctx, n)
					x := sealer.Export([]byte("fixed"), 32)
					if exp0 == nil {
						exp0 = x
					}
					e.Ok = bytes.Equal(a, c) && len(a) == int(n) && bytes.Equal(x, exp0)
				case "restore":
					e.K = st.A
					if st.A == 0 {
						m, err := sealer.MarshalBinary()
						if err == nil {
							var s2 hpke.Sealer
							s2, err = hpke.UnmarshalSealer(m)
							if err == nil {
								sealer = s2
							}
							for i := range m { // the buffer is wiped / reused after the restore
								m[i] = 0x11
							}
						}
						e.Ok = err == nil
					} else {
						m, err := opener.MarshalBinary()
						if err == nil {
							var o2 hpke.Opener
							o2, err = hpke.UnmarshalOpener(m)
							if err == nil {
								opener = o2
							}
							for i := range m {
								m[i] = 0x11
							}
						}
						e.Ok = err == nil
					}
				default:
					vlib.Die("unknown op %q", st.Op)
				}
				_ = ob
				sa, oa := seqs()
				e.SeqS, e.SeqO = digits(sa), digits(oa)
				o.Emit(e)
			}
			// forged ciphertext at the opener's current counter when that counter is the maximum:
			// the AEAD opens it, so only the overflow rule can (and must) refuse it.
			_, oc := seqs()
			if bytes.Equal(oc, bytes.Repeat([]byte{0xff}, 12)) {
				f := ref.Seal(nil, xorNonce(base, oc), pts[0], aads[0])
				pt, err := opener.Open(f, aads[0])
				sa, oa := seqs()
				o.Emit(ev{Ev: "openmax", Tr: tr, Aead: ai, Ok: err == nil, Released: pt != nil, SeqS: digits(sa), SeqO: digits(oa), Nonce: []int{}, GotPt: -1})
			}
		}
	}
	fmt.Printf("traces=%d events=%d\n", tr, o.N)
}
