// Driver for C05: Ed25519 / Ed25519ctx / Ed25519ph / Ed448 / Ed448ph key derivation and signing against the math/big
// transcription of RFC 8032 (edref), and verification on honest, altered, malleable, non-canonical, small-order and
// mixed-order inputs; the facts RFC 8032 verification depends on are established by edref and decided by
// spec/C05/Rfc8032Verdict.tla.
package main

import (
	"bytes"
	"crypto"
	"flag"
	"fmt"
	"math/big"
	"time"

	"github.com/cloudflare/circl/sign/ed25519"
	"github.com/cloudflare/circl/sign/ed448"
	"github.com/cloudflare/circl/zzverif/edref"
	"github.com/cloudflare/circl/zzverif/vlib"
)

type facts struct {
	LenOK        bool `json:"len_ok"`
	CtxOK        bool `json:"ctx_ok"`
	SLess        bool `json:"s_less"`
	ACanon       bool `json:"a_canon"`
	RCanon       bool `json:"r_canon"`
	APrime       bool `json:"a_prime"`
	Cofactorless bool `json:"cofactorless"`
	Cofactored   bool `json:"cofactored"`
}

type line struct {
	Ev      string `json:"ev"`
	Curve   string `json:"curve"`
	Variant string `json:"variant"`
	Class   string `json:"class"`
	Panics  int    `json:"panics"`
	// sign
	Pk     string `json:"pk"`
	RefPk  string `json:"ref_pk"`
	Sig    string `json:"sig"`
	RefSig string `json:"ref_sig"`
	Hr     []int  `json:"hr"`
	Hk     []int  `json:"hk"`
	Q1     []int  `json:"q1"`
	Q2     []int  `json:"q2"`
	Q3     []int  `json:"q3"`
	Rr     []int  `json:"rr"`
	Kk     []int  `json:"kk"`
	S      []int  `json:"s"`
	Sdig   []int  `json:"sdig"`
	// verify
	Facts    facts  `json:"facts"`
	Accepted bool   `json:"accepted"`
	Agree    bool   `json:"entry_points_agree"`
	Pub      string `json:"pub"`
	Msg      string `json:"msg"`
	Ctx      string `json:"ctx"`
	Seed     string `json:"seed"`
	Note     string `json:"note"`
}

func fix(l line) line {
	for _, p := range []*[]int{&l.Hr, &l.Hk, &l.Q1, &l.Q2, &l.Q3, &l.Rr, &l.Kk, &l.S, &l.Sdig} {
		if *p == nil {
			*p = []int{}
		}
	}
	return l
}

var o *vlib.Out

// ---- the library under test, per variant
func libSign(v edref.Variant, seed, msg, ctx []byte) (pk, sig []byte) {
	switch v.Name {
	case "Ed25519":
		sk := ed25519.NewKeyFromSeed(seed)
		return sk.Public().(ed25519.PublicKey), ed25519.Sign(sk, msg)
	case "Ed25519ctx":
		sk := ed25519.NewKeyFromSeed(seed)
		return sk.Public().(ed25519.PublicKey), ed25519.SignWithCtx(sk, msg, string(ctx))
	case "Ed25519ph":
		sk := ed25519.NewKeyFromSeed(seed)
		return sk.Public().(ed25519.PublicKey), ed25519.SignPh(sk, msg, string(ctx))
	case "Ed448":
		sk := ed448.NewKeyFromSeed(seed)
		return sk.Public().(ed448.PublicKey), ed448.Sign(sk, msg, string(ctx))
	default:
		sk := ed448.NewKeyFromSeed(seed)
		return sk.Public().(ed448.PublicKey), ed448.SignPh(sk, msg, string(ctx))
	}
}

// libVerify returns the verdict through the package function and whether the other entry points agree with it.
func libVerify(v edref.Variant, pub, msg, sig, ctx []byte) (bool, bool) {
	c := string(ctx)
	switch v.Name {
	case "Ed25519":
		a := ed25519.Verify(pub, msg, sig)
		b := ed25519.VerifyAny(pub, msg, sig, crypto.Hash(0))
		d := len(pub) != ed25519.PublicKeySize || ed25519.Scheme().Verify(ed25519.PublicKey(pub), msg, sig, nil)
		if len(pub) != ed25519.PublicKeySize {
			d = a
		}
		return a, a == b && a == d
	case "Ed25519ctx":
		a := ed25519.VerifyWithCtx(pub, msg, sig, c)
		b := ed25519.VerifyAny(pub, msg, sig, ed25519.SignerOptions{Context: c, Scheme: ed25519.ED25519Ctx})
		return a, a == b
	case "Ed25519ph":
		a := ed25519.VerifyPh(pub, msg, sig, c)
		b := ed25519.VerifyAny(pub, msg, sig, ed25519.SignerOptions{Hash: crypto.SHA512, Context: c, Scheme: ed25519.ED25519Ph})
		return a, a == b
	case "Ed448":
		a := ed448.Verify(pub, msg, sig, c)
		b := ed448.VerifyAny(pub, msg, sig, ed448.SignerOptions{Context: c, Scheme: ed448.ED448})
		return a, a == b
	default:
		a := ed448.VerifyPh(pub, msg, sig, c)
		b := ed448.VerifyAny(pub, msg, sig, ed448.SignerOptions{Context: c, Scheme: ed448.ED448Ph})
		return a, a == b
	}
}

func le(b []byte) *big.Int  { return vlib.FromLE(b) }
func hx(b []byte) string    { return vlib.Hex(b) }
func lebytes(x *big.Int, n int) []byte { return vlib.ToLE(x, n) }

func emitVerify(v edref.Variant, class string, pub, msg, ctx, sig []byte) {
	f := v.Facts(pub, msg, ctx, sig)
	l := line{Ev: "verify", Curve: v.C.Name, Variant: v.Name, Class: class, Pub: hx(pub), Msg: hx(msg), Ctx: hx(ctx), Sig: hx(sig),
		Facts: facts{f.LenOK, f.CtxOK, f.SLess, f.ACanon, f.RCanon, f.APrime, f.Cofactorless, f.Cofactored}}
	oc := vlib.Safe(60*time.Second, func() { l.Accepted, l.Agree = libVerify(v, pub, msg, sig, ctx) })
	if oc.Bad() {
		l.Panics, l.Note = 1, oc.Panic
	}
	o.Emit(fix(l))
}

// custom signature: secret scalar s, nonce r, arbitrary byte strings standing for R and A in the challenge hash
func forge(v edref.Variant, s, r *big.Int, Abytes, Rbytes, msg, ctx []byte) []byte {
	c := v.C
	k := challenge(v, Rbytes, Abytes, msg, ctx)
	S := new(big.Int).Mod(new(big.Int).Add(r, new(big.Int).Mul(k, s)), c.L)
	return append(append([]byte{}, Rbytes...), lebytes(S, c.N)...)
}

func challenge(v edref.Variant, Rbytes, Abytes, msg, ctx []byte) *big.Int {
	return v.Challenge(Rbytes, Abytes, msg, ctx)
}

func main() {
	out := flag.String("out", "trace.ndjson", "")
	seed := flag.Int64("seed", 1, "")
	thorough := flag.Bool("thorough", false, "")
	flag.Parse()
	rng := vlib.Rng(*seed, "c05")
	o = vlib.Create(*out)
	defer o.Close()
	reps := 2
	if *thorough {
		reps = 12
	}
	for _, v := range []edref.Variant{edref.VEd25519, edref.VEd25519ctx, edref.VEd25519ph, edref.VEd448, edref.VEd448ph} {
		c := v.C
		seedLen := c.N
		ctxs := [][]byte{{}, []byte("c"), vlib.Bytes(rng, 255)}
		if v.Name == "Ed25519" {
			ctxs = [][]byte{{}}
		} else if v.Name == "Ed25519ctx" {
			ctxs = ctxs[1:]
		}
		seeds := [][]byte{make([]byte, seedLen), bytes.Repeat([]byte{0xff}, seedLen)}
		for i := 0; i < reps; i++ {
			seeds = append(seeds, vlib.Bytes(rng, seedLen))
		}
		msgLens := []int{0, 1, 63, 64, 65, 111, 112, 127, 128, 129, 1000}
		// ---- key derivation and signing
		for si, sd := range seeds {
			for ci, ctx := range ctxs {
				for mi, ml := range msgLens {
					if !*thorough && (si+ci+mi)%3 != 0 {
						continue
					}
					msg := vlib.Bytes(rng, ml)
					t := v.Sign(sd, msg, ctx)
					l := line{Ev: "sign", Curve: c.Name, Variant: v.Name, Class: fmt.Sprintf("seed#%d ctx=%d msg=%d", si, len(ctx), ml), RefPk: hx(t.PubBytes), RefSig: hx(t.Sig), Seed: hx(sd), Msg: hx(msg), Ctx: hx(ctx),
						Hr: vlib.Digits(t.HR), Hk: vlib.Digits(t.HK), Q1: vlib.Quot(t.HR, c.L), Q2: vlib.Quot(t.HK, c.L), Rr: vlib.Digits(t.R), Kk: vlib.Digits(t.K), S: vlib.Digits(t.Secret)}
					var pk, sig []byte
					oc := vlib.Safe(60*time.Second, func() { pk, sig = libSign(v, sd, msg, ctx) })
					if oc.Bad() {
						l.Panics, l.Note = 1, oc.Panic
					} else {
						l.Pk, l.Sig = hx(pk), hx(sig)
						if len(sig) == 2*c.N {
							l.Sdig = vlib.Digits(le(sig[c.N:]))
						}
						l.Q3 = vlib.Quot(new(big.Int).Add(t.R, new(big.Int).Mul(t.K, t.Secret)), c.L)
					}
					o.Emit(fix(l))
				}
			}
		}
		// ---- verification classes
		small := c.SmallOrderPoints()
		for i := 0; i < reps; i++ {
			sd := seeds[(i+2)%len(seeds)]
			ctx := ctxs[i%len(ctxs)]
			msg := vlib.Bytes(rng, []int{0, 1, 100}[i%3])
			t := v.Sign(sd, msg, ctx)
			pub, sig := t.PubBytes, t.Sig
			N := c.N
			emitVerify(v, "honest", pub, msg, ctx, sig)
			// S + j L, and special S values
			S := le(sig[N:])
			for j := int64(1); j <= 16; j++ {
				S2 := new(big.Int).Add(S, new(big.Int).Mul(big.NewInt(j), c.L))
				if S2.BitLen() <= 8*N {
					emitVerify(v, fmt.Sprintf("S+%dL", j), pub, msg, ctx, append(append([]byte{}, sig[:N]...), lebytes(S2, N)...))
				}
			}
			for name, S2 := range map[string]*big.Int{"S=L-1": new(big.Int).Sub(c.L, big.NewInt(1)), "S=L": c.L, "S=L+1": new(big.Int).Add(c.L, big.NewInt(1)),
				"S=2^(bits-2)": new(big.Int).Lsh(big.NewInt(1), uint(c.L.BitLen())), "S=all-ones": new(big.Int).Sub(new(big.Int).Lsh(big.NewInt(1), uint(8*N)), big.NewInt(1)), "S=0": big.NewInt(0)} {
				emitVerify(v, name, pub, msg, ctx, append(append([]byte{}, sig[:N]...), lebytes(S2, N)...))
			}
			if c.Name == "ed448" { // the 57th byte of S
				for _, b := range []byte{1, 0x80, 0xff} {
					s2 := append([]byte{}, sig...)
					s2[2*N-1] = b
					emitVerify(v, "S-last-byte", pub, msg, ctx, s2)
				}
			}
			// single-bit alterations
			for j := 0; j < 12; j++ {
				s2 := append([]byte{}, sig...)
				s2[rng.Intn(len(s2))] ^= 1 << uint(rng.Intn(8))
				emitVerify(v, "sig-bit", pub, msg, ctx, s2)
				p2 := append([]byte{}, pub...)
				p2[rng.Intn(len(p2))] ^= 1 << uint(rng.Intn(8))
				emitVerify(v, "pub-bit", p2, msg, ctx, sig)
			}
			emitVerify(v, "msg-altered", pub, append([]byte{1}, msg...), ctx, sig)
			if v.UseDom {
				emitVerify(v, "ctx-altered", pub, msg, append([]byte("x"), ctx...)[:min(255, len(ctx)+1)], sig)
				emitVerify(v, "ctx-256", pub, msg, vlib.Bytes(rng, 256), sig)
				// a signature made BY THE KEY HOLDER for a 256-byte context with the length octet of dom2 / dom4 wrapped to 0: every equation
				// holds for that hash input, only the context-length rule rejects it
				c256 := vlib.Bytes(rng, 256)
				r256 := new(big.Int).Rand(rng, c.L)
				emitVerify(v, "ctx-256-wrapped-length", pub, msg, c256, forge(v, t.Secret, r256, pub, c.Encode(c.Mul(r256, c.Base())), msg, c256))
			}
			// lengths
			for _, d := range []int{-1, 1} {
				if len(sig)+d >= 0 {
					emitVerify(v, "sig-length", pub, msg, ctx, append(append([]byte{}, sig...), 0)[:len(sig)+d])
				}
				emitVerify(v, "pub-length", append(append([]byte{}, pub...), 0)[:len(pub)+d], msg, ctx, sig)
			}
			emitVerify(v, "sig-empty", pub, msg, ctx, nil)
			emitVerify(v, "pub-empty", nil, msg, ctx, sig)
			// ---- signatures made with knowledge of the secret but unusual byte strings
			s, _ := c.Expand(sd)
			r := new(big.Int).Rand(rng, c.L)
			Rb := c.Encode(c.Mul(r, c.Base()))
			// the same key in a non-canonical spelling inside the challenge hash
			if c.Name == "ed448" {
				for _, junk := range []byte{0x01, 0x40, 0x7f} {
					p2 := append([]byte{}, pub...)
					p2[N-1] |= junk
					emitVerify(v, "A-junk-bits", p2, msg, ctx, forge(v, s, r, p2, Rb, msg, ctx))
					R2 := append([]byte{}, Rb...)
					R2[N-1] |= junk
					emitVerify(v, "R-junk-bits", pub, msg, ctx, forge(v, s, r, pub, R2, msg, ctx))
				}
			}
			// structured signature scalars: with the neutral element as key, (R = [S]B, S) satisfies the equation for every message, whatever S
			// is - so S can be given limb patterns (every 56 / 60 / 64-bit limb equal, single bits, all ones) that random signatures never have
			if i == 0 {
				var pats []*big.Int
				for _, W := range []uint{56, 60, 64} {
					for _, lv := range []*big.Int{big.NewInt(1), big.NewInt(2), new(big.Int).Lsh(big.NewInt(1), W-1), new(big.Int).Lsh(big.NewInt(1), W-3),
						new(big.Int).Sub(new(big.Int).Lsh(big.NewInt(1), W), big.NewInt(1)), new(big.Int).Add(new(big.Int).Lsh(big.NewInt(1), W-3), big.NewInt(2))} {
						x := new(big.Int)
						for i := uint(0); i*W < uint(c.L.BitLen()); i++ {
							x.Or(x, new(big.Int).Lsh(lv, i*W))
						}
						x.Mod(x, new(big.Int).Lsh(big.NewInt(1), uint(c.L.BitLen()-1)))
						pats = append(pats, x, new(big.Int).Mod(new(big.Int).Lsh(x, 2), c.L))
					}
				}
				for pi, S := range pats {
					if S.Cmp(c.L) >= 0 {
						continue
					}
					neutral := small[0]
					for _, T := range small {
						if T.X.Sign() == 0 && T.Y.Cmp(big.NewInt(1)) == 0 {
							neutral = T
						}
					}
					Ib := c.Encode(neutral)
					Rs := c.Encode(c.Mul(S, c.Base()))
					emitVerify(v, fmt.Sprintf("S-structured#%d", pi), Ib, msg, ctx, forge(v, big.NewInt(0), S, Ib, Rs, msg, ctx))
					if pi%4 == 0 { // and with R for another scalar: must not verify
						Ro := c.Encode(c.Mul(new(big.Int).Add(S, big.NewInt(1)), c.Base()))
						emitVerify(v, fmt.Sprintf("S-structured-wrong-R#%d", pi), Ib, msg, ctx, forge(v, big.NewInt(0), S, Ib, Ro, msg, ctx))
					}
				}
			}
			// small-order keys (A = T): S = r verifies the cofactored equation for every message
			for ti, T := range small {
				Tb := c.Encode(T)
				emitVerify(v, fmt.Sprintf("A-small-order#%d", ti), Tb, msg, ctx, forge(v, big.NewInt(0), r, Tb, Rb, msg, ctx))
				// non-canonical spellings of the small-order points: y + p, and "x = 0 with the sign bit"
				yp := new(big.Int).Add(T.Y, c.P)
				if yp.BitLen() <= c.Bits {
					nb := lebytes(yp, N)
					nb[N-1] |= byte(T.X.Bit(0)) << 7
					emitVerify(v, "A-noncanonical-y+p", nb, msg, ctx, forge(v, big.NewInt(0), r, nb, Rb, msg, ctx))
					emitVerify(v, "R-noncanonical-y+p", pub, msg, ctx, forge(v, s, big.NewInt(0), pub, nb, msg, ctx))
				}
				if T.X.Sign() == 0 {
					nb := append([]byte{}, Tb...)
					nb[N-1] |= 0x80
					emitVerify(v, "A-x0-signbit", nb, msg, ctx, forge(v, big.NewInt(0), r, nb, Rb, msg, ctx))
					emitVerify(v, "R-x0-signbit", pub, msg, ctx, forge(v, s, big.NewInt(0), pub, nb, msg, ctx))
				}
				// R of small order with an honest key: S = k s
				emitVerify(v, fmt.Sprintf("R-small-order#%d", ti), pub, msg, ctx, forge(v, s, big.NewInt(0), pub, Tb, msg, ctx))
				// mixed-order key A = sB + T, signed with s
				Am := c.Encode(c.Add(c.Mul(s, c.Base()), T))
				emitVerify(v, fmt.Sprintf("A-mixed-order#%d", ti), Am, msg, ctx, forge(v, s, r, Am, Rb, msg, ctx))
			}
			// y >= p for arbitrary (not small-order) y is not expressible for these primes except near the top: y = p + small
			for d := int64(0); d < 3; d++ {
				nb := lebytes(new(big.Int).Add(c.P, big.NewInt(d)), N)
				emitVerify(v, "A-y>=p", nb, msg, ctx, forge(v, big.NewInt(0), r, nb, Rb, msg, ctx))
			}
			// not on the curve
			for j := 0; j < 4; j++ {
				nb := vlib.Bytes(rng, N)
				nb[N-1] &= 0x7f
				if c.Name == "ed448" {
					nb[N-1] = 0
				}
				emitVerify(v, "A-random-string", nb, msg, ctx, forge(v, big.NewInt(0), r, nb, Rb, msg, ctx))
				emitVerify(v, "R-random-string", pub, msg, ctx, forge(v, s, r, pub, nb, msg, ctx))
			}
		}
	}
	fmt.Printf("lines=%d\n", o.N)
}

func min(a, b int) int {
	if a < b {
		return a
	}
	return b
}
