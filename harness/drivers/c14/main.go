// Driver for C14: a seeded, edge-biased transcript of public operations of every primitive that has more than one
// back-end.  The same binary source is built with and without -tags purego and run under GODEBUG=cpu.* settings; every
// line carries a digest of the inputs and a digest of the outputs, so that transcripts of different configurations can
// be put side by side (spec/C14/Lockstep.tla).
package main

import (
	"runtime"
	"unsafe"
	"bytes"
	"crypto/elliptic"
	"crypto/sha256"
	"encoding/binary"
	"flag"
	"fmt"
	"math/big"
	"math/rand"
	"strings"

	"github.com/cloudflare/circl/dh/csidh"
	"github.com/cloudflare/circl/dh/curve4q"
	"github.com/cloudflare/circl/dh/x25519"
	"github.com/cloudflare/circl/dh/x448"
	"github.com/cloudflare/circl/ecc/fourq"
	"github.com/cloudflare/circl/ecc/p384"
	"github.com/cloudflare/circl/hpke"
	"github.com/cloudflare/circl/internal/sha3"
	kemschemes "github.com/cloudflare/circl/kem/schemes"
	fp25519 "github.com/cloudflare/circl/math/fp25519"
	fp448 "github.com/cloudflare/circl/math/fp448"
	"github.com/cloudflare/circl/sign/ed25519"
	"github.com/cloudflare/circl/sign/ed448"
	signschemes "github.com/cloudflare/circl/sign/schemes"
	"github.com/cloudflare/circl/simd/keccakf1600"
	"github.com/cloudflare/circl/xof"
	"github.com/cloudflare/circl/xof/k12"
	"github.com/cloudflare/circl/zzverif/mldsaref"
	"github.com/cloudflare/circl/zzverif/mlkemref"
	"github.com/cloudflare/circl/zzverif/vlib"
)

type line struct {
	I    int    `json:"i"`
	Prim string `json:"prim"`
	Op   string `json:"op"`
	In   string `json:"in"`
	Out  string `json:"out"`
}

var (
	o   *vlib.Out
	seq int
)

func dg(parts ...[]byte) string {
	h := sha256.New()
	for _, p := range parts {
		var l [4]byte
		binary.LittleEndian.PutUint32(l[:], uint32(len(p)))
		h.Write(l[:])
		h.Write(p)
	}
	return fmt.Sprintf("%x", h.Sum(nil)[:12])
}

func emit(prim, op string, in [][]byte, out ...[]byte) {
	seq++
	o.Emit(line{I: seq, Prim: prim, Op: op, In: dg(in...), Out: dg(out...)})
}

func bb(b bool) []byte {
	if b {
		return []byte{1}
	}
	return []byte{0}
}

// structured byte strings: limbs (8 bytes) from a set of corner values
func structured(rng *rand.Rand, n int) []byte {
	b := make([]byte, n)
	limbs := []uint64{0, 1, 2, 18, 19, 20, 37, 38, 39, 1<<32 - 1, 1 << 32, 1 << 63, 1<<63 - 1, ^uint64(0) - 38, ^uint64(0) - 19, ^uint64(0) - 18, ^uint64(0) - 1, ^uint64(0)}
	for i := 0; i+8 <= n; i += 8 {
		v := limbs[rng.Intn(len(limbs))]
		if rng.Intn(4) == 0 {
			v = rng.Uint64()
		}
		binary.LittleEndian.PutUint64(b[i:], v)
	}
	return b
}

func fields(rng *rand.Rand, n int) {
	ops25519 := func(x, y fp25519.Elt, tag string) {
		in := [][]byte{x[:], y[:]}
		var z fp25519.Elt
		fp25519.Add(&z, &x, &y)
		emit("fp25519", "Add"+tag, in, z[:])
		fp25519.Sub(&z, &x, &y)
		emit("fp25519", "Sub"+tag, in, z[:])
		fp25519.Mul(&z, &x, &y)
		emit("fp25519", "Mul"+tag, in, z[:])
		fp25519.Sqr(&z, &x)
		emit("fp25519", "Sqr"+tag, in, z[:])
		a, b := x, y
		fp25519.AddSub(&a, &b)
		emit("fp25519", "AddSub"+tag, in, a[:], b[:])
		fp25519.Neg(&z, &x)
		emit("fp25519", "Neg"+tag, in, z[:])
		z = x
		fp25519.Modp(&z)
		emit("fp25519", "Modp"+tag, in, z[:])
		fp25519.Inv(&z, &x)
		fp25519.Modp(&z)
		emit("fp25519", "Inv"+tag, in, z[:])
		qr := fp25519.InvSqrt(&z, &x, &y)
		fp25519.Modp(&z)
		emit("fp25519", "InvSqrt"+tag, in, z[:], bb(qr))
		a, b = x, y
		fp25519.Cswap(&a, &b, uint(x[0]&1))
		fp25519.Cmov(&a, &y, uint(y[0]&1))
		emit("fp25519", "Cswap+Cmov"+tag, in, a[:], b[:])
		a = x
		emit("fp25519", "IsZero"+tag, in, bb(fp25519.IsZero(&a)))
		// aliased destinations
		a, b = x, y
		fp25519.Add(&a, &a, &b)
		fp25519.Mul(&b, &a, &b)
		fp25519.Sqr(&a, &a)
		fp25519.Sub(&b, &a, &b)
		emit("fp25519", "aliased chain"+tag, in, a[:], b[:])
	}
	ops448 := func(x, y fp448.Elt, tag string) {
		in := [][]byte{x[:], y[:]}
		var z fp448.Elt
		fp448.Add(&z, &x, &y)
		emit("fp448", "Add"+tag, in, z[:])
		fp448.Sub(&z, &x, &y)
		emit("fp448", "Sub"+tag, in, z[:])
		fp448.Mul(&z, &x, &y)
		emit("fp448", "Mul"+tag, in, z[:])
		fp448.Sqr(&z, &x)
		emit("fp448", "Sqr"+tag, in, z[:])
		a, b := x, y
		fp448.AddSub(&a, &b)
		emit("fp448", "AddSub"+tag, in, a[:], b[:])
		fp448.Neg(&z, &x)
		emit("fp448", "Neg"+tag, in, z[:])
		z = x
		fp448.Modp(&z)
		emit("fp448", "Modp"+tag, in, z[:])
		fp448.Inv(&z, &x)
		fp448.Modp(&z)
		emit("fp448", "Inv"+tag, in, z[:])
		qr := fp448.InvSqrt(&z, &x, &y)
		fp448.Modp(&z)
		emit("fp448", "InvSqrt"+tag, in, z[:], bb(qr))
		a, b = x, y
		fp448.Add(&a, &a, &b)
		fp448.Mul(&b, &a, &b)
		fp448.Sqr(&a, &a)
		fp448.Sub(&b, &a, &b)
		emit("fp448", "aliased chain"+tag, in, a[:], b[:])
	}
	var ones25519, ones448 = bytes.Repeat([]byte{0xff}, 32), bytes.Repeat([]byte{0xff}, 56)
	var x, y fp25519.Elt
	copy(x[:], ones25519)
	copy(y[:], ones25519)
	ops25519(x, y, " all-ones")
	var u, v fp448.Elt
	copy(u[:], ones448)
	copy(v[:], ones448)
	ops448(u, v, " all-ones")
	// every ordered pair of a small set of corner values (0, 1, p-1, p, p+1, the first non-canonical values, the maximum): differences and
	// sums that need both reduction folds
	corner := func(size int, pHex string) [][]byte {
		p, _ := new(big.Int).SetString(pHex, 16)
		w := new(big.Int).Lsh(big.NewInt(1), uint(8*size))
		var out [][]byte
		for _, v := range []*big.Int{big.NewInt(0), big.NewInt(1), big.NewInt(2), new(big.Int).Sub(p, big.NewInt(1)), p, new(big.Int).Add(p, big.NewInt(1)),
			new(big.Int).Sub(w, big.NewInt(1)), new(big.Int).Sub(w, big.NewInt(2)), new(big.Int).Rsh(w, 1), new(big.Int).Lsh(big.NewInt(1), uint(4*size))} {
			out = append(out, vlib.ToLE(v, size))
		}
		return out
	}
	for _, a := range corner(32, "7fffffffffffffffffffffffffffffffffffffffffffffffffffffffffffffed") {
		for _, b := range corner(32, "7fffffffffffffffffffffffffffffffffffffffffffffffffffffffffffffed") {
			copy(x[:], a)
			copy(y[:], b)
			ops25519(x, y, " corner")
		}
	}
	for _, a := range corner(56, "fffffffffffffffffffffffffffffffffffffffffffffffffffffffeffffffffffffffffffffffffffffffffffffffffffffffffffffffff") {
		for _, b := range corner(56, "fffffffffffffffffffffffffffffffffffffffffffffffffffffffeffffffffffffffffffffffffffffffffffffffffffffffffffffffff") {
			copy(u[:], a)
			copy(v[:], b)
			ops448(u, v, " corner")
		}
	}
	for i := 0; i < n; i++ {
		copy(x[:], structured(rng, 32))
		copy(y[:], structured(rng, 32))
		if i%5 == 0 { // x + y just below / above 2^257 - 38 and 2^256 - 38
			for j := range y {
				y[j] = ^x[j]
			}
			y[0] -= byte(rng.Intn(40))
		}
		ops25519(x, y, "")
		copy(u[:], structured(rng, 56))
		copy(v[:], structured(rng, 56))
		if i%5 == 0 {
			for j := range v {
				v[j] = ^u[j]
			}
			v[0] -= byte(rng.Intn(3))
			v[28] -= byte(rng.Intn(3))
		}
		ops448(u, v, "")
	}
}

func dh(rng *rand.Rand, n int) {
	low25519 := [][]byte{make([]byte, 32), append([]byte{1}, make([]byte, 31)...), bytes.Repeat([]byte{0xff}, 32),
		vlib.UnHex("e0eb7a7c3b41b8ae1656e3faf19fc46ada098deb9c32b1fd866205165f49b800"), vlib.UnHex("ecffffffffffffffffffffffffffffffffffffffffffffffffffffffffffff7f"),
		vlib.UnHex("edffffffffffffffffffffffffffffffffffffffffffffffffffffffffffff7f"), vlib.UnHex("eeffffffffffffffffffffffffffffffffffffffffffffffffffffffffffff7f")}
	for i := 0; i < n; i++ {
		var sk, pk, pk2, sh x25519.Key
		copy(sk[:], structured(rng, 32))
		x25519.KeyGen(&pk, &sk)
		emit("x25519", "KeyGen", [][]byte{sk[:]}, pk[:])
		if i < len(low25519) {
			copy(pk2[:], low25519[i])
		} else {
			copy(pk2[:], structured(rng, 32))
		}
		ok := x25519.Shared(&sh, &sk, &pk2)
		emit("x25519", "Shared", [][]byte{sk[:], pk2[:]}, sh[:], bb(ok))
		var s4, p4, q4, h4 x448.Key
		copy(s4[:], structured(rng, 56))
		x448.KeyGen(&p4, &s4)
		emit("x448", "KeyGen", [][]byte{s4[:]}, p4[:])
		copy(q4[:], structured(rng, 56))
		if i == 0 {
			q4 = x448.Key{}
		} else if i == 1 {
			q4 = x448.Key{1}
		} else if i == 2 {
			copy(q4[:], bytes.Repeat([]byte{0xff}, 56))
		}
		ok = x448.Shared(&h4, &s4, &q4)
		emit("x448", "Shared", [][]byte{s4[:], q4[:]}, h4[:], bb(ok))
		var cs, cp, cq, ch curve4q.Key
		copy(cs[:], structured(rng, 32))
		curve4q.KeyGen(&cp, &cs)
		emit("curve4q", "KeyGen", [][]byte{cs[:]}, cp[:])
		var s2 curve4q.Key
		copy(s2[:], structured(rng, 32))
		curve4q.KeyGen(&cq, &s2)
		ok = curve4q.Shared(&ch, &cs, &cq)
		emit("curve4q", "Shared", [][]byte{cs[:], cq[:]}, ch[:], bb(ok))
		var k [32]byte
		copy(k[:], structured(rng, 32))
		var P, Q fourq.Point
		P.ScalarBaseMult(&k)
		var enc [32]byte
		P.Marshal(&enc)
		emit("fourq", "ScalarBaseMult", [][]byte{k[:]}, enc[:])
		copy(k[:], structured(rng, 32))
		Q.ScalarMult(&k, &P)
		Q.Marshal(&enc)
		emit("fourq", "ScalarMult", [][]byte{k[:]}, enc[:])
		Q.Add(&Q, &P)
		Q.Marshal(&enc)
		emit("fourq", "Add", nil, enc[:])
	}
}

// fourqCrafted: valid FourQ points whose y-coordinate (y0 + y1 i) has y0 < y1 with EQUAL low 64-bit words - the operand shape on which a
// borrow has to cross the word boundary inside the vectorised GF(p^2) squaring - doubled, added and multiplied.
func fourqCrafted(rng *rand.Rand, n int) {
	for tries := 0; tries < 3*n; tries++ { // a fixed number of attempts: the transcript has the same shape in every configuration
		var enc [32]byte
		rng.Read(enc[:])
		copy(enc[16:24], enc[0:8]) // equal low words
		enc[15] &= 0x3f            // y0 < 2^126
		enc[31] = enc[31]&0x3f | 0x40 // 2^126 <= y1 < 2^127, so y0 < y1; sign bit of x clear
		var P fourq.Point
		okP := P.Unmarshal(&enc)
		emit("fourq", "crafted: Unmarshal", [][]byte{enc[:]}, bb(okP))
		if !okP {
			continue
		}
		var D, S, T fourq.Point
		var out [32]byte
		D.Add(&P, &P)
		D.Marshal(&out)
		emit("fourq", "crafted: P+P", [][]byte{enc[:]}, out[:], bb(D.IsOnCurve()))
		var k [32]byte
		copy(k[:], structured(rng, 32))
		S.ScalarMult(&k, &P)
		S.Marshal(&out)
		emit("fourq", "crafted: ScalarMult", [][]byte{enc[:], k[:]}, out[:], bb(S.IsOnCurve()))
		T.Add(&D, &P)
		T.Marshal(&out)
		emit("fourq", "crafted: 2P+P", [][]byte{enc[:]}, out[:])
		var sh, sk, pk curve4q.Key
		copy(sk[:], k[:])
		copy(pk[:], enc[:])
		ok := curve4q.Shared(&sh, &sk, &pk)
		emit("curve4q", "crafted: Shared", [][]byte{enc[:], k[:]}, sh[:], bb(ok))
	}
}

func curves(rng *rand.Rand, n int) {
	c := p384.P384()
	params := c.Params()
	for i := 0; i < n; i++ {
		k := structured(rng, 48)
		m := structured(rng, 48)
		if i == 0 {
			k, m = params.N.Bytes(), []byte{1}
		}
		x, y := c.ScalarBaseMult(k)
		emit("p384", "ScalarBaseMult", [][]byte{k}, elliptic.Marshal(c, x, y))
		x2, y2 := c.ScalarMult(x, y, m)
		emit("p384", "ScalarMult", [][]byte{k, m}, x2.Bytes(), y2.Bytes())
		x3, y3 := c.CombinedMult(x, y, k, m)
		emit("p384", "CombinedMult", [][]byte{k, m}, x3.Bytes(), y3.Bytes())
		x4, y4 := c.Add(x, y, x2, y2)
		x5, y5 := c.Double(x4, y4)
		emit("p384", "Add+Double", [][]byte{k, m}, x4.Bytes(), y4.Bytes(), x5.Bytes(), y5.Bytes())
		emit("p384", "IsOnCurve", [][]byte{k, m}, bb(c.IsOnCurve(x5, y5)), bb(c.IsOnCurve(x5, new(big.Int).Add(y5, big.NewInt(1)))))
	}
	// coordinates that are not reduced: curve points with a tiny x spelled x + p, x + 2p (what fits into 384 bits and what does not),
	// y + p, and negative values
	for x, found := int64(0), 0; x < 200 && found < 4; x++ {
		r := new(big.Int).Mul(big.NewInt(x), big.NewInt(x))
		r.Mul(r, big.NewInt(x)).Sub(r, big.NewInt(3*x)).Add(r, params.B).Mod(r, params.P)
		y := new(big.Int).ModSqrt(r, params.P)
		if y == nil {
			continue
		}
		found++
		X := big.NewInt(x)
		xp, x2p, yp := new(big.Int).Add(X, params.P), new(big.Int).Add(X, new(big.Int).Lsh(params.P, 1)), new(big.Int).Add(y, params.P)
		emit("p384", "IsOnCurve(unreduced)", [][]byte{X.Bytes()}, bb(c.IsOnCurve(X, y)), bb(c.IsOnCurve(xp, y)), bb(c.IsOnCurve(x2p, y)), bb(c.IsOnCurve(X, yp)),
			bb(c.IsOnCurve(new(big.Int).Neg(X), y)), bb(c.IsOnCurve(X, new(big.Int).Neg(y))))
	}
}

func eddsa(rng *rand.Rand, n int) {
	for i := 0; i < n; i++ {
		seed := structured(rng, 32)
		sk := ed25519.NewKeyFromSeed(seed)
		msg := vlib.Bytes(rng, []int{0, 1, 63, 64, 200}[i%5])
		sig := ed25519.Sign(sk, msg)
		pk := sk.Public().(ed25519.PublicKey)
		emit("ed25519", "keygen+Sign", [][]byte{seed, msg}, pk, sig)
		bad := append([]byte{}, sig...)
		bad[rng.Intn(64)] ^= 1 << uint(rng.Intn(8))
		emit("ed25519", "Verify", [][]byte{seed, msg}, bb(ed25519.Verify(pk, msg, sig)), bb(ed25519.Verify(pk, msg, bad)))
		ctx := "ctx"
		sigc := ed25519.SignWithCtx(sk, msg, ctx)
		sigp := ed25519.SignPh(sk, msg, ctx)
		emit("ed25519", "SignWithCtx+SignPh", [][]byte{seed, msg}, sigc, sigp, bb(ed25519.VerifyWithCtx(pk, msg, sigc, ctx)), bb(ed25519.VerifyPh(pk, msg, sigp, ctx)))
		seed4 := structured(rng, 57)
		sk4 := ed448.NewKeyFromSeed(seed4)
		pk4 := sk4.Public().(ed448.PublicKey)
		sig4 := ed448.Sign(sk4, msg, ctx)
		sig4p := ed448.SignPh(sk4, msg, ctx)
		emit("ed448", "keygen+Sign+SignPh", [][]byte{seed4, msg}, pk4, sig4, sig4p)
		bad4 := append([]byte{}, sig4...)
		bad4[rng.Intn(114)] ^= 1 << uint(rng.Intn(8))
		emit("ed448", "Verify", [][]byte{seed4, msg}, bb(ed448.Verify(pk4, msg, sig4, ctx)), bb(ed448.Verify(pk4, msg, bad4, ctx)), bb(ed448.VerifyPh(pk4, msg, sig4p, ctx)))
	}
}

func kems(rng *rand.Rand, n int, thorough bool) {
	for _, sch := range kemschemes.All() {
		name := sch.Name()
		reps := n
		if strings.HasPrefix(name, "SIKE") || strings.HasPrefix(name, "Frodo") {
			reps = 1
			if !thorough && name != "SIKEp434" && name != "FrodoKEM-640-SHAKE" {
				continue
			}
		}
		// boundary seeds for the lattice KEMs: the LAST and one other matrix entry need more than three SHAKE128 blocks / more than 510
		// bytes of their stream (where vectorised and scalar samplers hand over, and buffers are refilled)
		var boundary [][]byte
		for _, p := range mlkemref.All {
			if p.Name == name {
				for _, pos := range []int{p.K*p.K - 1, int(rng.Int31n(int32(p.K * p.K)))} {
					for _, nb := range []int{504, 510} {
						if d := p.BoundarySeed(vlib.Bytes(rng, 32), pos/p.K, pos%p.K, nb, 20000); d != nil {
							boundary = append(boundary, append(d, vlib.Bytes(rng, 32)...))
						}
					}
				}
			}
		}
		for i := 0; i < reps+len(boundary); i++ {
			seed := vlib.Bytes(rng, sch.SeedSize())
			if i >= reps {
				seed = boundary[i-reps]
			}
			pk, sk := sch.DeriveKeyPair(seed)
			pkb, _ := pk.MarshalBinary()
			skb, _ := sk.MarshalBinary()
			emit("kem."+name, "DeriveKeyPair", [][]byte{seed}, pkb, skb)
			es := vlib.Bytes(rng, sch.EncapsulationSeedSize())
			ct, ss, err := sch.EncapsulateDeterministically(pk, es)
			if err != nil {
				vlib.Die("%s: %v", name, err)
			}
			emit("kem."+name, "Encapsulate", [][]byte{seed, es}, ct, ss)
			ss2, err := sch.Decapsulate(sk, ct)
			emit("kem."+name, "Decapsulate", [][]byte{seed, es}, ss2, []byte(fmt.Sprint(err)))
			bad := append([]byte{}, ct...)
			bad[rng.Intn(len(bad))] ^= 1 << uint(rng.Intn(8))
			ss3, err := sch.Decapsulate(sk, bad)
			emit("kem."+name, "Decapsulate(altered)", [][]byte{seed, es, bad}, ss3, []byte(fmt.Sprint(err)))
			for _, fill := range []byte{0xff, 0xee} { // public keys whose coefficients are not reduced (round-3 Kyber does not refuse them)
				pkf, err := sch.UnmarshalBinaryPublicKey(bytes.Repeat([]byte{fill}, len(pkb)))
				if err != nil {
					emit("kem."+name, fmt.Sprintf("Encapsulate(key of %02x)", fill), [][]byte{seed}, []byte("refused: "+err.Error()))
					continue
				}
				var ctf, ssf []byte
				oc := vlib.Safe(60e9, func() { ctf, ssf, err = sch.EncapsulateDeterministically(pkf, es) })
				emit("kem."+name, fmt.Sprintf("Encapsulate(key of %02x)", fill), [][]byte{seed, es}, ctf, ssf, []byte(fmt.Sprint(err, oc.Bad())))
			}
			for _, fill := range []byte{0x00, 0xff, 0x55} { // constant ciphertexts: extreme decompressed coefficients through the (vectorised) NTT
				cc := bytes.Repeat([]byte{fill}, len(ct))
				ssc, err := sch.Decapsulate(sk, cc)
				emit("kem."+name, fmt.Sprintf("Decapsulate(constant %02x)", fill), [][]byte{seed}, ssc, []byte(fmt.Sprint(err)))
			}
			pk2, err := sch.UnmarshalBinaryPublicKey(pkb)
			if err == nil {
				b2, _ := pk2.MarshalBinary()
				emit("kem."+name, "PublicKey round trip", [][]byte{seed}, b2)
			}
			sk2, err := sch.UnmarshalBinaryPrivateKey(skb)
			if err == nil {
				b2, _ := sk2.MarshalBinary()
				ss4, _ := sch.Decapsulate(sk2, ct)
				emit("kem."+name, "PrivateKey round trip", [][]byte{seed}, b2, ss4)
			}
		}
	}
}

func sigs(rng *rand.Rand, n int) {
	for _, sch := range signschemes.All() {
		name := sch.Name()
		// boundary seeds for the lattice schemes: the matrix expansion draws the candidate q (to be rejected) resp. q - 1 (kept)
		var boundary [][]byte
		for _, p := range mldsaref.All {
			if p.Name == name {
				for _, target := range []int64{mldsaref.Q, mldsaref.Q - 1} {
					if bs := p.BoundarySeed(vlib.Bytes(rng, 32), target, 40000); bs != nil {
						boundary = append(boundary, bs)
					}
				}
			}
		}
		for i := 0; i < n+len(boundary); i++ {
			seed := vlib.Bytes(rng, sch.SeedSize())
			if i >= n {
				seed = boundary[i-n]
			}
			pk, sk := sch.DeriveKey(seed)
			pkb, _ := pk.MarshalBinary()
			skb, _ := sk.MarshalBinary()
			emit("sign."+name, "DeriveKey", [][]byte{seed}, pkb, skb)
			msg := vlib.Bytes(rng, []int{0, 1, 135, 136, 1000}[i%5])
			sig := sch.Sign(sk, msg, nil)
			det := bytes.Equal(sig, sch.Sign(sk, msg, nil))
			if det {
				emit("sign."+name, "Sign", [][]byte{seed, msg}, sig)
			}
			bad := append([]byte{}, sig...)
			bad[rng.Intn(len(bad))] ^= 1 << uint(rng.Intn(8))
			emit("sign."+name, "Verify", [][]byte{seed, msg}, bb(sch.Verify(pk, msg, sig, nil)), bb(sch.Verify(pk, msg, bad, nil)))
			pk2, err := sch.UnmarshalBinaryPublicKey(pkb)
			if err == nil {
				emit("sign."+name, "Verify(decoded key)", [][]byte{seed, msg}, bb(sch.Verify(pk2, msg, sig, nil)))
			}
		}
	}
}

func hashes(rng *rand.Rand, thorough bool) {
	lens := []int{0, 1, 135, 136, 137, 167, 168, 169, 200, 8191, 8192, 8193, 16384, 16385, 3 * 8192, 4*8192 + 1, 5 * 8192, 8*8192 + 1, 9 * 8192, 9*8192 + 1, 10 * 8192, 13*8192 + 7, 17*8192 + 1, 33*8192 + 100}
	if thorough {
		lens = append(lens, 65*8192+1, 129*8192+5, 1<<20+3)
	}
	for _, n := range lens {
		msg := vlib.Bytes(rng, n)
		in := [][]byte{msg}
		for _, id := range []xof.ID{xof.SHAKE128, xof.SHAKE256, xof.BLAKE2XB, xof.BLAKE2XS, xof.K12D10} {
			h := id.New()
			_, _ = h.Write(msg) // ONE write of the whole message
			out := make([]byte, 200)
			_, _ = h.Read(out)
			emit("xof", fmt.Sprintf("%v one write len=%d", id, n), in, out)
			h2 := id.New()
			for off := 0; off < n; {
				step := []int{1, 7, 136, 1024, 8192, 20000, 40000}[rng.Intn(7)]
				if off+step > n {
					step = n - off
				}
				_, _ = h2.Write(msg[off : off+step])
				off += step
			}
			out2 := make([]byte, 200)
			_, _ = h2.Read(out2[:3])
			_, _ = h2.Read(out2[3:])
			emit("xof", fmt.Sprintf("%v chunked len=%d", id, n), in, out2)
		}
		ctx := vlib.Bytes(rng, n%300)
		k := k12.NewDraft10(ctx)
		_, _ = k.Write(msg)
		out := make([]byte, 64)
		_, _ = k.Read(out)
		emit("k12", fmt.Sprintf("NewDraft10 ctx one write len=%d", n), [][]byte{msg, ctx}, out)
		for _, mk := range []struct {
			name string
			f    func() sha3.State
		}{{"sha3-224", sha3.New224}, {"sha3-256", sha3.New256}, {"sha3-384", sha3.New384}, {"sha3-512", sha3.New512}} {
			h := mk.f()
			_, _ = h.Write(msg)
			emit("sha3", fmt.Sprintf("%s len=%d", mk.name, n), in, h.Sum(nil))
		}
		ts := sha3.NewTurboShake128(0x1f)
		_, _ = ts.Write(msg)
		o2 := make([]byte, 100)
		_, _ = ts.Read(o2)
		emit("sha3", fmt.Sprintf("turboshake128 len=%d", n), in, o2)
	}
	// the permutation itself, 1-, 2- and 4-way
	for i := 0; i < 20; i++ {
		var st [4][25]uint64
		for l := 0; l < 4; l++ {
			for j := range st[l] {
				st[l][j] = binary.LittleEndian.Uint64(structured(rng, 8))
			}
		}
		var inb []byte
		for l := 0; l < 4; l++ {
			for j := range st[l] {
				inb = binary.LittleEndian.AppendUint64(inb, st[l][j])
			}
		}
		for _, turbo := range []bool{false, true} {
			ref := st
			var outb []byte
			for l := 0; l < 4; l++ {
				sha3.KeccakF1600(&ref[l], turbo)
				for j := range ref[l] {
					outb = binary.LittleEndian.AppendUint64(outb, ref[l][j])
				}
			}
			emit("keccakf1600", fmt.Sprintf("scalar turbo=%v (4 states)", turbo), [][]byte{inb}, outb)
			// the four-way state, whatever the CPU offers (Permute falls back to scalar code), placed at each of the four addresses modulo 32
			// that an 8-byte-aligned variable can have: the state finds its 32-byte-aligned window itself
			for k := 0; k < 4; k++ {
				slab := make([]uint64, 4+4+int(unsafe.Sizeof(keccakf1600.StateX4{}))/8)
				i0 := 0
				for uintptr(unsafe.Pointer(&slab[i0]))%32 != 0 {
					i0++
				}
				s4 := (*keccakf1600.StateX4)(unsafe.Pointer(&slab[i0+k]))
				a := s4.Initialize(turbo)
				for l := 0; l < 4; l++ {
					for j := 0; j < 25; j++ {
						a[4*j+l] = st[l][j]
					}
				}
				s4.Permute()
				var outb4 []byte
				for l := 0; l < 4; l++ {
					for j := 0; j < 25; j++ {
						outb4 = binary.LittleEndian.AppendUint64(outb4, a[4*j+l])
					}
				}
				runtime.KeepAlive(slab)
				emit("keccakf1600", fmt.Sprintf("x4 at %d mod 32 turbo=%v", 8*k, turbo), [][]byte{inb}, outb4)
				if !bytes.Equal(outb4, outb) {
					emit("keccakf1600", fmt.Sprintf("x4 at %d mod 32 turbo=%v DIFFERS FROM SCALAR", 8*k, turbo), [][]byte{inb}, []byte{byte(k)})
				}
			}
			outb2 := outb[:2*25*8]
			if keccakf1600.IsEnabledX2() {
				outb2 = nil
				var s2 keccakf1600.StateX2
				a := s2.Initialize(turbo)
				for l := 0; l < 2; l++ {
					for j := 0; j < 25; j++ {
						a[2*j+l] = st[l][j]
					}
				}
				s2.Permute()
				for l := 0; l < 2; l++ {
					for j := 0; j < 25; j++ {
						outb2 = binary.LittleEndian.AppendUint64(outb2, a[2*j+l])
					}
				}
			}
			emit("keccakf1600", fmt.Sprintf("x2 or scalar turbo=%v", turbo), [][]byte{inb}, outb2)
		}
	}
}

func hpkeAndCsidh(rng *rand.Rand, thorough bool) {
	for _, kemID := range []hpke.KEM{hpke.KEM_X25519_HKDF_SHA256, hpke.KEM_X448_HKDF_SHA512, hpke.KEM_P384_HKDF_SHA384, hpke.KEM_X25519_KYBER768_DRAFT00, hpke.KEM_XWING} {
		for _, aead := range []hpke.AEAD{hpke.AEAD_AES128GCM, hpke.AEAD_ChaCha20Poly1305} {
			suite := hpke.NewSuite(kemID, hpke.KDF_HKDF_SHA256, aead)
			sch := kemID.Scheme()
			seed := vlib.Bytes(rng, sch.SeedSize())
			pk, sk := sch.DeriveKeyPair(seed)
			info := vlib.Bytes(rng, 9)
			snd, err := suite.NewSender(pk, info)
			if err != nil {
				vlib.Die("%v", err)
			}
			rnd := vlib.Bytes(rng, 128)
			enc, sealer, err := snd.Setup(&vlib.BytesReader{B: rnd})
			if err != nil {
				vlib.Die("%v", err)
			}
			pt, aad := vlib.Bytes(rng, 33), vlib.Bytes(rng, 5)
			ct, _ := sealer.Seal(pt, aad)
			ct2, _ := sealer.Seal(pt, aad)
			exp := sealer.Export([]byte("exp"), 40)
			rcv, _ := suite.NewReceiver(sk, info)
			opener, err := rcv.Setup(enc)
			var pt2 []byte
			if err == nil {
				pt2, _ = opener.Open(ct, aad)
			}
			emit("hpke", fmt.Sprintf("kem=%d aead=%d", kemID, aead), [][]byte{seed, info, rnd, pt, aad}, enc, ct, ct2, exp, pt2)
		}
	}
	reps := 1
	if thorough {
		reps = 3
	}
	for i := 0; i < reps; i++ {
		var ska, skb csidh.PrivateKey
		var pka, pkb csidh.PublicKey
		ra, rb := vlib.Bytes(rng, 37), vlib.Bytes(rng, 37)
		for j := range ra {
			ra[j], rb[j] = byte(int8(ra[j])%6), byte(int8(rb[j])%6)
		}
		ska.Import(ra)
		skb.Import(rb)
		rd := vlib.SeededReader{R: rand.New(rand.NewSource(int64(i)))}
		csidh.GeneratePublicKey(&pka, &ska, rd)
		csidh.GeneratePublicKey(&pkb, &skb, rd)
		var sa, sb [64]byte
		oka := csidh.DeriveSecret(&sa, &pkb, &ska, rd)
		okb := csidh.DeriveSecret(&sb, &pka, &skb, rd)
		ea, eb := make([]byte, 64), make([]byte, 64)
		pka.Export(ea)
		pkb.Export(eb)
		emit("csidh", "keygen+derive", [][]byte{ra, rb}, ea, eb, sa[:], sb[:], bb(oka), bb(okb))
	}
}

func main() {
	out := flag.String("out", "transcript.ndjson", "")
	seed := flag.Int64("seed", 1, "")
	thorough := flag.Bool("thorough", false, "")
	flag.Parse()
	o = vlib.Create(*out)
	defer o.Close()
	n := 1
	if *thorough {
		n = 4
	}
	fields(vlib.Rng(*seed, "c14-fields"), 60*n)
	dh(vlib.Rng(*seed, "c14-dh"), 12*n)
	curves(vlib.Rng(*seed, "c14-curves"), 6*n)
	fourqCrafted(vlib.Rng(*seed, "c14-fourq-crafted"), 20*n)
	eddsa(vlib.Rng(*seed, "c14-eddsa"), 6*n)
	kems(vlib.Rng(*seed, "c14-kems"), 2*n, *thorough)
	sigs(vlib.Rng(*seed, "c14-sigs"), 2*n)
	hashes(vlib.Rng(*seed, "c14-hashes"), *thorough)
	hpkeAndCsidh(vlib.Rng(*seed, "c14-hpke"), *thorough)
	fmt.Printf("lines=%d\n", o.N)
}
