// Driver for C11 (concurrent part): N goroutines, released together, perform the FIRST use of a fresh shared object (key,
// scheme, suite, server) and then keep using it; every return value is compared with what the same call returns on an
// independently decoded object used by one goroutine only.  The binary is built with -race; the check runs one kind per
// process so that a race report is attributed to the kind that produced it.
package main

import (
	"bytes"
	"crypto"
	"crypto/rsa"
	"crypto/sha256"
	"flag"
	"fmt"
	"math/big"
	"strings"
	"sync"
	"time"

	"github.com/cloudflare/circl/blindsign/blindrsa"
	pbrsa "github.com/cloudflare/circl/blindsign/blindrsa/partiallyblindrsa"
	"github.com/cloudflare/circl/dh/curve4q"
	"github.com/cloudflare/circl/dh/x25519"
	"github.com/cloudflare/circl/ecc/bls12381"
	"github.com/cloudflare/circl/ecc/fourq"
	"github.com/cloudflare/circl/ecc/goldilocks"
	"github.com/cloudflare/circl/group"
	"github.com/cloudflare/circl/hpke"
	"github.com/cloudflare/circl/kem"
	kemschemes "github.com/cloudflare/circl/kem/schemes"
	"github.com/cloudflare/circl/kem/sike/sikep434"
	"github.com/cloudflare/circl/oprf"
	"github.com/cloudflare/circl/secretsharing"
	"github.com/cloudflare/circl/sign"
	"github.com/cloudflare/circl/sign/bls"
	signschemes "github.com/cloudflare/circl/sign/schemes"
	trsa "github.com/cloudflare/circl/tss/rsa"
	"github.com/cloudflare/circl/vdaf/prio3/count"
	"github.com/cloudflare/circl/vdaf/prio3/sumvec"
	"github.com/cloudflare/circl/zzverif/vlib"
)

type line struct {
	Ev     string `json:"ev"`
	Kind   string `json:"kind"`
	Round  int    `json:"round"`
	G      int    `json:"g"`
	Call   string `json:"call"`
	Res    string `json:"res"`
	Want   string `json:"want"`
	Panics int    `json:"panics"`
	Race   bool   `json:"race"`
	Note   string `json:"note"`
}

// a kind builds, per round, a fresh shared object and the list of calls (name, function of goroutine index) on it;
// the same builder is used to obtain the expected values from a private copy.
type kind struct {
	name  string
	build func(round int) []namedCall
}
type namedCall struct {
	name string
	f    func(g int) []byte
}

func h(b []byte) string { s := sha256.Sum256(b); return fmt.Sprintf("%x", s[:8]) }
func must(b []byte, err error) []byte {
	if err != nil {
		return []byte("error: " + err.Error())
	}
	return b
}
func seedOf(round, g int, n int) []byte {
	return bytes.Repeat([]byte{byte(round*31 + g + 1)}, n)
}

func kinds(seed int64) []kind {
	rng := vlib.Rng(seed, "c11conc")
	var ks []kind
	// ---- HPKE KEM private keys: Public() is computed lazily
	for _, id := range []hpke.KEM{hpke.KEM_X25519_HKDF_SHA256, hpke.KEM_X448_HKDF_SHA512, hpke.KEM_P256_HKDF_SHA256, hpke.KEM_P384_HKDF_SHA384,
		hpke.KEM_P521_HKDF_SHA512, hpke.KEM_X25519_KYBER768_DRAFT00, hpke.KEM_XWING} {
		id := id
		sch := id.Scheme()
		_, sk0 := sch.DeriveKeyPair(vlib.Bytes(rng, sch.SeedSize()))
		skb := must(sk0.MarshalBinary())
		pk0 := sk0.Public()
		pkb := must(pk0.MarshalBinary())
		ct0, _, _ := sch.EncapsulateDeterministically(pk0, vlib.Bytes(rng, sch.EncapsulationSeedSize()))
		ks = append(ks, kind{"hpke.kem." + sch.Name(), func(round int) []namedCall {
			sk, err := sch.UnmarshalBinaryPrivateKey(skb)
			if err != nil {
				vlib.Die("%v", err)
			}
			pk, _ := sch.UnmarshalBinaryPublicKey(pkb)
			return []namedCall{
				{"Public", func(int) []byte { return must(sk.Public().MarshalBinary()) }},
				{"Decapsulate", func(int) []byte { return must(sch.Decapsulate(sk, ct0)) }},
				{"Encapsulate", func(g int) []byte {
					ct, ss, err := sch.EncapsulateDeterministically(pk, seedOf(round, g, sch.EncapsulationSeedSize()))
					return must(append(ct, ss...), err)
				}},
				{"Public.again", func(int) []byte { return must(sk.Public().MarshalBinary()) }},
			}
		}})
		if id == hpke.KEM_X25519_HKDF_SHA256 || id == hpke.KEM_P256_HKDF_SHA256 || id == hpke.KEM_XWING {
			suite := hpke.NewSuite(id, hpke.KDF_HKDF_SHA256, hpke.AEAD_AES128GCM)
			ks = append(ks, kind{"hpke.suite." + sch.Name(), func(round int) []namedCall {
				sk, _ := sch.UnmarshalBinaryPrivateKey(skb)
				pk, _ := sch.UnmarshalBinaryPublicKey(pkb)
				// senders and receivers are per-session objects: each call makes its own; the suite and the KEYS are shared
				sender0, err := suite.NewSender(pk, []byte("info"))
				if err != nil {
					vlib.Die("%v", err)
				}
				enc0, sealer0, err := sender0.Setup(&vlib.BytesReader{B: seedOf(round, 99, 64)})
				if err != nil {
					vlib.Die("%v", err)
				}
				ct0, _ := sealer0.Seal([]byte("pt"), nil)
				return []namedCall{
					{"Receiver.Setup+Open", func(int) []byte {
						receiver, err := suite.NewReceiver(sk, []byte("info"))
						if err != nil {
							return must(nil, err)
						}
						op, err := receiver.Setup(enc0)
						if err != nil {
							return must(nil, err)
						}
						return must(op.Open(ct0, nil))
					}},
					{"Sender.Setup+Seal", func(g int) []byte {
						sender, err := suite.NewSender(pk, []byte("info"))
						if err != nil {
							return must(nil, err)
						}
						enc, s, err := sender.Setup(&vlib.BytesReader{B: seedOf(round, g, 64)})
						if err != nil {
							return must(nil, err)
						}
						ct, err := s.Seal([]byte("msg"), []byte("aad"))
						return must(append(enc, ct...), err)
					}},
				}
			}})
		}
	}
	// ---- all KEM schemes
	for _, sch := range kemschemes.All() {
		sch := sch
		if strings.HasPrefix(sch.Name(), "SIKE") || strings.HasPrefix(sch.Name(), "FrodoKEM") && sch.Name() != "FrodoKEM-640-SHAKE" {
			continue
		}
		pk0, sk0 := sch.DeriveKeyPair(vlib.Bytes(rng, sch.SeedSize()))
		skb, pkb := must(sk0.MarshalBinary()), must(pk0.MarshalBinary())
		ct0, _, _ := sch.EncapsulateDeterministically(pk0, vlib.Bytes(rng, sch.EncapsulationSeedSize()))
		ks = append(ks, kind{"kem." + sch.Name(), func(round int) []namedCall {
			var sk kem.PrivateKey
			var pk kem.PublicKey
			var err error
			if sk, err = sch.UnmarshalBinaryPrivateKey(skb); err != nil {
				vlib.Die("%s: %v", sch.Name(), err)
			}
			if pk, err = sch.UnmarshalBinaryPublicKey(pkb); err != nil {
				vlib.Die("%s: %v", sch.Name(), err)
			}
			return []namedCall{
				{"Decapsulate", func(int) []byte { return must(sch.Decapsulate(sk, ct0)) }},
				{"Encapsulate", func(g int) []byte {
					ct, ss, err := sch.EncapsulateDeterministically(pk, seedOf(round, g, sch.EncapsulationSeedSize()))
					return must(append(ct, ss...), err)
				}},
				{"Public", func(int) []byte { return must(sk.Public().MarshalBinary()) }},
				{"MarshalBinary", func(int) []byte { return append(must(sk.MarshalBinary()), must(pk.MarshalBinary())...) }},
			}
		}})
	}
	// ---- all signature schemes
	for _, sch := range signschemes.All() {
		sch := sch
		pk0, sk0 := sch.DeriveKey(vlib.Bytes(rng, sch.SeedSize()))
		skb, pkb := must(sk0.MarshalBinary()), must(pk0.MarshalBinary())
		msg := []byte("message")
		sig0 := sch.Sign(sk0, msg, nil)
		det := bytes.Equal(sig0, sch.Sign(sk0, msg, nil))
		ks = append(ks, kind{"sign." + sch.Name(), func(round int) []namedCall {
			var sk sign.PrivateKey
			var pk sign.PublicKey
			var err error
			if sk, err = sch.UnmarshalBinaryPrivateKey(skb); err != nil {
				vlib.Die("%s: %v", sch.Name(), err)
			}
			if pk, err = sch.UnmarshalBinaryPublicKey(pkb); err != nil {
				vlib.Die("%s: %v", sch.Name(), err)
			}
			return []namedCall{
				{"Sign", func(g int) []byte {
					m := append([]byte{byte(g)}, msg...)
					s := sch.Sign(sk, m, nil)
					ok := sch.Verify(pk0, m, s, nil)
					if det {
						return append(s, byte(b2i(ok)))
					}
					return []byte{byte(b2i(ok))}
				}},
				{"Verify", func(int) []byte { return []byte{byte(b2i(sch.Verify(pk, msg, sig0, nil)))} }},
				{"Public", func(int) []byte { return must(sk.Public().(sign.PublicKey).MarshalBinary()) }},
				{"VerifyWithDerivedPublic", func(int) []byte {
					return []byte{byte(b2i(sch.Verify(sk.Public().(sign.PublicKey), msg, sig0, nil)))}
				}},
			}
		}})
	}
	// ---- OPRF keys and servers
	for _, suite := range []oprf.Suite{oprf.SuiteP256, oprf.SuiteRistretto255} {
		suite := suite
		k0, err := oprf.DeriveKey(suite, oprf.VerifiableMode, vlib.Bytes(rng, 32), nil)
		if err != nil {
			vlib.Die("%v", err)
		}
		kb := must(k0.MarshalBinary())
		ks = append(ks, kind{"oprf." + suite.Identifier(), func(round int) []namedCall {
			k := new(oprf.PrivateKey)
			if err := k.UnmarshalBinary(suite, kb); err != nil {
				vlib.Die("%v", err)
			}
			srv := oprf.NewServer(suite, k)
			vsrv := oprf.NewVerifiableServer(suite, k)
			psrv := oprf.NewPartialObliviousServer(suite, k)
			cl := oprf.NewClient(suite)
			return []namedCall{
				{"Public", func(int) []byte { return must(k.Public().MarshalBinary()) }},
				{"Server.FullEvaluate", func(g int) []byte { return must(srv.FullEvaluate([]byte{byte(g % 2)})) }},
				{"VerifiableServer.PublicKey", func(int) []byte { return must(vsrv.PublicKey().MarshalBinary()) }},
				{"VerifiableServer.FullEvaluate", func(g int) []byte { return must(vsrv.FullEvaluate([]byte{byte(g % 2)})) }},
				{"PartialObliviousServer.FullEvaluate", func(g int) []byte { return must(psrv.FullEvaluate([]byte{byte(g % 2)}, []byte("info"))) }},
				{"Client.Blind+Evaluate+Finalize", func(g int) []byte {
					fin, req, err := cl.Blind([][]byte{{byte(g % 2)}})
					if err != nil {
						return must(nil, err)
					}
					ev, err := srv.Evaluate(req)
					if err != nil {
						return must(nil, err)
					}
					out, err := cl.Finalize(fin, ev)
					if err != nil {
						return must(nil, err)
					}
					return out[0]
				}},
			}
		}})
	}
	// ---- BLS signature keys
	{
		k1, _ := bls.KeyGen[bls.G1](vlib.Bytes(rng, 32), nil, nil)
		k2, _ := bls.KeyGen[bls.G2](vlib.Bytes(rng, 32), nil, nil)
		b1, b2 := must(k1.MarshalBinary()), must(k2.MarshalBinary())
		ks = append(ks, kind{"sign.bls", func(round int) []namedCall {
			a, b := new(bls.PrivateKey[bls.G1]), new(bls.PrivateKey[bls.G2])
			if a.UnmarshalBinary(b1) != nil || b.UnmarshalBinary(b2) != nil {
				vlib.Die("bls unmarshal")
			}
			return []namedCall{
				{"G1.PublicKey", func(int) []byte { return must(a.PublicKey().MarshalBinary()) }},
				{"G2.PublicKey", func(int) []byte { return must(b.PublicKey().MarshalBinary()) }},
				{"G1.Sign+Verify", func(g int) []byte {
					s := bls.Sign(a, []byte{byte(g % 2)})
					return append(s, byte(b2i(bls.Verify(a.PublicKey(), []byte{byte(g % 2)}, s))))
				}},
				{"G2.Sign+Verify", func(g int) []byte {
					s := bls.Sign(b, []byte{byte(g % 2)})
					return append(s, byte(b2i(bls.Verify(b.PublicKey(), []byte{byte(g % 2)}, s))))
				}},
			}
		}})
	}
	// ---- threshold RSA key shares (2*delta*s_i is cached on first use)
	{
		key, err := rsa.GenerateKey(vlib.SeededReader{R: rng}, 1024)
		if err != nil {
			vlib.Die("%v", err)
		}
		shares, err := trsa.Deal(vlib.SeededReader{R: rng}, 3, 2, key, false)
		if err != nil {
			vlib.Die("deal: %v", err)
		}
		var sb [][]byte
		for i := range shares {
			sb = append(sb, must(shares[i].MarshalBinary()))
		}
		digest, err := trsa.PadHash(&trsa.PKCS1v15Padder{}, crypto.SHA256, &key.PublicKey, []byte("msg"))
		if err != nil {
			vlib.Die("padhash: %v", err)
		}
		cached, err := trsa.Deal(vlib.SeededReader{R: rng}, 3, 2, key, true)
		if err != nil {
			vlib.Die("deal (cache): %v", err)
		}
		ks = append(ks, kind{"tss.rsa", func(round int) []namedCall {
			ksh := make([]trsa.KeyShare, len(sb))
			for i := range sb {
				if err := ksh[i].UnmarshalBinary(sb[i]); err != nil {
					vlib.Die("%v", err)
				}
			}
			return []namedCall{
				{"KeyShare.Sign", func(g int) []byte {
					s, err := ksh[g%2].Sign(nil, &key.PublicKey, digest, false)
					if err != nil {
						return must(nil, err)
					}
					return must(s.MarshalBinary())
				}},
				{"KeyShare.Sign (cached value, blinded)", func(g int) []byte {
					// shares dealt with cache set carry the precomputed 2*delta*s_i; blinding adds a random multiple of e to the exponent:
					// the signature share is the same value, and the share itself must stay what it was
					s, err := cached[g%2].Sign(&vlib.BytesReader{B: seedOf(round, g, 512)}, &key.PublicKey, digest, false)
					if err != nil {
						return must(nil, err)
					}
					return append(must(s.MarshalBinary()), must(cached[g%2].MarshalBinary())...)
				}},
				{"Sign+Combine", func(g int) []byte {
					var ss []trsa.SignShare
					for i := 0; i < 2; i++ {
						s, err := ksh[i].Sign(nil, &key.PublicKey, digest, false)
						if err != nil {
							return must(nil, err)
						}
						ss = append(ss, s)
					}
					sig, err := trsa.CombineSignShares(&key.PublicKey, ss, digest)
					return must(sig, err)
				}},
			}
		}})
		// ---- blind RSA signer and verifier shared
		signer := blindrsa.NewSigner(key)
		client, _ := blindrsa.NewClient(blindrsa.SHA384PSSDeterministic, &key.PublicKey)
		ks = append(ks, kind{"blindrsa", func(round int) []namedCall {
			return []namedCall{
				{"Blind+BlindSign+Finalize+Verify", func(g int) []byte {
					rd := &vlib.BytesReader{B: seedOf(round, g, 4096)}
					msg := []byte{byte(g % 2)}
					bm, st, err := client.Blind(rd, msg)
					if err != nil {
						return must(nil, err)
					}
					bs, err := signer.BlindSign(bm)
					if err != nil {
						return must(nil, err)
					}
					sig, err := client.Finalize(st, bs)
					if err != nil {
						return must(nil, err)
					}
					return append(sig, byte(b2i(client.Verify(msg, sig) == nil)))
				}},
			}
		}})
	}
	// ---- groups, pairings, secret sharing, x25519: package-level tables and parameters
	for _, g := range []group.Group{group.P256, group.P384, group.P521, group.Ristretto255} {
		g := g
		ks = append(ks, kind{"group." + fmt.Sprint(g), func(round int) []namedCall {
			gen := g.Generator()
			s := g.HashToScalar([]byte{byte(round)}, nil)
			return []namedCall{
				{"HashToElement", func(gi int) []byte { return must(g.HashToElement([]byte{byte(gi % 2)}, []byte("dst")).MarshalBinary()) }},
				{"MulGen", func(gi int) []byte { return must(g.NewElement().MulGen(s).MarshalBinary()) }},
				{"Mul(shared operands)", func(gi int) []byte { return must(g.NewElement().Mul(gen, s).MarshalBinaryCompress()) }},
				{"Generator", func(gi int) []byte { return must(g.Generator().MarshalBinary()) }},
				{"Marshal(shared)", func(gi int) []byte { return append(must(gen.MarshalBinary()), must(s.MarshalBinary())...) }},
				{"secretsharing", func(gi int) []byte {
					ss := secretsharing.New(&vlib.BytesReader{B: seedOf(round, gi, 4096)}, 2, s)
					sh := ss.Share(4)
					rec, err := secretsharing.Recover(2, sh[1:])
					if err != nil {
						return must(nil, err)
					}
					return must(rec.MarshalBinary())
				}},
			}
		}})
	}
	// ---- partially blind RSA: one Verifier shared by the goroutines
	{
		pbKey, err := rsa.GenerateKey(vlib.SeededReader{R: rng}, 1024)
		if err != nil {
			vlib.Die("%v", err)
		}
		pv := pbrsa.NewVerifier(&pbKey.PublicKey, crypto.SHA384)
		ks = append(ks, kind{"pbrsa.verifier", func(round int) []namedCall {
			blind := new(big.Int).SetBytes(seedOf(round, 7, 64))
			blind.Mod(blind, pbKey.N)
			blind.SetBit(blind, 0, 1) // (the seed bytes are all zero in one round)
			inv := new(big.Int).ModInverse(blind, pbKey.N)
			if inv == nil {
				vlib.Die("blind not invertible")
			}
			return []namedCall{
				{"FixedBlind", func(g int) []byte {
					msg := bytes.Repeat([]byte{byte(g)}, 3000)
					bm, _, err := pv.FixedBlind(msg, []byte("metadata"), seedOf(round, g, 48), blind.Bytes(), inv.Bytes())
					return must(bm, err)
				}},
			}
		}})
	}
	// ---- Prio3: one VDAF instance shared by the goroutines
	ks = append(ks, kind{"prio3.count+sumvec", func(round int) []namedCall {
		c, err := count.New(2, []byte("ctx"))
		if err != nil {
			vlib.Die("%v", err)
		}
		sv, err := sumvec.New(2, 20, 8, 4, []byte("ctx"))
		if err != nil {
			vlib.Die("%v", err)
		}
		cp, sp := c.Params(), sv.Params()
		return []namedCall{
			{"Count.Shard", func(g int) []byte {
				var nonce count.Nonce
				copy(nonce[:], seedOf(round, g, len(nonce)))
				pub, in, err := c.Shard(g%2 == 0, &nonce, seedOf(round, g+40, int(cp.RandSize())))
				if err != nil {
					return must(nil, err)
				}
				out := must(pub.MarshalBinary())
				for i := range in {
					out = append(out, must(in[i].MarshalBinary())...)
				}
				return out
			}},
			{"SumVec.Shard", func(g int) []byte {
				var nonce sumvec.Nonce
				copy(nonce[:], seedOf(round, g, len(nonce)))
				meas := make([]uint64, 20)
				for i := range meas {
					meas[i] = uint64((g*7 + i) % 256)
				}
				pub, in, err := sv.Shard(meas, &nonce, seedOf(round, g+40, int(sp.RandSize())))
				if err != nil {
					return must(nil, err)
				}
				out := must(pub.MarshalBinary())
				for i := range in {
					out = append(out, must(in[i].MarshalBinary())...)
				}
				return out
			}},
		}
	}})
	// ---- SIKE: Public() of an unmarshalled private key is computed lazily
	{
		sch := sikep434.Scheme()
		_, sk0 := sch.DeriveKeyPair(vlib.Bytes(rng, sch.SeedSize()))
		skb := must(sk0.MarshalBinary())
		ks = append(ks, kind{"sike.p434", func(round int) []namedCall {
			sk, err := sch.UnmarshalBinaryPrivateKey(skb)
			if err != nil {
				vlib.Die("%v", err)
			}
			return []namedCall{
				{"Public", func(int) []byte { return must(sk.Public().MarshalBinary()) }},
				{"Public.again", func(int) []byte { return must(sk.Public().MarshalBinary()) }},
			}
		}})
	}
	// ---- Goldilocks: a projective point shared as an operand
	ks = append(ks, kind{"goldilocks.point", func(round int) []namedCall {
		var e goldilocks.Curve
		var k, k2 goldilocks.Scalar
		k.FromBytes(seedOf(round, 3, 56))
		k2.FromBytes(seedOf(round, 4, 56))
		P := e.ScalarBaseMult(&k)
		return []namedCall{
			{"MarshalBinary(shared)", func(int) []byte { return must(P.MarshalBinary()) }},
			{"ScalarMult(shared operand)", func(g int) []byte {
				if g%2 == 0 {
					return must(P.MarshalBinary())
				}
				return must(e.ScalarMult(&k2, P).MarshalBinary())
			}},
			{"IsEqual(shared operand)", func(g int) []byte {
				if g%2 == 0 {
					Q := e.Add(P, P)
					return must(Q.MarshalBinary())
				}
				return must(P.MarshalBinary())
			}},
		}
	}})
	// ---- FourQ: one encoded point / one peer public key read by all goroutines
	ks = append(ks, kind{"fourq.decode(shared input)", func(round int) []namedCall {
		var sk, peerSk, peerPk curve4q.Key
		for try := 0; ; try++ { // a public key whose sign bit is set
			copy(peerSk[:], seedOf(round, 11+try, 32))
			curve4q.KeyGen(&peerPk, &peerSk)
			if peerPk[31]>>7 == 1 {
				break
			}
		}
		copy(sk[:], seedOf(round, 5, 32))
		enc := [32]byte(peerPk)
		return []namedCall{
			{"Point.Unmarshal", func(int) []byte {
				var P fourq.Point
				var out [32]byte
				for i := 0; i < 200; i++ {
					if !P.Unmarshal(&enc) {
						return []byte("refused")
					}
				}
				P.Marshal(&out)
				return out[:]
			}},
			{"curve4q.Shared", func(int) []byte {
				var ss curve4q.Key
				for i := 0; i < 20; i++ {
					if !curve4q.Shared(&ss, &sk, &peerPk) {
						return []byte("refused")
					}
				}
				return ss[:]
			}},
		}
	}})
	ks = append(ks, kind{"ecc.bls12381+x25519", func(round int) []namedCall {
		p, q := bls12381.G1Generator(), bls12381.G2Generator()
		var k x25519.Key
		copy(k[:], seedOf(round, 1, 32))
		return []namedCall{
			{"Pair(shared)", func(int) []byte { return must(bls12381.Pair(p, q).MarshalBinary()) }},
			{"G1.Hash", func(g int) []byte {
				r := new(bls12381.G1)
				r.Hash([]byte{byte(g % 2)}, nil)
				return r.BytesCompressed()
			}},
			{"G2.Hash", func(g int) []byte {
				r := new(bls12381.G2)
				r.Hash([]byte{byte(g % 2)}, nil)
				return r.BytesCompressed()
			}},
			{"x25519.KeyGen", func(int) []byte { var pub x25519.Key; x25519.KeyGen(&pub, &k); return pub[:] }},
		}
	}})
	return ks
}

func b2i(b bool) int {
	if b {
		return 1
	}
	return 0
}

func main() {
	out := flag.String("out", "trace.ndjson", "")
	seed := flag.Int64("seed", 1, "")
	only := flag.String("kind", "", "run only this kind")
	list := flag.Bool("list", false, "")
	rounds := flag.Int("rounds", 3, "")
	n := flag.Int("goroutines", 8, "")
	flag.Parse()
	all := kinds(*seed)
	if *list {
		for _, k := range all {
			fmt.Println(k.name)
		}
		return
	}
	o := vlib.Create(*out)
	defer o.Close()
	for _, k := range all {
		if *only != "" && k.name != *only {
			continue
		}
		for round := 0; round < *rounds; round++ {
			// expected values: an independent copy, one goroutine
			ref := k.build(round)
			want := make([][]string, len(ref))
			for ci, c := range ref {
				want[ci] = make([]string, *n)
				for g := 0; g < *n; g++ {
					want[ci][g] = h(c.f(g))
				}
			}
			shared := k.build(round)
			got := make([][]string, len(shared))
			pan := make([][]string, len(shared))
			for ci := range shared {
				got[ci], pan[ci] = make([]string, *n), make([]string, *n)
			}
			var wg sync.WaitGroup
			start := make(chan struct{})
			for g := 0; g < *n; g++ {
				wg.Add(1)
				go func(g int) {
					defer wg.Done()
					<-start
					for ci, c := range shared {
						func() {
							defer func() {
								if r := recover(); r != nil {
									pan[ci][g] = fmt.Sprint(r)
								}
							}()
							got[ci][g] = h(c.f(g))
						}()
					}
				}(g)
			}
			close(start)
			done := make(chan struct{})
			go func() { wg.Wait(); close(done) }()
			select {
			case <-done:
			case <-time.After(10 * time.Minute):
				o.Emit(line{Ev: "conc", Kind: k.name, Round: round, Call: "*", Panics: 1, Note: "timeout"})
				return
			}
			for ci, c := range shared {
				for g := 0; g < *n; g++ {
					l := line{Ev: "conc", Kind: k.name, Round: round, G: g, Call: c.name, Res: got[ci][g], Want: want[ci][g]}
					if pan[ci][g] != "" {
						l.Panics, l.Note = 1, pan[ci][g]
					}
					o.Emit(l)
				}
			}
		}
	}
}
