// Driver for C17: replays TLC's ordered-subset scenario tables on the real secretsharing,
// math/polynomial and tss/rsa code and records the outcomes for TLC to judge.
package main

import (
	"bytes"
	"crypto"
	"crypto/rsa"
	"crypto/sha256"
	"flag"
	"fmt"
	"math/big"
	"sync"
	"time"

	"github.com/cloudflare/circl/group"
	"github.com/cloudflare/circl/math/polynomial"
	"github.com/cloudflare/circl/secretsharing"
	trsa "github.com/cloudflare/circl/tss/rsa"
	"github.com/cloudflare/circl/zzverif/vlib"
)

type ssScen struct {
	T    int   `json:"t"`
	N    int   `json:"n"`
	Pick []int `json:"pick"`
}
type rsaScen struct {
	L    int   `json:"l"`
	K    int   `json:"k"`
	Pick []int `json:"pick"`
}
type ssLine struct {
	Ev           string `json:"ev"`
	Group        string `json:"group"`
	Ids          string `json:"ids"`
	Secret       string `json:"secret"`
	T            int    `json:"t"`
	N            int    `json:"n"`
	Pick         []int  `json:"pick"`
	Recover      string `json:"recover"`
	VerifyDealt  bool   `json:"verify_dealt"`
	VerifyBadVal bool   `json:"verify_badval"`
	VerifyBadID  bool   `json:"verify_badid"`
	Note         string `json:"note"`
}
type polyLine struct {
	Ev    string `json:"ev"`
	Group string `json:"group"`
	Coef  []int  `json:"coef"`
	X     int    `json:"x"`
	Val   int    `json:"val"`
}
type rsaLine struct {
	Ev     string `json:"ev"`
	L      int    `json:"l"`
	K      int    `json:"k"`
	Pick   []int  `json:"pick"`
	Pad    string `json:"pad"`
	Cache  bool   `json:"cache"`
	Blind  bool   `json:"blind"`
	Bits   int    `json:"bits"`
	Order  string `json:"order"`
	Result string `json:"result"`
	Note   string `json:"note"`
}

func scalarInt(s group.Scalar) int {
	b, _ := s.MarshalBinary()
	// big-endian for the NIST groups, little-endian for ristretto255: find by magnitude
	be := new(big.Int).SetBytes(b)
	rev := make([]byte, len(b))
	for i := range b {
		rev[len(b)-1-i] = b[i]
	}
	le := new(big.Int).SetBytes(rev)
	if le.Cmp(be) < 0 {
		be = le
	}
	if be.BitLen() > 30 {
		return -1
	}
	return int(be.Int64())
}

func main() {
	ssf := flag.String("ss", "", "")
	rsaf := flag.String("rsa", "", "")
	out := flag.String("out", "trace.ndjson", "")
	seed := flag.Int64("seed", 1, "")
	bits := flag.Int("bits", 1024, "")
	nrsa := flag.Int("nrsa", 1<<30, "max rsa scenarios")
	big30 := flag.Int("big", 4, "sampled scenarios with l up to 30")
	flag.Parse()
	rng := vlib.Rng(*seed, "c17")
	o := vlib.Create(*out)
	defer o.Close()

	// ---------------- Shamir / Feldman
	var sss []ssScen
	vlib.ReadJSON(*ssf, &sss)
	groups := []group.Group{group.P256, group.P384, group.P521, group.Ristretto255}
	gname := []string{"P256", "P384", "P521", "ristretto255"}
	for gi, g := range groups {
		for si, sc := range sss {
			ln := ssLine{Ev: "ss", Group: gname[gi], T: sc.T, N: sc.N, Pick: sc.Pick}
			secret := g.NewScalar()
			switch (si + gi) % 4 {
			case 0:
				ln.Secret = "zero"
			case 1:
				secret.SetUint64(1)
				ln.Secret = "one"
			case 2:
				secret = g.NewScalar().Neg(g.NewScalar().SetUint64(1))
				ln.Secret = "order-1"
			default:
				secret = g.RandomScalar(vlib.SeededReader{R: rng})
				ln.Secret = "random"
			}
			ss := secretsharing.New(vlib.SeededReader{R: rng}, uint(sc.T), secret)
			var shares []secretsharing.Share
			if (si/4)%2 == 0 {
				ln.Ids = "1..n"
				shares = ss.Share(uint(sc.N))
			} else {
				ln.Ids = "arbitrary"
				seen := map[string]bool{}
				for len(shares) < sc.N {
					id := g.RandomNonZeroScalar(vlib.SeededReader{R: rng})
					if len(shares)%2 == 1 {
						id = g.NewScalar().SetUint64(uint64(100 + rng.Intn(1000)))
					}
					b, _ := id.MarshalBinary()
					if seen[string(b)] {
						continue
					}
					seen[string(b)] = true
					shares = append(shares, ss.ShareWithID(id))
				}
			}
			com := ss.CommitSecret()
			ln.VerifyDealt = true
			for _, sh := range shares {
				if !secretsharing.Verify(uint(sc.T), sh, com) {
					ln.VerifyDealt = false
				}
			}
			// altered value / altered identifier of one dealt share
			v := shares[rng.Intn(len(shares))]
			bv := secretsharing.Share{ID: v.ID.Copy(), Value: g.NewScalar().Add(v.Value, g.NewScalar().SetUint64(uint64(1+rng.Intn(5))))}
			ln.VerifyBadVal = secretsharing.Verify(uint(sc.T), bv, com)
			bi := secretsharing.Share{ID: g.NewScalar().Add(v.ID, g.NewScalar().SetUint64(uint64(1+rng.Intn(5)))), Value: v.Value.Copy()}
			if sc.T == 0 { // constant polynomial: every id carries the same value, so an altered id IS a valid share
				ln.VerifyBadID = false
			} else {
				ln.VerifyBadID = secretsharing.Verify(uint(sc.T), bi, com)
			}
			var picked []secretsharing.Share
			for _, i := range sc.Pick {
				picked = append(picked, shares[i-1])
			}
			var got group.Scalar
			var err error
			oc := vlib.Safe(10*time.Second, func() { got, err = secretsharing.Recover(uint(sc.T), picked) })
			switch {
			case oc.Panic != "" || oc.Timeout:
				ln.Recover = "panic"
				ln.Note = oc.Panic
			case err != nil:
				ln.Recover = "error"
			case got.IsEqual(secret):
				ln.Recover = "secret"
			default:
				ln.Recover = "other"
			}
			o.Emit(ln)
		}
		// thresholds at and above 2^63: no set of shares a caller can hold is qualified, and no share verifies (the commitment would
		// need t+1 entries); the conversions of t to int must not wrap
		for _, th := range []struct {
			label string
			t     uint
		}{{"2^63", 1 << 63}, {"2^63+1", 1<<63 + 1}, {"2^64-2", ^uint(0) - 1}, {"2^64-1", ^uint(0)}} {
			ss := secretsharing.New(vlib.SeededReader{R: rng}, 2, g.RandomScalar(vlib.SeededReader{R: rng}))
			shares := ss.Share(4)
			com := ss.CommitSecret()
			for _, npick := range []int{0, 1, 4} {
				ln := ssLine{Ev: "ss-huge", Group: gname[gi], Ids: th.label, N: npick, Pick: []int{}}
				var err error
				oc := vlib.Safe(10*time.Second, func() { _, err = secretsharing.Recover(th.t, shares[:npick]) })
				switch {
				case oc.Panic != "" || oc.Timeout:
					ln.Recover, ln.Note = "panic", oc.Panic
				case err != nil:
					ln.Recover = "error"
				default:
					ln.Recover = "other"
				}
				ln.VerifyBadVal = true
				oc = vlib.Safe(10*time.Second, func() {
					ln.VerifyDealt = secretsharing.Verify(th.t, shares[0], com)
					ln.VerifyBadID = secretsharing.Verify(th.t, shares[0], nil)
					ln.VerifyBadVal = false
				})
				if oc.Bad() {
					ln.Note += " Verify: " + oc.Panic
				}
				o.Emit(ln)
			}
		}
		// Polynomial.Evaluate on small integers (exact over Z, no wrap): zero coefficients included
		for n := 0; n < 60; n++ {
			deg := rng.Intn(5)
			coef := make([]int, deg+1)
			cs := make([]group.Scalar, deg+1)
			for i := range coef {
				coef[i] = []int{0, 0, 1, 2, 7, 50}[rng.Intn(6)]
				cs[i] = g.NewScalar().SetUint64(uint64(coef[i]))
			}
			if coef[deg] == 0 {
				coef[deg] = 3
				cs[deg] = g.NewScalar().SetUint64(3)
			}
			x := rng.Intn(9)
			p := polynomial.New(cs)
			val := p.Evaluate(g.NewScalar().SetUint64(uint64(x)))
			o.Emit(polyLine{Ev: "poly", Group: gname[gi], Coef: coef, X: x, Val: scalarInt(val)})
		}
	}

	// ---------------- threshold RSA
	var rs []rsaScen
	vlib.ReadJSON(*rsaf, &rs)
	rng.Shuffle(len(rs), func(i, j int) { rs[i], rs[j] = rs[j], rs[i] })
	if len(rs) > *nrsa {
		rs = rs[:*nrsa]
	}
	// sampled large parameter sets
	for i := 0; i < *big30; i++ {
		l := 9 + rng.Intn(22)
		k := 1 + rng.Intn(l)
		perm := rng.Perm(l)
		n := k
		if i%3 == 2 && k < l {
			n = k + 1
		}
		pick := make([]int, n)
		for j := range pick {
			pick[j] = perm[j] + 1
		}
		rs = append(rs, rsaScen{L: l, K: k, Pick: pick})
	}
	// always: high player indices with large thresholds (the powers index^(k-1) of the sharing polynomial get large), t = n - 1, the top players
	for _, lk := range [][2]int{{20, 16}, {17, 17}, {30, 13}, {40, 13}, {24, 23}} {
		l, k := lk[0], lk[1]
		top := make([]int, k)
		for j := range top {
			top[j] = l - j
		}
		rs = append(rs, rsaScen{L: l, K: k, Pick: top})
		if k < l { // the lowest player instead of the second highest
			mixed := append([]int{l, 1}, top[2:]...)
			rs = append(rs, rsaScen{L: l, K: k, Pick: mixed})
		}
	}
	// moduli whose bit length is and is not a multiple of 8 (8j, 8j+1, 8j+7): the encoded-message length of PSS is ceil((bits-1)/8)
	var keys []*rsa.PrivateKey
	for _, nb := range []int{*bits, *bits + 1, *bits + 7} {
		k, err := rsa.GenerateKey(vlib.SeededReader{R: rng}, nb)
		if err != nil {
			vlib.Die("rsa.GenerateKey: %v", err)
		}
		keys = append(keys, k)
	}
	type dealKey struct {
		l, k  int
		cache bool
	}
	var mu sync.Mutex
	var wg sync.WaitGroup
	sem := make(chan struct{}, 16)
	for si, sc := range rs {
		si, sc := si, sc
		lr := vlib.Rng(*seed, fmt.Sprintf("rsa%d", si))
		wg.Add(1)
		sem <- struct{}{}
		go func() {
			defer func() { <-sem; wg.Done() }()
			key := keys[si%3]
			ln := rsaLine{Ev: "rsa", L: sc.L, K: sc.K, Pick: sc.Pick, Bits: key.N.BitLen(), Cache: si%2 == 0, Blind: si%3 == 0, Order: "sorted"}
			shares, err := trsa.Deal(vlib.SeededReader{R: lr}, uint(sc.L), uint(sc.K), key, ln.Cache)
			if err != nil {
				ln.Result = "deal-error"
				ln.Note = err.Error()
				mu.Lock()
				o.Emit(ln)
				mu.Unlock()
				return
			}
			msg := vlib.Bytes(lr, 1+lr.Intn(100))
			var padder trsa.Padder
			if si%2 == 1 {
				padder = &trsa.PSSPadder{Rand: vlib.SeededReader{R: lr}, Opts: nil}
				ln.Pad = "pss"
			} else {
				padder = &trsa.PKCS1v15Padder{}
				ln.Pad = "pkcs1v15"
			}
			padded, err := trsa.PadHash(padder, crypto.SHA256, &key.PublicKey, msg)
			if err != nil {
				vlib.Die("PadHash: %v", err)
			}
			pick := append([]int{}, sc.Pick...)
			if si%5 == 4 {
				lr.Shuffle(len(pick), func(i, j int) { pick[i], pick[j] = pick[j], pick[i] })
				ln.Order = "shuffled"
				ln.Pick = pick
			}
			var parts []trsa.SignShare
			for _, i := range pick {
				var rd *vlib.SeededReader
				var ss trsa.SignShare
				var err error
				if ln.Blind {
					rd = &vlib.SeededReader{R: lr}
					ss, err = shares[i-1].Sign(rd, &key.PublicKey, padded, si%2 == 0)
				} else {
					ss, err = shares[i-1].Sign(nil, &key.PublicKey, padded, false)
				}
				if err != nil {
					ln.Result = "sign-error"
					ln.Note = err.Error()
				}
				// shares travel: marshal round trip
				raw, e1 := ss.MarshalBinary()
				var s2 trsa.SignShare
				if e1 != nil || s2.UnmarshalBinary(raw) != nil {
					ln.Result = "share-marshal-error"
				}
				parts = append(parts, s2)
			}
			if ln.Result == "" {
				var sig []byte
				var err error
				oc := vlib.Safe(60*time.Second, func() { sig, err = trsa.CombineSignShares(&key.PublicKey, parts, padded) })
				switch {
				case oc.Panic != "" || oc.Timeout:
					ln.Result = "error" // a panic on too few shares is C10's subject; nothing is released
					ln.Note = "panic: " + oc.Panic
					if len(pick) >= sc.K {
						ln.Result = "panic"
					}
				case err != nil:
					ln.Result = "error"
					ln.Note = err.Error()
				default:
					h := sha256.Sum256(msg)
					var verr error
					if ln.Pad == "pss" {
						verr = rsa.VerifyPSS(&key.PublicKey, crypto.SHA256, h[:], sig, nil)
					} else {
						verr = rsa.VerifyPKCS1v15(&key.PublicKey, crypto.SHA256, h[:], sig)
					}
					if verr == nil && len(sig) == key.PublicKey.Size() {
						ln.Result = "valid"
					} else {
						ln.Result = "invalid"
					}
				}
			}
			// the same partial signatures are used again: in the same subset, and - shifted by one player, so that the signs of the Lagrange
			// coefficients change - in another qualified subset.  CombineSignShares must not have changed them.
			if ln.Result == "valid" && len(pick) >= sc.K && sc.K >= 2 && sc.L > sc.K {
				before := make([][]byte, len(parts))
				for i := range parts {
					before[i], _ = parts[i].MarshalBinary()
				}
				again := rsaLine{Ev: "rsa", L: sc.L, K: sc.K, Pick: pick, Bits: key.N.BitLen(), Cache: ln.Cache, Blind: ln.Blind, Order: "reused", Pad: ln.Pad}
				var extra int
				for c := 1; c <= sc.L; c++ {
					used := false
					for _, q := range pick {
						used = used || q == c
					}
					if !used {
						extra = c
						break
					}
				}
				var es trsa.SignShare
				err := fmt.Errorf("every player already takes part")
				if extra > 0 {
					es, err = shares[extra-1].Sign(nil, &key.PublicKey, padded, false)
				}
				if err == nil {
					parts2 := append(append([]trsa.SignShare{}, parts[1:]...), es) // drop the first player, add an unused one
					again.Pick = append(append([]int{}, pick[1:]...), extra)
					var sig []byte
					oc := vlib.Safe(60*time.Second, func() { sig, err = trsa.CombineSignShares(&key.PublicKey, parts2, padded) })
					h := sha256.Sum256(msg)
					switch {
					case oc.Bad():
						again.Result, again.Note = "panic", oc.Panic
					case err != nil:
						again.Result, again.Note = "error", "second subset of the same partial signatures: "+err.Error()
					case (ln.Pad == "pss" && rsa.VerifyPSS(&key.PublicKey, crypto.SHA256, h[:], sig, nil) == nil) || (ln.Pad != "pss" && rsa.VerifyPKCS1v15(&key.PublicKey, crypto.SHA256, h[:], sig) == nil):
						again.Result = "valid"
					default:
						again.Result = "invalid"
					}
					for i := range parts {
						if now, _ := parts[i].MarshalBinary(); !bytes.Equal(now, before[i]) && again.Result == "valid" {
							again.Result, again.Note = "invalid", "CombineSignShares changed the caller's partial signatures"
						}
					}
					mu.Lock()
					o.Emit(again)
					mu.Unlock()
				}
			}
			mu.Lock()
			o.Emit(ln)
			mu.Unlock()
		}()
	}
	wg.Wait()
	fmt.Printf("lines=%d\n", o.N)
}
