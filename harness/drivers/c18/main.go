// Driver for C18: blind RSA (4 variants) and partially blind RSA on several key classes, every alteration of the blind
// signature, signer range checks, blind-independence, and the equivalence of the package's PSS verifier with
// crypto/rsa.VerifyPSS and with the EMSA-PSS-VERIFY decision procedure of spec/C18/EmsaPss.tla on honest and
// deliberately malformed encoded messages (signed raw with the private key).
package main

import (
	"bytes"
	"crypto"
	"crypto/rsa"
	"crypto/sha512"
	"flag"
	"fmt"
	"math/big"
	"math/rand"
	"time"

	"github.com/cloudflare/circl/blindsign/blindrsa"
	"github.com/cloudflare/circl/blindsign/blindrsa/partiallyblindrsa"
	trsa "github.com/cloudflare/circl/tss/rsa"
	"github.com/cloudflare/circl/zzverif/vlib"
)

type line struct {
	Ev      string `json:"ev"`
	Variant string `json:"variant"`
	Bits    int    `json:"bits"`
	Site    string `json:"site"`
	Panics  int    `json:"panics"`
	// flow
	FinalizeOK       bool `json:"finalize_ok"`
	LibVerify        bool `json:"lib_verify"`
	StdVerify        bool `json:"std_verify"`
	BlindIndependent bool `json:"blind_independent"`
	SigLenOK         bool `json:"sig_len_ok"`
	// signer
	Accepted     bool `json:"accepted"`
	BelowModulus bool `json:"below_modulus"`
	RightLength  bool `json:"right_length"`
	Coprime      bool `json:"coprime"`
	// pss
	Em     []int `json:"em"`
	EmBits int   `json:"embits"`
	SigInRange bool `json:"sig_in_range"` // the signature representative is below the modulus (RFC 8017 5.2.2 step 1)
	HLen   int   `json:"hlen"`
	SLen   int   `json:"slen"`
	MHash  []int `json:"mhash"`
	DbMask []int `json:"dbmask"`
	Salt   []int `json:"salt"`
	HPrime []int `json:"hprime"`
	Auto   bool  `json:"auto"`
	Lib    bool  `json:"lib"`
	Std    bool  `json:"std"`
	NHex   string `json:"n_hex"`
	SigHex string `json:"sig_hex"`
	MsgHex string `json:"msg_hex"`
	Note   string `json:"note"`
}

func fix(l line) line {
	for _, p := range []*[]int{&l.Em, &l.MHash, &l.DbMask, &l.Salt, &l.HPrime} {
		if *p == nil {
			*p = []int{}
		}
	}
	return l
}

func ints(b []byte) []int {
	o := make([]int, len(b))
	for i := range b {
		o[i] = int(b[i])
	}
	return o
}

func mgf1(seed []byte, n int) []byte {
	var out []byte
	for c := uint32(0); len(out) < n; c++ {
		h := sha512.New384()
		h.Write(seed)
		h.Write([]byte{byte(c >> 24), byte(c >> 16), byte(c >> 8), byte(c)})
		out = h.Sum(out)
	}
	return out[:n]
}

func safe(f func()) bool { oc := vlib.Safe(60*time.Second, f); return oc.Panic != "" || oc.Timeout }

// genKey returns an RSA key whose modulus has exactly `bits` bits (crypto/rsa refuses odd sizes below 1024 only).
func genKey(rng *rand.Rand, bits int) *rsa.PrivateKey {
	for {
		k, err := rsa.GenerateKey(vlib.SeededReader{R: rng}, bits)
		if err != nil {
			vlib.Die("rsa.GenerateKey(%d): %v", bits, err)
		}
		if k.N.BitLen() == bits {
			return k
		}
	}
}

func main() {
	out := flag.String("out", "trace.ndjson", "")
	seed := flag.Int64("seed", 1, "")
	thorough := flag.Bool("thorough", false, "")
	flag.Parse()
	rng := vlib.Rng(*seed, "c18")
	rd := vlib.SeededReader{R: rng}
	o := vlib.Create(*out)
	defer o.Close()
	// key classes: emBits = modBits - 1 is a multiple of 8 for 1025 / 2049; top byte of N small for 1031
	sizes := []int{1024, 1025, 1031, 2048}
	if *thorough {
		sizes = append(sizes, 1032, 2049, 3072, 4096)
	}
	variants := []struct {
		v    blindrsa.Variant
		name string
		salt int
		det  bool
	}{{blindrsa.SHA384PSSRandomized, "PSS-Randomized", 48, false}, {blindrsa.SHA384PSSZeroRandomized, "PSSZero-Randomized", 0, false},
		{blindrsa.SHA384PSSDeterministic, "PSS-Deterministic", 48, true}, {blindrsa.SHA384PSSZeroDeterministic, "PSSZero-Deterministic", 0, true}}
	for _, bits := range sizes {
		key := genKey(rng, bits)
		kLen := (bits + 7) / 8
		signer := blindrsa.NewSigner(key)
		for _, vr := range variants {
			client, err := blindrsa.NewClient(vr.v, &key.PublicKey)
			if err != nil {
				vlib.Die("NewClient: %v", err)
			}
			stdVerify := func(prep, sig []byte) bool {
				h := sha512.Sum384(prep)
				return rsa.VerifyPSS(&key.PublicKey, crypto.SHA384, h[:], sig, &rsa.PSSOptions{SaltLength: vr.salt, Hash: crypto.SHA384}) == nil
			}
			msg := vlib.Bytes(rng, []int{0, 1, 47, 48, 200}[rng.Intn(5)])
			// the same preparation randomness and salt, two different blinding factors
			common := vlib.Bytes(rng, 32+48)
			mk := func(blindSeed byte) (prep, blinded []byte, st blindrsa.State, err error) {
				stream := &vlib.BytesReader{B: append(append([]byte{}, common...), bytes.Repeat([]byte{blindSeed}, 4096)...)}
				prep, err = client.Prepare(stream, msg)
				if err != nil {
					return
				}
				blinded, st, err = client.Blind(stream, prep)
				return
			}
			prep, blinded, st, err := mk(0x11)
			if err != nil {
				vlib.Die("blind: %v", err)
			}
			bs, err := signer.BlindSign(blinded)
			if err != nil {
				vlib.Die("BlindSign(honest): %v", err)
			}
			ln := line{Ev: "flow", Variant: vr.name, Bits: bits, Site: "none"}
			var sig []byte
			if safe(func() { sig, err = client.Finalize(st, bs) }) {
				ln.Panics++
			}
			ln.FinalizeOK = err == nil
			if err == nil {
				ln.SigLenOK = len(sig) == kLen
				ln.LibVerify = client.Verify(prep, sig) == nil
				ln.StdVerify = stdVerify(prep, sig)
				prep2, blinded2, st2, e2 := mk(0x77)
				ln.BlindIndependent = false
				if e2 == nil && bytes.Equal(prep2, prep) && !bytes.Equal(blinded2, blinded) {
					bs2, e3 := signer.BlindSign(blinded2)
					if e3 == nil {
						sig2, e4 := client.Finalize(st2, bs2)
						ln.BlindIndependent = e4 == nil && bytes.Equal(sig2, sig)
					}
				}
			}
			o.Emit(fix(ln))
			// every kind of altered blind signature
			N := key.N
			vals := map[string][]*big.Int{"zero": {big.NewInt(0)}, "one": {big.NewInt(1)}, "N-1": {new(big.Int).Sub(N, big.NewInt(1))},
				"N": {N}, "N+1": {new(big.Int).Add(N, big.NewInt(1))},
				// the honest blind signature plus the modulus: another byte string, the same residue (fits only for some keys / signatures)
				"honest+N": {new(big.Int).Add(new(big.Int).SetBytes(bs), N)}}
			nflip := 64
			if *thorough {
				nflip = 8 * kLen
			}
			for i := 0; i < nflip; i++ {
				b := append([]byte{}, bs...)
				bit := rng.Intn(8 * kLen)
				if *thorough {
					bit = i
				}
				b[bit/8] ^= 1 << uint(bit%8)
				vals["bit"] = append(vals["bit"], new(big.Int).SetBytes(b))
			}
			for site, list := range vals {
				l := line{Ev: "flow", Variant: vr.name, Bits: bits, Site: site}
				for _, v := range list {
					if v.BitLen() > 8*kLen {
						continue
					}
					var err error
					if safe(func() { _, err = client.Finalize(st, v.FillBytes(make([]byte, kLen))) }) {
						l.Panics++
					} else if err == nil {
						l.FinalizeOK = true
					}
				}
				o.Emit(fix(l))
			}
			for _, wl := range []int{0, 1, kLen - 1, kLen + 1, 2 * kLen} {
				l := line{Ev: "flow", Variant: vr.name, Bits: bits, Site: fmt.Sprintf("len=%d", wl)}
				var err error
				if safe(func() { _, err = client.Finalize(st, make([]byte, wl)) }) {
					l.Panics++
				} else if err == nil {
					l.FinalizeOK = true
				}
				o.Emit(fix(l))
			}
			if vr.name != "PSS-Randomized" {
				continue
			}
			// signer range rule (once per key)
			for name, v := range map[string]*big.Int{"0": big.NewInt(0), "1": big.NewInt(1), "N-1": new(big.Int).Sub(N, big.NewInt(1)), "N": N,
				"N+1": new(big.Int).Add(N, big.NewInt(1)), "2^k-1": new(big.Int).Sub(new(big.Int).Lsh(big.NewInt(1), uint(8*kLen)), big.NewInt(1)), "blinded": new(big.Int).SetBytes(blinded)} {
				l := line{Ev: "signer", Variant: "blindrsa.Signer", Bits: bits, Site: name, RightLength: true, BelowModulus: v.Cmp(N) < 0,
					Coprime: new(big.Int).GCD(nil, nil, v, N).Cmp(big.NewInt(1)) == 0}
				var err error
				if safe(func() { _, err = signer.BlindSign(v.FillBytes(make([]byte, kLen))) }) {
					l.Panics++
				}
				l.Accepted = err == nil
				o.Emit(fix(l))
			}
			for _, wl := range []int{0, kLen - 1, kLen + 1} {
				l := line{Ev: "signer", Variant: "blindrsa.Signer", Bits: bits, Site: fmt.Sprintf("len=%d", wl), RightLength: false, BelowModulus: true, Coprime: true}
				var err error
				if safe(func() { _, err = signer.BlindSign(make([]byte, wl)) }) {
					l.Panics++
				}
				l.Accepted = err == nil
				o.Emit(fix(l))
			}
		}
		// ---- PSS verifier equivalence on honest and malformed encoded messages, salted variant and zero-salt variant
		for _, sLen := range []int{48, 0} {
			vr := blindrsa.SHA384PSSRandomized
			if sLen == 0 {
				vr = blindrsa.SHA384PSSZeroRandomized
			}
			ver, _ := blindrsa.NewVerifier(vr, &key.PublicKey)
			emBits := bits - 1
			emLen := (emBits + 7) / 8
			const hLen = 48
			msg := vlib.Bytes(rng, 20)
			mh := sha512.Sum384(msg)
			encode := func(salt []byte, fault string) []byte {
				mp := append(append(make([]byte, 8), mh[:]...), salt...)
				H := sha512.Sum384(mp)
				psLen := emLen - hLen - len(salt) - 2
				db := append(append(make([]byte, psLen), 1), salt...)
				switch fault {
				case "ps-nonzero":
					db[rng.Intn(psLen)] = 1 + byte(rng.Intn(255))
				case "ps-first":
					db[0] |= 1
				case "sep":
					db[psLen] = 2
				case "h":
					H[rng.Intn(hLen)] ^= 0x10
				}
				mask := mgf1(H[:], len(db))
				for i := range db {
					db[i] ^= mask[i]
				}
				db[0] &= 0xff >> uint(8*emLen-emBits)
				em := append(append(db, H[:]...), 0xbc)
				switch fault {
				case "trailer":
					em[emLen-1] = 0xcc
				case "topbit":
					if 8*emLen-emBits > 0 {
						em[0] |= 0x80
					} else {
						em[0] ^= 0x80 // no spare bit for this key size: just another EM
					}
				case "maskedbit":
					em[1+rng.Intn(emLen-hLen-3)] ^= 1
				}
				return em
			}
			faults := []string{"none", "none", "ps-nonzero", "ps-first", "sep", "h", "trailer", "topbit", "maskedbit", "salt-short", "salt-long", "salt-other",
				"high-octet", "high-octet", "high-octet", "high-octet", "high-octet", "high-octet", "high-octet", "high-octet"}
			for _, fault := range faults {
				salt := vlib.Bytes(rng, sLen)
				switch fault {
				case "salt-short":
					if sLen == 0 {
						continue
					}
					salt = salt[:sLen-1]
				case "salt-long":
					salt = append(salt, 7)
				}
				em := encode(salt, fault)
				if fault == "high-octet" {
					// a correct EM with a non-zero octet in front of it: s^e mod N = EM + 2^(8 emLen), which only fits below N when the modulus
					// has 8 emLen + 1 bits; I2OSP(m, emLen) fails (RFC 8017 8.1.2 step 2c), so the signature is invalid
					if kLen == emLen {
						continue
					}
					em = append([]byte{1}, em...)
				}
				emInt := new(big.Int).SetBytes(em)
				if emInt.Cmp(key.N) >= 0 {
					continue
				}
				s := new(big.Int).Exp(emInt, key.D, key.N) // raw RSA with the private key: s^e = EM exactly
				sig := s.FillBytes(make([]byte, kLen))
				// the hints for TLC, computed from the bytes of EM with the standard library only
				tail := em[len(em)-emLen:]
				H := tail[emLen-hLen-1 : emLen-1]
				mask := mgf1(H, emLen-hLen-1)
				db := make([]byte, emLen-hLen-1)
				for i := range db {
					db[i] = tail[i] ^ mask[i]
				}
				db[0] &= 0xff >> uint(8*emLen-emBits)
				obsLen := sLen
				if sLen == 0 { // rsa.PSSSaltLengthAuto: what follows the first 0x01
					obsLen = 0
					if i := bytes.IndexByte(db, 1); i >= 0 {
						obsLen = len(db) - i - 1
					}
				}
				obsSalt := db[len(db)-obsLen:]
				hp := sha512.Sum384(append(append(make([]byte, 8), mh[:]...), obsSalt...))
				l := line{Ev: "pss", Variant: fmt.Sprintf("sLen=%d", sLen), Bits: bits, Site: fault, Em: ints(em), EmBits: emBits, HLen: hLen, SLen: sLen, Auto: sLen == 0,
					MHash: ints(mh[:]), DbMask: ints(mask), Salt: ints(obsSalt), HPrime: ints(hp[:]),
					NHex: key.N.Text(16), SigHex: vlib.Hex(sig), MsgHex: vlib.Hex(msg), SigInRange: true}
				if safe(func() { l.Lib = ver.Verify(msg, sig) == nil }) {
					l.Panics++
				}
				l.Std = rsa.VerifyPSS(&key.PublicKey, crypto.SHA384, mh[:], sig, &rsa.PSSOptions{SaltLength: sLen, Hash: crypto.SHA384}) == nil
				o.Emit(fix(l))
				// the same residue spelled as s + N: not a signature representative (RFC 8017 5.2.2: 0 <= s < n), whatever EM it gives
				if sn := new(big.Int).Add(s, key.N); fault == "none" && sn.BitLen() <= 8*kLen {
					l2 := l
					l2.Site = "sig+N"
					sig2 := sn.FillBytes(make([]byte, kLen))
					l2.SigHex = vlib.Hex(sig2)
					l2.Lib, l2.Panics, l2.SigInRange = false, 0, false
					if safe(func() { l2.Lib = ver.Verify(msg, sig2) == nil }) {
						l2.Panics++
					}
					l2.Std = rsa.VerifyPSS(&key.PublicKey, crypto.SHA384, mh[:], sig2, &rsa.PSSOptions{SaltLength: sLen, Hash: crypto.SHA384}) == nil
					o.Emit(fix(l2))
				}
			}
		}
	}
	// ---- partially blind RSA (needs a safe-prime key)
	spBits := 1024
	sk, err := trsa.GenerateKey(rd, spBits)
	if err != nil {
		vlib.Die("safe-prime key: %v", err)
	}
	psigner, err := partiallyblindrsa.NewSigner(sk, crypto.SHA384)
	if err != nil {
		vlib.Die("pbrsa.NewSigner: %v", err)
	}
	pver := partiallyblindrsa.NewVerifier(&sk.PublicKey, crypto.SHA384)
	kLen := (spBits + 7) / 8
	for rep := 0; rep < 3; rep++ {
		msg, meta := vlib.Bytes(rng, 10+rep), vlib.Bytes(rng, []int{0, 5, 40}[rep])
		blinded, st, err := pver.Blind(rd, msg, meta)
		if err != nil {
			vlib.Die("pbrsa blind: %v", err)
		}
		bs, err := psigner.BlindSign(blinded, meta)
		if err != nil {
			vlib.Die("pbrsa BlindSign: %v", err)
		}
		ln := line{Ev: "flow", Variant: "partially-blind", Bits: spBits, Site: "none", StdVerify: true}
		sig, err := st.Finalize(bs)
		ln.FinalizeOK = err == nil
		if err == nil {
			ln.SigLenOK = len(sig) == kLen
			ln.LibVerify = pver.Verify(msg, meta, sig) == nil && pver.Verify(msg, append(append([]byte{}, meta...), 1), sig) != nil && pver.Verify(append([]byte{1}, msg...), meta, sig) != nil
			// same salt, another blinding factor -> same signature
			r2 := new(big.Int).Rand(rng, sk.N)
			r2i := new(big.Int).ModInverse(r2, sk.N)
			ln.BlindIndependent = false
			if r2i != nil {
				b2, st2, e2 := pver.FixedBlind(msg, meta, st.CopySalt(), r2.Bytes(), r2i.Bytes())
				if e2 == nil {
					bs2, e3 := psigner.BlindSign(b2, meta)
					if e3 == nil {
						s2, e4 := st2.Finalize(bs2)
						ln.BlindIndependent = e4 == nil && bytes.Equal(s2, sig)
					}
				}
			}
		}
		o.Emit(fix(ln))
		for i := 0; i < 24; i++ {
			b := append([]byte{}, bs...)
			b[rng.Intn(kLen)] ^= 1 << uint(rng.Intn(8))
			l := line{Ev: "flow", Variant: "partially-blind", Bits: spBits, Site: "bit"}
			var err error
			if safe(func() { _, err = st.Finalize(b) }) {
				l.Panics++
			}
			l.FinalizeOK = err == nil
			o.Emit(fix(l))
		}
		bsOther, e := psigner.BlindSign(blinded, append(append([]byte{}, meta...), 9)) // signed under other metadata
		if e == nil {
			l := line{Ev: "flow", Variant: "partially-blind", Bits: spBits, Site: "other-metadata"}
			_, err := st.Finalize(bsOther)
			l.FinalizeOK = err == nil
			o.Emit(fix(l))
		}
		for name, v := range map[string]*big.Int{"N": sk.N, "N+1": new(big.Int).Add(sk.N, big.NewInt(1)), "N-1": new(big.Int).Sub(sk.N, big.NewInt(1))} {
			l := line{Ev: "signer", Variant: "partiallyblindrsa.Signer", Bits: spBits, Site: name, RightLength: true, BelowModulus: v.Cmp(sk.N) < 0, Coprime: true}
			var err error
			if safe(func() { _, err = psigner.BlindSign(v.FillBytes(make([]byte, kLen)), meta) }) {
				l.Panics++
			}
			l.Accepted = err == nil
			o.Emit(fix(l))
		}
	}
	fmt.Printf("lines=%d\n", o.N)
}
