package main

import (
	"bytes"

	"github.com/cloudflare/circl/dh/x25519"
	"github.com/cloudflare/circl/kem"
	"github.com/cloudflare/circl/kem/mlkem/mlkem768"
	"github.com/cloudflare/circl/xof"
	"github.com/cloudflare/circl/zzverif/vlib"
)

// hashJob is one FIPS 202 sponge call for spec/lib/HashJobs.tla: TLC recomputes it and compares with `want`, a value the library produced.
type hashJob struct {
	Kind   string `json:"kind"`
	Name   string `json:"name"`
	Rate   int    `json:"rate"`
	Ds     int    `json:"ds"`
	Nr     int    `json:"nr"`
	In     []int  `json:"in"`
	Outlen int    `json:"outlen"`
	Want   []int  `json:"want"`
}
type hashFact struct {
	Name string `json:"name"`
	OK   bool   `json:"ok"`
	Note string `json:"note"`
}

func hInts(b []byte) []int {
	o := make([]int, len(b))
	for i := range b {
		o[i] = int(b[i])
	}
	return o
}

// hashJobs decomposes X-Wing into its parts - the SHAKE256 expansion of the 32-byte key, ML-KEM-768 and X25519 from the library's own
// packages (byte-exactness of those is C03 / C06) - so that the combiner SHA3-256(ss_M || ss_X || ct_X || pk_X || label) of the honest
// and of an implicitly rejected encapsulation, and FrodoKEM's rejection secret SHAKE128(c || s), can be recomputed by TLC.
func hashJobs(path string, seed int64, all map[string]kem.Scheme) {
	rng := vlib.Rng(seed, "c01-hashjobs")
	var jobs []hashJob
	var facts []hashFact
	label := []byte{0x5c, 0x2e, 0x2f, 0x2f, 0x5e, 0x5c}
	for _, name := range []string{"X-Wing", "HPKE_KEM_XWING"} {
		xw, ok := all[name]
		if !ok {
			facts = append(facts, hashFact{name + ":present", false, "scheme not offered"})
			continue
		}
		for i := 0; i < 2; i++ {
			sd := vlib.Bytes(rng, xw.SeedSize())
			if i == 1 {
				sd = bytes.Repeat([]byte{0xff}, xw.SeedSize())
			}
			pk, sk := xw.DeriveKeyPair(sd)
			pkb, _ := pk.MarshalBinary()
			skb, _ := sk.MarshalBinary()
			h := xof.SHAKE256.New()
			_, _ = h.Write(skb)
			exp := make([]byte, 96)
			_, _ = h.Read(exp)
			jobs = append(jobs, hashJob{"sponge", name + ":expand", 136, 0x1f, 24, hInts(skb), 96, hInts(exp)})
			pkM, skM := mlkem768.NewKeyFromSeed(exp[:64])
			pkMb, _ := pkM.MarshalBinary()
			var skX, pkX x25519.Key
			copy(skX[:], exp[64:96])
			x25519.KeyGen(&pkX, &skX)
			facts = append(facts, hashFact{name + ":public-key-from-expansion", len(skb) == 32 && bytes.Equal(pkb, append(append([]byte{}, pkMb...), pkX[:]...)), ""})
			ct, ss, err := xw.EncapsulateDeterministically(pk, vlib.Bytes(rng, xw.EncapsulationSeedSize()))
			if err != nil || len(ct) != 1120 {
				facts = append(facts, hashFact{name + ":encapsulate", false, "unexpected ciphertext"})
				continue
			}
			for _, alter := range []bool{false, true} {
				c := append([]byte{}, ct...)
				want := ss
				part := "combiner-honest"
				if alter {
					c[rng.Intn(1088)] ^= 1 << uint(rng.Intn(8))
					want, err = xw.Decapsulate(sk, c)
					if err != nil {
						facts = append(facts, hashFact{name + ":decapsulate-altered", false, err.Error()})
						continue
					}
					part = "combiner-rejected"
				}
				ssM := make([]byte, 32)
				skM.DecapsulateTo(ssM, c[:1088])
				var ctX, ssX x25519.Key
				copy(ctX[:], c[1088:])
				x25519.Shared(&ssX, &skX, &ctX)
				in := append(append(append(append(append([]byte{}, ssM...), ssX[:]...), ctX[:]...), pkX[:]...), label...)
				jobs = append(jobs, hashJob{"sponge", name + ":" + part, 136, 6, 24, hInts(in), 32, hInts(want)})
			}
		}
	}
	if fr, ok := all["FrodoKEM-640-SHAKE"]; ok {
		pk, sk := fr.DeriveKeyPair(vlib.Bytes(rng, fr.SeedSize()))
		skb, _ := sk.MarshalBinary()
		ct, _, err := fr.EncapsulateDeterministically(pk, vlib.Bytes(rng, fr.EncapsulationSeedSize()))
		if err == nil {
			ct[rng.Intn(len(ct))] ^= 1 << uint(rng.Intn(8))
			got, err := fr.Decapsulate(sk, ct)
			if err == nil {
				jobs = append(jobs, hashJob{"sponge", "FrodoKEM-640-SHAKE:rejection-secret", 168, 0x1f, 24, hInts(append(append([]byte{}, ct...), skb[:16]...)), 16, hInts(got)})
			} else {
				facts = append(facts, hashFact{"FrodoKEM-640-SHAKE:decapsulate-altered", false, err.Error()})
			}
		}
	}
	vlib.WriteJSON(path, map[string]interface{}{"jobs": jobs, "facts": facts})
}
