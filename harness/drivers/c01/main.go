// Driver for C01: replays the (scheme, region, alteration) scenarios of spec/C01/KemCompose.tla on every
// KEM circl offers and records aggregated outcome counts per scenario; expected rejection secrets come
// from the TLA+ terms evaluated with non-circl primitives.  TLC judges the record.
package main

import (
	"bytes"
	"flag"
	"fmt"
	"sort"
	"sync"
	"time"

	"github.com/cloudflare/circl/hpke"
	"github.com/cloudflare/circl/kem"
	"github.com/cloudflare/circl/kem/schemes"
	"github.com/cloudflare/circl/zzverif/terms"
	"github.com/cloudflare/circl/zzverif/vlib"
)

type region struct {
	Kind  string `json:"kind"`
	Off   int    `json:"off"`
	Len   int    `json:"len"`
	Bit   int    `json:"bit"`
	SsOff int    `json:"ssoff"`
	SsLen int    `json:"sslen"`
	SkOff int    `json:"skoff"`
	SkLen int    `json:"sklen"`
}
type scenario struct {
	Scheme string `json:"scheme"`
	Kind   string `json:"kind"`
	Region region `json:"region"`
	Class  string `json:"class"`
}
type line struct {
	Ev     string `json:"ev"`
	Scheme string `json:"scheme"`
	Kind   string `json:"kind"`
	Region string `json:"region"`
	Off    int    `json:"off"`
	Bit    int    `json:"bit"`
	Class  string `json:"class"` // echoed scenario class (TLC recomputes it from the spec and compares)
	Total  int    `json:"total"`
	Honest int    `json:"honest"`
	Error  int    `json:"error"`
	Exact  int    `json:"exact"`
	Other  int    `json:"other"`
	Panic  int    `json:"panic"`
	Nondet int    `json:"nondet"`
	// basic line
	DeriveDet   bool   `json:"derive_det"`
	EncapsDet   bool   `json:"encaps_det"`
	SizesOK     bool   `json:"sizes_ok"`
	RoundTripOK bool   `json:"roundtrip_ok"`
	DecapsOK    bool   `json:"decaps_ok"`
	Note        string `json:"note"`
}

func allSchemes() map[string]kem.Scheme {
	m := map[string]kem.Scheme{}
	for _, s := range schemes.All() {
		m[s.Name()] = s
	}
	for _, k := range []hpke.KEM{hpke.KEM_X25519_KYBER768_DRAFT00, hpke.KEM_XWING, hpke.KEM_P256_HKDF_SHA256, hpke.KEM_P384_HKDF_SHA384,
		hpke.KEM_P521_HKDF_SHA512, hpke.KEM_X25519_HKDF_SHA256, hpke.KEM_X448_HKDF_SHA512} {
		s := k.Scheme()
		m[s.Name()] = s
	}
	return m
}

var rareSeeds = map[string][][2]string{
	"P256Kyber768Draft00": {{"811247060000090008c9bcf367e6096a3ba7ca8485ae67bb2bf894fe72f36e3cf1361d5f3af54fa5d182e6ad7f520e511f6c3e2b8c68059b6bbd41fbabd9831f",
		"e9b0b3130000010008c9bcf367e6096a3ba7ca8485ae67bb2bf894fe72f36e3c"}},
}

type keyCtx struct {
	pk        kem.PublicKey
	sk        kem.PrivateKey
	pkb, skb  []byte
	ct, ss    []byte
	otherCts  [][]byte
}

func main() {
	scf := flag.String("scen", "", "")
	tf := flag.String("terms", "", "")
	out := flag.String("out", "trace.ndjson", "")
	seed := flag.Int64("seed", 1, "")
	nkeys := flag.Int("keys", 2, "")
	frodo := flag.Int("frodobits", 400, "sampled single-bit flips for FrodoKEM per key (0 = all)")
	nmulti := flag.Int("multi", 24, "")
	list := flag.Bool("list", false, "")
	hj := flag.String("hashjobs", "", "")
	flag.Parse()
	all := allSchemes()
	if *hj != "" {
		hashJobs(*hj, *seed, all)
	}
	if *list {
		var names []string
		for n := range all {
			names = append(names, n)
		}
		sort.Strings(names)
		for _, n := range names {
			s := all[n]
			fmt.Printf("%s ct=%d ss=%d sk=%d pk=%d\n", n, s.CiphertextSize(), s.SharedKeySize(), s.PrivateKeySize(), s.PublicKeySize())
		}
		return
	}
	var scs []scenario
	vlib.ReadJSON(*scf, &scs)
	var tm map[string]interface{}
	vlib.ReadJSON(*tf, &tm)
	o := vlib.Create(*out)
	defer o.Close()
	var mu sync.Mutex
	emit := func(l line) { mu.Lock(); o.Emit(l); mu.Unlock() }
	// registry coverage: every real scheme must be modelled and vice versa
	modelled := map[string]bool{}
	for _, s := range scs {
		modelled[s.Scheme] = true
	}
	for n := range all {
		if !modelled[n] {
			emit(line{Ev: "unmodelled", Scheme: n, Note: "scheme offered by circl but absent from KemCompose!Registry"})
		}
	}
	byScheme := map[string][]scenario{}
	for _, s := range scs {
		byScheme[s.Scheme] = append(byScheme[s.Scheme], s)
	}
	var wg sync.WaitGroup
	sem := make(chan struct{}, 16)
	for name, list := range byScheme {
		sch, ok := all[name]
		if !ok {
			emit(line{Ev: "unmodelled", Scheme: name, Note: "scheme in KemCompose!Registry not offered by circl"})
			continue
		}
		name, list := name, list
		wg.Add(1)
		sem <- struct{}{}
		go func() {
			defer func() { <-sem; wg.Done() }()
			rng := vlib.Rng(*seed, "c01"+name)
			var keys []*keyCtx
			// seeds found by search (about 2^32 SHAKE256 evaluations) whose FIRST candidate for the P-256 scalar is not below the group order,
			// so that key derivation / encapsulation has to take its second candidate: SHAKE256(SHAKE256(seed)[:32])[:32] >= n
			special := rareSeeds[name]
			for k := 0; k < *nkeys+1+len(special); k++ {
				kc := &keyCtx{}
				sd := vlib.Bytes(rng, sch.SeedSize())
				if k == 1 { // an edge seed
					for i := range sd {
						sd[i] = 0xff
					}
				}
				var esSpecial []byte
				if k > *nkeys {
					sd, esSpecial = vlib.UnHex(special[k-*nkeys-1][0]), vlib.UnHex(special[k-*nkeys-1][1])
				}
				bl := line{Ev: "basic", Scheme: name, DeriveDet: true}
				if oc := vlib.Safe(60*time.Second, func() { kc.pk, kc.sk = sch.DeriveKeyPair(sd) }); oc.Bad() {
					bl.DeriveDet, bl.Note = false, "DeriveKeyPair panicked: "+oc.Panic
					emit(bl)
					continue
				}
				kc.pkb, _ = kc.pk.MarshalBinary()
				kc.skb, _ = kc.sk.MarshalBinary()
				for rep := 0; rep < 6; rep++ {
					p2, s2 := sch.DeriveKeyPair(sd)
					a, _ := p2.MarshalBinary()
					b, _ := s2.MarshalBinary()
					if !bytes.Equal(a, kc.pkb) || !bytes.Equal(b, kc.skb) {
						bl.DeriveDet = false
					}
				}
				es := vlib.Bytes(rng, sch.EncapsulationSeedSize())
				if esSpecial != nil {
					es = esSpecial
				}
				var err error
				if oc := vlib.Safe(60*time.Second, func() { kc.ct, kc.ss, err = sch.EncapsulateDeterministically(kc.pk, es) }); oc.Bad() {
					bl.EncapsDet, bl.Note = false, "EncapsulateDeterministically panicked: "+oc.Panic
					emit(bl)
					continue
				}
				if err != nil {
					bl.Note = "encaps error: " + err.Error()
					emit(bl)
					continue
				}
				ct2, ss2, _ := sch.EncapsulateDeterministically(kc.pk, es)
				bl.EncapsDet = bytes.Equal(ct2, kc.ct) && bytes.Equal(ss2, kc.ss)
				bl.SizesOK = len(kc.pkb) == sch.PublicKeySize() && len(kc.skb) == sch.PrivateKeySize() && len(kc.ct) == sch.CiphertextSize() && len(kc.ss) == sch.SharedKeySize()
				got, err := sch.Decapsulate(kc.sk, kc.ct)
				bl.DecapsOK = err == nil && bytes.Equal(got, kc.ss)
				pk2, e1 := sch.UnmarshalBinaryPublicKey(kc.pkb)
				sk2, e2 := sch.UnmarshalBinaryPrivateKey(kc.skb)
				if e1 == nil && e2 == nil {
					ct3, ss3, e3 := sch.EncapsulateDeterministically(pk2, es)
					got2, e4 := sch.Decapsulate(sk2, kc.ct)
					a, _ := pk2.MarshalBinary()
					b, _ := sk2.MarshalBinary()
					pubOfSk, _ := sk2.Public().MarshalBinary()
					bl.RoundTripOK = e3 == nil && e4 == nil && bytes.Equal(ct3, kc.ct) && bytes.Equal(ss3, kc.ss) && bytes.Equal(got2, kc.ss) &&
						bytes.Equal(a, kc.pkb) && bytes.Equal(b, kc.skb) && pk2.Equal(kc.pk) && sk2.Equal(kc.sk) && bytes.Equal(pubOfSk, kc.pkb)
				}
				emit(bl)
				keys = append(keys, kc)
			}
			if len(keys) < 2 {
				return
			}
			other := keys[len(keys)-1] // the last key pair only provides "ciphertext made for another key"
			keys = keys[:len(keys)-1]
			for _, sc := range list {
				ln := line{Ev: "alter", Scheme: name, Kind: sc.Kind, Region: sc.Region.Kind, Off: sc.Region.Off, Bit: sc.Region.Bit, Class: sc.Class}
				for _, kc := range keys {
					// expected exact secret for this key, as a function of the altered ciphertext
					expect := func(ct []byte) []byte { return nil }
					r := sc.Region
					switch {
					case r.Kind == "fo-mlkem" || r.Kind == "fo-kyber" || r.Kind == "fo-frodo":
						skL := kc.skb[r.SkOff : r.SkOff+r.SkLen]
						expect = func(ct []byte) []byte {
							env := terms.NewEnv()
							env.Vars["c"] = ct[r.Off : r.Off+r.Len]
							env.Vars["z"] = skL[len(skL)-32:] // dk = dk_pke || ek || H(ek) || z
							env.Vars["s"] = skL[:16]          // FrodoKEM-640 sk = s || pk || S^T || pkh
							rej := terms.Eval(tm["reject"].(map[string]interface{})[r.Kind], env)
							e := append([]byte{}, kc.ss...)
							copy(e[r.SsOff:r.SsOff+r.SsLen], rej)
							return e
						}
					case r.Kind == "xwing-m":
						env0 := terms.NewEnv()
						env0.Vars["seed"] = kc.skb
						z := terms.Eval(tm["xwing_z"], env0)
						skx := terms.Eval(tm["xwing_skx"], env0)
						expect = func(ct []byte) []byte {
							env := terms.NewEnv()
							env.Vars["c"], env.Vars["z"] = ct[:1088], z
							env.Vars["ctX"] = ct[1088:1120]
							env.Vars["ssX"] = terms.X25519(skx, ct[1088:1120])
							env.Vars["pkX"] = kc.pkb[len(kc.pkb)-32:]
							return terms.Eval(tm["xwing_reject"], env)
						}
					}
					var lnmu sync.Mutex
					run := func(ct []byte) {
						var s1, s2 []byte
						var e1, e2 error
						oc := vlib.Safe(20*time.Second, func() {
							s1, e1 = sch.Decapsulate(kc.sk, ct)
							s2, e2 = sch.Decapsulate(kc.sk, ct)
						})
						ex := expect(ct)
						lnmu.Lock()
						defer lnmu.Unlock()
						ln.Total++
						switch {
						case oc.Panic != "" || oc.Timeout:
							ln.Panic++
							if ln.Note == "" {
								ln.Note = "panic: " + oc.Panic
							}
							return
						case (e1 == nil) != (e2 == nil) || !bytes.Equal(s1, s2):
							ln.Nondet++
						}
						switch {
						case e1 != nil:
							ln.Error++
						case bytes.Equal(s1, kc.ss):
							ln.Honest++
						case ex != nil && bytes.Equal(s1, ex):
							ln.Exact++
						default:
							ln.Other++
							if ex != nil && ln.Note == "" {
								ln.Note = fmt.Sprintf("first inexact: got %x want %x", s1[:8], ex[:8])
							}
						}
					}
					r = sc.Region
					switch sc.Kind {
					case "flip":
						if r.Bit >= 0 {
							c := append([]byte{}, kc.ct...)
							c[r.Off+r.Bit/8] ^= 1 << uint(r.Bit%8)
							run(c)
							break
						}
						nb := r.Len * 8
						step := 1
						bits := make([]int, 0, nb)
						for b := 0; b < nb; b += step {
							if (r.Kind == "xraw25519" || r.Kind == "xwing-x") && b == 255 {
								continue // the masked bit is its own region
							}
							bits = append(bits, b)
						}
						if r.Kind == "fo-frodo" && *frodo > 0 && len(bits) > *frodo {
							rng.Shuffle(len(bits), func(i, j int) { bits[i], bits[j] = bits[j], bits[i] })
							bits = bits[:*frodo]
						}
						if len(bits) > 4000 { // FrodoKEM's 77 760 positions: spread over workers (read-only use of the key)
							var fw sync.WaitGroup
							for wk := 0; wk < 12; wk++ {
								fw.Add(1)
								go func(wk int) {
									defer fw.Done()
									for j := wk; j < len(bits); j += 12 {
										c := append([]byte{}, kc.ct...)
										c[r.Off+bits[j]/8] ^= 1 << uint(bits[j]%8)
										run(c)
									}
								}(wk)
							}
							fw.Wait()
							break
						}
						for _, b := range bits {
							c := append([]byte{}, kc.ct...)
							c[r.Off+b/8] ^= 1 << uint(b%8)
							run(c)
						}
					case "multi":
						for n := 0; n < *nmulti; n++ {
							c := append([]byte{}, kc.ct...)
							l := 2 + rng.Intn(r.Len-1)
							st := rng.Intn(r.Len - l + 1)
							changed := false
							for i := st; i < st+l; i++ {
								nb := byte(rng.Intn(256))
								if (r.Kind == "xraw25519" || r.Kind == "xwing-x") && i == 31 {
									nb = (nb & 0x7f) | (c[r.Off+i] & 0x80) // leave the masked bit alone
								}
								if nb != c[r.Off+i] {
									changed = true
								}
								c[r.Off+i] = nb
							}
							if changed {
								run(c)
							}
						}
					case "pair":
						// the same bit flipped at two places of the region, at distances that are multiples of the packing strides in use
						// (2-byte words, 3 bytes per two 12-bit coefficients, 15 bytes per eight 15-bit coefficients, 10 / 11-bit groups) or random
						for n := 0; n < *nmulti && r.Len >= 2; n++ {
							c := append([]byte{}, kc.ct...)
							o1 := rng.Intn(r.Len)
							d := []int{1, 2, 3, 4, 5, 11, 15, 16, 30, 32, 45, 320, 352}[rng.Intn(13)] * (1 + rng.Intn(3))
							if rng.Intn(4) == 0 {
								d = 1 + rng.Intn(r.Len)
							}
							o2 := o1 + d
							if o2 >= r.Len {
								o2 = o1 - d
							}
							if o2 < 0 || o2 == o1 {
								continue
							}
							bit := uint(rng.Intn(8))
							if (r.Kind == "xraw25519" || r.Kind == "xwing-x") && bit == 7 && (o1 == 31 || o2 == 31) {
								continue // the masked bit is its own region
							}
							c[r.Off+o1] ^= 1 << bit
							c[r.Off+o2] ^= 1 << bit
							run(c)
						}
					case "zero":
						run(make([]byte, len(kc.ct)))
					case "ff":
						run(bytes.Repeat([]byte{0xff}, len(kc.ct)))
					case "otherkey":
						for n := 0; n < 3; n++ {
							c, _, err := sch.EncapsulateDeterministically(other.pk, vlib.Bytes(rng, sch.EncapsulationSeedSize()))
							if err == nil {
								run(c)
							}
						}
					}
				}
				emit(ln)
			}
		}()
	}
	wg.Wait()
	fmt.Printf("lines=%d\n", o.N)
}
