// Driver for C04: ML-DSA-44/65/87 and Dilithium2/3/5 key generation, deterministic signing and verification against
// mldsaref (a transcription of FIPS 204 / Dilithium 3.1): honest signatures under contexts of 0 / 1 / 255 bytes,
// altered c~ / z / message / context / key, over-long contexts, wrong lengths, every way of spelling a hint vector
// non-canonically, signatures whose z violates the norm bound but are otherwise consistent (made by the transcription
// with the check switched off).  Writes jobs for the in-tree hedged-signing recorders.
package main

import (
	"bytes"
	"flag"
	"fmt"
	"time"

	"github.com/cloudflare/circl/sign"
	"github.com/cloudflare/circl/sign/dilithium/mode2"
	"github.com/cloudflare/circl/sign/dilithium/mode3"
	"github.com/cloudflare/circl/sign/dilithium/mode5"
	"github.com/cloudflare/circl/sign/mldsa/mldsa44"
	"github.com/cloudflare/circl/sign/mldsa/mldsa65"
	"github.com/cloudflare/circl/sign/mldsa/mldsa87"
	"github.com/cloudflare/circl/zzverif/mldsaref"
	"github.com/cloudflare/circl/zzverif/vlib"
)

type line struct {
	Ev     string `json:"ev"`
	Param  string `json:"param"`
	Class  string `json:"class"`
	Panics int    `json:"panics"`
	Pk     string `json:"pk"`
	RefPk  string `json:"ref_pk"`
	Sk     string `json:"sk"`
	RefSk  string `json:"ref_sk"`
	Sig    string `json:"sig"`
	RefSig string `json:"ref_sig"`
	// verify
	Accepted  bool   `json:"accepted"`
	LenOK     bool   `json:"len_ok"`
	CtxOK     bool   `json:"ctx_ok"`
	Hints     []int  `json:"hints"`
	HintOKRef bool   `json:"hint_ok_ref"`
	K         int    `json:"k"`
	Omega     int    `json:"omega"`
	ZMax      int    `json:"zmax"`
	Gamma1    int    `json:"gamma1"`
	Beta      int    `json:"beta"`
	CTildeOK  bool   `json:"ctilde_ok"`
	Seed      string `json:"seed"`
	Msg       string `json:"msg"`
	Ctx       string `json:"ctx"`
	Note      string `json:"note"`
}

type hedgedJob struct{ Seed, Mprime, Rnd, Want, Param string }

func ints(b []byte) []int {
	o := make([]int, len(b))
	for i := range b {
		o[i] = int(b[i])
	}
	return o
}

func main() {
	out := flag.String("out", "trace.ndjson", "")
	hedged := flag.String("hedged", "hedged.json", "")
	seed := flag.Int64("seed", 1, "")
	thorough := flag.Bool("thorough", false, "")
	flag.Parse()
	rng := vlib.Rng(*seed, "c04")
	o := vlib.Create(*out)
	defer o.Close()
	emit := func(l line) {
		if l.Hints == nil {
			l.Hints = []int{}
		}
		o.Emit(l)
	}
	schemes := map[string]sign.Scheme{"ML-DSA-44": mldsa44.Scheme(), "ML-DSA-65": mldsa65.Scheme(), "ML-DSA-87": mldsa87.Scheme(),
		"Dilithium2": mode2.Scheme(), "Dilithium3": mode3.Scheme(), "Dilithium5": mode5.Scheme()}
	nseeds := 2
	if *thorough {
		nseeds = 12
	}
	var jobs []hedgedJob
	for _, p := range mldsaref.All {
		sch := schemes[p.Name]
		opts := func(ctx []byte) *sign.SignatureOpts {
			if len(ctx) == 0 {
				return nil
			}
			return &sign.SignatureOpts{Context: string(ctx)}
		}
		libVerify := func(pkb, msg, ctx, sig []byte) (bool, bool) {
			pk, err := sch.UnmarshalBinaryPublicKey(pkb)
			if err != nil {
				return false, false
			}
			return sch.Verify(pk, msg, sig, opts(ctx)), true
		}
		verifyLine := func(class string, pkb, msg, ctx, sig []byte) {
			f := p.Verify(pkb, msg, ctx, sig)
			l := line{Ev: "verify", Param: p.Name, Class: class, LenOK: f.LenOK, CtxOK: f.CtxOK, Hints: ints(f.Hints), HintOKRef: f.HintOK, K: p.K, Omega: p.Omega,
				ZMax: int(f.ZMax), Gamma1: p.Gamma1, Beta: p.Beta, CTildeOK: f.CTildeOK, Msg: vlib.Hex(msg), Ctx: vlib.Hex(ctx), Sig: vlib.Hex(sig), Pk: vlib.Hex(pkb)}
			if !f.LenOK || !f.CtxOK { // the hint section is not located: give the specification a well-formed dummy
				l.Hints = make([]int, p.Omega+p.K)
			}
			oc := vlib.Safe(120*time.Second, func() { l.Accepted, _ = libVerify(pkb, msg, ctx, sig) })
			if oc.Bad() {
				l.Panics, l.Note = 1, oc.Panic
			}
			emit(l)
		}
		seeds := [][]byte{make([]byte, 32), bytes.Repeat([]byte{0xff}, 32)}
		for i := 0; i < nseeds; i++ {
			seeds = append(seeds, vlib.Bytes(rng, 32))
		}
		// boundary seeds: the matrix expansion draws the candidate q itself (to be rejected) resp. q - 1 (to be kept)
		for _, target := range []int64{mldsaref.Q, mldsaref.Q - 1} {
			if bs := p.BoundarySeed(vlib.Bytes(rng, 32), target, 40000); bs != nil {
				seeds = append(seeds, bs)
			}
		}
		ctxs := [][]byte{nil}
		if p.MLDSA {
			ctxs = [][]byte{nil, []byte("c"), vlib.Bytes(rng, 255)}
		}
		for si, sd := range seeds {
			ref := p.KeyGen(sd)
			l := line{Ev: "keygen", Param: p.Name, Class: fmt.Sprintf("seed#%d", si), RefPk: vlib.Hex(ref.Pk), RefSk: vlib.Hex(ref.Sk), Seed: vlib.Hex(sd)}
			var pk sign.PublicKey
			var sk sign.PrivateKey
			oc := vlib.Safe(120*time.Second, func() {
				pk, sk = sch.DeriveKey(sd)
				a, _ := pk.MarshalBinary()
				b, _ := sk.MarshalBinary()
				l.Pk, l.Sk = vlib.Hex(a), vlib.Hex(b)
			})
			if oc.Bad() {
				l.Panics, l.Note = 1, oc.Panic
				emit(l)
				continue
			}
			emit(l)
			if si < 3 {
				// the public key OBJECT a private key hands out, for a private key whose tr field is not H(pk) (any bytes are a valid
				// encoding there): it encodes to the honest public key, so its verdicts are the specification's verdicts for those bytes
				func() {
					skb, _ := sk.MarshalBinary()
					skb[64] ^= 1 // first byte of tr
					sk2, err := sch.UnmarshalBinaryPrivateKey(skb)
					if err != nil {
						return
					}
					msg := []byte("foreign tr")
					var sig, pkb []byte
					var pk2 sign.PublicKey
					oc := vlib.Safe(120*time.Second, func() {
						sig = sch.Sign(sk2, msg, nil)
						pk2 = sk2.Public().(sign.PublicKey)
						pkb, _ = pk2.MarshalBinary()
					})
					if oc.Bad() || pk2 == nil {
						return
					}
					f := p.Verify(pkb, msg, nil, sig)
					l := line{Ev: "verify", Param: p.Name, Class: "public key object of a private key with a foreign tr", LenOK: f.LenOK, CtxOK: f.CtxOK, Hints: ints(f.Hints), HintOKRef: f.HintOK,
						K: p.K, Omega: p.Omega, ZMax: int(f.ZMax), Gamma1: p.Gamma1, Beta: p.Beta, CTildeOK: f.CTildeOK, Msg: vlib.Hex(msg), Ctx: "", Sig: vlib.Hex(sig), Pk: vlib.Hex(pkb)}
					if !f.LenOK || !f.CtxOK {
						l.Hints = make([]int, p.Omega+p.K)
					}
					oc = vlib.Safe(120*time.Second, func() { l.Accepted = sch.Verify(pk2, msg, sig, nil) })
					if oc.Bad() {
						l.Panics, l.Note = 1, oc.Panic
					}
					emit(l)
				}()
			}
			for ci, ctx := range ctxs {
				for mi, ml := range []int{0, 1, 33, 200} {
					if !*thorough && (si+ci+mi)%2 != 0 {
						continue
					}
					msg := vlib.Bytes(rng, ml)
					refSig, _ := ref.Sign(p.MPrime(msg, ctx), mldsaref.SignOpts{})
					l := line{Ev: "sign", Param: p.Name, Class: fmt.Sprintf("seed#%d ctx=%d msg=%d", si, len(ctx), ml), RefSig: vlib.Hex(refSig), Seed: vlib.Hex(sd), Msg: vlib.Hex(msg), Ctx: vlib.Hex(ctx)}
					oc := vlib.Safe(120*time.Second, func() { l.Sig = vlib.Hex(sch.Sign(sk, msg, opts(ctx))) })
					if oc.Bad() {
						l.Panics, l.Note = 1, oc.Panic
					}
					emit(l)
					verifyLine(fmt.Sprintf("honest ctx=%d", len(ctx)), ref.Pk, msg, ctx, refSig)
					if p.MLDSA && mi == 1 {
						rnd := vlib.Bytes(rng, 32)
						if si == 0 {
							rnd = bytes.Repeat([]byte{0xff}, 32)
						}
						hs, _ := ref.Sign(p.MPrime(msg, ctx), mldsaref.SignOpts{Rnd: rnd})
						jobs = append(jobs, hedgedJob{vlib.Hex(sd), vlib.Hex(p.MPrime(msg, ctx)), vlib.Hex(rnd), vlib.Hex(hs), p.Name})
					}
				}
			}
			if si == 2 { // messages one of whose signing attempts sits exactly on the boundary of one rejection test (found by search)
				for _, kind := range []string{"z", "r0", "h=", "h+"} {
					msg := ref.BoundaryMessage(kind, vlib.Bytes(rng, 12), 6000)
					if msg == nil {
						continue
					}
					refSig, _ := ref.Sign(p.MPrime(msg, nil), mldsaref.SignOpts{})
					l := line{Ev: "sign", Param: p.Name, Class: "boundary " + kind, RefSig: vlib.Hex(refSig), Seed: vlib.Hex(sd), Msg: vlib.Hex(msg), Ctx: ""}
					oc := vlib.Safe(120*time.Second, func() { l.Sig = vlib.Hex(sch.Sign(sk, msg, opts(nil))) })
					if oc.Bad() {
						l.Panics, l.Note = 1, oc.Panic
					}
					emit(l)
					verifyLine("honest boundary "+kind, ref.Pk, msg, nil, refSig)
				}
			}
			if si > 2 && !*thorough {
				continue
			}
			// ---- verification of altered and malformed signatures
			msg, ctx := vlib.Bytes(rng, 20), ctxs[si%len(ctxs)]
			sig, _ := ref.Sign(p.MPrime(msg, ctx), mldsaref.SignOpts{})
			zoff, hoff := p.CTilde, p.SigSize-p.Omega-p.K
			alt := func(class string, f func(b []byte)) {
				b := append([]byte{}, sig...)
				f(b)
				verifyLine(class, ref.Pk, msg, ctx, b)
			}
			for i := 0; i < 4; i++ {
				alt("ctilde-bit", func(b []byte) { b[rng.Intn(p.CTilde)] ^= 1 << uint(rng.Intn(8)) })
				alt("z-bit", func(b []byte) { b[zoff+rng.Intn(hoff-zoff)] ^= 1 << uint(rng.Intn(8)) })
			}
			verifyLine("msg-altered", ref.Pk, append([]byte{1}, msg...), ctx, sig)
			if p.MLDSA {
				verifyLine("ctx-altered", ref.Pk, msg, []byte("other"), sig)
				verifyLine("ctx-256", ref.Pk, msg, vlib.Bytes(rng, 256), sig)
				// a signature made by the key holder for the message representative 0 || 0 || ctx || msg with a 256-byte ctx, i.e. with the
				// length octet wrapped: the honest signature of (ctx || msg, empty context).  Only the context-length rule rejects it.
				c256 := vlib.Bytes(rng, 256)
				wrapped, _ := ref.Sign(append(append([]byte{0, 0}, c256...), msg...), mldsaref.SignOpts{})
				verifyLine("ctx-256-wrapped-length", ref.Pk, msg, c256, wrapped)
				c255 := vlib.Bytes(rng, 255)
				s255, _ := ref.Sign(p.MPrime(msg, c255), mldsaref.SignOpts{})
				verifyLine("ctx-255", ref.Pk, msg, c255, s255)
			}
			pk2 := append([]byte{}, ref.Pk...)
			pk2[rng.Intn(len(pk2))] ^= 1
			verifyLine("pk-bit", pk2, msg, ctx, sig)
			verifyLine("sig-short", ref.Pk, msg, ctx, sig[:len(sig)-1])
			verifyLine("sig-long", ref.Pk, msg, ctx, append(append([]byte{}, sig...), 0))
			verifyLine("sig-empty", ref.Pk, msg, ctx, nil)
			// z coefficients at the norm boundary (these also break the commitment; the consistent ones follow below)
			setZ := func(b []byte, idx int, val int) {
				bits := 18
				if p.Gamma1 == 1<<19 {
					bits = 20
				}
				v := p.Gamma1 - val
				for j := 0; j < bits; j++ {
					k := idx*bits + j
					b[zoff+k/8] &^= 1 << uint(k%8)
					if v>>uint(j)&1 == 1 {
						b[zoff+k/8] |= 1 << uint(k%8)
					}
				}
			}
			for _, val := range []int{p.Gamma1 - p.Beta, -(p.Gamma1 - p.Beta), p.Gamma1 - p.Beta - 1, -(p.Gamma1 - p.Beta - 1), p.Gamma1, -(p.Gamma1 - 1)} {
				alt(fmt.Sprintf("z-coefficient=%d", val), func(b []byte) { setZ(b, rng.Intn(256*p.L), val) })
			}
			// consistent signatures whose z violates the bound: only the norm test can reject them
			for i := 0; i < 3; i++ {
				m2 := vlib.Bytes(rng, 10+i)
				if bs, ok := ref.Sign(p.MPrime(m2, ctx), mldsaref.SignOpts{SkipZCheck: true}); ok {
					verifyLine("z-norm-violated-consistent", ref.Pk, m2, ctx, bs)
				}
			}
			// ---- non-canonical spellings of the hint vector
			hint := sig[hoff:]
			counts := hint[p.Omega:]
			total := int(counts[p.K-1])
			polyOf := func(pos int) int { // which polynomial owns index position pos
				for i := 0; i < p.K; i++ {
					if pos < int(counts[i]) {
						return i
					}
				}
				return p.K - 1
			}
			if total >= 2 {
				// swap two indices inside one polynomial (descending order)
				for pos := 0; pos+1 < total; pos++ {
					if polyOf(pos) == polyOf(pos+1) {
						alt("hint-swapped", func(b []byte) { b[hoff+pos], b[hoff+pos+1] = b[hoff+pos+1], b[hoff+pos] })
						break
					}
				}
			}
			if total >= 1 && total < p.Omega {
				// duplicate an index: same vector, one more index byte, later counts incremented
				pos := rng.Intn(total)
				pi := polyOf(pos)
				alt("hint-duplicated", func(b []byte) {
					h := b[hoff:]
					copy(h[pos+1:p.Omega], append([]byte{}, h[pos:p.Omega-1]...))
					for i := pi; i < p.K; i++ {
						h[p.Omega+i]++
					}
				})
				alt("hint-padding-nonzero", func(b []byte) { b[hoff+p.Omega-1] = 1 + byte(rng.Intn(255)) })
				alt("hint-padding-nonzero-first", func(b []byte) { b[hoff+total] = 7 })
			}
			alt("hint-count-decreasing", func(b []byte) {
				if p.K >= 2 && b[hoff+p.Omega+p.K-2] > 0 {
					b[hoff+p.Omega+p.K-1] = b[hoff+p.Omega+p.K-2] - 1
				} else {
					b[hoff+p.Omega+p.K-1] = byte(p.Omega + 1)
				}
			})
			alt("hint-count-above-omega", func(b []byte) { b[hoff+p.Omega+p.K-1] = byte(p.Omega + 1) })
			alt("hint-count-255", func(b []byte) { b[hoff+p.Omega] = 255 })
			// the whole hint section strictly increasing, with counts beyond omega + k: a decoder that checks "indices increase" while it walks
			// towards the count, and the count only afterwards, walks off the end of the signature
			alt("hint-all-increasing-count-past-end", func(b []byte) {
				for i := 0; i < p.Omega; i++ {
					b[hoff+i] = byte(i)
				}
				for i := 0; i < p.K; i++ {
					b[hoff+p.Omega+i] = byte(p.Omega + p.K + 1 + i)
				}
			})
			alt("hint-all-increasing-count-at-end", func(b []byte) {
				for i := 0; i < p.Omega; i++ {
					b[hoff+i] = byte(i)
				}
				for i := 0; i < p.K; i++ {
					b[hoff+p.Omega+i] = byte(p.Omega + 1 + i)
				}
			})
			alt("hint-removed", func(b []byte) { // drop the last index: a different vector, the commitment no longer matches
				if total > 0 {
					b[hoff+total-1] = 0
					for i := polyOf(total - 1); i < p.K; i++ {
						b[hoff+p.Omega+i]--
					}
				}
			})
		}
	}
	vlib.WriteJSON(*hedged, jobs)
	fmt.Printf("lines=%d hedged=%d\n", o.N, len(jobs))
}
