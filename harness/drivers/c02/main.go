// Driver for C02: for every signature variant and alteration site of spec/C02/SigVerdict.tla, sign with
// real keys, apply every concrete alteration of that site (all single-bit flips, all truncation lengths, ...)
// and record how many altered inputs were accepted / panicked.  BLS aggregation scenarios follow BlsAgg.tla.
package main

import (
	"bytes"
	"crypto"
	"flag"
	"fmt"
	"math/big"
	"sync"
	"time"

	"github.com/cloudflare/circl/ecc/bls12381"
	"github.com/cloudflare/circl/sign"
	"github.com/cloudflare/circl/sign/bls"
	"github.com/cloudflare/circl/sign/ed25519"
	"github.com/cloudflare/circl/sign/ed448"
	"github.com/cloudflare/circl/sign/mldsa/mldsa44"
	"github.com/cloudflare/circl/sign/mldsa/mldsa65"
	"github.com/cloudflare/circl/sign/mldsa/mldsa87"
	"github.com/cloudflare/circl/sign/schemes"
	"github.com/cloudflare/circl/zzverif/vlib"
)

type scen struct {
	Variant string `json:"variant"`
	Site    string `json:"site"`
	Expect  string `json:"expect"`
}
type line struct {
	Ev       string `json:"ev"`
	Variant  string `json:"variant"`
	Site     string `json:"site"`
	Total    int    `json:"total"`
	Accepted int    `json:"accepted"`
	Panics   int    `json:"panics"`
	SignErr  int    `json:"sign_refused"` // signing refused / panicked on an input it must refuse (e.g. 256-byte context)
	SizeOK   bool   `json:"size_ok"`
	Det      bool   `json:"det"`
	Note     string `json:"note"`
}

// keyed is one key pair of one variant: everything goes through byte strings so that "encoded public key" alterations
// are possible.
type keyed struct {
	pk     []byte
	sign   func(msg []byte, ctx []byte) ([]byte, bool)            // false: refused (error / panic)
	verify func(pk, msg, ctx, sig []byte) (ok bool, refused bool) // refused: key did not parse
	other  map[string]func(pk, msg, ctx, sig []byte) bool         // verification under sibling variants ("mode" site)
}

type variant struct {
	name    string
	sigSize int
	sOff    int // offset of the scalar S (if any)
	sLen    int
	order   *big.Int // group order L for S+L
	split   int      // hybrids: length of the first component
	newKey  func(seed []byte) keyed
	seedLen int
}

func safe(f func()) (panicked bool, note string) {
	oc := vlib.Safe(30*time.Second, f)
	return oc.Panic != "" || oc.Timeout, oc.Panic
}

func schemeVariant(s sign.Scheme) variant {
	v := variant{name: "scheme:" + s.Name(), sigSize: s.SignatureSize(), seedLen: s.SeedSize()}
	v.newKey = func(seed []byte) keyed {
		pk, sk := s.DeriveKey(seed)
		pkb, _ := pk.MarshalBinary()
		opts := func(ctx []byte) *sign.SignatureOpts {
			if ctx == nil {
				return nil
			}
			return &sign.SignatureOpts{Context: string(ctx)}
		}
		return keyed{pk: pkb,
			sign: func(msg, ctx []byte) (sig []byte, ok bool) {
				p, _ := safe(func() { sig = s.Sign(sk, msg, opts(ctx)) })
				return sig, !p && sig != nil
			},
			verify: func(pkb, msg, ctx, sig []byte) (bool, bool) {
				pk2, err := s.UnmarshalBinaryPublicKey(pkb)
				if err != nil {
					return false, true
				}
				return s.Verify(pk2, msg, sig, opts(ctx)), false
			}}
	}
	return v
}

var l25519, _ = new(big.Int).SetString("7237005577332262213973186563042994240857116359379907606001950938285454250989", 10)
var l448, _ = new(big.Int).SetString("181709681073901722637330951972001133588410340171829515070372549795146003961539585716195755291692375963310293709091662304773755859649779", 10)

func variants() []variant {
	var vs []variant
	for _, s := range schemes.All() {
		v := schemeVariant(s)
		switch s.Name() {
		case "Ed25519":
			v.sOff, v.sLen, v.order = 32, 32, l25519
		case "Ed448":
			v.sOff, v.sLen, v.order = 57, 57, l448
		case "Ed25519-Dilithium2":
			v.split = s.SignatureSize() - 64 // Dilithium2 signature first, then the Ed25519 one
			v.sOff, v.sLen, v.order = v.split+32, 32, l25519
		case "Ed448-Dilithium3":
			v.split = s.SignatureSize() - 114
			v.sOff, v.sLen, v.order = v.split+57, 57, l448
		}
		vs = append(vs, v)
	}
	// package-level Ed25519 family
	edv := func(name string, sg func(k ed25519.PrivateKey, m []byte, c string) []byte, vf func(p ed25519.PublicKey, m, s []byte, c string) bool) variant {
		v := variant{name: name, sigSize: 64, sOff: 32, sLen: 32, order: l25519, seedLen: 32}
		v.newKey = func(seed []byte) keyed {
			k := ed25519.NewKeyFromSeed(seed)
			pkb := append([]byte{}, k.Public().(ed25519.PublicKey)...)
			mk := func(f func(p ed25519.PublicKey, m, s []byte, c string) bool) func(pk, msg, ctx, sig []byte) bool {
				return func(pk, msg, ctx, sig []byte) bool { return f(ed25519.PublicKey(pk), msg, sig, string(ctx)) }
			}
			return keyed{pk: pkb,
				sign: func(msg, ctx []byte) (sig []byte, ok bool) {
					p, _ := safe(func() { sig = sg(k, msg, string(ctx)) })
					return sig, !p
				},
				verify: func(pk, msg, ctx, sig []byte) (bool, bool) {
					return vf(ed25519.PublicKey(pk), msg, sig, string(ctx)), false
				},
				other: map[string]func(pk, msg, ctx, sig []byte) bool{
					"pure": mk(func(p ed25519.PublicKey, m, s []byte, c string) bool { return ed25519.Verify(p, m, s) }),
					"ctx":  mk(ed25519.VerifyWithCtx), "ph": mk(ed25519.VerifyPh),
					"any-ph": mk(func(p ed25519.PublicKey, m, s []byte, c string) bool {
						return ed25519.VerifyAny(p, m, s, ed25519.SignerOptions{Hash: crypto.SHA512, Context: c, Scheme: ed25519.ED25519Ph})
					})}}
		}
		return v
	}
	vs = append(vs,
		edv("ed25519.pure", func(k ed25519.PrivateKey, m []byte, c string) []byte { return ed25519.Sign(k, m) },
			func(p ed25519.PublicKey, m, s []byte, c string) bool { return ed25519.Verify(p, m, s) }),
		edv("ed25519.ctx", ed25519.SignWithCtx, ed25519.VerifyWithCtx),
		edv("ed25519.ph", ed25519.SignPh, ed25519.VerifyPh))
	e4 := func(name string, sg func(k ed448.PrivateKey, m []byte, c string) []byte, vf func(p ed448.PublicKey, m, s []byte, c string) bool) variant {
		v := variant{name: name, sigSize: 114, sOff: 57, sLen: 57, order: l448, seedLen: 57}
		v.newKey = func(seed []byte) keyed {
			k := ed448.NewKeyFromSeed(seed)
			pkb := append([]byte{}, k.Public().(ed448.PublicKey)...)
			return keyed{pk: pkb,
				sign: func(msg, ctx []byte) (sig []byte, ok bool) {
					p, _ := safe(func() { sig = sg(k, msg, string(ctx)) })
					return sig, !p
				},
				verify: func(pk, msg, ctx, sig []byte) (bool, bool) {
					return vf(ed448.PublicKey(pk), msg, sig, string(ctx)), false
				},
				other: map[string]func(pk, msg, ctx, sig []byte) bool{
					"pure": func(pk, msg, ctx, sig []byte) bool { return ed448.Verify(ed448.PublicKey(pk), msg, sig, string(ctx)) },
					"ph":   func(pk, msg, ctx, sig []byte) bool { return ed448.VerifyPh(ed448.PublicKey(pk), msg, sig, string(ctx)) }}}
		}
		return v
	}
	vs = append(vs, e4("ed448.pure", ed448.Sign, ed448.Verify), e4("ed448.ph", ed448.SignPh, ed448.VerifyPh))
	vs = append(vs,
		variant{name: "mldsa44", sigSize: mldsa44.SignatureSize, seedLen: 32, newKey: func(seed []byte) keyed {
			var sd [32]byte
			copy(sd[:], seed)
			pk, sk := mldsa44.NewKeyFromSeed(&sd)
			return keyed{pk: pk.Bytes(),
				sign: func(msg, ctx []byte) ([]byte, bool) {
					sig := make([]byte, mldsa44.SignatureSize)
					err := mldsa44.SignTo(sk, msg, ctx, false, sig)
					return sig, err == nil
				},
				verify: func(pkb, msg, ctx, sig []byte) (bool, bool) {
					var p mldsa44.PublicKey
					if p.UnmarshalBinary(pkb) != nil {
						return false, true
					}
					return mldsa44.Verify(&p, msg, ctx, sig), false
				}}
		}},
		variant{name: "mldsa65", sigSize: mldsa65.SignatureSize, seedLen: 32, newKey: func(seed []byte) keyed {
			var sd [32]byte
			copy(sd[:], seed)
			pk, sk := mldsa65.NewKeyFromSeed(&sd)
			return keyed{pk: pk.Bytes(),
				sign: func(msg, ctx []byte) ([]byte, bool) {
					sig := make([]byte, mldsa65.SignatureSize)
					err := mldsa65.SignTo(sk, msg, ctx, false, sig)
					return sig, err == nil
				},
				verify: func(pkb, msg, ctx, sig []byte) (bool, bool) {
					var p mldsa65.PublicKey
					if p.UnmarshalBinary(pkb) != nil {
						return false, true
					}
					return mldsa65.Verify(&p, msg, ctx, sig), false
				}}
		}},
		variant{name: "mldsa87", sigSize: mldsa87.SignatureSize, seedLen: 32, newKey: func(seed []byte) keyed {
			var sd [32]byte
			copy(sd[:], seed)
			pk, sk := mldsa87.NewKeyFromSeed(&sd)
			return keyed{pk: pk.Bytes(),
				sign: func(msg, ctx []byte) ([]byte, bool) {
					sig := make([]byte, mldsa87.SignatureSize)
					err := mldsa87.SignTo(sk, msg, ctx, false, sig)
					return sig, err == nil
				},
				verify: func(pkb, msg, ctx, sig []byte) (bool, bool) {
					var p mldsa87.PublicKey
					if p.UnmarshalBinary(pkb) != nil {
						return false, true
					}
					return mldsa87.Verify(&p, msg, ctx, sig), false
				}}
		}})
	vs = append(vs, blsVariant[bls.G1]("bls.G1", 96), blsVariant[bls.G2]("bls.G2", 48))
	return vs
}

func blsVariant[K bls.KeyGroup](name string, sigSize int) variant {
	return variant{name: name, sigSize: sigSize, seedLen: 32, newKey: func(seed []byte) keyed {
		sk, err := bls.KeyGen[K](seed, nil, nil)
		if err != nil {
			vlib.Die("bls.KeyGen: %v", err)
		}
		pkb, _ := sk.PublicKey().MarshalBinary()
		return keyed{pk: pkb,
			sign: func(msg, ctx []byte) ([]byte, bool) { return bls.Sign(sk, msg), true },
			verify: func(pkb, msg, ctx, sig []byte) (bool, bool) {
				var p bls.PublicKey[K]
				if p.UnmarshalBinary(pkb) != nil {
					return false, true
				}
				return bls.Verify(&p, msg, sig), false
			}}
	}}
}

func main() {
	scf := flag.String("scen", "", "")
	out := flag.String("out", "trace.ndjson", "")
	seed := flag.Int64("seed", 1, "")
	stride := flag.Int("stride", 7, "bit-flip stride for signatures longer than 1000 bytes (1 = every bit)")
	nkeys := flag.Int("keys", 2, "")
	flag.Parse()
	var scs []scen
	vlib.ReadJSON(*scf, &scs)
	byVar := map[string][]scen{}
	for _, s := range scs {
		byVar[s.Variant] = append(byVar[s.Variant], s)
	}
	o := vlib.Create(*out)
	defer o.Close()
	var mu sync.Mutex
	emit := func(l line) { mu.Lock(); o.Emit(l); mu.Unlock() }
	vs := variants()
	have := map[string]bool{}
	var wg sync.WaitGroup
	sem := make(chan struct{}, 16)
	for _, v := range vs {
		have[v.name] = true
		list, ok := byVar[v.name]
		if !ok {
			emit(line{Ev: "unmodelled", Variant: v.name, Note: "variant offered by circl but absent from SigVerdict!Variants"})
			continue
		}
		v, list := v, list
		wg.Add(1)
		sem <- struct{}{}
		go func() {
			defer func() { <-sem; wg.Done() }()
			rng := vlib.Rng(*seed, "c02"+v.name)
			supportsCtx := false
			for _, s := range list {
				if s.Site == "ctx-other" {
					supportsCtx = true
				}
			}
			for _, sc := range list {
				ln := line{Ev: "site", Variant: v.name, Site: sc.Site, SizeOK: true, Det: true}
				for kI := 0; kI < *nkeys; kI++ {
					k := v.newKey(vlib.Bytes(rng, v.seedLen))
					k2 := v.newKey(vlib.Bytes(rng, v.seedLen))
					msgLens := []int{0, 1, 31, 64, 127, 128, 129, 300}
					msg := vlib.Bytes(rng, msgLens[(kI+len(sc.Site))%len(msgLens)])
					if sc.Site == "msg-empty" || sc.Site == "msg-trunc" || sc.Site == "msg-flip" {
						msg = vlib.Bytes(rng, 40+rng.Intn(100))
					}
					var ctx []byte
					if supportsCtx {
						ctx = vlib.Bytes(rng, []int{1, 17, 254, 255}[(kI+len(sc.Site))%4])
						if v.name == "scheme:ML-DSA-44" || v.name == "scheme:ML-DSA-65" || v.name == "scheme:ML-DSA-87" || v.name == "scheme:Ed448" {
							for i := range ctx { // sign.SignatureOpts carries the context as a string
								ctx[i] = 'a' + ctx[i]%26
							}
						}
					}
					if v.name == "ed25519.ctx" && len(ctx) == 0 {
						ctx = []byte("c")
					}
					sig, ok := k.sign(msg, ctx)
					if !ok {
						ln.Note = "honest signing refused"
						ln.Total++
						continue
					}
					sig2, _ := k.sign(msg, ctx)
					if !bytes.Equal(sig, sig2) {
						ln.Det = false
					}
					if len(sig) != v.sigSize {
						ln.SizeOK = false
					}
					try := func(pk, m, c, s []byte) {
						ln.Total++
						var acc bool
						p, note := safe(func() { acc, _ = k.verify(pk, m, c, s) })
						if p {
							ln.Panics++
							if ln.Note == "" {
								ln.Note = note
							}
						} else if acc {
							ln.Accepted++
						}
					}
					switch sc.Site {
					case "none":
						try(k.pk, msg, ctx, sig)
						try(append([]byte{}, k.pk...), append([]byte{}, msg...), append([]byte(nil), ctx...), append([]byte{}, sig...))
					case "ctx-nil-vs-empty":
						s0, ok := k.sign(msg, nil)
						s1, ok1 := k.sign(msg, []byte{})
						if v.name == "ed25519.ctx" { // Ed25519ctx requires a non-empty context: nothing to compare
							ln.Total++
							ln.Accepted++
							break
						}
						if !ok || !ok1 {
							ln.Note = "signing with empty context refused"
							ln.Total++
							break
						}
						try(k.pk, msg, []byte{}, s0)
						try(k.pk, msg, nil, s1)
					case "pk-other":
						try(k2.pk, msg, ctx, sig)
					case "pk-bit":
						n := len(k.pk) * 8
						st := 1
						if n > 2048 {
							st = n / 2048
						}
						for b := 0; b < n; b += st {
							p := append([]byte{}, k.pk...)
							p[b/8] ^= 1 << uint(b%8)
							try(p, msg, ctx, sig)
						}
						try(k.pk[:len(k.pk)-1], msg, ctx, sig)
						try(nil, msg, ctx, sig)
						try(make([]byte, len(k.pk)), msg, ctx, sig)
						try(bytes.Repeat([]byte{0xff}, len(k.pk)), msg, ctx, sig)
					case "msg-flip":
						for b := 0; b < len(msg)*8; b += 3 {
							m := append([]byte{}, msg...)
							m[b/8] ^= 1 << uint(b%8)
							try(k.pk, m, ctx, sig)
						}
					case "msg-trunc":
						for n := 0; n < len(msg); n++ {
							try(k.pk, msg[:n], ctx, sig)
						}
					case "msg-ext":
						try(k.pk, append(append([]byte{}, msg...), 0), ctx, sig)
						try(k.pk, append([]byte{0}, msg...), ctx, sig)
						if len(msg) > 0 {
							try(k.pk, append(append([]byte{}, msg...), msg...), ctx, sig)
						}
					case "msg-empty":
						try(k.pk, nil, ctx, sig)
						try(k.pk, []byte{}, ctx, sig)
					case "msg-other-len":
						for _, n := range []int{1, 63, 64, 65, 200, 1000} {
							try(k.pk, vlib.Bytes(rng, n), ctx, sig)
						}
					case "ctx-other":
						c2 := append([]byte{}, ctx...)
						c2[rng.Intn(len(c2))] ^= 1
						try(k.pk, msg, c2, sig)
						try(k.pk, msg, []byte("another context"), sig)
					case "ctx-longer":
						try(k.pk, msg, append(append([]byte{}, ctx...), 'x'), sig)
						try(k.pk, msg, ctx[:len(ctx)-1], sig)
						// 256 bytes and more must be refused on both sides
						long := bytes.Repeat([]byte("y"), 256)
						if s256, ok := k.sign(msg, long); ok {
							ln.Note = "signing accepted a 256-byte context"
							try(k.pk, msg, long, s256)
						} else {
							ln.SignErr++
						}
						try(k.pk, msg, long, sig)
						try(k.pk, msg, bytes.Repeat([]byte("z"), 1000), sig)
						// where the context enters the signed string behind a ONE-octet length (ML-DSA: 0 || len || ctx || msg), a 256-byte
						// context with the length wrapped to 0 is the honest empty-context signature of ctx || msg
						if sw, ok := k.sign(append(append([]byte{}, long...), msg...), nil); ok {
							try(k.pk, msg, long, sw)
						}
					case "ctx-dropped":
						if v.name != "ed25519.ctx" || true {
							try(k.pk, msg, nil, sig)
							try(k.pk, msg, []byte{}, sig)
						}
					case "ctx-added":
						s0, ok := k.sign(msg, nil)
						if v.name == "ed25519.ctx" {
							s0, ok = k.sign(msg, []byte("c"))
							if ok {
								try(k.pk, msg, []byte("cc"), s0)
							}
							break
						}
						if ok {
							try(k.pk, msg, []byte("x"), s0)
						}
					case "mode":
						for on, f := range k.other {
							self := map[string]string{"ed25519.pure": "pure", "ed25519.ctx": "ctx", "ed25519.ph": "ph", "ed448.pure": "pure", "ed448.ph": "ph"}[v.name]
							if on == self || (on == "any-ph" && self == "ph") {
								continue
							}
							ln.Total++
							var acc bool
							if p, note := safe(func() { acc = f(k.pk, msg, ctx, sig) }); p {
								ln.Panics++
								ln.Note = note
							} else if acc {
								ln.Accepted++
								ln.Note = "accepted under sibling variant " + on
							}
						}
						if len(k.other) == 0 { // ML-DSA: hedged vs deterministic are the same domain; nothing to cross
							ln.Total++
						}
					case "sig-bit":
						n := len(sig) * 8
						st := 1
						if len(sig) > 1000 {
							st = *stride
						}
						for b := (kI * 3) % st; b < n; b += st {
							s := append([]byte{}, sig...)
							s[b/8] ^= 1 << uint(b%8)
							try(k.pk, msg, ctx, s)
						}
					case "sig-trunc":
						st := 1
						if len(sig) > 1000 {
							st = 17
						}
						for n := 0; n < len(sig); n += st {
							try(k.pk, msg, ctx, sig[:n])
						}
						try(k.pk, msg, ctx, sig[:len(sig)-1])
						if v.split > 0 {
							try(k.pk, msg, ctx, sig[:v.split])
							try(k.pk, msg, ctx, sig[:v.split-1])
							try(k.pk, msg, ctx, sig[v.split:])
						}
					case "sig-append":
						for _, extra := range [][]byte{{0}, {1, 2, 3}, bytes.Repeat([]byte{0}, 16), sig} {
							try(k.pk, msg, ctx, append(append([]byte{}, sig...), extra...))
						}
					case "sig-splusl":
						for mult := int64(1); mult <= 8; mult++ {
							s := append([]byte{}, sig...)
							sc := make([]byte, v.sLen)
							for i := 0; i < v.sLen; i++ {
								sc[v.sLen-1-i] = s[v.sOff+i]
							}
							x := new(big.Int).SetBytes(sc)
							x.Add(x, new(big.Int).Mul(v.order, big.NewInt(mult)))
							if x.BitLen() > 8*v.sLen {
								break
							}
							be := x.FillBytes(make([]byte, v.sLen))
							for i := 0; i < v.sLen; i++ {
								s[v.sOff+i] = be[v.sLen-1-i]
							}
							try(k.pk, msg, ctx, s)
						}
					case "sig-swap":
						s := append(append([]byte{}, sig[v.split:]...), sig[:v.split]...)
						try(k.pk, msg, ctx, s)
						other, _ := k2.sign(msg, ctx)
						if other != nil {
							try(k.pk, msg, ctx, append(append([]byte{}, sig[:v.split]...), other[v.split:]...))
							try(k.pk, msg, ctx, append(append([]byte{}, other[:v.split]...), sig[v.split:]...))
						}
					case "sig-zero":
						try(k.pk, msg, ctx, make([]byte, len(sig)))
						try(k.pk, msg, ctx, bytes.Repeat([]byte{0xff}, len(sig)))
					case "sig-empty":
						try(k.pk, msg, ctx, nil)
						try(k.pk, msg, ctx, []byte{})
						try(k.pk, msg, ctx, []byte{0})
					default:
						vlib.Die("unknown site %s", sc.Site)
					}
				}
				emit(ln)
			}
		}()
	}
	wg.Wait()
	for n := range byVar {
		if !have[n] {
			emit(line{Ev: "unmodelled", Variant: n, Note: "variant in SigVerdict!Variants not offered by circl"})
		}
	}
	blsAggregate(*seed, emit)
	fmt.Printf("lines=%d\n", o.N)
}

// blsAggregate: BlsAgg.tla scenarios on real keys (both key groups).
func blsAggregate(seed int64, emit func(line)) {
	run := func(name string, f func(kind string, n int, rng interface{ Intn(int) int }) (acc bool, panicked bool)) {
		rng := vlib.Rng(seed, "blsagg"+name)
		for _, kind := range []string{"permuted", "duplicated", "missing", "other-msg", "identity-sig", "sig-append", "identity-pk", "identity-pk-single", "rogue-key"} {
			ln := line{Ev: "blsagg", Variant: name, Site: kind, SizeOK: true, Det: true}
			for n := 2; n <= 4; n++ {
				for rep := 0; rep < 2; rep++ {
					acc, p := f(kind, n, rng)
					ln.Total++
					if p {
						ln.Panics++
					} else if acc {
						ln.Accepted++
					}
				}
			}
			emit(ln)
		}
	}
	run("bls.G1", func(kind string, n int, rng interface{ Intn(int) int }) (bool, bool) {
		return aggCase[bls.G1](kind, n, rng)
	})
	run("bls.G2", func(kind string, n int, rng interface{ Intn(int) int }) (bool, bool) {
		return aggCase[bls.G2](kind, n, rng)
	})
}

func aggCase[K bls.KeyGroup](kind string, n int, rng interface{ Intn(int) int }) (acc bool, panicked bool) {
	var pubs []*bls.PublicKey[K]
	var msgs [][]byte
	var sigs []bls.Signature
	for i := 0; i < n; i++ {
		ikm := make([]byte, 32)
		for j := range ikm {
			ikm[j] = byte(rng.Intn(256))
		}
		sk, _ := bls.KeyGen[K](ikm, nil, nil)
		m := []byte(fmt.Sprintf("message %d-%d", i, rng.Intn(1000000)))
		pubs, msgs, sigs = append(pubs, sk.PublicKey()), append(msgs, m), append(sigs, bls.Sign(sk, m))
	}
	var zero K
	agg, err := bls.Aggregate(zero, sigs)
	if err != nil {
		return false, false
	}
	switch kind {
	case "permuted":
		i, j := rng.Intn(n), rng.Intn(n)
		pubs[i], pubs[j] = pubs[j], pubs[i]
		msgs[i], msgs[j] = msgs[j], msgs[i]
	case "duplicated":
		i := rng.Intn(n)
		pubs, msgs = append(pubs, pubs[i]), append(msgs, msgs[i])
	case "missing":
		i := rng.Intn(n)
		pubs, msgs = append(pubs[:i:i], pubs[i+1:]...), append(msgs[:i:i], msgs[i+1:]...)
	case "other-msg":
		msgs[rng.Intn(n)] = []byte("not signed")
	case "identity-sig":
		agg = make([]byte, len(agg))
		agg[0] = 0xc0
	case "sig-append":
		agg = append(append([]byte{}, agg...), 1, 2)
	case "rogue-key":
		// the attacker knows x, publishes x*G - pk_victim (computed from public bytes only) and signs m with x: the aggregate over {m, m}
		// implicates the victim, who never signed m
		ikm := make([]byte, 32)
		for j := range ikm {
			ikm[j] = byte(rng.Intn(256))
		}
		att, _ := bls.KeyGen[K](ikm, nil, nil)
		vb, _ := pubs[0].MarshalBinary()
		ab, _ := att.PublicKey().MarshalBinary()
		var rb []byte
		if len(vb) == bls12381.G1SizeCompressed {
			var V, A bls12381.G1
			if V.SetBytes(vb) != nil || A.SetBytes(ab) != nil {
				return false, true
			}
			V.Neg()
			A.Add(&A, &V)
			rb = A.BytesCompressed()
		} else {
			var V, A bls12381.G2
			if V.SetBytes(vb) != nil || A.SetBytes(ab) != nil {
				return false, true
			}
			V.Neg()
			A.Add(&A, &V)
			rb = A.BytesCompressed()
		}
		rogue := new(bls.PublicKey[K])
		if rogue.UnmarshalBinary(rb) != nil || !rogue.Validate() {
			return false, true
		}
		m := []byte("the victim never signed this")
		pubs, msgs, agg = []*bls.PublicKey[K]{pubs[0], rogue}, [][]byte{m, m}, bls.Sign(att, m)
	case "identity-pk", "identity-pk-single":
		// a public key decoded from the encoding of the point at infinity must be refused, whatever the signature
		pkb, _ := pubs[0].MarshalBinary()
		idk := make([]byte, len(pkb))
		idk[0] = 0xc0
		var ipk bls.PublicKey[K]
		if ipk.UnmarshalBinary(idk) != nil {
			return false, false // refused at decoding: fine
		}
		ids := make([]byte, len(agg))
		ids[0] = 0xc0
		if kind == "identity-pk-single" {
			p, _ := safe(func() { acc = bls.Verify(&ipk, msgs[0], ids) })
			return acc, p
		}
		// honest aggregate of the others plus an identity key "signing" a message nobody signed
		pubs, msgs = append(pubs, &ipk), append(msgs, []byte("never signed"))
	}
	p, _ := safe(func() { acc = bls.VerifyAggregate(pubs, msgs, agg) })
	return acc, p
}
