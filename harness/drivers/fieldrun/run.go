// Package fieldrun drives a finite-field implementation through the operations of spec/C12/FieldMachine.tla with
// structured, boundary-biased operands in every aliasing pattern, and records one event per call: register values
// before and after as base-4096 digit arrays plus the quotient hints TLC needs to CHECK the congruences.
package fieldrun

import (
	"math/big"
	"math/rand"

	"github.com/cloudflare/circl/zzverif/vlib"
)

// Field adapts one implementation.  Registers are numbered from 0 here (1-based in the events).
type Field struct {
	Name  string   // name in FieldConsts.tla
	Impl  string   // free text: package / back-end
	P     *big.Int // the modulus as the LIBRARY reports it
	Max   *big.Int // largest raw value an element may hold (P-1 for canonical-only types)
	NRegs int
	Set   func(r int, v *big.Int)
	Get   func(r int) *big.Int
	// binary ops z := x op y ; unary ops use x only.  Missing entries are not exercised.
	Mul, Add, Sub           func(z, x, y int)
	Sqr, Neg, Inv, Canon    func(z, x int)
	AddSub                  func(x, y int)                 // (x, y) := (x+y, x-y)
	IsZero                  func(x int) bool               // may canonicalise x
	Eq                      func(x, y int) bool
	Cmov                    func(z, y int, b bool)         // z := y if b
	Cswap                   func(x, y int, b bool)
	SqrtRatio               func(z, x, y int) bool         // z := sqrt(x/y), reports whether x/y is a square
	FromBytes               func(z int, v *big.Int) bool   // decode the integer v (given in the type's byte order); ok
	FromBytesStrict         bool
	FromBytesMax            *big.Int
	InvZeroDefined          bool
	InvSmall                func(z int, x uint64) // table-driven inverse of a small integer (every table entry is exercised)
	InvSmallMax             uint64
	FoldBits                uint // >0: raw elements of this many bits over a pseudo-Mersenne prime; operand pairs whose product needs the SECOND carry fold are added
	MontBits                uint // >0: elements are kept in Montgomery form with R = 2^MontBits; operands whose INTERNAL limbs are structured are added
}

type Event struct {
	U     int     `json:"u"`
	V2    int     `json:"v"`
	F     string  `json:"f"`
	Impl  string  `json:"impl"`
	Op    string  `json:"op"`
	P     []int   `json:"p"`
	X     int     `json:"x"`
	Y     int     `json:"y"`
	Z     int     `json:"z"`
	B     bool    `json:"b"`
	Pre   [][]int `json:"pre"`
	Post  [][]int `json:"post"`
	Qa    [][]int `json:"qa"`
	Qb    [][]int `json:"qb"`
	R     []int   `json:"r"`
	R2    []int   `json:"r2"`
	W     []int   `json:"w"`
	V     []int   `json:"vint"`
	Xzero bool    `json:"xzero"`
	ZeroD bool    `json:"zero_defined"`
	IsQR  bool    `json:"isqr"`
	Ok    bool    `json:"ok"`
	Strict bool   `json:"strict"`
}

// NewEvent / Hint let recorders with operations outside the generic runner (Fp2 components, fused multiply-add)
// build events by hand.  Register indices are 0-based here.
func NewEvent(f *Field, op string, x, y, z, u, v int) Event {
	return Event{F: f.Name, Impl: f.Impl, Op: op, P: vlib.Digits(f.P), X: x + 1, Y: y + 1, Z: z + 1, U: u + 1, V2: v + 1,
		Qa: [][]int{{}, {}}, Qb: [][]int{{}, {}}, R: []int{}, R2: []int{}, W: []int{}, V: []int{}}
}
func Hint(f *Field, e *Event, i int, a, b *big.Int) { e.Qa[i], e.Qb[i] = vlib.Quot(a, f.P), vlib.Quot(b, f.P) }
func Snapshot(f *Field) [][]int                     { return f.snapshot() }

// Structured returns the whole-element operand set: small values, neighbours of multiples of p, powers of two at
// limb boundaries +-small, the maximum; all within [0, max].
func Structured(p, max *big.Int) []*big.Int {
	var out []*big.Int
	seen := map[string]bool{}
	add := func(v *big.Int) {
		if v.Sign() >= 0 && v.Cmp(max) <= 0 && !seen[v.String()] {
			seen[v.String()] = true
			out = append(out, new(big.Int).Set(v))
		}
	}
	for d := int64(0); d <= 3; d++ {
		add(big.NewInt(d))
	}
	for _, c := range []int64{19, 38, 39, 0x7fffffff, 0xffffffff} {
		add(big.NewInt(c))
	}
	for m := int64(1); m <= 4; m++ {
		mp := new(big.Int).Mul(p, big.NewInt(m))
		for d := int64(-3); d <= 3; d++ {
			add(new(big.Int).Add(mp, big.NewInt(d)))
		}
		add(new(big.Int).Add(mp, big.NewInt(38)))
		add(new(big.Int).Sub(mp, big.NewInt(38)))
	}
	for k := uint(16); k <= uint(max.BitLen()); k += 16 {
		if k%32 != 0 && k%52 != 0 && k != uint(max.BitLen()) && k+1 != uint(max.BitLen()) {
			continue
		}
		t := new(big.Int).Lsh(big.NewInt(1), k)
		for d := int64(-2); d <= 2; d++ {
			add(new(big.Int).Add(t, big.NewInt(d)))
		}
	}
	for d := int64(0); d <= 40; d++ {
		if d <= 3 || d == 18 || d == 19 || d == 37 || d == 38 || d == 39 {
			add(new(big.Int).Sub(max, big.NewInt(d)))
		}
	}
	half := new(big.Int).Rsh(p, 1)
	add(half)
	add(new(big.Int).Add(half, big.NewInt(1)))
	// all-ones low words with a hole, typical carry chains
	ones := new(big.Int).Sub(new(big.Int).Lsh(big.NewInt(1), 64), big.NewInt(1))
	add(ones)
	add(new(big.Int).Lsh(ones, 64))
	add(new(big.Int).Sub(max, ones))
	return out
}

// related returns a value that shares its low 64-bit words with x and differs from it in one higher word (by one, by a corner value, or at random).
func related(x, max *big.Int, rng *rand.Rand) *big.Int {
	words := 1 + max.BitLen()/64
	j := uint(64 * (1 + rng.Intn(words)))
	low := new(big.Int).And(x, new(big.Int).Sub(new(big.Int).Lsh(big.NewInt(1), j), big.NewInt(1)))
	hi := new(big.Int).Rsh(x, j)
	switch rng.Intn(5) {
	case 0:
		hi.Add(hi, big.NewInt(1))
	case 1:
		if hi.Sign() > 0 {
			hi.Sub(hi, big.NewInt(1))
		}
	case 2:
		hi.SetInt64(0)
	case 3:
		hi = new(big.Int).Rsh(max, j)
	default:
		hi = new(big.Int).Rand(rng, new(big.Int).Add(new(big.Int).Rsh(max, j), big.NewInt(1)))
	}
	v := new(big.Int).Or(low, new(big.Int).Lsh(hi, j))
	if v.Cmp(max) > 0 {
		v.Set(max)
	}
	return v
}

func (f *Field) snapshot() [][]int {
	o := make([][]int, f.NRegs)
	for r := 0; r < f.NRegs; r++ {
		o[r] = vlib.Digits(f.Get(r))
	}
	return o
}

func mod(a, p *big.Int) *big.Int { return new(big.Int).Mod(a, p) }

// Run emits up to n events (more for the full structured cross product when cross is true).
func Run(f *Field, rng *rand.Rand, n int, emit func(Event)) {
	st := Structured(f.P, f.Max)
	var mont []*big.Int
	if f.MontBits > 0 {
		rinv := new(big.Int).ModInverse(new(big.Int).Lsh(big.NewInt(1), f.MontBits), f.P)
		limbs := int(f.MontBits / 64)
		pats := []*big.Int{big.NewInt(0), big.NewInt(1), big.NewInt(5)}
		for i := 0; i < limbs; i++ {
			for _, b := range []uint{31, 32, 33, 47, 63} {
				pats = append(pats, new(big.Int).Lsh(big.NewInt(1), uint(64*i)+b))
			}
		}
		all := new(big.Int)
		for i := 0; i < limbs; i++ {
			all.SetBit(all, 64*i+32, 1)
		}
		pats = append(pats, all, new(big.Int).Add(all, big.NewInt(5)), new(big.Int).Add(new(big.Int).Lsh(big.NewInt(1), 40), big.NewInt(5)))
		for _, m := range pats {
			v := new(big.Int).Mod(new(big.Int).Mul(m, rinv), f.P)
			if v.Cmp(f.Max) <= 0 {
				mont = append(mont, v)
			}
		}
		st = append(st, mont...)
	}
	pick := func() *big.Int {
		if rng.Intn(3) > 0 {
			return st[rng.Intn(len(st))]
		}
		v := new(big.Int).Rand(rng, new(big.Int).Add(f.Max, big.NewInt(1)))
		if rng.Intn(4) == 0 { // limb-edge noise
			w := uint(64 * rng.Intn(1+f.Max.BitLen()/64))
			v.SetBit(v, int(w), 1)
		}
		if v.Cmp(f.Max) > 0 {
			v.Set(f.Max)
		}
		return v
	}
	// second-fold corners (pseudo-Mersenne fields with raw elements of W bits, c = 2^W mod p): x * y = (h+1) * 2^W - 1 - r with r + 1 <= c * h,
	// so that the low part plus c times the high part overflows W bits once more; likewise x * x
	foldPair := func() (*big.Int, *big.Int) {
		w := new(big.Int).Lsh(big.NewInt(1), f.FoldBits)
		c := new(big.Int).Mod(w, f.P)
		for try := 0; try < 200; try++ {
			x := new(big.Int).Rand(rng, w)
			if rng.Intn(2) == 0 {
				x.Rsh(x, uint(rng.Intn(int(f.FoldBits)-8)))
			}
			if x.BitLen() < 8 {
				continue
			}
			lo := new(big.Int).Add(new(big.Int).Div(x, c), big.NewInt(1))
			span := new(big.Int).Sub(new(big.Int).Sub(x, big.NewInt(2)), lo)
			if span.Sign() <= 0 {
				continue
			}
			h := new(big.Int).Add(lo, new(big.Int).Rand(rng, span))
			top := new(big.Int).Sub(new(big.Int).Mul(new(big.Int).Add(h, big.NewInt(1)), w), big.NewInt(1))
			y, r := new(big.Int).DivMod(top, x, new(big.Int))
			if y.Cmp(w) < 0 && new(big.Int).Add(r, big.NewInt(1)).Cmp(new(big.Int).Mul(c, h)) <= 0 {
				return x, y
			}
		}
		return pick(), pick()
	}
	foldSquare := func() *big.Int {
		w := new(big.Int).Lsh(big.NewInt(1), f.FoldBits)
		c := new(big.Int).Mod(w, f.P)
		for try := 0; try < 200; try++ {
			h := new(big.Int).Rand(rng, w)
			h.SetBit(h, int(f.FoldBits)-1-rng.Intn(6), 1)
			if h.Cmp(new(big.Int).Sub(w, big.NewInt(2))) >= 0 {
				continue
			}
			top := new(big.Int).Sub(new(big.Int).Mul(new(big.Int).Add(h, big.NewInt(1)), w), big.NewInt(1))
			x := new(big.Int).Sqrt(top)
			r := new(big.Int).Sub(top, new(big.Int).Mul(x, x))
			if x.Cmp(w) < 0 && new(big.Int).Add(r, big.NewInt(1)).Cmp(new(big.Int).Mul(c, h)) <= 0 {
				return x
			}
		}
		return pick()
	}
	kp := new(big.Int).Lsh(f.P, 16)
	base := func(op string, x, y, z int) Event {
		return NewEvent(f, op, x, y, z, 0, 0)
	}
	hint := func(e *Event, i int, a, b *big.Int) { e.Qa[i], e.Qb[i] = vlib.Quot(a, f.P), vlib.Quot(b, f.P) }
	patterns := [][3]int{{0, 1, 2}, {0, 0, 1}, {0, 1, 0}, {0, 1, 1}, {0, 0, 0}, {2, 0, 1}}
	type binop struct {
		name string
		fn   func(z, x, y int)
		ex   func(x, y *big.Int) *big.Int
	}
	bins := []binop{
		{"mul", f.Mul, func(x, y *big.Int) *big.Int { return new(big.Int).Mul(x, y) }},
		{"add", f.Add, func(x, y *big.Int) *big.Int { return new(big.Int).Add(x, y) }},
		{"sub", f.Sub, func(x, y *big.Int) *big.Int { return new(big.Int).Add(x, new(big.Int).Sub(kp, y)) }},
	}
	doBin := func(b binop, pat [3]int, vx, vy *big.Int) {
		z, x, y := pat[0], pat[1], pat[2]
		for r := 0; r < f.NRegs; r++ {
			f.Set(r, pick())
		}
		f.Set(x, vx)
		if y != x {
			f.Set(y, vy)
		}
		e := base(b.name, x, y, z)
		e.Pre = f.snapshot()
		px, py := f.Get(x), f.Get(y)
		b.fn(z, x, y)
		e.Post = f.snapshot()
		hint(&e, 0, b.ex(px, py), f.Get(z))
		emit(e)
	}
	count := 0
	// 1. full cross product of the structured set for mul / add / sub (bounded by n/2), plain pattern and z=x
	for _, b := range bins {
		if b.fn == nil {
			continue
		}
		budget := n / 6
		idx := rng.Perm(len(st) * len(st))
		for _, k := range idx {
			if budget == 0 {
				break
			}
			budget--
			count++
			doBin(b, patterns[count%len(patterns)], st[k/len(st)], st[k%len(st)])
		}
	}
	// 2. everything else, random choice of op / pattern / operands
	for ; count < n; count++ {
		pat := patterns[rng.Intn(len(patterns))]
		z, x, y := pat[0], pat[1], pat[2]
		for r := 0; r < f.NRegs; r++ {
			f.Set(r, pick())
		}
		px, py := f.Get(x), f.Get(y)
		switch c := rng.Intn(13); {
		case c < 3:
			b := bins[c]
			if b.fn != nil {
				vx, vy := pick(), pick()
				if f.FoldBits > 0 && b.name == "mul" && rng.Intn(3) == 0 {
					vx, vy = foldPair()
					if rng.Intn(2) == 0 {
						vx, vy = vy, vx
					}
					if pat[1] == pat[2] { // x and y are the same register
						vx = foldSquare()
					}
				} else if rng.Intn(3) == 0 { // related operands: equal low words, the difference sits in ONE higher word (borrows and carries have to travel)
					vy = related(vx, f.Max, rng)
					if rng.Intn(2) == 0 {
						vx, vy = vy, vx
					}
				}
				doBin(b, pat, vx, vy)
			}
		case c == 3 && f.Sqr != nil:
			if f.FoldBits > 0 && rng.Intn(3) == 0 {
				f.Set(x, foldSquare())
				px = f.Get(x)
			}
			e := base("sqr", x, x, z)
			e.Pre = f.snapshot()
			f.Sqr(z, x)
			e.Post = f.snapshot()
			hint(&e, 0, new(big.Int).Mul(px, px), f.Get(z))
			emit(e)
		case c == 4 && f.Neg != nil:
			e := base("neg", x, x, z)
			e.Pre = f.snapshot()
			f.Neg(z, x)
			e.Post = f.snapshot()
			hint(&e, 0, new(big.Int).Sub(kp, px), f.Get(z))
			emit(e)
		case c == 5 && f.Inv != nil:
			e := base("inv", x, x, z)
			e.Pre = f.snapshot()
			e.Xzero = mod(px, f.P).Sign() == 0
			e.ZeroD = f.InvZeroDefined
			f.Inv(z, x)
			e.Post = f.snapshot()
			if e.Xzero {
				hint(&e, 0, px, big.NewInt(0))
				hint(&e, 1, f.Get(z), big.NewInt(0))
			} else {
				hint(&e, 0, new(big.Int).Mul(f.Get(z), px), big.NewInt(1))
			}
			emit(e)
		case c == 6 && f.Canon != nil:
			e := base("canon", x, x, z)
			e.Pre = f.snapshot()
			f.Canon(z, x)
			e.Post = f.snapshot()
			hint(&e, 0, px, f.Get(z))
			emit(e)
		case c == 7 && f.IsZero != nil:
			if len(mont) > 0 && rng.Intn(2) == 0 {
				f.Set(x, mont[rng.Intn(len(mont))])
				px = f.Get(x)
			} else if rng.Intn(2) == 0 { // make zero-class values likely
				v := new(big.Int).Mul(f.P, big.NewInt(int64(rng.Intn(3))))
				if v.Cmp(f.Max) > 0 {
					v = big.NewInt(0)
				}
				f.Set(x, v)
				px = f.Get(x)
			}
			e := base("iszero", x, x, x)
			e.Pre = f.snapshot()
			e.B = f.IsZero(x)
			e.Post = f.snapshot()
			e.R = vlib.Digits(mod(px, f.P))
			hint(&e, 0, px, mod(px, f.P))
			hint(&e, 1, f.Get(x), px)
			emit(e)
		case c == 8 && f.Eq != nil && x != y:
			if len(mont) > 0 && rng.Intn(2) == 0 { // internal representations that differ in few, chosen bits
				f.Set(x, mont[rng.Intn(len(mont))])
				f.Set(y, mont[rng.Intn(len(mont))])
				px, py = f.Get(x), f.Get(y)
			} else if rng.Intn(2) == 0 { // congruent but (where admissible) differently represented
				v := new(big.Int).Add(px, f.P)
				if v.Cmp(f.Max) > 0 {
					v = px
				}
				f.Set(y, v)
				py = f.Get(y)
			}
			e := base("eq", x, y, z)
			e.Pre = f.snapshot()
			e.B = f.Eq(x, y)
			e.Post = f.snapshot()
			e.R, e.R2 = vlib.Digits(mod(px, f.P)), vlib.Digits(mod(py, f.P))
			hint(&e, 0, px, mod(px, f.P))
			hint(&e, 1, py, mod(py, f.P))
			emit(e)
		case c == 9 && f.Cmov != nil && z != y:
			e := base("cmov", x, y, z)
			e.B = rng.Intn(2) == 1
			e.Pre = f.snapshot()
			f.Cmov(z, y, e.B)
			e.Post = f.snapshot()
			emit(e)
		case c == 10 && f.Cswap != nil && x != y:
			e := base("cswap", x, y, z)
			e.B = rng.Intn(2) == 1
			e.Pre = f.snapshot()
			f.Cswap(x, y, e.B)
			e.Post = f.snapshot()
			emit(e)
		case c == 11 && f.AddSub != nil && x != y:
			e := base("addsub", x, y, z)
			e.Pre = f.snapshot()
			f.AddSub(x, y)
			e.Post = f.snapshot()
			hint(&e, 0, new(big.Int).Add(px, py), f.Get(x))
			hint(&e, 1, new(big.Int).Add(px, new(big.Int).Sub(kp, py)), f.Get(y))
			emit(e)
		case c == 12 && f.SqrtRatio != nil:
			if mod(px, f.P).Sign() == 0 || mod(py, f.P).Sign() == 0 {
				continue
			}
			if rng.Intn(2) == 0 { // force a square ratio: x := y * t^2
				t := pick()
				v := mod(new(big.Int).Mul(py, new(big.Int).Mul(t, t)), f.P)
				if v.Sign() != 0 {
					f.Set(x, v)
					px = f.Get(x)
					py = f.Get(y)
				}
			}
			e := base("sqrtratio", x, y, z)
			e.Pre = f.snapshot()
			e.IsQR = f.SqrtRatio(z, x, y)
			e.Post = f.snapshot()
			gz := f.Get(z)
			if e.IsQR {
				hint(&e, 0, new(big.Int).Mul(new(big.Int).Mul(gz, gz), py), px)
			} else {
				// certificate: w^2 * y = N * x, found with math/big (untrusted; TLC checks it)
				nres := nonResidue(f.P)
				yi := new(big.Int).ModInverse(mod(py, f.P), f.P)
				t := mod(new(big.Int).Mul(new(big.Int).Mul(nres, px), yi), f.P)
				w := new(big.Int).ModSqrt(t, f.P)
				if w == nil {
					w = big.NewInt(0) // the library claimed "non-square" for a square ratio: TLC will reject
				}
				e.W = vlib.Digits(w)
				hint(&e, 0, new(big.Int).Mul(new(big.Int).Mul(w, w), py), new(big.Int).Mul(nres, px))
				xy := new(big.Int).Mul(px, py)
				e.R = vlib.Digits(mod(xy, f.P))
				hint(&e, 1, xy, mod(xy, f.P))
			}
			emit(e)
		}
	}
	// 3. decoding
	if f.FromBytes != nil {
		vals := Structured(f.P, f.FromBytesMax)
		for i := 0; i < n/10+len(vals); i++ {
			var v *big.Int
			if i < len(vals) {
				v = vals[i]
			} else {
				v = new(big.Int).Rand(rng, new(big.Int).Add(f.FromBytesMax, big.NewInt(1)))
			}
			e := base("frombytes", 0, 0, 0)
			f.Set(0, big.NewInt(0))
			e.Pre = f.snapshot()
			e.V = vlib.Digits(v)
			e.Strict = f.FromBytesStrict
			e.Ok = f.FromBytes(0, v)
			e.Post = f.snapshot()
			if !e.Strict {
				hint(&e, 0, v, f.Get(0))
			}
			emit(e)
		}
	}
	// 4. inverses of small integers taken from a table: every entry, stated as "inv" of a register that holds the integer
	if f.InvSmall != nil {
		for x := uint64(1); x <= f.InvSmallMax+2; x++ {
			for r := 0; r < f.NRegs; r++ {
				f.Set(r, pick())
			}
			f.Set(0, new(big.Int).SetUint64(x))
			e := base("inv", 0, 0, 1)
			e.Pre = f.snapshot()
			f.InvSmall(1, x)
			e.Post = f.snapshot()
			hint(&e, 0, new(big.Int).Mul(f.Get(1), new(big.Int).SetUint64(x)), big.NewInt(1))
			emit(e)
		}
	}
}

var nrCache = map[string]*big.Int{}

func nonResidue(p *big.Int) *big.Int {
	if v, ok := nrCache[p.String()]; ok {
		return v
	}
	e := new(big.Int).Rsh(new(big.Int).Sub(p, big.NewInt(1)), 1)
	pm1 := new(big.Int).Sub(p, big.NewInt(1))
	for n := int64(2); ; n++ {
		if new(big.Int).Exp(big.NewInt(n), e, p).Cmp(pm1) == 0 {
			nrCache[p.String()] = big.NewInt(n)
			return nrCache[p.String()]
		}
	}
}
