// Package xofrun: an independent (slow, plain) reference for Keccak-p / sponge / KangarooTwelve and the
// schedule runner used to replay XofMachine call schedules on real objects.  The reference is an
// ACCELERATOR only: on every run its outputs (and circl's) are certified against the executable TLA+
// definitions (spec/lib/KeccakOps.tla, HashJobs.tla, K12Jobs.tla) on a spot sample.
package xofrun

import "math/bits"

var rc = [24]uint64{
	0x0000000000000001, 0x0000000000008082, 0x800000000000808A, 0x8000000080008000,
	0x000000000000808B, 0x0000000080000001, 0x8000000080008081, 0x8000000000008009,
	0x000000000000008A, 0x0000000000000088, 0x0000000080008009, 0x000000008000000A,
	0x000000008000808B, 0x800000000000008B, 0x8000000000008089, 0x8000000000008003,
	0x8000000000008002, 0x8000000000000080, 0x000000000000800A, 0x800000008000000A,
	0x8000000080008081, 0x8000000000008080, 0x0000000080000001, 0x8000000080008008,
}

var rho = [25]int{0, 1, 62, 28, 27, 36, 44, 6, 55, 20, 3, 10, 43, 25, 39, 41, 45, 15, 21, 8, 18, 2, 61, 56, 14}

// KeccakP applies Keccak-p[1600, nr] (the last nr rounds of Keccak-f) to a (index x+5y).
func KeccakP(a *[25]uint64, nr int) {
	for r := 24 - nr; r < 24; r++ {
		var c [5]uint64
		for x := 0; x < 5; x++ {
			c[x] = a[x] ^ a[x+5] ^ a[x+10] ^ a[x+15] ^ a[x+20]
		}
		for x := 0; x < 5; x++ {
			d := c[(x+4)%5] ^ bits.RotateLeft64(c[(x+1)%5], 1)
			for y := 0; y < 5; y++ {
				a[x+5*y] ^= d
			}
		}
		var b [25]uint64
		for x := 0; x < 5; x++ {
			for y := 0; y < 5; y++ {
				b[y+5*((2*x+3*y)%5)] = bits.RotateLeft64(a[x+5*y], rho[x+5*y])
			}
		}
		for x := 0; x < 5; x++ {
			for y := 0; y < 5; y++ {
				a[x+5*y] = b[x+5*y] ^ (^b[(x+1)%5+5*y] & b[(x+2)%5+5*y])
			}
		}
		a[0] ^= rc[r]
	}
}

// Sponge computes Keccak[1600-8*rate](msg || ds-pad, outlen) with nr rounds.
func Sponge(rate int, ds byte, nr int, msg []byte, outlen int) []byte {
	var a [25]uint64
	p := append(append([]byte{}, msg...), ds)
	for len(p)%rate != 0 {
		p = append(p, 0)
	}
	p[len(p)-1] ^= 0x80
	for off := 0; off < len(p); off += rate {
		for i := 0; i < rate; i++ {
			a[i/8] ^= uint64(p[off+i]) << (8 * uint(i%8))
		}
		KeccakP(&a, nr)
	}
	out := make([]byte, 0, outlen+rate)
	for {
		for i := 0; i < rate; i++ {
			out = append(out, byte(a[i/8]>>(8*uint(i%8))))
		}
		if len(out) >= outlen {
			return out[:outlen]
		}
		KeccakP(&a, nr)
	}
}

func rightEncode(x uint64) []byte {
	var b []byte
	for x > 0 {
		b = append([]byte{byte(x)}, b...)
		x >>= 8
	}
	return append(b, byte(len(b)))
}

// K12 computes KangarooTwelve (KT128) of msg with customisation c.
func K12(msg, c []byte, outlen int) []byte {
	s := append(append(append([]byte{}, msg...), c...), rightEncode(uint64(len(c)))...)
	const B = 8192
	if len(s) <= B {
		return Sponge(168, 0x07, 12, s, outlen)
	}
	fin := append([]byte{}, s[:B]...)
	fin = append(fin, 3, 0, 0, 0, 0, 0, 0, 0)
	n := 0
	for off := B; off < len(s); off += B {
		end := off + B
		if end > len(s) {
			end = len(s)
		}
		fin = append(fin, Sponge(168, 0x0B, 12, s[off:end], 32)...)
		n++
	}
	fin = append(fin, rightEncode(uint64(n))...)
	fin = append(fin, 0xFF, 0xFF)
	return Sponge(168, 0x06, 12, fin, outlen)
}
