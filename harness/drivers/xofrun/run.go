package xofrun

import (
	"bytes"
	"encoding/json"
	"fmt"
	"runtime/debug"
)

// Obj is what a schedule is run against.
type Obj interface {
	Write(p []byte) (int, error)
	Read(p []byte) (int, error)
	Clone() Obj
	Reset()
}

// Summer is implemented by fixed-output hashes.
type Summer interface{ Sum(b []byte) []byte }

// Kind describes one primitive under test.
type Kind struct {
	Name string
	New  func() Obj
	Ref  func(msg []byte, outlen int) []byte // one-shot reference stream (independent of the object's buffering)
	Hash int                                 // >0: fixed digest size, only Sum is used for output
}

type Line struct {
	Op    string `json:"op"`
	Tr    int    `json:"tr"`
	Kind  string `json:"kind"`
	H     int    `json:"h"`
	G     int    `json:"g"`
	N     int    `json:"n"`
	Lobs  int    `json:"lobs"`
	Pobs  int    `json:"pobs"`
	Panic bool   `json:"panic"`
	Note  string `json:"note"`
}

// Base is the fixed pseudo-random string every message is a prefix of.
var Base = func() []byte {
	b := make([]byte, 1<<18)
	x := uint32(0x9e3779b9)
	for i := range b {
		x ^= x << 13
		x ^= x >> 17
		x ^= x << 5
		b[i] = byte(x >> 11)
	}
	return b
}()

const RefLen = 2400

// Run executes one schedule (as produced by Gen_Xof: ["write",h,n] ["read",h,n,..] ["clone",h,g]
// ["reset",h] ["sum",h,..]) and returns the observation lines.
func Run(k Kind, tr int, sched []json.RawMessage) []Line {
	lines := []Line{{Op: "start", Tr: tr, Kind: k.Name}}
	objs := map[int]Obj{0: k.New()}
	wrote := map[int]int{0: 0}     // bytes written per handle since reset (driver bookkeeping for content only)
	cands := map[int]bool{0: true} // candidate message lengths for identification
	refs := map[int][]byte{}
	ref := func(L int) []byte {
		if r, ok := refs[L]; ok {
			return r
		}
		n := RefLen
		if k.Hash > 0 {
			n = k.Hash
		}
		refs[L] = k.Ref(Base[:L], n)
		return refs[L]
	}
	for _, raw := range sched {
		var st []json.RawMessage
		json.Unmarshal(raw, &st)
		var op string
		json.Unmarshal(st[0], &op)
		arg := func(i int) int {
			var v int
			if i < len(st) {
				json.Unmarshal(st[i], &v)
			}
			return v
		}
		ln := Line{Op: op, Tr: tr, Kind: k.Name, H: arg(1), Lobs: -1, Pobs: -1}
		o := objs[ln.H]
		func() {
			defer func() {
				if r := recover(); r != nil {
					ln.Panic = true
					ln.Note = fmt.Sprintf("%v | %s", r, bytes.ReplaceAll(debug.Stack()[:600], []byte("\n"), []byte(";")))
				}
			}()
			switch op {
			case "write":
				ln.N = arg(2)
				o.Write(Base[wrote[ln.H] : wrote[ln.H]+ln.N])
				wrote[ln.H] += ln.N
				cands[wrote[ln.H]] = true
			case "read":
				ln.N = arg(2)
				if k.Hash > 0 { // fixed-output hashes are observed through Sum only
					ln.Op = "skip"
					break
				}
				out := make([]byte, ln.N)
				o.Read(out)
				if ln.N >= 8 {
					for L := range cands {
						r := ref(L)
						if i := bytes.Index(r, out); i >= 0 {
							ln.Lobs, ln.Pobs = L, i
							break
						}
					}
				} else if ln.N > 0 {
					ln.Note = "short read (<8 bytes) cannot be located"
				}
			case "clone":
				ln.G = arg(2)
				objs[ln.G] = o.Clone()
				wrote[ln.G] = wrote[ln.H]
			case "reset":
				o.Reset()
				wrote[ln.H] = 0
			case "sum":
				if s, ok := o.(Summer); ok && k.Hash > 0 {
					d := s.Sum(nil)
					for L := range cands {
						if bytes.Equal(ref(L), d) {
							ln.Lobs = L
							break
						}
					}
				} else { // XOFs: Sum is "clone then read the first bytes"
					c := o.Clone()
					out := make([]byte, 32)
					c.Read(out)
					for L := range cands {
						if bytes.HasPrefix(ref(L), out) {
							ln.Lobs = L
							break
						}
					}
				}
			}
		}()
		if ln.Op != "skip" {
			lines = append(lines, ln)
		}
		if ln.Panic {
			break
		}
	}
	return lines
}

