package main

import (
	"crypto"
	"crypto/rand"
	"crypto/rsa"
	"fmt"
	"strings"

	"github.com/cloudflare/circl/abe/cpabe/tkn20"
	"github.com/cloudflare/circl/blindsign/blindrsa"
	"github.com/cloudflare/circl/cipher/ascon"
	"github.com/cloudflare/circl/dh/csidh"
	"github.com/cloudflare/circl/dh/sidh"
	"github.com/cloudflare/circl/ecc/bls12381"
	"github.com/cloudflare/circl/ecc/bls12381/ff"
	"github.com/cloudflare/circl/ecc/goldilocks"
	"github.com/cloudflare/circl/group"
	"github.com/cloudflare/circl/hpke"
	"github.com/cloudflare/circl/kem"
	kemschemes "github.com/cloudflare/circl/kem/schemes"
	"github.com/cloudflare/circl/kem/sike/sikep434"
	"github.com/cloudflare/circl/kem/sike/sikep503"
	"github.com/cloudflare/circl/kem/sike/sikep751"
	"github.com/cloudflare/circl/kem/xwing"
	"github.com/cloudflare/circl/oprf"
	"github.com/cloudflare/circl/pki"
	"github.com/cloudflare/circl/sign"
	"github.com/cloudflare/circl/sign/bls"
	"github.com/cloudflare/circl/sign/ed25519"
	"github.com/cloudflare/circl/sign/ed448"
	"github.com/cloudflare/circl/sign/mldsa/mldsa44"
	"github.com/cloudflare/circl/sign/mldsa/mldsa65"
	"github.com/cloudflare/circl/sign/mldsa/mldsa87"
	signschemes "github.com/cloudflare/circl/sign/schemes"
	trsa "github.com/cloudflare/circl/tss/rsa"
	"github.com/cloudflare/circl/vdaf/prio3/arith/fp128"
	"github.com/cloudflare/circl/vdaf/prio3/arith/fp64"
	"github.com/cloudflare/circl/zk/dleq"
	"github.com/cloudflare/circl/zzverif/vlib"
)

func must(err error) {
	if err != nil {
		vlib.Die("adapter setup: %v", err)
	}
}

func allAdapters(seed int64) []adapter {
	rng := vlib.Rng(seed, "c10-setup")
	rd := vlib.SeededReader{R: rng}
	var ads []adapter
	add := func(a adapter) { ads = append(ads, a) }

	// ------------------------------------------------------------------ KEMs (kem.Scheme API)
	kems := append([]kem.Scheme{}, kemschemes.All()...)
	kems = append(kems, hpke.KEM_X25519_KYBER768_DRAFT00.Scheme(), hpke.KEM_XWING.Scheme(), sikep434.Scheme(), sikep503.Scheme(), sikep751.Scheme())
	for _, s := range kems {
		s := s
		pk, sk := s.DeriveKeyPair(vlib.Bytes(rng, s.SeedSize()))
		pkb, _ := pk.MarshalBinary()
		skb, _ := sk.MarshalBinary()
		ct, _, err := s.EncapsulateDeterministically(pk, vlib.Bytes(rng, s.EncapsulationSeedSize()))
		must(err)
		cost := 10
		if len(ct) > 5000 || s.Name()[:4] == "SIKE" {
			cost = 100
		}
		add(adapter{name: "kem." + s.Name() + ".UnmarshalBinaryPublicKey", covers: []string{"kem:" + s.Name() + ":UnmarshalBinaryPublicKey"}, valid: [][]byte{pkb}, cost: cost,
			call: func(b []byte) bool { _, err := s.UnmarshalBinaryPublicKey(b); return err == nil }})
		add(adapter{name: "kem." + s.Name() + ".UnmarshalBinaryPrivateKey", covers: []string{"kem:" + s.Name() + ":UnmarshalBinaryPrivateKey"}, valid: [][]byte{skb}, cost: cost,
			call: func(b []byte) bool { _, err := s.UnmarshalBinaryPrivateKey(b); return err == nil }})
		add(adapter{name: "kem." + s.Name() + ".Decapsulate", covers: []string{"kem:" + s.Name() + ":Decapsulate"}, valid: [][]byte{ct}, cost: cost * 3,
			call: func(b []byte) bool { _, err := s.Decapsulate(sk, b); return err == nil }})
		if as, ok := s.(kem.AuthScheme); ok && s.Name() != "HPKE_KEM_X25519_KYBER768_HKDF_SHA256" {
			pkS, skS := s.DeriveKeyPair(vlib.Bytes(rng, s.SeedSize()))
			act, _, err := as.AuthEncapsulateDeterministically(pk, skS, vlib.Bytes(rng, s.EncapsulationSeedSize()))
			if err == nil {
				add(adapter{name: "kem." + s.Name() + ".AuthDecapsulate", covers: []string{"kem:" + s.Name() + ":AuthDecapsulate"}, valid: [][]byte{act}, cost: cost * 3,
					call: func(b []byte) bool { _, err := as.AuthDecapsulate(sk, b, pkS); return err == nil }})
			}
		}
	}
	{ // package-level X-Wing
		sk, pk := xwing.DeriveKeyPairPacked(vlib.Bytes(rng, 32))
		ss, ct, err := xwing.Encapsulate(pk, vlib.Bytes(rng, 64))
		_ = ss
		must(err)
		add(adapter{name: "xwing.Decapsulate(ct)", covers: []string{"kem/xwing||Decapsulate"}, valid: [][]byte{ct}, cost: 30, exact: len(ct),
			call: func(b []byte) bool { xwing.Decapsulate(b, sk); return true }})
	}

	// ------------------------------------------------------------------ signatures (sign.Scheme API + package level)
	for _, s := range signschemes.All() {
		s := s
		pk, sk := s.DeriveKey(vlib.Bytes(rng, s.SeedSize()))
		pkb, _ := pk.MarshalBinary()
		skb, _ := sk.MarshalBinary()
		msg := []byte("c10 message")
		sig := s.Sign(sk, msg, nil)
		add(adapter{name: "sign." + s.Name() + ".UnmarshalBinaryPublicKey", covers: []string{"sign:" + s.Name() + ":UnmarshalBinaryPublicKey"}, valid: [][]byte{pkb}, cost: 10,
			call: func(b []byte) bool { _, err := s.UnmarshalBinaryPublicKey(b); return err == nil }})
		add(adapter{name: "sign." + s.Name() + ".UnmarshalBinaryPrivateKey", covers: []string{"sign:" + s.Name() + ":UnmarshalBinaryPrivateKey"}, valid: [][]byte{skb}, cost: 10,
			call: func(b []byte) bool { _, err := s.UnmarshalBinaryPrivateKey(b); return err == nil }})
		add(adapter{name: "sign." + s.Name() + ".Verify(sig)", covers: []string{"sign:" + s.Name() + ":Verify"}, valid: [][]byte{sig}, cost: 30,
			call: func(b []byte) bool { return s.Verify(pk, msg, b, nil) }})
		add(adapter{name: "sign." + s.Name() + ".Verify(msg)", covers: []string{"sign:" + s.Name() + ":Verify"}, valid: [][]byte{msg}, cost: 30, budget: 300,
			call: func(b []byte) bool { return s.Verify(pk, b, sig, nil) }})
		if _, ok := s.(pki.CertificateScheme); ok {
			pem, err := pki.MarshalPEMPublicKey(pk)
			must(err)
			pkix, _ := pki.MarshalPKIXPublicKey(pk)
			spem, _ := pki.MarshalPEMPrivateKey(sk)
			spkix, _ := pki.MarshalPKIXPrivateKey(sk)
			add(adapter{name: "pki.UnmarshalPEMPublicKey[" + s.Name() + "]", covers: []string{"pki||UnmarshalPEMPublicKey"}, valid: [][]byte{pem}, cost: 10,
				call: func(b []byte) bool { _, err := pki.UnmarshalPEMPublicKey(b); return err == nil }})
			add(adapter{name: "pki.UnmarshalPKIXPublicKey[" + s.Name() + "]", covers: []string{"pki||UnmarshalPKIXPublicKey"}, valid: [][]byte{pkix}, cost: 10,
				call: func(b []byte) bool { _, err := pki.UnmarshalPKIXPublicKey(b); return err == nil }})
			add(adapter{name: "pki.UnmarshalPEMPrivateKey[" + s.Name() + "]", covers: []string{"pki||UnmarshalPEMPrivateKey"}, valid: [][]byte{spem}, cost: 10,
				call: func(b []byte) bool { _, err := pki.UnmarshalPEMPrivateKey(b); return err == nil }})
			add(adapter{name: "pki.UnmarshalPKIXPrivateKey[" + s.Name() + "]", covers: []string{"pki||UnmarshalPKIXPrivateKey"}, valid: [][]byte{spkix}, cost: 10,
				call: func(b []byte) bool { _, err := pki.UnmarshalPKIXPrivateKey(b); return err == nil }})
		}
	}
	{ // Ed25519 / Ed448 package level: keys are byte slices of arbitrary length
		k := ed25519.NewKeyFromSeed(vlib.Bytes(rng, 32))
		pub := k.Public().(ed25519.PublicKey)
		msg := []byte("m")
		sig := ed25519.Sign(k, msg)
		sigc := ed25519.SignWithCtx(k, msg, "ctx")
		sigp := ed25519.SignPh(k, msg, "ctx")
		add(adapter{name: "ed25519.Verify(pk)", covers: []string{"sign/ed25519||Verify"}, valid: [][]byte{pub}, cost: 10,
			call: func(b []byte) bool { return ed25519.Verify(ed25519.PublicKey(b), msg, sig) }})
		add(adapter{name: "ed25519.Verify(sig)", covers: []string{"sign/ed25519||Verify"}, valid: [][]byte{sig}, cost: 10,
			call: func(b []byte) bool { return ed25519.Verify(pub, msg, b) }})
		add(adapter{name: "ed25519.VerifyWithCtx(sig)", covers: []string{"sign/ed25519||VerifyWithCtx"}, valid: [][]byte{sigc}, cost: 10,
			call: func(b []byte) bool { return ed25519.VerifyWithCtx(pub, msg, b, "ctx") }})
		add(adapter{name: "ed25519.VerifyWithCtx(ctx)", covers: []string{"sign/ed25519||VerifyWithCtx"}, valid: [][]byte{[]byte("ctx")}, cost: 10,
			call: func(b []byte) bool { return ed25519.VerifyWithCtx(pub, msg, sigc, string(b)) }})
		add(adapter{name: "ed25519.VerifyPh(sig)", covers: []string{"sign/ed25519||VerifyPh"}, valid: [][]byte{sigp}, cost: 10,
			call: func(b []byte) bool { return ed25519.VerifyPh(pub, msg, b, "ctx") }})
		add(adapter{name: "ed25519.VerifyPh(ctx)", covers: []string{"sign/ed25519||VerifyPh"}, valid: [][]byte{[]byte("ctx")}, cost: 10,
			call: func(b []byte) bool { return ed25519.VerifyPh(pub, msg, sigp, string(b)) }})
		add(adapter{name: "ed25519.VerifyAny(pk)", covers: []string{"sign/ed25519||VerifyAny"}, valid: [][]byte{pub}, cost: 10,
			call: func(b []byte) bool {
				return ed25519.VerifyAny(ed25519.PublicKey(b), msg, sig, ed25519.SignerOptions{Scheme: ed25519.ED25519})
			}})
		k4 := ed448.NewKeyFromSeed(vlib.Bytes(rng, 57))
		pub4 := k4.Public().(ed448.PublicKey)
		sig4 := ed448.Sign(k4, msg, "ctx")
		sig4p := ed448.SignPh(k4, msg, "ctx")
		add(adapter{name: "ed448.Verify(pk)", covers: []string{"sign/ed448||Verify"}, valid: [][]byte{pub4}, cost: 30,
			call: func(b []byte) bool { return ed448.Verify(ed448.PublicKey(b), msg, sig4, "ctx") }})
		add(adapter{name: "ed448.Verify(sig)", covers: []string{"sign/ed448||Verify"}, valid: [][]byte{sig4}, cost: 30,
			call: func(b []byte) bool { return ed448.Verify(pub4, msg, b, "ctx") }})
		add(adapter{name: "ed448.Verify(ctx)", covers: []string{"sign/ed448||Verify"}, valid: [][]byte{[]byte("ctx")}, cost: 30,
			call: func(b []byte) bool { return ed448.Verify(pub4, msg, sig4, string(b)) }})
		add(adapter{name: "ed448.VerifyPh(sig)", covers: []string{"sign/ed448||VerifyPh"}, valid: [][]byte{sig4p}, cost: 30,
			call: func(b []byte) bool { return ed448.VerifyPh(pub4, msg, b, "ctx") }})
		add(adapter{name: "ed448.VerifyAny(pk)", covers: []string{"sign/ed448||VerifyAny"}, valid: [][]byte{pub4}, cost: 30,
			call: func(b []byte) bool {
				return ed448.VerifyAny(ed448.PublicKey(b), msg, sig4, ed448.SignerOptions{Scheme: ed448.ED448, Context: "ctx"})
			}})
	}
	{ // ML-DSA package level
		var sd [32]byte
		copy(sd[:], vlib.Bytes(rng, 32))
		pk44, sk44 := mldsa44.NewKeyFromSeed(&sd)
		pk65, sk65 := mldsa65.NewKeyFromSeed(&sd)
		pk87, sk87 := mldsa87.NewKeyFromSeed(&sd)
		msg, ctx := []byte("m"), []byte("ctx")
		s44, s65, s87 := make([]byte, mldsa44.SignatureSize), make([]byte, mldsa65.SignatureSize), make([]byte, mldsa87.SignatureSize)
		must(mldsa44.SignTo(sk44, msg, ctx, false, s44))
		must(mldsa65.SignTo(sk65, msg, ctx, false, s65))
		must(mldsa87.SignTo(sk87, msg, ctx, false, s87))
		add(adapter{name: "mldsa44.Verify(sig)", covers: []string{"sign/mldsa/mldsa44||Verify"}, valid: [][]byte{s44}, cost: 30, call: func(b []byte) bool { return mldsa44.Verify(pk44, msg, ctx, b) }})
		add(adapter{name: "mldsa65.Verify(sig)", covers: []string{"sign/mldsa/mldsa65||Verify"}, valid: [][]byte{s65}, cost: 30, call: func(b []byte) bool { return mldsa65.Verify(pk65, msg, ctx, b) }})
		add(adapter{name: "mldsa87.Verify(sig)", covers: []string{"sign/mldsa/mldsa87||Verify"}, valid: [][]byte{s87}, cost: 30, call: func(b []byte) bool { return mldsa87.Verify(pk87, msg, ctx, b) }})
		add(adapter{name: "mldsa44.Verify(ctx)", covers: []string{"sign/mldsa/mldsa44||Verify"}, valid: [][]byte{ctx}, cost: 30, call: func(b []byte) bool { return mldsa44.Verify(pk44, msg, b, s44) }})
		add(adapter{name: "mldsa65.PublicKey.UnmarshalBinary", covers: []string{"sign/mldsa/mldsa65|*PublicKey|UnmarshalBinary"}, valid: [][]byte{pk65.Bytes()}, cost: 10,
			call: func(b []byte) bool { var p mldsa65.PublicKey; return p.UnmarshalBinary(b) == nil }})
		add(adapter{name: "mldsa65.PrivateKey.UnmarshalBinary", covers: []string{"sign/mldsa/mldsa65|*PrivateKey|UnmarshalBinary"}, valid: [][]byte{sk65.Bytes()}, cost: 10,
			call: func(b []byte) bool { var p mldsa65.PrivateKey; return p.UnmarshalBinary(b) == nil }})
		add(adapter{name: "mldsa44.PublicKey.UnmarshalBinary", covers: []string{"sign/mldsa/mldsa44|*PublicKey|UnmarshalBinary"}, valid: [][]byte{pk44.Bytes()}, cost: 10,
			call: func(b []byte) bool { var p mldsa44.PublicKey; return p.UnmarshalBinary(b) == nil }})
		add(adapter{name: "mldsa87.PrivateKey.UnmarshalBinary", covers: []string{"sign/mldsa/mldsa87|*PrivateKey|UnmarshalBinary"}, valid: [][]byte{sk87.Bytes()}, cost: 10,
			call: func(b []byte) bool { var p mldsa87.PrivateKey; return p.UnmarshalBinary(b) == nil }})
	}

	// ------------------------------------------------------------------ groups, OPRF keys, DLEQ proofs
	groups := []group.Group{group.P256, group.P384, group.P521, group.Ristretto255}
	gnames := []string{"P256", "P384", "P521", "ristretto255"}
	suites := []oprf.Suite{oprf.SuiteP256, oprf.SuiteP384, oprf.SuiteP521, oprf.SuiteRistretto255}
	for i, g := range groups {
		g, gn, su := g, gnames[i], suites[i]
		e := g.RandomElement(rd)
		s := g.RandomScalar(rd)
		eb, _ := e.MarshalBinary()
		ec, _ := e.MarshalBinaryCompress()
		ib, _ := g.Identity().MarshalBinary()
		sb, _ := s.MarshalBinary()
		add(adapter{name: "group." + gn + ".Element.UnmarshalBinary", covers: []string{"group|Element|UnmarshalBinary"}, valid: [][]byte{eb, ec, ib}, cost: 10,
			call: func(b []byte) bool { return g.NewElement().UnmarshalBinary(b) == nil }})
		add(adapter{name: "group." + gn + ".Scalar.UnmarshalBinary", covers: []string{"group|Scalar|UnmarshalBinary"}, valid: [][]byte{sb}, cost: 1,
			call: func(b []byte) bool { return g.NewScalar().UnmarshalBinary(b) == nil }})
		key, err := oprf.GenerateKey(su, rd)
		must(err)
		kb, _ := key.MarshalBinary()
		pb, _ := key.Public().MarshalBinary()
		add(adapter{name: "oprf." + gn + ".PrivateKey.UnmarshalBinary", covers: []string{"oprf|*PrivateKey|UnmarshalBinary"}, valid: [][]byte{kb}, cost: 1,
			call: func(b []byte) bool { return new(oprf.PrivateKey).UnmarshalBinary(su, b) == nil }})
		add(adapter{name: "oprf." + gn + ".PublicKey.UnmarshalBinary", covers: []string{"oprf|*PublicKey|UnmarshalBinary"}, valid: [][]byte{pb}, cost: 10,
			call: func(b []byte) bool { return new(oprf.PublicKey).UnmarshalBinary(su, b) == nil }})
		// a DLEQ proof
		k := g.RandomScalar(rd)
		A, B := g.RandomElement(rd), g.RandomElement(rd)
		kA, kB := g.NewElement().Mul(A, k), g.NewElement().Mul(B, k)
		pr, err := dleq.Prover{Params: dleq.Params{G: g, H: crypto.SHA256, DST: []byte("c10")}}.Prove(k, A, kA, B, kB, rd)
		must(err)
		prb, _ := pr.MarshalBinary()
		add(adapter{name: "dleq." + gn + ".Proof.UnmarshalBinary", covers: []string{"zk/dleq|*Proof|UnmarshalBinary"}, valid: [][]byte{prb}, cost: 10,
			call: func(b []byte) bool {
				var p dleq.Proof
				if p.UnmarshalBinary(g, b) != nil {
					return false
				}
				return dleq.Verifier{Params: dleq.Params{G: g, H: crypto.SHA256, DST: []byte("c10")}}.Verify(A, kA, B, kB, &p)
			}})
	}

	// ------------------------------------------------------------------ HPKE
	for _, kid := range []hpke.KEM{hpke.KEM_P256_HKDF_SHA256, hpke.KEM_P384_HKDF_SHA384, hpke.KEM_P521_HKDF_SHA512, hpke.KEM_X25519_HKDF_SHA256,
		hpke.KEM_X448_HKDF_SHA512, hpke.KEM_X25519_KYBER768_DRAFT00, hpke.KEM_XWING} {
		kid := kid
		sch := kid.Scheme()
		suite := hpke.NewSuite(kid, hpke.KDF_HKDF_SHA256, hpke.AEAD_AES128GCM)
		pkR, skR := sch.DeriveKeyPair(vlib.Bytes(rng, sch.SeedSize()))
		snd, _ := suite.NewSender(pkR, nil)
		enc, sealer, err := snd.Setup(rd)
		must(err)
		add(adapter{name: fmt.Sprintf("hpke.Receiver.Setup[%s]", sch.Name()), covers: []string{"hpke|*Receiver|Setup"}, valid: [][]byte{enc}, cost: 30,
			call: func(b []byte) bool { r, _ := suite.NewReceiver(skR, nil); _, err := r.Setup(b); return err == nil }})
		add(adapter{name: fmt.Sprintf("hpke.Receiver.SetupPSK[%s]", sch.Name()), covers: []string{"hpke|*Receiver|SetupPSK"}, valid: [][]byte{enc}, cost: 30, budget: 400,
			call: func(b []byte) bool {
				r, _ := suite.NewReceiver(skR, nil)
				_, err := r.SetupPSK(b, []byte("0123456789abcdef0123456789abcdef"), []byte("id"))
				return err == nil
			}})
		if _, ok := sch.(kem.AuthScheme); ok && kid != hpke.KEM_X25519_KYBER768_DRAFT00 && kid != hpke.KEM_XWING {
			pkS, skS := sch.DeriveKeyPair(vlib.Bytes(rng, sch.SeedSize()))
			snd2, _ := suite.NewSender(pkR, nil)
			enc2, _, err := snd2.SetupAuth(rd, skS)
			must(err)
			add(adapter{name: fmt.Sprintf("hpke.Receiver.SetupAuth[%s]", sch.Name()), covers: []string{"hpke|*Receiver|SetupAuth"}, valid: [][]byte{enc2}, cost: 30,
				call: func(b []byte) bool {
					r, _ := suite.NewReceiver(skR, nil)
					_, err := r.SetupAuth(b, pkS)
					return err == nil
				}})
			add(adapter{name: fmt.Sprintf("hpke.Receiver.SetupAuthPSK[%s]", sch.Name()), covers: []string{"hpke|*Receiver|SetupAuthPSK"}, valid: [][]byte{enc2}, cost: 30, budget: 400,
				call: func(b []byte) bool {
					r, _ := suite.NewReceiver(skR, nil)
					_, err := r.SetupAuthPSK(b, []byte("0123456789abcdef0123456789abcdef"), []byte("id"), pkS)
					return err == nil
				}})
		}
		if kid == hpke.KEM_X25519_HKDF_SHA256 {
			ms, _ := sealer.MarshalBinary()
			rcv, _ := suite.NewReceiver(skR, nil)
			opener, err := rcv.Setup(enc)
			must(err)
			mo, _ := opener.MarshalBinary()
			ct, _ := sealer.Seal([]byte("plaintext"), []byte("aad"))
			add(adapter{name: "hpke.UnmarshalSealer", covers: []string{"hpke||UnmarshalSealer"}, valid: [][]byte{ms}, cost: 10,
				call: func(b []byte) bool {
					s, err := hpke.UnmarshalSealer(b)
					if err == nil { // a context that was accepted must be usable
						s.Seal([]byte("x"), nil)
						s.Export(nil, 8)
						s.MarshalBinary()
					}
					return err == nil
				}})
			add(adapter{name: "hpke.UnmarshalOpener", covers: []string{"hpke||UnmarshalOpener"}, valid: [][]byte{mo}, cost: 10,
				call: func(b []byte) bool {
					o, err := hpke.UnmarshalOpener(b)
					if err == nil {
						o.Open(ct, []byte("aad"))
						o.Export(nil, 8)
						o.MarshalBinary()
					}
					return err == nil
				}})
			add(adapter{name: "hpke.Opener.Open", covers: []string{"hpke|(*openContext)|Open"}, valid: [][]byte{ct}, cost: 10,
				call: func(b []byte) bool {
					o2, _ := hpke.UnmarshalOpener(mo)
					_, err := o2.Open(b, []byte("aad"))
					return err == nil
				}})
		}
	}

	// ------------------------------------------------------------------ CP-ABE (tkn20)
	{
		pk, msk, err := tkn20.Setup(rd)
		must(err)
		var pol tkn20.Policy
		must(pol.FromString("(country: NL and (tier: 1 or not region: US)) or admin: yes"))
		var at tkn20.Attributes
		at.FromMap(map[string]string{"country": "NL", "tier": "1", "region": "EU"})
		ak, err := msk.KeyGen(rd, at)
		must(err)
		ct, err := pk.Encrypt(rd, pol, []byte("secret message"))
		must(err)
		pkb, _ := pk.MarshalBinary()
		mskb, _ := msk.MarshalBinary()
		akb, _ := ak.MarshalBinary()
		add(adapter{name: "tkn20.PublicKey.UnmarshalBinary", covers: []string{"abe/cpabe/tkn20|*PublicKey|UnmarshalBinary"}, valid: [][]byte{pkb}, cost: 100, budget: 1200,
			call: func(b []byte) bool { var p tkn20.PublicKey; return p.UnmarshalBinary(b) == nil }})
		add(adapter{name: "tkn20.SystemSecretKey.UnmarshalBinary", covers: []string{"abe/cpabe/tkn20|*SystemSecretKey|UnmarshalBinary"}, valid: [][]byte{mskb}, cost: 100, budget: 1200,
			call: func(b []byte) bool { var p tkn20.SystemSecretKey; return p.UnmarshalBinary(b) == nil }})
		add(adapter{name: "tkn20.AttributeKey.UnmarshalBinary", covers: []string{"abe/cpabe/tkn20|*AttributeKey|UnmarshalBinary"}, valid: [][]byte{akb}, cost: 100, budget: 1200,
			call: func(b []byte) bool { var p tkn20.AttributeKey; return p.UnmarshalBinary(b) == nil }})
		add(adapter{name: "tkn20.AttributeKey.Decrypt", covers: []string{"abe/cpabe/tkn20|*AttributeKey|Decrypt"}, valid: [][]byte{ct}, cost: 100, budget: 2500,
			call: func(b []byte) bool { _, err := ak.Decrypt(b); return err == nil }})
		add(adapter{name: "tkn20.Attributes.CouldDecrypt", covers: []string{"abe/cpabe/tkn20|*Attributes|CouldDecrypt"}, valid: [][]byte{ct}, cost: 100, budget: 2500,
			call: func(b []byte) bool { return at.CouldDecrypt(b) }})
		add(adapter{name: "tkn20.Policy.ExtractFromCiphertext", covers: []string{"abe/cpabe/tkn20|*Policy|ExtractFromCiphertext"}, valid: [][]byte{ct}, cost: 100, budget: 2500,
			call: func(b []byte) bool { var p tkn20.Policy; return p.ExtractFromCiphertext(b) == nil }})
		// a policy that was ACCEPTED from untrusted bytes is then used like any other policy (printed, queried, encrypted under): when the
		// mutation changed the policy that use must not panic either
		polStr := pol.String()
		// (the mutated input is the first 256 bytes of the ciphertext - where the policy sits - and the rest is appended unchanged, so that
		// the budget is spent on the policy's fields: every offset there gets every operator)
		const polArea = 256
		add(adapter{name: "tkn20.Policy.ExtractFromCiphertext+use", covers: []string{"abe/cpabe/tkn20|*Policy|ExtractFromCiphertext"}, valid: [][]byte{ct[:polArea]}, cost: 100, budget: 12000,
			call: func(b []byte) bool {
				var p tkn20.Policy
				b = append(append([]byte{}, b...), ct[polArea:]...)
				if p.ExtractFromCiphertext(b) != nil {
					return false
				}
				if p.String() != polStr {
					_ = p.Satisfaction(at)
					_, _ = pk.Encrypt(rd, p, []byte("m"))
				}
				return true
			}})
		add(adapter{name: "tkn20.Policy.FromString", covers: []string{"abe/cpabe/tkn20|*Policy|FromString"}, cost: 1,
			valid: [][]byte{[]byte("(country: NL and (tier: 1 or not region: US)) or admin: yes"), []byte("a:b"), []byte("not (a:b and c:d)")},
			call:  deepCalls["tkn20.Policy.FromString"],
			deep: []func(n int) []byte{
				func(n int) []byte { return []byte(strings.Repeat("(", n) + "a:b" + strings.Repeat(")", n)) },
				func(n int) []byte { return []byte(strings.Repeat("not ", n) + "a:b") },
				func(n int) []byte { return []byte(strings.Repeat("(not ", n) + "a:b" + strings.Repeat(")", n)) },
			}})
	}

	// ------------------------------------------------------------------ BLS, BLS12-381 points and field elements
	{
		sk1, err := bls.KeyGen[bls.G1](vlib.Bytes(rng, 32), nil, nil)
		must(err)
		sk2, _ := bls.KeyGen[bls.G2](vlib.Bytes(rng, 32), nil, nil)
		p1, _ := sk1.PublicKey().MarshalBinary()
		p2, _ := sk2.PublicKey().MarshalBinary()
		s1b, _ := sk1.MarshalBinary()
		msg := []byte("m")
		sg1, sg2 := bls.Sign(sk1, msg), bls.Sign(sk2, msg)
		add(adapter{name: "bls.PublicKey[G1].UnmarshalBinary", covers: []string{"sign/bls|PublicKey|UnmarshalBinary"}, valid: [][]byte{p1}, cost: 30,
			call: func(b []byte) bool { var p bls.PublicKey[bls.G1]; return p.UnmarshalBinary(b) == nil }})
		add(adapter{name: "bls.PublicKey[G2].UnmarshalBinary", covers: []string{"sign/bls|PublicKey|UnmarshalBinary"}, valid: [][]byte{p2}, cost: 30,
			call: func(b []byte) bool { var p bls.PublicKey[bls.G2]; return p.UnmarshalBinary(b) == nil }})
		add(adapter{name: "bls.PrivateKey[G1].UnmarshalBinary", covers: []string{"sign/bls|PrivateKey|UnmarshalBinary"}, valid: [][]byte{s1b}, cost: 10,
			call: func(b []byte) bool { var p bls.PrivateKey[bls.G1]; return p.UnmarshalBinary(b) == nil }})
		add(adapter{name: "bls.Verify[G1](sig)", covers: []string{"sign/bls||Verify"}, valid: [][]byte{sg1}, cost: 100, budget: 600,
			call: func(b []byte) bool { return bls.Verify(sk1.PublicKey(), msg, b) }})
		add(adapter{name: "bls.Verify[G2](sig)", covers: []string{"sign/bls||Verify"}, valid: [][]byte{sg2}, cost: 100, budget: 600,
			call: func(b []byte) bool { return bls.Verify(sk2.PublicKey(), msg, b) }})
		add(adapter{name: "bls.VerifyAggregate[G1](sig)", covers: []string{"sign/bls||VerifyAggregate"}, valid: [][]byte{sg1}, cost: 100, budget: 300,
			call: func(b []byte) bool {
				return bls.VerifyAggregate([]*bls.PublicKey[bls.G1]{sk1.PublicKey()}, [][]byte{msg}, b)
			}})
		add(adapter{name: "bls.Aggregate[G2](sig)", covers: []string{"sign/bls||Aggregate"}, valid: [][]byte{sg2}, cost: 30,
			call: func(b []byte) bool { _, err := bls.Aggregate(bls.G2{}, []bls.Signature{sg2, b}); return err == nil }})
		g1, g2 := bls12381.G1Generator(), bls12381.G2Generator()
		var i1 bls12381.G1
		i1.SetIdentity()
		var i2 bls12381.G2
		i2.SetIdentity()
		add(adapter{name: "bls12381.G1.SetBytes", covers: []string{"ecc/bls12381|*G1|SetBytes"}, valid: [][]byte{g1.Bytes(), g1.BytesCompressed(), i1.Bytes(), i1.BytesCompressed()}, cost: 10,
			call: func(b []byte) bool { var p bls12381.G1; return p.SetBytes(b) == nil }})
		add(adapter{name: "bls12381.G2.SetBytes", covers: []string{"ecc/bls12381|*G2|SetBytes"}, valid: [][]byte{g2.Bytes(), g2.BytesCompressed(), i2.Bytes(), i2.BytesCompressed()}, cost: 30,
			call: func(b []byte) bool { var p bls12381.G2; return p.SetBytes(b) == nil }})
		gt := bls12381.Pair(g1, g2)
		gtb, _ := gt.MarshalBinary()
		add(adapter{name: "bls12381.Gt.UnmarshalBinary", covers: []string{"ecc/bls12381|*Gt|UnmarshalBinary"}, valid: [][]byte{gtb}, cost: 30,
			call: func(b []byte) bool { var p bls12381.Gt; return p.UnmarshalBinary(b) == nil }})
		var fp ff.Fp
		fp.SetUint64(12345)
		fpb, _ := fp.MarshalBinary()
		var sc ff.Scalar
		sc.SetUint64(777)
		scb, _ := sc.MarshalBinary()
		var f2 ff.Fp2
		f2[0], f2[1] = fp, fp
		f2b, _ := f2.MarshalBinary()
		var f6 ff.Fp6
		f6[0], f6[2] = f2, f2
		f6b, _ := f6.MarshalBinary()
		var f12 ff.Fp12
		f12[0], f12[1] = f6, f6
		f12b, _ := f12.MarshalBinary()
		add(adapter{name: "ff.Fp.UnmarshalBinary", covers: []string{"ecc/bls12381/ff|*Fp|UnmarshalBinary"}, valid: [][]byte{fpb}, cost: 1, call: func(b []byte) bool { var x ff.Fp; return x.UnmarshalBinary(b) == nil }})
		add(adapter{name: "ff.Fp.SetBytes", covers: []string{"ecc/bls12381/ff|*Fp|SetBytes"}, valid: [][]byte{fpb}, cost: 1, call: func(b []byte) bool { var x ff.Fp; x.SetBytes(b); return true }})
		add(adapter{name: "ff.Fp.SetString", covers: []string{"ecc/bls12381/ff|*Fp|SetString"}, valid: [][]byte{[]byte("0x1234"), []byte("99999"), []byte(fp.String())}, cost: 1, call: func(b []byte) bool { var x ff.Fp; return x.SetString(string(b)) == nil }})
		add(adapter{name: "ff.Fp2.UnmarshalBinary", covers: []string{"ecc/bls12381/ff|*Fp2|UnmarshalBinary"}, valid: [][]byte{f2b}, cost: 1, call: func(b []byte) bool { var x ff.Fp2; return x.UnmarshalBinary(b) == nil }})
		add(adapter{name: "ff.Fp2.SetString", covers: []string{"ecc/bls12381/ff|*Fp2|SetString"}, valid: [][]byte{[]byte("0x12")}, cost: 1, call: func(b []byte) bool { var x ff.Fp2; return x.SetString(string(b), string(b)) == nil }})
		add(adapter{name: "ff.Fp6.UnmarshalBinary", covers: []string{"ecc/bls12381/ff|*Fp6|UnmarshalBinary"}, valid: [][]byte{f6b}, cost: 1, call: func(b []byte) bool { var x ff.Fp6; return x.UnmarshalBinary(b) == nil }})
		add(adapter{name: "ff.Fp12.UnmarshalBinary", covers: []string{"ecc/bls12381/ff|*Fp12|UnmarshalBinary"}, valid: [][]byte{f12b}, cost: 1, call: func(b []byte) bool { var x ff.Fp12; return x.UnmarshalBinary(b) == nil }})
		add(adapter{name: "ff.URoot.UnmarshalBinary", covers: []string{"ecc/bls12381/ff|*URoot|UnmarshalBinary"}, valid: [][]byte{gtb, f12b}, cost: 10, call: func(b []byte) bool { var x ff.URoot; return x.UnmarshalBinary(b) == nil }})
		add(adapter{name: "ff.Scalar.UnmarshalBinary", covers: []string{"ecc/bls12381/ff|*Scalar|UnmarshalBinary"}, valid: [][]byte{scb}, cost: 1, call: func(b []byte) bool { var x ff.Scalar; return x.UnmarshalBinary(b) == nil }})
		add(adapter{name: "ff.Scalar.SetBytes", covers: []string{"ecc/bls12381/ff|*Scalar|SetBytes"}, valid: [][]byte{scb}, cost: 1, call: func(b []byte) bool { var x ff.Scalar; x.SetBytes(b); return true }})
		add(adapter{name: "ff.Scalar.SetString", covers: []string{"ecc/bls12381/ff|*Scalar|SetString"}, valid: [][]byte{[]byte("0xabcdef"), []byte("12345678901234567890")}, cost: 1, call: func(b []byte) bool { var x ff.Scalar; return x.SetString(string(b)) == nil }})
	}

	// ------------------------------------------------------------------ Goldilocks, CSIDH, SIDH
	{
		var e goldilocks.Curve
		P := e.Generator()
		pb, _ := P.MarshalBinary()
		ib, _ := e.Identity().MarshalBinary()
		add(adapter{name: "goldilocks.FromBytes", covers: []string{"ecc/goldilocks||FromBytes"}, valid: [][]byte{pb, ib}, cost: 10,
			call: func(b []byte) bool { _, err := goldilocks.FromBytes(b); return err == nil }})
		add(adapter{name: "goldilocks.Point.UnmarshalBinary", covers: []string{"ecc/goldilocks|*Point|UnmarshalBinary"}, valid: [][]byte{pb, ib}, cost: 10,
			call: func(b []byte) bool { var q goldilocks.Point; return q.UnmarshalBinary(b) == nil }})
		add(adapter{name: "goldilocks.Scalar.FromBytes", covers: []string{"ecc/goldilocks|*Scalar|FromBytes"}, valid: [][]byte{vlib.Bytes(rng, 56)}, cost: 1,
			call: func(b []byte) bool { var s goldilocks.Scalar; s.FromBytes(b); return true }})
		var prv csidh.PrivateKey
		must(csidh.GeneratePrivateKey(&prv, rd))
		var pub csidh.PublicKey
		csidh.GeneratePublicKey(&pub, &prv, rd)
		prb, pbb := make([]byte, csidh.PrivateKeySize), make([]byte, csidh.PublicKeySize)
		prv.Export(prb)
		pub.Export(pbb)
		add(adapter{name: "csidh.PrivateKey.Import", covers: []string{"dh/csidh|*PrivateKey|Import"}, valid: [][]byte{prb}, cost: 1,
			call: func(b []byte) bool { var k csidh.PrivateKey; return k.Import(b) }})
		add(adapter{name: "csidh.PublicKey.Import", covers: []string{"dh/csidh|*PublicKey|Import"}, valid: [][]byte{pbb}, cost: 1,
			call: func(b []byte) bool { var k csidh.PublicKey; return k.Import(b) }})
		for _, id := range []uint8{sidh.Fp434, sidh.Fp503, sidh.Fp751} {
			id := id
			sk := sidh.NewPrivateKey(id, sidh.KeyVariantSike)
			must(sk.Generate(rd))
			pk := sidh.NewPublicKey(id, sidh.KeyVariantSike)
			sk.GeneratePublicKey(pk)
			skb, pkb := make([]byte, sk.Size()), make([]byte, pk.Size())
			sk.Export(skb)
			pk.Export(pkb)
			add(adapter{name: fmt.Sprintf("sidh.PublicKey.Import[%d]", id), covers: []string{"dh/sidh|*PublicKey|Import"}, valid: [][]byte{pkb}, cost: 10,
				call: func(b []byte) bool { return sidh.NewPublicKey(id, sidh.KeyVariantSike).Import(b) == nil }})
			add(adapter{name: fmt.Sprintf("sidh.PrivateKey.Import[%d]", id), covers: []string{"dh/sidh|*PrivateKey|Import"}, valid: [][]byte{skb}, cost: 10,
				call: func(b []byte) bool { return sidh.NewPrivateKey(id, sidh.KeyVariantSike).Import(b) == nil }})
			if id == sidh.Fp434 {
				k := sidh.NewSike434(rand.Reader)
				ct, ss := make([]byte, k.CiphertextSize()), make([]byte, k.SharedSecretSize())
				must(k.Encapsulate(ct, ss, pk))
				add(adapter{name: "sidh.KEM.Decapsulate[434]", covers: []string{"dh/sidh|*KEM|Decapsulate"}, valid: [][]byte{ct}, cost: 100, budget: 200, exact: len(ct), // documented: panics unless len == CiphertextSize()
					call: func(b []byte) bool {
						k2 := sidh.NewSike434(rand.Reader)
						out := make([]byte, k2.SharedSecretSize())
						return k2.Decapsulate(out, sk, pk, b) == nil
					}})
			}
		}
	}

	// ------------------------------------------------------------------ threshold RSA, blind RSA, Prio3 field vectors, Ascon
	{
		key, err := rsa.GenerateKey(rd, 1024)
		must(err)
		shares, err := trsa.Deal(rd, 3, 2, key, true)
		must(err)
		ksb, _ := shares[0].MarshalBinary()
		padded, _ := trsa.PadHash(&trsa.PKCS1v15Padder{}, crypto.SHA256, &key.PublicKey, []byte("m"))
		ss, err := shares[0].Sign(nil, &key.PublicKey, padded, false)
		must(err)
		ssb, _ := ss.MarshalBinary()
		add(adapter{name: "tss/rsa.KeyShare.UnmarshalBinary", covers: []string{"tss/rsa|*KeyShare|UnmarshalBinary"}, valid: [][]byte{ksb}, cost: 1,
			call: func(b []byte) bool { var k trsa.KeyShare; return k.UnmarshalBinary(b) == nil }})
		add(adapter{name: "tss/rsa.SignShare.UnmarshalBinary", covers: []string{"tss/rsa|*SignShare|UnmarshalBinary"}, valid: [][]byte{ssb}, cost: 1,
			call: func(b []byte) bool { var k trsa.SignShare; return k.UnmarshalBinary(b) == nil }})
		add(adapter{name: "tss/rsa.CombineSignShares(unmarshalled share)", covers: []string{"tss/rsa||CombineSignShares"}, valid: [][]byte{ssb}, cost: 30, budget: 600,
			call: func(b []byte) bool {
				var k trsa.SignShare
				if k.UnmarshalBinary(b) != nil {
					_, err := trsa.CombineSignShares(&key.PublicKey, nil, padded) // and the empty list
					return err == nil
				}
				_, err := trsa.CombineSignShares(&key.PublicKey, []trsa.SignShare{k, ss}, padded)
				return err == nil
			}})
		signer := blindrsa.NewSigner(key)
		client, err := blindrsa.NewClient(blindrsa.SHA384PSSRandomized, &key.PublicKey)
		must(err)
		prep, _ := client.Prepare(rd, []byte("msg"))
		blinded, state, err := client.Blind(rd, prep)
		must(err)
		bs, err := signer.BlindSign(blinded)
		must(err)
		sig, err := client.Finalize(state, bs)
		must(err)
		add(adapter{name: "blindrsa.Signer.BlindSign", covers: []string{"blindsign/blindrsa|Signer|BlindSign"}, valid: [][]byte{blinded}, cost: 100, budget: 300,
			call: func(b []byte) bool { _, err := signer.BlindSign(b); return err == nil }})
		add(adapter{name: "blindrsa.Client.Finalize", covers: []string{"blindsign/blindrsa|Client|Finalize"}, valid: [][]byte{bs}, cost: 30, budget: 600,
			call: func(b []byte) bool { _, err := client.Finalize(state, b); return err == nil }})
		add(adapter{name: "blindrsa.Client.Verify(sig)", covers: []string{"blindsign/blindrsa|Client|Verify", "blindsign/blindrsa|Verifier|Verify"}, valid: [][]byte{sig}, cost: 30, budget: 600,
			call: func(b []byte) bool { return client.Verify(prep, b) == nil }})
		v64 := make(fp64.Vec, 5)
		v64b, _ := v64.MarshalBinary()
		v128 := make(fp128.Vec, 5)
		v128b, _ := v128.MarshalBinary()
		add(adapter{name: "fp64.Vec.UnmarshalBinary", covers: []string{"vdaf/prio3/arith/fp64|Vec|UnmarshalBinary"}, valid: [][]byte{v64b}, cost: 1,
			call: func(b []byte) bool { v := make(fp64.Vec, 5); return v.UnmarshalBinary(b) == nil }})
		add(adapter{name: "fp128.Vec.UnmarshalBinary", covers: []string{"vdaf/prio3/arith/fp128|Vec|UnmarshalBinary"}, valid: [][]byte{v128b}, cost: 1,
			call: func(b []byte) bool { v := make(fp128.Vec, 5); return v.UnmarshalBinary(b) == nil }})
		add(adapter{name: "fp64.Fp.UnmarshalBinary", covers: []string{"vdaf/prio3/arith/fp64|*Fp|UnmarshalBinary"}, valid: [][]byte{v64b[:8]}, cost: 1,
			call: func(b []byte) bool { var x fp64.Fp; return x.UnmarshalBinary(b) == nil }})
		add(adapter{name: "fp128.Fp.UnmarshalBinary", covers: []string{"vdaf/prio3/arith/fp128|*Fp|UnmarshalBinary"}, valid: [][]byte{v128b[:16]}, cost: 1,
			call: func(b []byte) bool { var x fp128.Fp; return x.UnmarshalBinary(b) == nil }})
		akey, nonce := vlib.Bytes(rng, 16), vlib.Bytes(rng, 16)
		ac, err := ascon.New(akey, ascon.Ascon128)
		must(err)
		act := ac.Seal(nil, nonce, []byte("plaintext plaintext"), []byte("ad"))
		add(adapter{name: "ascon.Open(ct)", covers: []string{"cipher/ascon|*Cipher|Open"}, valid: [][]byte{act}, cost: 1,
			call: func(b []byte) bool { _, err := ac.Open(nil, nonce, b, []byte("ad")); return err == nil }})
		add(adapter{name: "ascon.New(key)", covers: []string{"cipher/ascon||New"}, valid: [][]byte{akey}, cost: 1,
			call: func(b []byte) bool { _, err := ascon.New(b, ascon.Ascon128); return err == nil }})
	}
	_ = sign.SignatureOpts{}
	return ads
}

// deepCalls: the entry points that get deeply nested inputs, callable without building every adapter's valid encodings (child processes)
var deepCalls = map[string]func(b []byte) bool{
	"tkn20.Policy.FromString": func(b []byte) bool { var p tkn20.Policy; return p.FromString(string(b)) == nil },
}
