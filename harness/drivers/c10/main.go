// Driver for C10: every exported operation that takes bytes from an untrusted party and can report failure is
// wrapped in an adapter; each adapter is fed the mutation classes of spec/C10/Codec.tla applied to valid
// encodings (every truncation, length-field-shaped window overwrites at every offset, extensions, bit flips,
// degenerate strings) under recover and a deadline.  Outcomes are recorded per (adapter, mutation class).
package main

import (
	"bytes"
	"context"
	"encoding/binary"
	"flag"
	"fmt"
	"os"
	"os/exec"
	"path/filepath"
	"sort"
	"sync"
	"time"

	"github.com/cloudflare/circl/zzverif/vlib"
)

type adapter struct {
	name   string
	covers []string // scanner ids "pkg|recv|func" this adapter exercises
	valid  [][]byte
	call   func(b []byte) bool  // returns whether the input was accepted; must never panic
	exact  int                  // >0: entry point documents a panic for any other length; only this length is supplied
	cost   int                  // relative cost per call (1 = microseconds, 100 = tens of milliseconds)
	budget int                  // max inputs (0 = default by cost)
	deep   []func(n int) []byte // generators of deeply nested inputs (recursive-descent parsers); each is run in a child process,
	// because running out of stack is a fatal error that recover() cannot catch
}

type line struct {
	Ev       string `json:"ev"`
	Adapter  string `json:"adapter"`
	Class    string `json:"class"`
	Total    int    `json:"total"`
	Accepted int    `json:"accepted"`
	Rejected int    `json:"rejected"`
	Panics   int    `json:"panics"`
	Timeouts int    `json:"timeouts"`
	Note     string `json:"note"`
	Input    string `json:"input"` // hex of the first panicking input (truncated)
	InLen    int    `json:"inlen"`
}

type mut struct {
	class string
	b     []byte
}

func capIdx(n, max int, rng interface{ Intn(int) int }) []int {
	if n <= max {
		o := make([]int, n)
		for i := range o {
			o[i] = i
		}
		return o
	}
	seen := map[int]bool{}
	var o []int
	add := func(i int) {
		if i >= 0 && i < n && !seen[i] {
			seen[i] = true
			o = append(o, i)
		}
	}
	for i := 0; i < max/3; i++ {
		add(i)
	}
	for i := n - max/6; i < n; i++ {
		add(i)
	}
	for len(o) < max {
		add(rng.Intn(n))
	}
	sort.Ints(o)
	return o
}

// mutations of one valid encoding v, following the operator classes of Codec.tla
func mutations(v []byte, rng interface {
	Intn(int) int
	Read([]byte) (int, error)
}, scale int, exact int) []mut {
	var ms []mut
	L := len(v)
	add := func(c string, b []byte) {
		if exact > 0 && len(b) != exact {
			return
		}
		ms = append(ms, mut{c, b})
	}
	add("valid", append([]byte{}, v...))
	add("degenerate", nil)
	add("degenerate", []byte{})
	for _, b := range []byte{0x00, 0x01, 0x30, 0x7f, 0x80, 0xc0, 0xff} {
		add("degenerate", []byte{b})
	}
	for _, n := range []int{L - 16, L - 1, L, L + 1, L + 16, 2 * L} {
		if n > 0 {
			add("degenerate", make([]byte, n))
			add("degenerate", bytes.Repeat([]byte{0xff}, n))
			r := make([]byte, n)
			rng.Read(r)
			add("random", r)
		}
	}
	for _, n := range capIdx(L, 160*scale, rng) {
		add("truncate", append([]byte{}, v[:n]...))
	}
	for _, e := range []int{1, 2, 16, L} {
		x := make([]byte, e)
		rng.Read(x)
		add("append", append(append([]byte{}, v...), x...))
		add("append", append(append([]byte{}, v...), make([]byte, e)...))
	}
	if L > 0 {
		add("append", append(append([]byte{}, v...), v...))
		add("prepend", append([]byte{0}, v...))
		add("prepend", append([]byte{0xff}, v...))
		add("drop-prefix", append([]byte{}, v[1:]...))
	}
	// window overwrites: every offset is treated as a potential length / count / tag field
	for _, off := range capIdx(L, 140*scale, rng) {
		for _, p := range []byte{0x00, 0x01, 0x7f, 0x80, 0xff} {
			c := append([]byte{}, v...)
			if c[off] != p {
				c[off] = p
				add("window1", c)
			}
		}
		if off+2 <= L {
			rem := L - off - 2
			pats := [][]byte{{0xff, 0xff}, {0, 0}, {0xff, 0x7f}, {0x7f, 0xff}, {1, 0}, {0, 1}}
			for _, d := range []int{-1, 1} {
				if rem+d >= 0 && rem+d < 65536 {
					le, be := make([]byte, 2), make([]byte, 2)
					binary.LittleEndian.PutUint16(le, uint16(rem+d))
					binary.BigEndian.PutUint16(be, uint16(rem+d))
					pats = append(pats, le, be)
				}
			}
			for _, p := range pats {
				c := append([]byte{}, v...)
				copy(c[off:], p)
				add("window2", c)
			}
		}
		if off+4 <= L && off%2 == 0 {
			rem := L - off - 4
			pats := [][]byte{{0xff, 0xff, 0xff, 0xff}, {0, 0, 0, 0}, {0xff, 0xff, 0xff, 0x7f}, {0x7f, 0xff, 0xff, 0xff}, {0, 0, 0, 0x80}}
			le, be := make([]byte, 4), make([]byte, 4)
			binary.LittleEndian.PutUint32(le, uint32(rem+1))
			binary.BigEndian.PutUint32(be, uint32(rem+1))
			pats = append(pats, le, be)
			for _, p := range pats {
				c := append([]byte{}, v...)
				copy(c[off:], p)
				add("window4", c)
			}
		}
	}
	for i := 0; i < 64*scale && L > 0; i++ {
		c := append([]byte{}, v...)
		for k := 0; k <= i%3; k++ {
			c[rng.Intn(L)] ^= 1 << uint(rng.Intn(8))
		}
		add("bitflip", c)
	}
	// the tail rewritten as a strictly increasing ramp whose last bytes exceed the tail's own length: sorted index lists followed by counts
	// (hint encodings, offset tables) pass every "is it increasing" test and point past the end
	for _, T := range []int{8, 16, 32, 61, 64, 83, 84, 96, 128} {
		if T+1 > L || T+9 > 255 {
			continue
		}
		c := append([]byte{}, v...)
		t := c[L-T:]
		for i := 0; i < T; i++ {
			t[i] = byte(i)
		}
		for j := 0; j < 8 && j < T; j++ {
			t[T-8+j] = byte(T + 1 + j)
		}
		add("tail-ramp", c)
	}
	// a 16-bit length field near its maximum AND enough bytes behind it to satisfy it: 16-bit offset arithmetic (8 + len) wraps
	for _, off := range []int{0, 2, 4, 6, 8, 10, 12, 16, 20, 24, 32} {
		if off+2 > L {
			continue
		}
		for _, p := range [][]byte{{0xff, 0xff}, {0xff, 0xf8}} {
			for _, extra := range []int{0, 9} {
				c := append([]byte{}, v[:off+2]...)
				copy(c[off:], p)
				rest := make([]byte, 65535+extra)
				copy(rest, v[off+2:])
				if extra == 9 {
					rng.Read(rest[minInt(len(rest), L):])
				}
				add("window+extend", append(c, rest...))
			}
		}
	}
	// combined: truncate AND overwrite a window in the head (length field larger than what is left)
	for i := 0; i < 40*scale && L > 8; i++ {
		n := 4 + rng.Intn(L-4)
		c := append([]byte{}, v[:n]...)
		off := rng.Intn(minInt(n-1, 64))
		c[off], c[off+1] = 0xff, byte(rng.Intn(256))
		add("truncate+window", c)
	}
	return ms
}

func minInt(a, b int) int {
	if a < b {
		return a
	}
	return b
}

func main() {
	out := flag.String("out", "trace.ndjson", "")
	seed := flag.Int64("seed", 1, "")
	scale := flag.Int("scale", 1, "")
	only := flag.String("only", "", "run only adapters whose name contains this")
	list := flag.Bool("list", false, "print adapter names and covered entry points")
	replay := flag.String("replay", "", "adapter name to replay one input (-input hex)")
	input := flag.String("input", "", "")
	oneshot := flag.String("oneshot", "", "adapter name: read the input from -inputfile, call the adapter once, exit 0 (child process of the deep-nesting class)")
	inputfile := flag.String("inputfile", "", "")
	flag.Parse()
	if *oneshot != "" {
		b, err := os.ReadFile(*inputfile)
		call := deepCalls[*oneshot]
		if err != nil || call == nil {
			os.Exit(3)
		}
		func() {
			defer func() {
				if r := recover(); r != nil {
					fmt.Fprintf(os.Stderr, "panic: %v\n", r)
					os.Exit(4)
				}
			}()
			call(b)
		}()
		os.Exit(0)
	}
	ads := allAdapters(*seed)
	if *list {
		for _, a := range ads {
			for _, c := range a.covers {
				fmt.Printf("%s\t%s\n", a.name, c)
			}
		}
		return
	}
	if *replay != "" {
		for _, a := range ads {
			if a.name == *replay {
				oc := vlib.Safe(20*time.Second, func() { a.call(vlib.UnHex(*input)) })
				fmt.Printf("panic=%q timeout=%v\n", oc.Panic, oc.Timeout)
			}
		}
		return
	}
	o := vlib.Create(*out)
	defer o.Close()
	var mu sync.Mutex
	var wg sync.WaitGroup
	sem := make(chan struct{}, 16)
	for _, a := range ads {
		if *only != "" && !bytes.Contains([]byte(a.name), []byte(*only)) {
			continue
		}
		a := a
		wg.Add(1)
		sem <- struct{}{}
		go func() {
			defer func() { <-sem; wg.Done() }()
			rng := vlib.Rng(*seed, "c10"+a.name)
			agg := map[string]*line{}
			order := []string{}
			budget := a.budget
			if budget == 0 {
				switch {
				case a.cost >= 100:
					budget = 500 * *scale
				case a.cost >= 10:
					budget = 3000 * *scale
				default:
					budget = 1 << 30
				}
			}
			var all []mut
			for _, v := range a.valid {
				all = append(all, mutations(v, rng, *scale, a.exact)...)
			}
			if len(all) > budget { // keep every class represented
				rng.Shuffle(len(all), func(i, j int) { all[i], all[j] = all[j], all[i] })
				all = all[:budget]
			}
			for _, m := range all {
				ln := agg[m.class]
				if ln == nil {
					ln = &line{Ev: "mut", Adapter: a.name, Class: m.class}
					agg[m.class] = ln
					order = append(order, m.class)
				}
				ln.Total++
				var acc bool
				oc := vlib.Safe(15*time.Second, func() { acc = a.call(m.b) })
				switch {
				case oc.Timeout:
					ln.Timeouts++
					if ln.Note == "" {
						ln.Note, ln.Input, ln.InLen = "no return within 15 s", vlib.Hex(m.b[:minInt(len(m.b), 4000)]), len(m.b)
					}
				case oc.Panic != "":
					ln.Panics++
					if ln.Note == "" {
						ln.Note, ln.Input, ln.InLen = oc.Panic, vlib.Hex(m.b[:minInt(len(m.b), 4000)]), len(m.b)
					}
				case acc:
					ln.Accepted++
				default:
					ln.Rejected++
				}
			}
			// deeply nested inputs, one child process each
			for gi, gen := range a.deep {
				for _, n := range []int{10000, 1000000} {
					ln := agg["deep-nesting"]
					if ln == nil {
						ln = &line{Ev: "mut", Adapter: a.name, Class: "deep-nesting"}
						agg["deep-nesting"] = ln
						order = append(order, "deep-nesting")
					}
					ln.Total++
					f, err := os.CreateTemp(filepath.Dir(*out), "deep-*.bin")
					if err != nil {
						vlib.Die("temp file: %v", err)
					}
					in := gen(n)
					_, _ = f.Write(in)
					f.Close()
					ctx, cancel := context.WithTimeout(context.Background(), 120*time.Second)
					cmd := exec.CommandContext(ctx, os.Args[0], "-oneshot", a.name, "-inputfile", f.Name(), "-seed", fmt.Sprint(*seed))
					var stderr bytes.Buffer
					cmd.Stderr = &stderr
					err = cmd.Run()
					timedOut := ctx.Err() == context.DeadlineExceeded
					cancel()
					os.Remove(f.Name())
					switch {
					case timedOut:
						ln.Timeouts++
						if ln.Note == "" {
							ln.Note, ln.InLen = fmt.Sprintf("generator %d, depth %d: no return within 120 s", gi, n), len(in)
						}
					case err != nil:
						ln.Panics++
						if ln.Note == "" {
							msg := stderr.String()
							if len(msg) > 300 {
								msg = msg[:300]
							}
							ln.Note, ln.InLen = fmt.Sprintf("generator %d, depth %d: the process died: %v: %s", gi, n, err, msg), len(in)
						}
					default:
						ln.Rejected++
					}
				}
			}
			sort.Strings(order)
			mu.Lock()
			for _, c := range order {
				o.Emit(*agg[c])
			}
			mu.Unlock()
		}()
	}
	wg.Wait()
	fmt.Printf("adapters=%d lines=%d\n", len(ads), o.N)
}
