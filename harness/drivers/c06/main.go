// Driver for C06: X25519 / X448 on edge-biased scalars and peer values (non-canonical u, ignored top bit, twist points,
// small order, limb corner patterns) against an independent math/big transcription of RFC 7748, the flag rule, the
// equivalence of aliased encodings, two-party agreement, key generation = function of the base point, and the KEM
// wrappers' treatment of a false flag.  A sample of the (k, u, out) triples is written as jobs for spec/C06/MontJobs.tla,
// where TLC recomputes RFC 7748 itself.
package main

import (
	"bytes"
	"encoding/binary"
	"encoding/hex"
	"flag"
	"fmt"
	"math/big"
	"math/rand"

	"github.com/cloudflare/circl/dh/x25519"
	"github.com/cloudflare/circl/dh/x448"
	"github.com/cloudflare/circl/hpke"
	"github.com/cloudflare/circl/kem"
	"github.com/cloudflare/circl/kem/hybrid"
	"github.com/cloudflare/circl/kem/xwing"
	"github.com/cloudflare/circl/zzverif/terms"
	"github.com/cloudflare/circl/zzverif/vlib"
)

type line struct {
	Ev    string `json:"ev"`
	Curve string `json:"curve"`
	Op    string `json:"op"`
	Class string `json:"class"`
	K     []int  `json:"k"`
	U     []int  `json:"u"`
	Out   []int  `json:"out"`
	Ref   []int  `json:"ref"`
	Ok    bool   `json:"ok"`
	// alias: two encodings of the same field element (digits, quotient hints) and the two outputs
	Ua   []int `json:"ua"`
	Ub   []int `json:"ub"`
	Qa   []int `json:"qa"`
	Qb   []int `json:"qb"`
	OutB []int `json:"outb"`
	// kem
	Kem   string `json:"kem"`
	Site  string `json:"site"`
	Err   bool   `json:"err"`
	XWing bool   `json:"xwing"`
	Note  string `json:"note"`
}

type job struct {
	Curve string `json:"curve"`
	K     []int  `json:"k"`
	U     []int  `json:"u"`
	Want  []int  `json:"want"`
	Class string `json:"class"`
}

func ints(b []byte) []int {
	o := make([]int, len(b))
	for i := range b {
		o[i] = int(b[i])
	}
	return o
}

func fix(l line) line {
	for _, p := range []*[]int{&l.K, &l.U, &l.Out, &l.Ref, &l.Ua, &l.Ub, &l.Qa, &l.Qb, &l.OutB} {
		if *p == nil {
			*p = []int{}
		}
	}
	return l
}

func shared(curve string, k, u []byte) ([]byte, bool) {
	if curve == "x25519" {
		var s, a, b x25519.Key
		copy(a[:], k)
		copy(b[:], u)
		ok := x25519.Shared(&s, &a, &b)
		return s[:], ok
	}
	var s, a, b x448.Key
	copy(a[:], k)
	copy(b[:], u)
	ok := x448.Shared(&s, &a, &b)
	return s[:], ok
}

func keygen(curve string, k []byte) []byte {
	if curve == "x25519" {
		var p, a x25519.Key
		copy(a[:], k)
		x25519.KeyGen(&p, &a)
		return p[:]
	}
	var p, a x448.Key
	copy(a[:], k)
	x448.KeyGen(&p, &a)
	return p[:]
}

func ref(curve string, k, u []byte) []byte {
	if curve == "x25519" {
		return terms.X25519(k, u)
	}
	return terms.X448(k, u)
}

func le(x *big.Int, n int) []byte { return vlib.ToLE(x, n) }

type named struct {
	class string
	b     []byte
}

func peers(curve string, rng *rand.Rand, nrand int) []named {
	n, p := 32, terms.P25519
	if curve == "x448" {
		n, p = 56, terms.P448
	}
	var out []named
	add := func(class string, x *big.Int) {
		if x.Sign() >= 0 && x.BitLen() <= 8*n {
			out = append(out, named{class, le(x, n)})
		}
	}
	for d := int64(-3); d <= 3; d++ {
		add("small", big.NewInt(d))
		add("near-p", new(big.Int).Add(p, big.NewInt(d)))
		add("near-2p", new(big.Int).Add(new(big.Int).Lsh(p, 1), big.NewInt(d)))
		add("near-2^n", new(big.Int).Add(new(big.Int).Lsh(big.NewInt(1), uint(8*n)), big.NewInt(d)))
		add("near-2^(n-1)", new(big.Int).Add(new(big.Int).Lsh(big.NewInt(1), uint(8*n-1)), big.NewInt(d)))
	}
	if curve == "x25519" {
		for _, h := range []string{"e0eb7a7c3b41b8ae1656e3faf19fc46ada098deb9c32b1fd866205165f49b800", "5f9c95bca3508c24b1d0b1559c83ef5b04445cc4581c8e86d8224eddd09f1157"} {
			lo := vlib.FromLE(vlib.UnHex(h))
			add("order-8", lo)
			add("order-8+p", new(big.Int).Add(lo, p))
			add("order-8+2^255", new(big.Int).Add(lo, new(big.Int).Lsh(big.NewInt(1), 255)))
		}
		for d := int64(0); d <= 20; d++ { // 2^255-19 + small: non-canonical encodings of 0..20, with and without the ignored bit
			add("p+small", new(big.Int).Add(p, big.NewInt(d)))
			add("p+small+2^255", new(big.Int).Add(new(big.Int).Add(p, big.NewInt(d)), new(big.Int).Lsh(big.NewInt(1), 255)))
		}
	}
	add("all-ones", new(big.Int).Sub(new(big.Int).Lsh(big.NewInt(1), uint(8*n)), big.NewInt(1)))
	// limb corner patterns: low limb(s) all ones, single limbs, alternating
	for l := 1; l <= n/8; l++ {
		add("low-limbs-ones", new(big.Int).Sub(new(big.Int).Lsh(big.NewInt(1), uint(64*l)), big.NewInt(1)))
		add("one-limb", new(big.Int).Lsh(new(big.Int).SetUint64(^uint64(0)), uint(64*(l-1))))
		add("limb-boundary", new(big.Int).Lsh(big.NewInt(1), uint(64*l-1)))
	}
	for i := 0; i < nrand; i++ {
		b := make([]byte, n)
		for j := 0; j+8 <= n; j += 8 {
			v := []uint64{0, 1, ^uint64(0), ^uint64(0) - 1, 1 << 63, 1<<63 - 1, rng.Uint64(), rng.Uint64()}[rng.Intn(8)]
			binary.LittleEndian.PutUint64(b[j:], v)
		}
		out = append(out, named{"structured", b})
		out = append(out, named{"random", vlib.Bytes(rng, n)})
	}
	return out
}

func scalars(curve string, rng *rand.Rand, nrand int) []named {
	n := 32
	if curve == "x448" {
		n = 56
	}
	var out []named
	z := make([]byte, n)
	out = append(out, named{"zero", z})
	o := make([]byte, n)
	o[0] = 1
	out = append(out, named{"one", o})
	out = append(out, named{"all-ones", bytes.Repeat([]byte{0xff}, n)})
	for _, b0 := range []byte{7, 8, 248, 3, 4, 252} { // clamping-sensitive first byte
		b := make([]byte, n)
		b[0] = b0
		b[n-1] = 0x40
		out = append(out, named{"clamp-low", b})
	}
	for _, bl := range []byte{0x00, 0x3f, 0x40, 0x7f, 0x80, 0xc0, 0xff} { // clamping-sensitive last byte
		b := vlib.Bytes(rng, n)
		b[n-1] = bl
		out = append(out, named{"clamp-high", b})
	}
	if curve == "x448" {
		// 4q, q the order of the prime subgroup: clamping leaves it unchanged and it sends EVERY point of the curve to the identity,
		// so the output is all zero although the peer value is not of low order
		q4, _ := hex.DecodeString("cc1361ad4a0ae38d543d1637ca09b38540da58bb266d3b11a78f28f3fdffffffffffffffffffffffffffffffffffffffffffffffffffffff")
		out = append(out, named{"4q", q4})
		b := append([]byte{}, q4...)
		b[0] |= 3 // the same after clamping
		out = append(out, named{"4q+3", b})
	}
	for i := 0; i < nrand; i++ {
		out = append(out, named{"random", vlib.Bytes(rng, n)})
	}
	return out
}

func main() {
	out := flag.String("out", "trace.ndjson", "")
	jobsOut := flag.String("jobs", "jobs.json", "")
	seed := flag.Int64("seed", 1, "")
	thorough := flag.Bool("thorough", false, "")
	nj25519 := flag.Int("jobs25519", 6, "")
	nj448 := flag.Int("jobs448", 2, "")
	flag.Parse()
	rng := vlib.Rng(*seed, "c06")
	o := vlib.Create(*out)
	defer o.Close()
	var jobs []job
	nr := 6
	if *thorough {
		nr = 40
	}
	for _, curve := range []string{"x25519", "x448"} {
		n, p, base := 32, terms.P25519, make([]byte, 32)
		base[0] = 9
		if curve == "x448" {
			n, p, base = 56, terms.P448, terms.X448Base()
		}
		ps, ss := peers(curve, rng, nr), scalars(curve, rng, nr)
		var pool []job
		for pi, u := range ps {
			// every peer value with a few scalars; every scalar with a few peer values
			for si, k := range ss {
				if !*thorough && (pi+si)%5 != 0 && si > 2 && pi > 4 {
					continue
				}
				got, ok := shared(curve, k.b, u.b)
				l := line{Ev: "dh", Curve: curve, Op: "shared", Class: u.class + "/" + k.class, K: ints(k.b), U: ints(u.b), Out: ints(got), Ok: ok, Ref: ints(ref(curve, k.b, u.b))}
				o.Emit(fix(l))
				pool = append(pool, job{curve, ints(k.b), ints(u.b), ints(got), u.class})
			}
			// aliases of this peer value: u + p, u + 2p, (X25519) u with the top bit flipped
			uu := vlib.FromLE(u.b)
			k := ss[len(ss)-1-pi%3].b
			got, _ := shared(curve, k, u.b)
			alts := []*big.Int{new(big.Int).Add(uu, p), new(big.Int).Add(uu, new(big.Int).Lsh(p, 1)), new(big.Int).Sub(uu, p)}
			if curve == "x25519" {
				alts = append(alts, new(big.Int).Xor(uu, new(big.Int).Lsh(big.NewInt(1), 255)))
			}
			for _, a := range alts {
				if a.Sign() < 0 || a.BitLen() > 8*n {
					continue
				}
				ab := le(a, n)
				gotB, _ := shared(curve, k, ab)
				m1, m2 := new(big.Int).Set(uu), new(big.Int).Set(a)
				if curve == "x25519" { // the top bit is not part of the value
					m1.SetBit(m1, 255, 0)
					m2.SetBit(m2, 255, 0)
				}
				if new(big.Int).Mod(m1, p).Cmp(new(big.Int).Mod(m2, p)) != 0 {
					continue // not an alias once the ignored bit is removed
				}
				o.Emit(fix(line{Ev: "alias", Curve: curve, Class: u.class, K: ints(k), U: ints(u.b), Ua: vlib.Digits(m1), Ub: vlib.Digits(m2),
					Qa: vlib.Quot(m1, p), Qb: vlib.Quot(m2, p), Out: ints(got), OutB: ints(gotB)}))
			}
		}
		for _, k := range ss {
			pub := keygen(curve, k.b)
			o.Emit(fix(line{Ev: "dh", Curve: curve, Op: "keygen", Class: "base/" + k.class, K: ints(k.b), U: ints(base), Out: ints(pub), Ok: true, Ref: ints(ref(curve, k.b, base))}))
			pool = append(pool, job{curve, ints(k.b), ints(base), ints(pub), "keygen"})
		}
		// two parties
		for i := 0; i < 2*nr; i++ {
			a, b := ss[rng.Intn(len(ss))].b, ss[rng.Intn(len(ss))].b
			pa, pb := keygen(curve, a), keygen(curve, b)
			sab, ok1 := shared(curve, a, pb)
			sba, ok2 := shared(curve, b, pa)
			o.Emit(fix(line{Ev: "pair", Curve: curve, K: ints(a), U: ints(b), Out: ints(sab), OutB: ints(sba), Ok: ok1 && ok2}))
		}
		// jobs for TLC: the classes that matter first, then random ones
		want := *nj25519
		if curve == "x448" {
			want = *nj448
		}
		rng.Shuffle(len(pool), func(i, j int) { pool[i], pool[j] = pool[j], pool[i] })
		seen := map[string]bool{}
		for pass := 0; pass < 2 && want > 0; pass++ {
			for _, j := range pool {
				if want == 0 {
					break
				}
				if pass == 0 && (seen[j.Class] || j.Class == "random" || j.Class == "small") {
					continue
				}
				if pass == 1 && seen[fmt.Sprint(j.K, j.U)] {
					continue
				}
				seen[j.Class], seen[fmt.Sprint(j.K, j.U)] = true, true
				jobs = append(jobs, j)
				want--
			}
		}
	}
	// ---- KEM wrappers: a false flag must become an error (X-Wing, by its specification, does not check)
	type wrap struct {
		name  string
		sch   kem.Scheme
		xsize int
		atEnd bool
		xwing bool
	}
	ws := []wrap{{"HPKE X25519", hpke.KEM_X25519_HKDF_SHA256.Scheme(), 32, false, false}, {"HPKE X448", hpke.KEM_X448_HKDF_SHA512.Scheme(), 56, false, false},
		{"Kyber512-X25519", hybrid.Kyber512X25519(), 32, false, false}, {"Kyber768-X25519", hybrid.Kyber768X25519(), 32, false, false},
		{"Kyber768-X448", hybrid.Kyber768X448(), 56, false, false}, {"Kyber1024-X448", hybrid.Kyber1024X448(), 56, false, false},
		{"X25519MLKEM768", hybrid.X25519MLKEM768(), 32, true, false}, {"X-Wing", xwing.Scheme(), 32, true, true},
		{"HPKE X25519Kyber768", hpke.KEM_X25519_KYBER768_DRAFT00.Scheme(), 32, false, false}, {"HPKE X-Wing", hpke.KEM_XWING.Scheme(), 32, true, true}}
	low := map[int][][]byte{32: {make([]byte, 32), append([]byte{1}, make([]byte, 31)...), vlib.UnHex("e0eb7a7c3b41b8ae1656e3faf19fc46ada098deb9c32b1fd866205165f49b800"),
		vlib.UnHex("ecffffffffffffffffffffffffffffffffffffffffffffffffffffffffffff7f"), vlib.UnHex("edffffffffffffffffffffffffffffffffffffffffffffffffffffffffffff7f"),
		vlib.UnHex("eeffffffffffffffffffffffffffffffffffffffffffffffffffffffffffff7f"), vlib.UnHex("edffffffffffffffffffffffffffffffffffffffffffffffffffffffffffffff")},
		56: {make([]byte, 56), append([]byte{1}, make([]byte, 55)...), le(new(big.Int).Sub(terms.P448, big.NewInt(1)), 56), le(terms.P448, 56), le(new(big.Int).Add(terms.P448, big.NewInt(1)), 56)}}
	for _, w := range ws {
		pk, sk := w.sch.DeriveKeyPair(vlib.Bytes(rng, w.sch.SeedSize()))
		pkb, _ := pk.MarshalBinary()
		es := vlib.Bytes(rng, w.sch.EncapsulationSeedSize())
		ct, _, err := w.sch.EncapsulateDeterministically(pk, es)
		o.Emit(fix(line{Ev: "kem", Kem: w.name, Site: "honest", Op: "encapsulate", Err: err != nil, XWing: w.xwing}))
		_, err = w.sch.Decapsulate(sk, ct)
		o.Emit(fix(line{Ev: "kem", Kem: w.name, Site: "honest", Op: "decapsulate", Err: err != nil, XWing: w.xwing}))
		put := func(dst []byte, v []byte) []byte {
			b := append([]byte{}, dst...)
			if w.atEnd {
				copy(b[len(b)-w.xsize:], v)
			} else {
				copy(b[:w.xsize], v)
			}
			return b
		}
		for i, lo := range low[w.xsize] {
			site := fmt.Sprintf("low-order-peer#%d", i)
			l := line{Ev: "kem", Kem: w.name, Site: site, Op: "encapsulate", XWing: w.xwing}
			bad, err := w.sch.UnmarshalBinaryPublicKey(put(pkb, lo))
			if err != nil {
				l.Err, l.Note = true, "refused at key decoding"
			} else {
				oc := vlib.Safe(60e9, func() { _, _, err = w.sch.EncapsulateDeterministically(bad, es) })
				l.Err = err != nil || oc.Bad()
				if oc.Bad() {
					l.Note = "panic: " + oc.Panic
				}
			}
			o.Emit(fix(l))
			l = line{Ev: "kem", Kem: w.name, Site: site, Op: "decapsulate", XWing: w.xwing}
			oc := vlib.Safe(60e9, func() { _, err = w.sch.Decapsulate(sk, put(ct, lo)) })
			l.Err = err != nil || oc.Bad()
			if oc.Bad() {
				l.Note = "panic: " + oc.Panic
			}
			o.Emit(fix(l))
		}
	}
	// ---- the authenticated modes of the HPKE DHKEMs use two Diffie-Hellman values: a false flag on EITHER is an error (sender identity
	// of low order at the receiver, recipient key of low order at the sender), and so is the all-zero value a 4q secret produces (X448)
	for _, w := range ws[:2] {
		as, ok := w.sch.(kem.AuthScheme)
		if !ok {
			vlib.Die("%s is not an AuthScheme", w.name)
		}
		pkR, skR := w.sch.DeriveKeyPair(vlib.Bytes(rng, w.sch.SeedSize()))
		pkS, skS := w.sch.DeriveKeyPair(vlib.Bytes(rng, w.sch.SeedSize()))
		es := vlib.Bytes(rng, w.sch.EncapsulationSeedSize())
		ct, _, err := as.AuthEncapsulateDeterministically(pkR, skS, es)
		o.Emit(fix(line{Ev: "kem", Kem: w.name, Site: "honest", Op: "auth-encapsulate", Err: err != nil}))
		_, err = as.AuthDecapsulate(skR, ct, pkS)
		o.Emit(fix(line{Ev: "kem", Kem: w.name, Site: "honest", Op: "auth-decapsulate", Err: err != nil}))
		for i, lo := range low[w.xsize] {
			bad, derr := w.sch.UnmarshalBinaryPublicKey(lo)
			for _, op := range []string{"auth-encapsulate(low-order recipient)", "auth-decapsulate(low-order sender)", "auth-decapsulate(low-order enc)"} {
				l := line{Ev: "kem", Kem: w.name, Site: fmt.Sprintf("low-order-peer#%d", i), Op: op}
				if derr != nil && op != "auth-decapsulate(low-order enc)" {
					l.Err, l.Note = true, "refused at key decoding"
					o.Emit(fix(l))
					continue
				}
				var err error
				oc := vlib.Safe(60e9, func() {
					switch op {
					case "auth-encapsulate(low-order recipient)":
						_, _, err = as.AuthEncapsulateDeterministically(bad, skS, es)
					case "auth-decapsulate(low-order sender)":
						_, err = as.AuthDecapsulate(skR, ct, bad)
					default:
						_, err = as.AuthDecapsulate(skR, lo, pkS)
					}
				})
				l.Err = err != nil || oc.Bad()
				if oc.Bad() {
					l.Note = "panic: " + oc.Panic
				}
				o.Emit(fix(l))
			}
		}
		if w.xsize == 56 {
			q4 := vlib.UnHex("cc1361ad4a0ae38d543d1637ca09b38540da58bb266d3b11a78f28f3fdffffffffffffffffffffffffffffffffffffffffffffffffffffff")
			sk4, err := w.sch.UnmarshalBinaryPrivateKey(q4)
			l := line{Ev: "kem", Kem: w.name, Site: "secret-4q", Op: "decapsulate"}
			if err != nil {
				l.Err, l.Note = true, "refused at key decoding"
			} else {
				enc, _, _ := w.sch.EncapsulateDeterministically(pkR, es)
				oc := vlib.Safe(60e9, func() { _, err = w.sch.Decapsulate(sk4, enc) })
				l.Err = err != nil || oc.Bad()
			}
			o.Emit(fix(l))
		}
	}
	vlib.WriteJSON(*jobsOut, jobs)
	fmt.Printf("lines=%d jobs=%d\n", o.N, len(jobs))
}
