// Package mldsaref is a plain transcription of FIPS 204 (ML-DSA.KeyGen_internal, Sign_internal, Verify_internal and the
// pure-ML-DSA message prefix) and of CRYSTALS-Dilithium round 3.1 with int64 arithmetic mod q and
// golang.org/x/crypto/sha3.  It shares no code with circl.
package mldsaref

import (
	"bytes"

	"golang.org/x/crypto/sha3"
)

const (
	Q = 8380417
	N = 256
	D = 13
)

type Params struct {
	Name               string
	K, L               int
	Eta, Tau, Beta     int
	Gamma1, Gamma2     int
	Omega              int
	CTilde, TR         int
	MLDSA              bool
	PkSize, SkSize     int
	SigSize            int
	zBits, etaBits     int
	w1Bits             int
}

func mk(name string, k, l, eta, tau, g1bits, g2div, omega, lambda int, ml bool) Params {
	p := Params{Name: name, K: k, L: l, Eta: eta, Tau: tau, Beta: tau * eta, Gamma1: 1 << uint(g1bits), Gamma2: (Q - 1) / g2div, Omega: omega, MLDSA: ml}
	p.CTilde, p.TR = lambda/4, 64
	if !ml {
		p.CTilde, p.TR = 32, 32
	}
	p.zBits = g1bits + 1
	p.etaBits = 3
	if eta == 4 {
		p.etaBits = 4
	}
	p.w1Bits = 6
	if g2div == 32 {
		p.w1Bits = 4
	}
	p.PkSize = 32 + 320*k
	p.SkSize = 32 + 32 + p.TR + 32*p.etaBits*(k+l) + 416*k
	p.SigSize = p.CTilde + l*32*p.zBits + omega + k
	return p
}

var (
	MLDSA44    = mk("ML-DSA-44", 4, 4, 2, 39, 17, 88, 80, 128, true)
	MLDSA65    = mk("ML-DSA-65", 6, 5, 4, 49, 19, 32, 55, 192, true)
	MLDSA87    = mk("ML-DSA-87", 8, 7, 2, 60, 19, 32, 75, 256, true)
	Dilithium2 = mk("Dilithium2", 4, 4, 2, 39, 17, 88, 80, 128, false)
	Dilithium3 = mk("Dilithium3", 6, 5, 4, 49, 19, 32, 55, 192, false)
	Dilithium5 = mk("Dilithium5", 8, 7, 2, 60, 19, 32, 75, 256, false)
	All        = []Params{MLDSA44, MLDSA65, MLDSA87, Dilithium2, Dilithium3, Dilithium5}
)

type poly [N]int64

func mod(x int64) int64 { x %= Q; if x < 0 { x += Q }; return x }

// centred representative in (-q/2, q/2]
func cmod(x, m int64) int64 {
	x %= m
	if x < 0 {
		x += m
	}
	if x > m/2 {
		x -= m
	}
	return x
}

func powmod(b, e int64) int64 {
	r := int64(1)
	for ; e > 0; e >>= 1 {
		if e&1 == 1 {
			r = r * b % Q
		}
		b = b * b % Q
	}
	return r
}

func bitrev8(i int) int {
	r := 0
	for b := 0; b < 8; b++ {
		r |= ((i >> uint(b)) & 1) << uint(7-b)
	}
	return r
}

var zetas [256]int64

func init() {
	for i := range zetas {
		zetas[i] = powmod(1753, int64(bitrev8(i)))
	}
}

// FIPS 204 Algorithm 41
func ntt(w poly) poly {
	m := 0
	for l := 128; l >= 1; l /= 2 {
		for start := 0; start < N; start += 2 * l {
			m++
			z := zetas[m]
			for j := start; j < start+l; j++ {
				t := z * w[j+l] % Q
				w[j+l] = mod(w[j] - t)
				w[j] = mod(w[j] + t)
			}
		}
	}
	return w
}

// FIPS 204 Algorithm 42
func invntt(w poly) poly {
	m := 256
	for l := 1; l < N; l *= 2 {
		for start := 0; start < N; start += 2 * l {
			m--
			z := Q - zetas[m]
			for j := start; j < start+l; j++ {
				t := w[j]
				w[j] = mod(t + w[j+l])
				w[j+l] = mod(t-w[j+l]) * z % Q
			}
		}
	}
	f := powmod(256, Q-2)
	for j := range w {
		w[j] = w[j] * f % Q
	}
	return w
}

func pmul(a, b poly) (c poly) {
	for i := range a {
		c[i] = a[i] * b[i] % Q
	}
	return
}
func padd(a, b poly) (c poly) {
	for i := range a {
		c[i] = mod(a[i] + b[i])
	}
	return
}
func psub(a, b poly) (c poly) {
	for i := range a {
		c[i] = mod(a[i] - b[i])
	}
	return
}

func shake256(n int, parts ...[]byte) []byte {
	h := sha3.NewShake256()
	for _, p := range parts {
		_, _ = h.Write(p)
	}
	out := make([]byte, n)
	_, _ = h.Read(out)
	return out
}

// ---- rounding (FIPS 204 Algorithms 35-40)
func Power2Round(r int64) (int64, int64) {
	r = mod(r)
	r0 := cmod(r, 1<<D)
	return (r - r0) >> D, r0
}

func Decompose(r int64, gamma2 int64) (int64, int64) {
	r = mod(r)
	r0 := cmod(r, 2*gamma2)
	if r-r0 == Q-1 {
		return 0, r0 - 1
	}
	return (r - r0) / (2 * gamma2), r0
}

func HighBits(r, g2 int64) int64 { h, _ := Decompose(r, g2); return h }
func LowBits(r, g2 int64) int64  { _, l := Decompose(r, g2); return l }

func MakeHint(z, r, g2 int64) int64 {
	if HighBits(r, g2) != HighBits(mod(r+z), g2) {
		return 1
	}
	return 0
}

func UseHint(h, r, g2 int64) int64 {
	m := (Q - 1) / (2 * g2)
	r1, r0 := Decompose(r, g2)
	if h == 1 {
		if r0 > 0 {
			return (r1 + 1) % m
		}
		return (r1 - 1 + m) % m
	}
	return r1
}

// ---- sampling
func rejNTTPoly(rho []byte, s, r byte) (a poly) {
	h := sha3.NewShake128()
	_, _ = h.Write(rho)
	_, _ = h.Write([]byte{s, r})
	var c [3]byte
	for j := 0; j < N; {
		_, _ = h.Read(c[:])
		v := int64(c[0]) | int64(c[1])<<8 | int64(c[2]&0x7f)<<16
		if v < Q {
			a[j] = v
			j++
		}
	}
	return
}

func (p Params) rejBoundedPoly(seed []byte, r int) (a poly) {
	h := sha3.NewShake256()
	_, _ = h.Write(seed)
	_, _ = h.Write([]byte{byte(r), byte(r >> 8)})
	half := func(b byte) (int64, bool) {
		if p.Eta == 2 && b < 15 {
			return 2 - int64(b%5), true
		}
		if p.Eta == 4 && b < 9 {
			return 4 - int64(b), true
		}
		return 0, false
	}
	var c [1]byte
	for j := 0; j < N; {
		_, _ = h.Read(c[:])
		if v, ok := half(c[0] & 15); ok {
			a[j] = mod(v)
			j++
		}
		if v, ok := half(c[0] >> 4); ok && j < N {
			a[j] = mod(v)
			j++
		}
	}
	return
}

func (p Params) expandMask(rho []byte, mu int) []poly {
	y := make([]poly, p.L)
	c := p.zBits
	for r := 0; r < p.L; r++ {
		n := mu + r
		v := shake256(32*c, rho, []byte{byte(n), byte(n >> 8)})
		for i := 0; i < N; i++ {
			var x int64
			for b := 0; b < c; b++ {
				k := i*c + b
				x |= int64(v[k/8]>>uint(k%8)&1) << uint(b)
			}
			y[r][i] = mod(int64(p.Gamma1) - x)
		}
	}
	return y
}

func (p Params) sampleInBall(seed []byte) (c poly) {
	h := sha3.NewShake256()
	_, _ = h.Write(seed)
	var s [8]byte
	_, _ = h.Read(s[:])
	var one [1]byte
	for i := 256 - p.Tau; i < 256; i++ {
		for {
			_, _ = h.Read(one[:])
			if int(one[0]) <= i {
				break
			}
		}
		j := int(one[0])
		c[i] = c[j]
		bit := s[(i+p.Tau-256)/8] >> uint((i+p.Tau-256)%8) & 1
		if bit == 1 {
			c[j] = Q - 1
		} else {
			c[j] = 1
		}
	}
	return
}

// ---- bit packing
func packBits(vals []int64, bits int) []byte {
	out := make([]byte, (len(vals)*bits+7)/8)
	for i, v := range vals {
		for b := 0; b < bits; b++ {
			if v>>uint(b)&1 == 1 {
				k := i*bits + b
				out[k/8] |= 1 << uint(k%8)
			}
		}
	}
	return out
}

func unpackBits(b []byte, bits, n int) []int64 {
	out := make([]int64, n)
	for i := 0; i < n; i++ {
		for j := 0; j < bits; j++ {
			k := i*bits + j
			out[i] |= int64(b[k/8]>>uint(k%8)&1) << uint(j)
		}
	}
	return out
}

func (p Params) matrix(rho []byte) [][]poly {
	A := make([][]poly, p.K)
	for r := range A {
		A[r] = make([]poly, p.L)
		for s := range A[r] {
			A[r][s] = rejNTTPoly(rho, byte(s), byte(r))
		}
	}
	return A
}

type Key struct {
	P           Params
	Rho, K, Tr  []byte
	S1, S2, T0  []poly
	T1          []poly
	Pk, Sk      []byte
}

// KeyGen is ML-DSA.KeyGen_internal(xi) resp. Dilithium key generation from the seed.
func (p Params) KeyGen(xi []byte) *Key {
	var e []byte
	if p.MLDSA {
		e = shake256(128, xi, []byte{byte(p.K), byte(p.L)})
	} else {
		e = shake256(128, xi)
	}
	k := &Key{P: p, Rho: e[:32], K: e[96:128]}
	rhop := e[32:96]
	A := p.matrix(k.Rho)
	for r := 0; r < p.L; r++ {
		k.S1 = append(k.S1, p.rejBoundedPoly(rhop, r))
	}
	for r := 0; r < p.K; r++ {
		k.S2 = append(k.S2, p.rejBoundedPoly(rhop, r+p.L))
	}
	s1h := make([]poly, p.L)
	for i := range s1h {
		s1h[i] = ntt(k.S1[i])
	}
	k.Pk = append([]byte{}, k.Rho...)
	for i := 0; i < p.K; i++ {
		var t poly
		for j := 0; j < p.L; j++ {
			t = padd(t, pmul(A[i][j], s1h[j]))
		}
		t = padd(invntt(t), k.S2[i])
		var t1, t0 poly
		for c := range t {
			t1[c], t0[c] = Power2Round(t[c])
		}
		k.T1, k.T0 = append(k.T1, t1), append(k.T0, t0)
		k.Pk = append(k.Pk, packBits(t1[:], 10)...)
	}
	k.Tr = shake256(p.TR, k.Pk)
	sk := append(append(append([]byte{}, k.Rho...), k.K...), k.Tr...)
	eta := int64(p.Eta)
	for _, s := range append(append([]poly{}, k.S1...), k.S2...) {
		v := make([]int64, N)
		for c := range s {
			v[c] = eta - cmod(s[c], Q)
		}
		sk = append(sk, packBits(v, p.etaBits)...)
	}
	for _, t := range k.T0 {
		v := make([]int64, N)
		for c := range t {
			v[c] = (1 << (D - 1)) - t[c]
		}
		sk = append(sk, packBits(v, 13)...)
	}
	k.Sk = sk
	return k
}

func infnorm(ps []poly) int64 {
	var m int64
	for _, p := range ps {
		for _, c := range p {
			a := cmod(c, Q)
			if a < 0 {
				a = -a
			}
			if a > m {
				m = a
			}
		}
	}
	return m
}

// MPrime is the message representative of pure ML-DSA (FIPS 204 Algorithm 2, line 10) resp. the message itself for Dilithium.
func (p Params) MPrime(msg, ctx []byte) []byte {
	if !p.MLDSA {
		return msg
	}
	return append(append([]byte{0, byte(len(ctx))}, ctx...), msg...)
}

type SignOpts struct {
	Rnd        []byte // ML-DSA: 32 bytes (zeros: deterministic); ignored by Dilithium (deterministic)
	SkipZCheck bool   // produce a signature whose z violates the norm bound but is otherwise consistent (for verifier tests)
	Probe      func(Attempt) // called for every attempt of the loop
}

// Attempt is one iteration of the signing loop with every quantity the four rejection tests look at (all computed, whatever the outcome).
type Attempt struct {
	Kappa                int
	ZMax, R0Max, Ct0Max  int64
	Hints                int
	ctilde               []byte
	z, hints             []poly
}

func (k *Key) attempt(A [][]poly, mu, rhopp []byte, s1h, s2h, t0h []poly, kappa int) Attempt {
	p := k.P
	g2 := int64(p.Gamma2)
	y := p.expandMask(rhopp, kappa)
	yh := make([]poly, p.L)
	for i := range y {
		yh[i] = ntt(y[i])
	}
	w := make([]poly, p.K)
	w1 := make([]poly, p.K)
	var w1enc []byte
	for i := 0; i < p.K; i++ {
		var t poly
		for j := 0; j < p.L; j++ {
			t = padd(t, pmul(A[i][j], yh[j]))
		}
		w[i] = invntt(t)
		for c := range w[i] {
			w1[i][c] = HighBits(w[i][c], g2)
		}
		w1enc = append(w1enc, packBits(w1[i][:], p.w1Bits)...)
	}
	ctilde := shake256(p.CTilde, mu, w1enc)
	c := p.sampleInBall(ctilde)
	ch := ntt(c)
	z := make([]poly, p.L)
	for i := range z {
		z[i] = padd(y[i], invntt(pmul(ch, s1h[i])))
	}
	r0 := make([]poly, p.K)
	wcs2 := make([]poly, p.K)
	for i := 0; i < p.K; i++ {
		wcs2[i] = psub(w[i], invntt(pmul(ch, s2h[i])))
		for cc := range r0[i] {
			r0[i][cc] = mod(LowBits(wcs2[i][cc], g2))
		}
	}
	ct0 := make([]poly, p.K)
	for i := range ct0 {
		ct0[i] = invntt(pmul(ch, t0h[i]))
	}
	hints := make([]poly, p.K)
	cnt := 0
	for i := 0; i < p.K; i++ {
		for cc := 0; cc < N; cc++ {
			hints[i][cc] = MakeHint(mod(-ct0[i][cc]), mod(wcs2[i][cc]+ct0[i][cc]), g2)
			cnt += int(hints[i][cc])
		}
	}
	return Attempt{Kappa: kappa, ZMax: infnorm(z), R0Max: infnorm(r0), Ct0Max: infnorm(ct0), Hints: cnt, ctilde: ctilde, z: z, hints: hints}
}

// BoundaryMessage searches, deterministically from `start`, for a message (empty context) one of whose signing attempts sits exactly on
// the boundary of ONE rejection test while passing the others - where an off-by-one in that test changes the signature:
//   "z"  : max|z| = gamma1 - beta (must be rejected)       "r0" : max|r0| = gamma2 - beta (must be rejected)
//   "h=" : exactly omega hints (must be accepted)          "h+" : omega + 1 hints (must be rejected)
// and the attempt must be reached, i.e. every earlier attempt is rejected by FIPS 204.
func (k *Key) BoundaryMessage(kind string, start []byte, maxTries int) []byte {
	p := k.P
	g2 := int64(p.Gamma2)
	bz, br := int64(p.Gamma1-p.Beta), g2-int64(p.Beta)
	msg := append([]byte{}, start...)
	for t := 0; t < maxTries; t++ {
		found, done := false, false
		k.Sign(p.MPrime(msg, nil), SignOpts{Probe: func(a Attempt) {
			if done {
				return
			}
			zok, rok, cok, hok := a.ZMax < bz, a.R0Max < br, a.Ct0Max < g2, a.Hints <= p.Omega
			switch kind {
			case "z":
				found = found || (a.ZMax == bz && rok && cok && hok)
			case "r0":
				found = found || (a.R0Max == br && zok && cok && hok)
			case "h=":
				found = found || (a.Hints == p.Omega && zok && rok && cok)
			case "h+":
				found = found || (a.Hints == p.Omega+1 && zok && rok && cok)
			}
			if zok && rok && cok && hok {
				done = true // FIPS 204 returns here: later attempts are never made
			}
		}})
		if found {
			return msg
		}
		for i := 0; i < len(msg); i++ {
			msg[i]++
			if msg[i] != 0 {
				break
			}
		}
	}
	return nil
}

// Sign is ML-DSA.Sign_internal(sk, M', rnd) resp. deterministic Dilithium signing.  ok is false if SkipZCheck found nothing.
func (k *Key) Sign(mprime []byte, o SignOpts) (sig []byte, ok bool) {
	p := k.P
	g2 := int64(p.Gamma2)
	A := p.matrix(k.Rho)
	mu := shake256(64, k.Tr, mprime)
	var rhopp []byte
	if p.MLDSA {
		rnd := o.Rnd
		if rnd == nil {
			rnd = make([]byte, 32)
		}
		rhopp = shake256(64, k.K, rnd, mu)
	} else {
		rhopp = shake256(64, k.K, mu)
	}
	s1h, s2h, t0h := make([]poly, p.L), make([]poly, p.K), make([]poly, p.K)
	for i := range s1h {
		s1h[i] = ntt(k.S1[i])
	}
	for i := range s2h {
		s2h[i], t0h[i] = ntt(k.S2[i]), ntt(k.T0[i])
	}
	for kappa := 0; kappa < 1000*p.L; kappa += p.L {
		a := k.attempt(A, mu, rhopp, s1h, s2h, t0h, kappa)
		if o.Probe != nil {
			o.Probe(a)
		}
		zbad := a.ZMax >= int64(p.Gamma1-p.Beta)
		if a.R0Max >= g2-int64(p.Beta) {
			continue
		}
		if zbad != o.SkipZCheck {
			continue
		}
		if a.Ct0Max >= g2 {
			continue
		}
		if a.Hints > p.Omega {
			continue
		}
		return p.EncodeSig(a.ctilde, a.z, a.hints), true
	}
	return nil, false
}

func (p Params) EncodeSig(ctilde []byte, z, hints []poly) []byte {
	sig := append([]byte{}, ctilde...)
	for _, zi := range z {
		v := make([]int64, N)
		for c := range zi {
			v[c] = int64(p.Gamma1) - cmod(zi[c], Q)
		}
		sig = append(sig, packBits(v, p.zBits)...)
	}
	return append(sig, p.HintBitPack(hints)...)
}

func (p Params) HintBitPack(h []poly) []byte {
	y := make([]byte, p.Omega+p.K)
	idx := 0
	for i := 0; i < p.K; i++ {
		for j := 0; j < N; j++ {
			if h[i][j] != 0 {
				y[idx] = byte(j)
				idx++
			}
		}
		y[p.Omega+i] = byte(idx)
	}
	return y
}

// HintBitUnpack is FIPS 204 Algorithm 21: nil for malformed input.
func (p Params) HintBitUnpack(y []byte) []poly {
	h := make([]poly, p.K)
	idx := 0
	for i := 0; i < p.K; i++ {
		end := int(y[p.Omega+i])
		if end < idx || end > p.Omega {
			return nil
		}
		first := idx
		for idx < end {
			if idx > first && y[idx-1] >= y[idx] {
				return nil
			}
			h[i][y[idx]] = 1
			idx++
		}
	}
	for i := idx; i < p.Omega; i++ {
		if y[i] != 0 {
			return nil
		}
	}
	return h
}

// VerifyFacts are what FIPS 204 Verify_internal depends on.
type VerifyFacts struct {
	LenOK, CtxOK bool
	HintOK       bool  // HintBitUnpack succeeds
	ZMax         int64 // infinity norm of z
	ZOK          bool  // ZMax < gamma1 - beta
	CTildeOK     bool  // the recomputed commitment hash equals c~
	Hints        []byte
}

func (p Params) Verify(pk, msg, ctx, sig []byte) VerifyFacts {
	f := VerifyFacts{LenOK: len(pk) == p.PkSize && len(sig) == p.SigSize, CtxOK: len(ctx) <= 255}
	if !f.LenOK || !f.CtxOK {
		return f
	}
	ctilde := sig[:p.CTilde]
	z := make([]poly, p.L)
	off := p.CTilde
	for i := range z {
		v := unpackBits(sig[off:off+32*p.zBits], p.zBits, N)
		for c := range v {
			z[i][c] = mod(int64(p.Gamma1) - v[c])
		}
		off += 32 * p.zBits
	}
	f.Hints = sig[off:]
	h := p.HintBitUnpack(sig[off:])
	f.HintOK = h != nil
	f.ZMax = infnorm(z)
	f.ZOK = f.ZMax < int64(p.Gamma1-p.Beta)
	if !f.HintOK {
		return f
	}
	rho := pk[:32]
	A := p.matrix(rho)
	tr := shake256(p.TR, pk)
	mu := shake256(64, tr, p.MPrime(msg, ctx))
	c := p.sampleInBall(ctilde)
	ch := ntt(c)
	zh := make([]poly, p.L)
	for i := range z {
		zh[i] = ntt(z[i])
	}
	var w1enc []byte
	for i := 0; i < p.K; i++ {
		t1v := unpackBits(pk[32+320*i:32+320*(i+1)], 10, N)
		var t1 poly
		for cc := range t1v {
			t1[cc] = t1v[cc] << D % Q
		}
		var t poly
		for j := 0; j < p.L; j++ {
			t = padd(t, pmul(A[i][j], zh[j]))
		}
		t = invntt(psub(t, pmul(ch, ntt(t1))))
		var w1 poly
		for cc := range t {
			w1[cc] = UseHint(h[i][cc], t[cc], int64(p.Gamma2))
		}
		w1enc = append(w1enc, packBits(w1[:], p.w1Bits)...)
	}
	f.CTildeOK = bytes.Equal(ctilde, shake256(p.CTilde, mu, w1enc))
	return f
}

// ---- boundary seeds.  ExpandA draws 23-bit candidates and keeps those below q; the candidate q itself (probability 2^-23 per draw,
// about 5e-4 per ML-DSA-44 key) is where an off-by-one in a rejection test shows.  BoundarySeed searches, deterministically from `start`,
// for a key seed xi whose matrix expansion consumes a candidate equal to `target` (q: must be rejected; q-1: must be kept).
func (p Params) expandAHits(rho []byte, target int64) bool {
	for r := 0; r < p.K; r++ {
		for s := 0; s < p.L; s++ {
			h := sha3.NewShake128()
			_, _ = h.Write(rho)
			_, _ = h.Write([]byte{byte(s), byte(r)})
			var c [3]byte
			for j := 0; j < N; {
				_, _ = h.Read(c[:])
				v := int64(c[0]) | int64(c[1])<<8 | int64(c[2]&0x7f)<<16
				if v == target {
					return true
				}
				if v < Q {
					j++
				}
			}
		}
	}
	return false
}

func (p Params) BoundarySeed(start []byte, target int64, maxTries int) []byte {
	xi := append([]byte{}, start...)
	for t := 0; t < maxTries; t++ {
		var e []byte
		if p.MLDSA {
			e = shake256(32, xi, []byte{byte(p.K), byte(p.L)})
		} else {
			e = shake256(32, xi)
		}
		if p.expandAHits(e[:32], target) {
			return xi
		}
		for i := 0; i < len(xi); i++ { // next seed: little-endian increment
			xi[i]++
			if xi[i] != 0 {
				break
			}
		}
	}
	return nil
}
