// Package terms evaluates the symbolic byte-string terms of spec/lib/Terms.tla (JSON as TLC serialises
// them) with primitives that are NOT circl code: crypto/*, golang.org/x/crypto, and a math/big Montgomery
// ladder for X448.  It knows nothing about HPKE, KEM combiners or expanders.
package terms

import (
	"crypto/aes"
	"crypto/cipher"
	"crypto/ecdh"
	"crypto/hmac"
	"crypto/sha256"
	"crypto/sha512"
	"encoding/json"
	"fmt"
	"hash"
	"io"
	"math/big"

	"golang.org/x/crypto/chacha20poly1305"
	"golang.org/x/crypto/hkdf"
	"golang.org/x/crypto/sha3"
)

type Term = map[string]interface{}

type Env struct {
	Vars map[string][]byte
	Ints map[string]int
}

func NewEnv() *Env { return &Env{Vars: map[string][]byte{}, Ints: map[string]int{}} }

func hashOf(name string) func() hash.Hash {
	switch name {
	case "SHA256":
		return sha256.New
	case "SHA384":
		return sha512.New384
	case "SHA512":
		return sha512.New
	case "SHA3-256":
		return sha3.New256
	case "SHA3-512":
		return sha3.New512
	}
	panic("terms: unknown hash " + name)
}

func num(v interface{}) int {
	switch x := v.(type) {
	case float64:
		return int(x)
	case json.Number:
		n, _ := x.Int64()
		return int(n)
	case int:
		return x
	}
	panic(fmt.Sprintf("terms: not a number: %v", v))
}

func seq(v interface{}) []interface{} {
	if v == nil {
		return nil
	}
	return v.([]interface{})
}

// Eval evaluates a term.  It panics on malformed terms (an infrastructure error, never a verdict).
func Eval(t interface{}, e *Env) []byte {
	m := t.(Term)
	switch m["t"].(string) {
	case "lit":
		return []byte(m["s"].(string))
	case "bytes":
		var b []byte
		for _, x := range seq(m["b"]) {
			b = append(b, byte(num(x)))
		}
		return b
	case "var":
		v, ok := e.Vars[m["n"].(string)]
		if !ok {
			panic("terms: unbound variable " + m["n"].(string))
		}
		return v
	case "cat":
		var b []byte
		for _, x := range seq(m["xs"]) {
			b = append(b, Eval(x, e)...)
		}
		return b
	case "i2osp":
		return i2osp(num(m["n"]), num(m["w"]))
	case "i2osp-var":
		return i2osp(e.Ints[m["v"].(string)], num(m["w"]))
	case "lenof":
		return i2osp(len(Eval(m["x"], e)), num(m["w"]))
	case "slice":
		b := Eval(m["x"], e)
		to := num(m["to"])
		if to < 0 {
			to = len(b)
		}
		return b[num(m["from"]):to]
	case "xor":
		a, b := Eval(m["a"], e), Eval(m["b"], e)
		if len(a) != len(b) {
			panic("terms: xor length mismatch")
		}
		o := make([]byte, len(a))
		for i := range a {
			o[i] = a[i] ^ b[i]
		}
		return o
	case "hash":
		h := hashOf(m["h"].(string))()
		h.Write(Eval(m["x"], e))
		return h.Sum(nil)
	case "shake":
		var s sha3.ShakeHash
		if m["h"].(string) == "SHAKE128" {
			s = sha3.NewShake128()
		} else {
			s = sha3.NewShake256()
		}
		s.Write(Eval(m["x"], e))
		o := make([]byte, num(m["n"]))
		s.Read(o)
		return o
	case "hkdf-extract":
		return hkdf.Extract(hashOf(m["h"].(string)), Eval(m["ikm"], e), Eval(m["salt"], e))
	case "hkdf-expand":
		n := num(m["n"])
		o := make([]byte, n)
		r := hkdf.Expand(hashOf(m["h"].(string)), Eval(m["prk"], e), Eval(m["info"], e))
		if _, err := io.ReadFull(r, o); err != nil {
			panic("terms: hkdf-expand: " + err.Error())
		}
		return o
	case "hmac":
		h := hmac.New(hashOf(m["h"].(string)), Eval(m["k"], e))
		h.Write(Eval(m["x"], e))
		return h.Sum(nil)
	case "pk":
		return PublicKey(m["g"].(string), Eval(m["sk"], e))
	case "dh":
		return DH(m["g"].(string), Eval(m["sk"], e), Eval(m["pk"], e))
	case "aead":
		k := Eval(m["k"], e)
		var a cipher.AEAD
		var err error
		if m["a"].(string) == "ChaCha20Poly1305" {
			a, err = chacha20poly1305.New(k)
		} else {
			var blk cipher.Block
			blk, err = aes.NewCipher(k)
			if err == nil {
				a, err = cipher.NewGCM(blk)
			}
		}
		if err != nil {
			panic("terms: aead: " + err.Error())
		}
		return a.Seal(nil, Eval(m["n"], e), Eval(m["pt"], e), Eval(m["aad"], e))
	case "first-valid-scalar":
		g, mask := m["g"].(string), byte(num(m["mask"]))
		for i := 0; i < 256; i++ {
			e.Ints["$i"] = i
			c := append([]byte{}, Eval(m["cand"], e)...)
			c[0] &= mask
			if _, err := curveOf(g).NewPrivateKey(c); err == nil {
				return c
			}
		}
		panic("terms: no valid candidate")
	}
	panic("terms: unknown constructor " + fmt.Sprint(m["t"]))
}

func i2osp(n, w int) []byte {
	o := make([]byte, w)
	for i := w - 1; i >= 0; i-- {
		o[i] = byte(n)
		n >>= 8
	}
	return o
}

func curveOf(g string) ecdh.Curve {
	switch g {
	case "P256":
		return ecdh.P256()
	case "P384":
		return ecdh.P384()
	case "P521":
		return ecdh.P521()
	case "X25519":
		return ecdh.X25519()
	}
	panic("terms: no crypto/ecdh curve " + g)
}

// PublicKey returns the RFC 9180 serialisation of the public key of sk.
func PublicKey(g string, sk []byte) []byte {
	if g == "X448" {
		return X448(sk, X448Base())
	}
	k, err := curveOf(g).NewPrivateKey(sk)
	if err != nil {
		panic("terms: pk: " + err.Error())
	}
	return k.PublicKey().Bytes()
}

// DH returns the raw Diffie-Hellman value (x-coordinate / u-coordinate); nil if the peer key is invalid or
// the result is the all-zero value.
func DH(g string, sk, pk []byte) []byte {
	if g == "X448" {
		o := X448(sk, pk)
		z := byte(0)
		for _, b := range o {
			z |= b
		}
		if z == 0 {
			return nil
		}
		return o
	}
	k, err := curveOf(g).NewPrivateKey(sk)
	if err != nil {
		panic("terms: dh: " + err.Error())
	}
	p, err := curveOf(g).NewPublicKey(pk)
	if err != nil {
		return nil
	}
	o, err := k.ECDH(p)
	if err != nil {
		return nil
	}
	return o
}

// ---- RFC 7748 with math/big (reference for X448; also usable for X25519)

func ladder(k, u, p *big.Int, bits int, a24 int64) *big.Int {
	x1 := new(big.Int).Set(u)
	x2, z2 := big.NewInt(1), big.NewInt(0)
	x3, z3 := new(big.Int).Set(u), big.NewInt(1)
	swap := uint(0)
	mod := func(x *big.Int) *big.Int { return x.Mod(x, p) }
	for t := bits - 1; t >= 0; t-- {
		kt := k.Bit(t)
		swap ^= kt
		if swap == 1 {
			x2, x3 = x3, x2
			z2, z3 = z3, z2
		}
		swap = kt
		A := mod(new(big.Int).Add(x2, z2))
		AA := mod(new(big.Int).Mul(A, A))
		B := mod(new(big.Int).Sub(x2, z2))
		BB := mod(new(big.Int).Mul(B, B))
		E := mod(new(big.Int).Sub(AA, BB))
		C := mod(new(big.Int).Add(x3, z3))
		D := mod(new(big.Int).Sub(x3, z3))
		DA := mod(new(big.Int).Mul(D, A))
		CB := mod(new(big.Int).Mul(C, B))
		x3 = mod(new(big.Int).Add(DA, CB))
		x3 = mod(x3.Mul(x3, x3))
		z3 = mod(new(big.Int).Sub(DA, CB))
		z3 = mod(z3.Mul(z3, z3))
		z3 = mod(z3.Mul(z3, x1))
		x2 = mod(new(big.Int).Mul(AA, BB))
		z2 = mod(new(big.Int).Mul(big.NewInt(a24), E))
		z2 = mod(z2.Add(z2, AA))
		z2 = mod(z2.Mul(z2, E))
	}
	if swap == 1 {
		x2, x3 = x3, x2
		z2, z3 = z3, z2
	}
	_ = x3
	inv := new(big.Int).Exp(z2, new(big.Int).Sub(p, big.NewInt(2)), p)
	return mod(inv.Mul(inv, x2))
}

func le(b []byte) *big.Int {
	r := make([]byte, len(b))
	for i := range b {
		r[len(b)-1-i] = b[i]
	}
	return new(big.Int).SetBytes(r)
}

func toLE(x *big.Int, n int) []byte {
	b := x.FillBytes(make([]byte, n))
	for i, j := 0, n-1; i < j; i, j = i+1, j-1 {
		b[i], b[j] = b[j], b[i]
	}
	return b
}

var P448 = func() *big.Int {
	p := new(big.Int).Lsh(big.NewInt(1), 448)
	p.Sub(p, new(big.Int).Lsh(big.NewInt(1), 224))
	return p.Sub(p, big.NewInt(1))
}()

var P25519 = func() *big.Int {
	p := new(big.Int).Lsh(big.NewInt(1), 255)
	return p.Sub(p, big.NewInt(19))
}()

func X448Base() []byte { b := make([]byte, 56); b[0] = 5; return b }

// X448 is RFC 7748 X448(k, u) on 56-byte strings.
func X448(k, u []byte) []byte {
	kk := append([]byte{}, k...)
	kk[0] &= 252
	kk[55] |= 128
	uu := le(u)
	uu.Mod(uu, P448)
	return toLE(ladder(le(kk), uu, P448, 448, 39081), 56)
}

// X25519 is RFC 7748 X25519(k, u) on 32-byte strings (math/big; cross-check of crypto/ecdh).
func X25519(k, u []byte) []byte {
	kk := append([]byte{}, k...)
	kk[0] &= 248
	kk[31] &= 127
	kk[31] |= 64
	u2 := append([]byte{}, u...)
	u2[31] &= 127
	uu := le(u2)
	uu.Mod(uu, P25519)
	return toLE(ladder(le(kk), uu, P25519, 255, 121665), 32)
}
