// Driver for C09: for every format of spec/C09/Canon.tla, build concrete byte strings of each field class with
// math/big (valid encodings made INDEPENDENTLY of the library's encoder where the format is simple enough,
// coordinates equal to / above the modulus, spare or flag bits set, points off the curve, points on the curve but
// outside the prime-order subgroup), every single-bit flip of valid encodings and random strings; hand them to
// the real decoders and record: accepted?, does the accepted value re-serialise to the same bytes?, is it a member?
package main

import (
	"bytes"
	"crypto/elliptic"
	"flag"
	"fmt"
	"math/big"
	"math/rand"

	"github.com/cloudflare/circl/dh/curve4q"
	"github.com/cloudflare/circl/ecc/bls12381"
	"github.com/cloudflare/circl/ecc/fourq"
	"github.com/cloudflare/circl/ecc/goldilocks"
	"github.com/cloudflare/circl/group"
	"github.com/cloudflare/circl/hpke"
	"github.com/cloudflare/circl/kem/schemes"
	"github.com/cloudflare/circl/oprf"
	"github.com/cloudflare/circl/sign"
	"github.com/cloudflare/circl/sign/bls"
	"github.com/cloudflare/circl/sign/ed25519"
	"github.com/cloudflare/circl/sign/ed448"
	"github.com/cloudflare/circl/zzverif/vlib"
)

type line struct {
	Ev       string   `json:"ev"`
	Fmt      string   `json:"fmt"`
	Impl     string   `json:"impl"`
	Class    string   `json:"class"`
	Total    int      `json:"total"`
	Accepted int      `json:"accepted"`
	ReencDif int      `json:"reenc_diff"`
	NotMemb  int      `json:"not_member"`
	RtNeq    int      `json:"roundtrip_neq"` // valid class: decoded value differs from the original
	Panics   int      `json:"panics"`
	Note     string   `json:"note"`
	Shapes   []string `json:"shapes"` // distinct shapes (length, flag bits of first and last byte) of the inputs that were wrongly treated
}

// family: one decoder.  try returns (accepted, re-encoding equals input, member of the group).
type family struct {
	fmtName, impl string
	try           func(b []byte) (acc, same, member bool)
	classes       map[string][][]byte
}

var big1 = big.NewInt(1)

func be(x *big.Int, n int) []byte { return x.FillBytes(make([]byte, n)) }

func main() {
	out := flag.String("out", "trace.ndjson", "")
	seed := flag.Int64("seed", 1, "")
	nflip := flag.Int("flips", 2, "valid encodings per format whose every bit is flipped")
	nrand := flag.Int("rand", 200, "")
	flag.Parse()
	rng := vlib.Rng(*seed, "c09")
	o := vlib.Create(*out)
	defer o.Close()
	var fams []family
	fams = append(fams, sec1Families(rng)...)
	fams = append(fams, blsFamilies(rng)...)
	fams = append(fams, edFamilies(rng)...)
	fams = append(fams, otherFamilies(rng)...)
	for _, f := range fams {
		// generic classes on top of the constructed ones
		valid := f.classes["valid"]
		for i := 0; i < *nflip && i < len(valid); i++ {
			v := valid[len(valid)-1-i]
			n := len(v) * 8
			st := 1
			if n > 4096 {
				st = n / 4096
			}
			for b := 0; b < n; b += st {
				c := append([]byte{}, v...)
				c[b/8] ^= 1 << uint(b%8)
				f.classes["bitflip"] = append(f.classes["bitflip"], c)
			}
		}
		for i := 0; i < *nrand && len(valid) > 0; i++ {
			c := vlib.Bytes(rng, len(valid[i%len(valid)]))
			if i%2 == 0 { // keep the framing byte(s) of a valid encoding so that the body is reached
				c[0] = valid[i%len(valid)][0]
			}
			f.classes["random"] = append(f.classes["random"], c)
		}
		// an encoding followed by further bytes is not an encoding (decoders that take a slice; the raw bls12381 SetBytes functions are
		// covered by their own 96- / 192-byte classes)
		if map[string]bool{"sec1-p256": true, "sec1-p384": true, "sec1-p521": true, "ristretto255": true, "bls-pk": true, "oprf-pk": true, "mlkem-ek": true,
			"eddsa-scheme-key": true, "xkem-key": true}[f.fmtName] {
			for i, v := range valid {
				if i >= 6 {
					break
				}
				f.classes["trailing"] = append(f.classes["trailing"], append(append([]byte{}, v...), 0xaa), append(append([]byte{}, v...), v[:len(v)/2]...),
					append(append([]byte{}, v...), v...))
			}
		}
		for class, inputs := range f.classes {
			ln := line{Ev: "class", Fmt: f.fmtName, Impl: f.impl, Class: class, Shapes: []string{}}
			shape := func(in []byte) {
				sh := fmt.Sprintf("len=%d", len(in))
				if len(in) > 0 {
					sh += fmt.Sprintf(",first&e0=%02x,last&80=%02x", in[0]&0xe0, in[len(in)-1]&0x80)
				}
				for _, x := range ln.Shapes {
					if x == sh {
						return
					}
				}
				if len(ln.Shapes) < 8 {
					ln.Shapes = append(ln.Shapes, sh)
				}
			}
			for _, in := range inputs {
				ln.Total++
				var acc, same, member bool
				oc := vlib.Safe(2e10, func() { acc, same, member = f.try(append([]byte{}, in...)) })
				switch {
				case oc.Panic != "" || oc.Timeout:
					ln.Panics++
					ln.Note = oc.Panic
				case acc:
					ln.Accepted++
					if !same {
						shape(in)
						ln.ReencDif++
						if ln.Note == "" {
							ln.Note = "accepted but re-encodes differently: " + vlib.Hex(in)
						}
					}
					if !member {
						shape(in)
						ln.NotMemb++
						if ln.Note == "" {
							ln.Note = "accepted but not a member: " + vlib.Hex(in)
						}
					}
				}
			}
			if ln.Total > 0 {
				o.Emit(ln)
			}
		}
	}
	fmt.Printf("lines=%d\n", o.N)
}

// ------------------------------------------------------------------ SEC1 (group.P256 / P384 / P521, OPRF public keys)

func sec1Families(rng *rand.Rand) []family {
	var fs []family
	for _, gi := range []struct {
		g    group.Group
		c    elliptic.Curve
		name string
		su   oprf.Suite
	}{{group.P256, elliptic.P256(), "sec1-p256", oprf.SuiteP256}, {group.P384, elliptic.P384(), "sec1-p384", oprf.SuiteP384}, {group.P521, elliptic.P521(), "sec1-p521", oprf.SuiteP521}} {
		g, c := gi.g, gi.c
		P, N, B := c.Params().P, c.Params().N, c.Params().B
		n := (c.Params().BitSize + 7) / 8
		onCurve := func(x, y *big.Int) bool { // y^2 = x^3 - 3x + b, own arithmetic
			l := new(big.Int).Mod(new(big.Int).Mul(y, y), P)
			r := new(big.Int).Mul(x, x)
			r.Mul(r, x).Sub(r, new(big.Int).Mul(big.NewInt(3), x)).Add(r, B).Mod(r, P)
			return l.Cmp(r) == 0
		}
		unc := func(x, y *big.Int) []byte { return append(append([]byte{4}, be(x, n)...), be(y, n)...) }
		cmp := func(x, y *big.Int) []byte { return append([]byte{byte(2 + y.Bit(0))}, be(x, n)...) }
		cl := map[string][][]byte{}
		for i := 0; i < 12; i++ {
			k := new(big.Int).Rand(rng, N)
			if i < 3 {
				k = big.NewInt(int64(i + 1))
			}
			x, y := c.ScalarBaseMult(k.Bytes()) // standard library, not circl
			cl["valid"] = append(cl["valid"], unc(x, y), cmp(x, y))
			// coordinate + p (only representable when the field does not fill its bytes: P-521; otherwise a value >= p below 2^bits)
			xp := new(big.Int).Add(x, P)
			if xp.BitLen() <= 8*n {
				cl["coord-gt-p"] = append(cl["coord-gt-p"], unc(xp, y), cmp(xp, y))
			}
			yp := new(big.Int).Add(y, P)
			if yp.BitLen() <= 8*n {
				cl["coord-gt-p"] = append(cl["coord-gt-p"], unc(x, yp))
			}
			// off curve: y + 1
			y1 := new(big.Int).Mod(new(big.Int).Add(y, big1), P)
			if !onCurve(x, y1) {
				cl["off-curve"] = append(cl["off-curve"], unc(x, y1))
			}
			// bad tag bytes
			for _, tag := range []byte{0, 1, 5, 6, 7, 0x44, 0x84} {
				b := unc(x, y)
				b[0] = tag
				cl["bad-flags"] = append(cl["bad-flags"], b)
			}
			b := cmp(x, y)
			b[0] = 4
			cl["bad-flags"] = append(cl["bad-flags"], b)
		}
		cl["coord-eq-p"] = append(cl["coord-eq-p"], unc(P, big.NewInt(1)), cmp(P, big.NewInt(0)), unc(big.NewInt(0), P))
		all1 := new(big.Int).Sub(new(big.Int).Lsh(big1, uint(8*n)), big1)
		cl["coord-gt-p"] = append(cl["coord-gt-p"], unc(all1, all1), cmp(all1, big1))
		// x with no y on the curve (compressed)
		for x := int64(0); x < 40; x++ {
			r := new(big.Int).Mul(big.NewInt(x), big.NewInt(x))
			r.Mul(r, big.NewInt(x)).Sub(r, big.NewInt(3*x)).Add(r, B).Mod(r, P)
			if new(big.Int).ModSqrt(r, P) == nil {
				cl["off-curve"] = append(cl["off-curve"], append([]byte{2}, be(big.NewInt(x), n)...))
			}
		}
		// curve points with a tiny x: x + p still fits into the field's bytes for P-256 and P-384 too (x < 2^bits - p), so these are
		// the non-canonical spellings of real points that exist for every curve
		for x, found := int64(0), 0; x < 400 && found < 6; x++ {
			r := new(big.Int).Mul(big.NewInt(x), big.NewInt(x))
			r.Mul(r, big.NewInt(x)).Sub(r, big.NewInt(3*x)).Add(r, B).Mod(r, P)
			y := new(big.Int).ModSqrt(r, P)
			if y == nil {
				continue
			}
			found++
			xp := new(big.Int).Add(big.NewInt(x), P)
			if xp.BitLen() <= 8*n {
				cl["valid"] = append(cl["valid"], unc(big.NewInt(x), y), cmp(big.NewInt(x), y))
				cl["coord-gt-p"] = append(cl["coord-gt-p"], unc(xp, y), cmp(xp, y), unc(xp, new(big.Int).Sub(P, y)))
			}
		}
		// infinity with stray payload
		cl["bad-flags"] = append(cl["bad-flags"], make([]byte, 1+n), make([]byte, 1+2*n))
		ord := N
		try := func(b []byte) (bool, bool, bool) {
			e := g.NewElement()
			if e.UnmarshalBinary(b) != nil {
				return false, false, false
			}
			var re []byte
			if len(b) == 1+n {
				re, _ = e.MarshalBinaryCompress()
			} else {
				re, _ = e.MarshalBinary()
			}
			// member: on the curve by own arithmetic, and killed by the group order (library arithmetic, validated in C13)
			member := true
			if !e.IsIdentity() {
				raw, _ := e.MarshalBinary()
				x, y := new(big.Int).SetBytes(raw[1:1+n]), new(big.Int).SetBytes(raw[1+n:])
				s := g.NewScalar().SetBigInt(new(big.Int).Sub(ord, big1))
				t := g.NewElement().Mul(e, s)
				t.Add(t, e)
				member = onCurve(x, y) && t.IsIdentity()
			}
			return true, bytes.Equal(re, b), member
		}
		cl["valid"] = append(cl["valid"], []byte{0}) // the identity has a one-byte encoding in this package
		fs = append(fs, family{gi.name, "group." + gi.name[5:], try, cl})
		// OPRF public keys use the compressed form
		su := gi.su
		cl2 := map[string][][]byte{}
		for cname, list := range cl {
			for _, b := range list {
				if len(b) == 1+n {
					cl2[cname] = append(cl2[cname], b)
				}
			}
		}
		for _, b := range cl["valid"] { // the uncompressed form is an encoding of the point but not of an OPRF public key (compressed, RFC 9497)
			if len(b) == 1+2*n {
				cl2["bad-flags"] = append(cl2["bad-flags"], b)
			}
		}
		fs = append(fs, family{"oprf-pk", "oprf.PublicKey " + gi.name[5:], func(b []byte) (bool, bool, bool) {
			var pk oprf.PublicKey
			if pk.UnmarshalBinary(su, b) != nil {
				return false, false, false
			}
			re, _ := pk.MarshalBinary()
			_, _, m := try(b)
			return true, bytes.Equal(re, b), m
		}, cl2})
	}
	return fs
}

// ------------------------------------------------------------------ BLS12-381 G1 / G2 (zcash format) and BLS public keys

var blsP, _ = new(big.Int).SetString("1a0111ea397fe69a4b1ba7b6434bacd764774b84f38512bf6730d2a0f6b0f6241eabfffeb153ffffb9feffffffffaaab", 16)

func blsFamilies(rng *rand.Rand) []family {
	var fs []family
	half := new(big.Int).Rsh(blsP, 1)
	order := new(big.Int).SetBytes(bls12381.Order())
	rm1 := new(bls12381.Scalar)
	rm1.SetBytes(new(big.Int).Sub(order, big1).Bytes())
	{ // G1: y^2 = x^3 + 4
		cl := map[string][][]byte{}
		for i := 0; i < 10; i++ {
			var k bls12381.Scalar
			k.SetUint64(uint64(i + 1))
			if i > 3 {
				k.Random(vlib.SeededReader{R: rng})
			}
			var p bls12381.G1
			p.ScalarMult(&k, bls12381.G1Generator())
			u, c := p.Bytes(), p.BytesCompressed()
			cl["valid"] = append(cl["valid"], u, c)
			x := new(big.Int).SetBytes(append([]byte{u[0] & 0x1f}, u[1:48]...))
			y := new(big.Int).SetBytes(u[48:])
			// coordinate + p does not fit in 381 bits -> the closest non-canonical forms are x = p.. 2^381-1 (not congruent); they are "gt-p"
			xs := new(big.Int).Add(x, blsP)
			if xs.BitLen() <= 381 {
				b := be(xs, 48)
				b[0] |= c[0] & 0xe0
				cl["coord-gt-p"] = append(cl["coord-gt-p"], b)
			}
			// flags: uncompressed payload with the compression bit, sign bit on an uncompressed point, infinity bit on a finite point
			for _, fl := range []byte{0x20, 0x40, 0x60, 0x80, 0xc0, 0xe0} {
				b := append([]byte{}, u...)
				b[0] |= fl
				cl["bad-flags"] = append(cl["bad-flags"], b)
			}
			b := append([]byte{}, c...)
			b[0] |= 0x40
			cl["bad-flags"] = append(cl["bad-flags"], b)
			b = append([]byte{}, c...)
			b[0] &^= 0x80
			cl["bad-flags"] = append(cl["bad-flags"], b) // compressed length without the compression flag
			// off curve: uncompressed with y+1
			y1 := new(big.Int).Mod(new(big.Int).Add(y, big1), blsP)
			b = append(append([]byte{}, u[:48]...), be(y1, 48)...)
			cl["off-curve"] = append(cl["off-curve"], b)
			_ = half
		}
		pb := be(blsP, 48)
		cl["coord-eq-p"] = append(cl["coord-eq-p"], append(append([]byte{}, pb...), be(big.NewInt(2), 48)...), func() []byte { b := append([]byte{}, pb...); b[0] |= 0x80; return b }())
		top := new(big.Int).Sub(new(big.Int).Lsh(big1, 381), big1)
		cl["coord-gt-p"] = append(cl["coord-gt-p"], func() []byte { b := be(top, 48); b[0] |= 0x80; return b }(), append(be(top, 48), be(top, 48)...))
		// on the curve, outside the r-torsion: small x with a square right-hand side, both encodings
		for x := int64(0); x < 60; x++ {
			X := big.NewInt(x)
			r := new(big.Int).Exp(X, big.NewInt(3), blsP)
			r.Add(r, big.NewInt(4)).Mod(r, blsP)
			y := new(big.Int).ModSqrt(r, blsP)
			if y == nil {
				b := be(X, 48)
				b[0] |= 0x80
				cl["off-curve"] = append(cl["off-curve"], b)
				continue
			}
			c := be(X, 48)
			c[0] |= 0x80
			if y.Cmp(half) > 0 {
				c[0] |= 0x20
			}
			cl["outside-subgroup"] = append(cl["outside-subgroup"], c, append(be(X, 48), be(y, 48)...))
		}
		// infinity encodings: canonical ones are valid, stray bits are not
		infC, infU := make([]byte, 48), make([]byte, 96)
		infC[0], infU[0] = 0xc0, 0x40
		cl["valid"] = append(cl["valid"], infC, infU)
		for _, pos := range []int{1, 20, 47} {
			b := append([]byte{}, infC...)
			b[pos] = 1
			cl["bad-flags"] = append(cl["bad-flags"], b)
			b = append([]byte{}, infU...)
			b[pos+40] = 1
			cl["bad-flags"] = append(cl["bad-flags"], b)
		}
		b := append([]byte{}, infC...)
		b[0] |= 0x20
		cl["bad-flags"] = append(cl["bad-flags"], b)
		try := func(b []byte) (bool, bool, bool) {
			var p bls12381.G1
			if p.SetBytes(b) != nil {
				return false, false, false
			}
			re := p.Bytes()
			if len(b) == 48 {
				re = p.BytesCompressed()
			}
			var t bls12381.G1
			t.ScalarMult(rm1, &p)
			t.Add(&t, &p)
			return true, bytes.Equal(re, b), t.IsIdentity() && p.IsOnG1()
		}
		fs = append(fs, family{"bls12381-g1", "bls12381.G1.SetBytes", try, cl})
		// BLS public keys in G1 (compressed): additionally the identity is not a valid key
		clk := map[string][][]byte{}
		for cname, list := range cl {
			for _, b := range list {
				if len(b) == 48 && !(cname == "valid" && b[0]&0x40 != 0) {
					clk[cname] = append(clk[cname], b)
				}
			}
		}
		clk["bad-flags"] = append(clk["bad-flags"], infC) // identity key: Validate must refuse
		for _, b := range cl["valid"] {                   // the uncompressed form of a point is not the encoding of a key
			if len(b) == 96 && b[0]&0x40 == 0 {
				clk["bad-flags"] = append(clk["bad-flags"], b)
			}
		}
		fs = append(fs, family{"bls-pk", "bls.PublicKey[G1]", func(b []byte) (bool, bool, bool) {
			var pk bls.PublicKey[bls.G1]
			if pk.UnmarshalBinary(b) != nil || !pk.Validate() {
				return false, false, false
			}
			re, _ := pk.MarshalBinary()
			_, _, m := try(b)
			return true, bytes.Equal(re, b), m
		}, clk})
	}
	{ // G2: compressed encodings only need x in Fp2 (the library solves for y); x = (x1, x0) big-endian, c1 first
		cl := map[string][][]byte{}
		for i := 0; i < 8; i++ {
			var k bls12381.Scalar
			k.SetUint64(uint64(i + 1))
			if i > 2 {
				k.Random(vlib.SeededReader{R: rng})
			}
			var p bls12381.G2
			p.ScalarMult(&k, bls12381.G2Generator())
			u, c := p.Bytes(), p.BytesCompressed()
			cl["valid"] = append(cl["valid"], u, c)
			for _, fl := range []byte{0x20, 0x40, 0x80, 0xc0, 0xe0} {
				b := append([]byte{}, u...)
				b[0] |= fl
				cl["bad-flags"] = append(cl["bad-flags"], b)
			}
			b := append([]byte{}, c...)
			b[0] |= 0x40
			cl["bad-flags"] = append(cl["bad-flags"], b)
			// second coordinate component replaced by p (non-canonical)
			b = append([]byte{}, c...)
			copy(b[48:], be(blsP, 48))
			cl["coord-eq-p"] = append(cl["coord-eq-p"], b)
			b = append([]byte{}, u...)
			copy(b[144:], be(new(big.Int).Add(new(big.Int).SetBytes(u[144:]), big1), 48))
			cl["off-curve"] = append(cl["off-curve"], b)
		}
		// small x = (0, x0): whatever the library accepts here must be in the subgroup (it almost never is)
		for x := int64(0); x < 120; x++ {
			for _, sign := range []byte{0, 0x20} {
				b := make([]byte, 96)
				copy(b[48:], be(big.NewInt(x), 48))
				if x%3 == 1 {
					copy(b[:48], be(big.NewInt(x/3+1), 48))
				}
				b[0] |= 0x80 | sign
				cl["outside-subgroup"] = append(cl["outside-subgroup"], b)
			}
		}
		infC, infU := make([]byte, 96), make([]byte, 192)
		infC[0], infU[0] = 0xc0, 0x40
		cl["valid"] = append(cl["valid"], infC, infU)
		b := append([]byte{}, infC...)
		b[95] = 1
		cl["bad-flags"] = append(cl["bad-flags"], b)
		preG2 := append([][]byte{nil}, cl["valid"][:6]...) // decode into a fresh object, and into objects that already hold a point
		try := func(b []byte) (bool, bool, bool) {
			for _, held := range preG2 {
				var p bls12381.G2
				if held != nil {
					_ = p.SetBytes(held)
				}
				if p.SetBytes(b) != nil {
					continue
				}
				re := p.Bytes()
				if len(b) == 96 {
					re = p.BytesCompressed()
				}
				var t bls12381.G2
				t.ScalarMult(rm1, &p)
				t.Add(&t, &p)
				return true, bytes.Equal(re, b), t.IsIdentity() && p.IsOnG2()
			}
			return false, false, false
		}
		fs = append(fs, family{"bls12381-g2", "bls12381.G2.SetBytes", try, cl})
		clk := map[string][][]byte{}
		for cname, list := range cl {
			for _, b := range list {
				if len(b) == 96 && !(cname == "valid" && b[0]&0x40 != 0) {
					clk[cname] = append(clk[cname], b)
				}
			}
		}
		clk["bad-flags"] = append(clk["bad-flags"], infC)
		fs = append(fs, family{"bls-pk", "bls.PublicKey[G2]", func(b []byte) (bool, bool, bool) {
			var pk bls.PublicKey[bls.G2]
			if pk.UnmarshalBinary(b) != nil || !pk.Validate() {
				return false, false, false
			}
			re, _ := pk.MarshalBinary()
			_, _, m := try(b)
			return true, bytes.Equal(re, b), m
		}, clk})
	}
	return fs
}

// ------------------------------------------------------------------ Edwards: Goldilocks / Ed448 points, Ed25519 keys at verification

func edFamilies(rng *rand.Rand) []family {
	var fs []family
	{ // Ed448: x^2 + y^2 = 1 - 39081 x^2 y^2 over p = 2^448 - 2^224 - 1 ; encoding: y little-endian in 56 bytes, byte 56 = sign(x) << 7
		p := new(big.Int).Sub(new(big.Int).Sub(new(big.Int).Lsh(big1, 448), new(big.Int).Lsh(big1, 224)), big1)
		d := new(big.Int).Sub(p, big.NewInt(39081))
		solveX := func(y *big.Int) *big.Int { // x^2 = (y^2 - 1) / (d y^2 - 1)
			y2 := new(big.Int).Mod(new(big.Int).Mul(y, y), p)
			u := new(big.Int).Mod(new(big.Int).Sub(y2, big1), p)
			v := new(big.Int).Mod(new(big.Int).Sub(new(big.Int).Mul(d, y2), big1), p)
			vi := new(big.Int).ModInverse(v, p)
			if vi == nil {
				return nil
			}
			return new(big.Int).ModSqrt(new(big.Int).Mod(new(big.Int).Mul(u, vi), p), p)
		}
		enc := func(y *big.Int, sign byte) []byte { return append(vlib.ToLE(y, 56), sign<<7) }
		cl := map[string][][]byte{}
		for y := int64(2); len(cl["valid"]) < 24 || len(cl["off-curve"]) < 12; y++ {
			Y := big.NewInt(y)
			if y > 20 {
				Y = new(big.Int).Rand(rng, p)
			}
			x := solveX(Y)
			if x == nil {
				cl["off-curve"] = append(cl["off-curve"], enc(Y, 0), enc(Y, 1))
				continue
			}
			s := byte(x.Bit(0))
			cl["valid"] = append(cl["valid"], enc(Y, s), enc(Y, 1-s))
			for _, junk := range []byte{1, 2, 0x40, 0x7f} { // the low 7 bits of the last byte are spare
				b := enc(Y, s)
				b[56] |= junk
				cl["spare-bits"] = append(cl["spare-bits"], b)
			}
			if y < 8 { // y + p still fits in 56 bytes
				cl["coord-gt-p"] = append(cl["coord-gt-p"], enc(new(big.Int).Add(Y, p), s))
			}
		}
		cl["valid"] = append(cl["valid"], enc(big1, 0))                                            // identity (0, 1)
		cl["valid"] = append(cl["valid"], enc(new(big.Int).Sub(p, big1), 0))                       // (0, -1), order 2
		cl["bad-flags"] = append(cl["bad-flags"], enc(big1, 1), enc(new(big.Int).Sub(p, big1), 1)) // x = 0 with the sign bit
		cl["coord-eq-p"] = append(cl["coord-eq-p"], enc(p, 0), enc(p, 1))
		cl["coord-gt-p"] = append(cl["coord-gt-p"], enc(new(big.Int).Sub(new(big.Int).Lsh(big1, 448), big1), 0))
		onCurve := func(pt *goldilocks.Point) bool { return goldilocks.Curve{}.IsOnCurve(pt) }
		fs = append(fs, family{"ed448-point", "goldilocks.FromBytes", func(b []byte) (bool, bool, bool) {
			pt, err := goldilocks.FromBytes(b)
			if err != nil {
				return false, false, false
			}
			re, _ := pt.MarshalBinary()
			return true, bytes.Equal(re, b), onCurve(pt)
		}, cl})
		// the same strings as Ed448 PUBLIC KEYS at verification: a key that is not the canonical encoding of a point must make Verify false.
		// Verify(pk', msg, sig) can only be observed as true when a signature exists: sign with a real key and present non-canonical
		// aliases of ITS public key (spare bits, y+p is impossible for a random y).
		clv := map[string][][]byte{}
		seedk := vlib.Bytes(rng, 57)
		sk := ed448.NewKeyFromSeed(seedk)
		pub := sk.Public().(ed448.PublicKey)
		msg := []byte("c09")
		for _, junk := range []byte{1, 0x10, 0x7f} {
			// make the signature over the non-canonical key bytes, otherwise the changed hash input alone makes it fail
			skp := append(ed448.PrivateKey{}, sk...)
			alias := append([]byte{}, pub...)
			alias[56] |= junk
			copy(skp[57:], alias)
			sig := ed448.Sign(skp, msg, "")
			clv["spare-bits"] = append(clv["spare-bits"], append(append([]byte{}, alias...), sig...))
		}
		clv["valid"] = append(clv["valid"], append(append([]byte{}, pub...), ed448.Sign(sk, msg, "")...))
		fs = append(fs, family{"ed448-point", "ed448.Verify(public key alias)", func(b []byte) (bool, bool, bool) {
			ok := ed448.Verify(ed448.PublicKey(b[:57]), msg, b[57:], "")
			if !ok {
				return false, false, false
			}
			pt, err := goldilocks.FromBytes(b[:57])
			same := false
			if err == nil {
				re, _ := pt.MarshalBinary()
				same = bytes.Equal(re, b[:57])
			}
			return true, same, true
		}, clv})
	}
	{ // Ed25519 public keys at verification: y < p canonical; x = 0 with sign bit rejected
		p := new(big.Int).Sub(new(big.Int).Lsh(big1, 255), big.NewInt(19))
		sk := ed25519.NewKeyFromSeed(vlib.Bytes(rng, 32))
		pub := sk.Public().(ed25519.PublicKey)
		msg := []byte("c09")
		clv := map[string][][]byte{}
		clv["valid"] = append(clv["valid"], append(append([]byte{}, pub...), ed25519.Sign(sk, msg)...))
		// small-order / non-canonical keys with the matching "signature" R = identity-like, S = 0 : whatever verifies must be canonical
		for _, y := range []*big.Int{big.NewInt(0), big1, new(big.Int).Sub(p, big1), p, new(big.Int).Add(p, big1), new(big.Int).Add(p, big.NewInt(18))} {
			for _, sign := range []byte{0, 0x80} {
				k := vlib.ToLE(y, 32)
				k[31] |= sign
				sig := make([]byte, 64)
				sig[0] = 1 // R = (0, 1)
				cls := "random"
				if y.Cmp(p) >= 0 {
					cls = "coord-gt-p"
					if y.Cmp(p) == 0 {
						cls = "coord-eq-p"
					}
				} else if sign != 0 && (y.Cmp(big1) == 0 || y.Cmp(new(big.Int).Sub(p, big1)) == 0) {
					cls = "bad-flags" // x = 0 with the sign bit set
				}
				clv[cls] = append(clv[cls], append(k, sig...))
				sig2 := append([]byte{}, sig...)
				copy(sig2, k) // R = A
				clv[cls] = append(clv[cls], append(append([]byte{}, k...), sig2...))
			}
		}
		for _, sch := range []sign.Scheme{ed25519.Scheme(), ed448.Scheme()} {
			sch := sch
			cls := map[string][][]byte{}
			for i := 0; i < 4; i++ {
				pk, _ := sch.DeriveKey(vlib.Bytes(rng, sch.SeedSize()))
				b, _ := pk.MarshalBinary()
				cls["valid"] = append(cls["valid"], b)
			}
			fs = append(fs, family{"eddsa-scheme-key", sch.Name() + " Scheme.UnmarshalBinaryPublicKey", func(b []byte) (bool, bool, bool) {
				pk, err := sch.UnmarshalBinaryPublicKey(b)
				if err != nil {
					return false, false, false
				}
				re, _ := pk.MarshalBinary()
				return true, bytes.Equal(re, b), true
			}, cls})
		}
		fs = append(fs, family{"ed25519-key", "ed25519.Verify(public key)", func(b []byte) (bool, bool, bool) {
			if !ed25519.Verify(ed25519.PublicKey(b[:32]), msg, b[32:]) {
				return false, false, false
			}
			y := vlib.FromLE(append(append([]byte{}, b[:31]...), b[31]&0x7f))
			return true, y.Cmp(p) < 0, true
		}, clv})
	}
	return fs
}

// ------------------------------------------------------------------ ristretto255, FourQ, Curve4Q, ML-KEM encapsulation keys

func otherFamilies(rng *rand.Rand) []family {
	var fs []family
	// the HPKE DHKEM(X25519 / X448) key and encapsulated-key decoders: every string of Npk bytes is a key (RFC 7748 accepts non-canonical
	// u-coordinates), so the only rule is the LENGTH - Npk = Nenc is fixed by RFC 9180 7.1
	for _, id := range []hpke.KEM{hpke.KEM_X25519_HKDF_SHA256, hpke.KEM_X448_HKDF_SHA512} {
		sch := id.Scheme()
		cl := map[string][][]byte{}
		for i := 0; i < 4; i++ {
			pk, _ := sch.DeriveKeyPair(vlib.Bytes(rng, sch.SeedSize()))
			b, _ := pk.MarshalBinary()
			cl["valid"] = append(cl["valid"], b)
		}
		fs = append(fs, family{"xkem-key", sch.Name() + " UnmarshalBinaryPublicKey", func(b []byte) (bool, bool, bool) {
			pk, err := sch.UnmarshalBinaryPublicKey(b)
			if err != nil {
				return false, false, false
			}
			re, _ := pk.MarshalBinary()
			return true, bytes.Equal(re, b), true
		}, cl})
		clk := map[string][][]byte{}
		for i := 0; i < 4; i++ {
			_, sk := sch.DeriveKeyPair(vlib.Bytes(rng, sch.SeedSize()))
			b, _ := sk.MarshalBinary()
			clk["valid"] = append(clk["valid"], b)
		}
		fs = append(fs, family{"xkem-key", sch.Name() + " UnmarshalBinaryPrivateKey", func(b []byte) (bool, bool, bool) {
			sk, err := sch.UnmarshalBinaryPrivateKey(b)
			if err != nil {
				return false, false, false
			}
			re, _ := sk.MarshalBinary()
			return true, bytes.Equal(re, b), true
		}, clk})
	}
	{
		g := group.Ristretto255
		p := new(big.Int).Sub(new(big.Int).Lsh(big1, 255), big.NewInt(19))
		cl := map[string][][]byte{}
		for i := 0; i < 16; i++ {
			e := g.RandomElement(vlib.SeededReader{R: rng})
			if i == 0 {
				e = g.Identity()
			} else if i == 1 {
				e = g.Generator()
			}
			b, _ := e.MarshalBinary()
			cl["valid"] = append(cl["valid"], b)
			s := vlib.FromLE(b)
			// negative (odd) representative p - s, and s + p where it fits
			if s.Sign() != 0 {
				cl["bad-flags"] = append(cl["bad-flags"], vlib.ToLE(new(big.Int).Sub(p, s), 32))
			}
			sp := new(big.Int).Add(s, p)
			if sp.BitLen() <= 255 {
				cl["coord-gt-p"] = append(cl["coord-gt-p"], vlib.ToLE(sp, 32))
			}
			hb := append([]byte{}, b...)
			hb[31] |= 0x80
			cl["spare-bits"] = append(cl["spare-bits"], hb)
		}
		cl["coord-eq-p"] = append(cl["coord-eq-p"], vlib.ToLE(p, 32))
		cl["coord-gt-p"] = append(cl["coord-gt-p"], bytes.Repeat([]byte{0xff}, 32), vlib.ToLE(new(big.Int).Add(p, big.NewInt(2)), 32))
		l25519, _ := new(big.Int).SetString("7237005577332262213973186563042994240857116359379907606001950938285454250989", 10)
		fs = append(fs, family{"ristretto255", "group.Ristretto255", func(b []byte) (bool, bool, bool) {
			e := g.NewElement()
			if e.UnmarshalBinary(b) != nil {
				return false, false, false
			}
			re, _ := e.MarshalBinary()
			s := g.NewScalar().SetBigInt(new(big.Int).Sub(l25519, big1))
			t := g.NewElement().Mul(e, s)
			t.Add(t, e)
			return true, bytes.Equal(re, b), t.IsIdentity()
		}, cl})
		fs = append(fs, family{"oprf-pk", "oprf.PublicKey ristretto255", func(b []byte) (bool, bool, bool) {
			var pk oprf.PublicKey
			if pk.UnmarshalBinary(oprf.SuiteRistretto255, b) != nil {
				return false, false, false
			}
			re, _ := pk.MarshalBinary()
			return true, bytes.Equal(re, b), true
		}, cl})
	}
	{ // FourQ: 32 bytes = y0 (16 LE, top bit clear) || y1 (16 LE, top bit = sign of x); coordinates in [0, 2^127-1)
		p := new(big.Int).Sub(new(big.Int).Lsh(big1, 127), big1)
		cl := map[string][][]byte{}
		var G fourq.Point
		G.SetGenerator()
		for i := 0; i < 12; i++ {
			var k [32]byte
			copy(k[:], vlib.Bytes(rng, 32))
			if i < 3 {
				k = [32]byte{byte(i + 1)}
			}
			var P fourq.Point
			P.ScalarBaseMult(&k)
			var b [32]byte
			P.Marshal(&b)
			cl["valid"] = append(cl["valid"], b[:])
			if i < 6 { // y0 = 0 or y1 = 0 happens never for random points; aliases of the coordinate value 0 are tested below
				c := append([]byte{}, b[:]...)
				c[15] |= 0x80 // bit 127 of y0 is a spare bit of the format
				cl["spare-bits"] = append(cl["spare-bits"], c)
			}
		}
		// coordinate = p is an alias of 0: encode the (valid) points with y0 = 0 or y1 = 0 ... the identity (0,1): y = 1 + 0i
		id := make([]byte, 32)
		id[0] = 1
		cl["valid"] = append(cl["valid"], id)
		alias := append([]byte{}, id...)
		copy(alias[16:], vlib.ToLE(p, 16)) // y1 = p instead of 0
		cl["coord-eq-p"] = append(cl["coord-eq-p"], alias)
		alias2 := vlib.ToLE(p, 16) // y0 = p (= 0), y1 = 1 : y = i, the point (0? , i)
		alias2 = append(alias2, make([]byte, 16)...)
		alias2[16] = 1
		zero0 := make([]byte, 32)
		zero0[16] = 1
		cl["random"] = append(cl["random"], zero0) // y = i: validity unknown to the harness -> consistency only
		cl["coord-eq-p"] = append(cl["coord-eq-p"], alias2)
		// the points of order 4, (i, 0) and (-i, 0): y = 0, and x is purely imaginary (the square root of the real non-residue -1)
		o4 := make([]byte, 32)
		o4n := make([]byte, 32)
		o4n[31] = 0x80
		cl["valid"] = append(cl["valid"], o4, o4n)
		N := fourq.Params().N
		fs = append(fs, family{"fourq-point", "fourq.Point.Unmarshal", func(b []byte) (bool, bool, bool) {
			var in [32]byte
			copy(in[:], b)
			var P fourq.Point
			if !P.Unmarshal(&in) {
				return false, false, false
			}
			var re [32]byte
			P.Marshal(&re)
			return true, bytes.Equal(re[:], b), P.IsOnCurve()
		}, cl})
		// Curve4Q Diffie-Hellman: whatever shared secret is produced from a peer value must be a point of the order-N subgroup
		clq := map[string][][]byte{"valid": cl["valid"][:12], "random": nil, "coord-eq-p": cl["coord-eq-p"]}
		var sk, pkb curve4q.Key
		copy(sk[:], vlib.Bytes(rng, 32))
		curve4q.KeyGen(&pkb, &sk)
		// low-order inputs: the identity and the point of order 2 must not produce a secret
		clq["bad-flags"] = append(clq["bad-flags"], id)
		nbytes := vlib.ToLE(N, 32)
		fs = append(fs, family{"curve4q-shared", "curve4q.Shared", func(b []byte) (bool, bool, bool) {
			var peer, ss curve4q.Key
			copy(peer[:], b)
			if !curve4q.Shared(&ss, &sk, &peer) {
				return false, false, false
			}
			var S fourq.Point
			in := [32]byte(ss)
			if !S.Unmarshal(&in) {
				return true, true, false
			}
			// N * S must be the identity (through 392-clearing multiplication the result is 392*N*S, also the identity)
			var T fourq.Point
			var nk [32]byte
			copy(nk[:], nbytes)
			T.ScalarMult(&nk, &S)
			return true, true, T.IsIdentity() && !S.IsIdentity()
		}, clq})
	}
	for _, name := range []string{"ML-KEM-512", "ML-KEM-768", "ML-KEM-1024"} { // 12-bit coefficients must be < q = 3329
		sch := schemes.ByName(name)
		cl := map[string][][]byte{}
		for i := 0; i < 4; i++ {
			pk, _ := sch.DeriveKeyPair(vlib.Bytes(rng, sch.SeedSize()))
			b, _ := pk.MarshalBinary()
			cl["valid"] = append(cl["valid"], b)
			ncoef := (len(b) - 32) * 2 / 3
			for _, val := range []int{3329, 3330, 4095} {
				for _, idx := range []int{0, 1, 255, 256, ncoef - 2, ncoef - 1, rng.Intn(ncoef)} {
					c := append([]byte{}, b...)
					o := 3 * (idx / 2)
					if idx%2 == 0 {
						c[o] = byte(val)
						c[o+1] = (c[o+1] & 0xf0) | byte(val>>8)
					} else {
						c[o+1] = (c[o+1] & 0x0f) | byte(val<<4)
						c[o+2] = byte(val >> 4)
					}
					cls := "coord-gt-p"
					if val == 3329 {
						cls = "coord-eq-p"
					}
					cl[cls] = append(cl[cls], c)
				}
			}
		}
		fs = append(fs, family{"mlkem-ek", name + " UnmarshalBinaryPublicKey", func(b []byte) (bool, bool, bool) {
			pk, err := sch.UnmarshalBinaryPublicKey(b)
			if err != nil {
				return false, false, false
			}
			re, _ := pk.MarshalBinary()
			return true, bytes.Equal(re, b), true
		}, cl})
	}
	return fs
}
