// Driver for C07: for every suite/mode term record emitted by spec/C07/HpkeSetup.tla, concretise the
// inputs, run the real hpke Sender/Receiver, compare every derived value with the evaluated RFC 9180
// terms, and record the outcomes (including PSK-rule and deviating-receiver scenarios) for TLC to judge.
package main

import (
	"bytes"
	"encoding/json"
	"flag"
	"fmt"
	"math/big"
	"os"
	"sync"

	"github.com/cloudflare/circl/hpke"
	"github.com/cloudflare/circl/kem"
	"github.com/cloudflare/circl/zzverif/terms"
	"github.com/cloudflare/circl/zzverif/vlib"
)

type line struct {
	Ev        string `json:"ev"`
	Kem       int    `json:"kem"`
	Kdf       int    `json:"kdf"`
	Aead      int    `json:"aead"`
	Mode      int    `json:"mode"`
	Pskp      string `json:"pskp"`
	Dev       string `json:"dev"`
	SenderErr bool   `json:"sender_err"`
	KeysEq    bool   `json:"keys_eq"`    // DeriveKeyPair(ikmR) equals the RFC derivation (pk and sk bytes)
	EncEq     bool   `json:"enc_eq"`     // encapsulated key equals the term
	KeyEq     bool   `json:"key_eq"`     // AEAD key
	NonceEq   bool   `json:"nonce_eq"`   // base nonce
	ExpEq     bool   `json:"exp_eq"`     // exporter secret
	CtEq      bool   `json:"ct_eq"`      // first sealed ciphertext
	ExportsEq bool   `json:"exports_eq"` // Export for every length in ExportLens
	RecvOK    bool   `json:"recv_ok"`
	Opens     bool   `json:"opens"`
	RExportEq bool   `json:"rexport_eq"`
	OpensAll  bool   `json:"opens_all"` // honest receiver: later ciphertexts still open after a rejected (altered / wrong-aad) one
	Note      string `json:"note"`
	// inputs and outputs of a base / PSK mode sender setup of DHKEM(X25519, HKDF-SHA256) + HKDF-SHA256, for spec/C07/HpkeJob.tla
	Job *hpkeJob `json:"job,omitempty"`
}

type hpkeJob struct {
	Mode      int   `json:"mode"`
	Aead      int   `json:"aead"`
	Nk        int   `json:"nk"`
	IkmE      []int `json:"ikmE"`
	PkR       []int `json:"pkR"`
	Info      []int `json:"info"`
	Psk       []int `json:"psk"`
	PskID     []int `json:"psk_id"`
	Enc       []int `json:"enc"`
	Key       []int `json:"key"`
	BaseNonce []int `json:"base_nonce"`
	Exp       []int `json:"exp"`
	// DHKEM(P-256) jobs (spec/C07/HpkeP256Job.tla) also cover the auth modes
	Kem int   `json:"kem"`
	SkS []int `json:"skS"`
	PkS []int `json:"pkS"`
}

func jints(b []byte) []int {
	o := make([]int, len(b))
	for i := range b {
		o[i] = int(b[i])
	}
	return o
}

func parseCtx(m []byte) (exp, key, base []byte, ok bool) {
	defer func() {
		if recover() != nil {
			ok = false
		}
	}()
	pos := 1 + 6
	el := int(m[pos])
	exp = m[pos+1 : pos+1+el]
	pos += 1 + el
	kl := int(m[pos])
	key = m[pos+1 : pos+1+kl]
	pos += 1 + kl
	nl := int(m[pos])
	base = m[pos+1 : pos+1+nl]
	return exp, key, base, true
}

func maybeNil(r interface{ Intn(int) int }, b []byte) []byte {
	if len(b) == 0 && r.Intn(2) == 0 {
		return nil
	}
	return b
}

var lowOrder = map[int][][]byte{
	32: {make([]byte, 32), append([]byte{1}, make([]byte, 31)...), vlib.UnHex("e0eb7a7c3b41b8ae1656e3faf19fc46ada098deb9c32b1fd866205165f49b800"),
		vlib.UnHex("5f9c95bca3508c24b1d0b1559c83ef5b04445cc4581c8e86d8224eddd09f1157"),
		vlib.UnHex("ecffffffffffffffffffffffffffffffffffffffffffffffffffffffffffff7f"), vlib.UnHex("edffffffffffffffffffffffffffffffffffffffffffffffffffffffffffff7f")},
	56: {make([]byte, 56), append([]byte{1}, make([]byte, 55)...), le448(-1), le448(0), le448(1)},
}

// le448 returns p + d, p = 2^448 - 2^224 - 1, as 56 little-endian bytes
func le448(d int64) []byte {
	p := new(big.Int).Sub(new(big.Int).Sub(new(big.Int).Lsh(big.NewInt(1), 448), new(big.Int).Lsh(big.NewInt(1), 224)), big.NewInt(1))
	b := p.Add(p, big.NewInt(d)).FillBytes(make([]byte, 56))
	for i, j := 0, 55; i < j; i, j = i+1, j-1 {
		b[i], b[j] = b[j], b[i]
	}
	return b
}

func must(b []byte, err error) []byte {
	if err != nil {
		panic(err)
	}
	return b
}

func main() {
	sf := flag.String("suites", "", "suites.json from TLC")
	out := flag.String("out", "trace.ndjson", "")
	seed := flag.Int64("seed", 1, "")
	reps := flag.Int("reps", 1, "concretisations per scenario")
	flag.Parse()
	raw, err := os.ReadFile(*sf)
	if err != nil {
		vlib.Die("%v", err)
	}
	var suites []map[string]interface{}
	dec := json.NewDecoder(bytes.NewReader(raw))
	if err := dec.Decode(&suites); err != nil {
		vlib.Die("suites: %v", err)
	}
	o := vlib.Create(*out)
	defer o.Close()
	var mu sync.Mutex
	var wg sync.WaitGroup
	sem := make(chan struct{}, 16)
	devs := []string{"none", "skR", "info", "psk", "psk_id", "mode", "pkS", "pkS-low-order", "enc"}
	for si, s := range suites {
		si, s := si, s
		wg.Add(1)
		sem <- struct{}{}
		go func() {
			defer func() { <-sem; wg.Done() }()
			rng := vlib.Rng(*seed, fmt.Sprintf("c07-%d", si))
			kemID, kdfID, aeadID := hpke.KEM(int(s["kem"].(float64))), hpke.KDF(int(s["kdf"].(float64))), hpke.AEAD(int(s["aead"].(float64)))
			mode := int(s["mode"].(float64))
			black := s["blackbox"].(bool)
			suite := hpke.NewSuite(kemID, kdfID, aeadID)
			sch := kemID.Scheme()
			ctxT := s["ctx"].(map[string]interface{})
			isPsk, isAuth := mode == 1 || mode == 3, mode >= 2
			pskps := []string{"none"}
			if isPsk {
				pskps = []string{"both", "none", "psk-only", "id-only"}
			}
			for rep := 0; rep < *reps; rep++ {
				for _, pskp := range pskps {
					for _, dev := range devs {
						if pskp != "both" && pskp != "none" && dev != "none" {
							continue
						}
						if isPsk && pskp == "none" && dev != "none" {
							continue
						}
						ln := line{Ev: "setup", Kem: int(kemID), Kdf: int(kdfID), Aead: int(aeadID), Mode: mode, Pskp: pskp, Dev: dev}
						env := terms.NewEnv()
						v := env.Vars
						v["ikmR"], v["ikmE"], v["ikmS"] = vlib.Bytes(rng, sch.SeedSize()), vlib.Bytes(rng, sch.EncapsulationSeedSize()), vlib.Bytes(rng, sch.SeedSize())
						lens := []int{0, 1, 20, 64, 300}
						v["info"] = maybeNil(rng, vlib.Bytes(rng, lens[rng.Intn(len(lens))]))
						v["psk"], v["psk_id"] = vlib.Bytes(rng, 32+rng.Intn(40)), vlib.Bytes(rng, 1+rng.Intn(40))
						v["aad"], v["pt"], v["ectx"] = maybeNil(rng, vlib.Bytes(rng, lens[rng.Intn(4)])), vlib.Bytes(rng, lens[rng.Intn(5)]), vlib.Bytes(rng, rng.Intn(40))
						pkR, skR := sch.DeriveKeyPair(v["ikmR"])
						pkS, skS := sch.DeriveKeyPair(v["ikmS"])
						pkRb, _ := pkR.MarshalBinary()
						skRb, _ := skR.MarshalBinary()
						skSb, _ := skS.MarshalBinary()
						ln.KeysEq = true
						if !black {
							ln.KeysEq = bytes.Equal(terms.Eval(s["pkR"], env), pkRb) && bytes.Equal(terms.Eval(s["skR"], env), skRb)
							v["pkR"], v["skS"] = terms.Eval(s["pkR"], env), terms.Eval(s["skR"], env) // placeholders, fixed below
							v["pkR"] = terms.Eval(s["pkR"], env)
							e2 := terms.NewEnv()
							e2.Vars["ikmR"] = v["ikmS"]
							v["skS"] = terms.Eval(s["skR"], e2) // DeriveSk(ikmS): same derivation applied to the sender's ikm
							if !bytes.Equal(v["skS"], skSb) {
								ln.KeysEq = false
							}
						}
						var psk, pskID []byte
						switch pskp {
						case "both":
							psk, pskID = v["psk"], v["psk_id"]
						case "psk-only":
							psk = v["psk"]
						case "id-only":
							pskID = v["psk_id"]
						}
						// RFC 9180 5.1 compares with the EMPTY default: an absent value may be spelled nil or as an empty slice
						if isPsk && (rep+int(kemID)+int(kdfID)+int(aeadID))%2 == 1 {
							ln.Note = "absent PSK inputs spelled as empty slices; "
							if psk == nil {
								psk = []byte{}
							}
							if pskID == nil {
								pskID = []byte{}
							}
						}
						if !isPsk {
							v["psk"], v["psk_id"] = nil, nil
						}
						snd, _ := suite.NewSender(pkR, v["info"])
						var enc []byte
						var sealer hpke.Sealer
						var serr error
						if !isPsk && (rep+int(kemID)+int(kdfID)+int(aeadID))%2 == 1 && dev == "none" {
							// the Sender object has been used for a PSK-mode setup before: what it does now must not depend on that
							_, _, _ = snd.SetupPSK(&vlib.BytesReader{B: v["ikmE"]}, vlib.Bytes(rng, 32), []byte("earlier id"))
							ln.Note += "sender reused after SetupPSK; "
						}
						rd := &vlib.BytesReader{B: v["ikmE"]}
						if (rep+int(kemID)+int(aeadID)+mode)%3 == 1 { // the randomness arrives a few bytes per Read: the same ikmE, the same setup
							rd.Chunk = 1 + (rep+mode)%7
							ln.Note += "randomness read in chunks; "
						}
						switch mode {
						case 0:
							enc, sealer, serr = snd.Setup(rd)
						case 1:
							enc, sealer, serr = snd.SetupPSK(rd, psk, pskID)
						case 2:
							enc, sealer, serr = snd.SetupAuth(rd, skS)
						case 3:
							enc, sealer, serr = snd.SetupAuthPSK(rd, skS, psk, pskID)
						}
						ln.SenderErr = serr != nil
						if serr != nil {
							ln.Note = serr.Error()
							mu.Lock()
							o.Emit(ln)
							mu.Unlock()
							continue
						}
						if pskp != "both" { // the spec's terms for an (erroneously) accepted setup without PSK: psk = psk_id = empty
							v["psk"], v["psk_id"] = psk, pskID
						}
						if black {
							ct, ss, err := sch.EncapsulateDeterministically(pkR, v["ikmE"])
							if err != nil {
								vlib.Die("EncapsulateDeterministically: %v", err)
							}
							v["ss"] = ss
							ln.EncEq = bytes.Equal(ct, enc)
						} else {
							ln.EncEq = bytes.Equal(terms.Eval(s["enc"], env), enc)
							v["ss"] = terms.Eval(s["ss"], env)
						}
						mb, _ := sealer.MarshalBinary()
						exp, key, base, ok := parseCtx(mb)
						if !ok {
							vlib.Die("context serialisation changed")
						}
						exp, key, base = append([]byte{}, exp...), append([]byte{}, key...), append([]byte{}, base...)
						if int(kemID) == 0x20 && int(kdfID) == 1 && (mode == 0 || (mode == 1 && pskp == "both")) && dev == "none" {
							ln.Job = &hpkeJob{Mode: mode, Aead: int(aeadID), Nk: len(key), IkmE: jints(v["ikmE"][:32]), PkR: jints(pkRb), Info: jints(v["info"]),
								Psk: jints(psk), PskID: jints(pskID), Enc: jints(enc), Key: jints(key), BaseNonce: jints(base), Exp: jints(exp), SkS: []int{}, PkS: []int{}}
						}
						if int(kemID) == 0x10 && int(kdfID) == 1 && ((mode%2 == 0 && pskp == "none") || (mode%2 == 1 && pskp == "both")) && dev == "none" {
							pkSb, _ := pkS.MarshalBinary()
							j := &hpkeJob{Kem: 0x10, Mode: mode, Aead: int(aeadID), Nk: len(key), IkmE: jints(v["ikmE"][:32]), PkR: jints(pkRb), Info: jints(v["info"]),
								Psk: jints(psk), PskID: jints(pskID), Enc: jints(enc), Key: jints(key), BaseNonce: jints(base), Exp: jints(exp), SkS: []int{}, PkS: []int{}}
							if mode >= 2 {
								j.SkS, j.PkS = jints(skSb), jints(pkSb)
							}
							ln.Job = j
						}
						ln.KeyEq = bytes.Equal(terms.Eval(ctxT["key"], env), key)
						ln.NonceEq = bytes.Equal(terms.Eval(ctxT["base_nonce"], env), base)
						ln.ExpEq = bytes.Equal(terms.Eval(ctxT["exp"], env), exp)
						v["key"], v["base_nonce"], v["exp"] = terms.Eval(ctxT["key"], env), terms.Eval(ctxT["base_nonce"], env), terms.Eval(ctxT["exp"], env)
						ct0, err := sealer.Seal(v["pt"], v["aad"])
						ln.CtEq = err == nil && bytes.Equal(terms.Eval(ctxT["ct0"], env), ct0)
						ln.ExportsEq = true
						for L, et := range ctxT["exports"].(map[string]interface{}) {
							var n int
							fmt.Sscan(L, &n)
							if !bytes.Equal(sealer.Export(v["ectx"], uint(n)), terms.Eval(et, env)) {
								ln.ExportsEq = false
								ln.Note += " export L=" + L
							}
						}
						// ---- receiver, possibly deviating in exactly one input
						rskR, rinfo, rpsk, rpskID, rpkS, renc, rmode := skR, v["info"], psk, pskID, pkS, enc, mode
						switch dev {
						case "skR":
							_, rskR = sch.DeriveKeyPair(vlib.Bytes(rng, sch.SeedSize()))
						case "info":
							rinfo = append(append([]byte{}, v["info"]...), 'x')
						case "psk":
							rpsk = append([]byte{}, psk...)
							if len(rpsk) > 0 {
								rpsk[rng.Intn(len(rpsk))] ^= 1
							}
						case "psk_id":
							rpskID = append([]byte{}, pskID...)
							if len(rpskID) > 0 {
								rpskID[rng.Intn(len(rpskID))] ^= 0x80
							}
						case "pkS":
							rpkS, _ = sch.DeriveKeyPair(vlib.Bytes(rng, sch.SeedSize()))
						case "pkS-low-order":
							// a sender identity of low order makes DH(skR, pkS) all zero: RFC 9180 7.1.4 demands an error (X25519 / X448 KEMs)
							isAuthHere := mode >= 2
							lows := lowOrder[len(must(pkS.MarshalBinary()))]
							if !isAuthHere || len(lows) == 0 {
								continue
							}
							lp, err := sch.UnmarshalBinaryPublicKey(lows[rng.Intn(len(lows))])
							if err != nil {
								continue // refused at decoding: fine
							}
							rpkS = lp
						case "enc":
							renc = append([]byte{}, enc...)
							renc[rng.Intn(len(renc))] ^= 1 << uint(rng.Intn(8))
						case "mode":
							if _, ok := sch.(kem.AuthScheme); ok && !black {
								rmode = (mode + 2) % 4
							} else {
								rmode = mode ^ 1
								if rmode == 1 {
									rpsk, rpskID = vlib.Bytes(rng, 32), []byte("id")
								}
							}
						}
						applies := dev == "none" || dev == "skR" || dev == "info" || dev == "mode" || dev == "enc" ||
							((dev == "pkS" || dev == "pkS-low-order") && isAuth) || ((dev == "psk" || dev == "psk_id") && isPsk && pskp == "both")
						if !applies {
							continue
						}
						rcv, _ := suite.NewReceiver(rskR, rinfo)
						var opener hpke.Opener
						var rerr error
						oc := vlib.Safe(2e10, func() {
							switch rmode {
							case 0:
								opener, rerr = rcv.Setup(renc)
							case 1:
								opener, rerr = rcv.SetupPSK(renc, rpsk, rpskID)
							case 2:
								opener, rerr = rcv.SetupAuth(renc, rpkS)
							case 3:
								opener, rerr = rcv.SetupAuthPSK(renc, rpsk, rpskID, rpkS)
							}
						})
						if oc.Panic != "" || oc.Timeout {
							rerr = fmt.Errorf("panic/timeout: %s", oc.Panic)
						}
						ln.RecvOK = rerr == nil
						if rerr == nil {
							pt, err := opener.Open(ct0, v["aad"])
							ln.Opens = err == nil && bytes.Equal(pt, v["pt"])
							ln.RExportEq = bytes.Equal(opener.Export(v["ectx"], 32), sealer.Export(v["ectx"], 32))
							if dev == "none" && ln.Opens {
								ct1, e1 := sealer.Seal([]byte("second"), v["aad"])
								ct2, e2 := sealer.Seal(nil, nil)
								bad := append([]byte{}, ct1...)
								bad[rng.Intn(len(bad))] ^= 4
								_, ea := opener.Open(bad, v["aad"])
								_, eb := opener.Open(ct1, []byte("other aad"))
								_, ec := opener.Open(ct2, nil) // out of order
								p1, e3 := opener.Open(ct1, v["aad"])
								p2, e4 := opener.Open(ct2, nil)
								ln.OpensAll = e1 == nil && e2 == nil && ea != nil && eb != nil && ec != nil && e3 == nil && e4 == nil &&
									string(p1) == "second" && len(p2) == 0
							}
						}
						mu.Lock()
						o.Emit(ln)
						mu.Unlock()
					}
				}
			}
		}()
	}
	wg.Wait()
	fmt.Printf("lines=%d\n", o.N)
}
