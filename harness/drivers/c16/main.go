// Driver for C16: OPRF (3 modes x 4 suites), DLEQ, Schnorr, DLEQ in the squares modulo N, simplest OT.
// Runs honest executions and every single-component alteration / degenerate proof assembly, and records
// aggregated outcomes per (object, site) for TLC (spec/C16/Trace_Proofs.tla).
package main

import (
	"bytes"
	"crypto"
	"crypto/rsa"
	"encoding/binary"
	"flag"
	"fmt"
	"math/big"
	"math/rand"
	"time"

	"github.com/cloudflare/circl/group"
	"github.com/cloudflare/circl/oprf"
	"github.com/cloudflare/circl/ot/simot"
	"github.com/cloudflare/circl/zk/dl"
	"github.com/cloudflare/circl/zk/dleq"
	"github.com/cloudflare/circl/zk/qndleq"
	"github.com/cloudflare/circl/zzverif/vlib"
	"golang.org/x/crypto/sha3"
)

type line struct {
	Ev     string `json:"ev"`
	Obj    string `json:"obj"`
	Mode   string `json:"mode"`
	Site   string `json:"site"`
	Total  int    `json:"total"`
	Panics int    `json:"panics"`
	// oprf
	FinalizeOK       int  `json:"finalize_ok"`
	EqualsFull       int  `json:"equals_full"`
	BlindIndependent bool `json:"blind_independent"`
	BatchConsistent  bool `json:"batch_consistent"`
	ServerVerifyOK   bool `json:"server_verify_ok"`
	// proofs
	Accepted int `json:"accepted"`
	// ot
	GotChosen     int    `json:"got_chosen"`
	OtherDecrypts int    `json:"other_decrypts"`
	Note          string `json:"note"`
}

func safe(f func()) bool { oc := vlib.Safe(30*time.Second, f); return oc.Panic != "" || oc.Timeout }

func main() {
	out := flag.String("out", "trace.ndjson", "")
	seed := flag.Int64("seed", 1, "")
	reps := flag.Int("reps", 2, "")
	h2cOut := flag.String("h2c", "", "")
	nh2c := flag.Int("nh2c", 4, "")
	flag.Parse()
	if *h2cOut != "" {
		h2c(*h2cOut, vlib.Rng(*seed, "c16-h2c"), *nh2c)
	}
	rng := vlib.Rng(*seed, "c16")
	rd := vlib.SeededReader{R: rng}
	o := vlib.Create(*out)
	defer o.Close()

	suites := []oprf.Suite{oprf.SuiteRistretto255, oprf.SuiteP256, oprf.SuiteP384, oprf.SuiteP521}
	modes := []struct {
		m    oprf.Mode
		name string
	}{{oprf.BaseMode, "base"}, {oprf.VerifiableMode, "voprf"}, {oprf.PartialObliviousMode, "poprf"}}
	sites := []string{"none", "eval-element", "eval-swap", "proof-c", "proof-s", "other-key", "other-info", "blinded-element", "eval-identity", "proof-zero", "proof-nil", "zero-blind"}
	for _, su := range suites {
		g := su.Group()
		for _, md := range modes {
			agg := map[string]*line{}
			for _, s := range sites {
				agg[s] = &line{Ev: "oprf", Obj: su.Identifier(), Mode: md.name, Site: s, BlindIndependent: true, BatchConsistent: true, ServerVerifyOK: true}
			}
			for rep := 0; rep < *reps; rep++ {
				var key *oprf.PrivateKey
				var err error
				if rep%2 == 0 {
					key, err = oprf.DeriveKey(su, md.m, vlib.Bytes(rng, 32), vlib.Bytes(rng, rng.Intn(20)))
				} else {
					key, err = oprf.GenerateKey(su, rd)
				}
				if err != nil {
					vlib.Die("oprf key: %v", err)
				}
				key2, _ := oprf.GenerateKey(su, rd)
				nin := 1 + rng.Intn(4)
				inputs := make([][]byte, nin)
				lens := []int{0, 1, 17, 64, 300, 65535}
				for i := range inputs {
					inputs[i] = vlib.Bytes(rng, lens[rng.Intn(len(lens)-1+rep%2)])
				}
				info := vlib.Bytes(rng, []int{0, 1, 30, 200}[rng.Intn(4)])
				// the three client/server pairs behind one closure set
				type fin = func(fd *oprf.FinalizeData, ev *oprf.Evaluation, pk *oprf.PublicKey, inf []byte) ([][]byte, error)
				var blind func() (*oprf.FinalizeData, *oprf.EvaluationRequest, error)
				var detBlind func(bl []oprf.Blind) (*oprf.FinalizeData, *oprf.EvaluationRequest, error)
				var evaluate func(req *oprf.EvaluationRequest, inf []byte) (*oprf.Evaluation, error)
				var finalize fin
				var full func(in, inf []byte) ([]byte, error)
				var sverify func(in, inf, outp []byte) bool
				switch md.m {
				case oprf.BaseMode:
					c, s := oprf.NewClient(su), oprf.NewServer(su, key)
					blind = func() (*oprf.FinalizeData, *oprf.EvaluationRequest, error) { return c.Blind(inputs) }
					detBlind = func(bl []oprf.Blind) (*oprf.FinalizeData, *oprf.EvaluationRequest, error) {
						return c.DeterministicBlind(inputs, bl)
					}
					evaluate = func(req *oprf.EvaluationRequest, inf []byte) (*oprf.Evaluation, error) { return s.Evaluate(req) }
					finalize = func(fd *oprf.FinalizeData, ev *oprf.Evaluation, pk *oprf.PublicKey, inf []byte) ([][]byte, error) {
						return c.Finalize(fd, ev)
					}
					full = func(in, inf []byte) ([]byte, error) { return s.FullEvaluate(in) }
					sverify = func(in, inf, outp []byte) bool { return s.VerifyFinalize(in, outp) }
				case oprf.VerifiableMode:
					c, s := oprf.NewVerifiableClient(su, key.Public()), oprf.NewVerifiableServer(su, key)
					blind = func() (*oprf.FinalizeData, *oprf.EvaluationRequest, error) { return c.Blind(inputs) }
					detBlind = func(bl []oprf.Blind) (*oprf.FinalizeData, *oprf.EvaluationRequest, error) {
						return c.DeterministicBlind(inputs, bl)
					}
					evaluate = func(req *oprf.EvaluationRequest, inf []byte) (*oprf.Evaluation, error) { return s.Evaluate(req) }
					finalize = func(fd *oprf.FinalizeData, ev *oprf.Evaluation, pk *oprf.PublicKey, inf []byte) ([][]byte, error) {
						return oprf.NewVerifiableClient(su, pk).Finalize(fd, ev)
					}
					full = func(in, inf []byte) ([]byte, error) { return s.FullEvaluate(in) }
					sverify = func(in, inf, outp []byte) bool { return s.VerifyFinalize(in, outp) }
				default:
					c, s := oprf.NewPartialObliviousClient(su, key.Public()), oprf.NewPartialObliviousServer(su, key)
					blind = func() (*oprf.FinalizeData, *oprf.EvaluationRequest, error) { return c.Blind(inputs) }
					detBlind = func(bl []oprf.Blind) (*oprf.FinalizeData, *oprf.EvaluationRequest, error) {
						return c.DeterministicBlind(inputs, bl)
					}
					evaluate = func(req *oprf.EvaluationRequest, inf []byte) (*oprf.Evaluation, error) { return s.Evaluate(req, inf) }
					finalize = func(fd *oprf.FinalizeData, ev *oprf.Evaluation, pk *oprf.PublicKey, inf []byte) ([][]byte, error) {
						return oprf.NewPartialObliviousClient(su, pk).Finalize(fd, ev, inf)
					}
					full = func(in, inf []byte) ([]byte, error) { return s.FullEvaluate(in, inf) }
					sverify = func(in, inf, outp []byte) bool { return s.VerifyFinalize(in, inf, outp) }
				}
				fd, req, err := blind()
				if err != nil {
					vlib.Die("blind: %v", err)
				}
				ev, err := evaluate(req, info)
				if err != nil {
					vlib.Die("evaluate: %v", err)
				}
				// honest run, blind independence (fresh blinds, structured blinds), batch consistency
				hl := agg["none"]
				outs, err := finalize(fd, ev, key.Public(), info)
				hl.Total++
				if err == nil && len(outs) == nin {
					hl.FinalizeOK++
					eq := true
					for i := range inputs {
						f, e := full(inputs[i], info)
						if e != nil || !bytes.Equal(f, outs[i]) || !sverify(inputs[i], info, outs[i]) {
							eq = false
						}
						if sverify(inputs[i], info, append([]byte{1}, outs[i][1:]...)) && outs[i][0] != 1 {
							hl.ServerVerifyOK = false
						}
					}
					if eq {
						hl.EqualsFull++
					}
					// other blinds: 1, order-1, random
					bl := make([]oprf.Blind, nin)
					for i := range bl {
						switch i % 3 {
						case 0:
							bl[i] = g.NewScalar().SetUint64(1)
						case 1:
							bl[i] = g.NewScalar().Neg(g.NewScalar().SetUint64(1))
						default:
							bl[i] = g.RandomNonZeroScalar(rd)
						}
					}
					fd2, req2, e2 := detBlind(bl)
					if e2 == nil {
						ev2, _ := evaluate(req2, info)
						o2, e3 := finalize(fd2, ev2, key.Public(), info)
						if e3 != nil {
							hl.BlindIndependent = false
						} else {
							for i := range outs {
								if !bytes.Equal(o2[i], outs[i]) {
									hl.BlindIndependent = false
								}
							}
						}
					} else {
						hl.BlindIndependent = false
					}
					// batch of one, each input separately
					for i := range inputs {
						one := [][]byte{inputs[i]}
						saved := inputs
						inputs = one
						fd1, req1, _ := blind()
						ev1, _ := evaluate(req1, info)
						o1, e1 := finalize(fd1, ev1, key.Public(), info)
						inputs = saved
						if e1 != nil || !bytes.Equal(o1[0], outs[i]) {
							hl.BatchConsistent = false
						}
					}
				}
				// a zero blind (RFC 9497 blinds are non-zero): the blinded element is the identity and 1/0 = 0, so the call sequence either
				// fails somewhere or - every mode - returns the server's direct evaluation; finalize_ok counts WRONG outputs here
				{
					zl := agg["zero-blind"]
					zl.Total++
					bl := make([]oprf.Blind, nin)
					for i := range bl {
						bl[i] = g.RandomNonZeroScalar(rd)
					}
					bl[rng.Intn(nin)] = g.NewScalar()
					if safe(func() {
						fdz, reqz, ez := detBlind(bl)
						if ez != nil {
							return
						}
						evz, ee := evaluate(reqz, info)
						if ee != nil {
							return
						}
						oz, ef := finalize(fdz, evz, key.Public(), info)
						if ef != nil {
							return
						}
						for i := range inputs {
							if f, e := full(inputs[i], info); e != nil || !bytes.Equal(f, oz[i]) {
								zl.FinalizeOK++
								return
							}
						}
					}) {
						zl.Panics++
					}
				}
				// alterations (each on a fresh copy of the honest evaluation)
				cp := func() *oprf.Evaluation {
					e := &oprf.Evaluation{Elements: make([]oprf.Evaluated, len(ev.Elements))}
					for i := range ev.Elements {
						e.Elements[i] = ev.Elements[i].Copy()
					}
					if ev.Proof != nil {
						b, _ := ev.Proof.MarshalBinary()
						p := new(dleq.Proof)
						if p.UnmarshalBinary(g, b) != nil {
							vlib.Die("proof round trip")
						}
						e.Proof = p
					}
					return e
				}
				try := func(site string, fd *oprf.FinalizeData, e *oprf.Evaluation, pk *oprf.PublicKey, inf []byte) {
					l := agg[site]
					l.Total++
					var err error
					if safe(func() { _, err = finalize(fd, e, pk, inf) }) {
						l.Panics++
					} else if err == nil {
						l.FinalizeOK++
					}
				}
				idx := rng.Intn(nin)
				{
					e := cp()
					e.Elements[idx] = g.NewElement().Add(e.Elements[idx], g.Generator())
					try("eval-element", fd, e, key.Public(), info)
					e = cp()
					e.Elements[idx] = g.NewElement().Neg(e.Elements[idx])
					try("eval-element", fd, e, key.Public(), info)
				}
				if nin >= 2 {
					e := cp()
					e.Elements[0], e.Elements[1] = e.Elements[1], e.Elements[0]
					try("eval-swap", fd, e, key.Public(), info)
				} else {
					agg["eval-swap"].Total++ // nothing to swap in a batch of one
				}
				{
					e := cp()
					e.Elements[idx] = g.Identity()
					try("eval-identity", fd, e, key.Public(), info)
				}
				if ev.Proof != nil {
					pb, _ := ev.Proof.MarshalBinary()
					half := len(pb) / 2
					for _, site := range []string{"proof-c", "proof-s"} {
						for k := 0; k < 3; k++ {
							b := append([]byte{}, pb...)
							off := 0
							if site == "proof-s" {
								off = half
							}
							b[off+rng.Intn(half)] ^= 1 << uint(rng.Intn(8))
							p := new(dleq.Proof)
							e := cp()
							if p.UnmarshalBinary(g, b) == nil {
								// ristretto255 scalars ignore the three top bits of their encoding: such a flip decodes to the SAME
								// proof component - another spelling, not an alteration of c or s
								if rb, _ := p.MarshalBinary(); bytes.Equal(rb, pb) {
									agg[site].Total++
									continue
								}
								e.Proof = p
								try(site, fd, e, key.Public(), info)
							} else {
								agg[site].Total++ // refused at decoding
							}
						}
					}
					for _, z := range [][]byte{make([]byte, len(pb)), append(make([]byte, half), pb[half:]...), append(append([]byte{}, pb[:half]...), make([]byte, half)...)} {
						p := new(dleq.Proof)
						e := cp()
						if p.UnmarshalBinary(g, z) == nil {
							e.Proof = p
							try("proof-zero", fd, e, key.Public(), info)
						} else {
							agg["proof-zero"].Total++
						}
					}
					{ // an evaluation that carries no proof at all (a server answering in base mode)
						e := cp()
						e.Proof = nil
						try("proof-nil", fd, e, key.Public(), info)
					}
					try("other-key", fd, cp(), key2.Public(), info)
					if md.m == oprf.PartialObliviousMode {
						try("other-info", fd, cp(), key.Public(), append(append([]byte{}, info...), 'x'))
						try("other-info", fd, cp(), key.Public(), nil)
						if len(info) == 0 {
							agg["other-info"].FinalizeOK-- // nil and empty info are the same input
							agg["other-info"].Total--
						}
					} else {
						agg["other-info"].Total++
					}
					// the client believes it sent other blinded elements than the server evaluated
					fdB, reqB, _ := blind()
					_ = reqB
					try("blinded-element", fdB, cp(), key.Public(), info)
				} else {
					for _, s := range []string{"proof-c", "proof-s", "proof-zero", "proof-nil", "other-key", "other-info", "blinded-element"} {
						agg[s].Total++
					}
				}
			}
			for _, s := range sites {
				o.Emit(*agg[s])
			}
		}
	}
	proofs(o, rng, *reps)
	fmt.Printf("lines=%d\n", o.N)
}

func proofs(o *vlib.Out, rng *rand.Rand, reps int) {
	rd := vlib.SeededReader{R: rng}
	groups := []group.Group{group.Ristretto255, group.P256, group.P384, group.P521}
	for _, g := range groups {
		// ---- DLEQ (single and batched)
		agg := map[string]*line{}
		get := func(obj, site string) *line {
			k := obj + "/" + site
			if agg[k] == nil {
				agg[k] = &line{Ev: "proof", Obj: obj, Site: site}
			}
			return agg[k]
		}
		rec := func(obj, site string, f func() bool) {
			l := get(obj, site)
			l.Total++
			var acc bool
			if safe(func() { acc = f() }) {
				l.Panics++
			} else if acc {
				l.Accepted++
			}
		}
		for rep := 0; rep < reps*2; rep++ {
			params := dleq.Params{G: g, H: crypto.SHA256, DST: []byte("c16 dst")}
			k := g.RandomNonZeroScalar(rd)
			A := g.RandomElement(rd)
			kA := g.NewElement().Mul(A, k)
			n := 1 + rep%3
			var Bs, kBs []group.Element
			for i := 0; i < n; i++ {
				B := g.RandomElement(rd)
				Bs, kBs = append(Bs, B), append(kBs, g.NewElement().Mul(B, k))
			}
			pr, err := dleq.Prover{Params: params}.ProveBatch(k, A, kA, Bs, kBs, rd)
			if err != nil {
				vlib.Die("dleq prove: %v", err)
			}
			v := dleq.Verifier{Params: params}
			obj := fmt.Sprintf("dleq %v", g)
			rec(obj, "none", func() bool { return v.VerifyBatch(A, kA, Bs, kBs, pr) })
			pb, _ := pr.MarshalBinary()
			half := len(pb) / 2
			alt := func(b []byte) *dleq.Proof {
				p := new(dleq.Proof)
				if p.UnmarshalBinary(g, b) != nil {
					return nil
				}
				return p
			}
			for _, site := range []string{"proof-c", "proof-s"} {
				b := append([]byte{}, pb...)
				off := 0
				if site == "proof-s" {
					off = half
				}
				b[off+rng.Intn(half)] ^= 1 << uint(rng.Intn(8))
				p := alt(b)
				if p != nil { // an ignored top bit of a ristretto255 scalar: flip a low bit as well so that the component really changes
					if rb, _ := p.MarshalBinary(); bytes.Equal(rb, pb) {
						b[off] ^= 1
						p = alt(b)
					}
				}
				rec(obj, site, func() bool { return p != nil && v.VerifyBatch(A, kA, Bs, kBs, p) })
			}
			// the encoded proof with bytes appended is not the encoding of a proof
			rec(obj, "proof-trailing", func() bool {
				p := alt(append(append([]byte{}, pb...), 0xaa))
				return p != nil && v.VerifyBatch(A, kA, Bs, kBs, p)
			})
			G1 := g.Generator()
			rec(obj, "statement-a", func() bool { return v.VerifyBatch(g.NewElement().Add(A, G1), kA, Bs, kBs, pr) })
			rec(obj, "statement-b", func() bool { return v.VerifyBatch(A, g.NewElement().Add(kA, G1), Bs, kBs, pr) })
			rec(obj, "statement-c", func() bool {
				B2 := append([]group.Element{}, Bs...)
				B2[rng.Intn(n)] = g.RandomElement(rd)
				return v.VerifyBatch(A, kA, B2, kBs, pr)
			})
			rec(obj, "statement-d", func() bool {
				D2 := append([]group.Element{}, kBs...)
				i := rng.Intn(n)
				D2[i] = g.NewElement().Add(D2[i], G1)
				return v.VerifyBatch(A, kA, Bs, D2, pr)
			})
			// the statement with one element more, resp. one element less, on the evaluated side
			rec(obj, "statement-length", func() bool {
				return v.VerifyBatch(A, kA, Bs, append(append([]group.Element{}, kBs...), g.RandomElement(rd)), pr)
			})
			rec(obj, "statement-length", func() bool { return v.VerifyBatch(A, kA, Bs, kBs[:n-1], pr) })
			rec(obj, "statement-length", func() bool {
				return v.VerifyBatch(A, kA, append(append([]group.Element{}, Bs...), g.RandomElement(rd)), kBs, pr)
			})
			if n >= 2 {
				rec(obj, "statement-d", func() bool {
					D2 := append([]group.Element{}, kBs...)
					D2[0], D2[1] = D2[1], D2[0]
					return v.VerifyBatch(A, kA, Bs, D2, pr)
				})
			}
			rec(obj, "context", func() bool {
				return dleq.Verifier{Params: dleq.Params{G: g, H: crypto.SHA256, DST: []byte("c16 dsT")}}.VerifyBatch(A, kA, Bs, kBs, pr)
			})
			// false statement with an honest-looking proof made for another key
			k2 := g.RandomNonZeroScalar(rd)
			kB2 := []group.Element{}
			for _, B := range Bs {
				kB2 = append(kB2, g.NewElement().Mul(B, k2))
			}
			rec(obj, "false-statement", func() bool { return v.VerifyBatch(A, kA, Bs, kB2, pr) })
			pr2, _ := dleq.Prover{Params: params}.ProveBatch(k2, A, g.NewElement().Mul(A, k2), Bs, kB2, rd)
			rec(obj, "swapped-proof", func() bool { return v.VerifyBatch(A, kA, Bs, kB2, pr2) })
			// degenerate assemblies for a FALSE statement
			for _, z := range [][]byte{make([]byte, len(pb)), append(make([]byte, half), pb[half:]...)} {
				p := alt(z)
				rec(obj, "zero-challenge", func() bool { return p != nil && v.VerifyBatch(A, kA, Bs, kB2, p) })
			}
			p := alt(append(append([]byte{}, pb[:half]...), make([]byte, half)...))
			rec(obj, "zero-response", func() bool { return p != nil && v.VerifyBatch(A, kA, Bs, kB2, p) })
			id := g.Identity()
			ids := make([]group.Element, n)
			for i := range ids {
				ids[i] = id
			}
			for _, pp := range []*dleq.Proof{pr, alt(make([]byte, len(pb)))} {
				pp := pp
				rec(obj, "identity-elements", func() bool { return pp != nil && v.VerifyBatch(id, id, Bs, kB2, pp) })
				rec(obj, "identity-elements", func() bool { return pp != nil && v.VerifyBatch(A, kA, ids, kB2, pp) })
			}
			// a batch position holding the identity: (B_i, k*B_i) = (O, O) is a true statement; any other D_i is false
			{
				Bi := append([]group.Element{}, Bs...)
				Di := append([]group.Element{}, kBs...)
				pos := rng.Intn(n)
				Bi[pos], Di[pos] = g.Identity(), g.Identity()
				pri, err := dleq.Prover{Params: params}.ProveBatch(k, A, kA, Bi, Di, rd)
				if err == nil {
					rec(obj, "none", func() bool { return v.VerifyBatch(A, kA, Bi, Di, pri) })
					Dj := append([]group.Element{}, Di...)
					Dj[pos] = g.RandomElement(rd)
					rec(obj, "identity-elements", func() bool { return v.VerifyBatch(A, kA, Bi, Dj, pri) })
					Dj2 := append([]group.Element{}, Di...)
					Dj2[pos] = g.Generator()
					rec(obj, "identity-elements", func() bool { return v.VerifyBatch(A, kA, Bi, Dj2, pri) })
				}
			}
			// ---- Schnorr
			sobj := fmt.Sprintf("dl %v", g)
			kG := g.NewElement().Mul(G1, k)
			uid, oi := []byte("user"), []byte("other info")
			sp := dl.Prove(g, G1, kG, k, uid, oi, rd)
			rec(sobj, "none", func() bool { return dl.Verify(g, G1, kG, sp, uid, oi) })
			// the honest proof satisfies the verification equation for the challenge the package documents - H(G | V | A | len|UserID |
			// len|OtherInfo) (RFC 8235: the coin binds the public key) - computed here, not by the library
			rec(sobj, "none", func() bool {
				gb, _ := G1.MarshalBinary()
				vb, _ := sp.V.MarshalBinary()
				ab, _ := kG.MarshalBinary()
				t := append(append(append([]byte{}, gb...), vb...), ab...)
				t = append(append(binary.BigEndian.AppendUint32(t, uint32(len(uid))), uid...), binary.BigEndian.AppendUint32(nil, uint32(len(oi)))...)
				t = append(t, oi...)
				c := g.HashToScalar(t, oi)
				rhs := g.NewElement().Add(g.NewElement().Mul(G1, sp.R), g.NewElement().Mul(kG, c))
				return sp.V.IsEqual(rhs)
			})
			rec(sobj, "proof-v", func() bool { return dl.Verify(g, G1, kG, dl.Proof{V: g.NewElement().Add(sp.V, G1), R: sp.R}, uid, oi) })
			rec(sobj, "proof-s", func() bool {
				return dl.Verify(g, G1, kG, dl.Proof{V: sp.V, R: g.NewScalar().Add(sp.R, g.NewScalar().SetUint64(1))}, uid, oi)
			})
			rec(sobj, "statement-b", func() bool { return dl.Verify(g, G1, g.NewElement().Add(kG, G1), sp, uid, oi) })
			rec(sobj, "statement-a", func() bool { return dl.Verify(g, g.NewElement().Dbl(G1), kG, sp, uid, oi) })
			rec(sobj, "userid", func() bool { return dl.Verify(g, G1, kG, sp, []byte("usex"), oi) })
			rec(sobj, "context", func() bool { return dl.Verify(g, G1, kG, sp, uid, nil) })
			rec(sobj, "false-statement", func() bool { return dl.Verify(g, G1, g.NewElement().Mul(G1, k2), sp, uid, oi) })
			rec(sobj, "zero-response", func() bool {
				return dl.Verify(g, G1, g.NewElement().Mul(G1, k2), dl.Proof{V: sp.V, R: g.NewScalar()}, uid, oi)
			})
			rec(sobj, "identity-elements", func() bool {
				return dl.Verify(g, G1, g.NewElement().Mul(G1, k2), dl.Proof{V: id, R: g.NewScalar()}, uid, oi)
			})
			// ---- simplest OT
			ol := get(fmt.Sprintf("simot %v", g), "ot")
			ol.Ev = "ot"
			for _, choice := range []int{0, 1} {
				mlen := []int{0, 1, 16, 33, 500}[rng.Intn(5)]
				m0, m1 := make([]byte, mlen), make([]byte, mlen)
				rng.Read(m0)
				rng.Read(m1)
				if mlen > 0 {
					m1[0] = m0[0] ^ 1
				}
				var snd simot.Sender
				var rcv, rcv2 simot.Receiver
				ol.Total++
				if safe(func() {
					Apt := snd.InitSender(g, m0, m1, 0)
					B := rcv.Round1Receiver(g, choice, 0, Apt)
					rcv2 = rcv // a copy that will try the other ciphertext with the same derived key material
					e0, e1 := snd.Round2Sender(B)
					want := m0
					if choice == 1 {
						want = m1
					}
					if rcv.Round3Receiver(e0, e1, choice) == nil && bytes.Equal(rcv.Returnmc(), want) {
						ol.GotChosen++
					}
					if rcv2.Round3Receiver(e0, e1, 1-choice) == nil {
						ol.OtherDecrypts++
					}
					// ciphertexts of unequal length (one truncated in transit) are an error for the receiver, whichever it chose
					if len(e1) > 0 {
						rcv3, rcv4 := rcv, rcv
						_ = rcv3.Round3Receiver(e0, e1[:len(e1)-1], choice)
						_ = rcv4.Round3Receiver(e0[:len(e0)-1], e1, choice)
					}
				}) {
					ol.Panics++
				}
			}
		}
		for _, l := range agg {
			o.Emit(*l)
		}
	}
	// ---- DLEQ in the squares modulo N
	key, err := rsa.GenerateKey(rd, 1024)
	if err != nil {
		vlib.Die("rsa: %v", err)
	}
	N := key.N
	nonUnit := new(big.Int).Mul(key.Primes[0], big.NewInt(12345)) // a multiple of one prime factor
	agg := map[string]*line{}
	rec := func(site string, f func() bool) {
		l := agg[site]
		if l == nil {
			l = &line{Ev: "proof", Obj: "qndleq", Site: site}
			agg[site] = l
		}
		l.Total++
		var acc bool
		if safe(func() { acc = f() }) {
			l.Panics++
		} else if acc {
			l.Accepted++
		}
	}
	for rep := 0; rep < reps*2; rep++ {
		g, _ := qndleq.SampleQn(rd, N)
		h, _ := qndleq.SampleQn(rd, N)
		x := new(big.Int).Rand(rng, N)
		gx, hx := new(big.Int).Exp(g, x, N), new(big.Int).Exp(h, x, N)
		const sec = 128
		pr, err := qndleq.Prove(rd, x, g, gx, h, hx, N, sec)
		if err != nil {
			vlib.Die("qndleq prove: %v", err)
		}
		one := big.NewInt(1)
		rec("none", func() bool { return pr.Verify(g, gx, h, hx, N) })
		rec("proof-c", func() bool {
			return qndleq.Proof{Z: pr.Z, C: new(big.Int).Add(pr.C, one), SecParam: sec}.Verify(g, gx, h, hx, N)
		})
		rec("proof-s", func() bool {
			return qndleq.Proof{Z: new(big.Int).Add(pr.Z, one), C: pr.C, SecParam: sec}.Verify(g, gx, h, hx, N)
		})
		rec("statement-a", func() bool { return pr.Verify(new(big.Int).Mod(new(big.Int).Mul(g, g), N), gx, h, hx, N) })
		rec("statement-b", func() bool { return pr.Verify(g, new(big.Int).Mod(new(big.Int).Mul(gx, g), N), h, hx, N) })
		rec("statement-c", func() bool { return pr.Verify(g, gx, new(big.Int).Mod(new(big.Int).Mul(h, h), N), hx, N) })
		rec("statement-d", func() bool { return pr.Verify(g, gx, h, new(big.Int).Mod(new(big.Int).Mul(hx, h), N), N) })
		// a statement element written outside [0, N): negated (the challenge hashes the magnitude only, and an even response hides the
		// sign) or as the same residue plus a multiple of N (wider than the modulus)
		big1 := new(big.Int).Lsh(N, uint(8*((N.BitLen()+7)/8)))
		for i := 0; i < 4; i++ {
			st := []*big.Int{g, gx, h, hx}
			neg := append([]*big.Int{}, st...)
			neg[i] = new(big.Int).Neg(st[i])
			rec("statement-negated", func() bool { return pr.Verify(neg[0], neg[1], neg[2], neg[3], N) })
			for _, add := range []*big.Int{N, big1} {
				ov := append([]*big.Int{}, st...)
				ov[i] = new(big.Int).Add(st[i], add)
				rec("statement-oversize", func() bool { return pr.Verify(ov[0], ov[1], ov[2], ov[3], N) })
			}
		}
		hxBad := new(big.Int).Exp(h, new(big.Int).Add(x, one), N)
		rec("false-statement", func() bool { return pr.Verify(g, gx, h, hxBad, N) })
		// honest-looking proof for the g side only (knows x for g, lies about h)
		pr2, _ := qndleq.Prove(rd, x, g, gx, h, hxBad, N, sec)
		rec("false-statement", func() bool { return pr2.Verify(g, gx, h, hxBad, N) })
		// degenerate assemblies for a false statement
		for _, z := range []int64{0, 1, 7} {
			z := z
			rec("zero-challenge", func() bool {
				return qndleq.Proof{Z: big.NewInt(z), C: big.NewInt(0), SecParam: sec}.Verify(g, gx, h, hxBad, N)
			})
			rec("prover-parameter", func() bool {
				return qndleq.Proof{Z: big.NewInt(z), C: big.NewInt(0), SecParam: 0}.Verify(g, gx, h, hxBad, N)
			})
		}
		rec("prover-parameter", func() bool { // a 1-bit challenge found by trial
			for z := int64(0); z < 64; z++ {
				for c := int64(0); c < 2; c++ {
					if (qndleq.Proof{Z: big.NewInt(z), C: big.NewInt(c), SecParam: 1}).Verify(g, gx, h, hxBad, N) {
						return true
					}
				}
			}
			return false
		})
		rec("zero-response", func() bool { return qndleq.Proof{Z: big.NewInt(0), C: pr.C, SecParam: sec}.Verify(g, gx, h, hxBad, N) })
		rec("identity-elements", func() bool { return qndleq.Proof{Z: pr.Z, C: pr.C, SecParam: sec}.Verify(one, one, h, hxBad, N) })
		// statement elements that are not units modulo N (0, a multiple of a prime factor): not members of the group at all.  The proofs are
		// assembled the way a prover would who only knows log_g(gx): the challenge is computed over the commitment that a verifier ends up
		// with if it does not notice that the element cannot be inverted (h^Z * e^C with e^C = 0 resp. a non-unit)
		for _, e := range []*big.Int{big.NewInt(0), new(big.Int).Set(N), nonUnit} {
			r := new(big.Int).Rand(rng, new(big.Int).Lsh(N, 256))
			gP := new(big.Int).Exp(g, r, N)
			for _, hPguess := range []*big.Int{big.NewInt(0), new(big.Int).Exp(h, r, N)} {
				c := qnChallenge(g, gx, h, e, gP, hPguess, N, sec)
				z := new(big.Int).Add(new(big.Int).Mul(c, x), r)
				rec("statement-nonunit", func() bool { return qndleq.Proof{Z: z, C: c, SecParam: sec}.Verify(g, gx, h, e, N) })
				rec("statement-nonunit", func() bool { return qndleq.Proof{Z: z, C: c, SecParam: sec}.Verify(g, e, h, hx, N) })
			}
		}
	}
	for _, l := range agg {
		o.Emit(*l)
	}
}

// qnChallenge is the Fiat-Shamir challenge of zk/qndleq as its documentation defines it: SHAKE256 over the fixed-width big-endian
// encodings of g, h, g^x, h^x and the two commitments, truncated to the security parameter.
func qnChallenge(g, gx, h, hx, gP, hP, N *big.Int, sec uint) *big.Int {
	n := (N.BitLen() + 7) / 8
	H := sha3.NewShake256()
	for _, v := range []*big.Int{g, h, gx, hx, gP, hP} {
		_, _ = H.Write(new(big.Int).Mod(v, new(big.Int).Lsh(big.NewInt(1), uint(8*n))).FillBytes(make([]byte, n)))
	}
	out := make([]byte, (sec+7)/8)
	_, _ = H.Read(out)
	return new(big.Int).SetBytes(out)
}
