package main

import (
	"crypto"
	"fmt"
	"math/rand"

	"github.com/cloudflare/circl/ecc/bls12381"
	"github.com/cloudflare/circl/expander"
	"github.com/cloudflare/circl/group"
	"github.com/cloudflare/circl/oprf"
	"github.com/cloudflare/circl/zzverif/vlib"
)

// h2cLine is one call of group.HashToElement on a NIST curve: what went in, what the library's own expander gives for the same
// (msg, dst) - TLC recomputes that with ExpanderJobs.tla - and the affine coordinates of the element that came out, which TLC
// recomputes from the expander output with H2CJob.tla (RFC 9380: hash_to_field, simplified SWU, point addition).
type h2cLine struct {
	Curve    string `json:"curve"`
	Kind     string `json:"kind"`
	Class    string `json:"class"`
	Msg      []int  `json:"msg"`
	Dst      []int  `json:"dst"`
	N        int    `json:"n"`
	Uniform  []int  `json:"uniform"`
	X        []int  `json:"x"`
	Y        []int  `json:"y"`
	Identity bool   `json:"identity"`
	Panics   int    `json:"panics"`
	Note     string `json:"note"`
}

func toInts(b []byte) []int {
	o := make([]int, len(b))
	for i := range b {
		o[i] = int(b[i])
	}
	return o
}

func h2c(path string, rng *rand.Rand, n int) {
	o := vlib.Create(path)
	defer o.Close()
	curves := []struct {
		name, kind string
		g          group.Group
		h          crypto.Hash
		l, fb      int
		su         oprf.Suite
	}{{"P256", "xmd-sha256", group.P256, crypto.SHA256, 48, 32, oprf.SuiteP256}, {"P384", "xmd-sha384", group.P384, crypto.SHA384, 72, 48, oprf.SuiteP384},
		{"P521", "xmd-sha512", group.P521, crypto.SHA512, 98, 66, oprf.SuiteP521}}
	type in struct {
		class    string
		msg, dst []byte
	}
	// ristretto255: 64 bytes of expand_message_xmd(SHA-512), two one-way maps, sum, encoding (x holds the 32-byte encoding)
	rins := []in{{"rfc9380-empty", nil, []byte("QUUX-V01-CS02-with-ristretto255_XMD:SHA-512_R255MAP_RO_")},
		{"oprf-dst", []byte("input"), append([]byte("HashToGroup-OPRFV1-\x00-"), []byte(oprf.SuiteRistretto255.Identifier())...)}}
	for i := 0; i < 2*n; i++ {
		switch i % 3 {
		case 0:
			rins = append(rins, in{"random", vlib.Bytes(rng, rng.Intn(200)), vlib.Bytes(rng, 1+rng.Intn(60))})
		case 1:
			rins = append(rins, in{"long-dst", vlib.Bytes(rng, rng.Intn(40)), vlib.Bytes(rng, 256+rng.Intn(40))})
		case 2:
			rins = append(rins, in{"empty-dst", vlib.Bytes(rng, 1+rng.Intn(40)), nil})
		}
	}
	for _, x := range rins {
		l := h2cLine{Curve: "R255", Kind: "xmd-sha512", Class: x.class, Msg: toInts(x.msg), Dst: toInts(x.dst), N: 64, X: []int{}, Y: []int{}, Uniform: []int{}}
		oc := vlib.Safe(60e9, func() {
			l.Uniform = toInts(expander.NewExpanderMD(crypto.SHA512, x.dst).Expand(x.msg, 64))
			b, err := group.Ristretto255.HashToElement(x.msg, x.dst).MarshalBinary()
			if err != nil || len(b) != 32 {
				panic(fmt.Sprintf("unexpected encoding %x %v", b, err))
			}
			l.X = toInts(b)
		})
		if oc.Bad() {
			l.Panics, l.Note = 1, oc.Panic
		}
		o.Emit(l)
	}
	// BLS12-381 G1 (the hash of BLS signatures in the G1 variant): x, y from the uncompressed encoding
	gins := []in{{"rfc9380-abc", []byte("abc"), []byte("QUUX-V01-CS02-with-BLS12381G1_XMD:SHA-256_SSWU_RO_")},
		{"bls-sig-dst", []byte("message to be signed"), []byte("BLS_SIG_BLS12381G1_XMD:SHA-256_SSWU_RO_NUL_")}}
	for i := 0; i < n; i++ {
		switch i % 3 {
		case 0:
			gins = append(gins, in{"random", vlib.Bytes(rng, rng.Intn(200)), vlib.Bytes(rng, 1+rng.Intn(60))})
		case 1:
			gins = append(gins, in{"long-dst", vlib.Bytes(rng, rng.Intn(40)), vlib.Bytes(rng, 256+rng.Intn(40))})
		case 2:
			gins = append(gins, in{"empty-msg", nil, vlib.Bytes(rng, 1+rng.Intn(255))})
		}
	}
	for _, x := range gins {
		l := h2cLine{Curve: "BLS12381G1", Kind: "xmd-sha256", Class: x.class, Msg: toInts(x.msg), Dst: toInts(x.dst), N: 128, X: []int{}, Y: []int{}, Uniform: []int{}}
		oc := vlib.Safe(60e9, func() {
			l.Uniform = toInts(expander.NewExpanderMD(crypto.SHA256, x.dst).Expand(x.msg, 128))
			var g bls12381.G1
			g.Hash(x.msg, x.dst)
			if g.IsIdentity() {
				l.Identity = true
				return
			}
			b := g.Bytes()
			if len(b) != 96 || b[0]&0xe0 != 0 {
				panic(fmt.Sprintf("unexpected encoding %x", b))
			}
			l.X, l.Y = toInts(b[:48]), toInts(b[48:])
		})
		if oc.Bad() {
			l.Panics, l.Note = 1, oc.Panic
		}
		o.Emit(l)
	}
	// BLS12-381 G2 (the hash of BLS signatures in the G2 variant): 192 bytes x.c1 || x.c0 || y.c1 || y.c0; X holds x.c0 || x.c1, Y holds y.c0 || y.c1
	g2ins := []in{{"rfc9380-empty", nil, []byte("QUUX-V01-CS02-with-BLS12381G2_XMD:SHA-256_SSWU_RO_")},
		{"bls-sig-dst", []byte("message to be signed"), []byte("BLS_SIG_BLS12381G2_XMD:SHA-256_SSWU_RO_NUL_")}}
	for i := 0; i < n/4; i++ {
		g2ins = append(g2ins, in{"random", vlib.Bytes(rng, rng.Intn(200)), vlib.Bytes(rng, 1+rng.Intn(60))})
	}
	for _, x := range g2ins {
		l := h2cLine{Curve: "BLS12381G2", Kind: "xmd-sha256", Class: x.class, Msg: toInts(x.msg), Dst: toInts(x.dst), N: 256, X: []int{}, Y: []int{}, Uniform: []int{}}
		oc := vlib.Safe(60e9, func() {
			l.Uniform = toInts(expander.NewExpanderMD(crypto.SHA256, x.dst).Expand(x.msg, 256))
			var g bls12381.G2
			g.Hash(x.msg, x.dst)
			if g.IsIdentity() {
				l.Identity = true
				return
			}
			b := g.Bytes()
			if len(b) != 192 || b[0]&0xe0 != 0 {
				panic(fmt.Sprintf("unexpected encoding %x", b))
			}
			l.X, l.Y = toInts(append(append([]byte{}, b[48:96]...), b[:48]...)), toInts(append(append([]byte{}, b[144:192]...), b[96:144]...))
		})
		if oc.Bad() {
			l.Panics, l.Note = 1, oc.Panic
		}
		o.Emit(l)
	}
	for _, c := range curves {
		ins := []in{{"rfc9380-empty", nil, []byte(fmt.Sprintf("QUUX-V01-CS02-with-%s_XMD:%s_SSWU_RO_", c.name, map[string]string{"P256": "SHA-256", "P384": "SHA-384", "P521": "SHA-512"}[c.name]))},
			{"oprf-dst", []byte("input"), append([]byte("HashToGroup-OPRFV1-\x00-"), []byte(c.su.Identifier())...)}}
		for i := 0; i < n; i++ {
			switch i % 4 {
			case 0:
				ins = append(ins, in{"random", vlib.Bytes(rng, rng.Intn(200)), vlib.Bytes(rng, 1+rng.Intn(60))})
			case 1:
				ins = append(ins, in{"long-dst", vlib.Bytes(rng, rng.Intn(40)), vlib.Bytes(rng, 256+rng.Intn(40))})
			case 2:
				ins = append(ins, in{"empty-dst", vlib.Bytes(rng, 1+rng.Intn(40)), nil})
			case 3:
				ins = append(ins, in{"block-msg", vlib.Bytes(rng, []int{55, 56, 64, 111, 112, 128}[rng.Intn(6)]), vlib.Bytes(rng, 255)})
			}
		}
		for _, x := range ins {
			l := h2cLine{Curve: c.name, Kind: c.kind, Class: x.class, Msg: toInts(x.msg), Dst: toInts(x.dst), N: 2 * c.l, X: []int{}, Y: []int{}, Uniform: []int{}}
			oc := vlib.Safe(60e9, func() {
				l.Uniform = toInts(expander.NewExpanderMD(c.h, x.dst).Expand(x.msg, uint(2*c.l)))
				e := c.g.HashToElement(x.msg, x.dst)
				if e.IsIdentity() {
					l.Identity = true
					return
				}
				b, err := e.MarshalBinary()
				if err != nil || len(b) != 1+2*c.fb || b[0] != 4 {
					panic(fmt.Sprintf("unexpected encoding %x %v", b, err))
				}
				l.X, l.Y = toInts(b[1:1+c.fb]), toInts(b[1+c.fb:])
			})
			if oc.Bad() {
				l.Panics, l.Note = 1, oc.Panic
			}
			o.Emit(l)
		}
	}
}
