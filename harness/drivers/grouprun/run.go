// Package grouprun drives a prime-order group implementation through the operations of spec/C13/GroupMachine.tla:
// registers are built as multiples of the generator through EVERY available route (fixed-base, variable-base,
// additions, doublings, negations, double-scalar multiplication, decode(encode)), with structured scalars of the
// full admitted width and related points (Q = P, Q = -P, Q = G), and all pairwise equalities are observed.
package grouprun

import (
	"fmt"
	"math/big"
	"math/rand"

	"github.com/cloudflare/circl/zzverif/vlib"
)

type Group struct {
	Name      string // order name in FieldConsts.tla
	Impl      string
	L         *big.Int // group order as the driver believes it (TLC uses its own constant)
	ScalarMax *big.Int // largest scalar the multiplication entry points admit
	Cof       int64    // factor applied by variable-base multiplication (392 for FourQ), normally 1
	NRegs     int
	Base      func(dst int, k *big.Int)
	Mul       func(dst, src int, k *big.Int)
	Add       func(dst, a, b int)
	Dbl       func(dst, a int)
	Neg       func(dst, a int)
	Combined  func(dst, src int, m, n *big.Int) // m*G + n*src
	Recode    func(dst, src int) bool           // dst := decode(encode(src))
	Eq        func(a, b int) bool
	IsID      func(a int) bool
}

type Event struct {
	Op   string `json:"op"`
	Tr   int    `json:"tr"`
	G    string `json:"g"`
	Impl string `json:"impl"`
	Dst  int    `json:"dst"`
	A    int    `json:"a"`
	B    int    `json:"b"`
	K    []int  `json:"k"`
	M    []int  `json:"m"`
	N    []int  `json:"n"`
	Q    []int  `json:"q"`
	R    []int  `json:"r"`
	Cof  int    `json:"cof"`
	Eq   bool   `json:"eq"`
	Ok   bool   `json:"ok"`
	Note string `json:"note"`
}

// Scalars returns structured scalars in [0, max]: 0, 1, 2, neighbours of multiples of L, powers of two, the maximum.
func Scalars(L, max *big.Int, rng *rand.Rand, nrand int) []*big.Int {
	var out []*big.Int
	seen := map[string]bool{}
	add := func(v *big.Int) {
		if v.Sign() >= 0 && v.Cmp(max) <= 0 && !seen[v.String()] {
			seen[v.String()] = true
			out = append(out, new(big.Int).Set(v))
		}
	}
	for d := int64(0); d <= 5; d++ {
		add(big.NewInt(d))
	}
	add(big.NewInt(392))
	for m := int64(1); m <= 3; m++ {
		for d := int64(-2); d <= 2; d++ {
			add(new(big.Int).Add(new(big.Int).Mul(L, big.NewInt(m)), big.NewInt(d)))
		}
	}
	add(new(big.Int).Mul(L, big.NewInt(255)))
	for k := uint(8); k <= uint(max.BitLen()); k += 8 {
		if k%64 == 0 || k+8 > uint(max.BitLen()) {
			t := new(big.Int).Lsh(big.NewInt(1), k)
			add(t)
			add(new(big.Int).Sub(t, big.NewInt(1)))
		}
	}
	for d := int64(0); d <= 8; d++ {
		add(new(big.Int).Sub(max, big.NewInt(d)))
	}
	add(new(big.Int).Rsh(L, 1))
	add(new(big.Int).Add(new(big.Int).Rsh(L, 1), big.NewInt(1)))
	// w-NAF / signed-digit corner patterns
	for _, pat := range []string{"5555555555555555", "aaaaaaaaaaaaaaaa", "ffffffff00000000", "8000000000000001", "0f0f0f0f0f0f0f0f"} {
		v, _ := new(big.Int).SetString(pat, 16)
		w := new(big.Int)
		for i := 0; i*64 < max.BitLen(); i++ {
			w.Or(w, new(big.Int).Lsh(v, uint(64*i)))
		}
		w.And(w, max)
		add(w)
	}
	for i := 0; i < nrand; i++ {
		add(new(big.Int).Rand(rng, new(big.Int).Add(max, big.NewInt(1))))
		add(new(big.Int).Rand(rng, L))
	}
	return out
}

// Run emits ntraces sub-traces of about steps operations each, followed by all pairwise equality observations.
func Run(g *Group, rng *rand.Rand, ntraces, steps int, tr0 int, emit func(Event)) {
	sc := Scalars(g.L, g.ScalarMax, rng, 6)
	pick := func() *big.Int { return sc[rng.Intn(len(sc))] }
	red := func(e *Event, x *big.Int) *big.Int {
		r := new(big.Int).Mod(x, g.L)
		e.Q, e.R = vlib.Quot(x, g.L), vlib.Digits(r)
		return r
	}
	for t := 0; t < ntraces; t++ {
		tr := tr0 + t
		form := map[int]*big.Int{}
		ev := func(op string) Event {
			return Event{Op: op, Tr: tr, G: g.Name, Impl: g.Impl, K: []int{}, M: []int{}, N: []int{}, Q: []int{}, R: []int{}, Cof: int(g.Cof)}
		}
		emit(ev("reset"))
		if t == 0 && g.Combined != nil && g.Base != nil && g.NRegs >= 2 {
			// deterministic sweep of the exceptional cases of m*G + n*S: S = d*G for small d and for -G, n small / near the order, and
			// m = -n*d (the two partial results cancel: identity) resp. m = n*d (they coincide: a doubling) - in both parities of m
			half := new(big.Int).Rsh(g.L, 1)
			func() {
				defer func() {
					if r := recover(); r != nil {
						e := ev("panic")
						e.Note = fmt.Sprint(r)
						emit(e)
					}
				}()
				for _, d := range []*big.Int{big.NewInt(1), new(big.Int).Sub(g.L, big.NewInt(1)), big.NewInt(2), big.NewInt(3), big.NewInt(7)} {
					e := ev("base")
					e.Dst, e.K = 0, vlib.Digits(d)
					g.Base(0, d)
					form[0] = red(&e, d)
					emit(e)
					for _, n := range []*big.Int{big.NewInt(1), big.NewInt(2), big.NewInt(3), big.NewInt(4), big.NewInt(5), big.NewInt(6),
						new(big.Int).Sub(g.L, big.NewInt(1)), new(big.Int).Sub(g.L, big.NewInt(2)), half, pick()} {
						nd := new(big.Int).Mod(new(big.Int).Mul(n, form[0]), g.L)
						for _, m := range []*big.Int{new(big.Int).Mod(new(big.Int).Neg(nd), g.L), nd} {
							if m.Cmp(g.ScalarMax) > 0 || n.Cmp(g.ScalarMax) > 0 {
								continue
							}
							e := ev("combined")
							e.Dst, e.A, e.M, e.N = 1, 0, vlib.Digits(m), vlib.Digits(n)
							g.Combined(1, 0, m, n)
							form[1] = red(&e, new(big.Int).Add(m, new(big.Int).Mul(n, form[0])))
							emit(e)
							// observe the result at once: is it the identity, and does it equal the same multiple obtained from the fixed-base path
							if g.IsID != nil {
								o := ev("id")
								o.A, o.Eq = 1, g.IsID(1)
								emit(o)
							}
							if g.NRegs >= 3 {
								b := ev("base")
								b.Dst, b.K = 2, vlib.Digits(form[1])
								g.Base(2, form[1])
								form[2] = red(&b, form[1])
								emit(b)
								o := ev("eq")
								o.A, o.B, o.Eq = 1, 2, g.Eq(1, 2)
								emit(o)
							}
						}
					}
				}
			}()
			emit(ev("reset"))
			form = map[int]*big.Int{}
			// deterministic sweep of the fixed-base path over scalars with a long run of one bits at every offset (the signed / mLSB-set
			// recodings halve-and-subtract their way through the scalar: a run of ones is where a borrow or carry travels across word
			// boundaries): k*G from the fixed-base path must equal k*G + 0*G from the double-scalar path
			if g.NRegs >= 3 {
				func() {
					defer func() {
						if r := recover(); r != nil {
							e := ev("panic")
							e.Note = fmt.Sprint(r)
							emit(e)
						}
					}()
					e := ev("base")
					e.Dst, e.K = 0, vlib.Digits(big.NewInt(1))
					g.Base(0, big.NewInt(1))
					form[0] = red(&e, big.NewInt(1))
					emit(e)
					for _, run := range []uint{64, 65} {
						ones := new(big.Int).Sub(new(big.Int).Lsh(big.NewInt(1), run), big.NewInt(1))
						for _, low := range []int64{1, 15} {
							for sh := uint(4); sh+run < uint(g.ScalarMax.BitLen()); sh++ {
								k := new(big.Int).Add(big.NewInt(low), new(big.Int).Lsh(ones, sh))
								if k.Cmp(g.ScalarMax) > 0 {
									continue
								}
								b := ev("base")
								b.Dst, b.K = 1, vlib.Digits(k)
								g.Base(1, k)
								form[1] = red(&b, k)
								emit(b)
								c := ev("combined")
								c.Dst, c.A, c.M, c.N = 2, 0, vlib.Digits(k), vlib.Digits(big.NewInt(0))
								g.Combined(2, 0, k, big.NewInt(0))
								form[2] = red(&c, k)
								emit(c)
								o := ev("eq")
								o.A, o.B, o.Eq = 1, 2, g.Eq(1, 2)
								emit(o)
							}
						}
					}
				}()
				emit(ev("reset"))
				form = map[int]*big.Int{}
			}
		}
		set := func() []int {
			var s []int
			for r := range form {
				s = append(s, r)
			}
			// deterministic order
			for i := 0; i < len(s); i++ {
				for j := i + 1; j < len(s); j++ {
					if s[j] < s[i] {
						s[i], s[j] = s[j], s[i]
					}
				}
			}
			return s
		}
		panicked := false
		for s := 0; s < steps && !panicked; s++ {
			func() {
				defer func() {
					if r := recover(); r != nil { // a group operation must not panic on admitted inputs: recorded, rejected by the spec
						e := ev("panic")
						e.Note = fmt.Sprint(r)
						emit(e)
						panicked = true
					}
				}()
				dst := rng.Intn(g.NRegs)
				have := set()
				var src, src2 int
				if len(have) > 0 {
					src, src2 = have[rng.Intn(len(have))], have[rng.Intn(len(have))]
				}
				op := rng.Intn(9)
				if len(have) == 0 || s < 2 {
					op = 0
				}
				switch {
				case op == 0 && g.Base != nil:
					e := ev("base")
					k := pick()
					if s == 0 {
						k = big.NewInt(1) // the generator itself is always in the pool
					} else if s == 1 && t%2 == 0 {
						k = big.NewInt(int64(2 + rng.Intn(5)))
					}
					e.Dst, e.K = dst, vlib.Digits(k)
					g.Base(dst, k)
					form[dst] = red(&e, k)
					emit(e)
				case op == 1 && g.Mul != nil:
					e := ev("mul")
					k := pick()
					e.Dst, e.A, e.K = dst, src, vlib.Digits(k)
					g.Mul(dst, src, k)
					form[dst] = red(&e, new(big.Int).Mul(new(big.Int).Mul(big.NewInt(g.Cof), k), form[src]))
					emit(e)
				case op == 2 && g.Add != nil:
					// related operands on purpose: same register, or a register and its negation / double
					e := ev("add")
					e.Dst, e.A, e.B = dst, src, src2
					fa, fb := form[src], form[src2]
					g.Add(dst, src, src2)
					form[dst] = red(&e, new(big.Int).Add(fa, fb))
					emit(e)
				case op == 3 && g.Dbl != nil:
					e := ev("dbl")
					e.Dst, e.A = dst, src
					fa := form[src]
					g.Dbl(dst, src)
					form[dst] = red(&e, new(big.Int).Add(fa, fa))
					emit(e)
				case op == 4 && g.Neg != nil:
					e := ev("neg")
					e.Dst, e.A = dst, src
					fa := form[src]
					g.Neg(dst, src)
					form[dst] = red(&e, new(big.Int).Sub(g.L, fa))
					emit(e)
				case (op == 5 || op == 6) && g.Combined != nil:
					e := ev("combined")
					m, n := pick(), pick()
					switch rng.Intn(7) { // the corner cases of double-scalar multiplication
					case 0:
						n = new(big.Int).Set(m) // m = n
					case 1:
						n = new(big.Int).Mod(new(big.Int).Neg(m), g.L) // m = -n
					case 2:
						m = big.NewInt(0)
					case 3: // m*G = n*S: the two partial results are the same point
						m = new(big.Int).Mod(new(big.Int).Mul(n, form[src]), g.L)
					case 4: // m*G = -(n*S): the sum is the identity
						m = new(big.Int).Mod(new(big.Int).Neg(new(big.Int).Mul(n, form[src])), g.L)
					case 5: // small equal scalars on a small multiple of G
						m = big.NewInt(int64(1 + rng.Intn(6)))
						n = new(big.Int).Set(m)
					}
					e.Dst, e.A, e.M, e.N = dst, src, vlib.Digits(m), vlib.Digits(n)
					fa := form[src]
					g.Combined(dst, src, m, n)
					form[dst] = red(&e, new(big.Int).Add(m, new(big.Int).Mul(n, fa)))
					emit(e)
				case op == 7 && g.Recode != nil:
					e := ev("decode")
					e.Dst, e.A = dst, src
					fa := form[src]
					e.Ok = g.Recode(dst, src)
					if e.Ok {
						form[dst] = fa
					}
					emit(e)
					if !e.Ok {
						panicked = true // stop this sub-trace; the failed decode has been recorded
						return
					}
				case op == 8 && g.Add != nil && g.Neg != nil && len(have) > 0: // P + (-P), P + P through Add
					e := ev("neg")
					e.Dst, e.A = dst, src
					fa := form[src]
					g.Neg(dst, src)
					form[dst] = red(&e, new(big.Int).Sub(g.L, fa))
					emit(e)
					d2 := (dst + 1) % g.NRegs
					e2 := ev("add")
					e2.Dst, e2.A, e2.B = d2, src, dst
					if _, ok := form[src]; ok {
						fs, fd := form[src], form[dst]
						g.Add(d2, src, dst)
						form[d2] = red(&e2, new(big.Int).Add(fs, fd))
						emit(e2)
					}
				}
			}()
		}
		if panicked {
			continue
		}
		have := set()
		for i, a := range have {
			if g.IsID != nil {
				e := ev("id")
				e.A, e.Eq = a, g.IsID(a)
				emit(e)
			}
			for _, b := range have[i:] {
				e := ev("eq")
				e.A, e.B, e.Eq = a, b, g.Eq(a, b)
				emit(e)
			}
		}
	}
}
