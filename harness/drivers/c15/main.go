// Driver for C15 (hashes, XOFs, chunking).  Produces
//   jobs.json / k12jobs.json : spot-sample inputs with circl's outputs, recomputed by TLC (HashJobs/K12Jobs)
//   trace.ndjson             : XofMachine call traces on real objects (Write/Read/Clone/Reset/Sum)
//   refcheck.json            : agreement of the plain Go reference with circl on the spot sample
package main

import (
	"bytes"
	"encoding/json"
	"flag"
	"fmt"
	"path/filepath"

	"github.com/cloudflare/circl/internal/sha3"
	"github.com/cloudflare/circl/simd/keccakf1600"
	"github.com/cloudflare/circl/xof"
	"github.com/cloudflare/circl/xof/k12"
	"github.com/cloudflare/circl/zzverif/vlib"
	"github.com/cloudflare/circl/zzverif/xofrun"
	"golang.org/x/crypto/blake2b"
	"golang.org/x/crypto/blake2s"
)

type shakeObj struct{ s sha3.ShakeHash }

func (o shakeObj) Write(p []byte) (int, error) { return o.s.Write(p) }
func (o shakeObj) Read(p []byte) (int, error)  { return o.s.Read(p) }
func (o shakeObj) Clone() xofrun.Obj           { return shakeObj{o.s.Clone()} }
func (o shakeObj) Reset()                      { o.s.Reset() }

type hashObj struct{ s *sha3.State }

func (o hashObj) Write(p []byte) (int, error) { return o.s.Write(p) }
func (o hashObj) Read(p []byte) (int, error)  { return 0, nil }
func (o hashObj) Clone() xofrun.Obj           { c := o.s.Clone().(*sha3.State); return hashObj{c} }
func (o hashObj) Reset()                      { o.s.Reset() }
func (o hashObj) Sum(b []byte) []byte         { return o.s.Sum(b) }

type xofObj struct{ x xof.XOF }

func (o xofObj) Write(p []byte) (int, error) { return o.x.Write(p) }
func (o xofObj) Read(p []byte) (int, error)  { return o.x.Read(p) }
func (o xofObj) Clone() xofrun.Obj           { return xofObj{o.x.Clone()} }
func (o xofObj) Reset()                      { o.x.Reset() }

type k12Obj struct{ s *k12.State }

func (o k12Obj) Write(p []byte) (int, error) { return o.s.Write(p) }
func (o k12Obj) Read(p []byte) (int, error)  { return o.s.Read(p) }
func (o k12Obj) Clone() xofrun.Obj           { c := o.s.Clone(); return k12Obj{&c} }
func (o k12Obj) Reset()                      { o.s.Reset() }

func ints(b []byte) []int {
	o := make([]int, len(b)) // never nil: JSON null is not a TLA+ value
	for i := range b {
		o[i] = int(b[i])
	}
	return o
}

type job struct {
	Kind   string `json:"kind"`
	Name   string `json:"name"`
	Rate   int    `json:"rate"`
	Ds     int    `json:"ds"`
	Nr     int    `json:"nr"`
	In     []int  `json:"in"`
	St     []int  `json:"st"`
	Outlen int    `json:"outlen"`
	Want   []int  `json:"want"`
}
type kjob struct {
	Name   string `json:"name"`
	Msg    []int  `json:"msg"`
	Custom []int  `json:"custom"`
	Outlen int    `json:"outlen"`
	Want   []int  `json:"want"`
}

func main() {
	dir := flag.String("dir", ".", "work directory (schedules_sponge.json, schedules_k12.json in; outputs written here)")
	seed := flag.Int64("seed", 1, "")
	nsch := flag.Int("nsched", 60, "schedules per primitive")
	njobs := flag.Int("njobs", 1, "spot-sample scale")
	flag.Parse()
	rng := vlib.Rng(*seed, "c15")

	// ---------------- spot sample for TLC
	type spec struct {
		name     string
		rate, ds int
		nr, out  int
		f        func(msg []byte, n int) []byte
	}
	shake := func(mk func() sha3.State) func([]byte, int) []byte {
		return func(m []byte, n int) []byte { s := mk(); s.Write(m); o := make([]byte, n); s.Read(o); return o }
	}
	hsum := func(mk func() sha3.State) func([]byte, int) []byte {
		return func(m []byte, n int) []byte { s := mk(); s.Write(m); return s.Sum(nil) }
	}
	tds := byte(1 + rng.Intn(0x7f))
	specs := []spec{
		{"SHAKE128", 168, 0x1f, 24, 200, shake(sha3.NewShake128)},
		{"SHAKE256", 136, 0x1f, 24, 150, shake(sha3.NewShake256)},
		{"SHA3-224", 144, 0x06, 24, 28, hsum(sha3.New224)},
		{"SHA3-256", 136, 0x06, 24, 32, hsum(sha3.New256)},
		{"SHA3-384", 104, 0x06, 24, 48, hsum(sha3.New384)},
		{"SHA3-512", 72, 0x06, 24, 64, hsum(sha3.New512)},
		{"TurboSHAKE128", 168, int(tds), 12, 200, shake(func() sha3.State { return sha3.NewTurboShake128(tds) })},
		{"TurboSHAKE256", 136, int(tds), 12, 150, shake(func() sha3.State { return sha3.NewTurboShake256(tds) })},
	}
	var jobs []job
	refOK := true
	var refNotes []string
	for _, sp := range specs {
		lens := []int{0, 1, sp.rate - 1, sp.rate, sp.rate + 1, 2*sp.rate + rng.Intn(sp.rate)}
		if *njobs > 1 {
			lens = append(lens, 2*sp.rate-1, 2*sp.rate, 3*sp.rate+1, rng.Intn(5*sp.rate))
		}
		for _, L := range lens {
			msg := xofrun.Base[:L]
			got := sp.f(msg, sp.out)
			jobs = append(jobs, job{Kind: "sponge", St: []int{}, Name: fmt.Sprintf("%s/%d", sp.name, L), Rate: sp.rate, Ds: sp.ds, Nr: sp.nr, In: ints(msg), Outlen: sp.out, Want: ints(got)})
			if !bytes.Equal(xofrun.Sponge(sp.rate, byte(sp.ds), sp.nr, msg, sp.out), got) {
				refOK = false
				refNotes = append(refNotes, fmt.Sprintf("%s/%d", sp.name, L))
			}
		}
	}
	// permutation records: scalar, x2, x4, full and turbo
	for _, turbo := range []bool{false, true} {
		nr := 24
		if turbo {
			nr = 12
		}
		var sx4 keccakf1600.StateX4
		a4 := sx4.Initialize(turbo)
		var sx2 keccakf1600.StateX2
		a2 := sx2.Initialize(turbo)
		var in4 [4][25]uint64
		for l := 0; l < 4; l++ {
			for i := 0; i < 25; i++ {
				in4[l][i] = rng.Uint64()
				if l == 3 && i%3 == 0 {
					in4[l][i] = ^uint64(0)
				}
				a4[4*i+l] = in4[l][i]
				if l < 2 {
					a2[2*i+l] = in4[l][i]
				}
			}
		}
		sx4.Permute()
		sx2.Permute()
		for l := 0; l < 4; l++ {
			st := make([]byte, 200)
			o4 := make([]byte, 200)
			o2 := make([]byte, 200)
			for i := 0; i < 25; i++ {
				for b := 0; b < 8; b++ {
					st[8*i+b] = byte(in4[l][i] >> (8 * uint(b)))
					o4[8*i+b] = byte(a4[4*i+l] >> (8 * uint(b)))
					if l < 2 {
						o2[8*i+b] = byte(a2[2*i+l] >> (8 * uint(b)))
					}
				}
			}
			if l < 2 || *njobs > 1 || !turbo {
				jobs = append(jobs, job{Kind: "perm", Name: fmt.Sprintf("keccakf1600.StateX4 lane %d turbo=%v", l, turbo), Nr: nr, St: ints(st), Want: ints(o4), In: []int{}})
			}
			if l < 2 {
				jobs = append(jobs, job{Kind: "perm", Name: fmt.Sprintf("keccakf1600.StateX2 lane %d turbo=%v", l, turbo), Nr: nr, St: ints(st), Want: ints(o2), In: []int{}})
			}
			r := in4[l]
			xofrun.KeccakP(&r, nr)
			for i := 0; i < 25; i++ {
				if r[i] != a4[4*i+l] {
					refOK = false
					refNotes = append(refNotes, "perm")
				}
			}
		}
	}
	vlib.WriteJSON(filepath.Join(*dir, "jobs.json"), jobs)
	var kjobs []kjob
	klens := []int{0, 1, 8191, 8192, 8193, 16385}
	if *njobs > 1 {
		klens = append(klens, 16384, 3*8192+1, 5*8192-1, 9*8192+1)
	}
	for i, L := range klens {
		var c []byte
		if i%2 == 1 {
			c = vlib.Bytes(rng, 1+rng.Intn(40))
		}
		if L == 8191 {
			c = nil // |S| = 8192 exactly: the one-chunk / two-chunk boundary
		}
		out := make([]byte, 64)
		k12.Draft10Sum(out, xofrun.Base[:L], c)
		kjobs = append(kjobs, kjob{Name: fmt.Sprintf("K12/%d/c%d", L, len(c)), Msg: ints(xofrun.Base[:L]), Custom: ints(c), Outlen: 64, Want: ints(out)})
		if !bytes.Equal(xofrun.K12(xofrun.Base[:L], c, 64), out) {
			refOK = false
			refNotes = append(refNotes, fmt.Sprintf("K12/%d", L))
		}
	}
	vlib.WriteJSON(filepath.Join(*dir, "k12jobs.json"), kjobs)
	vlib.WriteJSON(filepath.Join(*dir, "refcheck.json"), map[string]interface{}{"ok": refOK, "notes": refNotes})

	asconPart(*dir, *seed, *njobs)
	expanderPart(*dir, vlib.Rng(*seed, "c15-expander"), *njobs)

	// ---------------- call traces
	kinds := []xofrun.Kind{
		{Name: "sha3.Shake128", New: func() xofrun.Obj { s := sha3.NewShake128(); return shakeObj{&s} }, Ref: func(m []byte, n int) []byte { return xofrun.Sponge(168, 0x1f, 24, m, n) }},
		{Name: "sha3.Shake256", New: func() xofrun.Obj { s := sha3.NewShake256(); return shakeObj{&s} }, Ref: func(m []byte, n int) []byte { return xofrun.Sponge(136, 0x1f, 24, m, n) }},
		{Name: "sha3.TurboShake128", New: func() xofrun.Obj { s := sha3.NewTurboShake128(0x23); return shakeObj{&s} }, Ref: func(m []byte, n int) []byte { return xofrun.Sponge(168, 0x23, 12, m, n) }},
		{Name: "sha3.TurboShake256", New: func() xofrun.Obj { s := sha3.NewTurboShake256(0x7f); return shakeObj{&s} }, Ref: func(m []byte, n int) []byte { return xofrun.Sponge(136, 0x7f, 12, m, n) }},
		{Name: "sha3.New224", Hash: 28, New: func() xofrun.Obj { s := sha3.New224(); return hashObj{&s} }, Ref: func(m []byte, n int) []byte { return xofrun.Sponge(144, 6, 24, m, 28) }},
		{Name: "sha3.New256", Hash: 32, New: func() xofrun.Obj { s := sha3.New256(); return hashObj{&s} }, Ref: func(m []byte, n int) []byte { return xofrun.Sponge(136, 6, 24, m, 32) }},
		{Name: "sha3.New384", Hash: 48, New: func() xofrun.Obj { s := sha3.New384(); return hashObj{&s} }, Ref: func(m []byte, n int) []byte { return xofrun.Sponge(104, 6, 24, m, 48) }},
		{Name: "sha3.New512", Hash: 64, New: func() xofrun.Obj { s := sha3.New512(); return hashObj{&s} }, Ref: func(m []byte, n int) []byte { return xofrun.Sponge(72, 6, 24, m, 64) }},
		{Name: "xof.SHAKE128", New: func() xofrun.Obj { return xofObj{xof.SHAKE128.New()} }, Ref: func(m []byte, n int) []byte { return xofrun.Sponge(168, 0x1f, 24, m, n) }},
		{Name: "xof.SHAKE256", New: func() xofrun.Obj { return xofObj{xof.SHAKE256.New()} }, Ref: func(m []byte, n int) []byte { return xofrun.Sponge(136, 0x1f, 24, m, n) }},
		{Name: "xof.BLAKE2XB", New: func() xofrun.Obj { return xofObj{xof.BLAKE2XB.New()} }, Ref: func(m []byte, n int) []byte {
			x, _ := blake2b.NewXOF(blake2b.OutputLengthUnknown, nil)
			x.Write(m)
			o := make([]byte, n)
			x.Read(o)
			return o
		}},
		{Name: "xof.BLAKE2XS", New: func() xofrun.Obj { return xofObj{xof.BLAKE2XS.New()} }, Ref: func(m []byte, n int) []byte {
			x, _ := blake2s.NewXOF(blake2s.OutputLengthUnknown, nil)
			x.Write(m)
			o := make([]byte, n)
			x.Read(o)
			return o
		}},
	}
	kkinds := []xofrun.Kind{
		{Name: "xof.K12D10", New: func() xofrun.Obj { return xofObj{xof.K12D10.New()} }, Ref: func(m []byte, n int) []byte { return xofrun.K12(m, nil, n) }},
		{Name: "k12.NewDraft10(ctx)", New: func() xofrun.Obj { s := k12.NewDraft10([]byte("verif-ctx")); return k12Obj{&s} }, Ref: func(m []byte, n int) []byte { return xofrun.K12(m, []byte("verif-ctx"), n) }},
	}
	o := vlib.Create(filepath.Join(*dir, "trace.ndjson"))
	defer o.Close()
	tr := 0
	for _, fam := range []struct {
		file  string
		kinds []xofrun.Kind
	}{{"schedules_sponge.json", kinds}, {"schedules_k12.json", kkinds}} {
		var sch [][]json.RawMessage
		vlib.ReadJSON(filepath.Join(*dir, fam.file), &sch)
		for _, k := range fam.kinds {
			rng.Shuffle(len(sch), func(i, j int) { sch[i], sch[j] = sch[j], sch[i] })
			n := *nsch
			if n > len(sch) {
				n = len(sch)
			}
			for _, s := range sch[:n] {
				tr++
				for _, ln := range xofrun.Run(k, tr, s) {
					o.Emit(ln)
				}
			}
		}
	}
	fmt.Printf("traces=%d lines=%d jobs=%d k12jobs=%d refOK=%v\n", tr, o.N, len(jobs), len(kjobs), refOK)
}
