package main

import (
	"bytes"
	"path/filepath"

	"github.com/cloudflare/circl/cipher/ascon"
	"github.com/cloudflare/circl/zzverif/vlib"
)

type ajob struct {
	Mode  string `json:"mode"`
	Key   []int  `json:"key"`
	Nonce []int  `json:"nonce"`
	Ad    []int  `json:"ad"`
	Pt    []int  `json:"pt"`
	Want  []int  `json:"want"`
}

type aline struct {
	Ev       string `json:"ev"`
	Mode     string `json:"mode"`
	AdLen    int    `json:"adlen"`
	PtLen    int    `json:"ptlen"`
	What     string `json:"what"`
	Bit      int    `json:"bit"`
	Opened   bool   `json:"opened"`   // Open returned no error
	Released bool   `json:"released"` // Open returned a non-nil slice although it failed
	SameCT   bool   `json:"same_ct"`  // in-place / append variants produced the same bytes as the plain call
	RoundOK  bool   `json:"round_ok"` // Open(Seal(pt)) == pt, also in place and appended to a prefix
	Prefix   bool   `json:"prefix_kept"`
}

func flip(b []byte, bit int) []byte {
	c := append([]byte{}, b...)
	c[bit/8] ^= 1 << uint(bit%8)
	return c
}

// asconPart writes asconjobs.json (inputs + circl's C||T for TLC to recompute) and ascon.ndjson.
func asconPart(dir string, seed int64, scale int) {
	rng := vlib.Rng(seed, "ascon")
	modes := []ascon.Mode{ascon.Ascon128, ascon.Ascon128a, ascon.Ascon80pq}
	names := []string{"128", "128a", "80pq"}
	var jobs []ajob
	o := vlib.Create(filepath.Join(dir, "ascon.ndjson"))
	defer o.Close()
	for mi, m := range modes {
		r := 8
		if m == ascon.Ascon128a {
			r = 16
		}
		lens := []int{0, 1, r - 1, r, r + 1, 2 * r, 3*r - 1, 3 * r, 3*r + 1}
		for _, al := range lens {
			for _, pl := range lens {
				if scale == 1 && (al+pl+mi)%3 != 0 && al != pl { // quick: a third of the grid plus the diagonal
					continue
				}
				key, nonce := vlib.Bytes(rng, m.KeySize()), vlib.Bytes(rng, ascon.NonceSize)
				ad, pt := vlib.Bytes(rng, al), vlib.Bytes(rng, pl)
				c, err := ascon.New(key, m)
				if err != nil {
					vlib.Die("ascon.New: %v", err)
				}
				ct := c.Seal(nil, nonce, pt, ad)
				jobs = append(jobs, ajob{names[mi], ints(key), ints(nonce), ints(ad), ints(pt), ints(ct)})
				ln := aline{Ev: "roundtrip", Mode: names[mi], AdLen: al, PtLen: pl}
				// decryption inverts; append to a non-empty destination; exact in-place overlap
				p1, e1 := c.Open(nil, nonce, ct, ad)
				prefix := []byte("prefix-bytes")
				ct2 := c.Seal(append([]byte{}, prefix...), nonce, pt, ad)
				p2, e2 := c.Open(append([]byte{}, prefix...), nonce, ct, ad)
				buf := make([]byte, len(pt), len(pt)+ascon.TagSize)
				copy(buf, pt)
				ct3 := c.Seal(buf[:0], nonce, buf, ad)
				ctc := append([]byte{}, ct...)
				p3, e3 := c.Open(ctc[:0], nonce, ctc, ad)
				ln.SameCT = bytes.Equal(ct2[len(prefix):], ct) && bytes.Equal(ct3, ct) && len(ct) == len(pt)+ascon.TagSize
				ln.Prefix = bytes.HasPrefix(ct2, prefix) && e2 == nil && bytes.HasPrefix(p2, prefix)
				ln.RoundOK = e1 == nil && e2 == nil && e3 == nil && bytes.Equal(p1, pt) && bytes.Equal(p2[len(prefix):], pt) && bytes.Equal(p3, pt)
				ln.Opened = e1 == nil
				o.Emit(ln)
				// every single-bit alteration of key / nonce / ad / ciphertext / tag
				tamper := func(what string, nbits int, mk func(bit int) (*ascon.Cipher, []byte, []byte, []byte)) {
					for bit := 0; bit < nbits; bit++ {
						cc, n2, c2, a2 := mk(bit)
						pt2, err := cc.Open(nil, n2, c2, a2)
						if err == nil || pt2 != nil {
							o.Emit(aline{Ev: "tamper", Mode: names[mi], AdLen: al, PtLen: pl, What: what, Bit: bit, Opened: err == nil, Released: pt2 != nil})
						}
					}
					o.Emit(aline{Ev: "tamper-sweep", Mode: names[mi], AdLen: al, PtLen: pl, What: what, Bit: nbits})
				}
				tamper("key", len(key)*8, func(b int) (*ascon.Cipher, []byte, []byte, []byte) {
					c2, _ := ascon.New(flip(key, b), m)
					return c2, nonce, ct, ad
				})
				tamper("nonce", len(nonce)*8, func(b int) (*ascon.Cipher, []byte, []byte, []byte) { return c, flip(nonce, b), ct, ad })
				tamper("ad", len(ad)*8, func(b int) (*ascon.Cipher, []byte, []byte, []byte) { return c, nonce, ct, flip(ad, b) })
				tamper("ct+tag", len(ct)*8, func(b int) (*ascon.Cipher, []byte, []byte, []byte) { return c, nonce, flip(ct, b), ad })
			}
		}
	}
	vlib.WriteJSON(filepath.Join(dir, "asconjobs.json"), jobs)
}
