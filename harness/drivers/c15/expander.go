package main

import (
	"bytes"
	"crypto"
	"crypto/sha256"
	"crypto/sha512"
	"fmt"
	"hash"
	"math/rand"
	"path/filepath"
	"time"

	"github.com/cloudflare/circl/expander"
	"github.com/cloudflare/circl/xof"
	"github.com/cloudflare/circl/zzverif/vlib"
	"golang.org/x/crypto/sha3"
)

type expLine struct {
	Ev     string `json:"ev"`
	Kind   string `json:"kind"`
	DstLen int    `json:"dstlen"`
	MsgLen int    `json:"msglen"`
	N      int    `json:"n"`
	Admit  bool   `json:"admitted"` // RFC 9380: the request is within the limits (ell <= 255 resp. len_in_bytes <= 65535)
	Out    string `json:"out"`
	Ref    string `json:"ref"`
	Panics int    `json:"panics"`
	Note   string `json:"note"`
}

type expJob struct {
	Kind string `json:"kind"`
	K    int    `json:"k"`
	Dst  []int  `json:"dst"`
	Msg  []int  `json:"msg"`
	N    int    `json:"n"`
	Want []int  `json:"want"`
}

// plain transcription of RFC 9380 section 5.3 (standard library hashes, x/crypto SHAKE)
func refXMD(newH func() hash.Hash, dst, msg []byte, n int) []byte {
	h := newH()
	b, s := h.Size(), h.BlockSize()
	ell := (n + b - 1) / b
	if len(dst) > 255 {
		h.Write([]byte("H2C-OVERSIZE-DST-"))
		h.Write(dst)
		dst = h.Sum(nil)
		h.Reset()
	}
	dp := append(append([]byte{}, dst...), byte(len(dst)))
	h.Write(make([]byte, s))
	h.Write(msg)
	h.Write([]byte{byte(n >> 8), byte(n), 0})
	h.Write(dp)
	b0 := h.Sum(nil)
	h.Reset()
	h.Write(b0)
	h.Write([]byte{1})
	h.Write(dp)
	bi := h.Sum(nil)
	out := append([]byte{}, bi...)
	for i := 2; i <= ell; i++ {
		x := make([]byte, b)
		for j := range x {
			x[j] = b0[j] ^ bi[j]
		}
		h.Reset()
		h.Write(x)
		h.Write([]byte{byte(i)})
		h.Write(dp)
		bi = h.Sum(nil)
		out = append(out, bi...)
	}
	return out[:n]
}

func refXOF(shake128 bool, k int, dst, msg []byte, n int) []byte {
	mk := func() sha3.ShakeHash {
		if shake128 {
			return sha3.NewShake128()
		}
		return sha3.NewShake256()
	}
	if len(dst) > 255 {
		h := mk()
		h.Write([]byte("H2C-OVERSIZE-DST-"))
		h.Write(dst)
		d := make([]byte, (2*k+7)/8)
		h.Read(d)
		dst = d
	}
	h := mk()
	h.Write(msg)
	h.Write([]byte{byte(n >> 8), byte(n)})
	h.Write(dst)
	h.Write([]byte{byte(len(dst))})
	out := make([]byte, n)
	h.Read(out)
	return out
}

func ints15(b []byte) []int {
	o := make([]int, len(b))
	for i := range b {
		o[i] = int(b[i])
	}
	return o
}

// expanderPart writes expander.ndjson (every case, with the transcription's value) and expanderjobs.json (a sample for TLC).
func expanderPart(dir string, rng *rand.Rand, scale int) {
	o := vlib.Create(filepath.Join(dir, "expander.ndjson"))
	defer o.Close()
	type kind struct {
		name  string
		b     int // output block (xmd) or 0
		k     int
		mk    func(dst []byte) expander.Expander
		ref   func(dst, msg []byte, n int) []byte
		limit int
	}
	kinds := []kind{
		{"xmd-sha256", 32, 0, func(d []byte) expander.Expander { return expander.NewExpanderMD(crypto.SHA256, d) }, func(d, m []byte, n int) []byte { return refXMD(sha256.New, d, m, n) }, 255 * 32},
		{"xmd-sha384", 48, 0, func(d []byte) expander.Expander { return expander.NewExpanderMD(crypto.SHA384, d) }, func(d, m []byte, n int) []byte { return refXMD(sha512.New384, d, m, n) }, 255 * 48},
		{"xmd-sha512", 64, 0, func(d []byte) expander.Expander { return expander.NewExpanderMD(crypto.SHA512, d) }, func(d, m []byte, n int) []byte { return refXMD(sha512.New, d, m, n) }, 255 * 64},
		{"xof-shake128", 0, 128, func(d []byte) expander.Expander { return expander.NewExpanderXOF(xof.SHAKE128, 128, d) }, func(d, m []byte, n int) []byte { return refXOF(true, 128, d, m, n) }, 65535},
		{"xof-shake256", 0, 256, func(d []byte) expander.Expander { return expander.NewExpanderXOF(xof.SHAKE256, 256, d) }, func(d, m []byte, n int) []byte { return refXOF(false, 256, d, m, n) }, 65535},
	}
	var jobs []expJob
	for _, kd := range kinds {
		dstLens := []int{0, 1, 16, 254, 255, 256, 300}
		msgLens := []int{0, 1, 55, 63, 64, 65, 127, 128, 200}
		ns := []int{1, 31, 32, 33, 47, 48, 49, 63, 64, 65, 96, 128, 255, 256, 1000}
		if kd.b > 0 {
			ns = append(ns, kd.limit-1, kd.limit, kd.limit+1, 65535, 65536)
		} else {
			ns = append(ns, 8192, 65535, 65536, 65537, 131072)
		}
		for di, dl := range dstLens {
			for mi, ml := range msgLens {
				for ni, n := range ns {
					big := n > 1000
					if scale == 1 && !big && (di+mi+ni)%3 != 0 {
						continue
					}
					if big && (di+mi)%5 != 0 {
						continue
					}
					dst, msg := vlib.Bytes(rng, dl), vlib.Bytes(rng, ml)
					l := expLine{Ev: "expander", Kind: kd.name, DstLen: dl, MsgLen: ml, N: n, Admit: n <= kd.limit}
					if l.Admit {
						l.Ref = vlib.Hex(kd.ref(dst, msg, n))
					}
					var out []byte
					oc := vlib.Safe(60*time.Second, func() { out = kd.mk(dst).Expand(msg, uint(n)) })
					if oc.Bad() {
						l.Panics, l.Note = 1, oc.Panic
					} else {
						l.Out = vlib.Hex(out)
						// the same expander object answers a second request identically (no state carried over)
						e := kd.mk(dst)
						a := e.Expand(msg, uint(n))
						b := e.Expand(msg, uint(n))
						if !bytes.Equal(a, b) || !bytes.Equal(a, out) {
							l.Note = "second Expand on the same object differs"
							l.Out = "00"
						}
					}
					o.Emit(l)
					if l.Admit && !oc.Bad() && n <= 300 && (len(jobs) < 40*scale) && rng.Intn(6) == 0 {
						jobs = append(jobs, expJob{Kind: kd.name, K: kd.k, Dst: ints15(dst), Msg: ints15(msg), N: n, Want: ints15(out)})
					}
				}
			}
		}
	}
	vlib.WriteJSON(filepath.Join(dir, "expanderjobs.json"), jobs)
	fmt.Printf("expander lines=%d jobs=%d\n", o.N, len(jobs))
}
