// Package edref is a straight math/big transcription of RFC 8032 (Ed25519, Ed25519ctx, Ed25519ph, Ed448, Ed448ph):
// affine Edwards arithmetic, point encoding/decoding, key derivation, signing, and the verification FACTS the
// specification spec/C05/Rfc8032Verdict.tla decides on.  It shares no code with circl (SHA-512 from the standard
// library, SHAKE256 from golang.org/x/crypto).
package edref

import (
	"crypto/sha512"
	"math/big"

	"golang.org/x/crypto/sha3"
)

type Curve struct {
	Name    string
	P, L, D *big.Int
	A       int64 // coefficient of x^2: -1 (edwards25519) or 1 (edwards448)
	Bx, By  *big.Int
	N       int // encoding length
	Cof     int64
	Bits    int // bit length of the field
}

type Point struct{ X, Y *big.Int }

func hexi(s string) *big.Int { v, _ := new(big.Int).SetString(s, 16); return v }

var Ed25519 = func() *Curve {
	p := new(big.Int).Sub(new(big.Int).Lsh(big.NewInt(1), 255), big.NewInt(19))
	c := &Curve{Name: "ed25519", P: p, A: -1, N: 32, Cof: 8, Bits: 255}
	c.L = new(big.Int).Add(new(big.Int).Lsh(big.NewInt(1), 252), hexi("14def9dea2f79cd65812631a5cf5d3ed"))
	// d = -121665/121666
	c.D = new(big.Int).Mul(big.NewInt(-121665), new(big.Int).ModInverse(big.NewInt(121666), p))
	c.D.Mod(c.D, p)
	c.By = new(big.Int).Mul(big.NewInt(4), new(big.Int).ModInverse(big.NewInt(5), p))
	c.By.Mod(c.By, p)
	c.Bx = c.recoverX(c.By, 0)
	return c
}()

var Ed448 = func() *Curve {
	p := new(big.Int).Sub(new(big.Int).Lsh(big.NewInt(1), 448), new(big.Int).Lsh(big.NewInt(1), 224))
	p.Sub(p, big.NewInt(1))
	c := &Curve{Name: "ed448", P: p, A: 1, N: 57, Cof: 4, Bits: 448}
	c.L = new(big.Int).Sub(new(big.Int).Lsh(big.NewInt(1), 446), hexi("8335dc163bb124b65129c96fde933d8d723a70aadc873d6d54a7bb0d"))
	c.D = new(big.Int).Mod(big.NewInt(-39081), p)
	c.Bx = hexi("4f1970c66bed0ded221d15a622bf36da9e146570470f1767ea6de324a3d3a46412ae1af72ab66511433b80e18b00938e2626a82bc70cc05e")
	c.By = hexi("693f46716eb6bc248876203756c9c7624bea73736ca3984087789c1e05a0c2d73ad3ff1ce67c39c4fdbd132c4ed7c8ad9808795bf230fa14")
	return c
}()

func (c *Curve) mod(x *big.Int) *big.Int { return x.Mod(x, c.P) }

// recoverX solves a x^2 + y^2 = 1 + d x^2 y^2 for x with the given parity; nil if there is none (RFC 8032 5.1.3 / 5.2.3).
func (c *Curve) recoverX(y *big.Int, sign uint) *big.Int {
	yy := c.mod(new(big.Int).Mul(y, y))
	u := c.mod(new(big.Int).Sub(yy, big.NewInt(1)))                          // y^2 - 1
	v := c.mod(new(big.Int).Sub(new(big.Int).Mul(c.D, yy), big.NewInt(c.A))) // d y^2 - a
	vinv := new(big.Int).ModInverse(v, c.P)
	if vinv == nil {
		return nil
	}
	x2 := c.mod(new(big.Int).Mul(u, vinv))
	x := new(big.Int).ModSqrt(x2, c.P)
	if x == nil {
		return nil
	}
	if x.Sign() == 0 && sign == 1 {
		return nil // x = 0 with the sign bit set is not a valid encoding
	}
	if x.Bit(0) != sign {
		x.Sub(c.P, x)
	}
	return x
}

func (c *Curve) OnCurve(p Point) bool {
	xx, yy := c.mod(new(big.Int).Mul(p.X, p.X)), c.mod(new(big.Int).Mul(p.Y, p.Y))
	l := c.mod(new(big.Int).Add(new(big.Int).Mul(big.NewInt(c.A), xx), yy))
	r := c.mod(new(big.Int).Add(big.NewInt(1), new(big.Int).Mul(c.D, new(big.Int).Mul(xx, yy))))
	return l.Cmp(r) == 0
}

func (c *Curve) Identity() Point { return Point{big.NewInt(0), big.NewInt(1)} }
func (c *Curve) Base() Point     { return Point{new(big.Int).Set(c.Bx), new(big.Int).Set(c.By)} }

// Add is the complete affine addition law of (twisted) Edwards curves.
func (c *Curve) Add(p, q Point) Point {
	x1y2, y1x2 := new(big.Int).Mul(p.X, q.Y), new(big.Int).Mul(p.Y, q.X)
	y1y2, x1x2 := new(big.Int).Mul(p.Y, q.Y), new(big.Int).Mul(p.X, q.X)
	t := c.mod(new(big.Int).Mul(c.D, c.mod(new(big.Int).Mul(x1x2, y1y2))))
	nx := c.mod(new(big.Int).Add(x1y2, y1x2))
	ny := c.mod(new(big.Int).Sub(y1y2, new(big.Int).Mul(big.NewInt(c.A), x1x2)))
	dx := new(big.Int).ModInverse(c.mod(new(big.Int).Add(big.NewInt(1), t)), c.P)
	dy := new(big.Int).ModInverse(c.mod(new(big.Int).Sub(big.NewInt(1), t)), c.P)
	return Point{c.mod(nx.Mul(nx, dx)), c.mod(ny.Mul(ny, dy))}
}

func (c *Curve) Neg(p Point) Point { return Point{c.mod(new(big.Int).Neg(p.X)), new(big.Int).Set(p.Y)} }

func (c *Curve) Mul(k *big.Int, p Point) Point {
	r := c.Identity()
	for i := k.BitLen() - 1; i >= 0; i-- {
		r = c.Add(r, r)
		if k.Bit(i) == 1 {
			r = c.Add(r, p)
		}
	}
	return r
}

func (c *Curve) Equal(p, q Point) bool { return p.X.Cmp(q.X) == 0 && p.Y.Cmp(q.Y) == 0 }

func le(b []byte) *big.Int {
	r := make([]byte, len(b))
	for i := range b {
		r[len(b)-1-i] = b[i]
	}
	return new(big.Int).SetBytes(r)
}

func toLE(x *big.Int, n int) []byte {
	b := x.FillBytes(make([]byte, n))
	for i, j := 0, n-1; i < j; i, j = i+1, j-1 {
		b[i], b[j] = b[j], b[i]
	}
	return b
}

func (c *Curve) Encode(p Point) []byte {
	b := toLE(p.Y, c.N)
	b[c.N-1] |= byte(p.X.Bit(0)) << 7
	return b
}

// Decode returns the point and whether the string is THE canonical encoding of a curve point (RFC 8032: y < p, the
// unused bits zero, x recoverable, not x = 0 with sign 1).
func (c *Curve) Decode(b []byte) (Point, bool) {
	if len(b) != c.N {
		return Point{}, false
	}
	bb := append([]byte{}, b...)
	sign := uint(bb[c.N-1] >> 7)
	bb[c.N-1] &= 0x7f
	y := le(bb)
	if y.Cmp(c.P) >= 0 {
		return Point{}, false
	}
	x := c.recoverX(y, sign)
	if x == nil {
		return Point{}, false
	}
	return Point{x, y}, true
}

func (c *Curve) InPrimeSubgroup(p Point) bool { return c.Equal(c.Mul(c.L, p), c.Identity()) }

// ---- hashing

type Variant struct {
	C      *Curve
	Name   string
	Ph     bool
	UseDom bool // Ed25519 pure has no dom2 prefix at all
}

var (
	VEd25519    = Variant{Ed25519, "Ed25519", false, false}
	VEd25519ctx = Variant{Ed25519, "Ed25519ctx", false, true}
	VEd25519ph  = Variant{Ed25519, "Ed25519ph", true, true}
	VEd448      = Variant{Ed448, "Ed448", false, true}
	VEd448ph    = Variant{Ed448, "Ed448ph", true, true}
)

func (v Variant) dom(ctx []byte) []byte {
	if !v.UseDom {
		return nil
	}
	f := byte(0)
	if v.Ph {
		f = 1
	}
	var d []byte
	if v.C == Ed25519 {
		d = []byte("SigEd25519 no Ed25519 collisions")
	} else {
		d = []byte("SigEd448")
	}
	d = append(d, f, byte(len(ctx)))
	return append(d, ctx...)
}

func (v Variant) h(parts ...[]byte) []byte {
	if v.C == Ed25519 {
		h := sha512.New()
		for _, p := range parts {
			h.Write(p)
		}
		return h.Sum(nil)
	}
	h := sha3.NewShake256()
	for _, p := range parts {
		_, _ = h.Write(p)
	}
	out := make([]byte, 114)
	_, _ = h.Read(out)
	return out
}

func (v Variant) PH(msg []byte) []byte {
	if !v.Ph {
		return msg
	}
	if v.C == Ed25519 {
		s := sha512.Sum512(msg)
		return s[:]
	}
	out := make([]byte, 64)
	sha3.ShakeSum256(out, msg)
	return out
}

// Expand returns the secret scalar s and the prefix of a seed.
func (c *Curve) Expand(seed []byte) (*big.Int, []byte) {
	var h []byte
	if c == Ed25519 {
		s := sha512.Sum512(seed)
		h = s[:]
		h[0] &= 248
		h[31] &= 127
		h[31] |= 64
		return le(h[:32]), h[32:]
	}
	h = make([]byte, 114)
	sha3.ShakeSum256(h, seed)
	h[0] &= 252
	h[55] |= 128
	h[56] = 0
	return le(h[:57]), h[57:]
}

func (c *Curve) PublicKey(seed []byte) []byte {
	s, _ := c.Expand(seed)
	return c.Encode(c.Mul(s, c.Base()))
}

// SignTrace carries the intermediate values of one signature (for the specification's arithmetic check).
type SignTrace struct {
	Sig      []byte
	HR, HK   *big.Int // the two hash values as little-endian integers, before reduction
	R, K, S  *big.Int // r = HR mod L, k = HK mod L, S = r + k s mod L
	Secret   *big.Int
	PubBytes []byte
}

func (v Variant) Sign(seed, msg, ctx []byte) SignTrace {
	c := v.C
	s, prefix := c.Expand(seed)
	A := c.Encode(c.Mul(s, c.Base()))
	m := v.PH(msg)
	dom := v.dom(ctx)
	hr := le(v.h(dom, prefix, m))
	r := new(big.Int).Mod(hr, c.L)
	Rb := c.Encode(c.Mul(r, c.Base()))
	hk := le(v.h(dom, Rb, A, m))
	k := new(big.Int).Mod(hk, c.L)
	S := new(big.Int).Mod(new(big.Int).Add(r, new(big.Int).Mul(k, s)), c.L)
	return SignTrace{Sig: append(Rb, toLE(S, c.N)...), HR: hr, HK: hk, R: r, K: k, S: S, Secret: s, PubBytes: A}
}

// Facts are what RFC 8032 verification depends on.
type Facts struct {
	LenOK, CtxOK   bool
	SLess          bool // S < L (and, for Ed448, the whole 57-byte string below L)
	ACanon, RCanon bool // A resp. R is the canonical encoding of a curve point
	APrime         bool // A lies in the prime-order subgroup
	Cofactorless   bool // [S]B = R + [k]A
	Cofactored     bool // [c][S]B = [c]R + [c][k]A
}

func (v Variant) Facts(pub, msg, ctx, sig []byte) Facts {
	c := v.C
	f := Facts{LenOK: len(pub) == c.N && len(sig) == 2*c.N, CtxOK: len(ctx) <= 255}
	if !v.UseDom && len(ctx) > 0 {
		f.CtxOK = false
	}
	if !f.LenOK || !f.CtxOK {
		return f
	}
	S := le(sig[c.N:])
	f.SLess = S.Cmp(c.L) < 0
	A, aok := c.Decode(pub)
	R, rok := c.Decode(sig[:c.N])
	f.ACanon, f.RCanon = aok, rok
	if !aok || !rok {
		return f
	}
	f.APrime = c.InPrimeSubgroup(A)
	k := new(big.Int).Mod(le(v.h(v.dom(ctx), sig[:c.N], pub, v.PH(msg))), c.L)
	lhs := c.Mul(new(big.Int).Mod(S, c.L), c.Base())
	rhs := c.Add(R, c.Mul(k, A))
	f.Cofactorless = c.Equal(lhs, rhs)
	cf := big.NewInt(c.Cof)
	f.Cofactored = c.Equal(c.Mul(cf, lhs), c.Mul(cf, rhs))
	return f
}

// SmallOrderPoints returns the points of order dividing the cofactor.
func (c *Curve) SmallOrderPoints() []Point {
	var out []Point
	seen := map[string]bool{}
	// multiples of a generator of the torsion subgroup: take any point, multiply by L
	for y := int64(2); len(out) < int(c.Cof) && y < 200; y++ {
		x := c.recoverX(big.NewInt(y), 0)
		if x == nil {
			continue
		}
		t := c.Mul(c.L, Point{x, big.NewInt(y)})
		q := c.Identity()
		for i := int64(0); i < c.Cof; i++ {
			k := string(c.Encode(q))
			if !seen[k] {
				seen[k] = true
				out = append(out, q)
			}
			q = c.Add(q, t)
		}
	}
	return out
}

// Challenge is k = H(dom || R || A || PH(M)) mod L for arbitrary byte strings standing for R and A.
func (v Variant) Challenge(Rbytes, Abytes, msg, ctx []byte) *big.Int {
	return new(big.Int).Mod(le(v.h(v.dom(ctx), Rbytes, Abytes, v.PH(msg))), v.C.L)
}
