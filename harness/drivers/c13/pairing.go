package main

import (
	"math/big"

	"github.com/cloudflare/circl/ecc/bls12381"
	"github.com/cloudflare/circl/zzverif/grouprun"
	"github.com/cloudflare/circl/zzverif/vlib"
)

type pevent struct {
	grouprun.Event
	As []int   `json:"as"`
	Bs []int   `json:"bs"`
	Ns [][]int `json:"ns"`
}

// pairingTraces: registers 0..3 hold G1 elements, 10..13 G2 elements, 20..25 Gt elements.  Bilinearity,
// non-degeneracy, identity inputs and products of pairings are all consequences of "form of e(A,B) = form A * form B".
func pairingTraces(seed int64, impl string, n, tr0 int, o *vlib.Out) {
	rng := vlib.Rng(seed, "c13pairing")
	L := new(big.Int).SetBytes(bls12381.Order())
	sc := func(k *big.Int) *bls12381.Scalar { var x bls12381.Scalar; x.SetBytes(k.Bytes()); return &x }
	scal := grouprun.Scalars(L, new(big.Int).Sub(new(big.Int).Lsh(big.NewInt(1), 256), big.NewInt(1)), rng, 4)
	for t := 0; t < n; t++ {
		tr := tr0 + t
		ev := func(op string) pevent {
			return pevent{Event: grouprun.Event{Op: op, Tr: tr, G: "bls12381scalar", Impl: "ecc/bls12381 pairing " + impl, K: []int{}, M: []int{}, N: []int{}, Q: []int{}, R: []int{}, Cof: 1},
				As: []int{}, Bs: []int{}, Ns: [][]int{}}
		}
		red := func(e *pevent, x *big.Int) *big.Int {
			r := new(big.Int).Mod(x, L)
			e.Q, e.R = vlib.Quot(x, L), vlib.Digits(r)
			return r
		}
		o.Emit(ev("reset"))
		var g1 [4]bls12381.G1
		var g2 [4]bls12381.G2
		var gt [6]*bls12381.Gt
		f := map[int]*big.Int{}
		for i := 0; i < 4; i++ {
			k1, k2 := scal[rng.Intn(len(scal))], scal[rng.Intn(len(scal))]
			if i == 0 && t%2 == 0 {
				k1 = big.NewInt(0) // an identity input
			}
			if i == 1 && t%3 == 0 {
				k2 = new(big.Int).Set(L)
			}
			e := ev("base")
			e.Dst, e.K = i, vlib.Digits(k1)
			g1[i].ScalarMult(sc(k1), bls12381.G1Generator())
			f[i] = red(&e, k1)
			o.Emit(e)
			e = ev("base")
			e.Dst, e.K = 10+i, vlib.Digits(k2)
			g2[i].ScalarMult(sc(k2), bls12381.G2Generator())
			f[10+i] = red(&e, k2)
			o.Emit(e)
		}
		for i := 0; i < 4; i++ { // single pairings
			a, b := rng.Intn(4), rng.Intn(4)
			e := ev("pair")
			e.Dst, e.A, e.B = 20+i, a, 10+b
			gt[i] = bls12381.Pair(&g1[a], &g2[b])
			f[20+i] = red(&e, new(big.Int).Mul(f[a], f[10+b]))
			o.Emit(e)
		}
		{ // product of pairings with exponents
			e := ev("prodpair")
			e.Dst = 24
			var ps []*bls12381.G1
			var qs []*bls12381.G2
			var ns []*bls12381.Scalar
			sum := new(big.Int)
			for i := 0; i < 3; i++ {
				a, b := rng.Intn(4), rng.Intn(4)
				nn := scal[rng.Intn(len(scal))]
				e.As, e.Bs, e.Ns = append(e.As, a), append(e.Bs, 10+b), append(e.Ns, vlib.Digits(nn))
				ps, qs, ns = append(ps, &g1[a]), append(qs, &g2[b]), append(ns, sc(nn))
				sum.Add(sum, new(big.Int).Mul(nn, new(big.Int).Mul(f[a], f[10+b])))
			}
			gt[4] = bls12381.ProdPair(ps, qs, ns)
			f[24] = red(&e, sum)
			o.Emit(e.fix())
		}
		{ // ProdPairFrac with signs +1 / -1
			e := ev("prodpair")
			e.Dst = 25
			var ps []*bls12381.G1
			var qs []*bls12381.G2
			var signs []int
			sum := new(big.Int)
			for i := 0; i < 3; i++ {
				a, b := rng.Intn(4), rng.Intn(4)
				sg := 1 - 2*rng.Intn(2)
				nn := big.NewInt(1)
				if sg < 0 {
					nn = new(big.Int).Sub(L, big.NewInt(1))
				}
				e.As, e.Bs, e.Ns = append(e.As, a), append(e.Bs, 10+b), append(e.Ns, vlib.Digits(nn))
				ps, qs, signs = append(ps, &g1[a]), append(qs, &g2[b]), append(signs, sg)
				sum.Add(sum, new(big.Int).Mul(nn, new(big.Int).Mul(f[a], f[10+b])))
			}
			gt[5] = bls12381.ProdPairFrac(ps, qs, signs)
			f[25] = red(&e, sum)
			o.Emit(e.fix())
		}
		// Gt arithmetic: Mul (= add of forms), Exp (= mul), Inv (= neg), written into register 20 / 21
		{
			e := ev("add")
			e.Dst, e.A, e.B = 20, 22, 23
			z := new(bls12381.Gt)
			z.Mul(gt[2], gt[3])
			gt[0] = z
			f[20] = red(&e, new(big.Int).Add(f[22], f[23]))
			o.Emit(e)
			k := scal[rng.Intn(len(scal))]
			e = ev("mul")
			e.Dst, e.A, e.K = 21, 24, vlib.Digits(k)
			z2 := new(bls12381.Gt)
			z2.Exp(gt[4], sc(k))
			gt[1] = z2
			f[21] = red(&e, new(big.Int).Mul(k, f[24]))
			o.Emit(e)
			e = ev("neg")
			e.Dst, e.A = 22, 25
			z3 := new(bls12381.Gt)
			z3.Inv(gt[5])
			gt[2] = z3
			f[22] = red(&e, new(big.Int).Sub(L, f[25]))
			o.Emit(e)
		}
		for i := 0; i < 6; i++ {
			e := ev("id")
			e.A, e.Eq = 20+i, gt[i].IsIdentity()
			o.Emit(e)
			for j := i; j < 6; j++ {
				e := ev("eq")
				e.A, e.B, e.Eq = 20+i, 20+j, gt[i].IsEqual(gt[j])
				o.Emit(e)
			}
		}
	}
}

func (e pevent) fix() pevent { return e }
