// Driver for C13: P-384 (ecc/p384), the group package (P-256, P-384, P-521, ristretto255), Goldilocks, FourQ,
// BLS12-381 G1 / G2 / Gt and the pairing, through the generic runner of grouprun.  TLC validates the recorded
// operations against spec/C13/GroupMachine.tla.
package main

import (
	"bytes"
	"crypto/elliptic"
	"flag"
	"fmt"
	"math/big"

	"github.com/cloudflare/circl/ecc/bls12381"
	"github.com/cloudflare/circl/ecc/fourq"
	"github.com/cloudflare/circl/ecc/goldilocks"
	"github.com/cloudflare/circl/ecc/p384"
	"github.com/cloudflare/circl/group"
	"github.com/cloudflare/circl/zzverif/grouprun"
	"github.com/cloudflare/circl/zzverif/vlib"
)

func pow2m1(n uint) *big.Int { return new(big.Int).Sub(new(big.Int).Lsh(big.NewInt(1), n), big.NewInt(1)) }

func groups(impl string) []*grouprun.Group {
	var gs []*grouprun.Group
	{ // ecc/p384: affine big.Int API, (0,0) is the point at infinity
		c := p384.P384()
		const n = 6
		var x, y [n]*big.Int
		for i := range x {
			x[i], y[i] = new(big.Int), new(big.Int)
		}
		P := c.Params().P
		gs = append(gs, &grouprun.Group{Name: "p384scalar", Impl: "ecc/p384 " + impl, L: c.Params().N, ScalarMax: pow2m1(384), Cof: 1, NRegs: n,
			Base: func(d int, k *big.Int) { x[d], y[d] = c.ScalarBaseMult(k.FillBytes(make([]byte, 48))) },
			Mul:  func(d, s int, k *big.Int) { x[d], y[d] = c.ScalarMult(x[s], y[s], k.FillBytes(make([]byte, 48))) },
			Add:  func(d, a, b int) { x[d], y[d] = c.Add(x[a], y[a], x[b], y[b]) },
			Dbl:  func(d, a int) { x[d], y[d] = c.Double(x[a], y[a]) },
			Neg: func(d, a int) {
				nx, ny := new(big.Int).Set(x[a]), new(big.Int).Set(y[a])
				if ny.Sign() != 0 {
					ny.Sub(P, ny)
				}
				x[d], y[d] = nx, ny
			},
			Combined: func(d, s int, m, nn *big.Int) {
				x[d], y[d] = c.CombinedMult(x[s], y[s], m.FillBytes(make([]byte, 48)), nn.FillBytes(make([]byte, 48)))
			},
			Eq:   func(a, b int) bool { return x[a].Cmp(x[b]) == 0 && y[a].Cmp(y[b]) == 0 },
			IsID: func(a int) bool { return x[a].Sign() == 0 && y[a].Sign() == 0 }})
	}
	l25519, _ := new(big.Int).SetString("7237005577332262213973186563042994240857116359379907606001950938285454250989", 10)
	for _, gi := range []struct {
		g    group.Group
		name string
		ord  *big.Int
		le   bool
	}{{group.P256, "p256scalar", elliptic.P256().Params().N, false}, {group.P384, "p384scalar", elliptic.P384().Params().N, false},
		{group.P521, "p521scalar", elliptic.P521().Params().N, false}, {group.Ristretto255, "ed25519scalar", l25519, true}} {
		g, le := gi.g, gi.le
		const n = 6
		r := make([]group.Element, n)
		for i := range r {
			r[i] = g.NewElement()
		}
		size := int(g.Params().ScalarLength)
		scalar := func(k *big.Int) group.Scalar { // scalars enter through their byte encoding, reduced by the driver only when wider than the type
			kk := k
			if k.BitLen() > 8*size || le {
				kk = new(big.Int).Mod(k, gi.ord)
			}
			b := kk.FillBytes(make([]byte, size))
			if le {
				b = vlib.ToLE(kk, size)
			}
			s := g.NewScalar()
			if err := s.UnmarshalBinary(b); err != nil {
				vlib.Die("scalar: %v", err)
			}
			return s
		}
		smax := pow2m1(uint(8 * size))
		if le {
			smax = new(big.Int).Sub(gi.ord, big.NewInt(1)) // ristretto scalars must be canonical on the wire
		}
		gs = append(gs, &grouprun.Group{Name: gi.name, Impl: fmt.Sprintf("group.%v %s", g, impl), L: gi.ord, ScalarMax: smax, Cof: 1, NRegs: n,
			Base: func(d int, k *big.Int) { r[d].MulGen(scalar(k)) },
			Mul:  func(d, s int, k *big.Int) { r[d].Mul(r[s], scalar(k)) },
			Add:  func(d, a, b int) { r[d].Add(r[a], r[b]) },
			Dbl:  func(d, a int) { r[d].Dbl(r[a]) },
			Neg:  func(d, a int) { r[d].Neg(r[a]) },
			Recode: func(d, s int) bool {
				b, err := r[s].MarshalBinary()
				if err != nil {
					return false
				}
				if d%2 == 1 {
					b, _ = r[s].MarshalBinaryCompress()
				}
				e := g.NewElement()
				if e.UnmarshalBinary(b) != nil {
					return false
				}
				r[d] = e
				return true
			},
			Eq: func(a, b int) bool {
				ba, _ := r[a].MarshalBinaryCompress()
				bb, _ := r[b].MarshalBinaryCompress()
				eq := r[a].IsEqual(r[b])
				if eq != bytes.Equal(ba, bb) { // the two notions of equality must agree; if not, report "not what the forms say"
					return !eq
				}
				return eq
			},
			IsID: func(a int) bool { return r[a].IsIdentity() }})
	}
	{ // Goldilocks (Ed448 curve): full-width 56-byte scalars are admitted
		var e goldilocks.Curve
		const n = 6
		r := make([]*goldilocks.Point, n)
		for i := range r {
			r[i] = e.Identity()
		}
		ord := e.Order()
		L := vlib.FromLE(ord[:])
		sc := func(k *big.Int) *goldilocks.Scalar { var s goldilocks.Scalar; copy(s[:], vlib.ToLE(k, 56)); return &s }
		gs = append(gs, &grouprun.Group{Name: "goldilocksscalar", Impl: "ecc/goldilocks " + impl, L: L, ScalarMax: pow2m1(448), Cof: 1, NRegs: n,
			Base:     func(d int, k *big.Int) { r[d] = e.ScalarBaseMult(sc(k)) },
			Mul:      func(d, s int, k *big.Int) { r[d] = e.ScalarMult(sc(k), r[s]) },
			Add:      func(d, a, b int) { r[d] = e.Add(r[a], r[b]) },
			Dbl:      func(d, a int) { r[d] = e.Double(r[a]) },
			Neg:      func(d, a int) { q := *r[a]; q.Neg(); r[d] = &q },
			Combined: func(d, s int, m, nn *big.Int) { r[d] = e.CombinedMult(sc(m), sc(nn), r[s]) },
			Recode: func(d, s int) bool {
				b, err := r[s].MarshalBinary()
				if err != nil {
					return false
				}
				q, err := goldilocks.FromBytes(b)
				if err != nil {
					return false
				}
				r[d] = q
				return true
			},
			Eq: func(a, b int) bool {
				ba, _ := r[a].MarshalBinary()
				bb, _ := r[b].MarshalBinary()
				eq := r[a].IsEqual(r[b])
				if eq != bytes.Equal(ba, bb) {
					return !eq
				}
				return eq
			},
			IsID: func(a int) bool { return r[a].IsIdentity() }})
	}
	{ // FourQ: variable-base multiplication clears the cofactor first (392 * k * Q); all registers stay in the order-N subgroup
		const n = 6
		var r [n]fourq.Point
		for i := range r {
			r[i].SetIdentity()
		}
		N := fourq.Params().N
		k32 := func(k *big.Int) *[32]byte { var b [32]byte; copy(b[:], vlib.ToLE(k, 32)); return &b }
		gs = append(gs, &grouprun.Group{Name: "fourqorder", Impl: "ecc/fourq " + impl, L: N, ScalarMax: pow2m1(256), Cof: 392, NRegs: n,
			Base: func(d int, k *big.Int) { r[d].ScalarBaseMult(k32(k)) },
			Mul:  func(d, s int, k *big.Int) { r[d].ScalarMult(k32(k), &r[s]) },
			Add:  func(d, a, b int) { var t fourq.Point; t.Add(&r[a], &r[b]); r[d] = t },
			Recode: func(d, s int) bool {
				var b [32]byte
				r[s].Marshal(&b)
				var q fourq.Point
				if !q.Unmarshal(&b) {
					return false
				}
				r[d] = q
				return true
			},
			Eq: func(a, b int) bool {
				var ba, bb [32]byte
				r[a].Marshal(&ba)
				r[b].Marshal(&bb)
				return ba == bb
			},
			IsID: func(a int) bool { return r[a].IsIdentity() }})
	}
	{ // BLS12-381 G1 and G2
		const n = 6
		var r [n]bls12381.G1
		var s [n]bls12381.G2
		for i := 0; i < n; i++ {
			r[i].SetIdentity()
			s[i].SetIdentity()
		}
		L := new(big.Int).SetBytes(bls12381.Order())
		sc := func(k *big.Int) *bls12381.Scalar { var x bls12381.Scalar; x.SetBytes(k.Bytes()); return &x }
		gs = append(gs, &grouprun.Group{Name: "bls12381scalar", Impl: "ecc/bls12381 G1 " + impl, L: L, ScalarMax: pow2m1(300), Cof: 1, NRegs: n,
			Base: func(d int, k *big.Int) { r[d].ScalarMult(sc(k), bls12381.G1Generator()) },
			Mul:  func(d, a int, k *big.Int) { r[d].ScalarMult(sc(k), &r[a]) },
			Add:  func(d, a, b int) { r[d].Add(&r[a], &r[b]) },
			Dbl:  func(d, a int) { r[d] = r[a]; r[d].Double() },
			Neg:  func(d, a int) { r[d] = r[a]; r[d].Neg() },
			Recode: func(d, a int) bool {
				b := r[a].Bytes()
				if d%2 == 1 {
					b = r[a].BytesCompressed()
				}
				return r[d].SetBytes(b) == nil
			},
			Eq: func(a, b int) bool {
				eq := r[a].IsEqual(&r[b])
				if eq != bytes.Equal(r[a].BytesCompressed(), r[b].BytesCompressed()) {
					return !eq
				}
				return eq
			},
			IsID: func(a int) bool { return r[a].IsIdentity() }})
		gs = append(gs, &grouprun.Group{Name: "bls12381scalar", Impl: "ecc/bls12381 G2 " + impl, L: L, ScalarMax: pow2m1(300), Cof: 1, NRegs: n,
			Base: func(d int, k *big.Int) { s[d].ScalarMult(sc(k), bls12381.G2Generator()) },
			Mul:  func(d, a int, k *big.Int) { s[d].ScalarMult(sc(k), &s[a]) },
			Add:  func(d, a, b int) { s[d].Add(&s[a], &s[b]) },
			Dbl:  func(d, a int) { s[d] = s[a]; s[d].Double() },
			Neg:  func(d, a int) { s[d] = s[a]; s[d].Neg() },
			Recode: func(d, a int) bool {
				b := s[a].Bytes()
				if d%2 == 1 {
					b = s[a].BytesCompressed()
				}
				return s[d].SetBytes(b) == nil
			},
			Eq: func(a, b int) bool {
				eq := s[a].IsEqual(&s[b])
				if eq != bytes.Equal(s[a].BytesCompressed(), s[b].BytesCompressed()) {
					return !eq
				}
				return eq
			},
			IsID: func(a int) bool { return s[a].IsIdentity() }})
	}
	return gs
}

func main() {
	out := flag.String("out", "trace.ndjson", "")
	seed := flag.Int64("seed", 1, "")
	ntr := flag.Int("traces", 6, "sub-traces per group")
	steps := flag.Int("steps", 14, "")
	impl := flag.String("impl", "default", "")
	npair := flag.Int("pairings", 4, "pairing sub-traces")
	flag.Parse()
	o := vlib.Create(*out)
	defer o.Close()
	tr := 1
	for _, g := range groups(*impl) {
		rng := vlib.Rng(*seed, "c13"+g.Impl)
		grouprun.Run(g, rng, *ntr, *steps, tr, func(e grouprun.Event) { o.Emit(e) })
		tr += *ntr
	}
	pairingTraces(*seed, *impl, *npair, tr, o)
	fmt.Printf("events=%d\n", o.N)
}
