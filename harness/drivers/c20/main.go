// Driver for C20: runs every TLC-enumerated policy formula x attribute assignment through the
// real tkn20 code (parser, printer, Satisfaction, CouldDecrypt, ExtractFromCiphertext, Encrypt,
// KeyGen, Decrypt, marshal round trips) and records what it answered.  TLC judges the record.
package main

import (
	"bytes"
	"encoding/json"
	"flag"
	"fmt"
	"os"
	"path/filepath"
	"sync"
	"time"

	"github.com/cloudflare/circl/abe/cpabe/tkn20"
	"github.com/cloudflare/circl/zzverif/vlib"
)

type polRow struct {
	F json.RawMessage `json:"f"`
	P string          `json:"p"`
}

type pairRow struct {
	At        map[string]string `json:"at"`
	Sat       bool              `json:"sat"`
	SatRT     bool              `json:"sat_rt"`
	Could     string            `json:"could"`
	Extracted string            `json:"extracted"`
	Dec       string            `json:"dec"`
}

type line struct {
	Ev   string          `json:"ev"`
	F    json.RawMessage `json:"f"`
	P    string          `json:"p"`
	Rows []pairRow       `json:"rows"`
	Note string          `json:"note"`
}

var avals = []string{"none", "x", "y", "z"}

func yn(b bool) string {
	if b {
		return "yes"
	}
	return "no"
}

func attrs(a, b string, la, lb string, val func(string) string) tkn20.Attributes {
	m := map[string]string{}
	if a != "none" {
		m[la] = val(a)
	}
	if b != "none" {
		m[lb] = val(b)
	}
	var at tkn20.Attributes
	at.FromMap(m)
	return at
}

func decClass(k *tkn20.AttributeKey, ct, msg []byte) string {
	var pt []byte
	var err error
	oc := vlib.Safe(20*time.Second, func() { pt, err = k.Decrypt(ct) })
	switch {
	case oc.Timeout:
		return "timeout"
	case oc.Panic != "":
		return "err" // a panic releases nothing; panics are judged under C10
	case err != nil:
		return "err"
	case bytes.Equal(pt, msg):
		return "msg"
	default:
		return "other"
	}
}

func main() {
	pols := flag.String("pols", "", "policies.json from TLC")
	out := flag.String("out", "trace.ndjson", "")
	seed := flag.Int64("seed", 1, "")
	nsat := flag.Int("nsat", 1<<30, "max policies for predicate checks")
	ndec := flag.Int("ndec", 200, "policies that are also encrypted and decrypted under all 16 keys")
	ntamper := flag.Int("ntamper", 150, "single-bit alterations of ciphertexts")
	testdata := flag.String("testdata", "", "tkn20/testdata directory (old-format golden ciphertext)")
	large := flag.String("large", "", "")
	flag.Parse()
	if *large != "" {
		largePolicies(*large, vlib.Rng(*seed, "c20-large"), []int{20, 300, 1000, 1400})
		return
	}

	var rows []polRow
	vlib.ReadJSON(*pols, &rows)
	rng := vlib.Rng(*seed, "c20")
	rng.Shuffle(len(rows), func(i, j int) { rows[i], rows[j] = rows[j], rows[i] })
	if len(rows) > *nsat {
		rows = rows[:*nsat]
	}
	pk, msk, err := tkn20.Setup(vlib.SeededReader{R: rng})
	if err != nil {
		vlib.Die("Setup: %v", err)
	}
	// marshal round trips of the system keys; the round-tripped ones are used from here on
	{
		b, e1 := pk.MarshalBinary()
		var pk2 tkn20.PublicKey
		e2 := pk2.UnmarshalBinary(b)
		c, e3 := msk.MarshalBinary()
		var msk2 tkn20.SystemSecretKey
		e4 := msk2.UnmarshalBinary(c)
		if e1 != nil || e2 != nil || e3 != nil || e4 != nil || !pk.Equal(&pk2) || !msk.Equal(&msk2) {
			vlib.Die("system key marshal round trip failed: %v %v %v %v", e1, e2, e3, e4)
		}
		pk, msk = pk2, msk2
	}
	id := func(s string) string { return s }
	keys := map[string]*tkn20.AttributeKey{}
	for _, a := range avals {
		for _, b := range avals {
			at := attrs(a, b, "a", "b", id)
			k, err := msk.KeyGen(vlib.SeededReader{R: rng}, at)
			if err != nil {
				vlib.Die("KeyGen: %v", err)
			}
			raw, e1 := k.MarshalBinary()
			var k2 tkn20.AttributeKey
			if e1 != nil || k2.UnmarshalBinary(raw) != nil || !k.Equal(&k2) {
				vlib.Die("attribute key round trip failed")
			}
			keys[a+","+b] = &k2
		}
	}
	o := vlib.Create(*out)
	defer o.Close()
	var mu sync.Mutex
	var wg sync.WaitGroup
	sem := make(chan struct{}, 16)
	type tjob struct {
		f   json.RawMessage
		p   string
		ct  []byte
		msg []byte
	}
	var tjobs []tjob
	for i, r := range rows {
		i, r := i, r
		wg.Add(1)
		sem <- struct{}{}
		go func() {
			defer func() { <-sem; wg.Done() }()
			ln := line{Ev: "pol", F: r.F, P: r.P}
			var p, p2 tkn20.Policy
			if err := p.FromString(r.P); err != nil {
				ln.Note = "parse error: " + err.Error()
				ln.Rows = []pairRow{{At: map[string]string{"a": "none", "b": "none"}, Could: "parse-error", Extracted: "skip", Dec: "skip"}}
				mu.Lock()
				o.Emit(ln)
				mu.Unlock()
				return
			}
			rtOK := p2.FromString(p.String()) == nil
			var ct, msg []byte
			var pe tkn20.Policy
			extOK := false
			if i < *ndec {
				lens := []int{0, 1, 31, 32, 33, 200, 1500}
				msg = vlib.Bytes(vlib.Rng(*seed, r.P), lens[i%len(lens)])
				var err error
				ct, err = pk.Encrypt(vlib.SeededReader{R: vlib.Rng(*seed, "enc"+r.P)}, p, msg)
				if err != nil {
					ln.Note = "encrypt error: " + err.Error()
					ct = nil
				} else {
					extOK = pe.ExtractFromCiphertext(ct) == nil
				}
			}
			for _, a := range avals {
				for _, b := range avals {
					at := attrs(a, b, "a", "b", id)
					pr := pairRow{At: map[string]string{"a": a, "b": b}, Could: "skip", Extracted: "skip", Dec: "skip"}
					pr.Sat = p.Satisfaction(at)
					pr.SatRT = rtOK && p2.Satisfaction(at)
					if !rtOK {
						pr.SatRT = !pr.Sat // forces a rejection: printed policy does not parse
					}
					if ct != nil {
						pr.Could = yn(at.CouldDecrypt(ct))
						if extOK {
							pr.Extracted = yn(pe.Satisfaction(at))
						} else {
							pr.Extracted = "extract-error"
						}
						pr.Dec = decClass(keys[a+","+b], ct, msg)
					}
					ln.Rows = append(ln.Rows, pr)
				}
			}
			mu.Lock()
			o.Emit(ln)
			if ct != nil && len(tjobs) < 12 {
				tjobs = append(tjobs, tjob{r.F, r.P, ct, msg})
			}
			mu.Unlock()
		}()
	}
	wg.Wait()
	// single-bit alterations: never a different message
	for n := 0; n < *ntamper && len(tjobs) > 0; n++ {
		j := tjobs[n%len(tjobs)]
		bit := rng.Intn(len(j.ct) * 8)
		if n%3 == 0 { // bias towards the header (version, id, lengths)
			bit = rng.Intn(80 * 8)
		}
		c := append([]byte{}, j.ct...)
		c[bit/8] ^= 1 << uint(bit%8)
		a, b := avals[rng.Intn(4)], avals[rng.Intn(4)]
		d := decClass(keys[a+","+b], c, j.msg)
		o.Emit(line{Ev: "tamper", F: j.f, P: j.p, Note: fmt.Sprintf("bit %d of %d", bit, len(j.ct)*8),
			Rows: []pairRow{{At: map[string]string{"a": a, "b": b}, Could: "skip", Extracted: "skip", Dec: d}}})
	}
	// old ciphertext format: the repository's golden file (policy "EU: true"), relabelled EU->a, true->x, country->b
	if *testdata != "" {
		ct, e1 := os.ReadFile(filepath.Join(*testdata, "ciphertext_v137"))
		ctNew, e1b := os.ReadFile(filepath.Join(*testdata, "ciphertext"))
		sk, e2 := os.ReadFile(filepath.Join(*testdata, "secretKey"))
		var msk3 tkn20.SystemSecretKey
		if e1 == nil && e1b == nil && e2 == nil && msk3.UnmarshalBinary(sk) == nil {
			val := func(s string) string { return map[string]string{"x": "true", "y": "false", "z": "maybe"}[s] }
			for gi, g := range [][]byte{ct, ctNew} {
				ln := line{Ev: "pol", P: "golden file " + []string{"ciphertext_v137", "ciphertext"}[gi] + " (EU: true), labels EU->a country->b, true->x",
					F: json.RawMessage(`{"k":"leaf","l":"a","v":"x"}`)}
				var pe tkn20.Policy
				extOK := pe.ExtractFromCiphertext(g) == nil
				var msg []byte
				for _, a := range avals {
					for _, b := range avals {
						at := attrs(a, b, "EU", "country", val)
						k, err := msk3.KeyGen(vlib.SeededReader{R: rng}, at)
						if err != nil {
							vlib.Die("KeyGen golden: %v", err)
						}
						pr := pairRow{At: map[string]string{"a": a, "b": b}}
						pr.Could = yn(at.CouldDecrypt(g))
						pr.Extracted = "extract-error"
						if extOK {
							pr.Extracted = yn(pe.Satisfaction(at))
							pr.Sat = pe.Satisfaction(at)
							pr.SatRT = pr.Sat
						}
						pt, err := k.Decrypt(g)
						if err != nil {
							pr.Dec = "err"
						} else if msg == nil || bytes.Equal(msg, pt) {
							msg = pt
							pr.Dec = "msg"
						} else {
							pr.Dec = "other"
						}
						ln.Rows = append(ln.Rows, pr)
					}
				}
				o.Emit(ln)
			}
		}
	}
	fmt.Printf("lines=%d\n", o.N)
}
