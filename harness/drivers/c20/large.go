package main

import (
	"bytes"
	"fmt"
	"math/rand"
	"strings"

	"github.com/cloudflare/circl/abe/cpabe/tkn20"
	"github.com/cloudflare/circl/zzverif/vlib"
)

// largeLine: one policy with many leaves, encrypted under and decrypted with a key that satisfies it.  A policy Encrypt accepts must behave
// like any other (lengths inside the ciphertext are 16-bit fields); for spec/C20/Trace_Large.tla.
type largeLine struct {
	Ev           string `json:"ev"`
	Leaves       int    `json:"leaves"`
	Op           string `json:"op"`
	PolicyOK     bool   `json:"policy_ok"`
	EncryptErr   bool   `json:"encrypt_err"`
	Satisfies    bool   `json:"satisfies"`
	CouldDecrypt bool   `json:"could_decrypt"`
	DecryptOK    bool   `json:"decrypt_ok"`
	CtLen        int    `json:"ct_len"`
	Panics       int    `json:"panics"`
	Note         string `json:"note"`
}

func largePolicies(path string, rng *rand.Rand, sizes []int) {
	o := vlib.Create(path)
	defer o.Close()
	pk, msk, err := tkn20.Setup(vlib.SeededReader{R: rng})
	if err != nil {
		vlib.Die("Setup: %v", err)
	}
	for _, n := range sizes {
		l := largeLine{Ev: "large", Leaves: n, Op: "or"}
		oc := vlib.Safe(600e9, func() {
			var leaves []string
			for i := 0; i < n; i++ {
				leaves = append(leaves, fmt.Sprintf("attribute_label_number_%d:value_number_%d", i, i))
			}
			var p tkn20.Policy
			if err := p.FromString(strings.Join(leaves, " or ")); err != nil {
				l.Note = "policy: " + err.Error()
				return
			}
			l.PolicyOK = true
			var at tkn20.Attributes
			at.FromMap(map[string]string{fmt.Sprintf("attribute_label_number_%d", n-1): fmt.Sprintf("value_number_%d", n-1)})
			l.Satisfies = p.Satisfaction(at)
			msg := []byte("message under a large policy")
			ct, err := pk.Encrypt(vlib.SeededReader{R: rng}, p, msg)
			if err != nil {
				l.EncryptErr, l.Note = true, err.Error()
				return
			}
			l.CtLen = len(ct)
			l.CouldDecrypt = at.CouldDecrypt(ct)
			k, err := msk.KeyGen(vlib.SeededReader{R: rng}, at)
			if err != nil {
				l.Note = "keygen: " + err.Error()
				return
			}
			pt, err := k.Decrypt(ct)
			l.DecryptOK = err == nil && bytes.Equal(pt, msg)
			if err != nil {
				l.Note = "decrypt: " + err.Error()
			}
		})
		if oc.Bad() {
			l.Panics, l.Note = 1, oc.Panic
		}
		o.Emit(l)
	}
}
