package main

import (
	"bytes"
	"fmt"
	"math/rand"
	"strings"

	"github.com/cloudflare/circl/abe/cpabe/tkn20"
	"github.com/cloudflare/circl/zzverif/vlib"
)

// largeLine: one policy with many leaves, encrypted under and decrypted with a key that satisfies it.  A policy Encrypt accepts must behave
// like any other (lengths inside the ciphertext are 16-bit fields); for spec/C20/Trace_Large.tla.
type largeLine struct {
	Ev           string `json:"ev"`
	Leaves       int    `json:"leaves"`
	Op           string `json:"op"`
	PolicyOK     bool   `json:"policy_ok"`
	EncryptErr   bool   `json:"encrypt_err"`
	Satisfies    bool   `json:"satisfies"`
	CouldDecrypt bool   `json:"could_decrypt"`
	DecryptOK    bool   `json:"decrypt_ok"`
	CtLen        int    `json:"ct_len"`
	Panics       int    `json:"panics"`
	Note         string `json:"note"`
}

func largePolicies(path string, rng *rand.Rand, sizes []int) {
	o := vlib.Create(path)
	defer o.Close()
	pk, msk, err := tkn20.Setup(vlib.SeededReader{R: rng})
	if err != nil {
		vlib.Die("Setup: %v", err)
	}
	for _, n := range sizes {
		l := largeLine{Ev: "large", Leaves: n, Op: "or"}
		oc := vlib.Safe(600e9, func() {
			var leaves []string
			for i := 0; i < n; i++ {
				leaves = append(leaves, fmt.Sprintf("attribute_label_number_%d:value_number_%d", i, i))
			}
			var p tkn20.Policy
			if err := p.FromString(strings.Join(leaves, " or ")); err != nil {
				l.Note = "policy: " + err.Error()
				return
			}
			l.PolicyOK = true
			var at tkn20.Attributes
			at.FromMap(map[string]string{fmt.Sprintf("attribute_label_number_%d", n-1): fmt.Sprintf("value_number_%d", n-1)})
			l.Satisfies = p.Satisfaction(at)
			msg := []byte("message under a large policy")
			ct, err := pk.Encrypt(vlib.SeededReader{R: rng}, p, msg)
			if err != nil {
				l.EncryptErr, l.Note = true, err.Error()
				return
			}
			l.CtLen = len(ct)
			l.CouldDecrypt = at.CouldDecrypt(ct)
			k, err := msk.KeyGen(vlib.SeededReader{R: rng}, at)
			if err != nil {
				l.Note = "keygen: " + err.Error()
				return
			}
			pt, err := k.Decrypt(ct)
			l.DecryptOK = err == nil && bytes.Equal(pt, msg)
			if err != nil {
				l.Note = "decrypt: " + err.Error()
			}
		})
		if oc.Bad() {
			l.Panics, l.Note = 1, oc.Panic
		}
		o.Emit(l)
	}
	printedPolicies(o, rng, 60)
	rejectedPolicies(o, rng, 44)
	longValues(o, rng)
	bigKeys(o, rng)
}

// printLine: a policy with 6 to 9 leaves is parsed, used once (Satisfaction re-sorts its gates in place, and Encrypt serialises them in
// that order), printed, and the printed text parsed again: both policies must give the same answer for every sampled attribute set.
type printLine struct {
	Ev        string `json:"ev"`
	Policy    string `json:"policy"`
	Printed   string `json:"printed"`
	ReparseOK bool   `json:"reparse_ok"`
	Agree     bool   `json:"agree"`
	EqualKept bool   `json:"equal_kept"`
	RtEqual   bool   `json:"rt_equal"`
	Accepted  bool   `json:"accepted"`
	Samples   int    `json:"samples"`
	Panics    int    `json:"panics"`
	Note      string `json:"note"`
}

func randomPolicy(rng *rand.Rand, leaves int, next *int) string {
	if leaves == 1 {
		*next++
		l := fmt.Sprintf("l%d:v%d", *next, rng.Intn(2))
		if rng.Intn(4) == 0 {
			return "not " + l
		}
		return l
	}
	k := 1 + rng.Intn(leaves-1)
	op := []string{" and ", " or "}[rng.Intn(2)]
	return "(" + randomPolicy(rng, k, next) + op + randomPolicy(rng, leaves-k, next) + ")"
}

// rejectedPolicies: a policy of the language followed by further tokens is not a policy of the language, and the parser refuses it
// (accepting the first complete expression would silently drop every restriction written after a stray parenthesis or a misspelt
// operator).
func rejectedPolicies(o *vlib.Out, rng *rand.Rand, n int) {
	tails := []string{" )", " ) and z:1", ")) and z:1", " adn (z:1)", " z:1", " not z:1", " :", " ( z:1", " and", " or )", " z"}
	for i := 0; i < n; i++ {
		cnt := 0
		l := printLine{Ev: "reject", Policy: randomPolicy(rng, 1+rng.Intn(4), &cnt) + tails[i%len(tails)]}
		oc := vlib.Safe(120e9, func() {
			var p tkn20.Policy
			err := p.FromString(l.Policy)
			l.Accepted = err == nil
			if err == nil {
				l.Printed = p.String()
			}
		})
		if oc.Bad() {
			l.Panics, l.Note = 1, oc.Panic
		}
		o.Emit(l)
	}
}

// longValues: attribute values of 60 to 200 characters that differ only in their LAST character (the value enters the scheme through a
// hash to a scalar): a positive leaf holds for the equal value only, a negated leaf for the different one only.
type longLine struct {
	Ev         string `json:"ev"`
	Len        int    `json:"len"`
	SatSame    bool   `json:"sat_same"`
	SatOther   bool   `json:"sat_other"`
	NegSame    bool   `json:"neg_same"`
	NegOther   bool   `json:"neg_other"`
	Panics     int    `json:"panics"`
	Note       string `json:"note"`
	Accepted   bool   `json:"accepted"`
	ReparseOK  bool   `json:"reparse_ok"`
	Agree      bool   `json:"agree"`
	EqualKept  bool   `json:"equal_kept"`
	RtEqual    bool   `json:"rt_equal"`
	PolicyOK   bool   `json:"policy_ok"`
	Satisfies  bool   `json:"satisfies"`
	EncryptErr bool   `json:"encrypt_err"`
}

func longValues(o *vlib.Out, rng *rand.Rand) {
	for _, n := range []int{60, 63, 64, 65, 66, 100, 128, 129, 200} {
		l := longLine{Ev: "longval", Len: n}
		base := make([]byte, n-1)
		for i := range base {
			base[i] = "abcdefghijklmnopqrstuvwxyz0123456789"[rng.Intn(36)]
		}
		v1, v2 := string(base)+"x", string(base)+"y"
		oc := vlib.Safe(120e9, func() {
			var pos, neg tkn20.Policy
			if err := pos.FromString("k:" + v1); err != nil {
				l.Note = err.Error()
				return
			}
			if err := neg.FromString("not k:" + v1); err != nil {
				l.Note = err.Error()
				return
			}
			var same, other tkn20.Attributes
			same.FromMap(map[string]string{"k": v1})
			other.FromMap(map[string]string{"k": v2})
			l.SatSame, l.SatOther = pos.Satisfaction(same), pos.Satisfaction(other)
			l.NegSame, l.NegOther = neg.Satisfaction(same), neg.Satisfaction(other)
		})
		if oc.Bad() {
			l.Panics, l.Note = 1, oc.Panic
		}
		o.Emit(l)
	}
}

// bigKeys: attribute keys whose encoding does not fit the 16-bit length fields of the key format (one very long label; very many
// attributes): MarshalBinary either refuses, or what it returns decodes to an equal key.
func bigKeys(o *vlib.Out, rng *rand.Rand) {
	rd := vlib.SeededReader{R: rng}
	_, msk, err := tkn20.Setup(rd)
	if err != nil {
		vlib.Die("tkn20.Setup: %v", err)
	}
	for _, c := range []struct {
		name  string
		attrs map[string]string
	}{{"label-65541-bytes", map[string]string{strings.Repeat("l", 65541): "v"}}, {"label-65535-bytes", map[string]string{strings.Repeat("l", 65535): "v"}},
		{"label-300-bytes", map[string]string{strings.Repeat("l", 300): "v"}},
		{"1900-attributes", func() map[string]string {
			m := map[string]string{}
			for i := 0; i < 1900; i++ {
				m[fmt.Sprintf("attr%04d", i)] = "v"
			}
			return m
		}()}} {
		l := longLine{Ev: "bigkey", Len: len(c.attrs)}
		l.Note = c.name
		oc := vlib.Safe(600e9, func() {
			var at tkn20.Attributes
			at.FromMap(c.attrs)
			k, err := msk.KeyGen(rd, at)
			if err != nil {
				l.EncryptErr = true // the key cannot be made at all: fine
				return
			}
			b, err := k.MarshalBinary()
			if err != nil {
				l.EncryptErr = true
				return
			}
			var k2 tkn20.AttributeKey
			if err := k2.UnmarshalBinary(b); err != nil {
				l.Note += ": the marshalled key does not decode: " + err.Error()
				return
			}
			l.RtEqual = k2.Equal(&k)
		})
		if oc.Bad() {
			l.Panics, l.Note = 1, c.name+": "+oc.Panic
		}
		o.Emit(l)
	}
}

func printedPolicies(o *vlib.Out, rng *rand.Rand, n int) {
	for i := 0; i < n; i++ {
		leaves := 6 + rng.Intn(4)
		cnt := 0
		l := printLine{Ev: "print", Policy: randomPolicy(rng, leaves, &cnt)}
		oc := vlib.Safe(120e9, func() {
			var p, p2 tkn20.Policy
			if err := p.FromString(l.Policy); err != nil {
				l.Note = "parse: " + err.Error()
				return
			}
			sample := func() tkn20.Attributes {
				m := map[string]string{}
				for j := 1; j <= leaves; j++ {
					switch rng.Intn(3) {
					case 0:
						m[fmt.Sprintf("l%d", j)] = "v0"
					case 1:
						m[fmt.Sprintf("l%d", j)] = "v1"
					}
				}
				var at tkn20.Attributes
				at.FromMap(m)
				return at
			}
			_ = p.Satisfaction(sample()) // the policy has been used
			l.Printed = p.String()
			if err := p2.FromString(l.Printed); err != nil {
				l.Note = "reparse: " + err.Error()
				return
			}
			l.ReparseOK, l.Agree = true, true
			// a query does not change the policy: it still equals an unused policy parsed from the same text, and the policy
			// parsed from its printed form equals it
			var q tkn20.Policy
			if err := q.FromString(l.Policy); err == nil {
				l.EqualKept = p.Equal(&q)
			}
			l.RtEqual = p2.Equal(&p)
			for k := 0; k < 60; k++ {
				at := sample()
				l.Samples++
				if p.Satisfaction(at) != p2.Satisfaction(at) {
					l.Agree = false
					l.Note = "the printed policy answers differently"
				}
			}
		})
		if oc.Bad() {
			l.Panics, l.Note = 1, oc.Panic
		}
		o.Emit(l)
	}
}
