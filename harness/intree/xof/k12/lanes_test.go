package k12

// In-package recorder for C15: runs XofMachine schedules on KangarooTwelve states with a FORCED number
// of parallel lanes (1, 2, 4) through the unexported constructor.

import (
	"encoding/json"
	"fmt"
	"os"
	"testing"

	"github.com/cloudflare/circl/zzverif/xofrun"
)

type laneObj struct{ s *State }

func (o laneObj) Write(p []byte) (int, error) { return o.s.Write(p) }
func (o laneObj) Read(p []byte) (int, error)  { return o.s.Read(p) }
func (o laneObj) Clone() xofrun.Obj           { c := o.s.Clone(); return laneObj{&c} }
func (o laneObj) Reset()                      { o.s.Reset() }

func TestVerifLanes(t *testing.T) {
	in, out := os.Getenv("VERIF_SCHED"), os.Getenv("VERIF_OUT")
	if in == "" || out == "" {
		t.Skip("VERIF_SCHED / VERIF_OUT not set")
	}
	raw, err := os.ReadFile(in)
	if err != nil {
		t.Fatal(err)
	}
	var sch [][]json.RawMessage
	if err := json.Unmarshal(raw, &sch); err != nil {
		t.Fatal(err)
	}
	f, err := os.Create(out)
	if err != nil {
		t.Fatal(err)
	}
	defer f.Close()
	enc := json.NewEncoder(f)
	tr := 100000
	for _, lanes := range []byte{1, 2, 4} {
		lanes := lanes
		ctx := []byte{}
		if lanes == 2 {
			ctx = []byte("lane-ctx")
		}
		k := xofrun.Kind{Name: fmt.Sprintf("k12.newDraft10(lanes=%d)", lanes),
			New: func() xofrun.Obj { s := newDraft10(ctx, lanes); return laneObj{&s} },
			Ref: func(m []byte, n int) []byte { return xofrun.K12(m, ctx, n) }}
		for _, s := range sch {
			tr++
			for _, ln := range xofrun.Run(k, tr, s) {
				enc.Encode(ln)
			}
		}
	}
}
