package rsa

// In-package recorder for C17: logs the outputs of computeLambda and computePolynomial on small
// operands so that TLC can recompute them with the executable Shoup.tla definitions.

import (
	"encoding/json"
	"math/big"
	"math/rand"
	"os"
	"testing"
)

func TestVerifLambdaPoly(t *testing.T) {
	path := os.Getenv("VERIF_OUT")
	if path == "" {
		t.Skip("VERIF_OUT not set")
	}
	f, err := os.Create(path)
	if err != nil {
		t.Fatal(err)
	}
	defer f.Close()
	enc := json.NewEncoder(f)
	rng := rand.New(rand.NewSource(7))
	// every ordered subset would be too many: all subsets (sorted) of 1..l for l <= 6, plus shuffled ones
	for l := int64(2); l <= 7; l++ {
		delta := calculateDelta(l)
		for mask := 1; mask < 1<<uint(l); mask++ {
			var S []SignShare
			var idx []int
			for i := int64(1); i <= l; i++ {
				if mask&(1<<uint(i-1)) != 0 {
					S = append(S, SignShare{Index: uint(i), Players: uint(l)})
					idx = append(idx, int(i))
				}
			}
			if mask%3 == 0 {
				rng.Shuffle(len(S), func(a, b int) { S[a], S[b] = S[b], S[a]; idx[a], idx[b] = idx[b], idx[a] })
			}
			for _, s := range S {
				lam, err := computeLambda(delta, S, 0, int64(s.Index))
				if err != nil {
					t.Fatalf("computeLambda error: %v", err)
				}
				if !lam.IsInt64() || lam.BitLen() > 30 {
					continue
				}
				enc.Encode(map[string]interface{}{"ev": "lambda", "l": l, "S": idx, "j": s.Index, "lam": lam.Int64()})
			}
		}
	}
	for n := 0; n < 400; n++ {
		k := uint(1 + rng.Intn(21))
		m := big.NewInt(int64([]int{15, 1000003, 65537 * 3, 999983}[rng.Intn(4)]))
		a := make([]*big.Int, k)
		ai := make([]int64, k)
		for i := range a {
			ai[i] = rng.Int63n(m.Int64())
			a[i] = big.NewInt(ai[i])
		}
		x := uint(1 + rng.Intn(30))
		v := computePolynomial(k, a, x, m)
		if !v.IsInt64() {
			continue
		}
		enc.Encode(map[string]interface{}{"ev": "rpoly", "a": ai, "x": x, "m": m.Int64(), "val": v.Int64()})
	}
}
