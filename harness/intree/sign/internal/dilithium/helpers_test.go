package dilithium

import (
	"encoding/json"
	"os"
	"strconv"
	"testing"
)

type zzBlock struct {
	Ev    string `json:"ev"`
	Fn    string `json:"fn"`
	Alpha int    `json:"alpha"`
	Hint  int    `json:"hint"`
	X0    int    `json:"x0"`
	Step  int    `json:"step"`
	Ys    []int  `json:"ys"`
	Zs    []int  `json:"zs"`
	Hi    []int  `json:"hi"` // for 32-bit inputs: x = hi * 65536 + lo
	Lo    []int  `json:"lo"`
	As    []int  `json:"as"` // for products: x = a * b
	Bs    []int  `json:"bs"`
	Impl  string `json:"impl"`
}

func zzEnv(name string, def int) int {
	if v, err := strconv.Atoi(os.Getenv(name)); err == nil {
		return v
	}
	return def
}

// TestZZVerifHelpers dumps power2round and the modular reductions; VERIF_LO / VERIF_HI / VERIF_STEP select the part of [0, q).
func TestZZVerifHelpers(t *testing.T) {
	out := os.Getenv("VERIF_OUT")
	if out == "" {
		t.Skip()
	}
	f, err := os.Create(out)
	if err != nil {
		t.Fatal(err)
	}
	defer f.Close()
	enc := json.NewEncoder(f)
	lo, hi, step := zzEnv("VERIF_LO", 0), zzEnv("VERIF_HI", Q), zzEnv("VERIF_STEP", 1)
	const blk = 4096
	emit := func(b zzBlock) {
		b.Ev, b.Impl = "helper", os.Getenv("VERIF_IMPL")
		for _, p := range []*[]int{&b.Ys, &b.Zs, &b.Hi, &b.Lo, &b.As, &b.Bs} {
			if *p == nil {
				*p = []int{}
			}
		}
		if err := enc.Encode(b); err != nil {
			t.Fatal(err)
		}
	}
	for x0 := lo; x0 < hi; x0 += blk * step {
		b := zzBlock{Fn: "power2round", X0: x0, Step: step}
		c := zzBlock{Fn: "le2qModQ", X0: x0, Step: step}
		d := zzBlock{Fn: "le2qModQ", X0: x0 + Q, Step: step}
		for i := 0; i < blk && x0+i*step < hi; i++ {
			a0, a1 := power2round(uint32(x0 + i*step))
			b.Ys, b.Zs = append(b.Ys, int(a1)), append(b.Zs, int(a0))
			c.Ys = append(c.Ys, int(le2qModQ(uint32(x0+i*step))))
			d.Ys = append(d.Ys, int(le2qModQ(uint32(x0+Q+i*step))))
		}
		emit(b)
		emit(c)
		emit(d)
	}
	if lo != 0 {
		return
	}
	// 32-bit inputs of ReduceLe2Q / modQ: corner values and a stride
	var xs []uint32
	for _, base := range []uint64{0, Q, 2 * Q, 1 << 23, 1 << 31, 1<<32 - 1, 511 * Q, 512 * Q} {
		for d := -3; d <= 3; d++ {
			v := int64(base) + int64(d)
			if v >= 0 && v < 1<<32 {
				xs = append(xs, uint32(v))
			}
		}
	}
	for x := uint64(0); x < 1<<32; x += 1048573 {
		xs = append(xs, uint32(x))
	}
	b, c := zzBlock{Fn: "ReduceLe2Q"}, zzBlock{Fn: "modQ"}
	for _, x := range xs {
		b.Hi, b.Lo, b.Ys = append(b.Hi, int(x>>16)), append(b.Lo, int(x&0xffff)), append(b.Ys, int(ReduceLe2Q(x)))
		c.Hi, c.Lo, c.Ys = append(c.Hi, int(x>>16)), append(c.Lo, int(x&0xffff)), append(c.Ys, int(modQ(x)))
	}
	emit(b)
	emit(c)
	// Montgomery reduction on products a * b, a, b < 2q
	m := zzBlock{Fn: "montReduceLe2Q"}
	vals := []uint32{0, 1, 2, Q - 1, Q, Q + 1, 2*Q - 1, 4193792, 8380416 / 2, 1 << 22, 1<<23 - 1}
	for i := uint32(0); i < 200; i++ {
		vals = append(vals, (i*2654435761)%(2*Q))
	}
	for _, a := range vals {
		for _, bb := range vals[:40] {
			m.As, m.Bs, m.Ys = append(m.As, int(a)), append(m.Bs, int(bb)), append(m.Ys, int(montReduceLe2Q(uint64(a)*uint64(bb))))
		}
	}
	emit(m)
}
