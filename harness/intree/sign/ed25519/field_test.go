package ed25519

// In-package recorder for C12: the hand-written reduction modulo the group order (512-bit hashes and clamped
// 256-bit scalars) and S = r + k*a mod L.

import (
	"math/big"
	"os"
	"strconv"
	"testing"

	"github.com/cloudflare/circl/zzverif/fieldrun"
	"github.com/cloudflare/circl/zzverif/vlib"
)

func TestVerifField(t *testing.T) {
	out := os.Getenv("VERIF_OUT")
	if out == "" {
		t.Skip()
	}
	seed, _ := strconv.ParseInt(os.Getenv("VERIF_SEED"), 10, 64)
	n, _ := strconv.Atoi(os.Getenv("VERIF_N"))
	impl := os.Getenv("VERIF_IMPL")
	L := vlib.FromLE(order[:paramB])
	rng := vlib.Rng(seed, "ed25519scalar")
	o := vlib.Create(out)
	defer o.Close()
	var regs [4]*big.Int
	for i := range regs {
		regs[i] = new(big.Int)
	}
	mk := func(implName string, max *big.Int) *fieldrun.Field {
		return &fieldrun.Field{Name: "ed25519scalar", Impl: implName + " " + impl, P: L, Max: max, NRegs: 4,
			Set: func(i int, v *big.Int) { regs[i].Set(v) }, Get: func(i int) *big.Int { return regs[i] }}
	}
	p2 := func(k uint) *big.Int { return new(big.Int).Lsh(big.NewInt(1), k) }
	// (a) 512-bit inputs (hash outputs): every 64-byte string
	f512 := mk("sign/ed25519 reduceModOrder(512)", new(big.Int).Sub(p2(512), big.NewInt(1)))
	f512.Canon = func(z, x int) {
		b := vlib.ToLE(regs[x], 64)
		reduceModOrder(b, true)
		regs[z] = vlib.FromLE(b[:32])
		if vlib.FromLE(b[32:]).Sign() != 0 { // the upper half must be cleared / ignorable: fold it in so that TLC sees it
			regs[z] = vlib.FromLE(b)
		}
	}
	fieldrun.Run(f512, rng, n, func(e fieldrun.Event) { o.Emit(e) })
	// word-structured 512-bit operands: limbs at 0 / 2^64-1 / order words
	ow := []uint64{0, 1, 0xffffffffffffffff, 0x5812631a5cf5d3ed, 0x14def9dea2f79cd6, 0x1000000000000000, 0x7fffffffffffffff, 0x8000000000000000}
	for i := 0; i < n; i++ {
		v := new(big.Int)
		for w := 0; w < 8; w++ {
			v.Or(v, new(big.Int).Lsh(new(big.Int).SetUint64(ow[rng.Intn(len(ow))]), uint(64*w)))
		}
		regs[1].Set(v)
		regs[0].SetInt64(0)
		regs[2].SetInt64(7)
		regs[3].SetInt64(9)
		e := fieldrun.NewEvent(f512, "canon", 1, 1, 0, 0, 0)
		e.Pre = fieldrun.Snapshot(f512)
		f512.Canon(0, 1)
		e.Post = fieldrun.Snapshot(f512)
		fieldrun.Hint(f512, &e, 0, v, regs[0])
		o.Emit(e)
	}
	// (b) 256-bit inputs as newKeyFromSeed produces them: clamped scalars (bit 254 set, bit 255 and the low 3 bits clear)
	fc := mk("sign/ed25519 reduceModOrder(clamped 256)", new(big.Int).Sub(p2(255), big.NewInt(8)))
	clampv := func(v *big.Int) *big.Int {
		b := vlib.ToLE(new(big.Int).Mod(v, p2(256)), 32)
		clamp(b)
		return vlib.FromLE(b)
	}
	cands := []*big.Int{big.NewInt(0), new(big.Int).Sub(p2(256), big.NewInt(1))}
	for m := int64(1); m <= 16; m++ { // neighbours of multiples of L inside the clamped range
		for d := int64(-16); d <= 16; d += 8 {
			cands = append(cands, new(big.Int).Add(new(big.Int).Mul(L, big.NewInt(m)), big.NewInt(d)))
		}
	}
	for i := 0; i < n; i++ {
		cands = append(cands, new(big.Int).Rand(rng, p2(256)))
	}
	for _, c := range cands {
		v := clampv(c)
		regs[1].Set(v)
		regs[0].SetInt64(0)
		e := fieldrun.NewEvent(fc, "canon", 1, 1, 0, 0, 0)
		e.Pre = fieldrun.Snapshot(fc)
		b := vlib.ToLE(v, 32)
		reduceModOrder(b, false)
		regs[0] = vlib.FromLE(b)
		e.Post = fieldrun.Snapshot(fc)
		fieldrun.Hint(fc, &e, 0, v, regs[0])
		o.Emit(e)
	}
	// (c) S = r + k*a mod L with reduced r, k and a reduced secret scalar a
	fs := mk("sign/ed25519 calculateS", new(big.Int).Sub(L, big.NewInt(1)))
	st := fieldrun.Structured(L, fs.Max)
	pick := func() *big.Int {
		if rng.Intn(2) == 0 {
			return st[rng.Intn(len(st))]
		}
		return new(big.Int).Rand(rng, L)
	}
	for i := 0; i < 2*n; i++ {
		r, k, a := pick(), pick(), pick()
		regs[0].SetInt64(0)
		regs[1].Set(k)
		regs[2].Set(a)
		regs[3].Set(r)
		e := fieldrun.NewEvent(fs, "fma", 1, 2, 0, 3, 0)
		e.Pre = fieldrun.Snapshot(fs)
		s := make([]byte, 32)
		calculateS(s, vlib.ToLE(r, 32), vlib.ToLE(k, 32), vlib.ToLE(a, 32))
		regs[0] = vlib.FromLE(s)
		e.Post = fieldrun.Snapshot(fs)
		fieldrun.Hint(fs, &e, 0, new(big.Int).Add(new(big.Int).Mul(k, a), r), regs[0])
		o.Emit(e)
		// S must be the canonical representative (verification checks S < L)
		e2 := fieldrun.NewEvent(fs, "canon", 0, 0, 0, 0, 0)
		e2.Pre, e2.Post = e.Post, e.Post
		fieldrun.Hint(fs, &e2, 0, regs[0], regs[0])
		o.Emit(e2)
	}
}
