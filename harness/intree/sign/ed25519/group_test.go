package ed25519

// In-package recorder for C13: the internal edwards25519 group of sign/ed25519 (extended coordinates, precomputed tables, signed-digit
// fixed-base multiplication, double-scalar multiplication with omega-NAF) driven through spec/C13/GroupMachine.tla.

import (
	"math/big"
	"os"
	"strconv"
	"testing"

	"github.com/cloudflare/circl/zzverif/grouprun"
	"github.com/cloudflare/circl/zzverif/vlib"
)

func TestVerifGroup(t *testing.T) {
	out := os.Getenv("VERIF_OUT")
	if out == "" {
		t.Skip()
	}
	seed, _ := strconv.ParseInt(os.Getenv("VERIF_SEED"), 10, 64)
	ntr, _ := strconv.Atoi(os.Getenv("VERIF_TRACES"))
	steps, _ := strconv.Atoi(os.Getenv("VERIF_STEPS"))
	tr0, _ := strconv.Atoi(os.Getenv("VERIF_TR0"))
	impl := os.Getenv("VERIF_IMPL")
	L := vlib.FromLE(order[:paramB])
	const n = 6
	var r [n]pointR1
	for i := range r {
		r[i].SetIdentity()
	}
	le32 := func(k *big.Int) []byte { return vlib.ToLE(k, paramB) }
	zero := make([]byte, paramB)
	g := &grouprun.Group{Name: "ed25519scalar", Impl: "sign/ed25519 internal " + impl, L: L,
		// fixedMult and doubleMult are called by the package with scalars reduced modulo the order
		ScalarMax: new(big.Int).Sub(L, big.NewInt(1)), Cof: 1, NRegs: n,
		Base:     func(d int, k *big.Int) { r[d].fixedMult(le32(k)) },
		Mul:      func(d, s int, k *big.Int) { src := r[s]; r[d].doubleMult(&src, zero, le32(k)) },
		Combined: func(d, s int, m, nn *big.Int) { src := r[s]; r[d].doubleMult(&src, le32(m), le32(nn)) },
		Add: func(d, a, b int) {
			var q pointR2
			q.fromR1(&r[b])
			p := r[a]
			p.add(&q)
			r[d] = p
		},
		Dbl: func(d, a int) { p := r[a]; p.double(); r[d] = p },
		Neg: func(d, a int) { p := r[a]; p.neg(); r[d] = p },
		Recode: func(d, s int) bool {
			var b [paramB]byte
			p := r[s]
			if p.ToBytes(b[:]) != nil {
				return false
			}
			var q pointR1
			if !q.FromBytes(b[:]) {
				return false
			}
			r[d] = q
			return true
		},
		Eq: func(a, b int) bool { p, q := r[a], r[b]; return p.isEqual(&q) },
		IsID: func(a int) bool {
			var id pointR1
			id.SetIdentity()
			p := r[a]
			return p.isEqual(&id)
		},
	}
	o := vlib.Create(out)
	defer o.Close()
	grouprun.Run(g, vlib.Rng(seed, "ed25519-group"), ntr, steps, tr0, func(e grouprun.Event) { o.Emit(e) })
}
