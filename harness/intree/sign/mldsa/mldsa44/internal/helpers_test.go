package internal

import (
	"encoding/json"
	"os"
	"strconv"
	"testing"

	common "github.com/cloudflare/circl/sign/internal/dilithium"
)

type zzBlock struct {
	Ev    string `json:"ev"`
	Fn    string `json:"fn"`
	Alpha int    `json:"alpha"`
	Hint  int    `json:"hint"`
	X0    int    `json:"x0"`
	Step  int    `json:"step"`
	Ys    []int  `json:"ys"`
	Zs    []int  `json:"zs"`
	Hi    []int  `json:"hi"`
	Lo    []int  `json:"lo"`
	As    []int  `json:"as"`
	Bs    []int  `json:"bs"`
	Impl  string `json:"impl"`
}

func zzEnv(name string, def int) int {
	if v, err := strconv.Atoi(os.Getenv(name)); err == nil {
		return v
	}
	return def
}

// TestZZVerifHelpers dumps decompose and useHint over (a part of) [0, q) x {0, 1} and makeHint on (r, f) pairs.
func TestZZVerifHelpers(t *testing.T) {
	out := os.Getenv("VERIF_OUT")
	if out == "" {
		t.Skip()
	}
	f, err := os.Create(out)
	if err != nil {
		t.Fatal(err)
	}
	defer f.Close()
	enc := json.NewEncoder(f)
	lo, hi, step := zzEnv("VERIF_LO", 0), zzEnv("VERIF_HI", common.Q), zzEnv("VERIF_STEP", 1)
	const blk = 4096
	emit := func(b zzBlock) {
		b.Ev, b.Impl, b.Alpha = "helper", os.Getenv("VERIF_IMPL"), int(Alpha)
		for _, p := range []*[]int{&b.Ys, &b.Zs, &b.Hi, &b.Lo, &b.As, &b.Bs} {
			if *p == nil {
				*p = []int{}
			}
		}
		if err := enc.Encode(b); err != nil {
			t.Fatal(err)
		}
	}
	for x0 := lo; x0 < hi; x0 += blk * step {
		d := zzBlock{Fn: "decompose", X0: x0, Step: step}
		u0, u1 := zzBlock{Fn: "useHint", Hint: 0, X0: x0, Step: step}, zzBlock{Fn: "useHint", Hint: 1, X0: x0, Step: step}
		// through the polynomial entry points the signing and verification code uses (the scalar useHint is not called by it)
		for i0 := 0; i0 < blk && x0+i0*step < hi; i0 += common.N {
			var q, p0, p1, h0, h1, r0, r1 common.Poly
			n := 0
			for i := 0; i < common.N && x0+(i0+i)*step < hi; i++ {
				q[i] = uint32(x0 + (i0+i)*step)
				h1[i] = 1
				n++
			}
			PolyDecompose(&q, &p0, &p1)
			PolyUseHint(&r0, &q, &h0)
			PolyUseHint(&r1, &q, &h1)
			for i := 0; i < n; i++ {
				d.Ys, d.Zs = append(d.Ys, int(p1[i])), append(d.Zs, int(p0[i]))
				u0.Ys, u1.Ys = append(u0.Ys, int(r0[i])), append(u1.Ys, int(r1[i]))
			}
		}
		emit(d)
		emit(u0)
		emit(u1)
	}
	if lo != 0 {
		return
	}
	// makeHint(z0 = r0 - f, r1) against MakeHint(-f, r): r around every multiple of alpha and strided, f over the admitted range's corners
	m := zzBlock{Fn: "makeHint"}
	var rs []uint32
	for k := uint32(0); k*Alpha < common.Q; k++ {
		for d := -2; d <= 2; d++ {
			for _, base := range []int64{int64(k * Alpha), int64(k*Alpha) + int64(Alpha/2)} {
				v := base + int64(d)
				if v >= 0 && v < common.Q {
					rs = append(rs, uint32(v))
				}
			}
		}
	}
	for r := uint32(0); r < common.Q; r += 39989 {
		rs = append(rs, r)
	}
	fs := []int64{0, 1, -1, 2, -2, int64(Gamma2), -int64(Gamma2), int64(Gamma2) - 1, -int64(Gamma2) + 1, 77, -77, 1000, -1000, int64(Gamma2) / 2, -int64(Gamma2) / 2}
	type pair struct {
		r  uint32
		ff int64
	}
	var pairs []pair
	for _, r := range rs {
		for _, ff := range fs {
			pairs = append(pairs, pair{r, ff})
		}
	}
	for i0 := 0; i0 < len(pairs); i0 += common.N {
		var q, p0, p1, z0, hp common.Poly
		n := 0
		for i := 0; i < common.N && i0+i < len(pairs); i++ {
			q[i] = pairs[i0+i].r
			n++
		}
		PolyDecompose(&q, &p0, &p1)
		for i := 0; i < n; i++ {
			z0[i] = uint32((int64(p0[i]) - pairs[i0+i].ff + 2*common.Q) % common.Q)
		}
		PolyMakeHint(&hp, &z0, &p1)
		for i := 0; i < n; i++ {
			m.As, m.Bs, m.Ys = append(m.As, int(pairs[i0+i].r)), append(m.Bs, int(pairs[i0+i].ff)), append(m.Ys, int(hp[i]))
		}
	}
	emit(m)
}
