package mldsa65

import (
	"encoding/hex"
	"encoding/json"
	"os"
	"testing"
)

// TestZZVerifHedged signs through ML-DSA.Sign_internal with explicit rnd (the public API only offers rnd = 0 or fresh randomness).
func TestZZVerifHedged(t *testing.T) {
	in, out := os.Getenv("VERIF_IN"), os.Getenv("VERIF_OUT")
	if in == "" || out == "" {
		t.Skip()
	}
	var jobs []struct{ Seed, Mprime, Rnd string }
	b, err := os.ReadFile(in)
	if err != nil {
		t.Fatal(err)
	}
	if err := json.Unmarshal(b, &jobs); err != nil {
		t.Fatal(err)
	}
	var res []string
	for _, j := range jobs {
		var seed [SeedSize]byte
		var rnd [32]byte
		sd, _ := hex.DecodeString(j.Seed)
		mp, _ := hex.DecodeString(j.Mprime)
		rn, _ := hex.DecodeString(j.Rnd)
		copy(seed[:], sd)
		copy(rnd[:], rn)
		_, sk := NewKeyFromSeed(&seed)
		res = append(res, hex.EncodeToString(sk.unsafeSignInternal(mp, rnd)))
	}
	ob, _ := json.Marshal(res)
	if err := os.WriteFile(out, ob, 0o644); err != nil {
		t.Fatal(err)
	}
}
