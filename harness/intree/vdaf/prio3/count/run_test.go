package count

import (
	"os"
	"testing"

	"math/big"

	"github.com/cloudflare/circl/vdaf/prio3/internal/prio3"
	"github.com/cloudflare/circl/vdaf/prio3/zzverifrun"
	"github.com/cloudflare/circl/zzverif/vlib"
)

type rawCount struct{ *flpCount }

func (r rawCount) Encode(v Vec) (Vec, error) { return v, nil }

func TestZZVerifRun(t *testing.T) {
	out := os.Getenv("VERIF_OUT")
	if out == "" {
		t.Skip()
	}
	thorough := os.Getenv("VERIF_THOROUGH") != ""
	rng := vlib.Rng(vlib.EnvSeed(), "c19-count")
	o := vlib.Create(out + "/count.ndjson")
	defer o.Close()
	emit := func(e zzverifrun.Event) { o.Emit(e) }
	ctx := []byte("verif")
	tr := 1000
	shares := []int{0, 1, 2, 3, 5}
	if thorough {
		shares = append(shares, 16, 255)
	}
	for _, n := range shares {
		tr++
		var c *Count
		e, ok := zzverifrun.NewEvent(tr, "count", 0, 0, 0, n, func() (*prio3.Params, error) {
			var err error
			c, err = New(uint8(n), ctx)
			if err != nil {
				return nil, err
			}
			p := c.Params()
			return &p, nil
		})
		emit(e)
		if !ok {
			continue
		}
		raw, err := prio3.New[rawCount, Vec, uint64, Vec, Fp, *Fp](rawCount{newFlpCount()}, 1, uint8(n), ctx)
		if err != nil {
			t.Fatal(err)
		}
		f := newFlpCount()
		s := &zzverifrun.Session[bool, uint64, Vec, Fp, *Fp]{Tr: tr, Inst: "count", Pub: c, Raw: &raw, Encode: f.Encode, NAlter: 2,
			MeasJSON: func(m bool) interface{} {
				if m {
					return 1
				}
				return 0
			},
			AggVec: func(a *uint64) []*big.Int { return []*big.Int{new(big.Int).SetUint64(*a)} },
		}
		for i := 0; i < 10; i++ {
			s.Honest = append(s.Honest, rng.Intn(3) != 0)
		}
		zzverifrun.Run(s, rng, emit)
	}
}
