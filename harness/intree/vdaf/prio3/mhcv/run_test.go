package mhcv

import (
	"math/big"
	"math/bits"
	"os"
	"testing"

	"github.com/cloudflare/circl/vdaf/prio3/internal/prio3"
	"github.com/cloudflare/circl/vdaf/prio3/zzverifrun"
	"github.com/cloudflare/circl/zzverif/vlib"
)

type rawMhcv struct{ *flpMultiHotCountVec }

func (r rawMhcv) Encode(v Vec) (Vec, error) { return v, nil }

func TestZZVerifRun(t *testing.T) {
	out := os.Getenv("VERIF_OUT")
	if out == "" {
		t.Skip()
	}
	thorough := os.Getenv("VERIF_THOROUGH") != ""
	rng := vlib.Rng(vlib.EnvSeed(), "c19-mhcv")
	o := vlib.Create(out + "/mhcv.ndjson")
	defer o.Close()
	emit := func(e zzverifrun.Event) { o.Emit(e) }
	ctx := []byte("verif")
	tr := 5000
	type cfg struct{ n, length, maxw, chunk uint }
	cfgs := []cfg{{2, 4, 2, 0}, {1, 4, 2, 2}, {2, 4, 2, 2}, {2, 8, 3, 3}, {3, 5, 5, 3}, {2, 3, 1, 4}, {2, 6, 4, 4}, {5, 9, 2, 5}, {2, 1, 1, 1}, {2, 10, 7, 4}}
	for i := 0; i < 2; i++ {
		l := 1 + uint(rng.Intn(12))
		cfgs = append(cfgs, cfg{2, l, 1 + uint(rng.Intn(int(l))), 1 + uint(rng.Intn(7))})
	}
	if thorough {
		cfgs = append(cfgs, cfg{255, 4, 3, 3}, cfg{2, 60, 17, 8})
		for i := 0; i < 12; i++ {
			l := 1 + uint(rng.Intn(24))
			cfgs = append(cfgs, cfg{2 + uint(rng.Intn(4)), l, 1 + uint(rng.Intn(int(l))), 1 + uint(rng.Intn(12))})
		}
	}
	for _, c := range cfgs {
		tr++
		var s0 *MultiHotCountVec
		e, ok := zzverifrun.NewEvent(tr, "mhcv", int(c.length), int(c.maxw), int(c.chunk), int(c.n), func() (*prio3.Params, error) {
			var err error
			s0, err = New(uint8(c.n), c.length, c.maxw, c.chunk, ctx)
			if err != nil {
				return nil, err
			}
			p := s0.Params()
			return &p, nil
		})
		emit(e)
		if !ok {
			continue
		}
		f, err := newFlpMultiCountHotVec(c.length, c.maxw, c.chunk)
		if err != nil {
			t.Fatal(err)
		}
		raw, err := prio3.New[rawMhcv, Vec, []uint64, Vec, Fp, *Fp](rawMhcv{f}, 5, uint8(c.n), ctx)
		if err != nil {
			t.Fatal(err)
		}
		f2, _ := newFlpMultiCountHotVec(c.length, c.maxw, c.chunk)
		nb := bits.Len64(uint64(c.maxw))
		s := &zzverifrun.Session[[]bool, []uint64, Vec, Fp, *Fp]{Tr: tr, Inst: "mhcv", Length: int(c.length), Bits: nb,
			Offset: big.NewInt(int64(1)<<uint(nb) - 1 - int64(c.maxw)), Pub: s0, Raw: &raw, Encode: f2.Encode, NAlter: 1,
			MeasJSON: func(m []bool) interface{} {
				x := make([]int, len(m))
				for i := range m {
					if m[i] {
						x[i] = 1
					}
				}
				return x
			},
			AggVec: func(a *[]uint64) []*big.Int {
				x := make([]*big.Int, len(*a))
				for i := range *a {
					x[i] = new(big.Int).SetUint64((*a)[i])
				}
				return x
			},
		}
		withWeight := func(w int, n uint) []bool {
			m := make([]bool, n)
			for _, i := range rng.Perm(int(n))[:w] {
				m[i] = true
			}
			return m
		}
		s.Honest = [][]bool{withWeight(int(c.maxw), c.length), withWeight(0, c.length)}
		for k := 0; k < 5; k++ {
			s.Honest = append(s.Honest, withWeight(rng.Intn(int(c.maxw)+1), c.length))
		}
		if c.maxw < c.length { // not measurements: too heavy, wrong length
			s.Honest = append(s.Honest, withWeight(int(c.maxw)+1, c.length), withWeight(int(c.length), c.length))
		}
		s.Honest = append(s.Honest, withWeight(0, c.length+1), withWeight(0, c.length-1))
		zzverifrun.Run(s, rng, emit)
	}
}
