package sum

import (
	"math/big"
	"math/bits"
	"os"
	"testing"

	"github.com/cloudflare/circl/vdaf/prio3/internal/prio3"
	"github.com/cloudflare/circl/vdaf/prio3/zzverifrun"
	"github.com/cloudflare/circl/zzverif/vlib"
)

type rawSum struct{ *flpSum }

func (r rawSum) Encode(v Vec) (Vec, error) { return v, nil }

func TestZZVerifRun(t *testing.T) {
	out := os.Getenv("VERIF_OUT")
	if out == "" {
		t.Skip()
	}
	thorough := os.Getenv("VERIF_THOROUGH") != ""
	rng := vlib.Rng(vlib.EnvSeed(), "c19-sum")
	o := vlib.Create(out + "/sum.ndjson")
	defer o.Close()
	emit := func(e zzverifrun.Event) { o.Emit(e) }
	ctx := []byte("verif")
	tr := 2000
	const p = uint64(0xffffffff00000001)
	type cfg struct {
		n   int
		max uint64
	}
	cfgs := []cfg{{1, 5}, {0, 5}, {2, 0}, {2, 1}, {2, 2}, {3, 5}, {2, 255}, {5, 1000}, {2, 1 << 32}, {3, 1<<62 + 12345}, {2, 1<<63 - 1},
		{2, 1 << 63}, {2, p - 1}, {2, p}, {3, ^uint64(0)}, {2, uint64(rng.Int63())}, {2, uint64(rng.Int63()) >> uint(1+rng.Intn(60))}}
	if thorough {
		cfgs = append(cfgs, cfg{255, 77}, cfg{16, 1<<40 - 1})
		for i := 0; i < 12; i++ {
			cfgs = append(cfgs, cfg{2 + rng.Intn(4), rng.Uint64() >> uint(rng.Intn(64))})
		}
	}
	for _, c := range cfgs {
		tr++
		var s0 *Sum
		e, ok := zzverifrun.NewEvent(tr, "sum", vlib.Digits(new(big.Int).SetUint64(c.max)), 0, 0, c.n, func() (*prio3.Params, error) {
			var err error
			s0, err = New(uint8(c.n), c.max, ctx)
			if err != nil {
				return nil, err
			}
			p := s0.Params()
			return &p, nil
		})
		emit(e)
		if !ok {
			continue
		}
		f, err := newFlpSum(c.max)
		if err != nil {
			t.Fatal(err)
		}
		raw, err := prio3.New[rawSum, Vec, uint64, Vec, Fp, *Fp](rawSum{f}, 2, uint8(c.n), ctx)
		if err != nil {
			t.Fatal(err)
		}
		f2, _ := newFlpSum(c.max)
		nb := bits.Len64(c.max)
		off := new(big.Int).Sub(new(big.Int).Sub(new(big.Int).Lsh(big.NewInt(1), uint(nb)), big.NewInt(1)), new(big.Int).SetUint64(c.max))
		s := &zzverifrun.Session[uint64, uint64, Vec, Fp, *Fp]{Tr: tr, Inst: "sum", Bits: nb, Offset: off, Pub: s0, Raw: &raw, Encode: f2.Encode, NAlter: 1,
			MeasJSON: func(m uint64) interface{} { return vlib.Digits(new(big.Int).SetUint64(m)) },
			AggVec:   func(a *uint64) []*big.Int { return []*big.Int{new(big.Int).SetUint64(*a)} },
		}
		// the batch total stays below the field modulus
		s.Honest = []uint64{c.max, 0}
		budget := uint64(0)
		if c.max < p-1 {
			budget = p - 1 - c.max
		}
		for i := 0; i < 6; i++ {
			m := uint64(0)
			if c.max == ^uint64(0) {
				m = rng.Uint64()
			} else if c.max > 0 {
				m = rng.Uint64() % (c.max + 1)
			}
			if i == 0 && c.max >= 1 {
				m = 1
			}
			if m > budget/8 {
				m %= (budget/8 + 1)
			}
			s.Honest = append(s.Honest, m)
		}
		if c.max < ^uint64(0) { // not measurements
			s.Honest = append(s.Honest, c.max+1)
			if c.max < 1<<63 {
				s.Honest = append(s.Honest, c.max+1+uint64(rng.Int63n(1<<20)), ^uint64(0))
			}
		}
		zzverifrun.Run(s, rng, emit)
	}
}
