package sumvec

import (
	"math/big"
	"os"
	"testing"

	"github.com/cloudflare/circl/vdaf/prio3/internal/prio3"
	"github.com/cloudflare/circl/vdaf/prio3/zzverifrun"
	"github.com/cloudflare/circl/zzverif/vlib"
)

type rawSumVec struct{ *flpSumVec }

func (r rawSumVec) Encode(v Vec) (Vec, error) { return v, nil }

func TestZZVerifRun(t *testing.T) {
	out := os.Getenv("VERIF_OUT")
	if out == "" {
		t.Skip()
	}
	thorough := os.Getenv("VERIF_THOROUGH") != ""
	rng := vlib.Rng(vlib.EnvSeed(), "c19-sumvec")
	o := vlib.Create(out + "/sumvec.ndjson")
	defer o.Close()
	emit := func(e zzverifrun.Event) { o.Emit(e) }
	ctx := []byte("verif")
	tr := 3000
	type cfg struct{ n, length, bits, chunk uint }
	cfgs := []cfg{{2, 3, 2, 0}, {1, 3, 2, 2}, {2, 1, 1, 1}, {2, 3, 2, 2}, {3, 4, 3, 5}, {2, 5, 1, 3}, {2, 2, 64, 7}, {5, 10, 8, 9}, {2, 3, 2, 100},
		{2, 1 + uint(rng.Intn(6)), 1 + uint(rng.Intn(10)), 1 + uint(rng.Intn(8))},
		{8, 3, 2, 2},     // eight aggregators: 1/8 comes from the table of small inverses
		{2, 100, 16, 10}} // 160 gadget calls: the gadget polynomial has 512 coefficients
	if thorough {
		cfgs = append(cfgs, cfg{255, 3, 3, 2}, cfg{2, 40, 16, 25})
		for i := 0; i < 10; i++ {
			cfgs = append(cfgs, cfg{2 + uint(rng.Intn(4)), 1 + uint(rng.Intn(12)), 1 + uint(rng.Intn(20)), 1 + uint(rng.Intn(16))})
		}
	}
	for _, c := range cfgs {
		tr++
		var s0 *SumVec
		e, ok := zzverifrun.NewEvent(tr, "sumvec", int(c.length), int(c.bits), int(c.chunk), int(c.n), func() (*prio3.Params, error) {
			var err error
			s0, err = New(uint8(c.n), c.length, c.bits, c.chunk, ctx)
			if err != nil {
				return nil, err
			}
			p := s0.Params()
			return &p, nil
		})
		emit(e)
		if !ok {
			continue
		}
		f, err := newFlpSumVec(c.length, c.bits, c.chunk)
		if err != nil {
			t.Fatal(err)
		}
		raw, err := prio3.New[rawSumVec, Vec, []uint64, Vec, Fp, *Fp](rawSumVec{f}, 3, uint8(c.n), ctx)
		if err != nil {
			t.Fatal(err)
		}
		f2, _ := newFlpSumVec(c.length, c.bits, c.chunk)
		s := &zzverifrun.Session[[]uint64, []uint64, Vec, Fp, *Fp]{Tr: tr, Inst: "sumvec", Bits: int(c.bits), Length: int(c.length), Pub: s0, Raw: &raw, Encode: f2.Encode, NAlter: nalter(c.length * c.bits),
			MeasJSON: func(m []uint64) interface{} {
				x := make([][]int, len(m))
				for i := range m {
					x[i] = vlib.Digits(new(big.Int).SetUint64(m[i]))
				}
				return x
			},
			AggVec: func(a *[]uint64) []*big.Int {
				x := make([]*big.Int, len(*a))
				for i := range *a {
					x[i] = new(big.Int).SetUint64((*a)[i])
				}
				return x
			},
		}
		top := ^uint64(0) >> (64 - c.bits)
		mk := func(f func(i int) uint64) []uint64 {
			m := make([]uint64, c.length)
			for i := range m {
				m[i] = f(i)
			}
			return m
		}
		s.Honest = [][]uint64{mk(func(int) uint64 { return top }), mk(func(int) uint64 { return 0 })}
		for k := 0; k < 5; k++ {
			s.Honest = append(s.Honest, mk(func(int) uint64 { // totals stay below 2^64
				if c.bits > 59 {
					return 0
				}
				return (rng.Uint64() & top) >> 4
			}))
		}
		s.Honest = append(s.Honest, make([]uint64, c.length+1), make([]uint64, c.length-1)) // wrong lengths
		if c.bits < 64 {
			s.Honest = append(s.Honest, mk(func(i int) uint64 { // one entry is 2^bits
				if i == int(c.length)-1 {
					return top + 1
				}
				return 0
			}))
		}
		zzverifrun.Run(s, rng, emit)
	}
}

// nalter: altered copies are made of small reports only (every alteration site on a 1600-element encoding would dominate the run)
func nalter(encLen uint) int {
	if encLen > 400 {
		return 0
	}
	return 1
}
