// Package zzverifrun replays Prio3 sessions (shard, per-aggregator prepare with every message passing through its
// marshal/unmarshal round trip, single-site alterations, aggregation, repeated unsharding) on one instance and records
// what happened for spec/C19/Trace_Prio3.tla.  It sits below vdaf/prio3 so that it can name the internal generic types.
package zzverifrun

import (
	"bytes"
	"fmt"
	"math/big"
	"math/rand"
	"time"

	"github.com/cloudflare/circl/vdaf/prio3/arith"
	"github.com/cloudflare/circl/vdaf/prio3/internal/prio3"
	"github.com/cloudflare/circl/zzverif/vlib"
)

type API[M, A any, V arith.Vec[V, E], E arith.Elt] interface {
	Params() prio3.Params
	Shard(M, *prio3.Nonce, []byte) (prio3.PublicShare, []prio3.InputShare[V, E], error)
	PrepInit(*prio3.VerifyKey, *prio3.Nonce, uint8, prio3.PublicShare, prio3.InputShare[V, E]) (*prio3.PrepState[V, E], *prio3.PrepShare[V, E], error)
	PrepSharesToPrep([]prio3.PrepShare[V, E]) (*prio3.PrepMessage, error)
	PrepNext(*prio3.PrepState[V, E], *prio3.PrepMessage) (*prio3.OutShare[V, E], error)
	AggregateInit() prio3.AggShare[V, E]
	AggregateUpdate(*prio3.AggShare[V, E], *prio3.OutShare[V, E])
	Unshard([]prio3.AggShare[V, E], uint) (*A, error)
}

type Event struct {
	Ev        string      `json:"ev"`
	Tr        int         `json:"tr"`
	Inst      string      `json:"inst"`
	A         interface{} `json:"a"`
	B         interface{} `json:"b"`
	C         interface{} `json:"c"`
	Shares    int         `json:"shares"`
	Outcome   string      `json:"outcome"`
	MeasLen   int         `json:"measlen"`
	OutLen    int         `json:"outlen"`
	JrLen     int         `json:"jrlen"`
	Kind      string      `json:"kind"`
	M         interface{} `json:"m"`
	Enc       [][]int     `json:"enc"`
	Site      string      `json:"site"`
	Stage     string      `json:"stage"`
	Accepted  bool        `json:"accepted"`
	Bound     bool        `json:"bound"`
	RtOK      bool        `json:"rt_ok"`
	Owned     bool        `json:"owned"`
	EncodeErr bool        `json:"encode_err"`
	Panics    int         `json:"panics"`
	Num       int         `json:"num"`
	Result    [][]int     `json:"result"`
	Err       bool        `json:"err"`
	Note      string      `json:"note"`
}

func blank(ev string, tr int, inst string) Event {
	return Event{Ev: ev, Tr: tr, Inst: inst, A: 0, B: 0, C: 0, M: 0, Enc: [][]int{}, Result: [][]int{}, Site: "none", RtOK: true, Owned: true}
}

// NewEvent records a constructor call.
func NewEvent(tr int, inst string, a, b, c interface{}, shares int, f func() (*prio3.Params, error)) (Event, bool) {
	e := blank("new", tr, inst)
	e.A, e.B, e.C, e.Shares = a, b, c, shares
	var p *prio3.Params
	var err error
	oc := vlib.Safe(60*time.Second, func() { p, err = f() })
	switch {
	case oc.Bad():
		e.Outcome, e.Note = "panic", oc.Panic
	case err != nil:
		e.Outcome, e.Note = "err", err.Error()
	default:
		e.Outcome = "ok"
		e.MeasLen, e.OutLen, e.JrLen = int(p.MeasurementLength()), int(p.OutputLength()), int(p.JointRandLength())
	}
	return e, e.Outcome == "ok"
}

type Session[M, A any, V arith.Vec[V, E], E arith.Elt, F arith.Fp[E]] struct {
	Tr       int
	Inst     string
	Bits     int      // bits of the instance (sum, sumvec, mhcv)
	Length   int      // vector length (sumvec, histogram, mhcv)
	Offset   *big.Int // sum, mhcv
	Pub      API[M, A, V, E]
	Raw      API[V, A, V, E] // the same protocol on an FLP whose Encode is the identity
	Encode   func(M) (V, error)
	MeasJSON func(M) interface{}
	AggVec   func(*A) []*big.Int
	Honest   []M
	NAlter   int // altered copies per session
}

func EltBig[E arith.Elt, F arith.Fp[E]](e *E) *big.Int {
	b, err := F(e).MarshalBinary()
	if err != nil {
		vlib.Die("elt marshal: %v", err)
	}
	return vlib.FromLE(b)
}

func VecDigits[V arith.Vec[V, E], E arith.Elt, F arith.Fp[E]](v V) [][]int {
	out := make([][]int, len(v))
	for i := range v {
		out[i] = vlib.Digits(EltBig[E, F](&v[i]))
	}
	return out
}

func VecFromBig[V arith.Vec[V, E], E arith.Elt, F arith.Fp[E]](x []*big.Int) V {
	v := arith.NewVec[V](uint(len(x)))
	for i := range x {
		if err := F(&v[i]).UnmarshalBinary(vlib.ToLE(x[i], int(F(&v[i]).Size()))); err != nil {
			vlib.Die("elt unmarshal %v: %v", x[i], err)
		}
	}
	return v
}

func vecBig[V arith.Vec[V, E], E arith.Elt, F arith.Fp[E]](v V) []*big.Int {
	out := make([]*big.Int, len(v))
	for i := range v {
		out[i] = EltBig[E, F](&v[i])
	}
	return out
}

type result[V arith.Vec[V, E], E arith.Elt] struct {
	accepted bool
	stage    string
	rtOK     bool
	owned    bool
	out      []*prio3.OutShare[V, E]
}

func flip(b []byte, lo, hi int, rng *rand.Rand, lowBitOnly bool) bool {
	if hi <= lo || hi > len(b) {
		return false
	}
	i := lo + rng.Intn(hi-lo)
	if lowBitOnly {
		b[i] ^= 1
	} else {
		b[i] ^= 1 << uint(rng.Intn(8))
	}
	return true
}

// prepare runs the preparation of one report at every aggregator.  site names the single message that is altered in flight.
func prepare[M, A any, V arith.Vec[V, E], E arith.Elt, F arith.Fp[E]](
	api API[M, A, V, E], pub prio3.PublicShare, shares []prio3.InputShare[V, E], other []prio3.InputShare[V, E],
	nonce prio3.Nonce, vk prio3.VerifyKey, site string, rng *rand.Rand,
) (r result[V, E], applied bool) {
	p := api.Params()
	n := int(p.Shares())
	jr := p.JointRandLength() > 0
	var e0 E
	sz := int(F(&e0).Size())
	r.rtOK, r.owned = true, true
	victim := rng.Intn(n)
	helper := 1 + rng.Intn(n-1)
	fail := func(stage string) (result[V, E], bool) { r.stage = stage; return r, applied }
	// ---- transport of the public share and the input shares
	pb, err := pub.MarshalBinary()
	if err != nil {
		return fail("marshal-public")
	}
	if site == "public-share" {
		applied = flip(pb, 0, len(pb), rng, false)
	}
	var pub2 prio3.PublicShare
	pub2.New(&p)
	if err := pub2.UnmarshalBinary(pb); err != nil {
		return fail("decode-public")
	}
	if pb2, _ := pub2.MarshalBinary(); !bytes.Equal(pb, pb2) {
		r.rtOK = false
	}
	in := make([]prio3.InputShare[V, E], n)
	src := shares
	for j := 0; j < n; j++ {
		s := &src[j]
		switch {
		case site == "swap-helpers" && n >= 3 && (j == 1 || j == 2):
			s, applied = &src[3-j], true
		case site == "other-report-leader" && j == 0 && other != nil:
			s, applied = &other[0], true
		case site == "other-report-helper" && j == helper && other != nil:
			s, applied = &other[j], true
		}
		b, err := s.MarshalBinary()
		if err != nil {
			return fail("marshal-input")
		}
		ml, pl := int(p.MeasurementLength())*sz, int(p.ProofLength())*sz
		switch {
		case site == "leader-meas" && j == 0:
			k := 0
			if ml > 0 {
				k = rng.Intn(ml/sz) * sz
			}
			applied = flip(b, k, k+1, rng, true) && ml > 0
		case site == "leader-proof" && j == 0:
			k := ml + rng.Intn(pl/sz)*sz
			applied = flip(b, k, k+1, rng, true)
		case site == "leader-blind" && j == 0 && jr:
			applied = flip(b, ml+pl, ml+pl+32, rng, false)
		case site == "helper-seed" && j == helper:
			applied = flip(b, 0, 32, rng, false)
		case site == "helper-blind" && j == helper && jr:
			applied = flip(b, 32, 64, rng, false)
		}
		in[j].New(&p, uint(j))
		if err := in[j].UnmarshalBinary(b); err != nil {
			return fail("decode-input")
		}
		if b2, _ := in[j].MarshalBinary(); !bytes.Equal(b, b2) {
			r.rtOK = false
		}
	}
	// ---- PrepInit everywhere
	states := make([]*prio3.PrepState[V, E], n)
	pshares := make([]prio3.PrepShare[V, E], n)
	for j := 0; j < n; j++ {
		nj, vj := nonce, vk
		if (site == "nonce-one" && j == victim) || (site == "nonce-all" && jr) {
			nj[rng.Intn(len(nj))] ^= 0x40
			applied = true
		}
		if site == "verify-key-one" && j == victim {
			vj[rng.Intn(len(vj))] ^= 0x08
			applied = true
		}
		st, ps, err := api.PrepInit(&vj, &nj, uint8(j), pub2, in[j])
		if err != nil {
			return fail("prep-init")
		}
		sb, err := st.MarshalBinary()
		if err != nil {
			return fail("marshal-state")
		}
		// the aggregator decodes its next report into the same InputShare object: the state it was handed for THIS report owns its data
		if ib, err := in[j].MarshalBinary(); err == nil {
			if err := in[j].UnmarshalBinary(make([]byte, len(ib))); err == nil {
				if sb3, _ := st.MarshalBinary(); !bytes.Equal(sb, sb3) {
					r.owned = false
				}
			}
		}
		states[j] = new(prio3.PrepState[V, E]).New(&p)
		if err := states[j].UnmarshalBinary(sb); err != nil {
			return fail("decode-state")
		}
		if sb2, _ := states[j].MarshalBinary(); !bytes.Equal(sb, sb2) {
			r.rtOK = false
		}
		b, err := ps.MarshalBinary()
		if err != nil {
			return fail("marshal-prepshare")
		}
		vl := int(p.VerifierLength()) * sz
		switch {
		case site == "prep-share-verifier" && j == victim:
			k := rng.Intn(vl/sz) * sz
			applied = flip(b, k, k+1, rng, true)
		case site == "prep-share-jrpart" && j == victim && jr:
			applied = flip(b, vl, vl+32, rng, false)
		}
		pshares[j].New(&p)
		if err := pshares[j].UnmarshalBinary(b); err != nil {
			return fail("decode-prepshare")
		}
		if b2, _ := pshares[j].MarshalBinary(); !bytes.Equal(b, b2) {
			r.rtOK = false
		}
	}
	if site == "prep-shares-none" { // no preparation share reaches the combining step: nothing was verified, so nothing is accepted
		pshares, applied = nil, true
	}
	msg, err := api.PrepSharesToPrep(pshares)
	if err != nil {
		return fail("prep-shares-to-prep")
	}
	mb, err := msg.MarshalBinary()
	if err != nil {
		return fail("marshal-prepmsg")
	}
	r.out = make([]*prio3.OutShare[V, E], n)
	for j := 0; j < n; j++ {
		b := append([]byte{}, mb...)
		if site == "prep-msg-one" && j == victim && jr {
			applied = flip(b, 0, len(b), rng, false)
		}
		m2 := new(prio3.PrepMessage).New(&p)
		if err := m2.UnmarshalBinary(b); err != nil {
			return fail("decode-prepmsg")
		}
		if b2, _ := m2.MarshalBinary(); !bytes.Equal(b, b2) {
			r.rtOK = false
		}
		if site == "prep-msg-missing" && j == victim && jr { // the prep message never arrives / arrives empty: with joint randomness that is an error
			applied = true
			if rng.Intn(2) == 0 {
				m2 = nil
			} else {
				m2 = new(prio3.PrepMessage)
				_ = m2.UnmarshalBinary([]byte{})
			}
		}
		o, err := api.PrepNext(states[j], m2)
		if err != nil {
			return fail("prep-next")
		}
		ob, err := o.MarshalBinary()
		if err != nil {
			return fail("marshal-outshare")
		}
		r.out[j] = new(prio3.OutShare[V, E]).New(&p)
		if err := r.out[j].UnmarshalBinary(ob); err != nil {
			return fail("decode-outshare")
		}
		if ob2, _ := r.out[j].MarshalBinary(); !bytes.Equal(ob, ob2) {
			r.rtOK = false
		}
	}
	r.accepted, r.stage = true, "accepted"
	return r, applied
}

var Sites = []string{"leader-meas", "leader-proof", "leader-blind", "helper-seed", "helper-blind", "public-share", "swap-helpers",
	"other-report-leader", "other-report-helper", "nonce-one", "nonce-all", "verify-key-one", "prep-share-verifier", "prep-share-jrpart", "prep-msg-one", "prep-msg-missing", "prep-shares-none"}

// invalid encodings derived from valid ones (big integers; pm1 = p - 1)
func (s *Session[M, A, V, E, F]) evil(valid [][]*big.Int, pm1 *big.Int, rng *rand.Rand) (out [][]*big.Int, notes []string) {
	cp := func(x []*big.Int) []*big.Int {
		y := make([]*big.Int, len(x))
		for i := range x {
			y[i] = new(big.Int).Set(x[i])
		}
		return y
	}
	add := func(v []*big.Int, note string) { out = append(out, v); notes = append(notes, note) }
	two := big.NewInt(2)
	for vi, v := range valid {
		if len(v) == 0 {
			continue
		}
		// a non-bit entry at the first, the last and a random position
		for _, pos := range []int{0, len(v) - 1, rng.Intn(len(v))} {
			for _, val := range []*big.Int{two, pm1, new(big.Int).Rand(rng, pm1)} {
				if vi > 1 && rng.Intn(3) != 0 {
					continue
				}
				w := cp(v)
				w[pos] = new(big.Int).Set(val)
				add(w, fmt.Sprintf("nonbit@%d", pos))
			}
		}
		switch s.Inst {
		case "sum": // all bits, but the two halves disagree
			w := cp(v)
			k := rng.Intn(len(w))
			w[k] = new(big.Int).Xor(w[k], big.NewInt(1))
			add(w, "range-mismatch")
		case "histogram":
			w := cp(v)
			for i := range w {
				if w[i].Sign() == 0 {
					w[i] = big.NewInt(1)
					add(w, "two-hot")
					break
				}
			}
			z := cp(v)
			for i := range z {
				z[i] = big.NewInt(0)
			}
			add(z, "zero-hot")
			if len(v) >= 2 { // entries 2 and p-1 sum to 1
				y := cp(z)
				y[0], y[len(y)-1] = big.NewInt(2), new(big.Int).Set(pm1)
				add(y, "sum-one-nonbits")
			}
		case "mhcv":
			w := cp(v) // one more entry set, reported weight unchanged
			for i := 0; i < s.Length; i++ {
				if w[i].Sign() == 0 {
					w[i] = big.NewInt(1)
					add(w, "weight-mismatch")
					break
				}
			}
			// weight above the bound with a reported weight that makes the weight check hold: top "bit" carries the excess
			x := cp(v)
			wt := int64(0)
			for i := 0; i < s.Length; i++ {
				x[i] = big.NewInt(1)
				wt++
			}
			if s.Bits > 0 {
				tot := new(big.Int).Add(big.NewInt(wt), s.Offset) // must equal sum 2^i r_i
				low := new(big.Int).And(tot, new(big.Int).Sub(new(big.Int).Lsh(big.NewInt(1), uint(s.Bits-1)), big.NewInt(1)))
				for i := 0; i < s.Bits-1; i++ {
					x[s.Length+i] = big.NewInt(int64(low.Bit(i)))
				}
				x[s.Length+s.Bits-1] = new(big.Int).Rsh(new(big.Int).Sub(tot, low), uint(s.Bits-1))
				add(x, "weight-all-set-top-carries")
			}
		}
	}
	return
}

// Run plays one session.
func Run[M, A any, V arith.Vec[V, E], E arith.Elt, F arith.Fp[E]](s *Session[M, A, V, E, F], rng *rand.Rand, emit func(Event)) {
	p := s.Pub.Params()
	n := int(p.Shares())
	var vk prio3.VerifyKey
	rng.Read(vk[:])
	aggs := make([]prio3.AggShare[V, E], n)
	for j := range aggs {
		aggs[j] = s.Pub.AggregateInit()
	}
	numAcc := 0
	var e0 E
	F(&e0).SetOne()
	var zero E
	F(&zero).SubAssign(&e0) // p - 1
	pm1 := EltBig[E, F](&zero)

	unshard := func(note string, viaBytes bool) {
		e := blank("unshard", s.Tr, s.Inst)
		e.Num, e.Note = numAcc, note
		use := aggs
		if viaBytes {
			use = make([]prio3.AggShare[V, E], n)
			for j := range aggs {
				b, err := aggs[j].MarshalBinary()
				if err != nil {
					e.Err = true
				}
				use[j].New(&p)
				if err := use[j].UnmarshalBinary(b); err != nil {
					e.Err = true
				}
			}
		}
		var a *A
		var err error
		oc := vlib.Safe(60*time.Second, func() { a, err = s.Pub.Unshard(use, uint(numAcc)) })
		if oc.Bad() {
			e.Panics, e.Note = 1, oc.Panic
		} else if err != nil {
			e.Err, e.Note = true, err.Error()
		} else {
			for _, x := range s.AggVec(a) {
				e.Result = append(e.Result, vlib.Digits(x))
			}
		}
		emit(e)
	}
	submit := func(kind string, m interface{}, enc V, pub prio3.PublicShare, shares, other []prio3.InputShare[V, E], nonce prio3.Nonce, site string, bound bool, note string) {
		e := blank("report", s.Tr, s.Inst)
		e.Kind, e.M, e.Site, e.Bound, e.Note = kind, m, site, bound, note
		e.Enc = VecDigits[V, E, F](enc)
		var r result[V, E]
		applied := false
		oc := vlib.Safe(60*time.Second, func() { r, applied = prepare[M, A, V, E, F](s.Pub, pub, shares, other, nonce, vk, site, rng) })
		if site != "none" && !applied && !oc.Bad() {
			return // the site does not exist for this instance (no joint randomness, two aggregators, ...)
		}
		if oc.Bad() {
			e.Panics, e.Note = 1, oc.Panic
		}
		e.Accepted, e.Stage, e.RtOK, e.Owned = r.accepted, r.stage, r.rtOK, r.owned
		if r.accepted {
			for j := range aggs {
				s.Pub.AggregateUpdate(&aggs[j], r.out[j])
			}
			numAcc++
		}
		emit(e)
	}
	var validEncs [][]*big.Int
	randBytes := func() (prio3.Nonce, []byte) {
		var nonce prio3.Nonce
		rng.Read(nonce[:])
		rnd := make([]byte, p.RandSize())
		rng.Read(rnd)
		return nonce, rnd
	}
	for i, m := range s.Honest {
		nonce, rnd := randBytes()
		var enc V
		var eerr error
		var pub prio3.PublicShare
		var shares []prio3.InputShare[V, E]
		var serr error
		oc := vlib.Safe(60*time.Second, func() {
			enc, eerr = s.Encode(m)
			pub, shares, serr = s.Pub.Shard(m, &nonce, rnd)
		})
		if oc.Bad() || eerr != nil || serr != nil {
			e := blank("report", s.Tr, s.Inst)
			e.Kind, e.M, e.EncodeErr = "honest", s.MeasJSON(m), eerr != nil && serr != nil
			if oc.Bad() {
				e.Panics, e.Note = 1, oc.Panic
			}
			emit(e)
			continue
		}
		// the public Shard is the protocol run on the library's own encoding
		pub2, shares2, err2 := s.Raw.Shard(enc, &nonce, rnd)
		bound := err2 == nil && bytes.Equal(pub, pub2) && len(shares) == len(shares2)
		for j := range shares {
			b1, _ := shares[j].MarshalBinary()
			b2, _ := shares2[j].MarshalBinary()
			bound = bound && bytes.Equal(b1, b2)
		}
		validEncs = append(validEncs, vecBig[V, E, F](enc))
		submit("honest", s.MeasJSON(m), enc, pub, shares, nil, nonce, "none", bound, "")
		if i == len(s.Honest)/2 {
			unshard("mid-batch", false)
			unshard("mid-batch again", false)
		}
		// altered copies of this report (a second report of the same measurement supplies foreign shares)
		if i < s.NAlter && p.MeasurementLength() > 0 { // an empty measurement (Sum with bound 0) has nothing a proof could bind
			nonce2, rnd2 := randBytes()
			_, other, _ := s.Pub.Shard(m, &nonce2, rnd2)
			for _, site := range Sites {
				submit("honest", s.MeasJSON(m), enc, pub, shares, other, nonce, site, bound, "")
			}
		}
	}
	// invalid (and, for control, valid) encodings proved honestly
	evil, notes := s.evil(validEncs, pm1, rng)
	for i := range validEncs { // the first measurement is the maximum: leave it out so that batch totals stay small
		if i == 1 || i == 2 {
			evil, notes = append(evil, validEncs[i]), append(notes, "valid-control")
		}
	}
	for i, ev := range evil {
		enc := VecFromBig[V, E, F](ev)
		nonce, rnd := randBytes()
		pub, shares, err := s.Raw.Shard(enc, &nonce, rnd)
		if err != nil {
			vlib.Die("raw shard: %v", err)
		}
		submit("raw", 0, enc, pub, shares, nil, nonce, "none", false, notes[i])
	}
	unshard("end", false)
	unshard("end via marshalled aggregation shares", true)
	unshard("end again", false)
}
