package histogram

import (
	"math/big"
	"os"
	"testing"

	"github.com/cloudflare/circl/vdaf/prio3/internal/prio3"
	"github.com/cloudflare/circl/vdaf/prio3/zzverifrun"
	"github.com/cloudflare/circl/zzverif/vlib"
)

type rawHistogram struct{ *flpHistogram }

func (r rawHistogram) Encode(v Vec) (Vec, error) { return v, nil }

func TestZZVerifRun(t *testing.T) {
	out := os.Getenv("VERIF_OUT")
	if out == "" {
		t.Skip()
	}
	thorough := os.Getenv("VERIF_THOROUGH") != ""
	rng := vlib.Rng(vlib.EnvSeed(), "c19-histogram")
	o := vlib.Create(out + "/histogram.ndjson")
	defer o.Close()
	emit := func(e zzverifrun.Event) { o.Emit(e) }
	ctx := []byte("verif")
	tr := 4000
	type cfg struct{ n, length, chunk uint }
	cfgs := []cfg{{2, 4, 0}, {0, 4, 2}, {2, 1, 1}, {2, 4, 2}, {3, 4, 3}, {2, 5, 5}, {2, 7, 10}, {5, 11, 3}, {2, 1 + uint(rng.Intn(12)), 1 + uint(rng.Intn(6))},
		{8, 4, 2},      // eight aggregators
		{2, 2048, 16}}  // 128 gadget calls
	if thorough {
		cfgs = append(cfgs, cfg{255, 4, 3}, cfg{2, 100, 10})
		for i := 0; i < 10; i++ {
			cfgs = append(cfgs, cfg{2 + uint(rng.Intn(4)), 1 + uint(rng.Intn(30)), 1 + uint(rng.Intn(12))})
		}
	}
	for _, c := range cfgs {
		tr++
		var s0 *Histogram
		e, ok := zzverifrun.NewEvent(tr, "histogram", int(c.length), 0, int(c.chunk), int(c.n), func() (*prio3.Params, error) {
			var err error
			s0, err = New(uint8(c.n), c.length, c.chunk, ctx)
			if err != nil {
				return nil, err
			}
			p := s0.Params()
			return &p, nil
		})
		emit(e)
		if !ok {
			continue
		}
		raw, err := prio3.New[rawHistogram, Vec, []uint64, Vec, Fp, *Fp](rawHistogram{newFlpHistogram(c.length, c.chunk)}, 4, uint8(c.n), ctx)
		if err != nil {
			t.Fatal(err)
		}
		f2 := newFlpHistogram(c.length, c.chunk)
		s := &zzverifrun.Session[uint64, []uint64, Vec, Fp, *Fp]{Tr: tr, Inst: "histogram", Length: int(c.length), Pub: s0, Raw: &raw, Encode: f2.Encode, NAlter: nalter(c.length),
			MeasJSON: func(m uint64) interface{} { return int(m) },
			AggVec: func(a *[]uint64) []*big.Int {
				x := make([]*big.Int, len(*a))
				for i := range *a {
					x[i] = new(big.Int).SetUint64((*a)[i])
				}
				return x
			},
		}
		s.Honest = []uint64{0, uint64(c.length - 1)}
		for k := 0; k < 6; k++ {
			s.Honest = append(s.Honest, uint64(rng.Intn(int(c.length))))
		}
		s.Honest = append(s.Honest, uint64(c.length), uint64(c.length)+1+uint64(rng.Intn(1000))) // not bucket indices
		zzverifrun.Run(s, rng, emit)
	}
}

func nalter(encLen uint) int {
	if encLen > 400 {
		return 0
	}
	return 1
}
