package common

import (
	"encoding/json"
	"os"
	"testing"
)

type zzBlock struct {
	Ev   string `json:"ev"`
	Fn   string `json:"fn"`
	D    int    `json:"d"`
	X0   int    `json:"x0"`
	Step int    `json:"step"`
	Ys   []int  `json:"ys"`
	Impl string `json:"impl"`
}

// TestZZVerifHelpers dumps the scalar helper functions over their whole domain (montReduce: a strided sample with all edges).
func TestZZVerifHelpers(t *testing.T) {
	out := os.Getenv("VERIF_OUT")
	if out == "" {
		t.Skip()
	}
	f, err := os.Create(out)
	if err != nil {
		t.Fatal(err)
	}
	defer f.Close()
	enc := json.NewEncoder(f)
	impl := os.Getenv("VERIF_IMPL")
	emit := func(fn string, d, x0, step int, ys []int) {
		if err := enc.Encode(zzBlock{"helper", fn, d, x0, step, ys, impl}); err != nil {
			t.Fatal(err)
		}
	}
	const blk = 2048
	for x0 := -32768; x0 < 32768; x0 += blk {
		var a, b, c []int
		for x := x0; x < x0+blk; x++ {
			a = append(a, int(barrettReduce(int16(x))))
			b = append(b, int(toMont(int16(x))))
			if x >= -29439 {
				c = append(c, int(csubq(int16(x))))
			}
		}
		emit("barrettReduce", 0, x0, 1, a)
		emit("toMont", 0, x0, 1, b)
		if len(c) == blk {
			emit("csubq", 0, x0, 1, c)
		} else if len(c) > 0 {
			emit("csubq", 0, x0+blk-len(c), 1, c)
		}
	}
	// montReduce on -2^15 q <= x < 2^15 q: both ends densely, the rest with a stride coprime to q and to 2^16
	lo, hi := -(1<<15)*int(Q), (1<<15)*int(Q)
	for _, seg := range [][3]int{{lo, 1, 4 * blk}, {hi - 4*blk, 1, 4 * blk}, {-2 * blk, 1, 4 * blk}, {lo, 104729, (hi - lo) / 104729}} {
		for k := 0; k < seg[2]; k += blk {
			var ys []int
			n := blk
			if seg[2]-k < n {
				n = seg[2] - k
			}
			for i := 0; i < n; i++ {
				ys = append(ys, int(montReduce(int32(seg[0]+(k+i)*seg[1]))))
			}
			emit("montReduce", 0, seg[0]+k*seg[1], seg[1], ys)
		}
	}
	// Compress_d / Decompress_d on the whole domain, through the polynomial entry points
	unpackBits := func(m []byte, d, n int) []int {
		ys := make([]int, n)
		for i := 0; i < n; i++ {
			for b := 0; b < d; b++ {
				k := i*d + b
				ys[i] |= int(m[k/8]>>uint(k%8)&1) << uint(b)
			}
		}
		return ys
	}
	packBits := func(ys []int, d int) []byte {
		m := make([]byte, (len(ys)*d+7)/8)
		for i, y := range ys {
			for b := 0; b < d; b++ {
				if y>>uint(b)&1 == 1 {
					k := i*d + b
					m[k/8] |= 1 << uint(k%8)
				}
			}
		}
		return m
	}
	for _, d := range []int{1, 4, 5, 10, 11} {
		for x0 := 0; x0 < int(Q); x0 += N {
			var p Poly
			for i := 0; i < N; i++ {
				p[i] = int16((x0 + i) % int(Q))
			}
			m := make([]byte, N*d/8)
			if d == 1 {
				p.CompressMessageTo(m)
			} else {
				p.CompressTo(m, d)
			}
			emit("compress", d, x0, 1, unpackBits(m, d, N))
		}
		for y0 := 0; y0 < 1<<uint(d); y0 += N {
			ys := make([]int, N)
			for i := range ys {
				ys[i] = (y0 + i) % (1 << uint(d))
			}
			var p Poly
			if d == 1 {
				p.DecompressMessage(packBits(ys, 1))
			} else {
				p.Decompress(packBits(ys, d), d)
			}
			out := make([]int, N)
			for i := range out {
				out[i] = int(p[i])
			}
			emit("decompress", d, y0, 1, out)
		}
	}
	// 12-bit packing: every value decodes to itself and (when normalised) encodes back
	for x0 := 0; x0 < 4096; x0 += N {
		ys := make([]int, N)
		for i := range ys {
			ys[i] = x0 + i
		}
		var p Poly
		p.Unpack(packBits(ys, 12))
		q := p // Unpack leaves the polynomial "tangled" (the order the vectorised NTT wants); Pack expects it that way
		q.Detangle()
		out := make([]int, N)
		for i := range out {
			out[i] = int(q[i])
		}
		emit("unpack12", 12, x0, 1, out)
		if x0+N <= int(Q) {
			m := make([]byte, 384)
			p.Pack(m)
			emit("pack12", 12, x0, 1, unpackBits(m, 12, N))
		}
	}
}
