package csidh

// In-package recorder for C12: the CSIDH-512 base field in Montgomery form (R = 2^512).

import (
	"math/big"
	"os"
	"strconv"
	"testing"

	"github.com/cloudflare/circl/zzverif/fieldrun"
	"github.com/cloudflare/circl/zzverif/vlib"
)

func TestVerifField(t *testing.T) {
	out := os.Getenv("VERIF_OUT")
	if out == "" {
		t.Skip()
	}
	seed, _ := strconv.ParseInt(os.Getenv("VERIF_SEED"), 10, 64)
	n, _ := strconv.Atoi(os.Getenv("VERIF_N"))
	var r [4]fp
	toInt := func(v *fp) *big.Int {
		x := new(big.Int)
		for i := 7; i >= 0; i-- {
			x.Lsh(x, 64)
			x.Or(x, new(big.Int).SetUint64(v[i]))
		}
		return x
	}
	P := toInt(&p)
	R := new(big.Int).Lsh(big.NewInt(1), 512)
	Rinv := new(big.Int).ModInverse(R, P)
	set := func(i int, v *big.Int) {
		m := new(big.Int).Mod(new(big.Int).Mul(v, R), P)
		for k := 0; k < 8; k++ {
			r[i][k] = new(big.Int).And(new(big.Int).Rsh(m, uint(64*k)), new(big.Int).SetUint64(^uint64(0))).Uint64()
		}
	}
	get := func(i int) *big.Int { return new(big.Int).Mod(new(big.Int).Mul(toInt(&r[i]), Rinv), P) }
	f := &fieldrun.Field{Name: "csidh511", Impl: "dh/csidh fp " + os.Getenv("VERIF_IMPL"), P: P, Max: new(big.Int).Sub(P, big.NewInt(1)), NRegs: 4, Set: set, Get: get,
		Mul: func(z, x, y int) { mulRdc(&r[z], &r[x], &r[y]) }, Add: func(z, x, y int) { addRdc(&r[z], &r[x], &r[y]) },
		Sub:    func(z, x, y int) { subRdc(&r[z], &r[x], &r[y]) },
		IsZero: func(x int) bool { return r[x].isZero() }, Eq: func(x, y int) bool { return r[x].equal(&r[y]) },
		Cswap:  func(x, y int, b bool) { c := uint8(0); if b { c = 1 }; cswap512(&r[x], &r[y], c) }, MontBits: 512}
	o := vlib.Create(out)
	defer o.Close()
	fieldrun.Run(f, vlib.Rng(seed, "csidh"), n, func(e fieldrun.Event) { o.Emit(e) })
}
