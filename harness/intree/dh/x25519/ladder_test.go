package x25519

// In-package recorder for C06 / C12: the ladder building blocks mulA24, double, ladderStep, diffAdd of the selected back-end on
// structured raw operands, for spec/C06/Trace_Ladder.tla.

import (
	"math/big"
	"math/rand"
	"os"
	"strconv"
	"testing"

	fp "github.com/cloudflare/circl/math/fp25519"
	"github.com/cloudflare/circl/zzverif/fieldrun"
	"github.com/cloudflare/circl/zzverif/vlib"
)

type ladderLine struct {
	Curve  string  `json:"curve"`
	Impl   string  `json:"impl"`
	Op     string  `json:"op"`
	Class  string  `json:"class"`
	B      int     `json:"b"`
	Inp    [][]int `json:"inp"`
	Out    [][]int `json:"out"`
	Panics int     `json:"panics"`
	Note   string  `json:"note"`
}

func TestVerifLadder(t *testing.T) {
	out := os.Getenv("VERIF_OUT")
	if out == "" {
		t.Skip()
	}
	seed, _ := strconv.ParseInt(os.Getenv("VERIF_SEED"), 10, 64)
	n, _ := strconv.Atoi(os.Getenv("VERIF_N"))
	impl := os.Getenv("VERIF_IMPL")
	rng := vlib.Rng(seed, "x25519ladder")
	o := vlib.Create(out)
	defer o.Close()
	const size = fp.Size
	const a24 = 121666
	p, _ := new(big.Int).SetString("7fffffffffffffffffffffffffffffffffffffffffffffffffffffffffffffed", 16)
	w := new(big.Int).Lsh(big.NewInt(1), 8*size)
	fold := new(big.Int).Mod(w, p) // 2^(8*size) mod p: what one unit of the high part is worth
	max := new(big.Int).Sub(w, big.NewInt(1))
	st := fieldrun.Structured(p, max)
	toElt := func(v *big.Int) (e fp.Elt) { copy(e[:], vlib.ToLE(v, size)); return }
	dig := func(e *fp.Elt) []int { return vlib.Digits(vlib.FromLE(e[:])) }
	pick := func(rng *rand.Rand) *big.Int {
		if rng.Intn(3) > 0 {
			return st[rng.Intn(len(st))]
		}
		return new(big.Int).Rand(rng, w)
	}
	// operands x with a24 * x = (h+1) * 2^bits - e, 0 < e <= fold * h: the low part plus the folded high part overflows the element
	// once more (the second carry fold of the reduction)
	corner := func(rng *rand.Rand) *big.Int {
		for {
			h := new(big.Int).Rand(rng, big.NewInt(a24-2))
			h.Add(h, big.NewInt(1))
			top := new(big.Int).Mul(new(big.Int).Add(h, big.NewInt(1)), w)
			e := new(big.Int).Mod(top, big.NewInt(a24))
			if e.Sign() == 0 {
				e.SetInt64(a24)
			}
			emax := new(big.Int).Mul(fold, h)
			room := new(big.Int).Div(new(big.Int).Sub(emax, e), big.NewInt(a24))
			if room.Sign() < 0 {
				continue
			}
			k := big.NewInt(int64(rng.Intn(3)))
			if rng.Intn(2) == 0 && room.Sign() > 0 {
				k = new(big.Int).Rand(rng, new(big.Int).Add(room, big.NewInt(1)))
			}
			if k.Cmp(room) > 0 {
				k.Set(room)
			}
			e.Add(e, new(big.Int).Mul(big.NewInt(a24), k))
			x := new(big.Int).Div(new(big.Int).Sub(top, e), big.NewInt(a24))
			if x.Cmp(w) < 0 {
				return x
			}
		}
	}
	run := func(l ladderLine, f func() [][]int) {
		l.Curve, l.Impl = "x25519", impl
		l.Out = [][]int{}
		oc := vlib.Safe(60e9, func() { l.Out = f() })
		if oc.Bad() {
			l.Panics, l.Note = 1, oc.Panic
		}
		o.Emit(l)
	}
	for i := 0; i < n; i++ {
		for _, cl := range []string{"structured", "second-fold", "second-fold"} {
			v := pick(rng)
			if cl == "second-fold" {
				v = corner(rng)
			}
			x := toElt(v)
			inp := [][]int{dig(&x)}
			if i%2 == 0 {
				run(ladderLine{Op: "mulA24", Class: cl, Inp: inp}, func() [][]int { var z fp.Elt; mulA24(&z, &x); return [][]int{dig(&z)} })
			} else {
				run(ladderLine{Op: "mulA24", Class: cl + " in place", Inp: inp}, func() [][]int { mulA24(&x, &x); return [][]int{dig(&x)} })
			}
		}
		{
			x, z := toElt(pick(rng)), toElt(pick(rng))
			if i%5 == 0 { // (X+Z)^2 - (X-Z)^2 = 4XZ steered to a second-fold operand of mulA24: X = c/4, Z = 1 is too crude; use Z = 1, X = corner / 4 when divisible
				c := corner(rng)
				if new(big.Int).And(c, big.NewInt(3)).Sign() == 0 {
					x, z = toElt(new(big.Int).Rsh(c, 2)), toElt(big.NewInt(1))
				}
			}
			inp := [][]int{dig(&x), dig(&z)}
			run(ladderLine{Op: "double", Class: "structured", Inp: inp}, func() [][]int { double(&x, &z); return [][]int{dig(&x), dig(&z)} })
		}
		for _, op := range []string{"ladderStep", "diffAdd"} {
			var wk [5]fp.Elt
			inp := make([][]int, 5)
			for j := range wk {
				wk[j] = toElt(pick(rng))
				inp[j] = dig(&wk[j])
			}
			b := uint(rng.Intn(2))
			op := op
			run(ladderLine{Op: op, Class: "structured", B: int(b), Inp: inp}, func() [][]int {
				if op == "ladderStep" {
					ladderStep(&wk, b)
				} else {
					diffAdd(&wk, b)
				}
				r := make([][]int, 5)
				for j := range wk {
					r[j] = dig(&wk[j])
				}
				return r
			})
		}
	}
}
