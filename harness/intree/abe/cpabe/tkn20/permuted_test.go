package tkn20

// C20 recorder (in package): a policy whose gates are stored in an ARBITRARY order (any order is a valid encoding: a policy extracted from
// a ciphertext comes in whatever order its author serialised) is printed and parsed again; both must answer like a reference evaluation of
// the gate list on every sampled attribute set.  Emits the "print" lines of spec/C20/Trace_Large.tla.

import (
	"fmt"
	"math/rand"
	"os"
	"strconv"
	"testing"

	"github.com/cloudflare/circl/abe/cpabe/tkn20/internal/dsl"
	"github.com/cloudflare/circl/abe/cpabe/tkn20/internal/tkn"
	"github.com/cloudflare/circl/zzverif/vlib"
)

type permLine struct {
	Ev        string `json:"ev"`
	Policy    string `json:"policy"`
	Printed   string `json:"printed"`
	ReparseOK bool   `json:"reparse_ok"`
	Agree     bool   `json:"agree"`
	EqualKept bool   `json:"equal_kept"`
	RtEqual   bool   `json:"rt_equal"`
	Accepted  bool   `json:"accepted"`
	Samples   int    `json:"samples"`
	Panics    int    `json:"panics"`
	Note      string `json:"note"`
}

// a random formula over n+1 inputs (wires 0..n) with n gates (outputs n+1..2n, the root is 2n), gates in random order
func permFormula(rng *rand.Rand, n int) tkn.Formula {
	avail := make([]int, n+1)
	for i := range avail {
		avail[i] = i
	}
	rng.Shuffle(len(avail), func(i, j int) { avail[i], avail[j] = avail[j], avail[i] })
	var gates []tkn.Gate
	for out := n + 1; out <= 2*n; out++ {
		i, j := rng.Intn(len(avail)), 0
		a := avail[i]
		avail = append(avail[:i], avail[i+1:]...)
		j = rng.Intn(len(avail))
		b := avail[j]
		avail = append(avail[:j], avail[j+1:]...)
		class := tkn.Andgate
		if rng.Intn(2) == 0 {
			class = tkn.Orgate
		}
		gates = append(gates, tkn.Gate{Class: class, In0: a, In1: b, Out: out})
		avail = append(avail, out)
	}
	rng.Shuffle(len(gates), func(i, j int) { gates[i], gates[j] = gates[j], gates[i] })
	return tkn.Formula{Gates: gates}
}

func TestVerifPermuted(t *testing.T) {
	out := os.Getenv("VERIF_OUT")
	if out == "" {
		t.Skip()
	}
	seed, _ := strconv.ParseInt(os.Getenv("VERIF_SEED"), 10, 64)
	n, _ := strconv.Atoi(os.Getenv("VERIF_N"))
	o := vlib.Create(out)
	defer o.Close()
	rng := vlib.Rng(seed, "tkn20-permuted")
	for it := 0; it < n; it++ {
		ng := 2 + rng.Intn(6)
		f := permFormula(rng, ng)
		var in []tkn.Wire
		for i := 0; i <= ng; i++ {
			raw := fmt.Sprintf("v%d", rng.Intn(2))
			in = append(in, tkn.Wire{Label: fmt.Sprintf("l%d", i), RawValue: raw, Value: tkn.HashStringToScalar(dsl.AttrHashKey, raw), Positive: rng.Intn(4) != 0})
		}
		p := Policy{policy: tkn.Policy{Inputs: in, F: f}}
		l := permLine{Ev: "print", EqualKept: true, RtEqual: true}
		oc := vlib.Safe(120e9, func() {
			l.Policy = fmt.Sprint(f.Gates)
			l.Printed = p.String()
			var p2 Policy
			if err := p2.FromString(l.Printed); err != nil {
				l.Note = "reparse: " + err.Error()
				return
			}
			l.ReparseOK, l.Agree = true, true
			for k := 0; k < 40; k++ {
				m := map[string]string{}
				for i := 0; i <= ng; i++ {
					switch rng.Intn(3) {
					case 0:
						m[fmt.Sprintf("l%d", i)] = "v0"
					case 1:
						m[fmt.Sprintf("l%d", i)] = "v1"
					}
				}
				var at Attributes
				at.FromMap(m)
				// reference: evaluate the gate list directly
				val := make([]bool, 2*ng+1)
				done := make([]bool, 2*ng+1)
				for i, w := range in {
					v, ok := m[w.Label]
					val[i] = ok && ((v == w.RawValue) == w.Positive)
					done[i] = true
				}
				for changed := true; changed; {
					changed = false
					for _, g := range f.Gates {
						if !done[g.Out] && done[g.In0] && done[g.In1] {
							if g.Class == tkn.Andgate {
								val[g.Out] = val[g.In0] && val[g.In1]
							} else {
								val[g.Out] = val[g.In0] || val[g.In1]
							}
							done[g.Out], changed = true, true
						}
					}
				}
				l.Samples++
				if a, b := p.Satisfaction(at), p2.Satisfaction(at); a != val[2*ng] || b != val[2*ng] {
					l.Agree = false
					l.Note = fmt.Sprintf("reference %v, policy %v, printed-and-parsed %v", val[2*ng], a, b)
				}
			}
		})
		if oc.Bad() {
			l.Panics, l.Note = 1, oc.Panic
		}
		o.Emit(l)
	}
}
