package tkn

// In-package recorder for C20: Formula.share on random formulas with a replayable random source, for spec/C20/Trace_Share.tla.

import (
	"fmt"
	"math/big"
	"math/rand"
	"os"
	"strconv"
	"testing"

	"github.com/cloudflare/circl/zzverif/vlib"
)

type shareLine struct {
	Gates  [][]int   `json:"gates"` // [class (0 = and, 1 = or), in0, in1, out] in the order share() processes them from last to first
	K      [][]int   `json:"k"`
	Draws  [][][]int `json:"draws"`
	Shares [][][]int `json:"shares"`
	Panics int       `json:"panics"`
	Note   string    `json:"note"`
}

func matDigits(m *matrixZp) [][]int {
	o := make([][]int, len(m.entries))
	for i := range m.entries {
		b, _ := m.entries[i].MarshalBinary()
		o[i] = vlib.Digits(new(big.Int).SetBytes(b))
	}
	return o
}

// randomFormula builds a random binary tree with n gates: inputs 0..n, intermediate wires n+1..2n-1, output 2n.
func randomFormula(rng *rand.Rand, n int, allAnd bool) Formula {
	type node struct{ l, r *node }
	var build func(k int) *node
	build = func(k int) *node {
		if k == 0 {
			return nil
		}
		nl := rng.Intn(k)
		return &node{build(nl), build(k - 1 - nl)}
	}
	root := build(n)
	nextIn, nextMid := 0, n+1
	var gates []Gate
	var walk func(t *node, out int)
	wire := func(t *node) int {
		if t == nil {
			nextIn++
			return nextIn - 1
		}
		nextMid++
		return nextMid - 1
	}
	walk = func(t *node, out int) {
		a, b := wire(t.l), wire(t.r)
		class := Andgate
		if !allAnd && rng.Intn(2) == 0 {
			class = Orgate
		}
		gates = append(gates, Gate{Class: class, In0: a, In1: b, Out: out})
		if t.l != nil {
			walk(t.l, a)
		}
		if t.r != nil {
			walk(t.r, b)
		}
	}
	walk(root, 2*n)
	rng.Shuffle(len(gates), func(i, j int) { gates[i], gates[j] = gates[j], gates[i] })
	return Formula{Gates: gates}
}

func TestVerifShare(t *testing.T) {
	out := os.Getenv("VERIF_OUT")
	if out == "" {
		t.Skip()
	}
	seed, _ := strconv.ParseInt(os.Getenv("VERIF_SEED"), 10, 64)
	n, _ := strconv.Atoi(os.Getenv("VERIF_N"))
	o := vlib.Create(out)
	defer o.Close()
	rng := vlib.Rng(seed, "tkn-share")
	for i := 0; i < n; i++ {
		ng := 1 + rng.Intn(6)
		f := randomFormula(rng, ng, i%5 == 0)
		rows, cols := 1+rng.Intn(3), 1+rng.Intn(2)
		l := shareLine{Gates: [][]int{}, K: [][]int{}, Draws: [][][]int{}, Shares: [][][]int{}}
		oc := vlib.Safe(60e9, func() {
			rd := vlib.SeededReader{R: vlib.Rng(seed, fmt.Sprintf("tkn-share-rand-%d", i))}
			k, err := randomMatrixZp(rd, rows, cols)
			if err != nil {
				panic(err)
			}
			sh, err := f.share(rd, k)
			if err != nil {
				panic(err)
			}
			// replay the random source: the secret first, then one matrix per AND gate, last gate first
			rd2 := vlib.SeededReader{R: vlib.Rng(seed, fmt.Sprintf("tkn-share-rand-%d", i))}
			k2, _ := randomMatrixZp(rd2, rows, cols)
			l.K = matDigits(k2)
			gates, err := f.toposort() // the order share() works in (it no longer re-sorts the formula itself)
			if err != nil {
				panic(err)
			}
			for g := len(gates) - 1; g >= 0; g-- {
				if gates[g].Class == Andgate {
					r, _ := randomMatrixZp(rd2, rows, cols)
					l.Draws = append(l.Draws, matDigits(r))
				}
			}
			for _, g := range gates {
				l.Gates = append(l.Gates, []int{g.Class, g.In0, g.In1, g.Out})
			}
			for _, s := range sh {
				l.Shares = append(l.Shares, matDigits(s))
			}
		})
		if oc.Bad() {
			l.Panics, l.Note = 1, oc.Panic
		}
		o.Emit(l)
	}
}
