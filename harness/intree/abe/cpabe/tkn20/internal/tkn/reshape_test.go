package tkn

// C10 recorder (in package): a tkn20 ciphertext is taken apart with the package's own codec, ONE matrix component of its header is replaced
// by a well-formed matrix of another shape, everything is encoded again with consistent length prefixes, and DecryptCCA is called with an
// honest key.  Byte-level mutation never gets here: the matrix and length-prefix parsers refuse inconsistent lengths first.  Codec.tla's
// class "reshape-component"; spec/C10/Trace_Reshape.tla: no panic, not accepted.

import (
	"bytes"
	"fmt"
	"os"
	"strconv"
	"testing"

	"github.com/cloudflare/circl/zzverif/vlib"
)

type reshapeLine struct {
	Ev       string `json:"ev"`
	Comp     string `json:"comp"`
	Rows     int    `json:"rows"`
	Cols     int    `json:"cols"`
	Accepted bool   `json:"accepted"`
	Panics   int    `json:"panics"`
	Note     string `json:"note"`
}

func TestVerifReshape(t *testing.T) {
	out := os.Getenv("VERIF_OUT")
	if out == "" {
		t.Skip()
	}
	seed, _ := strconv.ParseInt(os.Getenv("VERIF_SEED"), 10, 64)
	o := vlib.Create(out)
	defer o.Close()
	rd := vlib.SeededReader{R: vlib.Rng(seed, "tkn-reshape")}
	pp, sp, err := GenerateParams(rd)
	if err != nil {
		t.Fatal(err)
	}
	policy := &Policy{
		Inputs: []Wire{{"a", "", ToScalar(1), true}, {"b", "", ToScalar(2), true}, {"c", "", ToScalar(3), false}},
		F:      Formula{Gates: []Gate{{Andgate, 0, 1, 3}, {Andgate, 2, 3, 4}}},
	}
	attrs := &Attributes{"a": {Value: ToScalar(1)}, "b": {Value: ToScalar(2)}, "c": {Value: ToScalar(4)}}
	key, err := DeriveAttributeKeysCCA(rd, sp, attrs)
	if err != nil {
		t.Fatal(err)
	}
	msg := []byte("attack at dawn")
	ct, err := EncryptCCA(rd, pp, policy, msg)
	if err != nil {
		t.Fatal(err)
	}
	if pt, err := DecryptCCA(ct, key); err != nil || !bytes.Equal(pt, msg) {
		t.Fatalf("honest ciphertext does not decrypt: %v", err)
	}
	rest := ct[len(CiphertextVersion):]
	id, rest, err := removeLenPrefixed(rest)
	if err != nil {
		t.Fatal(err)
	}
	macData, rest, err := removeLen32Prefixed(rest)
	if err != nil {
		t.Fatal(err)
	}
	tag, _, err := removeLenPrefixed(rest)
	if err != nil {
		t.Fatal(err)
	}
	c1, envRaw, err := removeLen32Prefixed(macData)
	if err != nil {
		t.Fatal(err)
	}
	rebuild := func(hdr *ciphertextHeader) ([]byte, error) {
		c1New, err := hdr.marshalBinary()
		if err != nil {
			return nil, err
		}
		macNew := appendLen32Prefixed(nil, c1New)
		macNew = append(macNew, envRaw...)
		b := append([]byte{}, []byte(CiphertextVersion)...)
		b = appendLenPrefixed(b, id)
		b = appendLen32Prefixed(b, macNew)
		return appendLenPrefixed(b, tag), nil
	}
	decode := func() *ciphertextHeader {
		hdr := &ciphertextHeader{}
		if err := hdr.unmarshalBinary(c1); err != nil {
			t.Fatal(err)
		}
		return hdr
	}
	if b, err := rebuild(decode()); err != nil || !bytes.Equal(b, ct) {
		t.Fatal("re-encoding an honest ciphertext changed it")
	}
	g2 := func(orig *matrixG2, r, c int) *matrixG2 {
		m := newMatrixG2(r, c)
		for i := range m.entries {
			if len(orig.entries) > 0 {
				m.entries[i] = orig.entries[i%len(orig.entries)]
			}
		}
		return m
	}
	g1 := func(orig *matrixG1, r, c int) *matrixG1 {
		m := newMatrixG1(r, c)
		for i := range m.entries {
			if len(orig.entries) > 0 {
				m.entries[i] = orig.entries[i%len(orig.entries)]
			}
		}
		return m
	}
	shapes := [][2]int{{0, 0}, {0, 1}, {1, 0}, {1, 1}, {2, 1}, {3, 1}, {4, 1}, {5, 1}, {8, 1}, {1, 3}, {1, 4}, {3, 3}, {4, 2}, {3, 0}, {4, 4}, {2, 2}}
	try := func(comp string, r, c int, mutate func(h *ciphertextHeader) (int, int)) {
		l := reshapeLine{Ev: "reshape", Comp: comp, Rows: r, Cols: c}
		hdr := decode()
		or, oc := mutate(hdr)
		if or == r && oc == c {
			return // the honest shape
		}
		var mut []byte
		var err error
		if enc := vlib.Safe(60e9, func() { mut, err = rebuild(hdr) }); enc.Bad() {
			err = fmt.Errorf("the encoder itself panics: %s", enc.Panic)
		}
		if err != nil {
			l.Note = "not encodable: " + err.Error()
			o.Emit(l)
			return
		}
		res := vlib.Safe(60e9, func() {
			pt, err := DecryptCCA(mut, key)
			l.Accepted = err == nil
			_ = pt
		})
		if res.Bad() {
			l.Panics, l.Note = 1, res.Panic
		}
		o.Emit(l)
	}
	h0 := decode()
	for _, s := range shapes {
		r, c := s[0], s[1]
		try("c1", r, c, func(h *ciphertextHeader) (int, int) {
			or, oc := h.c1.rows, h.c1.cols
			h.c1 = g2(h.c1, r, c)
			return or, oc
		})
		for i := range h0.c2 {
			i := i
			try(fmt.Sprintf("c2[%d]", i), r, c, func(h *ciphertextHeader) (int, int) {
				or, oc := h.c2[i].rows, h.c2[i].cols
				h.c2[i] = g2(h.c2[i], r, c)
				return or, oc
			})
		}
		for i := range h0.c3 {
			i := i
			if h0.c3[i] == nil {
				continue
			}
			try(fmt.Sprintf("c3[%d]", i), r, c, func(h *ciphertextHeader) (int, int) {
				or, oc := h.c3[i].rows, h.c3[i].cols
				h.c3[i] = g1(h.c3[i], r, c)
				return or, oc
			})
		}
		for i := range h0.c3neg {
			i := i
			if h0.c3neg[i] == nil {
				continue
			}
			try(fmt.Sprintf("c3neg[%d]", i), r, c, func(h *ciphertextHeader) (int, int) {
				or, oc := h.c3neg[i].rows, h.c3neg[i].cols
				h.c3neg[i] = g1(h.c3neg[i], r, c)
				return or, oc
			})
		}
	}
	// and vectors of components of another LENGTH (one dropped, one repeated)
	try("c2-drop-last", -1, -1, func(h *ciphertextHeader) (int, int) { h.c2 = h.c2[:len(h.c2)-1]; return 0, 0 })
	try("c2-repeat-last", -1, -2, func(h *ciphertextHeader) (int, int) { h.c2 = append(h.c2, h.c2[len(h.c2)-1]); return 0, 0 })
	try("c3-drop-last", -1, -1, func(h *ciphertextHeader) (int, int) { h.c3 = h.c3[:len(h.c3)-1]; return 0, 0 })
	try("c3neg-drop-last", -1, -1, func(h *ciphertextHeader) (int, int) { h.c3neg = h.c3neg[:len(h.c3neg)-1]; return 0, 0 })
}
