//go:build (!purego && arm64) || (!purego && amd64)

package p384

// In-package recorder for C12: the Montgomery-form P-384 field used by the optimised back-end.

import (
	"math/big"
	"os"
	"strconv"
	"testing"

	"github.com/cloudflare/circl/zzverif/fieldrun"
	"github.com/cloudflare/circl/zzverif/vlib"
)

func TestVerifField(t *testing.T) {
	out := os.Getenv("VERIF_OUT")
	if out == "" {
		t.Skip()
	}
	seed, _ := strconv.ParseInt(os.Getenv("VERIF_SEED"), 10, 64)
	n, _ := strconv.Atoi(os.Getenv("VERIF_N"))
	var r [4]fp384
	P := p.BigInt()
	set := func(i int, v *big.Int) { var a fp384; a.SetBigInt(v); montEncode(&r[i], &a) }
	get := func(i int) *big.Int { var a fp384; montDecode(&a, &r[i]); return a.BigInt() }
	f := &fieldrun.Field{Name: "p384", Impl: "ecc/p384 fp384 " + os.Getenv("VERIF_IMPL"), P: P, Max: new(big.Int).Sub(P, big.NewInt(1)), NRegs: 4, Set: set, Get: get,
		Mul: func(z, x, y int) { fp384Mul(&r[z], &r[x], &r[y]) }, Add: func(z, x, y int) { fp384Add(&r[z], &r[x], &r[y]) },
		Sub: func(z, x, y int) { fp384Sub(&r[z], &r[x], &r[y]) }, Sqr: func(z, x int) { fp384Sqr(&r[z], &r[x]) },
		Neg: func(z, x int) { fp384Neg(&r[z], &r[x]) }, Inv: func(z, x int) { fp384Inv(&r[z], &r[x]) },
		Cmov: func(z, y int, b bool) { bb := 0; if b { bb = 1 }; fp384Cmov(&r[z], &r[y], bb) },
		InvZeroDefined: true, MontBits: 384}
	o := vlib.Create(out)
	defer o.Close()
	fieldrun.Run(f, vlib.Rng(seed, "p384"), n, func(e fieldrun.Event) { o.Emit(e) })
}
