package fourq

// In-package recorder for C12: fqSqrt, the square root of u/v in GF((2^127-1)^2) used by point decoding, for spec/C12/Trace_FqSqrt.tla.
// Operands are chosen so that u/v is a real residue, a real NON-residue (whose roots are purely imaginary), purely imaginary, zero, or
// general; each line carries a certificate w with w^2 = +-N(u)N(v) that tells TLC whether u/v is a square.

import (
	"math/big"
	"os"
	"strconv"
	"testing"

	"github.com/cloudflare/circl/zzverif/vlib"
)

type sqrtLine struct {
	Impl   string  `json:"impl"`
	Class  string  `json:"class"`
	U      [][]int `json:"u"`
	V      [][]int `json:"v"`
	S      int     `json:"s"`
	C      [][]int `json:"c"`
	W      []int   `json:"w"`
	Square bool    `json:"square"`
	Panics int     `json:"panics"`
	Note   string  `json:"note"`
}

func TestVerifSqrt(t *testing.T) {
	out := os.Getenv("VERIF_OUT")
	if out == "" {
		t.Skip()
	}
	seed, _ := strconv.ParseInt(os.Getenv("VERIF_SEED"), 10, 64)
	n, _ := strconv.Atoi(os.Getenv("VERIF_N"))
	impl := os.Getenv("VERIF_IMPL")
	P := vlib.FromLE(modulusP[:])
	rng := vlib.Rng(seed, "fourq-sqrt")
	o := vlib.Create(out)
	defer o.Close()
	mod := func(x *big.Int) *big.Int { return new(big.Int).Mod(x, P) }
	toFq := func(a [2]*big.Int) (z Fq) {
		copy(z[0][:], vlib.ToLE(a[0], SizeFp))
		copy(z[1][:], vlib.ToLE(a[1], SizeFp))
		return
	}
	dg := func(z *Fq) [][]int { return [][]int{vlib.Digits(vlib.FromLE(z[0][:])), vlib.Digits(vlib.FromLE(z[1][:]))} }
	mul := func(a, b [2]*big.Int) [2]*big.Int {
		return [2]*big.Int{mod(new(big.Int).Sub(new(big.Int).Mul(a[0], b[0]), new(big.Int).Mul(a[1], b[1]))),
			mod(new(big.Int).Add(new(big.Int).Mul(a[0], b[1]), new(big.Int).Mul(a[1], b[0])))}
	}
	norm := func(a [2]*big.Int) *big.Int {
		return mod(new(big.Int).Add(new(big.Int).Mul(a[0], a[0]), new(big.Int).Mul(a[1], a[1])))
	}
	rnd := func() *big.Int { return new(big.Int).Rand(rng, P) }
	qnr := func() *big.Int { // a real non-residue
		for {
			x := rnd()
			if big.Jacobi(x, P) == -1 {
				return x
			}
		}
	}
	zero, one := big.NewInt(0), big.NewInt(1)
	type tc struct {
		class string
		q     [2]*big.Int // the quotient u/v the case is built around
	}
	var cases []tc
	for _, d := range []int64{1, 2, 4, 3, 9, 16} {
		cases = append(cases, tc{"real non-residue", [2]*big.Int{mod(big.NewInt(-d)), zero}}) // -d : -1 is a non-residue (p = 3 mod 4), so -square is one
		cases = append(cases, tc{"real residue", [2]*big.Int{big.NewInt(d * d), zero}})
		cases = append(cases, tc{"purely imaginary", [2]*big.Int{zero, big.NewInt(d)}})
		cases = append(cases, tc{"purely imaginary", [2]*big.Int{zero, mod(big.NewInt(-d))}})
	}
	cases = append(cases, tc{"zero", [2]*big.Int{zero, zero}}, tc{"one", [2]*big.Int{one, zero}}, tc{"p as zero", [2]*big.Int{new(big.Int).Set(P), zero}})
	for i := 0; i < n; i++ {
		cases = append(cases, tc{"real non-residue", [2]*big.Int{qnr(), zero}}, tc{"real residue", [2]*big.Int{mod(new(big.Int).Mul(rnd(), rnd())), zero}},
			tc{"purely imaginary", [2]*big.Int{zero, rnd()}}, tc{"general", [2]*big.Int{rnd(), rnd()}}, tc{"general", [2]*big.Int{rnd(), rnd()}})
	}
	for ci, c := range cases {
		v := [2]*big.Int{one, zero}
		switch ci % 3 {
		case 1:
			v = [2]*big.Int{rnd(), rnd()}
		case 2:
			v = [2]*big.Int{rnd(), zero}
		}
		u := mul(c.q, v)
		if c.class == "p as zero" {
			u, v = c.q, [2]*big.Int{one, zero}
		}
		nn := mod(new(big.Int).Mul(norm(u), norm(v)))
		l := sqrtLine{Impl: impl, Class: c.class, S: 1 - 2*(ci%2), C: [][]int{}, W: []int{}}
		if w := new(big.Int).ModSqrt(nn, P); w != nil {
			l.Square, l.W = true, vlib.Digits(w)
		} else {
			l.W = vlib.Digits(new(big.Int).ModSqrt(mod(new(big.Int).Neg(nn)), P))
		}
		U, V := toFq(u), toFq(v)
		l.U, l.V = dg(&U), dg(&V)
		oc := vlib.Safe(60e9, func() {
			var Z Fq
			fqSqrt(&Z, &U, &V, l.S)
			l.C = dg(&Z)
		})
		if oc.Bad() {
			l.Panics, l.Note = 1, oc.Panic
		}
		o.Emit(l)
	}
}
