package fourq

// In-package recorder for C12: GF(2^127-1) and its quadratic extension GF(p^2) = Fp[i]/(i^2+1) of FourQ.
// Extension-field operations are recorded component by component (z0 = x0*y0 - x1*y1, z1 = x0*y1 + x1*y0).

import (
	"math/big"
	"os"
	"strconv"
	"testing"

	"github.com/cloudflare/circl/zzverif/fieldrun"
	"github.com/cloudflare/circl/zzverif/vlib"
)

func TestVerifField(t *testing.T) {
	out := os.Getenv("VERIF_OUT")
	if out == "" {
		t.Skip()
	}
	seed, _ := strconv.ParseInt(os.Getenv("VERIF_SEED"), 10, 64)
	n, _ := strconv.Atoi(os.Getenv("VERIF_N"))
	impl := os.Getenv("VERIF_IMPL")
	var r [6]Fp
	P := vlib.FromLE(modulusP[:])
	set := func(i int, v *big.Int) { copy(r[i][:], vlib.ToLE(v, SizeFp)) }
	get := func(i int) *big.Int { return vlib.FromLE(r[i][:]) }
	// elements as the package produces / accepts them: 0 .. p (p is the unreduced form of 0)
	f := &fieldrun.Field{Name: "fourq", Impl: "ecc/fourq Fp " + impl, P: P, Max: new(big.Int).Set(P), NRegs: 4, Set: set, Get: get,
		Mul: func(z, x, y int) { fpMul(&r[z], &r[x], &r[y]) }, Add: func(z, x, y int) { fpAdd(&r[z], &r[x], &r[y]) },
		Sub: func(z, x, y int) { fpSub(&r[z], &r[x], &r[y]) }, Sqr: func(z, x int) { fpSqr(&r[z], &r[x]) },
		Neg: func(z, x int) { fpNeg(&r[z], &r[x]) }, Inv: func(z, x int) { fpInv(&r[z], &r[x]) },
		Canon: func(z, x int) { r[z] = r[x]; fpMod(&r[z]) }, IsZero: func(x int) bool { return r[x].isZero() }, InvZeroDefined: true}
	o := vlib.Create(out)
	defer o.Close()
	rng := vlib.Rng(seed, "fourq")
	fieldrun.Run(f, rng, n, func(e fieldrun.Event) { o.Emit(e) })
	// halving and the extension field, 6 registers: x = (r0, r1), y = (r2, r3), z = (r4, r5)
	g := *f
	g.NRegs = 6
	st := fieldrun.Structured(P, P)
	pick := func() *big.Int {
		if rng.Intn(2) == 0 {
			return st[rng.Intn(len(st))]
		}
		return new(big.Int).Rand(rng, P)
	}
	// operand tuples whose product has a real part that is a small negative number, zero, or wraps past 2^127 (deterministic, every run)
	p2 := func(k uint) *big.Int { return new(big.Int).Lsh(big.NewInt(1), k) }
	pm := func(d int64) *big.Int { return new(big.Int).Sub(P, big.NewInt(d)) }
	var edges [][4]*big.Int
	for _, a1 := range []*big.Int{p2(126), p2(125), pm(0), pm(1), big.NewInt(1), new(big.Int).Add(p2(126), big.NewInt(1))} {
		for _, b1 := range []*big.Int{big.NewInt(2), big.NewInt(4), big.NewInt(1), pm(1), pm(0)} {
			for _, ab := range [][2]*big.Int{{big.NewInt(0), big.NewInt(7)}, {pm(2), big.NewInt(1)}, {big.NewInt(1), pm(1)}} {
				edges = append(edges, [4]*big.Int{ab[0], a1, ab[1], b1})
			}
		}
	}
	w := func(lo, hi uint64) *big.Int {
		return new(big.Int).Or(new(big.Int).SetUint64(lo), new(big.Int).Lsh(new(big.Int).SetUint64(hi), 64))
	}
	var sqEdges [][2]*big.Int
	for _, lo := range []uint64{0, 1, 5, 1 << 63, ^uint64(0)} {
		for _, h := range [][2]uint64{{1 << 32, 1<<63 - 1}, {0, 1}, {1, 2}, {0, 1<<63 - 1}, {1 << 62, 1<<62 + 1}, {7, 7}} {
			sqEdges = append(sqEdges, [2]*big.Int{w(lo, h[0]), w(lo, h[1])}, [2]*big.Int{w(lo, h[1]), w(lo, h[0])})
		}
	}
	ei := rng.Intn(len(edges))
	for i := 0; i < n; i++ {
		for k := 0; k < 6; k++ {
			set(k, pick())
		}
		if i%4 == 1 && i < 4*len(edges) {
			t := edges[(ei+i/4)%len(edges)]
			for k := 0; k < 4; k++ {
				set(k, t[k])
			}
		}
		if i%4 == 2 && i < 4*len(sqEdges) { // squaring: a0 < a1 with equal low words (a borrow has to cross the word boundary), and friends
			t := sqEdges[(ei+i/4)%len(sqEdges)]
			set(0, t[0])
			set(1, t[1])
		}
		pre := fieldrun.Snapshot(&g)
		v := func(k int) *big.Int { return get(k) }
		x0, x1, y0, y1 := v(0), v(1), v(2), v(3)
		kpp := new(big.Int).Lsh(new(big.Int).Mul(P, P), 40)
		switch i % 4 {
		case 0:
			e := fieldrun.NewEvent(&g, "hlf", 0, 0, 4, 0, 0)
			e.Pre = pre
			fpHlf(&r[4], &r[0])
			e.Post = fieldrun.Snapshot(&g)
			fieldrun.Hint(&g, &e, 0, new(big.Int).Add(v(4), v(4)), x0)
			o.Emit(e)
		case 1: // Fq multiplication, both components observed from ONE call
			var X, Y, Z Fq
			X[0], X[1], Y[0], Y[1] = r[0], r[1], r[2], r[3]
			fqMul(&Z, &X, &Y)
			r[4], r[5] = Z[0], Z[1]
			post := fieldrun.Snapshot(&g)
			e0 := fieldrun.NewEvent(&g, "mulsub", 0, 2, 4, 1, 3)
			e0.Pre, e0.Post = pre, clone(post)
			e0.Post[5] = pre[5] // this event speaks about component 0 only
			fieldrun.Hint(&g, &e0, 0, new(big.Int).Add(new(big.Int).Mul(x0, y0), new(big.Int).Sub(kpp, new(big.Int).Mul(x1, y1))), v(4))
			o.Emit(e0)
			e1 := fieldrun.NewEvent(&g, "muladd", 0, 3, 5, 1, 2)
			e1.Pre, e1.Post = pre, clone(post)
			e1.Post[4] = pre[4]
			fieldrun.Hint(&g, &e1, 0, new(big.Int).Add(new(big.Int).Mul(x0, y1), new(big.Int).Mul(x1, y0)), v(5))
			o.Emit(e1)
		case 2: // Fq squaring
			var X, Z Fq
			X[0], X[1] = r[0], r[1]
			fqSqr(&Z, &X)
			r[4], r[5] = Z[0], Z[1]
			post := fieldrun.Snapshot(&g)
			e0 := fieldrun.NewEvent(&g, "mulsub", 0, 0, 4, 1, 1)
			e0.Pre, e0.Post = pre, clone(post)
			e0.Post[5] = pre[5]
			fieldrun.Hint(&g, &e0, 0, new(big.Int).Add(new(big.Int).Mul(x0, x0), new(big.Int).Sub(kpp, new(big.Int).Mul(x1, x1))), v(4))
			o.Emit(e0)
			e1 := fieldrun.NewEvent(&g, "muladd", 0, 1, 5, 1, 0)
			e1.Pre, e1.Post = pre, clone(post)
			e1.Post[4] = pre[4]
			fieldrun.Hint(&g, &e1, 0, new(big.Int).Add(new(big.Int).Mul(x0, x1), new(big.Int).Mul(x1, x0)), v(5))
			o.Emit(e1)
		case 3: // Fq inversion: Z * X = 1, i.e. z0*x0 - z1*x1 = 1 and z0*x1 + z1*x0 = 0 ; recorded as two events over (x, z)
			var X, Z Fq
			X[0], X[1] = r[0], r[1]
			if X.isZero() {
				continue
			}
			x0, x1 = get(0), get(1) // isZero canonicalises
			pre = fieldrun.Snapshot(&g)
			fqInv(&Z, &X)
			r[2], r[3] = Z[0], Z[1]
			// check through a product computed by the spec: put 1 and 0 into r4, r5 and state them as results of mulsub / muladd
			set(4, big.NewInt(1))
			set(5, big.NewInt(0))
			mid := fieldrun.Snapshot(&g)
			pre2 := clone(mid)
			pre2[4], pre2[5] = pre[4], pre[5]
			z0, z1 := v(2), v(3)
			e0 := fieldrun.NewEvent(&g, "mulsub", 0, 2, 4, 1, 3)
			e0.Pre, e0.Post = pre2, clone(mid)
			e0.Post[5] = pre2[5]
			fieldrun.Hint(&g, &e0, 0, new(big.Int).Add(new(big.Int).Mul(x0, z0), new(big.Int).Sub(kpp, new(big.Int).Mul(x1, z1))), big.NewInt(1))
			o.Emit(e0)
			e1 := fieldrun.NewEvent(&g, "muladd", 0, 3, 5, 1, 2)
			e1.Pre, e1.Post = pre2, clone(mid)
			e1.Post[4] = pre2[4]
			fieldrun.Hint(&g, &e1, 0, new(big.Int).Add(new(big.Int).Mul(x0, z1), new(big.Int).Mul(x1, z0)), big.NewInt(0))
			o.Emit(e1)
		}
	}
}

func clone(a [][]int) [][]int { return append([][]int{}, a...) }
