---- MODULE Micro2 ----
EXTENDS Integers, Sequences, TLC, Bitwise
Q == 3329
VARIABLES a, b, n
Init == a = [i \in 0..255 |-> i] /\ b = [i \in 0..99 |-> i * 601 % 65536] /\ n = 0
Next == /\ n < 3000
        /\ n' = n + 1
        /\ a' = [i \in 0..255 |-> (a[i] * 17 + a[(i+128) % 256] + n) % Q]
        /\ b' = [i \in 0..99 |-> ((b[i] ^^ b[(i+5) % 100]) & 65535) | shiftR(b[(i+1)%100], 3)]
Spec == Init /\ [][Next]_<<a,b,n>>
====
