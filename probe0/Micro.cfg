
