SPECIFICATION Spec
CONSTANT MsgLen = 169
INVARIANT Show
CHECK_DEADLOCK FALSE
