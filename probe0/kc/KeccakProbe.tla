---- MODULE KeccakProbe ----
EXTENDS Integers, Sequences, TLC, Bitwise
\* lane = <<l1,l2,l3,l4>> 16-bit limbs, l1 least significant
M16 == 65535
Pow2(n) == 2^n
XorL(a, b) == <<a[1] ^^ b[1], a[2] ^^ b[2], a[3] ^^ b[3], a[4] ^^ b[4]>>
NotL(a) == <<M16 - a[1], M16 - a[2], M16 - a[3], M16 - a[4]>>
AndL(a, b) == <<a[1] & b[1], a[2] & b[2], a[3] & b[3], a[4] & b[4]>>
\* rotate left by n (0..63)
RotL(a, n) == LET w == n \div 16
                  b == n % 16
                  Get(i) == a[((((i - 1 - w) % 4) + 4) % 4) + 1]      \* limb i takes from limb i-w
                  Prev(i) == a[((((i - 2 - w) % 4) + 4) % 4) + 1]
                  Limb(i) == IF b = 0 THEN Get(i)
                             ELSE ((Get(i) % Pow2(16 - b)) * Pow2(b)) + shiftR(Prev(i), 16 - b)
              IN <<Limb(1), Limb(2), Limb(3), Limb(4)>>
RhoOff == <<0, 1, 62, 28, 27, 36, 44, 6, 55, 20, 3, 10, 43, 25, 39, 41, 45, 15, 21, 8, 18, 2, 61, 56, 14>>  \* index x+5y+1
RC == << <<1,0,0,0>>, <<32898,0,0,0>>, <<32906,0,0,32768>>, <<32768,32768,0,32768>>,
         <<32907,0,0,0>>, <<1,32768,0,0>>, <<32897,32768,0,32768>>, <<32777,0,0,32768>>,
         <<138,0,0,0>>, <<136,0,0,0>>, <<32777,32768,0,0>>, <<10,32768,0,0>>,
         <<32907,32768,0,0>>, <<139,0,0,32768>>, <<32905,0,0,32768>>, <<32771,0,0,32768>>,
         <<32770,0,0,32768>>, <<128,0,0,32768>>, <<32778,0,0,0>>, <<10,32768,0,32768>>,
         <<32897,32768,0,32768>>, <<32896,0,0,32768>>, <<1,32768,0,0>>, <<32776,32768,0,32768>> >>
Idx(x, y) == x + 5*y   \* 0-based index into 0..24
VARIABLES A, r, ph, cnt
Zero == <<0,0,0,0>>
Init == A = [i \in 0..24 |-> IF i = 0 THEN <<6, 0, 0, 0>> ELSE IF i = 20 THEN <<0,0,0,32768>> ELSE Zero]  \* placeholder
        /\ r = 1 /\ ph = "theta" /\ cnt = 0
Theta == /\ ph = "theta"
         /\ LET C == [x \in 0..4 |-> XorL(XorL(XorL(XorL(A[Idx(x,0)], A[Idx(x,1)]), A[Idx(x,2)]), A[Idx(x,3)]), A[Idx(x,4)])]
                D == [x \in 0..4 |-> XorL(C[(x+4)%5], RotL(C[(x+1)%5], 1))]
            IN A' = [i \in 0..24 |-> XorL(A[i], D[i % 5])]
         /\ ph' = "rhopi" /\ UNCHANGED <<r, cnt>>
RhoPi == /\ ph = "rhopi"
         \* B[y, 2x+3y] = rot(A[x,y], off[x,y])  => for target (X,Y): X = y, Y = (2x+3y)%5
         /\ A' = [j \in 0..24 |-> LET X == j % 5  Y == j \div 5
                                      \* find source (x,y) with y = X and (2x+3y)%5 = Y
                                      y == X
                                      x == CHOOSE xx \in 0..4 : ((2*xx + 3*y) % 5) = Y
                                  IN RotL(A[Idx(x,y)], RhoOff[Idx(x,y)+1])]
         /\ ph' = "chi" /\ UNCHANGED <<r, cnt>>
Chi == /\ ph = "chi"
       /\ A' = [j \in 0..24 |-> LET x == j % 5  y == j \div 5
                                    v == XorL(A[j], AndL(NotL(A[Idx((x+1)%5, y)]), A[Idx((x+2)%5, y)]))
                                IN IF j = 0 THEN XorL(v, RC[r]) ELSE v]
       /\ ph' = "theta"
       /\ IF r = 24 THEN r' = 1 /\ cnt' = cnt + 1 ELSE r' = r + 1 /\ cnt' = cnt
N == 300
Next == cnt < N /\ (Theta \/ RhoPi \/ Chi)
Spec == Init /\ [][Next]_<<A, r, ph, cnt>>
Done == cnt = 1 /\ r = 1 /\ ph = "theta"
ShowInv == Done => PrintT(<<"after1", A[0], A[1]>>)
====
