SPECIFICATION Spec
INVARIANT ShowInv
CHECK_DEADLOCK FALSE
