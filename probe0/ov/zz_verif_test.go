package common

import "testing"

func TestVerifProbe(t *testing.T) {
	bad := 0
	for x := -32768; x <= 32767; x++ {
		r := barrettReduce(int16(x))
		if r < 0 || r > 3329 || (int(r)-x)%3329 != 0 {
			bad++
		}
	}
	t.Logf("bad=%d", bad)
}
