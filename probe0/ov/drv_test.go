package drv

import (
	"testing"

	"github.com/cloudflare/circl/internal/sha3"
	"github.com/cloudflare/circl/hpke"
)

func TestDrv(t *testing.T) {
	h := sha3.New256()
	h.Write([]byte("abc"))
	var o [32]byte
	h.Read(o[:])
	t.Logf("%x %v", o[:4], hpke.KEM_XWING.IsValid())
}
