---- MODULE PureCalls ----
EXTENDS Integers, Sequences, Json, TLC
Tr == ndJsonDeserialize("trace.ndjson")
VARIABLES val, memo, l
Cur == Tr[l]
TInit == l = 1 /\ val = <<>> /\ memo = <<>>
Start == l = 1 /\ Cur.op = "init" /\ val' = Cur.post /\ memo' = memo /\ l' = 2
Call == /\ l > 1 /\ l <= Len(Tr)
        /\ LET key == <<Cur.op, Cur.args>>
           IN /\ (key \in DOMAIN memo => memo[key] = Cur.res)          \* determinism in explicit arguments
              /\ memo' = IF key \in DOMAIN memo THEN memo ELSE (key :> Cur.res) @@ memo
        /\ \A o \in 1..Len(val) : o # Cur.recv => Cur.post[o] = val[o]  \* frame: only the receiver changes
        /\ Cur.post[Cur.recv] = Cur.res
        /\ val' = Cur.post /\ l' = l + 1
Next == Start \/ Call
Spec == TInit /\ [][Next]_<<val, memo, l>>
ASSUME TLCSet(1, 0)
HighWater == TLCSet(1, IF l > TLCGet(1) THEN l ELSE TLCGet(1))
Accepted == IF TLCGet(1) = Len(Tr) + 1 THEN TRUE ELSE PrintT(<<"REJECTED at line", TLCGet(1), Tr[TLCGet(1)]>>) /\ FALSE
====
