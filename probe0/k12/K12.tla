---- MODULE K12 ----
EXTENDS Integers, Sequences, TLC, Bitwise
\* lane = <<l1,l2,l3,l4>> 16-bit limbs, l1 least significant
M16 == 65535
Pow2(n) == 2^n
XorL(a, b) == <<a[1] ^^ b[1], a[2] ^^ b[2], a[3] ^^ b[3], a[4] ^^ b[4]>>
NotL(a) == <<M16 - a[1], M16 - a[2], M16 - a[3], M16 - a[4]>>
AndL(a, b) == <<a[1] & b[1], a[2] & b[2], a[3] & b[3], a[4] & b[4]>>
\* rotate left by n (0..63)
RotL(a, n) == LET w == n \div 16
                  b == n % 16
                  Get(i) == a[((((i - 1 - w) % 4) + 4) % 4) + 1]      \* limb i takes from limb i-w
                  Prev(i) == a[((((i - 2 - w) % 4) + 4) % 4) + 1]
                  Limb(i) == IF b = 0 THEN Get(i)
                             ELSE ((Get(i) % Pow2(16 - b)) * Pow2(b)) + shiftR(Prev(i), 16 - b)
              IN <<Limb(1), Limb(2), Limb(3), Limb(4)>>
RhoOff == <<0, 1, 62, 28, 27, 36, 44, 6, 55, 20, 3, 10, 43, 25, 39, 41, 45, 15, 21, 8, 18, 2, 61, 56, 14>>  \* index x+5y+1
RC == << <<1,0,0,0>>, <<32898,0,0,0>>, <<32906,0,0,32768>>, <<32768,32768,0,32768>>,
         <<32907,0,0,0>>, <<1,32768,0,0>>, <<32897,32768,0,32768>>, <<32777,0,0,32768>>,
         <<138,0,0,0>>, <<136,0,0,0>>, <<32777,32768,0,0>>, <<10,32768,0,0>>,
         <<32907,32768,0,0>>, <<139,0,0,32768>>, <<32905,0,0,32768>>, <<32771,0,0,32768>>,
         <<32770,0,0,32768>>, <<128,0,0,32768>>, <<32778,0,0,0>>, <<10,32768,0,32768>>,
         <<32897,32768,0,32768>>, <<32896,0,0,32768>>, <<1,32768,0,0>>, <<32776,32768,0,32768>> >>
Idx(x, y) == x + 5*y   \* 0-based index into 0..24

CONSTANT MsgLen
CHUNK == 8192
Msg == [i \in 1..MsgLen |-> (i * 7 + 3) % 256]
RECURSIVE BEBytes(_)
BEBytes(x) == IF x = 0 THEN <<>> ELSE BEBytes(x \div 256) \o <<x % 256>>
RightEncode(x) == LET b == BEBytes(x) IN b \o <<Len(b)>>
Custom == <<>>
S == Msg \o Custom \o RightEncode(Len(Custom))
NChunks == IF Len(S) = 0 THEN 1 ELSE ((Len(S) - 1) \div CHUNK) + 1
ChunkOf(i) == SubSeq(S, i*CHUNK + 1, IF (i+1)*CHUNK < Len(S) THEN (i+1)*CHUNK ELSE Len(S))
\* program: leaves 1..n-1 then final
Prog == [i \in 1..NChunks |-> IF i < NChunks THEN i ELSE 0] \o <<-1>>   \* leaf index, 0 = final, -1 = done
VARIABLES A, r, ph, blk, outacc, pc, res
vars == <<A, r, ph, blk, outacc, pc, res>>
RECURSIVE CVs(_)
CVs(i) == IF i >= NChunks THEN <<>> ELSE res[i] \o CVs(i + 1)
Job == LET n == Prog[pc] IN
  IF n > 0 THEN [rate |-> 168, ds |-> 11, in |-> ChunkOf(n), outlen |-> 32]
  ELSE IF NChunks = 1 THEN [rate |-> 168, ds |-> 7, in |-> S, outlen |-> 32]
  ELSE [rate |-> 168, ds |-> 6, in |-> ChunkOf(0) \o <<3,0,0,0,0,0,0,0>> \o CVs(1) \o RightEncode(NChunks - 1) \o <<255, 255>>, outlen |-> 32]
PadLen(J) == ((Len(J.in) \div J.rate) + 1) * J.rate
PadByte(J, i) == LET b == IF i <= Len(J.in) THEN J.in[i] ELSE IF i = Len(J.in) + 1 THEN J.ds ELSE 0
                 IN IF i = PadLen(J) THEN (b ^^ 128) ELSE b
NBlocks(J) == PadLen(J) \div J.rate
BlockLane(J, k, j) == [t \in 1..4 |-> PadByte(J, k*J.rate + 8*j + 2*(t-1) + 1) + 256 * PadByte(J, k*J.rate + 8*j + 2*(t-1) + 2)]
Zero == <<0,0,0,0>>
R0 == 13     \* Keccak-p[1600,12]: last 12 round constants
StateBytes(n) == [i \in 1..n |-> LET j == (i-1) \div 8  t == ((i-1) % 8) \div 2
                                 IN IF ((i-1) % 2) = 0 THEN A[j][t+1] % 256 ELSE A[j][t+1] \div 256]
Absorb == /\ Prog[pc] >= 0 /\ ph = "absorb"
          /\ LET J == Job IN A' = [i \in 0..24 |-> IF i < (J.rate \div 8) THEN XorL(A[i], LET bl == BlockLane(J, blk, i) IN <<bl[1],bl[2],bl[3],bl[4]>>) ELSE A[i]]
          /\ ph' = "theta" /\ r' = R0 /\ UNCHANGED <<blk, outacc, pc, res>>
Theta == /\ ph = "theta"
         /\ LET C == [x \in 0..4 |-> XorL(XorL(XorL(XorL(A[Idx(x,0)], A[Idx(x,1)]), A[Idx(x,2)]), A[Idx(x,3)]), A[Idx(x,4)])]
                D == [x \in 0..4 |-> XorL(C[(x+4)%5], RotL(C[(x+1)%5], 1))]
            IN A' = [i \in 0..24 |-> XorL(A[i], D[i % 5])]
         /\ ph' = "rhopi" /\ UNCHANGED <<r, blk, outacc, pc, res>>
RhoPi == /\ ph = "rhopi"
         /\ A' = [j \in 0..24 |-> LET X == j % 5  Y == j \div 5
                                      y == X
                                      x == CHOOSE xx \in 0..4 : ((2*xx + 3*y) % 5) = Y
                                  IN RotL(A[Idx(x,y)], RhoOff[Idx(x,y)+1])]
         /\ ph' = "chi" /\ UNCHANGED <<r, blk, outacc, pc, res>>
Chi == /\ ph = "chi"
       /\ A' = [j \in 0..24 |-> LET x == j % 5  y == j \div 5
                                    v == XorL(A[j], AndL(NotL(A[Idx((x+1)%5, y)]), A[Idx((x+2)%5, y)]))
                                IN IF j = 0 THEN XorL(v, RC[r]) ELSE v]
       /\ IF r = 24 THEN /\ r' = R0 /\ blk' = blk + 1
                         /\ ph' = (IF blk + 1 < NBlocks(Job) THEN "absorb" ELSE "squeeze")
                    ELSE r' = r + 1 /\ blk' = blk /\ ph' = "theta"
       /\ UNCHANGED <<outacc, pc, res>>
Squeeze == /\ ph = "squeeze"
           /\ LET J == Job
                  acc == outacc \o StateBytes(J.rate)
              IN /\ res' = (Prog[pc] :> SubSeq(acc, 1, J.outlen)) @@ res
                 /\ pc' = pc + 1 /\ outacc' = <<>> /\ blk' = 0 /\ ph' = "absorb" /\ r' = R0
                 /\ A' = [i \in 0..24 |-> Zero]
Init == /\ A = [i \in 0..24 |-> Zero] /\ r = R0 /\ ph = "absorb" /\ blk = 0 /\ outacc = <<>> /\ pc = 1 /\ res = <<>>
Next == Absorb \/ Theta \/ RhoPi \/ Chi \/ Squeeze
Spec == Init /\ [][Next]_vars
Show == (Prog[pc] = -1) => PrintT(<<"OUT", MsgLen, res[0]>>)
====
