SPECIFICATION Spec
CONSTANT MsgLen = 16385
INVARIANT Show
CHECK_DEADLOCK FALSE
