#!/bin/sh
# $1 = part file
d=$(mktemp -d /dev/shm/fpw.XXXXXX)
cp FieldTrace.tla FieldTrace.cfg $d/ && cp $1 $d/trace.ndjson && cd $d && timeout 600 java -Xmx2g -XX:+UseParallelGC -XX:ParallelGCThreads=2 -XX:CICompilerCount=2 -cp /opt/veriftools/tla/tla2tools.jar:/opt/veriftools/tla/CommunityModules-deps.jar tlc2.TLC -workers 1 -metadir $d/md FieldTrace.tla 2>&1 | grep -E "REJECTED|^<<|states generated" | tr '\n' ' '; echo " [$1]"; rm -rf $d
