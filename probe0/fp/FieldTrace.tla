---- MODULE FieldTrace ----
EXTENDS Integers, Sequences, Json, TLC
B == 4096
Max(a,b) == IF a > b THEN a ELSE b
Min(a,b) == IF a < b THEN a ELSE b
RECURSIVE SumR(_,_,_,_,_)
SumR(x, y, k, i, hi) == IF i > hi THEN 0 ELSE x[i] * y[k - i + 1] + SumR(x, y, k, i + 1, hi)
Col(x, y, k) == SumR(x, y, k, Max(1, k - Len(y) + 1), Min(k, Len(x)))
RECURSIVE MulC(_,_,_,_,_)
MulC(x, y, k, c, acc) == IF k > Len(x) + Len(y) THEN acc
                         ELSE LET t == (IF k < Len(x) + Len(y) THEN Col(x, y, k) ELSE 0) + c
                              IN MulC(x, y, k + 1, t \div B, Append(acc, t % B))
Mul(x, y) == MulC(x, y, 1, 0, <<>>)
RECURSIVE AddC(_,_,_,_,_)
AddC(x, y, k, c, acc) == IF k > Max(Len(x), Len(y)) THEN (IF c = 0 THEN acc ELSE Append(acc, c))
   ELSE LET t == (IF k <= Len(x) THEN x[k] ELSE 0) + (IF k <= Len(y) THEN y[k] ELSE 0) + c
        IN AddC(x, y, k + 1, t \div B, Append(acc, t % B))
Add(x, y) == AddC(x, y, 1, 0, <<>>)
RECURSIVE SubC(_,_,_,_,_)      \* x - y, requires x >= y; returns <<digits, borrowOut>>
SubC(x, y, k, b, acc) == IF k > Max(Len(x), Len(y)) THEN <<acc, b>>
   ELSE LET t == (IF k <= Len(x) THEN x[k] ELSE 0) - (IF k <= Len(y) THEN y[k] ELSE 0) - b
        IN IF t < 0 THEN SubC(x, y, k + 1, 1, Append(acc, t + B)) ELSE SubC(x, y, k + 1, 0, Append(acc, t))
RECURSIVE Norm(_)
Norm(x) == IF Len(x) > 0 /\ x[Len(x)] = 0 THEN Norm(SubSeq(x, 1, Len(x)-1)) ELSE x
Eq(x, y) == Norm(x) = Norm(y)
Less(x, y) == SubC(x, y, 1, 0, <<>>)[2] = 1          \* x < y iff x - y borrows
\* p = 2^255 - 19 in base 4096: 2^255 = 2^(12*21+3) -> limb 22 = 8 ; minus 19
P == [i \in 1..22 |-> IF i = 1 THEN 4096 - 19 ELSE IF i = 22 THEN 7 ELSE 4095]
P8 == Mul(P, <<8>>)
Tr == ndJsonDeserialize("trace.ndjson")
Exact(e) == CASE e.op = "mul" -> Mul(e.x, e.y)
              [] e.op = "sqr" -> Mul(e.x, e.x)
              [] e.op = "add" -> Add(e.x, e.y)
              [] e.op = "sub" -> Add(e.x, SubC(P8, e.y, 1, 0, <<>>)[1])
\* residues equal: exact = qa*p + r  and  z = qb*p + r  with r < p   (qa, qb untrusted hints)
Ok(e) == LET ex == Exact(e)
             ra == SubC(ex, Mul(e.qa, P), 1, 0, <<>>)
             rb == SubC(e.z, Mul(e.qb, P), 1, 0, <<>>)
         IN ra[2] = 0 /\ rb[2] = 0 /\ Eq(ra[1], rb[1]) /\ Less(Norm(ra[1]), P)
VARIABLE l
Init == l = 1
Next == l <= Len(Tr) /\ Ok(Tr[l]) /\ l' = l + 1
Spec == Init /\ [][Next]_l
ASSUME TLCSet(1, 0)
HighWater == TLCSet(1, IF l > TLCGet(1) THEN l ELSE TLCGet(1))
Accepted == IF TLCGet(1) = Len(Tr) + 1 THEN TRUE ELSE PrintT(<<"REJECTED at line", TLCGet(1), Tr[TLCGet(1)]>>) /\ FALSE
====
