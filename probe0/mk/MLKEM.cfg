SPECIFICATION Spec
INVARIANT Show
CHECK_DEADLOCK FALSE
