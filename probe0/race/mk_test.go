package drv

import (
	"fmt"
	"strings"
	"testing"

	"github.com/cloudflare/circl/kem/mlkem/mlkem512"
)

func j(b []byte) string {
	var sb []string
	for _, x := range b {
		sb = append(sb, fmt.Sprint(int(x)))
	}
	return strings.Join(sb, ",")
}

func TestMK(t *testing.T) {
	seed := make([]byte, 64)
	for i := 1; i <= 32; i++ {
		seed[i-1] = byte((i*11 + 5) % 256)
		seed[32+i-1] = byte((i*13 + 1) % 256)
	}
	pk, sk := mlkem512.NewKeyFromSeed(seed)
	var ek [mlkem512.PublicKeySize]byte
	var dk [mlkem512.PrivateKeySize]byte
	pk.Pack(ek[:])
	sk.Pack(dk[:])
	fmt.Printf("GOEK %s\n", j(ek[:]))
	fmt.Printf("GODKPKE %s\n", j(dk[:768]))
	fmt.Printf("GOH %s\n", j(dk[768+800:768+800+32]))
}
