package drv

import (
	"fmt"
	"strings"
	"testing"

	"github.com/cloudflare/circl/internal/sha3"
)

func TestShk(t *testing.T) {
	for _, n := range []int{0, 1, 167, 168, 169} {
		msg := make([]byte, n)
		for i := 1; i <= n; i++ {
			msg[i-1] = byte((i*7 + 3) % 256)
		}
		h := sha3.NewShake128()
		h.Write(msg)
		out := make([]byte, 32)
		h.Read(out)
		var sb []string
		for _, b := range out {
			sb = append(sb, fmt.Sprint(b))
		}
		fmt.Printf("GO %d <<%s>>\n", n, strings.Join(sb, ","))
	}
}
