package drv

import (
	"fmt"
	"testing"

	"github.com/cloudflare/circl/sign/mldsa/mldsa44"
)

func TestMD(t *testing.T) {
	var seed [32]byte
	for i := 1; i <= 32; i++ {
		seed[i-1] = byte((i*19 + 7) % 256)
	}
	pk, sk := mldsa44.NewKeyFromSeed(&seed)
	fmt.Printf("GOPK %s\n", j(pk.Bytes()))
	fmt.Printf("GOSK %s\n", j(sk.Bytes()))
}
