package drv

import (
	"encoding/json"
	"math/big"
	"math/rand"
	"os"
	"testing"

	fp "github.com/cloudflare/circl/math/fp25519"
)

func limbs(x *big.Int, n int) []int {
	out := make([]int, n)
	t := new(big.Int).Set(x)
	m := big.NewInt(4095)
	for i := 0; i < n; i++ {
		out[i] = int(new(big.Int).And(t, m).Int64())
		t.Rsh(t, 12)
	}
	return out
}

func le(b []byte) *big.Int {
	r := make([]byte, len(b))
	for i := range b {
		r[len(b)-1-i] = b[i]
	}
	return new(big.Int).SetBytes(r)
}

var edge = []uint64{0, 1, 2, 18, 19, 20, 37, 38, 39, 0xffffffff, 0x100000000, 1 << 63, ^uint64(0) - 38, ^uint64(0) - 19, ^uint64(0) - 18, ^uint64(0) - 1, ^uint64(0), 0x7fffffffffffffff}

func randElt(r *rand.Rand) fp.Elt {
	var e fp.Elt
	for w := 0; w < 4; w++ {
		var v uint64
		if r.Intn(3) == 0 {
			v = r.Uint64()
		} else {
			v = edge[r.Intn(len(edge))]
		}
		for b := 0; b < 8; b++ {
			e[8*w+b] = byte(v >> (8 * b))
		}
	}
	return e
}

func TestFp(t *testing.T) {
	p := new(big.Int).Sub(new(big.Int).Lsh(big.NewInt(1), 255), big.NewInt(19))
	f, _ := os.Create("/tmp/probe/fp/trace.ndjson")
	defer f.Close()
	enc := json.NewEncoder(f)
	r := rand.New(rand.NewSource(3))
	var S []fp.Elt
	one := big.NewInt(1)
	add := func(v *big.Int) {
		v = new(big.Int).And(v, new(big.Int).Sub(new(big.Int).Lsh(one, 256), one))
		var e fp.Elt
		b := v.Bytes()
		for i := range b {
			e[i] = b[len(b)-1-i]
		}
		S = append(S, e)
	}
	for _, k := range []uint{0, 1, 2, 63, 64, 65, 127, 128, 129, 191, 192, 193, 254, 255, 256} {
		for d := int64(-2); d <= 2; d++ {
			add(new(big.Int).Add(new(big.Int).Lsh(one, k), big.NewInt(d)))
		}
	}
	for m := int64(1); m <= 2; m++ {
		for d := int64(-2); d <= 2; d++ {
			add(new(big.Int).Add(new(big.Int).Mul(big.NewInt(m), p), big.NewInt(d)))
		}
	}
	for _, c := range []int64{3, 19, 37, 38, 39, 76} {
		add(big.NewInt(c))
	}
	t.Logf("structured set size %d", len(S))
	for i := 0; i < len(S)*len(S); i++ {
		x, y := S[i/len(S)], S[i%len(S)]
		var z fp.Elt
		op := []string{"mul", "add", "sub", "sqr"}[r.Intn(4)]
		X, Y := le(x[:]), le(y[:])
		var exact *big.Int
		switch op {
		case "mul":
			fp.Mul(&z, &x, &y)
			exact = new(big.Int).Mul(X, Y)
		case "add":
			fp.Add(&z, &x, &y)
			exact = new(big.Int).Add(X, Y)
		case "sub":
			fp.Sub(&z, &x, &y)
			// x - y + 4p*2 to stay non-negative: use x + (8p - y)
			exact = new(big.Int).Add(X, new(big.Int).Sub(new(big.Int).Mul(big.NewInt(8), p), Y))
		case "sqr":
			fp.Sqr(&z, &x)
			exact = new(big.Int).Mul(X, X)
			y = x
		}
		Z := le(z[:])
		qa, ra := new(big.Int).DivMod(exact, p, new(big.Int))
		qb := new(big.Int).Div(Z, p)
		_ = ra
		enc.Encode(map[string]interface{}{"op": op, "x": limbs(X, 22), "y": limbs(Y, 22), "z": limbs(Z, 22), "qa": limbs(qa, 23), "qb": limbs(qb, 2)})
	}
}
