package drv

import (
	"math/big"
	"testing"

	"github.com/cloudflare/circl/ecc/bls12381"
)

func TestG1(t *testing.T) {
	p, _ := new(big.Int).SetString("1a0111ea397fe69a4b1ba7b6434bacd764774b84f38512bf6730d2a0f6b0f6241eabfffeb153ffffb9feffffffffaaab", 16)
	acc, rej, on := 0, 0, 0
	for xi := int64(1); xi < 200; xi++ {
		x := big.NewInt(xi)
		rhs := new(big.Int).Exp(x, big.NewInt(3), p)
		rhs.Add(rhs, big.NewInt(4)).Mod(rhs, p)
		y := new(big.Int).ModSqrt(rhs, p)
		if y == nil {
			continue
		}
		on++
		enc := x.FillBytes(make([]byte, 48))
		enc[0] |= 0x80 // compressed
		half := new(big.Int).Rsh(p, 1)
		if y.Cmp(half) > 0 {
			enc[0] |= 0x20
		}
		var g bls12381.G1
		if err := g.SetBytes(enc); err == nil {
			acc++
		} else {
			rej++
		}
	}
	t.Logf("on-curve small-x points: %d, accepted (in subgroup): %d, rejected: %d", on, acc, rej)
	// non-canonical: x + p does not fit 381 bits w/ flags? coordinate >= p
	g := bls12381.G1Generator().BytesCompressed()
	gx := new(big.Int).SetBytes(append([]byte{g[0] & 0x1f}, g[1:]...))
	xp := new(big.Int).Add(gx, p)
	if xp.BitLen() <= 381 {
		e := xp.FillBytes(make([]byte, 48))
		e[0] |= g[0] & 0xe0
		var q bls12381.G1
		t.Logf("x+p encoding accepted: %v", q.SetBytes(e) == nil)
	} else {
		t.Logf("x+p does not fit (bitlen %d)", xp.BitLen())
	}
	// infinity with stray bits
	inf := make([]byte, 48)
	inf[0] = 0xc0
	var q bls12381.G1
	e1 := q.SetBytes(inf)
	inf[47] = 1
	e2 := q.SetBytes(inf)
	inf[47] = 0
	inf[0] = 0xe0
	e3 := q.SetBytes(inf)
	t.Logf("infinity ok=%v, infinity+payload ok=%v, infinity+sign ok=%v", e1 == nil, e2 == nil, e3 == nil)
}
