package drv

import (
	"fmt"
	"testing"

	"github.com/cloudflare/circl/kem/mlkem/mlkem512"
)

func TestMK2(t *testing.T) {
	seed := make([]byte, 64)
	m := make([]byte, 32)
	for i := 1; i <= 32; i++ {
		seed[i-1] = byte((i*11 + 5) % 256)
		seed[32+i-1] = byte((i*13 + 1) % 256)
		m[i-1] = byte((i*17 + 9) % 256)
	}
	pk, _ := mlkem512.NewKeyFromSeed(seed)
	ct := make([]byte, mlkem512.CiphertextSize)
	ss := make([]byte, 32)
	pk.EncapsulateTo(ct, ss, m)
	fmt.Printf("GOCT %s\n", j(ct))
	fmt.Printf("GOK %s\n", j(ss))
}
