package drv

import (
	"crypto/rand"
	"fmt"
	"testing"

	"github.com/cloudflare/circl/abe/cpabe/tkn20"
)

func TestTK(t *testing.T) {
	pk, msk, _ := tkn20.Setup(rand.Reader)
	var pol tkn20.Policy
	pol.FromString("(a:x and b:y) or not c:z")
	ct, _ := pk.Encrypt(rand.Reader, pol, []byte("hello"))
	var at tkn20.Attributes
	at.FromMap(map[string]string{"a": "x", "b": "y"})
	key, _ := msk.KeyGen(rand.Reader, at)
	pans := map[string]int{}
	first := map[string]string{}
	// mutate every 2-byte window to ffff / 0000 and every single byte to ff
	for i := 0; i+1 < len(ct); i++ {
		for _, v := range [][2]byte{{0xff, 0xff}, {0, 0}, {0xff, 0x7f}, {1, 0}} {
			c := append([]byte{}, ct...)
			c[i], c[i+1] = v[0], v[1]
			for name, f := range map[string]func(){
				"Decrypt":               func() { key.Decrypt(c) },
				"ExtractFromCiphertext": func() { new(tkn20.Policy).ExtractFromCiphertext(c) },
				"CouldDecrypt":          func() { at.CouldDecrypt(c) },
			} {
				func() {
					defer func() {
						if r := recover(); r != nil {
							pans[name]++
							if _, ok := first[name]; !ok {
								first[name] = fmt.Sprintf("offset %d <- %x: %v", i, v, r)
							}
						}
					}()
					f()
				}()
			}
		}
	}
	t.Logf("ct len %d; panics: %v", len(ct), pans)
	for k, v := range first {
		t.Logf("first %s: %s", k, v)
	}
}
