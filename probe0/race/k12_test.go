package drv

import (
	"fmt"
	"strings"
	"testing"

	"github.com/cloudflare/circl/xof/k12"
)

func TestK12p(t *testing.T) {
	for _, n := range []int{0, 1, 8191, 8192, 8193, 16385} {
		msg := make([]byte, n)
		for i := 1; i <= n; i++ {
			msg[i-1] = byte((i*7 + 3) % 256)
		}
		out := make([]byte, 32)
		k12.Draft10Sum(out, msg, nil)
		var sb []string
		for _, b := range out {
			sb = append(sb, fmt.Sprint(b))
		}
		fmt.Printf("\"OUT\",%d,<<%s>>\n", n, strings.Join(sb, ","))
	}
}
