package drv

import (
	"crypto/rand"
	"testing"
	"time"

	"github.com/cloudflare/circl/abe/cpabe/tkn20"
)

func TestABE(t *testing.T) {
	pk, msk, _ := tkn20.Setup(rand.Reader)
	cases := []struct {
		pol  string
		attr map[string]string
	}{
		{"not (a:x or b:y)", map[string]string{"a": "z", "b": "z"}},
		{"not (a:x or b:y)", map[string]string{"a": "z"}},
		{"not (a:x or b:y)", map[string]string{"a": "x", "b": "z"}},
		{"not not a:x", map[string]string{"a": "x"}},
		{"not not a:x", map[string]string{"a": "y"}},
		{"a:x and a:y", map[string]string{"a": "x"}},
		{"a:x or a:y", map[string]string{"a": "y"}},
		{"not a:x and not a:y", map[string]string{"a": "z"}},
		{"not a:x and not a:y", map[string]string{"a": "x"}},
		{"not (a:x and (b:y or not a:y))", map[string]string{"a": "y", "b": "q"}},
		{"not (a:x and (b:y or not a:y))", map[string]string{"a": "x", "b": "y"}},
		{"a:x", map[string]string{}},
		{"not a:x", map[string]string{}},
		{"(a:x)", map[string]string{"a": "x"}},
		{"a:x and b:y or a:y", map[string]string{"a": "y"}},
	}
	for _, c := range cases {
		var p tkn20.Policy
		if err := p.FromString(c.pol); err != nil {
			t.Logf("%q parse error %v", c.pol, err)
			continue
		}
		var a tkn20.Attributes
		a.FromMap(c.attr)
		t0 := time.Now()
		ct, err := pk.Encrypt(rand.Reader, p, []byte("msg"))
		te := time.Since(t0)
		if err != nil {
			t.Logf("%q enc error %v", c.pol, err)
			continue
		}
		t0 = time.Now()
		k, _ := msk.KeyGen(rand.Reader, a)
		tk := time.Since(t0)
		t0 = time.Now()
		pt, derr := k.Decrypt(ct)
		td := time.Since(t0)
		t.Logf("%-36q %-18v sat=%-5v could=%-5v dec=%-5v(%q) str=%q enc=%v kg=%v dec=%v", c.pol, c.attr, p.Satisfaction(a), a.CouldDecrypt(ct), derr == nil, pt, p.String(), te.Round(time.Millisecond), tk.Round(time.Millisecond), td.Round(time.Millisecond))
	}
}
