package drv

import (
	"crypto/elliptic"
	"encoding/json"
	"math/big"
	"os"
	"testing"

	"github.com/cloudflare/circl/ecc/p384"
)

func lim(x *big.Int, n int) []int {
	out := make([]int, n)
	t := new(big.Int).Set(x)
	m := big.NewInt(4095)
	for i := 0; i < n; i++ {
		out[i] = int(new(big.Int).And(t, m).Int64())
		t.Rsh(t, 12)
	}
	return out
}

type pt struct{ x, y *big.Int }

func TestGM(t *testing.T) {
	c := p384.P384()
	L := c.Params().N
	f, _ := os.Create("/tmp/probe/gm/trace.ndjson")
	defer f.Close()
	enc := json.NewEncoder(f)
	regs := map[int]pt{}
	forms := map[int]*big.Int{} // only to compute hints (untrusted)
	emit := func(m map[string]interface{}) { enc.Encode(m) }
	scal := []*big.Int{big.NewInt(0), big.NewInt(1), big.NewInt(2), big.NewInt(5), new(big.Int).Sub(L, big.NewInt(1)), new(big.Int).Set(L), new(big.Int).Add(L, big.NewInt(1)),
		new(big.Int).Sub(new(big.Int).Lsh(big.NewInt(1), 384), big.NewInt(1)), new(big.Int).Lsh(big.NewInt(1), 383), big.NewInt(0x12345678)}
	// base mults
	for i, k := range scal {
		x, y := c.ScalarBaseMult(k.FillBytes(make([]byte, 48)))
		regs[i] = pt{x, y}
		q, r := new(big.Int).DivMod(k, L, new(big.Int))
		forms[i] = r
		emit(map[string]interface{}{"op": "base", "dst": i, "k": lim(k, 33), "q": lim(q, 2), "form": lim(r, 32)})
	}
	n := len(scal)
	// combined mult: dst = m*G + nn*Q for Q = reg j
	id := n
	for j := 0; j < n; j++ {
		if regs[j].x.Sign() == 0 && regs[j].y.Sign() == 0 {
			continue // skip identity as input point
		}
		for _, mm := range []*big.Int{big.NewInt(5), big.NewInt(0), scal[4]} {
			for _, nn := range []*big.Int{big.NewInt(5), big.NewInt(1), scal[4]} {
				x, y := c.CombinedMult(regs[j].x, regs[j].y, mm.FillBytes(make([]byte, 48)), nn.FillBytes(make([]byte, 48)))
				regs[id] = pt{x, y}
				e := new(big.Int).Add(mm, new(big.Int).Mul(nn, forms[j]))
				q, r := new(big.Int).DivMod(e, L, new(big.Int))
				forms[id] = r
				emit(map[string]interface{}{"op": "combined", "dst": id, "src": j, "m": lim(mm, 32), "n": lim(nn, 32), "q": lim(q, 33), "form": lim(r, 32)})
				id++
			}
		}
	}
	// equality observations between all register pairs (sampled)
	ref := elliptic.P384()
	_ = ref
	for a := 0; a < id; a++ {
		for b := a + 1; b < id; b += 7 {
			eq := regs[a].x.Cmp(regs[b].x) == 0 && regs[a].y.Cmp(regs[b].y) == 0
			emit(map[string]interface{}{"op": "eq", "a": a, "b": b, "eq": eq})
		}
	}
	// targeted: compare each combined result with base mult of same form
	end := id
	for a := n; a < end; a++ {
		x, y := c.ScalarBaseMult(forms[a].FillBytes(make([]byte, 48)))
		regs[id] = pt{x, y}
		emit(map[string]interface{}{"op": "base", "dst": id, "k": lim(forms[a], 33), "q": lim(big.NewInt(0), 2), "form": lim(forms[a], 32)})
		eq := regs[a].x.Cmp(x) == 0 && regs[a].y.Cmp(y) == 0
		emit(map[string]interface{}{"op": "eq", "a": a, "b": id, "eq": eq})
		id++
	}
}
