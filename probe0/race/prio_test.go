package drv

import (
	"testing"
	"time"

	"github.com/cloudflare/circl/vdaf/prio3/histogram"
	"github.com/cloudflare/circl/vdaf/prio3/sum"
)

func TestPrio(t *testing.T) {
	const N = 3
	s, err := sum.New(N, 100, []byte("ctx"))
	if err != nil {
		t.Fatal(err)
	}
	params := s.Params()
	var vk sum.VerifyKey
	aggs := make([]sum.AggShare, N)
	for i := range aggs {
		aggs[i] = s.AggregateInit()
	}
	t0 := time.Now()
	meas := []uint64{0, 100, 37}
	for mi, m := range meas {
		var nonce sum.Nonce
		nonce[0] = byte(mi)
		rnd := make([]byte, params.RandSize())
		rnd[0] = byte(mi + 1)
		pub, shares, err := s.Shard(m, &nonce, rnd)
		if err != nil {
			t.Fatal(err)
		}
		states := make([]*sum.PrepState, N)
		pshares := make([]sum.PrepShare, N)
		for a := 0; a < N; a++ {
			// marshal roundtrip of input share
			b, err := shares[a].MarshalBinary()
			if err != nil {
				t.Fatal(err)
			}
			var in sum.InputShare
			in.New(&params, uint(a))
			if err := in.UnmarshalBinary(b); err != nil {
				t.Fatal(err)
			}
			st, ps, err := s.PrepInit(&vk, &nonce, uint8(a), pub, in)
			if err != nil {
				t.Fatal(err)
			}
			states[a], pshares[a] = st, *ps
		}
		msg, err := s.PrepSharesToPrep(pshares)
		if err != nil {
			t.Fatal(err)
		}
		for a := 0; a < N; a++ {
			out, err := s.PrepNext(states[a], msg)
			if err != nil {
				t.Fatal(err)
			}
			s.AggregateUpdate(&aggs[a], out)
		}
	}
	res, err := s.Unshard(aggs, uint(len(meas)))
	t.Logf("sum aggregate=%v err=%v elapsed=%v", *res, err, time.Since(t0))
	h, err := histogram.New(2, 4, 2, []byte("c"))
	t.Logf("histogram new err=%v params=%+v", err, h.Params())
}
