package drv

import (
	"encoding/json"
	"os"
	"sort"
	"strings"
	"testing"

	"github.com/cloudflare/circl/abe/cpabe/tkn20"
)

func TestPol(t *testing.T) {
	raw, err := os.ReadFile("/tmp/probe/abe/pol.json")
	if err != nil {
		t.Fatal(err)
	}
	var rows []struct {
		P string   `json:"p"`
		T []string `json:"t"`
	}
	if err := json.Unmarshal(raw, &rows); err != nil {
		t.Fatal(err)
	}
	vals := []string{"none", "x", "y", "z"}
	mism, perr, rt := 0, 0, 0
	for _, r := range rows {
		var p tkn20.Policy
		if err := p.FromString(r.P); err != nil {
			perr++
			if perr < 5 {
				t.Logf("parse error %q: %v", r.P, err)
			}
			continue
		}
		var p2 tkn20.Policy
		if err := p2.FromString(p.String()); err != nil {
			rt++
		}
		var got []string
		for _, a := range vals {
			for _, b := range vals {
				m := map[string]string{}
				if a != "none" {
					m["a"] = a
				}
				if b != "none" {
					m["b"] = b
				}
				var at tkn20.Attributes
				at.FromMap(m)
				s1 := p.Satisfaction(at)
				if s1 != p2.Satisfaction(at) {
					rt++
				}
				if s1 {
					got = append(got, a+","+b)
				}
			}
		}
		want := append([]string{}, r.T...)
		sort.Strings(want)
		sort.Strings(got)
		if strings.Join(want, ";") != strings.Join(got, ";") {
			mism++
			if mism < 6 {
				t.Logf("MISMATCH %q want %v got %v (printed %q)", r.P, want, got, p.String())
			}
		}
	}
	t.Logf("rows=%d mismatches=%d parseErrors=%d roundtripIssues=%d", len(rows), mism, perr, rt)
}
