package drv

import (
	"crypto/elliptic"
	"math/big"
	"testing"

	"github.com/cloudflare/circl/ecc/p384"
	"github.com/cloudflare/circl/sign/ed448"
	"github.com/cloudflare/circl/zk/qndleq"
	"github.com/cloudflare/circl/group"
	"github.com/cloudflare/circl/sign/mldsa/mldsa44"
	"github.com/cloudflare/circl/hpke"
)

func TestDefects(t *testing.T) {
	// qndleq
	N := big.NewInt(1081)
	p := qndleq.Proof{Z: big.NewInt(7), C: big.NewInt(0), SecParam: 0}
	t.Logf("qndleq false statement verifies: %v", p.Verify(big.NewInt(4), big.NewInt(9), big.NewInt(16), big.NewInt(25), N))
	// p384 combined mult
	c := p384.P384()
	gx, gy := c.Params().Gx, c.Params().Gy
	m := big.NewInt(5).Bytes()
	x, y := c.CombinedMult(gx, gy, m, m)
	ex, ey := elliptic.P384().ScalarBaseMult(big.NewInt(10).Bytes())
	t.Logf("p384 CombinedMult(G,5,5) == 10G: %v (x=%v)", x.Cmp(ex) == 0 && y.Cmp(ey) == 0, x)
	// ed448 junk bits
	pub, priv, _ := ed448.GenerateKey(nil)
	msg := []byte("m")
	sig := ed448.Sign(priv, msg, "")
	pub2 := append(ed448.PublicKey{}, pub...)
	pub2[56] |= 0x01
	t.Logf("ed448 verify with junk bit: %v", ed448.Verify(pub2, msg, sig, ""))
	// group generator aliasing
	g := group.P256.Generator()
	g.Neg(g)
	g2 := group.P256.Generator()
	h := group.P256.NewElement().MulGen(group.P256.NewScalar().SetUint64(1))
	t.Logf("generator still equals 1*G after negating a returned generator: %v", g2.IsEqual(h))
	g.Neg(g)
	// mldsa sig||junk
	pk, sk, _ := mldsa44.GenerateKey(nil)
	s := make([]byte, mldsa44.SignatureSize)
	_ = mldsa44.SignTo(sk, msg, nil, false, s)
	t.Logf("mldsa44 accepts sig||junk: %v", mldsa44.Verify(pk, msg, nil, append(s, 1, 2, 3)))
	// hpke psk rule
	suite := hpke.NewSuite(hpke.KEM_X25519_HKDF_SHA256, hpke.KDF_HKDF_SHA256, hpke.AEAD_AES128GCM)
	pkR, _, _ := hpke.KEM_X25519_HKDF_SHA256.Scheme().GenerateKeyPair()
	snd, _ := suite.NewSender(pkR, nil)
	_, _, err := snd.SetupPSK(nil, nil, nil)
	t.Logf("hpke SetupPSK(nil,nil) err=%v", err)
}
