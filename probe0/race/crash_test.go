package drv

import (
	"crypto/rand"
	"fmt"
	"sort"
	"testing"

	"github.com/cloudflare/circl/abe/cpabe/tkn20"
	"github.com/cloudflare/circl/dh/csidh"
	"github.com/cloudflare/circl/dh/sidh"
	"github.com/cloudflare/circl/ecc/bls12381"
	"github.com/cloudflare/circl/ecc/bls12381/ff"
	"github.com/cloudflare/circl/group"
	"github.com/cloudflare/circl/hpke"
	kemschemes "github.com/cloudflare/circl/kem/schemes"
	"github.com/cloudflare/circl/oprf"
	"github.com/cloudflare/circl/pki"
	"github.com/cloudflare/circl/secretsharing"
	"github.com/cloudflare/circl/sign/bls"
	signschemes "github.com/cloudflare/circl/sign/schemes"
	trsa "github.com/cloudflare/circl/tss/rsa"
	"github.com/cloudflare/circl/vdaf/prio3/count"
	"github.com/cloudflare/circl/zk/dleq"
)

var found = map[string]string{}

func probe(name string, f func(b []byte), inputs [][]byte) {
	for _, in := range inputs {
		func() {
			defer func() {
				if r := recover(); r != nil {
					if _, ok := found[name]; !ok {
						found[name] = fmt.Sprintf("len=%d: %v", len(in), r)
					}
				}
			}()
			f(in)
		}()
	}
}

func lens(valid []byte, extra ...int) [][]byte {
	var out [][]byte
	n := len(valid)
	for _, l := range append([]int{0, 1, 2, 3, 5, 8, 16, 31, 32, 33, n - 1, n + 1, n / 2, 2 * n}, extra...) {
		if l < 0 {
			continue
		}
		b := make([]byte, l)
		copy(b, valid)
		out = append(out, b)
		c := make([]byte, l)
		for i := range c {
			c[i] = 0xff
		}
		out = append(out, c)
	}
	// all truncations (strided) of valid
	step := 1 + n/2000
	for l := 0; l < n; l += step {
		out = append(out, append([]byte{}, valid[:l]...))
	}
	return out
}

func TestCrash(t *testing.T) {
	for _, s := range kemschemes.All() {
		s := s
		pk, sk, _ := s.GenerateKeyPair()
		pkb, _ := pk.MarshalBinary()
		skb, _ := sk.MarshalBinary()
		ct, _, _ := s.Encapsulate(pk)
		probe("kem:"+s.Name()+".UnmarshalBinaryPublicKey", func(b []byte) { s.UnmarshalBinaryPublicKey(b) }, lens(pkb))
		probe("kem:"+s.Name()+".UnmarshalBinaryPrivateKey", func(b []byte) { s.UnmarshalBinaryPrivateKey(b) }, lens(skb))
		probe("kem:"+s.Name()+".Decapsulate", func(b []byte) { s.Decapsulate(sk, b) }, lens(ct))
	}
	for _, id := range []hpke.KEM{hpke.KEM_P256_HKDF_SHA256, hpke.KEM_P384_HKDF_SHA384, hpke.KEM_P521_HKDF_SHA512, hpke.KEM_X25519_HKDF_SHA256, hpke.KEM_X448_HKDF_SHA512, hpke.KEM_X25519_KYBER768_DRAFT00, hpke.KEM_XWING} {
		s := id.Scheme()
		pk, sk, _ := s.GenerateKeyPair()
		pkb, _ := pk.MarshalBinary()
		skb, _ := sk.MarshalBinary()
		suite := hpke.NewSuite(id, hpke.KDF_HKDF_SHA256, hpke.AEAD_AES128GCM)
		snd, _ := suite.NewSender(pk, nil)
		enc, _, _ := snd.Setup(rand.Reader)
		probe("hpke:"+s.Name()+".Receiver.Setup", func(b []byte) { r, _ := suite.NewReceiver(sk, nil); r.Setup(b) }, lens(enc))
		probe("hpke:"+s.Name()+".UnmarshalBinaryPublicKey", func(b []byte) { s.UnmarshalBinaryPublicKey(b) }, lens(pkb))
		probe("hpke:"+s.Name()+".UnmarshalBinaryPrivateKey", func(b []byte) { s.UnmarshalBinaryPrivateKey(b) }, lens(skb))
		probe("hpke:"+s.Name()+".Decapsulate", func(b []byte) { s.Decapsulate(sk, b) }, lens(enc))
	}
	for _, s := range signschemes.All() {
		s := s
		pk, sk, _ := s.GenerateKey()
		pkb, _ := pk.MarshalBinary()
		skb, _ := sk.MarshalBinary()
		sig := s.Sign(sk, []byte("m"), nil)
		probe("sign:"+s.Name()+".UnmarshalBinaryPublicKey", func(b []byte) { s.UnmarshalBinaryPublicKey(b) }, lens(pkb))
		probe("sign:"+s.Name()+".UnmarshalBinaryPrivateKey", func(b []byte) { s.UnmarshalBinaryPrivateKey(b) }, lens(skb))
		probe("sign:"+s.Name()+".Verify", func(b []byte) { s.Verify(pk, []byte("m"), b, nil) }, lens(sig))
		if _, ok := s.(pki.CertificateScheme); ok {
			pem, _ := pki.MarshalPEMPublicKey(pk)
			probe("pki.UnmarshalPEMPublicKey("+s.Name()+")", func(b []byte) { pki.UnmarshalPEMPublicKey(b) }, lens(pem))
			pkix, _ := pki.MarshalPKIXPublicKey(pk)
			probe("pki.UnmarshalPKIXPublicKey("+s.Name()+")", func(b []byte) { pki.UnmarshalPKIXPublicKey(b) }, lens(pkix))
			spem, _ := pki.MarshalPEMPrivateKey(sk)
			probe("pki.UnmarshalPEMPrivateKey("+s.Name()+")", func(b []byte) { pki.UnmarshalPEMPrivateKey(b) }, lens(spem))
		}
	}
	for _, g := range []group.Group{group.P256, group.P384, group.P521, group.Ristretto255} {
		g := g
		eb, _ := g.Generator().MarshalBinary()
		sb, _ := g.NewScalar().SetUint64(5).MarshalBinary()
		probe(fmt.Sprintf("group:%v.Element.UnmarshalBinary", g), func(b []byte) { g.NewElement().UnmarshalBinary(b) }, lens(eb))
		probe(fmt.Sprintf("group:%v.Scalar.UnmarshalBinary", g), func(b []byte) { g.NewScalar().UnmarshalBinary(b) }, lens(sb))
		var pr dleq.Proof
		probe(fmt.Sprintf("dleq:%v.Proof.UnmarshalBinary", g), func(b []byte) { pr.UnmarshalBinary(g, b) }, lens(append(sb, sb...)))
	}
	for _, su := range []oprf.Suite{oprf.SuiteP256, oprf.SuiteRistretto255} {
		su := su
		k, _ := oprf.GenerateKey(su, rand.Reader)
		kb, _ := k.MarshalBinary()
		pb, _ := k.Public().MarshalBinary()
		probe("oprf:"+su.Identifier()+".PrivateKey.UnmarshalBinary", func(b []byte) { new(oprf.PrivateKey).UnmarshalBinary(su, b) }, lens(kb))
		probe("oprf:"+su.Identifier()+".PublicKey.UnmarshalBinary", func(b []byte) { new(oprf.PublicKey).UnmarshalBinary(su, b) }, lens(pb))
	}
	{
		g1 := bls12381.G1Generator().BytesCompressed()
		g2 := bls12381.G2Generator().BytesCompressed()
		probe("bls12381.G1.SetBytes", func(b []byte) { new(bls12381.G1).SetBytes(b) }, lens(g1, 96))
		probe("bls12381.G2.SetBytes", func(b []byte) { new(bls12381.G2).SetBytes(b) }, lens(g2, 192))
		gt := bls12381.Pair(bls12381.G1Generator(), bls12381.G2Generator())
		gtb, _ := gt.MarshalBinary()
		probe("bls12381.Gt.UnmarshalBinary", func(b []byte) { new(bls12381.Gt).UnmarshalBinary(b) }, lens(gtb))
		var sc ff.Scalar
		sc.SetUint64(3)
		scb, _ := sc.MarshalBinary()
		probe("ff.Scalar.UnmarshalBinary", func(b []byte) { new(ff.Scalar).UnmarshalBinary(b) }, lens(scb))
		probe("ff.Scalar.SetBytes", func(b []byte) { new(ff.Scalar).SetBytes(b) }, lens(scb))
		probe("ff.Fp.UnmarshalBinary", func(b []byte) { new(ff.Fp).UnmarshalBinary(b) }, lens(make([]byte, 48)))
		probe("ff.Fp2.UnmarshalBinary", func(b []byte) { new(ff.Fp2).UnmarshalBinary(b) }, lens(make([]byte, 96)))
		probe("ff.Fp12.UnmarshalBinary", func(b []byte) { new(ff.Fp12).UnmarshalBinary(b) }, lens(make([]byte, 576)))
		sk, _ := bls.KeyGen[bls.G1](make([]byte, 32), nil, nil)
		skb, _ := sk.MarshalBinary()
		pkb, _ := sk.PublicKey().MarshalBinary()
		sig := bls.Sign(sk, []byte("m"))
		probe("bls.PrivateKey.UnmarshalBinary", func(b []byte) { new(bls.PrivateKey[bls.G1]).UnmarshalBinary(b) }, lens(skb))
		probe("bls.PublicKey.UnmarshalBinary", func(b []byte) { new(bls.PublicKey[bls.G1]).UnmarshalBinary(b) }, lens(pkb))
		probe("bls.Verify", func(b []byte) { bls.Verify(sk.PublicKey(), []byte("m"), b) }, lens(sig))
		probe("bls.Aggregate", func(b []byte) { bls.Aggregate(bls.G1{}, []bls.Signature{sig, b}) }, lens(sig))
	}
	{
		pk, msk, _ := tkn20.Setup(rand.Reader)
		var pol tkn20.Policy
		pol.FromString("(a:x and b:y) or not c:z")
		ct, _ := pk.Encrypt(rand.Reader, pol, []byte("hello"))
		var at tkn20.Attributes
		at.FromMap(map[string]string{"a": "x", "b": "y"})
		key, _ := msk.KeyGen(rand.Reader, at)
		pkb, _ := pk.MarshalBinary()
		mskb, _ := msk.MarshalBinary()
		keyb, _ := key.MarshalBinary()
		probe("tkn20.AttributeKey.Decrypt", func(b []byte) { if len(b) >= 6 { key.Decrypt(b) } }, lens(ct))
		probe("tkn20.Policy.ExtractFromCiphertext", func(b []byte) { if len(b) >= 6 { new(tkn20.Policy).ExtractFromCiphertext(b) } }, lens(ct))
		probe("tkn20.Attributes.CouldDecrypt", func(b []byte) { if len(b) >= 6 { at.CouldDecrypt(b) } }, lens(ct))
		probe("tkn20.PublicKey.UnmarshalBinary", func(b []byte) { new(tkn20.PublicKey).UnmarshalBinary(b) }, lens(pkb))
		probe("tkn20.SystemSecretKey.UnmarshalBinary", func(b []byte) { new(tkn20.SystemSecretKey).UnmarshalBinary(b) }, lens(mskb))
		probe("tkn20.AttributeKey.UnmarshalBinary", func(b []byte) { new(tkn20.AttributeKey).UnmarshalBinary(b) }, lens(keyb))
		probe("tkn20.Policy.FromString", func(b []byte) { new(tkn20.Policy).FromString(string(b)) }, append(lens([]byte("(a:x and b:y) or not c:z")), []byte("a:"), []byte("a"), []byte("not"), []byte("("), []byte("a:x and"), []byte("a:x b"), []byte(")"), []byte("a:x)"), []byte("not not"), []byte("a:x or (")))
	}
	{
		key, _ := trsa.GenerateKey(rand.Reader, 512)
		shares, _ := trsa.Deal(rand.Reader, 3, 2, key, true)
		sb, _ := shares[0].MarshalBinary()
		probe("tss/rsa.KeyShare.UnmarshalBinary", func(b []byte) { new(trsa.KeyShare).UnmarshalBinary(b) }, lens(sb))
		dg := make([]byte, 63); dg[0] = 2; ss, _ := shares[0].Sign(rand.Reader, &key.PublicKey, dg, false)
		ssb, _ := ss.MarshalBinary()
		probe("tss/rsa.SignShare.UnmarshalBinary", func(b []byte) { new(trsa.SignShare).UnmarshalBinary(b) }, lens(ssb))
		probe("tss/rsa.CombineSignShares(empty)", func(b []byte) { trsa.CombineSignShares(&key.PublicKey, nil, b) }, [][]byte{{1}})
	}
	{
		var pub csidh.PublicKey
		var prv csidh.PrivateKey
		probe("csidh.PublicKey.Import", func(b []byte) { pub.Import(b) }, lens(make([]byte, 64)))
		probe("csidh.PrivateKey.Import", func(b []byte) { prv.Import(b) }, lens(make([]byte, 37)))
		for _, id := range []uint8{sidh.Fp434, sidh.Fp503, sidh.Fp751} {
			id := id
			p := sidh.NewPublicKey(id, sidh.KeyVariantSike)
			probe(fmt.Sprintf("sidh.PublicKey(%d).Import", id), func(b []byte) { p.Import(b) }, lens(make([]byte, p.Size())))
			q := sidh.NewPrivateKey(id, sidh.KeyVariantSike)
			probe(fmt.Sprintf("sidh.PrivateKey(%d).Import", id), func(b []byte) { q.Import(b) }, lens(make([]byte, q.Size())))
		}
	}
	{
		c, _ := count.New(2, []byte("ctx"))
		params := c.Params()
		var nonce count.Nonce
		_, shares, _ := c.Shard(true, &nonce, make([]byte, params.RandSize()))
		b0, _ := shares[0].MarshalBinary()
		b1, _ := shares[1].MarshalBinary()
		probe("prio3.count.InputShare(leader).UnmarshalBinary", func(b []byte) { var s count.InputShare; s.New(&params, 0); s.UnmarshalBinary(b) }, lens(b0))
		probe("prio3.count.InputShare(helper).UnmarshalBinary", func(b []byte) { var s count.InputShare; s.New(&params, 1); s.UnmarshalBinary(b) }, lens(b1))
	}
	{
		g := group.P256
		sh := secretsharing.New(rand.Reader, 2, g.NewScalar().SetUint64(9)).Share(4)
		probe("secretsharing.Recover(dup)", func(b []byte) { secretsharing.Recover(2, []secretsharing.Share{sh[0], sh[0], sh[1]}) }, [][]byte{{0}})
	}
	var names []string
	for k := range found {
		names = append(names, k)
	}
	sort.Strings(names)
	for _, k := range names {
		t.Logf("PANIC %-58s %s", k, found[k])
	}
	t.Logf("total panicking entry points: %d", len(names))
}
