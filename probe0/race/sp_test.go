package drv

import (
	"crypto/rand"
	"testing"
	"time"

	trsa "github.com/cloudflare/circl/tss/rsa"
)

func TestSP(t *testing.T) {
	t0 := time.Now()
	k, err := trsa.GenerateKey(rand.Reader, 1024)
	t.Logf("%v %v bits=%d", time.Since(t0), err, k.N.BitLen())
}
