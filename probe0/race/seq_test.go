package drv

import (
	"bytes"
	"crypto/aes"
	"crypto/cipher"
	"testing"

	"github.com/cloudflare/circl/hpke"
)

type zr struct{ b byte }

func (z zr) Read(p []byte) (int, error) {
	for i := range p {
		p[i] = z.b
	}
	return len(p), nil
}

func TestSeq(t *testing.T) {
	suite := hpke.NewSuite(hpke.KEM_X25519_HKDF_SHA256, hpke.KDF_HKDF_SHA256, hpke.AEAD_AES128GCM)
	k := hpke.KEM_X25519_HKDF_SHA256.Scheme()
	pkR, skR := k.DeriveKeyPair(make([]byte, k.SeedSize()))
	snd, _ := suite.NewSender(pkR, []byte("info"))
	enc, sealer, err := snd.Setup(zr{7})
	if err != nil {
		t.Fatal(err)
	}
	rcv, _ := suite.NewReceiver(skR, []byte("info"))
	opener, err := rcv.Setup(enc)
	if err != nil {
		t.Fatal(err)
	}
	m0, _ := sealer.MarshalBinary()
	ct0, _ := sealer.Seal([]byte("pt"), []byte("aad"))
	m1, _ := sealer.MarshalBinary()
	var diff []int
	for i := range m0 {
		if m0[i] != m1[i] {
			diff = append(diff, i)
		}
	}
	t.Logf("marshal len=%d diff positions=%v", len(m0), diff)
	end := diff[len(diff)-1]
	// patch seq to 2^96-2
	patched := append([]byte{}, m0...)
	for i := end - 11; i <= end; i++ {
		patched[i] = 0xff
	}
	patched[end] = 0xfe
	s2, err := hpke.UnmarshalSealer(patched)
	if err != nil {
		t.Fatal(err)
	}
	c1, e1 := s2.Seal([]byte("pt"), nil)
	c2, e2 := s2.Seal([]byte("pt"), nil)
	c3, e3 := s2.Seal([]byte("pt"), nil)
	t.Logf("at max-1: seal1 ok=%v, seal2 err=%v (ct nil=%v), seal3 err=%v (ct nil=%v)", e1 == nil, e2, c2 == nil, e3, c3 == nil)
	// observe nonce: key and base nonce from marshal (format: role, kem,kdf,aead, len||exporter, len||key, len||nonce, len||seq)
	pos := 1 + 6
	expLen := int(m0[pos])
	pos += 1 + expLen
	keyLen := int(m0[pos])
	key := m0[pos+1 : pos+1+keyLen]
	pos += 1 + keyLen
	nLen := int(m0[pos])
	base := m0[pos+1 : pos+1+nLen]
	blk, _ := aes.NewCipher(key)
	g, _ := cipher.NewGCM(blk)
	nonce := append([]byte{}, base...)
	exp0 := g.Seal(nil, nonce, []byte("pt"), []byte("aad"))
	t.Logf("ct0 uses base_nonce^0: %v", bytes.Equal(exp0, ct0))
	// nonce for seq = 2^96-2
	n2 := make([]byte, 12)
	for i := range n2 {
		n2[i] = base[i] ^ 0xff
	}
	n2[11] = base[11] ^ 0xfe
	t.Logf("c1 uses base_nonce^(2^96-2): %v", bytes.Equal(g.Seal(nil, n2, []byte("pt"), nil), c1))
	// opener lockstep
	_, errA := opener.Open([]byte("garbage-garbage-garbage"), nil)
	pt, errB := opener.Open(ct0, []byte("aad"))
	_, errC := opener.Open(ct0, []byte("aad"))
	t.Logf("open garbage err=%v; open ct0 -> %q err=%v; reopen ct0 err=%v", errA != nil, pt, errB, errC != nil)
}
