package drv

import (
	"crypto"
	"crypto/rand"
	"crypto/rsa"
	"crypto/sha512"
	"testing"

	"github.com/cloudflare/circl/blindsign/blindrsa"
)

func TestBRSA(t *testing.T) {
	for _, bits := range []int{1024, 1025, 1031, 2048} {
		key, err := rsa.GenerateKey(rand.Reader, bits)
		if err != nil {
			t.Logf("bits=%d keygen err %v", bits, err)
			continue
		}
		for _, v := range []blindrsa.Variant{blindrsa.SHA384PSSRandomized, blindrsa.SHA384PSSZeroRandomized, blindrsa.SHA384PSSDeterministic, blindrsa.SHA384PSSZeroDeterministic} {
			func() {
				defer func() {
					if r := recover(); r != nil {
						t.Logf("bits=%d %v PANIC %v", bits, v, r)
					}
				}()
				c, err := blindrsa.NewClient(v, &key.PublicKey)
				if err != nil {
					t.Logf("bits=%d %v newclient err %v", bits, v, err)
					return
				}
				msg := []byte("hello")
				prep, _ := c.Prepare(rand.Reader, msg)
				bm, st, err := c.Blind(rand.Reader, prep)
				if err != nil {
					t.Logf("bits=%d %v blind err %v", bits, v, err)
					return
				}
				bs, err := blindrsa.NewSigner(key).BlindSign(bm)
				if err != nil {
					t.Logf("bits=%d %v blindsign err %v", bits, v, err)
					return
				}
				sig, err := c.Finalize(st, bs)
				if err != nil {
					t.Logf("bits=%d %v finalize err %v", bits, v, err)
					return
				}
				salt := crypto.SHA384.Size()
				if v == blindrsa.SHA384PSSZeroRandomized || v == blindrsa.SHA384PSSZeroDeterministic {
					salt = 0
				}
				h := sha512.Sum384(prep)
				std := rsa.VerifyPSS(&key.PublicKey, crypto.SHA384, h[:], sig, &rsa.PSSOptions{SaltLength: salt, Hash: crypto.SHA384})
				own := c.Verify(prep, sig)
				// altered signature
				bad := append([]byte{}, sig...)
				bad[len(bad)-1] ^= 1
				t.Logf("bits=%d %-36v siglen=%d stdVerify=%v ownVerify=%v alteredOwn=%v alteredStd=%v", bits, v, len(sig), std == nil, own == nil, c.Verify(prep, bad) == nil, rsa.VerifyPSS(&key.PublicKey, crypto.SHA384, h[:], bad, &rsa.PSSOptions{SaltLength: salt, Hash: crypto.SHA384}) == nil)
			}()
		}
	}
}
