package drv

import (
	"encoding/json"
	"math/rand"
	"os"
	"testing"

	"github.com/cloudflare/circl/hpke"
)

type ev struct {
	Ev    string `json:"ev"`
	Tr    int    `json:"tr"`
	Pt    int    `json:"pt"`
	Aad   int    `json:"aad"`
	K     int    `json:"k"`     // which ciphertext (ordinal) for opens
	Ok    bool   `json:"ok"`
	SeqS  []int  `json:"sseq"`  // sealer seq after
	SeqO  []int  `json:"oseq"`  // opener seq after
	GotPt int    `json:"gotpt"`
}

func seqOf(m []byte) []int {
	out := make([]int, 12)
	for i := 0; i < 12; i++ {
		out[i] = int(m[len(m)-12+i])
	}
	return out
}

func TestTr(t *testing.T) {
	f, _ := os.Create("/tmp/probe/hc/trace.ndjson")
	defer f.Close()
	enc := json.NewEncoder(f)
	rng := rand.New(rand.NewSource(1))
	suite := hpke.NewSuite(hpke.KEM_X25519_HKDF_SHA256, hpke.KDF_HKDF_SHA256, hpke.AEAD_ChaCha20Poly1305)
	k := hpke.KEM_X25519_HKDF_SHA256.Scheme()
	pkR, skR := k.DeriveKeyPair(make([]byte, k.SeedSize()))
	starts := [][]byte{{0}, {0xfe}, {0xff, 0xfe}, {0xff, 0xff, 0xff, 0xfe}, {0xff, 0xff, 0xff, 0xff, 0xff, 0xff, 0xff, 0xff, 0xff, 0xff, 0xff, 0xfd}}
	pts := [][]byte{[]byte("p1"), []byte("p2")}
	aads := [][]byte{[]byte("a1"), []byte("a2")}
	for tr := 0; tr < 40; tr++ {
		snd, _ := suite.NewSender(pkR, nil)
		encap, sealer, _ := snd.Setup(zr{byte(tr)})
		rcv, _ := suite.NewReceiver(skR, nil)
		opener, _ := rcv.Setup(encap)
		st := starts[tr%len(starts)]
		ms, _ := sealer.MarshalBinary()
		mo, _ := opener.MarshalBinary()
		for i := range st {
			ms[len(ms)-len(st)+i] = st[i]
			mo[len(mo)-len(st)+i] = st[i]
		}
		sealer, _ = hpke.UnmarshalSealer(ms)
		opener, _ = hpke.UnmarshalOpener(mo)
		enc.Encode(ev{Ev: "reset", Tr: tr, SeqS: seqOf(ms), SeqO: seqOf(mo)})
		type ctrec struct {
			ct      []byte
			pt, aad int
		}
		var cts []ctrec
		for step := 0; step < 12; step++ {
			switch c := rng.Intn(4); {
			case c <= 1:
				p, a := rng.Intn(2), rng.Intn(2)
				ct, err := sealer.Seal(pts[p], aads[a])
				if err == nil {
					cts = append(cts, ctrec{ct, p, a})
				}
				m, _ := sealer.MarshalBinary()
				mo, _ := opener.MarshalBinary()
				enc.Encode(ev{Ev: "seal", Tr: tr, Pt: p, Aad: a, Ok: err == nil, SeqS: seqOf(m), SeqO: seqOf(mo)})
			case c == 2 && len(cts) > 0:
				i := rng.Intn(len(cts))
				a := rng.Intn(2)
				pt, err := opener.Open(cts[i].ct, aads[a])
				got := -1
				if err == nil {
					if string(pt) == "p1" {
						got = 0
					} else {
						got = 1
					}
				}
				m, _ := sealer.MarshalBinary()
				mo, _ := opener.MarshalBinary()
				enc.Encode(ev{Ev: "open", Tr: tr, K: i, Aad: a, Ok: err == nil, GotPt: got, SeqS: seqOf(m), SeqO: seqOf(mo)})
			default:
				b, _ := sealer.MarshalBinary()
				sealer, _ = hpke.UnmarshalSealer(b)
				m, _ := sealer.MarshalBinary()
				mo, _ := opener.MarshalBinary()
				enc.Encode(ev{Ev: "restore", Tr: tr, Ok: true, SeqS: seqOf(m), SeqO: seqOf(mo)})
			}
		}
	}
}
