package drv

import (
	"bytes"
	"math/big"
	"testing"

	"github.com/cloudflare/circl/group"
	"github.com/cloudflare/circl/kem/xwing"
)

func leb(x *big.Int) []byte {
	b := x.FillBytes(make([]byte, 32))
	for i, j := 0, 31; i < j; i, j = i+1, j-1 {
		b[i], b[j] = b[j], b[i]
	}
	return b
}

func TestRis(t *testing.T) {
	p := new(big.Int).Sub(new(big.Int).Lsh(big.NewInt(1), 255), big.NewInt(19))
	g := group.Ristretto255
	try := func(name string, enc []byte) {
		e := g.NewElement()
		err := e.UnmarshalBinary(enc)
		re := []byte(nil)
		if err == nil {
			re, _ = e.MarshalBinary()
		}
		t.Logf("%-28s accepted=%v reencodeEqual=%v", name, err == nil, bytes.Equal(re, enc))
	}
	try("identity(0)", leb(big.NewInt(0)))
	try("s=p (alias of 0)", leb(p))
	try("s=1 (negative/odd)", leb(big.NewInt(1)))
	gen, _ := g.Generator().MarshalBinary()
	try("generator", gen)
	hb := append([]byte{}, gen...)
	hb[31] |= 0x80
	try("generator|highbit", hb)
	gv := new(big.Int).SetBytes(func() []byte { b := append([]byte{}, gen...); for i, j := 0, 31; i < j; i, j = i+1, j-1 { b[i], b[j] = b[j], b[i] }; return b }())
	_ = gv
	try("2^255-1", leb(new(big.Int).Sub(new(big.Int).Lsh(big.NewInt(1), 255), big.NewInt(1))))
	try("p+2 (alias of 2)", leb(new(big.Int).Add(p, big.NewInt(2))))
	try("s=2", leb(big.NewInt(2)))
	// scalars
	sc := g.NewScalar()
	L, _ := new(big.Int).SetString("7237005577332262213973186563042994240857116359379907606001950938285454250989", 10)
	t.Logf("scalar L accepted=%v", sc.UnmarshalBinary(leb(L)) == nil)
	t.Logf("scalar short accepted=%v", func() (ok bool) { defer func() { recover() }(); return sc.UnmarshalBinary(make([]byte, 5)) == nil }())
	// xwing decapsulate wrong length via scheme
	s := xwing.Scheme()
	_, sk, _ := s.GenerateKeyPair()
	func() {
		defer func() { t.Logf("xwing scheme.Decapsulate(short) panic=%v", recover()) }()
		_, err := s.Decapsulate(sk, make([]byte, 10))
		t.Logf("xwing scheme.Decapsulate(short) err=%v", err)
	}()
}
