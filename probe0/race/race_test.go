package drv

import (
	"bytes"
	"sync"
	"testing"

	"github.com/cloudflare/circl/hpke"
)

func TestRace(t *testing.T) {
	s := hpke.KEM_X25519_HKDF_SHA256.Scheme()
	seed := make([]byte, s.SeedSize())
	bad := 0
	for round := 0; round < 200; round++ {
		seed[0] = byte(round)
		pk0, sk := s.DeriveKeyPair(seed)
		want, _ := pk0.MarshalBinary()
		skb, _ := sk.MarshalBinary()
		sk2, _ := s.UnmarshalBinaryPrivateKey(skb) // fresh: pub cache empty
		var wg sync.WaitGroup
		start := make(chan struct{})
		res := make([][]byte, 8)
		for g := 0; g < 8; g++ {
			wg.Add(1)
			go func(g int) {
				defer wg.Done()
				<-start
				b, _ := sk2.Public().MarshalBinary()
				res[g] = b
			}(g)
		}
		close(start)
		wg.Wait()
		for _, r := range res {
			if !bytes.Equal(r, want) {
				bad++
			}
		}
	}
	t.Logf("bad=%d", bad)
}
