package drv

import (
	"bytes"
	"crypto"
	"crypto/rand"
	"crypto/rsa"
	"fmt"
	"testing"

	"github.com/cloudflare/circl/abe/cpabe/tkn20"
	"github.com/cloudflare/circl/dh/csidh"
	"github.com/cloudflare/circl/ecc/fourq"
	"github.com/cloudflare/circl/ecc/goldilocks"
	"github.com/cloudflare/circl/group"
	"github.com/cloudflare/circl/hpke"
	"github.com/cloudflare/circl/kem/hybrid"
	"github.com/cloudflare/circl/pki"
	"github.com/cloudflare/circl/sign/bls"
	"github.com/cloudflare/circl/sign/eddilithium2"
	trsa "github.com/cloudflare/circl/tss/rsa"
	"github.com/cloudflare/circl/vdaf/prio3/histogram"
	"github.com/cloudflare/circl/vdaf/prio3/sum"
)

func try(name string, f func() string) string {
	var out string
	func() {
		defer func() {
			if r := recover(); r != nil {
				out = fmt.Sprintf("PANIC: %v", r)
			}
		}()
		out = f()
	}()
	return name + ": " + out
}

func TestDefects2(t *testing.T) {
	t.Log(try("goldilocks.Unmarshal(short)", func() string {
		var P goldilocks.Point
		return fmt.Sprint(P.UnmarshalBinary(make([]byte, 10)))
	}))
	t.Log(try("goldilocks.Unmarshal(bad57)", func() string {
		var P goldilocks.Point
		b := bytes.Repeat([]byte{0xff}, 57)
		return fmt.Sprint(P.UnmarshalBinary(b))
	}))
	t.Log(try("group.P256 scalar Unmarshal(long)", func() string {
		s := group.P256.NewScalar()
		return fmt.Sprint(s.UnmarshalBinary(make([]byte, 40)))
	}))
	t.Log(try("hpke.UnmarshalSealer(empty)", func() string {
		_, err := hpke.UnmarshalSealer(nil)
		return fmt.Sprint(err)
	}))
	t.Log(try("hpke hybrid Decapsulate(short)", func() string {
		s := hpke.KEM_X25519_KYBER768_DRAFT00.Scheme()
		_, sk, _ := s.GenerateKeyPair()
		_, err := s.Decapsulate(sk, make([]byte, 5))
		return fmt.Sprint(err)
	}))
	t.Log(try("eddilithium2.Verify(short)", func() string {
		pk, _, _ := eddilithium2.GenerateKey(nil)
		return fmt.Sprint(eddilithium2.Verify(pk, []byte("m"), make([]byte, 10)))
	}))
	t.Log(try("tkn20 Decrypt(short)", func() string {
		_, msk, _ := tkn20.Setup(rand.Reader)
		var a tkn20.Attributes
		a.FromMap(map[string]string{"a": "x"})
		k, _ := msk.KeyGen(rand.Reader, a)
		_, err := k.Decrypt([]byte{1, 2})
		return fmt.Sprint(err)
	}))
	t.Log(try("pki.UnmarshalPEMPublicKey(empty)", func() string {
		_, err := pki.UnmarshalPEMPublicKey(nil)
		return fmt.Sprint(err)
	}))
	t.Log(try("csidh import OR", func() string {
		var sk csidh.PrivateKey
		var pk1, pk2 csidh.PublicKey
		_ = csidh.GeneratePrivateKey(&sk, rand.Reader)
		csidh.GeneratePublicKey(&pk1, &sk, rand.Reader)
		b := make([]byte, 64)
		pk1.Export(b)
		pk2.Import(bytes.Repeat([]byte{0xff}, 64))
		pk2.Import(b)
		c := make([]byte, 64)
		pk2.Export(c)
		return fmt.Sprint("import into used object gives same bytes: ", bytes.Equal(b, c))
	}))
	t.Log(try("fourq p alias", func() string {
		var P fourq.Point
		var in [32]byte
		// y = (p, 0) with p = 2^127-1 in first coordinate -> alias of 0?
		for i := 0; i < 15; i++ {
			in[i] = 0xff
		}
		in[15] = 0x7f
		ok := P.Unmarshal(&in)
		var out [32]byte
		P.Marshal(&out)
		return fmt.Sprintf("accepted=%v reencode_equal=%v", ok, out == in)
	}))
	t.Log(try("BLS sig||junk", func() string {
		sk, _ := bls.KeyGen[bls.G1](make([]byte, 32), nil, nil)
		sig := bls.Sign(sk, []byte("m"))
		return fmt.Sprint(bls.Verify(sk.PublicKey(), []byte("m"), append(sig, 1, 2)))
	}))
	t.Log(try("P256Kyber768 derive determinism", func() string {
		s := hybrid.P256Kyber768Draft00()
		seed := make([]byte, s.SeedSize())
		first, _ := s.DeriveKeyPair(seed)
		fb, _ := first.MarshalBinary()
		diff := 0
		for i := 0; i < 20; i++ {
			pk, _ := s.DeriveKeyPair(seed)
			b, _ := pk.MarshalBinary()
			if !bytes.Equal(b, fb) {
				diff++
			}
		}
		return fmt.Sprint("differing derivations out of 20: ", diff)
	}))
	t.Log(try("prio3 sum max=2^63", func() string {
		s, err := sum.New(2, 1<<63, []byte("ctx"))
		if err != nil {
			return "constructor error " + err.Error()
		}
		_ = s
		return "constructor ok"
	}))
	t.Log(try("prio3 histogram chunk 0", func() string {
		_, err := histogram.New(2, 4, 0, []byte("ctx"))
		return fmt.Sprint(err)
	}))
	t.Log(try("tss rsa (3,2) players {1,3}", func() string {
		key, err := trsa.GenerateKey(rand.Reader, 512)
		if err != nil {
			return err.Error()
		}
		shares, err := trsa.Deal(rand.Reader, 3, 2, key, false)
		if err != nil {
			return err.Error()
		}
		msg := []byte("hello")
		pad := &trsa.PKCS1v15Padder{}
		padded, err := trsa.PadHash(pad, crypto.SHA256, &key.PublicKey, msg)
		if err != nil {
			return err.Error()
		}
		res := ""
		for _, set := range [][]int{{0, 1}, {0, 2}, {1, 2}} {
			var ss []trsa.SignShare
			for _, i := range set {
				sh, err := shares[i].Sign(rand.Reader, &key.PublicKey, padded, false)
				if err != nil {
					return err.Error()
				}
				ss = append(ss, sh)
			}
			sig, err := trsa.CombineSignShares(&key.PublicKey, ss, padded)
			ok := false
			if err == nil {
				h := crypto.SHA256.New()
				h.Write(msg)
				ok = rsa.VerifyPKCS1v15(&key.PublicKey, crypto.SHA256, h.Sum(nil), sig) == nil
			}
			res += fmt.Sprintf(" %v:err=%v,verifies=%v", set, err != nil, ok)
		}
		return res
	}))
}
