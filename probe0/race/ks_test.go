package drv

import (
	"bytes"
	"crypto"
	"crypto/ecdh"
	"encoding/binary"
	"io"
	"testing"

	"github.com/cloudflare/circl/hpke"
	"golang.org/x/crypto/hkdf"
)

func lExtract(h crypto.Hash, sid, salt []byte, label string, ikm []byte) []byte {
	in := append(append(append([]byte("HPKE-v1"), sid...), label...), ikm...)
	return hkdf.Extract(h.New, in, salt)
}

func lExpand(h crypto.Hash, sid, prk []byte, label string, info []byte, L int) []byte {
	li := make([]byte, 2)
	binary.BigEndian.PutUint16(li, uint16(L))
	li = append(append(append(append(li, "HPKE-v1"...), sid...), label...), info...)
	out := make([]byte, L)
	io.ReadFull(hkdf.Expand(h.New, prk, li), out)
	return out
}

func TestKS(t *testing.T) {
	kemID, kdfID, aeadID := hpke.KEM_X25519_HKDF_SHA256, hpke.KDF_HKDF_SHA512, hpke.AEAD_AES256GCM
	suite := hpke.NewSuite(kemID, kdfID, aeadID)
	k := kemID.Scheme()
	ikmR := bytes.Repeat([]byte{9}, 32)
	pkR, skR := k.DeriveKeyPair(ikmR)
	pkRb, _ := pkR.MarshalBinary()
	info := []byte("some info")
	psk := bytes.Repeat([]byte{0x55}, 32)
	pskID := []byte("id")
	snd, _ := suite.NewSender(pkR, info)
	enc, sealer, err := snd.SetupPSK(zr{3}, psk, pskID)
	if err != nil {
		t.Fatal(err)
	}
	// spec side
	ksid := append([]byte("KEM"), 0, 0x20)
	ikmE := bytes.Repeat([]byte{3}, 32)
	dkp := lExtract(crypto.SHA256, ksid, nil, "dkp_prk", ikmE)
	skE := lExpand(crypto.SHA256, ksid, dkp, "sk", nil, 32)
	eKey, _ := ecdh.X25519().NewPrivateKey(skE)
	rPub, _ := ecdh.X25519().NewPublicKey(pkRb)
	dh, _ := eKey.ECDH(rPub)
	encSpec := eKey.PublicKey().Bytes()
	kemCtx := append(append([]byte{}, encSpec...), pkRb...)
	eae := lExtract(crypto.SHA256, ksid, nil, "eae_prk", dh)
	ss := lExpand(crypto.SHA256, ksid, eae, "shared_secret", kemCtx, 32)
	hsid := []byte{'H', 'P', 'K', 'E', 0, 0x20, 0, 3, 0, 2}
	pih := lExtract(crypto.SHA512, hsid, nil, "psk_id_hash", pskID)
	ih := lExtract(crypto.SHA512, hsid, nil, "info_hash", info)
	ctx := append(append([]byte{1}, pih...), ih...)
	secret := lExtract(crypto.SHA512, hsid, ss, "secret", psk)
	key := lExpand(crypto.SHA512, hsid, secret, "key", ctx, 32)
	bn := lExpand(crypto.SHA512, hsid, secret, "base_nonce", ctx, 12)
	exp := lExpand(crypto.SHA512, hsid, secret, "exp", ctx, 64)
	m, _ := sealer.MarshalBinary()
	t.Logf("enc equal: %v", bytes.Equal(enc, encSpec))
	t.Logf("marshal contains key:%v base_nonce:%v exporter:%v", bytes.Contains(m, key), bytes.Contains(m, bn), bytes.Contains(m, exp))
	ex := sealer.Export([]byte("ectx"), 77)
	t.Logf("export equal: %v", bytes.Equal(ex, lExpand(crypto.SHA512, hsid, exp, "sec", []byte("ectx"), 77)))
	_ = skR
}
