package drv

import (
	"bytes"
	"crypto/rand"
	"testing"

	"github.com/cloudflare/circl/oprf"
)

func TestOPRF(t *testing.T) {
	for _, suite := range []oprf.Suite{oprf.SuiteRistretto255, oprf.SuiteP256, oprf.SuiteP384, oprf.SuiteP521} {
		seed := bytes.Repeat([]byte{7}, 32)
		for _, mode := range []oprf.Mode{oprf.BaseMode, oprf.VerifiableMode, oprf.PartialObliviousMode} {
			sk, err := oprf.DeriveKey(suite, mode, seed, []byte("info"))
			if err != nil {
				t.Fatal(err)
			}
			inputs := [][]byte{[]byte("a"), []byte("bb"), {}}
			info := []byte("public info")
			var out1, out2 [][]byte
			var full [][]byte
			res := ""
			switch mode {
			case oprf.BaseMode:
				c := oprf.NewClient(suite)
				s := oprf.NewServer(suite, sk)
				for r := 0; r < 2; r++ {
					fd, req, _ := c.Blind(inputs)
					ev, _ := s.Evaluate(req)
					o, err := c.Finalize(fd, ev)
					if err != nil {
						t.Fatal(err)
					}
					if r == 0 {
						out1 = o
					} else {
						out2 = o
					}
				}
				for _, in := range inputs {
					f, _ := s.FullEvaluate(in)
					full = append(full, f)
				}
			case oprf.VerifiableMode:
				c := oprf.NewVerifiableClient(suite, sk.Public())
				s := oprf.NewVerifiableServer(suite, sk)
				for r := 0; r < 2; r++ {
					fd, req, _ := c.Blind(inputs)
					ev, _ := s.Evaluate(req)
					o, err := c.Finalize(fd, ev)
					if err != nil {
						t.Fatal(err)
					}
					if r == 0 {
						out1 = o
						// tamper: swap two evaluated elements
						ev.Elements[0], ev.Elements[1] = ev.Elements[1], ev.Elements[0]
						_, e1 := c.Finalize(fd, ev)
						ev.Elements[0], ev.Elements[1] = ev.Elements[1], ev.Elements[0]
						// tamper: other key
						sk2, _ := oprf.GenerateKey(suite, rand.Reader)
						c2 := oprf.NewVerifiableClient(suite, sk2.Public())
						_, e2 := c2.Finalize(fd, ev)
						// tamper: altered blinded element in request copy
						req.Elements[2] = req.Elements[0]
						_, e3 := c.Finalize(fd, ev)
						res = " tamperSwap=" + errs(e1) + " otherKey=" + errs(e2) + " alteredBlinded=" + errs(e3)
					} else {
						out2 = o
					}
				}
				for _, in := range inputs {
					f, _ := s.FullEvaluate(in)
					full = append(full, f)
				}
			case oprf.PartialObliviousMode:
				c := oprf.NewPartialObliviousClient(suite, sk.Public())
				s := oprf.NewPartialObliviousServer(suite, sk)
				for r := 0; r < 2; r++ {
					fd, req, _ := c.Blind(inputs)
					ev, err := s.Evaluate(req, info)
					if err != nil {
						t.Fatal(err)
					}
					o, err := c.Finalize(fd, ev, info)
					if err != nil {
						t.Fatal(err)
					}
					if r == 0 {
						out1 = o
						_, e1 := c.Finalize(fd, ev, []byte("other info"))
						res = " otherInfo=" + errs(e1)
					} else {
						out2 = o
					}
				}
				for _, in := range inputs {
					f, _ := s.FullEvaluate(in, info)
					full = append(full, f)
				}
			}
			eq12, eqFull := true, true
			for i := range inputs {
				eq12 = eq12 && bytes.Equal(out1[i], out2[i])
				eqFull = eqFull && bytes.Equal(out1[i], full[i])
			}
			t.Logf("%-20s mode=%d blindIndependent=%v equalsFullEvaluate=%v%s", suite.Identifier(), mode, eq12, eqFull, res)
		}
	}
}

func errs(e error) string {
	if e == nil {
		return "ACCEPTED"
	}
	return "rejected"
}
