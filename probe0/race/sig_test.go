package drv

import (
	"fmt"
	"testing"

	"github.com/cloudflare/circl/sign"
	"github.com/cloudflare/circl/sign/schemes"
)

func safeVerify(s sign.Scheme, pk sign.PublicKey, m, sig []byte, o *sign.SignatureOpts) (ok bool, pan interface{}) {
	defer func() { pan = recover() }()
	ok = s.Verify(pk, m, sig, o)
	return
}

func TestSig(t *testing.T) {
	for _, s := range schemes.All() {
		seed := make([]byte, s.SeedSize())
		for i := range seed {
			seed[i] = byte(i + 1)
		}
		pk, sk := s.DeriveKey(seed)
		msg := []byte("message to be signed")
		var opts *sign.SignatureOpts
		if s.SupportsContext() {
			opts = &sign.SignatureOpts{Context: "ctx"}
		}
		sig := s.Sign(sk, msg, opts)
		sig2 := s.Sign(sk, msg, opts)
		det := string(sig) == string(sig2)
		ok, _ := safeVerify(s, pk, msg, sig, opts)
		accFlip, panics := 0, 0
		stride := 1
		if len(sig) > 300 {
			stride = 13
		}
		nflip := 0
		for bit := 0; bit < 8*len(sig); bit += stride {
			c := append([]byte{}, sig...)
			c[bit/8] ^= 1 << (bit % 8)
			nflip++
			if v, p := safeVerify(s, pk, msg, c, opts); p != nil {
				panics++
			} else if v {
				accFlip++
			}
		}
		accTrunc, panTrunc := 0, 0
		for n := 0; n < len(sig); n += 1 + len(sig)/97 {
			if v, p := safeVerify(s, pk, msg, sig[:n], opts); p != nil {
				panTrunc++
			} else if v {
				accTrunc++
			}
		}
		vApp, pApp := safeVerify(s, pk, msg, append(append([]byte{}, sig...), 0), opts)
		vMsg, _ := safeVerify(s, pk, append([]byte("x"), msg...), sig, opts)
		ctxOther := "n/a"
		if s.SupportsContext() {
			v1, _ := safeVerify(s, pk, msg, sig, &sign.SignatureOpts{Context: "ctY"})
			v2, p2 := safeVerify(s, pk, msg, sig, nil)
			ctxOther = fmt.Sprintf("otherctx=%v noctx=%v(p=%v)", v1, v2, p2 != nil)
		}
		t.Logf("%-22s len=%d size=%d ok=%v det=%v flips=%d accFlip=%d panFlip=%d accTrunc=%d panTrunc=%d append=%v(p=%v) othermsg=%v %s",
			s.Name(), len(sig), s.SignatureSize(), ok, det, nflip, accFlip, panics, accTrunc, panTrunc, vApp, pApp != nil, vMsg, ctxOther)
	}
}
