package drv

import (
	"crypto/sha256"
	"encoding/json"
	"math/rand"
	"os"
	"testing"

	"github.com/cloudflare/circl/group"
)

type rec struct {
	enc  *json.Encoder
	toks map[string]int
}

func (r *rec) tok(b []byte) int {
	h := sha256.Sum256(b)
	k := string(h[:8])
	if v, ok := r.toks[k]; ok {
		return v
	}
	v := len(r.toks) + 1
	r.toks[k] = v
	return v
}

func TestPC(t *testing.T) {
	f, _ := os.Create("/tmp/probe/pc/trace.ndjson")
	defer f.Close()
	r := &rec{json.NewEncoder(f), map[string]int{}}
	g := group.P256
	rng := rand.New(rand.NewSource(5))
	const NE = 5
	pool := make([]group.Element, NE)
	for i := range pool {
		pool[i] = g.NewElement().MulGen(g.NewScalar().SetUint64(uint64(i + 2)))
	}
	snap := func() []int {
		out := make([]int, NE)
		for i, e := range pool {
			b, _ := e.Copy().MarshalBinary() // copy: marshal itself writes to the receiver on this tree
			out[i] = r.tok(b)
		}
		return out
	}
	r.enc.Encode(map[string]interface{}{"op": "init", "post": snap()})
	for step := 0; step < 300; step++ {
		pre := snap()
		z, x, y := rng.Intn(NE), rng.Intn(NE), rng.Intn(NE)
		switch rng.Intn(5) {
		case 0:
			pool[z].Add(pool[x], pool[y])
			r.enc.Encode(map[string]interface{}{"op": "add", "recv": z + 1, "args": []int{pre[x], pre[y]}, "res": snap()[z], "post": snap()})
		case 1:
			pool[z].Neg(pool[x])
			r.enc.Encode(map[string]interface{}{"op": "neg", "recv": z + 1, "args": []int{pre[x]}, "res": snap()[z], "post": snap()})
		case 2:
			pool[z].Dbl(pool[x])
			r.enc.Encode(map[string]interface{}{"op": "dbl", "recv": z + 1, "args": []int{pre[x]}, "res": snap()[z], "post": snap()})
		case 3:
			pool[z] = g.NewElement().MulGen(g.NewScalar().SetUint64(1))
			r.enc.Encode(map[string]interface{}{"op": "generator", "recv": z + 1, "args": []int{}, "res": snap()[z], "post": snap()})
		case 4:
			pool[z] = g.Identity()
			r.enc.Encode(map[string]interface{}{"op": "identity", "recv": z + 1, "args": []int{}, "res": snap()[z], "post": snap()})
		}
	}
}
