package drv

import (
	"testing"

	"github.com/cloudflare/circl/simd/keccakf1600"
	"golang.org/x/sys/cpu"
)

func TestCPU(t *testing.T) {
	t.Logf("avx2=%v bmi2=%v adx=%v x4=%v x2=%v", cpu.X86.HasAVX2, cpu.X86.HasBMI2, cpu.X86.HasADX, keccakf1600.IsEnabledX4(), keccakf1600.IsEnabledX2())
}
