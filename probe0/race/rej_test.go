package drv

import (
	"bytes"
	"testing"

	"github.com/cloudflare/circl/kem"
	"github.com/cloudflare/circl/kem/frodo/frodo640shake"
	"github.com/cloudflare/circl/kem/kyber/kyber768"
	"github.com/cloudflare/circl/kem/mlkem/mlkem768"
	"golang.org/x/crypto/sha3"
)

func rej(t *testing.T, s kem.Scheme, f func(sk, ct []byte) []byte) {
	seed := make([]byte, s.SeedSize())
	for i := range seed {
		seed[i] = byte(i)
	}
	pk, sk := s.DeriveKeyPair(seed)
	es := make([]byte, s.EncapsulationSeedSize())
	ct, ss, _ := s.EncapsulateDeterministically(pk, es)
	skb, _ := sk.MarshalBinary()
	ct2 := append([]byte{}, ct...)
	ct2[5] ^= 0x10
	got, err := s.Decapsulate(sk, ct2)
	want := f(skb, ct2)
	t.Logf("%s: err=%v honest=%v matchesSpecRejection=%v", s.Name(), err, bytes.Equal(got, ss), bytes.Equal(got, want))
}

func TestRej(t *testing.T) {
	rej(t, mlkem768.Scheme(), func(sk, ct []byte) []byte {
		z := sk[len(sk)-32:]
		out := make([]byte, 32)
		h := sha3.NewShake256()
		h.Write(z)
		h.Write(ct)
		h.Read(out)
		return out
	})
	rej(t, kyber768.Scheme(), func(sk, ct []byte) []byte {
		z := sk[len(sk)-32:]
		hc := sha3.Sum256(ct)
		out := make([]byte, 32)
		h := sha3.NewShake256()
		h.Write(z)
		h.Write(hc[:])
		h.Read(out)
		return out
	})
	rej(t, frodo640shake.Scheme(), func(sk, ct []byte) []byte {
		s := sk[:16]
		out := make([]byte, 16)
		h := sha3.NewShake128()
		h.Write(ct)
		h.Write(s)
		h.Read(out)
		return out
	})
}
