import json, random
p = 2**255-19
def le(n, k): return [ (n>>(8*i))&255 for i in range(k)]
random.seed(1)
with open('trace.ndjson','w') as f:
    for i in range(2000):
        x = random.getrandbits(256); y = random.getrandbits(256)
        q, r = divmod(x*y, p)
        f.write(json.dumps({"p": le(p,32), "x": le(x,32), "y": le(y,32), "q": le(q,33), "r": le(r,32)})+"\n")
