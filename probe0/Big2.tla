---- MODULE Big2 ----
EXTENDS Integers, Sequences, Json, TLC
B == 4096
Max(a,b) == IF a > b THEN a ELSE b
Min(a,b) == IF a < b THEN a ELSE b
RECURSIVE SumR(_,_,_,_,_)
SumR(x, y, k, i, hi) == IF i > hi THEN 0 ELSE x[i] * y[k - i + 1] + SumR(x, y, k, i + 1, hi)
Col(x, y, k) == SumR(x, y, k, Max(1, k - Len(y) + 1), Min(k, Len(x)))
\* product as digit sequence of length Len(x)+Len(y)
RECURSIVE MulC(_,_,_,_,_)
MulC(x, y, k, c, acc) == IF k > Len(x) + Len(y) THEN acc
                         ELSE LET t == (IF k < Len(x) + Len(y) THEN Col(x, y, k) ELSE 0) + c
                              IN MulC(x, y, k + 1, t \div B, Append(acc, t % B))
Mul(x, y) == MulC(x, y, 1, 0, <<>>)
RECURSIVE AddC(_,_,_,_,_)
AddC(x, y, k, c, acc) == IF k > Max(Len(x), Len(y)) THEN (IF c = 0 THEN acc ELSE Append(acc, c))
   ELSE LET t == (IF k <= Len(x) THEN x[k] ELSE 0) + (IF k <= Len(y) THEN y[k] ELSE 0) + c
        IN AddC(x, y, k + 1, t \div B, Append(acc, t % B))
Add(x, y) == AddC(x, y, 1, 0, <<>>)
RECURSIVE Norm(_)
Norm(x) == IF Len(x) > 0 /\ x[Len(x)] = 0 THEN Norm(SubSeq(x, 1, Len(x)-1)) ELSE x
Eq(x, y) == Norm(x) = Norm(y)
Tr == ndJsonDeserialize("trace12.ndjson")
P == Tr[1].p
Ok(r) == Eq(Mul(r.x, r.y), Add(Mul(r.q, P), r.r))
VARIABLE l
Init == l = 1
Next == l <= Len(Tr) /\ Ok(Tr[l]) /\ l' = l + 1
Spec == Init /\ [][Next]_l
Accepted == TLCGet("stats").diameter - 1 = Len(Tr)
====
