---- MODULE Sim ----
EXTENDS Integers, Sequences, Json, TLC, FiniteSets, SequencesExt
CONSTANT D
VARIABLES seq, hist
Ops == {"seal","openok","openbad","export","marshal"}
Init == seq = 0 /\ hist = <<>>
Step(op) == /\ seq' = IF op \in {"seal"} THEN seq + 1 ELSE seq
            /\ hist' = Append(hist, [op |-> op, seq |-> seq'])
Next == Len(hist) < D /\ \E op \in Ops : Step(op)
Spec == Init /\ [][Next]_<<seq,hist>>
ASSUME TLCSet(1, {})
Collect == (Len(hist) = D) => TLCSet(1, TLCGet(1) \cup {hist})
Post == JsonSerialize("sim.json", SetToSeq(TLCGet(1)))
====
