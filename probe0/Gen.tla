---- MODULE Gen ----
EXTENDS Integers, Sequences, Json, TLC, FiniteSets, SequencesExt
Labels == {"a","b"}
Vals == {"x","y"}
RECURSIVE F(_)
F(n) == IF n = 0 THEN { [k |-> "leaf", l |-> l, v |-> v] : l \in Labels, v \in Vals }
        ELSE F(n-1) \cup { [k |-> "not", c |-> f] : f \in F(n-1) }
                    \cup { [k |-> op, a |-> f, b |-> g] : op \in {"and","or"}, f \in F(n-1), g \in F(n-1) }
RECURSIVE Eval(_,_)
Eval(f, at) == CASE f.k = "leaf" -> (f.l \in DOMAIN at /\ at[f.l] = f.v)
                 [] f.k = "not" -> ~Eval(f.c, at)
                 [] f.k = "and" -> Eval(f.a, at) /\ Eval(f.b, at)
                 [] f.k = "or" -> Eval(f.a, at) \/ Eval(f.b, at)
All == F(1)
Out == { [f |-> f, sat |-> Eval(f, [a |-> "x"])] : f \in All }
ASSUME PrintT(Cardinality(All))
ASSUME JsonSerialize("out.json", SetToSeq(Out)) 
====
