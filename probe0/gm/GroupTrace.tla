---- MODULE GroupTrace ----
EXTENDS Integers, Sequences, Json, TLC
B == 4096
Max(a,b) == IF a > b THEN a ELSE b
Min(a,b) == IF a < b THEN a ELSE b
RECURSIVE SumR(_,_,_,_,_)
SumR(x, y, k, i, hi) == IF i > hi THEN 0 ELSE x[i] * y[k - i + 1] + SumR(x, y, k, i + 1, hi)
Col(x, y, k) == SumR(x, y, k, Max(1, k - Len(y) + 1), Min(k, Len(x)))
RECURSIVE MulC(_,_,_,_,_)
MulC(x, y, k, c, acc) == IF k > Len(x) + Len(y) THEN acc
                         ELSE LET t == (IF k < Len(x) + Len(y) THEN Col(x, y, k) ELSE 0) + c
                              IN MulC(x, y, k + 1, t \div B, Append(acc, t % B))
Mul(x, y) == MulC(x, y, 1, 0, <<>>)
RECURSIVE AddC(_,_,_,_,_)
AddC(x, y, k, c, acc) == IF k > Max(Len(x), Len(y)) THEN (IF c = 0 THEN acc ELSE Append(acc, c))
   ELSE LET t == (IF k <= Len(x) THEN x[k] ELSE 0) + (IF k <= Len(y) THEN y[k] ELSE 0) + c
        IN AddC(x, y, k + 1, t \div B, Append(acc, t % B))
Add(x, y) == AddC(x, y, 1, 0, <<>>)
RECURSIVE SubC(_,_,_,_,_)
SubC(x, y, k, b, acc) == IF k > Max(Len(x), Len(y)) THEN <<acc, b>>
   ELSE LET t == (IF k <= Len(x) THEN x[k] ELSE 0) - (IF k <= Len(y) THEN y[k] ELSE 0) - b
        IN IF t < 0 THEN SubC(x, y, k + 1, 1, Append(acc, t + B)) ELSE SubC(x, y, k + 1, 0, Append(acc, t))
RECURSIVE Norm(_)
Norm(x) == IF Len(x) > 0 /\ x[Len(x)] = 0 THEN Norm(SubSeq(x, 1, Len(x)-1)) ELSE x
Eq(x, y) == Norm(x) = Norm(y)
Less(x, y) == SubC(x, y, 1, 0, <<>>)[2] = 1
IsMod(x, p, q, r) == Eq(x, Add(Mul(q, p), r)) /\ Less(r, p)
\* P-384 group order, base 4096 little endian (constant of the spec)
L == <<2419, 3154, 2764, 406, 3308, 1966, 167, 1163, 3506, 416, 3928, 733, 1079, 2079, 845, 3190, 4095, 4095, 4095, 4095, 4095, 4095, 4095, 4095, 4095, 4095, 4095, 4095, 4095, 4095, 4095, 4095>>
Tr == ndJsonDeserialize("trace.ndjson")
VARIABLES form, l
Cur == Tr[l]
IsEv(e) == l <= Len(Tr) /\ Cur.op = e /\ l' = l + 1
Base == IsEv("base") /\ IsMod(Cur.k, L, Cur.q, Cur.form) /\ form' = (Cur.dst :> Norm(Cur.form)) @@ form
Comb == IsEv("combined") /\ IsMod(Add(Cur.m, Mul(Cur.n, form[Cur.src])), L, Cur.q, Cur.form)
        /\ form' = (Cur.dst :> Norm(Cur.form)) @@ form
EqObs == IsEv("eq") /\ (Cur.eq = (form[Cur.a] = form[Cur.b])) /\ UNCHANGED form   \* equal forms <=> equal elements
Next == Base \/ Comb \/ EqObs
Init == l = 1 /\ form = <<>>
Spec == Init /\ [][Next]_<<form, l>>
ASSUME TLCSet(1, 0)
HighWater == TLCSet(1, IF l > TLCGet(1) THEN l ELSE TLCGet(1))
Accepted == IF TLCGet(1) = Len(Tr) + 1 THEN TRUE ELSE PrintT(<<"REJECTED at line", TLCGet(1), Tr[TLCGet(1)]>>) /\ FALSE
====
