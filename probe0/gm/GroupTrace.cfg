SPECIFICATION Spec
CONSTRAINT HighWater
POSTCONDITION Accepted
CHECK_DEADLOCK FALSE
