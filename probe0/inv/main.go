package main

import (
	"fmt"
	"go/ast"
	"go/parser"
	"go/printer"
	"go/token"
	"os"
	"path/filepath"
	"regexp"
	"sort"
	"strings"
	"bytes"
)

var pat = regexp.MustCompile(`^(Unmarshal.*|SetBytes|FromBytes|Import|Unpack.*|Verify.*|Decapsulate.*|AuthDecapsulate|Open|Decrypt.*|FromString|ExtractFromCiphertext|CouldDecrypt|Finalize|Setup.*|UnmarshalBinary.*|Recover|CombineSignShares|BlindSign|Shared|DeriveSecret|SetString|Parse.*)$`)

func main() {
	root := "/repo"
	var out []string
	filepath.Walk(root, func(path string, info os.FileInfo, err error) error {
		if err != nil { return nil }
		if info.IsDir() {
			b := info.Name()
			if b == ".git" || b == "testdata" || b == "templates" || b == "asm" || b == "internal" { return filepath.SkipDir }
			return nil
		}
		if !strings.HasSuffix(path, ".go") || strings.HasSuffix(path, "_test.go") { return nil }
		fset := token.NewFileSet()
		f, err := parser.ParseFile(fset, path, nil, 0)
		if err != nil { return nil }
		for _, d := range f.Decls {
			fd, ok := d.(*ast.FuncDecl)
			if !ok || !fd.Name.IsExported() || !pat.MatchString(fd.Name.Name) { continue }
			recv := ""
			if fd.Recv != nil && len(fd.Recv.List) > 0 {
				var b bytes.Buffer
				printer.Fprint(&b, fset, fd.Recv.List[0].Type)
				recv = b.String()
				// skip methods on unexported receiver types? keep (reachable via interfaces)
			}
			var b bytes.Buffer
			printer.Fprint(&b, fset, fd.Type)
			sig := strings.TrimPrefix(b.String(), "func")
			if !strings.Contains(sig, "[]byte") && !strings.Contains(sig, "string") && !strings.Contains(sig, "*[") && !strings.Contains(sig, "io.Reader") && !strings.Contains(sig, "cryptobyte") && !strings.Contains(sig, "Signature") { continue }
			rel, _ := filepath.Rel(root, filepath.Dir(path))
			name := fd.Name.Name
			if recv != "" { name = "(" + recv + ")." + name }
			out = append(out, fmt.Sprintf("%s\t%s%s", rel, name, sig))
		}
		return nil
	})
	sort.Strings(out)
	for _, l := range out { fmt.Println(l) }
	fmt.Fprintln(os.Stderr, len(out))
}
