module inv
go 1.22
