
