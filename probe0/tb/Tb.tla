---- MODULE Tb ----
EXTENDS Integers, Sequences, Json, TLC
Q == 3329
Tr == ndJsonDeserialize("t.ndjson")
Ok(e) == e.r \in 0..Q /\ ((e.r - e.x) % Q) = 0
ASSUME PrintT(Len(Tr))
ASSUME \A i \in 1..Len(Tr) : Ok(Tr[i])
====
