SPECIFICATION Spec
CONSTANT D = 8
INVARIANT Collect
POSTCONDITION Post
CHECK_DEADLOCK FALSE
