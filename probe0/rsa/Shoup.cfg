
