---- MODULE Shoup ----
EXTENDS Integers, Sequences, FiniteSets, TLC
P1 == 3
Q1 == 5
N == (2*P1 + 1) * (2*Q1 + 1)     \* 77
M == P1 * Q1                     \* 15
E == 7
RECURSIVE PowMod(_,_,_)
PowMod(b, e, n) == IF e = 0 THEN 1 % n ELSE LET h == PowMod(b, e \div 2, n) IN IF (e % 2) = 0 THEN (h*h) % n ELSE (((h*h) % n) * b) % n
RECURSIVE Gcd(_,_)
Gcd(a, b) == IF b = 0 THEN a ELSE Gcd(b, a % b)
Inv(a, n) == CHOOSE x \in 1..(n-1) : ((a*x) % n) = 1
D == Inv(E, M)
RECURSIVE Fact(_)
Fact(n) == IF n = 0 THEN 1 ELSE n * Fact(n-1)
RECURSIVE PolyEval(_,_,_)
PolyEval(a, x, i) == IF i > Len(a) THEN 0 ELSE ((a[i] * ((x^(i-1)) % M)) + PolyEval(a, x, i+1)) % M
RECURSIVE Num(_,_)
Num(S, j) == IF S = {} THEN 1 ELSE LET y == CHOOSE z \in S : TRUE IN (IF y = j THEN 1 ELSE (0 - y)) * Num(S \ {y}, j)
RECURSIVE Den(_,_)
Den(S, j) == IF S = {} THEN 1 ELSE LET y == CHOOSE z \in S : TRUE IN (IF y = j THEN 1 ELSE (j - y)) * Den(S \ {y}, j)
\* floor division for possibly negative numerator / denominator (Go big.Int.Div is Euclidean: remainder >= 0)
EDiv(a, b) == CHOOSE qq \in (-100000)..100000 : \E r \in 0..((IF b < 0 THEN -b ELSE b) - 1) : a = qq*b + r
Lambda(S, j, Delta) == (Delta * Num(S, j)) \div Den(S, j)   \* exact when divisible (TLC \div floors; only used when exact)
Exact(S, j, Delta) == ((Delta * Num(S, j)) % (IF Den(S,j) < 0 THEN -Den(S,j) ELSE Den(S,j))) = 0
LambdaBuggy(S, j, Delta) == Delta * EDiv(Num(S, j), Den(S, j))
PowSigned(b, e, n) == IF e >= 0 THEN PowMod(b, e, n) ELSE PowMod(Inv(b % n, n), 0 - e, n)
\* extended Euclid returning <<g, a, b>> with a*x + b*y = g
RECURSIVE XGcd(_,_)
XGcd(x, y) == IF y = 0 THEN <<x, 1, 0>> ELSE LET r == XGcd(y, x % y) IN <<r[1], r[3], r[2] - (x \div y) * r[3]>>
RECURSIVE W(_,_,_,_,_,_)
W(T, S, a, x, Delta, buggy) ==
   IF T = {} THEN 1
   ELSE LET j == CHOOSE y \in T : TRUE
            xi == PowMod(x, 2 * Delta * PolyEval(a, j, 1), N)
            lam == IF buggy THEN LambdaBuggy(S, j, Delta) ELSE Lambda(S, j, Delta)
        IN (PowSigned(xi, 2 * lam, N) * W(T \ {j}, S, a, x, Delta, buggy)) % N
Sig(l, S, a, x, buggy) ==
   LET Delta == Fact(l)
       w == W(S, S, a, x, Delta, buggy)
       ep == 4 * Delta * Delta
       g == XGcd(ep, E)
   IN (PowSigned(w, g[2], N) * PowSigned(x, g[3], N)) % N
Units == {x \in 1..(N-1) : Gcd(x, N) = 1}
Subsets(l, k) == {S \in SUBSET (1..l) : Cardinality(S) = k}
Polys(k) == {a \in [1..k -> 0..(M-1)] : a[1] = D}
Good(l, k, buggy) == \A S \in Subsets(l, k) : \A a \in Polys(k) : \A x \in {2, 3, 5, 10, 24, 76} :
                        PowMod(Sig(l, S, a, x, buggy), E, N) = x
AllExact(l) == \A k \in 1..l : \A S \in Subsets(l, k) : \A j \in S : Exact(S, j, Fact(l))
BadSets(l, k) == {S \in Subsets(l, k) : \E a \in Polys(k) : \E x \in {2, 3} : PowMod(Sig(l, S, a, x, TRUE), E, N) # x}
ASSUME PrintT(<<"D", D, "units", Cardinality(Units)>>)
ASSUME PrintT(<<"exact l=2..5", AllExact(2), AllExact(3), AllExact(4), AllExact(5)>>)
ASSUME PrintT(<<"good (3,2)", Good(3, 2, FALSE), "good (4,3)", Good(4, 3, FALSE), "good (5,3)", Good(5, 3, FALSE)>>)
ASSUME PrintT(<<"buggy bad sets (3,2)", BadSets(3, 2), "(5,3)", BadSets(5, 3)>>)
====
