---- MODULE GenHpke ----
EXTENDS Integers, Sequences, FiniteSets, TLC, Json, SequencesExt
B == 256
Nn == 12
PT == {0, 1}
AAD == {0, 1}
D == 10
VARIABLES sseq, oseq, wire, nseal, nopen, last, hist
INSTANCE HpkeContextCore
Starts == { [i \in 1..Nn |-> 0], [i \in 1..Nn |-> IF i = Nn THEN 254 ELSE 0], [i \in 1..Nn |-> IF i = Nn THEN 254 ELSE IF i = Nn-1 THEN 255 ELSE 0],
            [i \in 1..Nn |-> IF i = Nn THEN 253 ELSE 255], [i \in 1..Nn |-> IF i = Nn THEN 254 ELSE IF i > Nn-4 THEN 255 ELSE 0] }
GInit == /\ sseq \in Starts /\ oseq = sseq /\ wire = {} /\ nseal = 0 /\ nopen = 0 /\ last = <<"init">>
         /\ hist = << [op |-> "start", seq |-> sseq] >>
Rec(op, args) == hist' = Append(hist, [op |-> op, args |-> args, sseq |-> sseq', oseq |-> oseq', res |-> last'])
GNext == /\ Len(hist) <= D
         /\ \/ \E p \in PT, a \in AAD : Seal(p, a) /\ Rec("seal", <<p, a>>)
            \/ SealOverflow /\ Rec("seal", <<0, 0>>)
            \/ \E c \in wire, a \in AAD : (OpenOk(c, a) \/ OpenFail(c, a) \/ OpenOverflow(c, a)) /\ Rec("open", <<c.k, a>>)
GSpec == GInit /\ [][GNext]_<<sseq, oseq, wire, nseal, nopen, last, hist>>
ASSUME TLCSet(1, {})
Collect == (Len(hist) = D + 1) => TLCSet(1, TLCGet(1) \cup {hist})
Post == JsonSerialize("behaviours.json", SetToSeq(TLCGet(1)))
====
