SPECIFICATION GSpec
INVARIANT Collect
POSTCONDITION Post
CHECK_DEADLOCK FALSE
