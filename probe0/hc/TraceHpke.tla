---- MODULE TraceHpke ----
EXTENDS Integers, Sequences, FiniteSets, TLC, Json
B == 256
Nn == 12
PT == {0, 1}
AAD == {0, 1}
VARIABLES sseq, oseq, wire, nseal, nopen, last, l
INSTANCE HpkeContextCore   \* actions Seal/SealOverflow/OpenOk/OpenFail/OpenOverflow over the same variables
Tr == ndJsonDeserialize("trace.ndjson")
ToFn(s) == [i \in 1..Nn |-> s[i]]
Cur == Tr[l]
IsEv(e) == l <= Len(Tr) /\ Cur.ev = e /\ l' = l + 1
Post == sseq' = ToFn(Cur.sseq) /\ oseq' = ToFn(Cur.oseq)      \* logged post-state must match the action's
\* ciphertext ordinal k within this trace -> wire element
CtOf(k) == CHOOSE c \in wire : c.k = k
TReset == /\ IsEv("reset") /\ sseq' = ToFn(Cur.sseq) /\ oseq' = ToFn(Cur.oseq)
          /\ wire' = {} /\ nseal' = 0 /\ nopen' = 0 /\ last' = <<"init">>
TSealOk == IsEv("seal") /\ Cur.ok /\ Seal(Cur.pt, Cur.aad) /\ Post
TSealOv == IsEv("seal") /\ ~Cur.ok /\ SealOverflow /\ Post
TOpenOk == /\ IsEv("open") /\ Cur.ok /\ OpenOk(CtOf(Cur.k), Cur.aad) /\ Post
           /\ CtOf(Cur.k).pt = Cur.gotpt                      \* plaintext released is the one sealed
TOpenFail == IsEv("open") /\ ~Cur.ok /\ (OpenFail(CtOf(Cur.k), Cur.aad) \/ OpenOverflow(CtOf(Cur.k), Cur.aad)) /\ Post
TRestore == IsEv("restore") /\ UNCHANGED <<sseq, oseq, wire, nseal, nopen, last>> /\ Post
TNext == TReset \/ TSealOk \/ TSealOv \/ TOpenOk \/ TOpenFail \/ TRestore
TInit == l = 1 /\ sseq = [i \in 1..Nn |-> 0] /\ oseq = sseq /\ wire = {} /\ nseal = 0 /\ nopen = 0 /\ last = <<"init">>
TSpec == TInit /\ [][TNext]_<<sseq, oseq, wire, nseal, nopen, last, l>>
HighWater == TLCSet(1, IF l > TLCGet(1) THEN l ELSE TLCGet(1))
ASSUME TLCSet(1, 0)
Accepted == IF TLCGet(1) = Len(Tr) + 1 THEN TRUE
            ELSE PrintT(<<"REJECTED at line", TLCGet(1), Tr[TLCGet(1)]>>) /\ FALSE
====
