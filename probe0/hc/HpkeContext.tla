---- MODULE HpkeContext ----
EXTENDS Integers, Sequences, FiniteSets, TLC
CONSTANTS B, Nn, PT, AAD      \* digit base, counter width, plaintext ids, aad ids
Digits == 0..(B-1)
Ctr == [1..Nn -> Digits]      \* big-endian: index 1 most significant
AllMax(s) == \A i \in 1..Nn : s[i] = B-1
RECURSIVE IncFrom(_,_)
\* digit-wise increment with carry, as in increment(): from least significant digit
IncFrom(s, i) == IF i = 0 THEN s
                 ELSE IF s[i] = B-1 THEN IncFrom([s EXCEPT ![i] = 0], i-1)
                 ELSE [s EXCEPT ![i] = s[i] + 1]
Inc(s) == IncFrom(s, Nn)
RECURSIVE ToIntFrom(_,_)
ToIntFrom(s, i) == IF i = 0 THEN 0 ELSE ToIntFrom(s, i-1) * B + s[i]
ToInt(s) == ToIntFrom(s, Nn)

VARIABLES sseq, oseq,         \* sealer / opener sequence numbers
          wire,               \* set of ciphertexts produced: [n |-> nonce ctr, pt, aad, k |-> ordinal]
          nseal, nopen,       \* counts of successful seals / opens
          last                \* last result (observation only)
vars == <<sseq, oseq, wire, nseal, nopen, last>>
StartSet == Ctr
Init == /\ sseq \in StartSet /\ oseq = sseq
        /\ wire = {} /\ nseal = 0 /\ nopen = 0 /\ last = <<"init">>
Seal(p, a) == /\ ~AllMax(sseq)
              /\ wire' = wire \cup {[n |-> sseq, pt |-> p, aad |-> a, k |-> nseal]}
              /\ sseq' = Inc(sseq) /\ nseal' = nseal + 1 /\ last' = <<"sealed">>
              /\ UNCHANGED <<oseq, nopen>>
SealOverflow == /\ AllMax(sseq) /\ last' = <<"seal-overflow">> /\ UNCHANGED <<sseq, oseq, wire, nseal, nopen>>
OpenOk(c, a) == /\ c \in wire /\ c.n = oseq /\ c.aad = a /\ ~AllMax(oseq)
                /\ oseq' = Inc(oseq) /\ nopen' = nopen + 1 /\ last' = <<"opened", c.pt, c.k>>
                /\ UNCHANGED <<sseq, wire, nseal>>
OpenFail(c, a) == /\ c \in wire /\ (c.n # oseq \/ c.aad # a)
                  /\ last' = <<"open-fail">> /\ UNCHANGED <<sseq, oseq, wire, nseal, nopen>>
OpenOverflow(c, a) == /\ c \in wire /\ c.n = oseq /\ c.aad = a /\ AllMax(oseq)
                      /\ last' = <<"open-overflow">> /\ UNCHANGED <<sseq, oseq, wire, nseal, nopen>>
Next == \/ \E p \in PT, a \in AAD : Seal(p, a)
        \/ SealOverflow
        \/ \E c \in wire, a \in AAD : OpenOk(c, a) \/ OpenFail(c, a) \/ OpenOverflow(c, a)
Spec == Init /\ [][Next]_vars
NonceUnique == \A c1, c2 \in wire : c1.n = c2.n => c1 = c2
LockStep == last[1] = "opened" => last[3] = nopen - 1
IncIsPlusOne == \A s \in Ctr : ~AllMax(s) => ToInt(Inc(s)) = ToInt(s) + 1
NoWrap == \A c \in wire : ~AllMax(c.n)
FailKeeps == [][(last' = <<"open-fail">> \/ last' = <<"open-overflow">>) => oseq' = oseq]_vars
====
