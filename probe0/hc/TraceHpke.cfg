SPECIFICATION TSpec
INVARIANTS NonceUnique LockStep NoWrap
CONSTRAINT HighWater
POSTCONDITION Accepted
CHECK_DEADLOCK FALSE
