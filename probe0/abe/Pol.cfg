
