---- MODULE Pol ----
EXTENDS Integers, Sequences, Json, TLC, FiniteSets, SequencesExt
Labels == {"a","b"}
Vals == {"x","y"}
AVals == {"none","x","y","z"}
Leaves == { [k |-> "leaf", l |-> l, v |-> v] : l \in Labels, v \in Vals }
WithNot(S) == S \cup { [k |-> "not", c |-> f] : f \in S }
Bin(S, T) == { [k |-> op, a |-> f, b |-> g] : op \in {"and","or"}, f \in S, g \in T }
F1 == WithNot(Leaves)
F2 == WithNot(Bin(F1, F1))
F3 == WithNot(Bin(F2, F1) \cup Bin(F1, F2))
All == F1 \cup F2 \cup F3
\* scheme semantics: push negation to leaves; leaf holds iff label present and (value equal XOR negated)
RECURSIVE Ev(_,_,_)
Ev(f, at, neg) == CASE f.k = "leaf" -> (at[f.l] # "none" /\ ((at[f.l] = f.v) # neg))
                    [] f.k = "not" -> Ev(f.c, at, ~neg)
                    [] f.k = "and" -> IF neg THEN Ev(f.a, at, neg) \/ Ev(f.b, at, neg) ELSE Ev(f.a, at, neg) /\ Ev(f.b, at, neg)
                    [] f.k = "or"  -> IF neg THEN Ev(f.a, at, neg) /\ Ev(f.b, at, neg) ELSE Ev(f.a, at, neg) \/ Ev(f.b, at, neg)
RECURSIVE Str(_)
Str(f) == CASE f.k = "leaf" -> f.l \o ":" \o f.v
            [] f.k = "not" -> "not (" \o Str(f.c) \o ")"
            [] OTHER -> "(" \o Str(f.a) \o " " \o f.k \o " " \o Str(f.b) \o ")"
Ats == [Labels -> AVals]
Row(f) == [p |-> Str(f), sat |-> [at \in Ats |-> Ev(f, at, FALSE)]]
AtKey(at) == at["a"] \o "," \o at["b"]
Out == { [p |-> Str(f), t |-> { AtKey(at) : at \in {x \in Ats : Ev(f, x, FALSE)} }] : f \in All }
ASSUME PrintT(<<Cardinality(F1), Cardinality(F2), Cardinality(F3)>>)
ASSUME JsonSerialize("pol.json", SetToSeq(Out))
====
