---- MODULE Ctr ----
EXTENDS Integers
VARIABLES
  \* @type: Int;
  sseq,
  \* @type: Int;
  oseq,
  \* @type: Set(Int);
  used,
  \* @type: Int;
  nseal
MAXV == 1000000
Init == sseq = 0 /\ oseq = 0 /\ used = {} /\ nseal = 0
Seal == sseq < MAXV /\ used' = used \union {sseq} /\ sseq' = sseq + 1 /\ nseal' = nseal + 1 /\ UNCHANGED oseq
Open == oseq < sseq /\ oseq' = oseq + 1 /\ UNCHANGED <<sseq, used, nseal>>
Next == Seal \/ Open
IndInv == /\ sseq \in 0..MAXV /\ oseq \in 0..sseq /\ nseal = sseq
          /\ \A n \in used : n < sseq
IndInit == IndInv
====
