---- MODULE X25519 ----
EXTENDS Integers, Sequences, TLC
CONSTANTS KBytes, UBytes          \* 32-byte little-endian inputs
B == 4096
Max(a,b) == IF a > b THEN a ELSE b
Min(a,b) == IF a < b THEN a ELSE b
Limb(x, i) == IF i <= Len(x) THEN x[i] ELSE 0
RECURSIVE SumR(_,_,_,_,_)
SumR(x, y, k, i, hi) == IF i > hi THEN 0 ELSE x[i] * y[k - i + 1] + SumR(x, y, k, i + 1, hi)
Col(x, y, k) == SumR(x, y, k, Max(1, k - Len(y) + 1), Min(k, Len(x)))
RECURSIVE MulC(_,_,_,_,_)
MulC(x, y, k, c, acc) == IF k > Len(x) + Len(y) THEN acc
                         ELSE LET t == (IF k < Len(x) + Len(y) THEN Col(x, y, k) ELSE 0) + c
                              IN MulC(x, y, k + 1, t \div B, Append(acc, t % B))
Mul(x, y) == MulC(x, y, 1, 0, <<>>)
RECURSIVE AddC(_,_,_,_,_)
AddC(x, y, k, c, acc) == IF k > Max(Len(x), Len(y)) THEN (IF c = 0 THEN acc ELSE Append(acc, c))
   ELSE LET t == Limb(x, k) + Limb(y, k) + c IN AddC(x, y, k + 1, t \div B, Append(acc, t % B))
Add(x, y) == AddC(x, y, 1, 0, <<>>)
RECURSIVE SubC(_,_,_,_,_)
SubC(x, y, k, b, acc) == IF k > Max(Len(x), Len(y)) THEN <<acc, b>>
   ELSE LET t == Limb(x, k) - Limb(y, k) - b
        IN IF t < 0 THEN SubC(x, y, k + 1, 1, Append(acc, t + B)) ELSE SubC(x, y, k + 1, 0, Append(acc, t))
Sub(x, y) == SubC(x, y, 1, 0, <<>>)[1]
GE(x, y) == SubC(x, y, 1, 0, <<>>)[2] = 0
\* p = 2^255 - 19 : 21 full limbs, limb 22 = 7
P == <<4077, 4095, 4095, 4095, 4095, 4095, 4095, 4095, 4095, 4095, 4095, 4095, 4095, 4095, 4095, 4095, 4095, 4095, 4095, 4095, 4095, 7>>
RECURSIVE HiR(_,_,_,_)
HiR(x, k, n, acc) == IF k > n THEN acc ELSE HiR(x, k + 1, n, Append(acc, (Limb(x, 21 + k) \div 8) + ((Limb(x, 22 + k) % 8) * 512)))
Hi255(x) == HiR(x, 1, Max(Len(x) - 21, 1), <<>>)
RECURSIVE LoR(_,_,_)
LoR(x, k, acc) == IF k > 22 THEN acc ELSE LoR(x, k + 1, Append(acc, IF k < 22 THEN Limb(x, k) ELSE Limb(x, 22) % 8))
Lo255(x) == LoR(x, 1, <<>>)
RECURSIVE IsZeroSeq(_,_)
IsZeroSeq(x, i) == IF i > Len(x) THEN TRUE ELSE x[i] = 0 /\ IsZeroSeq(x, i + 1)
RECURSIVE Fold(_)
Fold(x) == LET hi == Hi255(x) IN IF IsZeroSeq(hi, 1) THEN Lo255(x) ELSE Fold(Add(Lo255(x), Mul(hi, <<19>>)))
RECURSIVE FixR(_,_,_)
FixR(x, k, acc) == IF k > 22 THEN acc ELSE FixR(x, k + 1, Append(acc, Limb(x, k)))
Fix22(x) == FixR(x, 1, <<>>)
Red(x) == LET y == Fold(x) IN Fix22(IF GE(y, P) THEN Sub(y, P) ELSE y)
FMul(a, b) == Red(Mul(a, b))
FAdd(a, b) == Red(Add(a, b))
FSub(a, b) == Red(Add(a, Sub(P, b)))                \* a, b canonical
A24 == <<2881, 29>>                                 \* 121665
\* ---- byte <-> limb conversion ----
RECURSIVE FromBytes(_,_)
FromBytes(bs, i) == IF i = 0 THEN <<0>> ELSE Add(Mul(FromBytes(bs, i - 1), <<256>>), <<bs[Len(bs) - i + 1]>>)   \* Horner from the top byte
\* FromBytes(bs, n) consumes the n highest-index... simpler: build from most significant byte down
RECURSIVE Horner(_,_)
Horner(bs, i) == IF i > Len(bs) THEN <<0>> ELSE Add(Mul(Horner(bs, i + 1), <<256>>), <<bs[i]>>)
BitOf(x, k) == (Limb(x, (k \div 12) + 1) \div (2^(k % 12))) % 2
ToBytes(x) == [j \in 1..32 |-> LET b0 == 8 * (j - 1)
                               IN BitOf(x,b0) + 2*BitOf(x,b0+1) + 4*BitOf(x,b0+2) + 8*BitOf(x,b0+3)
                                  + 16*BitOf(x,b0+4) + 32*BitOf(x,b0+5) + 64*BitOf(x,b0+6) + 128*BitOf(x,b0+7)]
Clamped == [i \in 1..32 |-> IF i = 1 THEN KBytes[1] - (KBytes[1] % 8)
                            ELSE IF i = 32 THEN (KBytes[32] % 64) + 64 ELSE KBytes[i]]
KBit(t) == (Clamped[(t \div 8) + 1] \div (2^(t % 8))) % 2
UMasked == [i \in 1..32 |-> IF i = 32 THEN UBytes[32] % 128 ELSE UBytes[i]]
ByteBit(bs, n) == IF (n \div 8) + 1 > 32 THEN 0 ELSE (bs[(n \div 8) + 1] \div (2^(n % 8))) % 2
RECURSIVE LimbFromBits(_,_,_)
LimbFromBits(bs, k, b) == IF b = 12 THEN 0 ELSE ByteBit(bs, 12*(k-1) + b) * (2^b) + LimbFromBits(bs, k, b + 1)
RECURSIVE B2L(_,_,_)
B2L(bs, k, acc) == IF k > 22 THEN acc ELSE B2L(bs, k + 1, Append(acc, LimbFromBits(bs, k, 0)))
BytesToLimbs(bs) == B2L(bs, 1, <<>>)
X1 == Red(BytesToLimbs(UMasked))
One == Fix22(<<1>>)
Zero22 == Fix22(<<0>>)
Pm2Bit(i) == BitOf(Sub(P, <<2>>), i)
VARIABLES x2, z2, x3, z3, t, swap, ph, acc
vars == <<x2, z2, x3, z3, t, swap, ph, acc>>
Init == x2 = One /\ z2 = Zero22 /\ x3 = X1 /\ z3 = One /\ t = 254 /\ swap = 0 /\ ph = "ladder" /\ acc = One
Step == /\ ph = "ladder" /\ t >= 0
        /\ LET kt == KBit(t)
               sw == (swap + kt) % 2
               a2 == IF sw = 1 THEN x3 ELSE x2     c2 == IF sw = 1 THEN z3 ELSE z2
               a3 == IF sw = 1 THEN x2 ELSE x3     c3 == IF sw = 1 THEN z2 ELSE z3
               AA0 == FAdd(a2, c2)   AA == FMul(AA0, AA0)
               BB0 == FSub(a2, c2)   BB == FMul(BB0, BB0)
               E == FSub(AA, BB)
               C == FAdd(a3, c3)     D == FSub(a3, c3)
               DA == FMul(D, AA0)    CB == FMul(C, BB0)
               s1 == FAdd(DA, CB)    d1 == FSub(DA, CB)
           IN /\ x3' = FMul(s1, s1)
              /\ z3' = FMul(X1, FMul(d1, d1))
              /\ x2' = FMul(AA, BB)
              /\ z2' = FMul(E, FAdd(AA, FMul(A24, E)))
              /\ swap' = kt
        /\ t' = t - 1 /\ UNCHANGED <<ph, acc>>
Finish == /\ ph = "ladder" /\ t < 0
          /\ x2' = (IF swap = 1 THEN x3 ELSE x2) /\ z2' = (IF swap = 1 THEN z3 ELSE z2)
          /\ ph' = "inv" /\ t' = 254 /\ acc' = One /\ UNCHANGED <<x3, z3, swap>>
InvStep == /\ ph = "inv" /\ t >= 0
           /\ LET sq == FMul(acc, acc) IN acc' = (IF Pm2Bit(t) = 1 THEN FMul(sq, z2) ELSE sq)
           /\ t' = t - 1 /\ UNCHANGED <<x2, z2, x3, z3, swap, ph>>
Done == /\ ph = "inv" /\ t < 0 /\ ph' = "done" /\ acc' = FMul(x2, acc) /\ UNCHANGED <<x2, z2, x3, z3, t, swap>>
Next == Step \/ Finish \/ InvStep \/ Done
Spec == Init /\ [][Next]_vars
Show == ph = "done" => PrintT(<<"OUT", ToBytes(acc)>>)
====
