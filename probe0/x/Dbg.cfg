INIT Init
NEXT Finish
INVARIANT D5
CHECK_DEADLOCK FALSE
CONSTANTS
 KBytes <- KB
 UBytes <- UB
