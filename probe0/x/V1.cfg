SPECIFICATION Spec
INVARIANT Show
CHECK_DEADLOCK FALSE
CONSTANTS
 KBytes <- KB
 UBytes <- UB
