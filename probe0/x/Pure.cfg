
