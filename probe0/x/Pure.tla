---- MODULE Pure ----
EXTENDS Integers, Sequences, TLC
KBytes == [i \in 1..32 |-> i]
UBytes == [i \in 1..32 |-> 2*i]
B == 4096
Max(a,b) == IF a > b THEN a ELSE b
Min(a,b) == IF a < b THEN a ELSE b
Limb(x, i) == IF i <= Len(x) THEN x[i] ELSE 0
RECURSIVE SumR(_,_,_,_,_)
SumR(x, y, k, i, hi) == IF i > hi THEN 0 ELSE x[i] * y[k - i + 1] + SumR(x, y, k, i + 1, hi)
Col(x, y, k) == SumR(x, y, k, Max(1, k - Len(y) + 1), Min(k, Len(x)))
RECURSIVE MulC(_,_,_,_,_)
MulC(x, y, k, c, acc) == IF k > Len(x) + Len(y) THEN acc
                         ELSE LET t == (IF k < Len(x) + Len(y) THEN Col(x, y, k) ELSE 0) + c
                              IN MulC(x, y, k + 1, t \div B, Append(acc, t % B))
Mul(x, y) == MulC(x, y, 1, 0, <<>>)
RECURSIVE AddC(_,_,_,_,_)
AddC(x, y, k, c, acc) == IF k > Max(Len(x), Len(y)) THEN (IF c = 0 THEN acc ELSE Append(acc, c))
   ELSE LET t == Limb(x, k) + Limb(y, k) + c IN AddC(x, y, k + 1, t \div B, Append(acc, t % B))
Add(x, y) == AddC(x, y, 1, 0, <<>>)
RECURSIVE SubC(_,_,_,_,_)
SubC(x, y, k, b, acc) == IF k > Max(Len(x), Len(y)) THEN <<acc, b>>
   ELSE LET t == Limb(x, k) - Limb(y, k) - b
        IN IF t < 0 THEN SubC(x, y, k + 1, 1, Append(acc, t + B)) ELSE SubC(x, y, k + 1, 0, Append(acc, t))
Sub(x, y) == SubC(x, y, 1, 0, <<>>)[1]
GE(x, y) == SubC(x, y, 1, 0, <<>>)[2] = 0
\* p = 2^255 - 19 : 21 full limbs, limb 22 = 7
P == [i \in 1..22 |-> IF i = 1 THEN 4096 - 19 ELSE IF i = 22 THEN 7 ELSE 4095]
Hi255(x) == [k \in 1..Max(Len(x) - 21, 1) |-> (Limb(x, 21 + k) \div 8) + ((Limb(x, 22 + k) % 8) * 512)]
Lo255(x) == [k \in 1..22 |-> IF k < 22 THEN Limb(x, k) ELSE Limb(x, 22) % 8]
RECURSIVE IsZeroSeq(_,_)
IsZeroSeq(x, i) == IF i > Len(x) THEN TRUE ELSE x[i] = 0 /\ IsZeroSeq(x, i + 1)
RECURSIVE Fold(_)
Fold(x) == LET hi == Hi255(x) IN IF IsZeroSeq(hi, 1) THEN Lo255(x) ELSE Fold(Add(Lo255(x), Mul(hi, <<19>>)))
Fix22(x) == [k \in 1..22 |-> Limb(x, k)]
Red(x) == LET y == Fold(x) IN Fix22(IF GE(y, P) THEN Sub(y, P) ELSE y)
FMul(a, b) == Red(Mul(a, b))
FAdd(a, b) == Red(Add(a, b))
FSub(a, b) == Red(Add(a, Sub(P, b)))                \* a, b canonical
A24 == <<2881, 29>>                                 \* 121665
\* ---- byte <-> limb conversion ----
RECURSIVE FromBytes(_,_)
FromBytes(bs, i) == IF i = 0 THEN <<0>> ELSE Add(Mul(FromBytes(bs, i - 1), <<256>>), <<bs[Len(bs) - i + 1]>>)   \* Horner from the top byte
\* FromBytes(bs, n) consumes the n highest-index... simpler: build from most significant byte down
RECURSIVE Horner(_,_)
Horner(bs, i) == IF i > Len(bs) THEN <<0>> ELSE Add(Mul(Horner(bs, i + 1), <<256>>), <<bs[i]>>)
BitOf(x, k) == (Limb(x, (k \div 12) + 1) \div (2^(k % 12))) % 2
ToBytes(x) == [j \in 1..32 |-> LET b0 == 8 * (j - 1)
                               IN BitOf(x,b0) + 2*BitOf(x,b0+1) + 4*BitOf(x,b0+2) + 8*BitOf(x,b0+3)
                                  + 16*BitOf(x,b0+4) + 32*BitOf(x,b0+5) + 64*BitOf(x,b0+6) + 128*BitOf(x,b0+7)]
Clamped == [i \in 1..32 |-> IF i = 1 THEN KBytes[1] - (KBytes[1] % 8)
                            ELSE IF i = 32 THEN (KBytes[32] % 64) + 64 ELSE KBytes[i]]
KBit(t) == (Clamped[(t \div 8) + 1] \div (2^(t % 8))) % 2
UMasked == [i \in 1..32 |-> IF i = 32 THEN UBytes[32] % 128 ELSE UBytes[i]]
X1 == Red(Horner(UMasked, 1))
One == Fix22(<<1>>)
Zero22 == Fix22(<<0>>)
Pm2Bit(i) == BitOf(Sub(P, <<2>>), i)

ASSUME PrintT(<<"add", Add(<<4095, 1>>, <<1>>)>>)
ASSUME PrintT(<<"mul", Mul(<<4095, 1>>, <<2>>)>>)
ASSUME PrintT(<<"horner2", Horner(<<1, 2>>, 1)>>)
ASSUME PrintT(<<"hi", Hi255(<<1,2,3>>)>>)
ASSUME PrintT(<<"iszero", IsZeroSeq(Hi255(<<1,2,3>>), 1)>>)
ASSUME PrintT(<<"lo", Lo255(<<1,2,3>>)>>)
ASSUME PrintT(<<"fold", Fold(<<1,2,3>>)>>)
ASSUME PrintT(<<"red", Red(<<1,2,3>>)>>)
====
