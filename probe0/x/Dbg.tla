---- MODULE Dbg ----
EXTENDS V1
D1 == PrintT(<<"x3", x3>>)
D2 == PrintT(<<"mul", Mul(x3, x3)>>)
D3 == PrintT(<<"hi", Hi255(Mul(x3, x3)), "lo", Lo255(Mul(x3, x3))>>)
D4 == PrintT(<<"fold1", Add(Lo255(Mul(x3, x3)), Mul(Hi255(Mul(x3, x3)), <<19>>))>>)
D5 == PrintT(<<"red", Red(Mul(x3, x3))>>)
====
