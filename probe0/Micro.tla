---- MODULE Micro ----
EXTENDS Integers, Sequences, TLC, Bitwise
Q == 3329
RECURSIVE Iter(_,_)
Iter(a, n) == IF n = 0 THEN a ELSE Iter(TLCEval([i \in 0..255 |-> (a[i] * 17 + a[(i+128) % 256] + n) % Q]), n-1)
A0 == [i \in 0..255 |-> i]
RECURSIVE IterB(_,_)
IterB(a, n) == IF n = 0 THEN a ELSE IterB(TLCEval([i \in 0..99 |-> ((a[i] ^^ a[(i+5) % 100]) & 65535) | shiftR(a[(i+1)%100], 3)]), n-1)
B0 == [i \in 0..99 |-> i * 601 % 65536]
ASSUME PrintT(<<"start", JavaTime>>)
ASSUME PrintT(Iter(A0, 200)[3])
ASSUME PrintT(<<"mid", JavaTime>>)
ASSUME PrintT(IterB(B0, 200)[3])
ASSUME PrintT(<<"end", JavaTime>>)
====
