---- MODULE BigProbe ----
EXTENDS Integers, Sequences, Json, TLC, TLCExt
\* little-endian base-256 naturals as sequences of 0..255
B == 256
RECURSIVE ColSum(_,_,_,_)
ColSum(x, y, k, i) == \* sum_{i<=k} x[i]*y[k-i+... ] 1-indexed
  IF i > Len(x) \/ i > k THEN 0
  ELSE (IF k - i + 1 <= Len(y) THEN x[i] * y[k-i+1] ELSE 0) + ColSum(x, y, k, i+1)
\* product columns k = 1 .. Len(x)+Len(y)-1 (index k corresponds to weight k-1); use k+1 convention: pairs i + j = k+1
Cols(x, y) == [k \in 1..(Len(x)+Len(y)) |-> ColSum(x, y, k, 1)]
RECURSIVE Carry(_,_,_)
Carry(cols, k, c) == IF k > Len(cols) THEN (IF c = 0 THEN <<>> ELSE <<c % B>> \o Carry(cols, k, c \div B))
                     ELSE LET t == cols[k] + c IN <<t % B>> \o Carry(cols, k+1, t \div B)
Mul(x, y) == Carry(Cols(x, y), 1, 0)
RECURSIVE AddC(_,_,_,_)
AddC(x, y, k, c) == IF k > Len(x) /\ k > Len(y) THEN (IF c = 0 THEN <<>> ELSE <<c>>)
   ELSE LET t == (IF k <= Len(x) THEN x[k] ELSE 0) + (IF k <= Len(y) THEN y[k] ELSE 0) + c
        IN <<t % B>> \o AddC(x, y, k+1, t \div B)
Add(x, y) == AddC(x, y, 1, 0)
RECURSIVE Norm(_)
Norm(x) == IF Len(x) > 0 /\ x[Len(x)] = 0 THEN Norm(SubSeq(x, 1, Len(x)-1)) ELSE x
Eq(x, y) == Norm(x) = Norm(y)
Tr == ndJsonDeserialize("trace.ndjson")
P == Tr[1].p
Ok(r) == Eq(Mul(r.x, r.y), Add(Mul(r.q, P), r.r))
VARIABLE l
Init == l = 1
Next == l <= Len(Tr) /\ Ok(Tr[l]) /\ l' = l + 1
Spec == Init /\ [][Next]_l
Accepted == TLCGet("stats").diameter - 1 = Len(Tr)
====
