"""Shared plumbing for /verif checks: scratch dirs, TLC runs, overlay Go builds,
evidence writing, known-findings matching.  Exit codes: 0 held, 1 violation, 2 infrastructure."""
import atexit, json, os, re, shutil, subprocess, sys, tempfile, time, hashlib

VERIF = os.path.dirname(os.path.dirname(os.path.abspath(__file__)))
REPO = os.environ.get("VERIF_REPO", "/repo")
ALWAYS_INTREE = ("vdaf/prio3/zzverifrun",)      # helper packages living below internal-import boundaries
JAR = "/opt/veriftools/tla/tla2tools.jar:/opt/veriftools/tla/CommunityModules-deps.jar"
SEED = int(os.environ.get("VERIF_SEED", "1") or "1")
NCPU = os.cpu_count() or 4

GOENV = dict(os.environ, GOFLAGS="-mod=mod", GOPROXY="off", GOSUMDB="off", GOTOOLCHAIN="local",
             CGO_ENABLED=os.environ.get("CGO_ENABLED", "1"))


def _goenv():
    """Go's build cache does not track assembly headers #included from ANOTHER package directory
    (dh/x448/curve_amd64.s includes math/fp448/fp_amd64.h), so a changed header could leave a stale object in
    the cache.  Key the cache directory by the digest of every .h file in the tree: unchanged tree -> the usual
    warm cache; a modified header -> a fresh cache and a full (slow, correct) rebuild."""
    h = hashlib.sha256()
    for root, dirs, files in os.walk(REPO):
        dirs[:] = sorted(x for x in dirs if x != ".git")
        for f in sorted(files):
            if f.endswith(".h"):
                h.update(f.encode())
                with open(os.path.join(root, f), "rb") as fh:
                    h.update(fh.read())
    base = os.environ.get("GOCACHE") or os.path.expanduser("~/.cache/go-build")
    env = dict(GOENV)
    env["GOCACHE"] = base + "-verif-" + h.hexdigest()[:12]
    return env


class Infra(Exception):
    """Something in the machinery (not the code under test) failed -> exit 2."""


_scratch = []


def scratch(prefix="verif"):
    base = "/dev/shm" if os.path.isdir("/dev/shm") and os.access("/dev/shm", os.W_OK) else None
    d = tempfile.mkdtemp(prefix=prefix + "-", dir=base)
    _scratch.append(d)
    return d


def _cleanup():
    if os.environ.get("VERIF_KEEP"):
        sys.stderr.write("kept scratch: %s\n" % " ".join(_scratch))
        return
    for d in _scratch:
        shutil.rmtree(d, ignore_errors=True)


atexit.register(_cleanup)


def log(*a):
    print(*a, file=sys.stderr, flush=True)


# --------------------------------------------------------------------------- TLC

class TlcResult:
    def __init__(self, rc, out, wall):
        self.rc, self.out, self.wall = rc, out, wall
        self.generated = self.distinct = 0
        m = re.findall(r"(\d+) states generated, (\d+) distinct states found", out)
        if m:
            self.generated, self.distinct = int(m[-1][0]), int(m[-1][1])
        self.depth = 0
        m = re.search(r"depth of the complete state graph search is (\d+)", out)
        if m:
            self.depth = int(m.group(1))
        self.ok = (rc == 0) and ("Error:" not in out)

    def tail(self, n=40):
        return "\n".join(self.out.splitlines()[-n:])


def tlc(workdir, module, cfg=None, workers=1, heap="3g", timeout=600, simulate=None, depth=None,
        seed=None, extra=(), deadlock=False, stack="64m", coverage=False):
    """Run TLC on workdir/module.tla with cfg (path relative to workdir).  Returns TlcResult."""
    meta = os.path.join(workdir, "meta-%s-%d" % (module, int(time.time() * 1000) % 10 ** 9))
    jtmp = os.path.join(workdir, "jtmp")   # TLC / SANY litter java.io.tmpdir (tlc-*, SANY*): keep that inside the scratch directory
    os.makedirs(jtmp, exist_ok=True)
    cmd = ["java", "-XX:+UseParallelGC", "-Xmx" + heap, "-Xss" + stack, "-Djava.io.tmpdir=" + jtmp, "-cp", JAR, "tlc2.TLC",
           "-metadir", meta, "-workers", str(workers)]
    if cfg:
        cmd += ["-config", cfg]
    if simulate is not None:
        cmd += ["-simulate", simulate]
        if depth:
            cmd += ["-depth", str(depth)]
    if seed is not None:
        cmd += ["-seed", str(seed)]
    if deadlock:
        cmd += ["-deadlock"]
    if coverage:
        cmd += ["-coverage", "1"]
    cmd += list(extra) + [module]
    t0 = time.time()
    try:
        p = subprocess.run(cmd, cwd=workdir, stdout=subprocess.PIPE, stderr=subprocess.STDOUT,
                           timeout=timeout, text=True, errors="replace")
    except subprocess.TimeoutExpired as e:
        raise Infra("TLC timeout after %ss on %s/%s" % (timeout, module, cfg))
    finally:
        shutil.rmtree(meta, ignore_errors=True)
    return TlcResult(p.returncode, p.stdout, time.time() - t0)


def stage_specs(workdir, *dirs):
    """Copy spec/lib and the given spec directories (relative to /verif/spec) flat into workdir."""
    for d in ("lib",) + dirs:
        src = os.path.join(VERIF, "spec", d)
        for f in os.listdir(src):
            p = os.path.join(src, f)
            if os.path.isfile(p):
                shutil.copy(p, os.path.join(workdir, f))


def tlc_must(res, what):
    if not res.ok:
        raise Infra("TLC failed on %s (rc=%s):\n%s" % (what, res.rc, res.tail(60)))
    return res


# --------------------------------------------------------------------------- Go

def write_overlay(workdir, drivers=(), intree=()):
    """drivers: names under harness/drivers/<name> -> $REPO/zzverif/<name>/ (vlib always added);
    intree: package paths (relative to repo) whose harness/intree/<pkg>/*.go are injected as
    zz_verif_<file> into $REPO/<pkg>/."""
    rep = {}
    hd = os.path.join(VERIF, "harness")
    for name in sorted(os.listdir(os.path.join(hd, "drivers"))):      # every helper package is visible to every build
        src = os.path.join(hd, "drivers", name)
        if not os.path.isdir(src):
            continue
        for f in sorted(os.listdir(src)):
            if f.endswith(".go") or f.endswith(".s"):
                rep[os.path.join(REPO, "zzverif", name, f)] = os.path.join(src, f)
    for pkg in sorted(set(intree) | set(ALWAYS_INTREE)):
        src = os.path.join(hd, "intree", pkg)
        for f in sorted(os.listdir(src)):
            if f.endswith(".go"):
                rep[os.path.join(REPO, pkg, "zz_verif_" + f)] = os.path.join(src, f)
    p = os.path.join(workdir, "overlay-%s.json" % hashlib.sha1(repr(sorted(rep)).encode()).hexdigest()[:8])
    with open(p, "w") as fh:
        json.dump({"Replace": rep}, fh)
    return p


def go_build_driver(workdir, name, tags="", race=False, out=None, timeout=900):
    ov = write_overlay(workdir, drivers=[name])
    out = out or os.path.join(workdir, "drv-%s%s%s" % (name, "-" + tags if tags else "", "-race" if race else ""))
    cmd = ["go", "build", "-overlay", ov, "-o", out]
    if tags:
        cmd += ["-tags", tags]
    if race:
        cmd += ["-race"]
    cmd += ["./zzverif/" + name]
    p = subprocess.run(cmd, cwd=REPO, env=_goenv(), stdout=subprocess.PIPE, stderr=subprocess.STDOUT,
                       text=True, timeout=timeout)
    if p.returncode != 0:
        raise Infra("go build of driver %s failed (a renamed identifier or a tree that does not compile):\n%s"
                    % (name, p.stdout[-4000:]))
    return out


def go_build_intree(workdir, pkg, tags="", race=False, timeout=900):
    """Build the test binary of $REPO/<pkg> with harness/intree/<pkg> injected."""
    ov = write_overlay(workdir, intree=[pkg])
    out = os.path.join(workdir, "intree-%s%s%s.test" % (pkg.replace("/", "_"), "-" + tags if tags else "",
                                                        "-race" if race else ""))
    cmd = ["go", "test", "-c", "-vet=off", "-overlay", ov, "-o", out]
    if tags:
        cmd += ["-tags", tags]
    if race:
        cmd += ["-race"]
    cmd += ["./" + pkg]
    p = subprocess.run(cmd, cwd=REPO, env=_goenv(), stdout=subprocess.PIPE, stderr=subprocess.STDOUT,
                       text=True, timeout=timeout)
    if p.returncode != 0:
        raise Infra("go test -c of %s with in-tree harness failed:\n%s" % (pkg, p.stdout[-4000:]))
    return out


def run(cmd, cwd=None, env=None, timeout=1800, check=True, what=None):
    t0 = time.time()
    try:
        p = subprocess.run(cmd, cwd=cwd, env=env, stdout=subprocess.PIPE, stderr=subprocess.STDOUT,
                           text=True, errors="replace", timeout=timeout)
    except subprocess.TimeoutExpired:
        raise Infra("timeout (%ss) running %s" % (timeout, what or cmd[0]))
    if check and p.returncode != 0:
        raise Infra("%s failed rc=%d:\n%s" % (what or cmd[0], p.returncode, p.stdout[-4000:]))
    p.wall = time.time() - t0
    return p


# --------------------------------------------------------------------------- ndjson

def read_ndjson(path):
    out = []
    with open(path) as fh:
        for line in fh:
            line = line.strip()
            if line:
                out.append(json.loads(line))
    return out


def write_ndjson(path, recs):
    with open(path, "w") as fh:
        for r in recs:
            fh.write(json.dumps(r, separators=(",", ":")) + "\n")


# --------------------------------------------------------------------------- findings / evidence

def load_findings(prop):
    p = os.path.join(VERIF, "known_findings.json")
    if not os.path.exists(p):
        return []
    with open(p) as fh:
        return [f for f in json.load(fh) if f.get("property") == prop and f.get("status") == "open"]


class Report:
    """Collects violations for one property run, matches them against known findings, writes
    evidence and decides the exit code."""

    def __init__(self, prop, tier, level):
        self.prop, self.tier, self.level = prop, tier, level
        self.t0 = time.time()
        self.violations = []   # (key, detail dict)
        self.cov = {"samples": []}
        self.assumptions = []
        self.notes = []

    def violation(self, key, detail):
        self.violations.append((key, detail))

    def add(self, **kw):
        for k, v in kw.items():
            if isinstance(v, int) and isinstance(self.cov.get(k), int):
                self.cov[k] += v
            else:
                self.cov[k] = v

    def sample(self, s, cap=6):
        if len(self.cov["samples"]) < cap:
            self.cov["samples"].append(s)

    def finish(self):
        known = load_findings(self.prop)
        new, seen_known = [], {}
        for key, detail in self.violations:
            hit = None
            for f in known:
                if re.fullmatch(f["key"], key):
                    hit = f
                    break
            if hit:
                seen_known.setdefault(hit["key"], (hit, []))[1].append(key)
            else:
                new.append((key, detail))
        for k, (f, keys) in seen_known.items():
            print("KNOWN-FINDING: property=%s %s (%d occurrence(s), e.g. %s)" % (self.prop, f.get("note", k), len(keys), keys[0]))
        rc = 0
        if new:
            rdir = os.path.join(VERIF, "replays", self.prop)
            os.makedirs(rdir, exist_ok=True)
            byk = {}
            for key, detail in new:
                byk.setdefault(key, detail)
            for i, (key, detail) in enumerate(sorted(byk.items())[:20]):
                path = os.path.join(rdir, "v%02d.json" % i)
                with open(path, "w") as fh:
                    json.dump({"property": self.prop, "key": key, "detail": detail}, fh, indent=1, default=str)
                print("VIOLATION property=%s replay=%s  (%s)" % (self.prop, path, key))
            rc = 1
        ev = {"property_id": self.prop, "tier": self.tier, "seed": SEED, "level": self.level,
              "coverage": self.cov, "assumptions": self.assumptions,
              "wall_s": round(time.time() - self.t0, 2), "violations": len(new),
              "known_findings_seen": sorted(seen_known)}
        os.makedirs(os.path.join(VERIF, "evidence"), exist_ok=True)
        with open(os.path.join(VERIF, "evidence", self.prop + ".json"), "w") as fh:
            json.dump(ev, fh, indent=1, default=str)
        return rc


def validate_lines(w, module, cfg, lines, heap="4g", timeout=1800, tracefile="trace.ndjson"):
    """Trace validation for traces whose lines are judged independently (the Trace spec keeps going
    and collects the set `bad` of rejected line numbers).  Returns (bad_indices_0based, TlcResult)."""
    write_ndjson(os.path.join(w, tracefile), lines)
    vp = os.path.join(w, "verdict.json")
    if os.path.exists(vp):
        os.remove(vp)
    r = tlc(w, module, cfg, workers=1, heap=heap, timeout=timeout)
    if not os.path.exists(vp) or not r.ok:
        raise Infra("trace validation %s gave no verdict:\n%s" % (module, r.tail(50)))
    v = json.load(open(vp))
    if v["consumed"] != v["total"] or v["total"] != len(lines):
        raise Infra("trace validation %s consumed %s of %s lines:\n%s" % (module, v["consumed"], len(lines), r.tail(30)))
    bad = v["bad"]
    if isinstance(bad, dict):
        bad = list(bad.values())
    return sorted(int(b) - 1 for b in bad), r


def validate_stateful(w, module, cfg, lines, trkey="tr", heap="4g", timeout=1800, max_rounds=12):
    """Trace validation for traces made of several independent sub-traces (field `trkey`), each a stateful
    history that starts with a reset/start line.  When TLC cannot consume a line the whole sub-trace is
    reported as rejected (with the offending line) and validation continues with the others.
    Returns (accepted_lines, rejected [(tr, line, tlc_tail)], total_states)."""
    rejected, states = [], 0
    cur = list(lines)
    for _ in range(max_rounds):
        if not cur:
            break
        write_ndjson(os.path.join(w, "trace.ndjson"), cur)
        vp = os.path.join(w, "verdict.json")
        if os.path.exists(vp):
            os.remove(vp)
        r = tlc(w, module, cfg, workers=1, heap=heap, timeout=timeout)
        if not os.path.exists(vp):
            raise Infra("trace validation %s produced no verdict:\n%s" % (module, r.tail(50)))
        v = json.load(open(vp))
        states += r.distinct
        if v["consumed"] >= v["total"] and r.ok:
            return cur, rejected, states
        if v["consumed"] >= v["total"] and not r.ok:
            raise Infra("trace validation %s: all lines consumed but TLC reported an error:\n%s" % (module, r.tail(50)))
        b = cur[min(v["consumed"], len(cur) - 1)]
        rejected.append((b[trkey], b, r.tail(10) if "is violated" in r.out else ""))
        cur = [x for x in cur if x[trkey] != b[trkey]]
    else:
        rejected.append((-1, {"note": "more rejected sub-traces exist; enumeration stopped after %d" % max_rounds}, ""))
    return cur, rejected, states
