"""C03 ML-KEM and Kyber compute exactly the functions of FIPS 203 / Kyber round 3.  spec/C03"""
import json, os, random, copy
from concurrent.futures import ThreadPoolExecutor
from vlib import common as C

LEVEL = "model_checking"


def mlkem512_job(w, i, job):
    d = os.path.join(w, "mk%d" % i)
    os.makedirs(d, exist_ok=True)
    C.stage_specs(d, "C03")
    json.dump(job, open(os.path.join(d, "job.json"), "w"))
    r = C.tlc(d, "MLKEM512Job", "MLKEM512Job.cfg", workers=1, heap="3g", timeout=1700, stack="256m")
    vp = os.path.join(d, "verdict.json")
    if not r.ok or not os.path.exists(vp):
        raise C.Infra("MLKEM512Job failed:\n%s" % r.tail(40))
    v = json.load(open(vp))
    if not v["done"]:
        raise C.Infra("MLKEM512Job did not reach the end:\n%s" % r.tail(20))
    return v, r.distinct


def run(tier, rep, replay=None):
    w = C.scratch("c03")
    C.stage_specs(w, "C03")
    thorough = tier == "thorough"
    C.tlc_must(C.tlc(w, "FoTransform", "MC_Fo_mlkem.cfg", timeout=600), "FoTransform (ML-KEM)")
    C.tlc_must(C.tlc(w, "FoTransform", "MC_Fo_kyber.cfg", timeout=600), "FoTransform (Kyber)")
    if "RejectBinds fails" not in C.tlc(w, "FoTransform", "MC_Fo_kyber_bug.cfg", timeout=600).out:
        raise C.Infra("FoTransform: the seeded deviation (rejection key from the re-encrypted ciphertext) was not found")
    drv = C.go_build_driver(w, "c03")
    tp = os.path.join(w, "t.ndjson")
    C.run([drv, "-out", tp, "-seed", str(C.SEED)] + (["-thorough"] if thorough else []), timeout=3300, what="c03 driver")
    lines = C.read_ndjson(tp)
    for label, tags in (("default", ""), ("purego", "purego")):
        tb = C.go_build_intree(w, "pke/kyber/internal/common", tags=tags)
        hp = os.path.join(w, "helpers-%s.ndjson" % label)
        C.run([tb, "-test.run", "TestZZVerifHelpers", "-test.count=1"], env=dict(os.environ, VERIF_OUT=hp, VERIF_IMPL=label), timeout=1700, what="kyber helper recorder " + label)
        lines += C.read_ndjson(hp)
    bad, r = C.validate_lines(w, "Trace_Kem", "Lines.cfg", lines)
    for i in bad:
        ln = lines[i]
        ev = ln["ev"]
        if ev == "helper":
            key = "helper:%s:d=%s:%s" % (ln["fn"], ln["d"], ln["impl"])
            det = {k: ln[k] for k in ("fn", "d", "x0", "step", "impl")}
            det["ys_head"] = ln["ys"][:16]
        elif ev in ("parse-ek", "parse-dk"):
            key = "%s:%s:%s:%s" % (ev, ln["param"], ln["class"], "panic" if ln["panics"] else ("accepted" if ln["accepted"] else "refused"))
            det = {k: v for k, v in ln.items() if k != "bytes" and v not in ("", [], 0, False) or k in ("accepted", "reencodes", "hash_ok")}
        elif ev == "decaps":
            what = "panic" if ln["panics"] else ("key-from-reencrypted-ciphertext" if ln["k"] == ln["k_reject_cprime"] and not ln["same"] else "wrong-key")
            key = "decaps:%s:%s:%s" % (ln["param"], ln["class"], what)
            det = {k: ln[k] for k in ("param", "class", "same", "k", "k_accept", "k_reject", "k_reject_cprime", "seed", "ct", "note")}
        else:
            what = "panic" if ln["panics"] else "bytes-differ"
            key = "%s:%s:%s" % (ev, ln["param"], what)
            det = {k: v for k, v in ln.items() if v not in ("", [], 0, False)}
        rep.violation(key, {"observed": det, "explain": "line rejected by Trace_Kem.tla"})
    # TLC recomputes ML-KEM-512 KeyGen + Encaps from FIPS 203 for sampled seeds
    hx = lambda s: list(bytes.fromhex(s))
    kg = [l for l in lines if l["ev"] == "keygen" and l["param"] == "ML-KEM-512" and not l["panics"]]
    en = [l for l in lines if l["ev"] == "encaps" and l["param"] == "ML-KEM-512" and not l["panics"]]
    jobs = []
    for e in en:
        sd, m = e["seed"].split("/")
        k = [x for x in kg if x["seed"] == sd]
        if k:
            jobs.append(({"d": hx(sd)[:32], "z": hx(sd)[32:], "m": hx(m), "ek": hx(k[0]["ek"]), "ct": hx(e["ct"]), "ss": hx(e["ss"])}, e["class"]))
    random.Random(C.SEED).shuffle(jobs)
    jobs = jobs[:24 if thorough else 4]
    falsified = copy.deepcopy(jobs[0][0])
    falsified["ct"][5] ^= 1
    with ThreadPoolExecutor(min(C.NCPU, 12)) as ex:
        res = list(ex.map(lambda ij: mlkem512_job(w, ij[0], ij[1][0]), enumerate(jobs + [(falsified, "falsified")])))
    fv = res[-1][0]
    if fv["ct"] or not fv["ek"]:
        raise C.Infra("MLKEM512Job accepted a falsified ciphertext")
    for (job, cls), (v, _) in zip(jobs, res[:-1]):
        for part in ("ek", "ct", "ss"):
            if not v[part]:
                rep.violation("fips203:ML-KEM-512:%s" % part, {"class": cls, "d": bytes(job["d"]).hex(), "z": bytes(job["z"]).hex(), "m": bytes(job["m"]).hex(),
                                                               "explain": "the library's %s is not the value TLC computes from FIPS 203 (MLKEM512Job.tla)" % part})
    good = [i for i in range(len(lines)) if i not in set(bad)]
    can = []
    gd = [i for i in good if lines[i]["ev"] == "decaps" and not lines[i]["same"]]
    if gd:
        x = copy.deepcopy(lines[random.Random(C.SEED).choice(gd)]); x["k"] = x["k_reject_cprime"]; can.append(x)
    gh = [i for i in good if lines[i]["ev"] == "helper" and lines[i]["fn"] == "compress"]
    if gh:
        y = copy.deepcopy(lines[random.Random(C.SEED).choice(gh)]); y["ys"][7] ^= 1; can.append(y)
    gp = [i for i in good if lines[i]["ev"] == "parse-ek" and not lines[i]["accepted"]]
    if gp:
        z = copy.deepcopy(lines[random.Random(C.SEED).choice(gp)]); z["accepted"] = True; z["reencodes"] = True; can.append(z)
    if can:
        b2, _ = C.validate_lines(w, "Trace_Kem", "Lines.cfg", can)
        if b2 != list(range(len(can))):
            raise C.Infra("binding canary accepted")
    rep.add(states=max(1, sum(x[1] for x in res)), transitions=max(1, sum(x[1] for x in res)), traces_validated_against_impl=len(lines), tlc_recomputed_mlkem512=len(jobs),
            keygen=sum(1 for l in lines if l["ev"] == "keygen"), encaps=sum(1 for l in lines if l["ev"] == "encaps"), decaps=sum(1 for l in lines if l["ev"] == "decaps"),
            decaps_rejections=sum(1 for l in lines if l["ev"] == "decaps" and not l["same"]), parse=sum(1 for l in lines if l["ev"].startswith("parse")),
            helper_blocks=sum(1 for l in lines if l["ev"] == "helper"), helper_values=sum(len(l["ys"]) for l in lines if l["ev"] == "helper"))
    for l in [x for x in lines if x["ev"] == "decaps"][:2] + [x for x in lines if x["ev"] == "helper"][:1]:
        rep.sample({k: (v if not isinstance(v, list) else v[:8]) for k, v in l.items() if k not in ("bytes", "ct")})
    rep.assumptions += ["byte-for-byte comparison of keys, ciphertexts and shared secrets uses a plain transcription of FIPS 203 / round-3 Kyber (harness/drivers/mlkemref, schoolbook arithmetic, golang.org/x/crypto/sha3); TLC itself recomputes ML-KEM-512 KeyGen + Encaps from the standard for sampled seeds, rejects a falsified ciphertext, decides every decapsulation from the Fujisaki-Okamoto facts, decodes every parsed encapsulation key itself, and evaluates the helper functions' contracts on the dumped domains",
                        "Montgomery reduction is dumped at both ends of its domain, around zero and with a stride through the rest (2^16 q values in total are not enumerated)",
                        "centred-binomial sampling and uniform sampling are covered through key generation / encapsulation outputs, not as separate functions"]


MANIFEST = {
 "text": "FoTransform.tla states the Fujisaki-Okamoto layer of ML-KEM and of round-3 Kyber over an abstract encryption scheme and checks correctness and that the implicit-rejection key is bound to the RECEIVED ciphertext (TLC finds the seeded deviation that uses the re-encrypted one); MLKEM512Job.tla is FIPS 203 ML-KEM-512 KeyGen_internal + Encaps_internal as an executable behaviour (Keccak job machine, sampling, NTT by layers, compression, encoding) with which TLC recomputes ek / ct / ss for sampled seeds of the run and rejects a falsified ciphertext; KyberHelpers.tla states Barrett and Montgomery reduction, Montgomery conversion, conditional subtraction, Compress_d / Decompress_d (d = 1, 4, 5, 10, 11) and 12-bit packing, evaluated by TLC on the implementation's outputs over the ENTIRE domain (Montgomery reduction: both ends, around zero, strided) under the default and the purego build. The driver compares keys, ciphertexts and secrets of all six parameter sets with a transcription of the standards on structured and random seeds, decapsulates honest, other-key, bit-flipped (c1 and c2), constant and random ciphertexts with TLC deciding which candidate key must be returned, and parses ML-KEM keys with coefficients q-1 / q / q+1 / 4095 at first, last and random positions and decapsulation keys with altered hash / ek / z (TLC decodes the coefficients itself: accepted iff all below q, accepted keys re-encode identically).",
 "note": "TLC recomputation of the full algorithm is limited to ML-KEM-512 KeyGen + Encaps (4 seeds quick, 24 thorough); the other parameter sets and decapsulation rely on the transcription plus the decision / helper specifications.",
 "technique": "TLC check of abstract FO transform (with seeded deviation) + executable FIPS 203 ML-KEM-512 in TLA+ recomputing sampled outputs + TLC evaluation of helper-function contracts over complete domains + TLC judgement of recorded KEM operations + differential against a transcription of the standards",
}
