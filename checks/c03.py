"""C03 ML-KEM and Kyber compute exactly the functions of FIPS 203 / Kyber round 3.  spec/C03"""
import json, os, random, copy
from concurrent.futures import ThreadPoolExecutor
from vlib import common as C

LEVEL = "model_checking"


PARAMS = {"ML-KEM-512": ("mlkem", 2, 3, 10, 4), "ML-KEM-768": ("mlkem", 3, 2, 10, 4), "ML-KEM-1024": ("mlkem", 4, 2, 11, 5),
          "Kyber512": ("kyber", 2, 3, 10, 4), "Kyber768": ("kyber", 3, 2, 10, 4), "Kyber1024": ("kyber", 4, 2, 11, 5)}


def mlkem_job(w, i, job):
    d = os.path.join(w, "mk%d" % i)
    os.makedirs(d, exist_ok=True)
    C.stage_specs(d, "C03")
    json.dump(job, open(os.path.join(d, "job.json"), "w"))
    r = C.tlc(d, "MLKEMJob", "MLKEMJob.cfg", workers=1, heap="3g", timeout=1700, stack="256m")
    vp = os.path.join(d, "verdict.json")
    if not r.ok or not os.path.exists(vp):
        raise C.Infra("MLKEMJob failed:\n%s" % r.tail(40))
    v = json.load(open(vp))
    if not v["done"] or not v["sampled"]:
        raise C.Infra("MLKEMJob did not reach the end / ran out of squeezed bytes:\n%s" % r.tail(20))
    return v, r.distinct


def run(tier, rep, replay=None):
    w = C.scratch("c03")
    C.stage_specs(w, "C03")
    thorough = tier == "thorough"
    C.tlc_must(C.tlc(w, "FoTransform", "MC_Fo_mlkem.cfg", timeout=600), "FoTransform (ML-KEM)")
    C.tlc_must(C.tlc(w, "FoTransform", "MC_Fo_kyber.cfg", timeout=600), "FoTransform (Kyber)")
    if "RejectBinds fails" not in C.tlc(w, "FoTransform", "MC_Fo_kyber_bug.cfg", timeout=600).out:
        raise C.Infra("FoTransform: the seeded deviation (rejection key from the re-encrypted ciphertext) was not found")
    drv = C.go_build_driver(w, "c03")
    tp = os.path.join(w, "t.ndjson")
    C.run([drv, "-out", tp, "-seed", str(C.SEED)] + (["-thorough"] if thorough else []), timeout=3300, what="c03 driver")
    lines = C.read_ndjson(tp)
    for label, tags in (("default", ""), ("purego", "purego")):
        tb = C.go_build_intree(w, "pke/kyber/internal/common", tags=tags)
        hp = os.path.join(w, "helpers-%s.ndjson" % label)
        C.run([tb, "-test.run", "TestZZVerifHelpers", "-test.count=1"], env=dict(os.environ, VERIF_OUT=hp, VERIF_IMPL=label), timeout=1700, what="kyber helper recorder " + label)
        lines += C.read_ndjson(hp)
    bad, r = C.validate_lines(w, "Trace_Kem", "Lines.cfg", lines)
    for i in bad:
        ln = lines[i]
        ev = ln["ev"]
        if ev == "helper":
            key = "helper:%s:d=%s:%s" % (ln["fn"], ln["d"], ln["impl"])
            det = {k: ln[k] for k in ("fn", "d", "x0", "step", "impl")}
            det["ys_head"] = ln["ys"][:16]
        elif ev in ("parse-ek", "parse-dk"):
            key = "%s:%s:%s:%s" % (ev, ln["param"], ln["class"], "panic" if ln["panics"] else ("accepted" if ln["accepted"] else "refused"))
            det = {k: v for k, v in ln.items() if k != "bytes" and v not in ("", [], 0, False) or k in ("accepted", "reencodes", "hash_ok")}
        elif ev == "decaps":
            what = "panic" if ln["panics"] else ("key-from-reencrypted-ciphertext" if ln["k"] == ln["k_reject_cprime"] and not ln["same"] else "wrong-key")
            key = "decaps:%s:%s:%s" % (ln["param"], ln["class"], what)
            det = {k: ln[k] for k in ("param", "class", "same", "k", "k_accept", "k_reject", "k_reject_cprime", "seed", "ct", "note")}
        else:
            what = "panic" if ln["panics"] else "bytes-differ"
            key = "%s:%s:%s" % (ev, ln["param"], what)
            det = {k: v for k, v in ln.items() if v not in ("", [], 0, False)}
        rep.violation(key, {"observed": det, "explain": "line rejected by Trace_Kem.tla"})
    # TLC recomputes KeyGen + Encaps and Decaps (accepting and rejecting) from the standards for sampled seeds of every parameter set
    hx = lambda s: list(bytes.fromhex(s))
    rnd = random.Random(C.SEED)
    jobs = []
    per = 4 if thorough else 1
    for param, (flavor, k, eta1, du, dv) in PARAMS.items():
        base = {"flavor": flavor, "k": k, "eta1": eta1, "du": du, "dv": dv}
        kg = {l["seed"]: l for l in lines if l["ev"] == "keygen" and l["param"] == param and not l["panics"]}
        en = [l for l in lines if l["ev"] == "encaps" and l["param"] == param and not l["panics"] and l["seed"].split("/")[0] in kg]
        de = [l for l in lines if l["ev"] == "decaps" and l["param"] == param and not l["panics"] and l["seed"] in kg]
        rnd.shuffle(en)
        for e in en[:per]:
            sd, m = e["seed"].split("/")
            jobs.append((dict(base, op="encaps", d=hx(sd)[:32], z=hx(sd)[32:], m=hx(m), ek=hx(kg[sd]["ek"]), dk=hx(kg[sd]["dk"]), ct=hx(e["ct"]), ss=hx(e["ss"])), param, "keygen+encaps", None))
        acc = [l for l in de if l["same"]]
        rej = [l for l in de if not l["same"]]
        rnd.shuffle(acc)
        rnd.shuffle(rej)
        for l in acc[:per] + rej[:2 * per]:
            jobs.append((dict(base, op="decaps", d=[], z=[], m=[], ek=[], dk=hx(kg[l["seed"]]["dk"]), ct=hx(l["ct"]), ss=hx(l["k"])), param, "decaps:" + l["class"], l["same"]))
    falsified = copy.deepcopy(jobs[0][0])
    falsified["ct"][5] ^= 1
    with ThreadPoolExecutor(min(C.NCPU, 14)) as ex:
        res = list(ex.map(lambda ij: mlkem_job(w, ij[0], ij[1][0]), enumerate(jobs + [(falsified, "", "falsified", None)])))
    fv = res[-1][0]
    if fv["ct"] or not fv["ek"]:
        raise C.Infra("MLKEMJob accepted a falsified ciphertext")
    for (job, param, cls, same), (v, _) in zip(jobs, res[:-1]):
        parts = ("ek", "dk", "ct", "ss") if job["op"] == "encaps" else ("ss",)
        for part in parts:
            if not v[part]:
                rep.violation("standard:%s:%s:%s" % (param, cls.split(":")[0], part), {"class": cls, "d": bytes(job["d"]).hex(), "z": bytes(job["z"]).hex(), "m": bytes(job["m"]).hex(), "ct": bytes(job["ct"]).hex()[:80],
                                                                                  "explain": "the library's %s is not the value TLC computes from FIPS 203 / round-3 Kyber (MLKEMJob.tla)" % part})
        if same is not None and v["same"] != same:
            raise C.Infra("transcription and TLA+ specification disagree on whether a ciphertext re-encrypts to itself")
    good = [i for i in range(len(lines)) if i not in set(bad)]
    can = []
    gd = [i for i in good if lines[i]["ev"] == "decaps" and not lines[i]["same"]]
    if gd:
        x = copy.deepcopy(lines[random.Random(C.SEED).choice(gd)]); x["k"] = x["k_reject_cprime"]; can.append(x)
    gh = [i for i in good if lines[i]["ev"] == "helper" and lines[i]["fn"] == "compress"]
    if gh:
        y = copy.deepcopy(lines[random.Random(C.SEED).choice(gh)]); y["ys"][7] ^= 1; can.append(y)
    gp = [i for i in good if lines[i]["ev"] == "parse-ek" and not lines[i]["accepted"]]
    if gp:
        z = copy.deepcopy(lines[random.Random(C.SEED).choice(gp)]); z["accepted"] = True; z["reencodes"] = True; can.append(z)
    if can:
        b2, _ = C.validate_lines(w, "Trace_Kem", "Lines.cfg", can)
        if b2 != list(range(len(can))):
            raise C.Infra("binding canary accepted")
    rep.add(states=max(1, sum(x[1] for x in res)), transitions=max(1, sum(x[1] for x in res)), traces_validated_against_impl=len(lines), tlc_recomputed=len(jobs), tlc_recomputed_kinds=sorted({j[1] + ' ' + j[2].split(':')[0] for j in jobs}),
            keygen=sum(1 for l in lines if l["ev"] == "keygen"), encaps=sum(1 for l in lines if l["ev"] == "encaps"), decaps=sum(1 for l in lines if l["ev"] == "decaps"),
            decaps_rejections=sum(1 for l in lines if l["ev"] == "decaps" and not l["same"]), parse=sum(1 for l in lines if l["ev"].startswith("parse")),
            helper_blocks=sum(1 for l in lines if l["ev"] == "helper"), helper_values=sum(len(l["ys"]) for l in lines if l["ev"] == "helper"))
    for l in [x for x in lines if x["ev"] == "decaps"][:2] + [x for x in lines if x["ev"] == "helper"][:1]:
        rep.sample({k: (v if not isinstance(v, list) else v[:8]) for k, v in l.items() if k not in ("bytes", "ct")})
    rep.assumptions += ["byte-for-byte comparison of keys, ciphertexts and shared secrets uses a plain transcription of FIPS 203 / round-3 Kyber (harness/drivers/mlkemref, schoolbook arithmetic, golang.org/x/crypto/sha3); TLC itself recomputes KeyGen + Encaps and Decaps (accepting and implicitly rejecting) of all six parameter sets from the standards for sampled seeds of the run (MLKEMJob.tla, no hints), rejects a falsified ciphertext, decides every decapsulation from the Fujisaki-Okamoto facts, decodes every parsed encapsulation key itself, and evaluates the helper functions' contracts on the dumped domains",
                        "Montgomery reduction is dumped at both ends of its domain, around zero and with a stride through the rest (2^16 q values in total are not enumerated)",
                        "centred-binomial sampling and uniform sampling are covered through key generation / encapsulation outputs, not as separate functions"]


MANIFEST = {
 "text": "FoTransform.tla states the Fujisaki-Okamoto layer of ML-KEM and of round-3 Kyber over an abstract encryption scheme and checks correctness and that the implicit-rejection key is bound to the RECEIVED ciphertext (TLC finds the seeded deviation that uses the re-encrypted one); MLKEMJob.tla is FIPS 203 KeyGen_internal + Encaps_internal + Decaps_internal (and the round-3 Kyber variants) for k = 2, 3, 4 as an executable behaviour (Keccak job machine over a k-dependent program of hash jobs, sampling, NTT by layers, compression, encoding, K-PKE.Decrypt, re-encryption, implicit rejection) with which TLC recomputes ek / dk / ct / ss and decapsulation results for sampled seeds and ciphertexts of the run and rejects a falsified ciphertext; KyberHelpers.tla states Barrett and Montgomery reduction, Montgomery conversion, conditional subtraction, Compress_d / Decompress_d (d = 1, 4, 5, 10, 11) and 12-bit packing, evaluated by TLC on the implementation's outputs over the ENTIRE domain (Montgomery reduction: both ends, around zero, strided) under the default and the purego build. The driver compares keys, ciphertexts and secrets of all six parameter sets with a transcription of the standards on structured and random seeds, decapsulates honest, other-key, bit-flipped (c1 and c2), constant and random ciphertexts with TLC deciding which candidate key must be returned, and parses ML-KEM keys with coefficients q-1 / q / q+1 / 4095 at first, last and random positions and decapsulation keys with altered hash / ek / z (TLC decodes the coefficients itself: accepted iff all below q, accepted keys re-encode identically). Decapsulation-key parsing includes the class ek-coef+q-rehash (non-canonical embedded ek with a matching hash: refused, or kept byte for byte).",
 "note": "TLC recomputation of the full algorithms is sampled: per parameter set 1 key generation + encapsulation and 3 decapsulations (1 accepting, 2 rejecting) in quick, four times that in thorough; all other lines rely on the transcription plus the decision / helper specifications.",
 "technique": "TLC check of abstract FO transform (with seeded deviation) + executable FIPS 203 / Kyber round 3 (KeyGen, Encaps, Decaps; k = 2, 3, 4) in TLA+ recomputing sampled outputs + TLC evaluation of helper-function contracts over complete domains + TLC judgement of recorded KEM operations + differential against a transcription of the standards",
}
