"""C07 HPKE = RFC 9180.  spec/C07/HpkeSetup.tla over spec/lib/Terms.tla"""
import json, os, random, copy
from vlib import common as C

LEVEL = "model_checking"
MODES = {0: "base", 1: "psk", 2: "auth", 3: "auth_psk"}


def run(tier, rep, replay=None):
    w = C.scratch("c07")
    C.stage_specs(w, "C07")
    thorough = tier == "thorough"
    r1 = C.tlc_must(C.tlc(w, "HpkeSetup", "MC_HpkeSetup.cfg", workers=8, heap="6g", timeout=900, stack="512m"), "MC_HpkeSetup")
    rep.add(states=r1.distinct, transitions=r1.generated)
    C.tlc_must(C.tlc(w, "Gen_HpkeSetup", "Gen.cfg", timeout=900, stack="512m"), "Gen_HpkeSetup")
    drv = C.go_build_driver(w, "c07")
    tp = os.path.join(w, "t.ndjson")
    C.run([drv, "-suites", os.path.join(w, "suites.json"), "-out", tp, "-seed", str(C.SEED), "-reps", "12" if thorough else "1"],
          timeout=3000, what="c07 driver")
    lines = C.read_ndjson(tp)
    bad, r = C.validate_lines(w, "Trace_HpkeSetup", "Lines.cfg", lines)
    for i in bad:
        ln = lines[i]
        if ln["sender_err"] != (not ((ln["pskp"] == "both") if ln["mode"] in (1, 3) else (ln["pskp"] == "none"))):
            key = "hpke:psk-rule:mode=%s:pskp=%s" % (MODES[ln["mode"]], ln["pskp"])
        else:
            wrong = [k for k in ("keys_eq", "enc_eq", "key_eq", "nonce_eq", "exp_eq", "ct_eq", "exports_eq") if not ln[k]]
            key = "hpke:kem=%d:mode=%s:%s" % (ln["kem"], MODES[ln["mode"]], ",".join(wrong) if wrong else "receiver-dev=" + ln["dev"])
        rep.violation(key, {"observed": ln, "explain": "differs from RFC 9180 as specified in HpkeSetup.tla"})
    good = [i for i in range(len(lines)) if i not in set(bad) and not lines[i]["sender_err"]]
    if good:
        rnd = random.Random(C.SEED)
        x = copy.deepcopy(lines[rnd.choice(good)])
        x["nonce_eq"] = False
        b2, _ = C.validate_lines(w, "Trace_HpkeSetup", "Lines.cfg", [x])
        if b2 != [0]:
            raise C.Infra("binding canary accepted")
        rep.add(canary="base_nonce mismatch injected -> rejected")
    suites = {(l["kem"], l["kdf"], l["aead"], l["mode"]) for l in lines}
    rep.add(traces_validated_against_impl=len(lines), suites_modes=len(suites), trace_states=r.distinct,
            deviating_receivers=sum(1 for l in lines if l["dev"] != "none"), psk_rule_cases=sum(1 for l in lines if l["pskp"] not in ("both", "none") or (l["mode"] in (1, 3) and l["pskp"] == "none")))
    for l in lines[:2] + [l for l in lines if l["dev"] == "enc"][:1] + [l for l in lines if l["sender_err"]][:1]:
        rep.sample(l)
    rep.assumptions += ["HKDF/HMAC/SHA-2, crypto/ecdh (P-256/384/521, X25519), math/big X448 ladder, AES-GCM, ChaCha20-Poly1305 are the trusted interpretation of the term symbols",
                        "for KEM ids 0x0030 and 0x647a the KEM is a black box (its shared secret is an input of the key schedule terms)",
                        "one fresh Sender/Receiver per setup; empty-but-non-nil PSK not asserted"]


MANIFEST = {
 "text": "HpkeSetup.tla writes RFC 9180 sections 4-5 as symbolic terms (suite ids, LabeledExtract/Expand, DHKEM incl. the P-curve rejection loop, KeySchedule, Seal nonce, Export, VerifyPSKInputs) and a setup state machine; TLC checks symbolically that a receiver derives the sender's context iff no input deviates (DH commutation normalised) and the PSK rule table. TLC emits the terms for all 7 KEM x 3 KDF x 3 AEAD x 4 mode combinations; the harness evaluates them with non-circl primitives and compares enc, DeriveKeyPair output, key, base_nonce, exporter secret, first ciphertext and exports (5 lengths incl. 0 and 255*Nh) with what real Sender objects produce, runs receivers that deviate in exactly one input, and TLC judges every recorded scenario.",
 "note": "Trusted: Go standard library / x/crypto primitives that interpret the term symbols. Inputs are seeded random (1 concretisation per scenario in quick, 12 in thorough), not exhaustive. Sender reuse across modes is out of scope.",
 "technique": "TLC symbolic model check of RFC 9180 term algebra + TLC-emitted terms evaluated by an independent evaluator and compared with real hpke + TLC trace judgement",
}
