"""C07 HPKE = RFC 9180.  spec/C07/HpkeSetup.tla over spec/lib/Terms.tla"""
import json, os, random, copy
from concurrent.futures import ThreadPoolExecutor
from vlib import common as C

LEVEL = "model_checking"
MODES = {0: "base", 1: "psk", 2: "auth", 3: "auth_psk"}


def hpke_job(w, i, job):
    """RFC 9180 sender setup executed by TLC (HpkeJob.tla; HpkeP256Job.tla for DHKEM(P-256))."""
    d = os.path.join(w, "hj%d" % i)
    os.makedirs(d, exist_ok=True)
    C.stage_specs(d, "C07")
    json.dump(job, open(os.path.join(d, "job.json"), "w"))
    module = "HpkeP256Job" if job.get("kem") == 16 else "HpkeJob"
    r = C.tlc(d, module, module + ".cfg", workers=1, heap="3g", timeout=3000, stack="256m")
    vp = os.path.join(d, "verdict.json")
    if not r.ok or not os.path.exists(vp):
        raise C.Infra("%s failed:\n%s" % (module, r.tail(40)))
    v = json.load(open(vp))
    if not v["done"] or not v.get("sane", True):
        raise C.Infra("%s did not reach the end / failed its sanity conditions (a DeriveKeyPair candidate outside [1, n-1] is not retried): %s\n%s" % (module, v, r.tail(20)))
    return v, r.distinct


def run(tier, rep, replay=None):
    w = C.scratch("c07")
    C.stage_specs(w, "C07")
    thorough = tier == "thorough"
    r1 = C.tlc_must(C.tlc(w, "HpkeSetup", "MC_HpkeSetup.cfg", workers=8, heap="6g", timeout=900, stack="512m"), "MC_HpkeSetup")
    rep.add(states=r1.distinct, transitions=r1.generated)
    C.tlc_must(C.tlc(w, "Gen_HpkeSetup", "Gen.cfg", timeout=900, stack="512m"), "Gen_HpkeSetup")
    drv = C.go_build_driver(w, "c07")
    tp = os.path.join(w, "t.ndjson")
    C.run([drv, "-suites", os.path.join(w, "suites.json"), "-out", tp, "-seed", str(C.SEED), "-reps", "12" if thorough else "1"],
          timeout=3000, what="c07 driver")
    lines = C.read_ndjson(tp)
    hjobs = [(l.pop("job"), "%smode=%s aead=%d" % ("p256 " if l["kem"] == 16 else "", MODES[l["mode"]], l["aead"])) for l in lines if "job" in l]
    # ---- TLC executes RFC 9180 itself for DHKEM(X25519, HKDF-SHA256) + HKDF-SHA256 sender setups of the run (base and PSK mode)
    hx = lambda h: list(bytes.fromhex(h))
    rfc = {"mode": 0, "aead": 1, "nk": 16, "ikmE": hx("7268600d403fce431561aef583ee1613527cff655c1343f29812e66706df3234"),
           "pkR": hx("3948cfe0ad1ddb695d780e59077195da6c56506b027329794ab02bca80815c4d"), "info": hx("4f6465206f6e2061204772656369616e2055726e"), "psk": [], "psk_id": [],
           "enc": hx("37fda3567bdbd628e88668c3c8d7e97d1d1253b6d4ea6d44c150f741f1bf4431"), "key": hx("4531685d41d65f03dc48f6b8302c05b0"),
           "base_nonce": hx("56d890e5accaaf011cff4b7d"), "exp": hx("45ff1c2e220db587171952c0592d5f5ebe103f1561a2614e38f2ffd47e99e3f8")}
    fals = copy.deepcopy(rfc)
    fals["key"][3] ^= 1
    rfcp = {"kem": 16, "mode": 0, "aead": 1, "nk": 16, "ikmE": hx("4270e54ffd08d79d5928020af4686d8f6b7d35dbe470265f1f5aa22816ce860e"),
            "pkR": hx("04fe8c19ce0905191ebc298a9245792531f26f0cece2460639e8bc39cb7f706a826a779b4cf969b8a0e539c7f62fb3d30ad6aa8f80e30f1d128aafd68a2ce72ea0"),
            "skS": [], "pkS": [], "info": hx("4f6465206f6e2061204772656369616e2055726e"), "psk": [], "psk_id": [],
            "enc": hx("04a92719c6195d5085104f469a8b9814d5838ff72b60501e2c4466e5e67b325ac98536d7b61a1af4b78e5b7f951c0900be863c403ce65c9bfcb9382657222d18c4"),
            "key": hx("868c066ef58aae6dc589b6cfdd18f97e"), "base_nonce": hx("4e0bc5018beba4bf004cca59"), "exp": hx("14ad94af484a7ad3ef40e9f3be99ecc6fa9036df9d4920548424df127ee0d99f")}
    falsp = copy.deepcopy(rfcp)
    falsp["exp"][0] ^= 128
    rnd0 = random.Random(C.SEED)
    bykind = {}
    for j, k in hjobs:
        bykind.setdefault(k, []).append(j)
    pick = [(rnd0.choice(v), k) for k, v in sorted(bykind.items())]
    if not thorough:
        rnd0.shuffle(pick)
        px, pp = [x for x in pick if not x[1].startswith("p256")], [x for x in pick if x[1].startswith("p256")]
        pick = px[:3] + ([x for x in pp if "auth" in x[1]][:1] + [x for x in pp if "auth" not in x[1]][:1])
    else:
        pick = pick + [(rnd0.choice(v), k) for k, v in sorted(bykind.items()) if not k.startswith("p256")]
    with ThreadPoolExecutor(min(C.NCPU, 14)) as ex:
        hres = list(ex.map(lambda ij: hpke_job(w, ij[0], ij[1][0]), enumerate([(rfc, "rfc9180-A.1.1"), (fals, "falsified"), (rfcp, "rfc9180-A.3.1"), (falsp, "falsified")] + pick)))
    if not all(hres[0][0][k] for k in ("enc", "key", "base_nonce", "exp")) or hres[1][0]["key"]:
        raise C.Infra("HpkeJob does not reproduce RFC 9180 A.1.1 / accepts a falsified key")
    if not all(hres[2][0][k] for k in ("enc", "key", "base_nonce", "exp")) or hres[3][0]["exp"]:
        raise C.Infra("HpkeP256Job does not reproduce RFC 9180 A.3.1 / accepts a falsified exporter secret")
    for (job, kind), (v, _) in zip(pick, hres[4:]):
        for part in ("enc", "key", "base_nonce", "exp"):
            if not v[part]:
                rep.violation("rfc9180:%s-sha256:%s:%s" % ("p256" if job.get("kem") == 16 else "x25519", kind.replace("p256 ", "").replace(" ", ":"), part), {"kind": kind, "ikmE": bytes(job["ikmE"]).hex(), "pkR": bytes(job["pkR"]).hex(), "info": bytes(job["info"]).hex(),
                                                                                     "explain": "the library's %s is not the value TLC computes from RFC 9180 (HpkeJob.tla / HpkeP256Job.tla)" % part})
    rep.add(tlc_executed_setups=len(pick), tlc_executed_kinds=sorted({k for _, k in pick}))
    bad, r = C.validate_lines(w, "Trace_HpkeSetup", "Lines.cfg", lines)
    for i in bad:
        ln = lines[i]
        if ln["sender_err"] != (not ((ln["pskp"] == "both") if ln["mode"] in (1, 3) else (ln["pskp"] == "none"))):
            key = "hpke:psk-rule:mode=%s:pskp=%s" % (MODES[ln["mode"]], ln["pskp"])
        else:
            wrong = [k for k in ("keys_eq", "enc_eq", "key_eq", "nonce_eq", "exp_eq", "ct_eq", "exports_eq") if not ln[k]]
            key = "hpke:kem=%d:mode=%s:%s" % (ln["kem"], MODES[ln["mode"]], ",".join(wrong) if wrong else "receiver-dev=" + ln["dev"])
        rep.violation(key, {"observed": ln, "explain": "differs from RFC 9180 as specified in HpkeSetup.tla"})
    good = [i for i in range(len(lines)) if i not in set(bad) and not lines[i]["sender_err"]]
    if good:
        rnd = random.Random(C.SEED)
        x = copy.deepcopy(lines[rnd.choice(good)])
        x["nonce_eq"] = False
        b2, _ = C.validate_lines(w, "Trace_HpkeSetup", "Lines.cfg", [x])
        if b2 != [0]:
            raise C.Infra("binding canary accepted")
        rep.add(canary="base_nonce mismatch injected -> rejected")
    suites = {(l["kem"], l["kdf"], l["aead"], l["mode"]) for l in lines}
    rep.add(traces_validated_against_impl=len(lines), suites_modes=len(suites), trace_states=r.distinct,
            deviating_receivers=sum(1 for l in lines if l["dev"] != "none"), psk_rule_cases=sum(1 for l in lines if l["pskp"] not in ("both", "none") or (l["mode"] in (1, 3) and l["pskp"] == "none")))
    for l in lines[:2] + [l for l in lines if l["dev"] == "enc"][:1] + [l for l in lines if l["sender_err"]][:1]:
        rep.sample(l)
    rep.assumptions += ["HKDF/HMAC/SHA-2, crypto/ecdh (P-256/384/521, X25519), math/big X448 ladder, AES-GCM, ChaCha20-Poly1305 are the trusted interpretation of the term symbols",
                        "for KEM ids 0x0030 and 0x647a the KEM is a black box (its shared secret is an input of the key schedule terms)",
                        "one fresh Sender/Receiver per setup; empty-but-non-nil PSK not asserted"]


MANIFEST = {
 "text": "HpkeP256Job.tla is the RFC 9180 sender setup in all four modes for DHKEM(P-256, HKDF-SHA256) + HKDF-SHA256 (DeriveKeyPair with the candidate / bitmask rule, scalar multiplication on P-256 one action per bit, SerializePublicKey, kem_context with pkSm and the second DH in the auth modes), reproducing RFC 9180 A.3.1. HpkeJob.tla is the RFC 9180 sender setup (base and PSK mode) for DHKEM(X25519, HKDF-SHA256) + HKDF-SHA256 as an executable behaviour - DeriveKeyPair, LabeledExtract / LabeledExpand over HMAC-SHA-256 (Sha256Ops.tla, one action per round), X25519 by the RFC 7748 ladder, ExtractAndExpand, key schedule - with which TLC recomputes enc, key, base_nonce and exporter secret of sampled setups of the run after reproducing RFC 9180 A.1.1 and rejecting a falsified key. HpkeSetup.tla writes RFC 9180 sections 4-5 as symbolic terms (suite ids, LabeledExtract/Expand, DHKEM incl. the P-curve rejection loop, KeySchedule, Seal nonce, Export, VerifyPSKInputs) and a setup state machine; TLC checks symbolically that a receiver derives the sender's context iff no input deviates (DH commutation normalised) and the PSK rule table. TLC emits the terms for all 7 KEM x 3 KDF x 3 AEAD x 4 mode combinations; the harness evaluates them with non-circl primitives and compares enc, DeriveKeyPair output, key, base_nonce, exporter secret, first ciphertext and exports (5 lengths incl. 0 and 255*Nh) with what real Sender objects produce, runs receivers that deviate in exactly one input, and TLC judges every recorded scenario. Receiver deviations include a sender identity of low order (pkS-low-order: setup must fail, RFC 9180 7.1.4).",
 "note": "Trusted: Go standard library / x/crypto primitives that interpret the term symbols. Inputs are seeded random (1 concretisation per scenario in quick, 12 in thorough), not exhaustive. Sender reuse across modes is out of scope.",
 "technique": "executable RFC 9180 (X25519 / HKDF-SHA256 suites) in TLA+ recomputing sampled contexts + TLC symbolic model check of RFC 9180 term algebra + TLC-emitted terms evaluated by an independent evaluator and compared with real hpke + TLC trace judgement",
}
