"""C20 CP-ABE access control.  spec/C20/Policy.tla, CpAbe.tla"""
import json, os, random, copy
from vlib import common as C

LEVEL = "model_checking"


def run(tier, rep, replay=None):
    w = C.scratch("c20")
    C.stage_specs(w, "C20")
    thorough = tier == "thorough"
    C.tlc_must(C.tlc(w, "MC_Policy", "Empty.cfg", timeout=600), "MC_Policy (NNF preserves the presence-rule semantics)")
    r1 = C.tlc_must(C.tlc(w, "CpAbe", "MC_CpAbe.cfg", workers=8, heap="6g", timeout=900), "MC_CpAbe")
    rep.add(states=r1.distinct, transitions=r1.generated)
    # the secret sharing over the formula: correct and SECRET for every formula of up to three gates over Z_3; the variant that hands the
    # AND gate's output value to one input and zero to the other keeps decryption working and loses secrecy - TLC must say so
    C.tlc_must(C.tlc(w, "ShareTree", "MC_Share_ok.cfg", workers=4, timeout=900), "ShareTree (Correct, Secret)")
    rb = C.tlc(w, "ShareTree", "MC_Share_bug.cfg", workers=4, timeout=900)
    if "is false" not in rb.out or "Assumption" not in rb.out:
        raise C.Infra("ShareTree: the seeded sharing deviation was not found:\n%s" % rb.tail(20))
    tb = C.go_build_intree(w, "abe/cpabe/tkn20/internal/tkn")
    sp = os.path.join(w, "share.ndjson")
    C.run([tb, "-test.run", "TestVerifShare", "-test.count=1"], env=dict(os.environ, VERIF_OUT=sp, VERIF_SEED=str(C.SEED), VERIF_N="400" if thorough else "60"),
          timeout=1500, what="in-tree share recorder")
    slines = C.read_ndjson(sp)
    d = os.path.join(w, "share")
    os.makedirs(d, exist_ok=True)
    C.stage_specs(d, "C20", "C12")
    sbad, sr = C.validate_lines(d, "Trace_Share", "Lines.cfg", slines)
    for i in sbad:
        ln = slines[i]
        kinds = "".join("A" if g[0] == 0 else "O" for g in ln["gates"])
        rep.violation("share:%s:gates=%s" % ("panic" if ln["panics"] else "input-shares", kinds[:8]),
                      {"observed": {"gates": ln["gates"], "note": ln["note"]}, "explain": "Formula.share does not follow the gate rules of ShareTree.tla (AND: one input gets the fresh random value, the other out - r; OR: both get out): the input shares differ from the ones TLC recomputes from the secret and the replayed random values"})
    sgood = [l for i, l in enumerate(slines) if i not in set(sbad) and any(g[0] == 0 for g in l["gates"])]
    if sgood:
        x = copy.deepcopy(sgood[0])
        x["shares"][0][0] = [(x["shares"][0][0][0] + 1) % 4096] + x["shares"][0][0][1:] if x["shares"][0][0] else [1]
        b3, _ = C.validate_lines(d, "Trace_Share", "Lines.cfg", [x])
        if b3 != [0]:
            raise C.Infra("share binding canary accepted")
    rep.add(share_lines=len(slines), share_and_gates=sum(1 for l in slines for g in l["gates"] if g[0] == 0))
    g = C.tlc_must(C.tlc(w, "Gen_CpAbe", "Gen3.cfg" if thorough else "Gen2.cfg", timeout=900), "Gen_CpAbe")
    pols = os.path.join(w, "policies.json")
    # policies with many leaves
    drv0 = C.go_build_driver(w, "c20")
    lp = os.path.join(w, "large.ndjson")
    C.run([drv0, "-large", lp, "-seed", str(C.SEED)], timeout=1500, what="c20 driver (large policies)")
    llines = C.read_ndjson(lp)
    # policies whose gates are stored in an arbitrary order (in-package recorder): printed, parsed again, compared with a reference evaluation
    tb2 = C.go_build_intree(w, "abe/cpabe/tkn20")
    pp = os.path.join(w, "permuted.ndjson")
    C.run([tb2, "-test.run", "TestVerifPermuted", "-test.count=1"], env=dict(os.environ, VERIF_OUT=pp, VERIF_SEED=str(C.SEED), VERIF_N="400" if thorough else "80"),
          timeout=1500, what="in-tree permuted-gates recorder")
    plines = C.read_ndjson(pp)
    if len(plines) < 50:
        raise C.Infra("permuted-gates recorder produced %d lines" % len(plines))
    llines += plines
    lbad, _ = C.validate_lines(d, "Trace_Large", "Lines.cfg", llines)
    for i in lbad:
        ln = llines[i]
        if ln["ev"] == "bigkey":
            rep.violation("tkn20:big-key:%s:%s" % (ln["note"].split(":")[0], "panic" if ln["panics"] else "does-not-survive-marshalling"), {"observed": ln, "explain": "AttributeKey.MarshalBinary returned bytes that do not decode to the key (Trace_Large.tla)"})
            continue
        if ln["ev"] == "longval":
            rep.violation("tkn20:long-values:len=%d:%s" % (ln["len"], "panic" if ln["panics"] else "wrong-answer"), {"observed": ln, "explain": "attribute values that differ only in their last character are not told apart (Trace_Large.tla)"})
            continue
        if ln["ev"] == "reject":
            rep.violation("tkn20:parse:trailing-tokens:%s" % ("panic" if ln["panics"] else "accepted"), {"observed": ln, "explain": "a policy followed by further tokens is not in the policy language but the parser accepted it (as the printed policy) (Trace_Large.tla)"})
            continue
        if ln["ev"] == "print":
            rep.violation("tkn20:print-after-use:%s" % ("panic" if ln["panics"] else ("reparse" if not ln["reparse_ok"] else ("answers-differ" if not ln["agree"] else "policy-changed-by-query"))), {"observed": ln, "explain": "a policy printed after it has been used does not parse back to an equivalent policy (Trace_Large.tla)"})
            continue
        rep.violation("tkn20:large-policy:leaves=%d:%s" % (ln["leaves"], "panic" if ln["panics"] else "undecryptable"), {"observed": ln, "explain": "Encrypt accepted the policy but the satisfying key cannot decrypt (Trace_Large.tla)"})
    rep.add(long_value_lengths=[l["len"] for l in llines if l["ev"] == "longval"], large_policies=[l["leaves"] for l in llines if l["ev"] == "large"], printed_policies=sum(1 for l in llines if l["ev"] == "print"), rejected_policy_strings=sum(1 for l in llines if l["ev"] == "reject"))
    if thorough:
        # quick enumerates <=2 leaves completely; thorough <=3 leaves (16 648 formulas), all decrypted
        args = ["-ndec", "16648", "-ntamper", "3000"]
    else:
        args = ["-ndec", "264", "-ntamper", "160"]
        # plus a seeded sample of 3-leaf formulas for the predicates (generated once more by TLC)
    drv = C.go_build_driver(w, "c20")
    tp = os.path.join(w, "trace_all.ndjson")
    C.run([drv, "-pols", pols, "-out", tp, "-seed", str(C.SEED), "-testdata",
           os.path.join(C.REPO, "abe/cpabe/tkn20/testdata")] + args, timeout=3000, what="c20 driver")
    lines = C.read_ndjson(tp)
    if not thorough:
        # 3-leaf sample, predicates only
        C.tlc_must(C.tlc(w, "Gen_CpAbe", "Gen3.cfg", timeout=900), "Gen_CpAbe 3 leaves")
        tp3 = os.path.join(w, "trace3.ndjson")
        C.run([drv, "-pols", pols, "-out", tp3, "-seed", str(C.SEED + 1), "-nsat", "2500", "-ndec", "40", "-ntamper", "0"],
              timeout=1500, what="c20 driver (3 leaves)")
        lines += C.read_ndjson(tp3)
    bad, r = C.validate_lines(w, "Trace_CpAbe", "Trace_CpAbe.cfg", lines)
    for i in bad:
        ln = lines[i]
        kind = ln["ev"]
        rows = ln["rows"]
        key = "tkn20:%s:%s" % (kind, "dec" if any(x["dec"] not in ("skip",) for x in rows) else "predicates")
        rep.violation(key, {"policy": ln["p"], "formula": ln["f"], "observed": rows, "note": ln.get("note", ""),
                            "explain": "answers of the real tkn20 code differ from Policy.tla semantics for this policy"})
    # canary
    ok_idx = [i for i in range(len(lines)) if i not in set(bad) and lines[i]["ev"] == "pol" and len(lines[i]["rows"]) == 16]
    if ok_idx:
        rnd = random.Random(C.SEED)
        c = copy.deepcopy(lines[rnd.choice(ok_idx)])
        j = rnd.randrange(16)
        c["rows"][j]["sat"] = not c["rows"][j]["sat"]
        b2, _ = C.validate_lines(w, "Trace_CpAbe", "Trace_CpAbe.cfg", [c])
        if b2 != [0]:
            raise C.Infra("binding canary accepted")
        rep.add(canary="flipped one Satisfaction answer -> rejected")
    npairs = sum(len(l["rows"]) for l in lines if l["ev"] == "pol")
    ndec = sum(1 for l in lines for x in l["rows"] if x["dec"] != "skip")
    rep.add(traces_validated_against_impl=len(lines), policy_attribute_pairs=npairs, decrypt_calls=ndec,
            tamper_events=sum(1 for l in lines if l["ev"] == "tamper"), trace_states=r.distinct)
    for l in lines[:2] + [l for l in lines if l["ev"] == "tamper"][:1] + [l for l in lines if "golden" in l["p"]][:1]:
        rep.sample({"policy": l["p"], "ev": l["ev"], "rows": l["rows"][:3], "note": l.get("note", "")})
    rep.assumptions += ["policy strings are the ones Policy!Str prints (single spaces, lower-case keywords, full parentheses)",
                        "a panic in Decrypt counts as 'nothing released' here; panics are C10's subject"]


MANIFEST = {
 "text": "Policy.tla defines the formula language and the scheme's satisfaction semantics (negation pushed to leaves, label-presence rule) independently of the parser; CpAbe.tla (Encrypt/KeyGen/Tamper/Decrypt machine) is model-checked exhaustively for all formulas with <=2 leaves x 16 attribute assignments (AccessControl, Complete, PredicatesAgree; NNF preserves semantics; the naive boolean reading differs). TLC enumerates every formula (<=2 leaves complete in quick plus a 2 500-formula sample of the 16 384 three-leaf ones; all of them in thorough), the driver runs each through FromString, String->FromString, Satisfaction, Encrypt, ExtractFromCiphertext, CouldDecrypt and Decrypt under all 16 keys, single-bit alterations, both ciphertext formats (golden files), and TLC accepts the recorded answers only if they equal the specification's. Trace_Large.tla also judges: strings with tokens after a complete policy (reject), a used policy still equal to an unused one and to its print/parse round trip, attribute values of 60-200 characters differing in the last one, and attribute keys too large for the 16-bit length fields (refused or round-tripping).",
 "note": "Alphabet of 2 labels x 2 values (+ absent / third value); formulas up to 3 leaves; messages of 7 lengths; bit alterations sampled (160 quick / 3000 thorough), not all. Pairing arithmetic itself is C12/C13.",
 "technique": "TLC-enumerated formula space + exhaustive model check of the decryption machine; replay on real tkn20; TLC trace validation with TLA+ evaluator as oracle",
}
