"""C06 X25519 / X448 equal RFC 7748 on every input and flag exactly the all-zero results.  spec/C06"""
import json, os, random, copy
from concurrent.futures import ThreadPoolExecutor
from vlib import common as C

LEVEL = "model_checking"


def mont_jobs(w, sub, jobs):
    d = os.path.join(w, sub)
    os.makedirs(d, exist_ok=True)
    C.stage_specs(d, "C06")
    json.dump(jobs, open(os.path.join(d, "jobs.json"), "w"))
    r = C.tlc(d, "MontJobs", "MontJobs.cfg", workers=1, heap="2g", timeout=3300, stack="256m")
    vp = os.path.join(d, "verdict.json")
    if not r.ok or not os.path.exists(vp):
        raise C.Infra("MontJobs failed:\n%s" % r.tail(40))
    v = json.load(open(vp))
    if v["consumed"] != len(jobs):
        raise C.Infra("MontJobs consumed %d of %d jobs" % (v["consumed"], len(jobs)))
    bad = v["bad"] if isinstance(v["bad"], list) else list(v["bad"].values())
    return [jobs[int(i) - 1] for i in bad], r.distinct


def hexs(a):
    return bytes(a).hex()


LADDER_CONFIGS = [("default", "", {}), ("nobmi2", "", {"GODEBUG": "cpu.bmi2=off"}), ("noadx", "", {"GODEBUG": "cpu.adx=off,cpu.bmi2=off"}), ("purego", "purego", {})]


def run(tier, rep, replay=None):
    w = C.scratch("c06")
    C.stage_specs(w, "C06", "C12")
    thorough = tier == "thorough"
    # anchor of the executable specification itself: the RFC 7748 test vectors, one of them falsified
    hx = lambda s: list(bytes.fromhex(s))
    anchor = [
        {"curve": "x25519", "k": hx("a546e36bf0527c9d3b16154b82465edd62144c0ac1fc5a18506a2244ba449ac4"), "u": hx("e6db6867583030db3594c1a424b15f7c726624ec26b3353b10a903a6d0ab1c4c"),
         "want": hx("c3da55379de9c6908e94ea4df28d084f32eccf03491c71f754b4075577a28552"), "class": "rfc"},
        {"curve": "x25519", "k": hx("4b66e9d4d1b4673c5ad22691957d6af5c11b6421e0ea01d42ca4169e7918ba0d"), "u": hx("e5210f12786811d3f4b7959d0538ae2c31dbe7106fc03c3efc4cd549c715a493"),
         "want": hx("95cbde9476e8907d7aade45cb4b873f88b595a68799fa152e6f8f7647aac7956"), "class": "rfc-falsified"},
    ]
    if thorough:
        anchor.append({"curve": "x448", "k": hx("3d262fddf9ec8e88495266fea19a34d28882acef045104d0d1aae121700a779c984c24f8cdd78fbff44943eba368f54b29259a4f1c600ad3"),
                       "u": hx("06fce640fa3487bfda5f6cf2d5263f8aad88334cbd07437f020f08f9814dc031ddbdc38c19c6da2583fa5429db94ada18aa7a7fb4ef8a086"),
                       "want": hx("ce3e4ff95a60dc6697da1db1d85e6afbdf79b50a2412d7546d5f239fe14fbaadeb445fc66a01b0779d98223961111e21766282f73dd96b6f"), "class": "rfc"})
    drv = C.go_build_driver(w, "c06")
    tp, jp = os.path.join(w, "t.ndjson"), os.path.join(w, "jobs.json")
    C.run([drv, "-out", tp, "-jobs", jp, "-seed", str(C.SEED), "-jobs25519", "40" if thorough else "6", "-jobs448", "12" if thorough else "2"] + (["-thorough"] if thorough else []),
          timeout=3300, what="c06 driver")
    lines = C.read_ndjson(tp)
    jobs = json.load(open(jp))
    # TLC recomputes RFC 7748 for the sampled triples: one JVM per job (X25519 about 35 s, X448 about 3 min each)
    alljobs = anchor + jobs
    import time
    t0 = time.time()
    with ThreadPoolExecutor(min(C.NCPU, 14)) as ex:
        res = list(ex.map(lambda ij: mont_jobs(w, "mj%d" % ij[0], [ij[1]]), enumerate(alljobs)))
    rep.add(tlc_recompute_wall_s=int(time.time() - t0))
    states = sum(r[1] for r in res)
    badjobs = [b for r in res for b in r[0]]
    if [b["class"] for b in badjobs if b["class"].startswith("rfc")] != ["rfc-falsified"]:
        raise C.Infra("MontJobs does not reproduce the RFC 7748 vectors / accept a falsified one: %s" % [b["class"] for b in badjobs])
    for b in badjobs:
        if b["class"] == "rfc-falsified":
            continue
        rep.violation("rfc7748:%s:%s:k=%s,u=%s" % (b["curve"], b["class"], hexs(b["k"])[:16], hexs(b["u"])[:16]),
                      {"curve": b["curve"], "k": hexs(b["k"]), "u": hexs(b["u"]), "got": hexs(b["want"]), "explain": "the returned value is not RFC 7748's (recomputed by TLC, MontJobs.tla)"})
    bad, r = C.validate_lines(w, "Trace_Dh", "Lines.cfg", lines)
    for i in bad:
        ln = lines[i]
        if ln["ev"] == "kem":
            key = "kem:%s:%s:%s:%s" % (ln["kem"], ln["op"], ln["site"].split("#")[0], "error" if ln["err"] else "no-error")
            det = ln
        else:
            what = "value" if (ln["ev"] == "dh" and ln["out"] != ln["ref"]) else ("flag" if ln["ev"] in ("dh", "pair") and ln["out"] == ln.get("ref", ln["out"]) and ln["ev"] == "dh" else ln["ev"])
            key = "%s:%s:%s:%s:%s" % (ln["ev"], ln["curve"], ln.get("op", ""), ln["class"].split("/")[0], what)
            det = {"curve": ln["curve"], "op": ln["op"], "class": ln["class"], "k": hexs(ln["k"]), "u": hexs(ln["u"]), "out": hexs(ln["out"]), "ref": hexs(ln["ref"]), "outb": hexs(ln["outb"]), "ok": ln["ok"]}
        rep.violation(key, {"observed": det, "explain": "line rejected by Trace_Dh.tla"})
    # ---- the ladder building blocks of dh/x25519 and dh/x448 (mulA24, double, ladderStep, diffAdd) under every back-end, in-package recorders
    llines = []
    for pkg in ("dh/x25519", "dh/x448"):
        for label, tags, env in LADDER_CONFIGS:
            tb = C.go_build_intree(w, pkg, tags=tags)
            lp = os.path.join(w, "l-%s-%s.ndjson" % (pkg.replace("/", "_"), label))
            C.run([tb, "-test.run", "TestVerifLadder", "-test.count=1"], env=dict(os.environ, VERIF_OUT=lp, VERIF_SEED=str(C.SEED), VERIF_N="150" if thorough else "25", VERIF_IMPL=label, **env),
                  timeout=3000, what="in-tree ladder recorder %s %s" % (pkg, label))
            llines += C.read_ndjson(lp)
    shards = [llines[i::8] for i in range(8)]

    def lshard(i):
        d = os.path.join(w, "lad%d" % i)
        os.makedirs(d, exist_ok=True)
        C.stage_specs(d, "C06", "C12")
        return C.validate_lines(d, "Trace_Ladder", "Lines.cfg", shards[i])
    with ThreadPoolExecutor(8) as ex:
        lres = list(ex.map(lshard, range(8)))
    for i, (lb, _) in enumerate(lres):
        for j in lb:
            ln = shards[i][j]
            rep.violation("ladder:%s:%s:%s:%s" % (ln["curve"], ln["op"], ln["class"].split()[0], ln["impl"]),
                          {"observed": ln, "explain": "output is not congruent to the Montgomery-ladder formula of Trace_Ladder.tla (TLC reduces modulo p itself)"})
    lgood = [l for l in llines if l["op"] == "mulA24" and not l["panics"]]
    if lgood:
        x = copy.deepcopy(lgood[0])
        x["out"][0][0] = (x["out"][0][0] + 38) % 4096
        b3, _ = C.validate_lines(w, "Trace_Ladder", "Lines.cfg", [x])
        if b3 != [0]:
            raise C.Infra("ladder binding canary accepted")
    rep.add(ladder_lines=len(llines), ladder_ops=sorted({l["op"] for l in llines}), ladder_classes=sorted({l["class"] for l in llines}), ladder_configs=[c[0] for c in LADDER_CONFIGS],
            ladder_states=sum(r.distinct for _, r in lres))
    good = [i for i in range(len(lines)) if i not in set(bad) and lines[i]["ev"] == "dh" and lines[i]["op"] == "shared"]
    if good:
        x = copy.deepcopy(lines[random.Random(C.SEED).choice(good)])
        x["ok"] = not x["ok"]
        y = copy.deepcopy(lines[random.Random(C.SEED + 1).choice(good)])
        y["out"][3] ^= 1
        b2, _ = C.validate_lines(w, "Trace_Dh", "Lines.cfg", [x, y])
        if b2 != [0, 1]:
            raise C.Infra("binding canary accepted")
    rep.add(states=max(1, states), transitions=max(1, states), traces_validated_against_impl=len(lines), tlc_recomputed=len(jobs),
            tlc_recomputed_classes=sorted({j["class"] for j in jobs}), dh_lines=sum(1 for l in lines if l["ev"] == "dh"), alias_lines=sum(1 for l in lines if l["ev"] == "alias"),
            kem_lines=sum(1 for l in lines if l["ev"] == "kem"), back_end="Shared / KeyGen: the build's default (C14 compares the back-ends); ladder building blocks: every back-end")
    for l in [x for x in lines if x["ev"] == "dh"][:1] + [x for x in lines if x["ev"] == "kem"][:2]:
        rep.sample({k: (hexs(v) if k in ("k", "u", "out", "ref", "outb") else v) for k, v in l.items() if k not in ("ua", "ub", "qa", "qb")})
    rep.assumptions += ["bulk comparison uses a math/big transcription of RFC 7748 (harness/drivers/terms); TLC itself recomputes RFC 7748 (MontJobs.tla, no hints) for a class-covering sample of the same run, including the RFC vectors and a falsified vector that must be rejected",
                        "inputs are edge-biased classes (non-canonical u, ignored bit, order-8 and twist points, limb corner patterns, clamping-sensitive scalars) plus seeded random ones; not all 2^510 pairs"]


MANIFEST = {
 "text": "Trace_Ladder.tla judges the ladder building blocks of dh/x25519 and dh/x448 (mulA24, double, ladderStep, diffAdd) recorded in-package under four back-end configurations on structured raw operands, incl. the operands for which a24 * x needs its second carry fold: TLC reduces modulo p itself and requires the RFC 7748 step formulas. MontJobs.tla is RFC 7748 section 5 as an executable TLA+ job machine (scalar clamping, u decoding with the ignored bit and reduction mod p, one action per ladder step on base-4096 digit arithmetic, final projective comparison instead of the inversion): TLC recomputes, without any hint, the X25519 / X448 value for a class-covering sample of the (scalar, peer, output) triples the library produced in the same run, after reproducing the RFC vectors and rejecting a falsified one. The driver calls x25519/x448 KeyGen and Shared on every combination of peer classes (0, 1, p-1, p, p+1, 2p+-d, 2^255+-d, the order-8 points and their non-canonical and top-bit aliases, p+0..20 with and without bit 255, all-ones, low limbs all ones, single limbs, limb boundaries, structured, random) and scalar classes (0, 1, all-ones, clamping-sensitive first and last bytes, random); TLC judges each line: value = RFC value, flag false exactly when the value is all zero, aliases of the same field element (checked mod p by TLC) give the same output, two parties agree, KeyGen = function of the base point, and for the 10 KEM wrappers (HPKE X25519 / X448 / X25519Kyber768 / X-Wing, four Kyber-X hybrids, X25519MLKEM768, X-Wing) a low-order peer value in the public key or ciphertext yields an error (X-Wing exempt) while honest runs succeed. Scalars include the clamped secret 4q of X448 (all-zero output for every peer), and the KEM lines the authenticated HPKE operations with a low-order recipient, sender identity or encapsulated key.",
 "note": "TLC recomputation is limited to 8 triples in quick (6 X25519 at about 35 s, 2 X448 at about 4 min, parallel JVMs) and 52 in thorough; all other lines rely on the math/big reference.",
 "technique": "executable TLA+ RFC 7748 (TLC recomputation of sampled outputs, no hints) + TLC judgement of recorded calls (flag rule, alias / agreement relations with BigNat congruences, KEM error rule) + differential against a math/big transcription",
}
