"""C16 OPRF, DLEQ/Schnorr/Qn-DLEQ proofs, simplest OT.  spec/C16"""
import json, os, random, copy
from concurrent.futures import ThreadPoolExecutor
from vlib import common as C

LEVEL = "model_checking"


def h2c_job(w, i, l):
    d = os.path.join(w, "h2c%d" % i)
    os.makedirs(d, exist_ok=True)
    C.stage_specs(d, "C16")
    r255 = l["curve"] == "R255"
    module = "R255Job" if r255 else ("G2HashJob" if l["curve"] == "BLS12381G2" else "H2CJob")
    job = {"uniform": l["uniform"], "enc": l["x"]} if r255 else {k: l[k] for k in ("curve", "uniform", "x", "y", "identity")}
    if module == "G2HashJob":
        job = {"uniform": l["uniform"], "x0": l["x"][:48], "x1": l["x"][48:], "y0": l["y"][:48], "y1": l["y"][48:], "identity": l["identity"]}
    json.dump(job, open(os.path.join(d, "job.json"), "w"))
    r = C.tlc(d, module, module + ".cfg", workers=1, heap="3g", timeout=3300, stack="256m")
    vp = os.path.join(d, "verdict.json")
    if not r.ok or not os.path.exists(vp):
        raise C.Infra("%s failed:\n%s" % (module, r.tail(40)))
    v = json.load(open(vp))
    if not v["done"] or not v.get("sane", True):
        raise C.Infra("%s did not reach the end / failed its own sanity conditions: %s\n%s" % (module, v, r.tail(20)))
    return v, r.distinct


def expander_jobs(w, i, jobs):
    d = os.path.join(w, "xj%d" % i)
    os.makedirs(d, exist_ok=True)
    C.stage_specs(d, "C15")
    json.dump(jobs, open(os.path.join(d, "jobs.json"), "w"))
    r = C.tlc(d, "ExpanderJobs", "ExpanderJobs.cfg", workers=1, heap="3g", timeout=3300, stack="256m")
    vp = os.path.join(d, "verdict.json")
    if not r.ok or not os.path.exists(vp):
        raise C.Infra("ExpanderJobs failed:\n%s" % r.tail(40))
    v = json.load(open(vp))
    if v["consumed"] != len(jobs):
        raise C.Infra("ExpanderJobs consumed %d of %d jobs" % (v["consumed"], len(jobs)))
    bad = v["bad"] if isinstance(v["bad"], list) else list(v["bad"].values())
    return {int(x) - 1 for x in bad}, r.distinct


def hash_to_curve(w, drv, thorough, rep):
    """RFC 9380 hash_to_curve on P-256 / P-384 / P-521 recomputed by TLC: ExpanderJobs.tla for expand_message_xmd, H2CJob.tla for the rest."""
    hp = os.path.join(w, "h2c.ndjson")
    hl = C.read_ndjson(hp)
    for l in hl:
        if l["panics"]:
            rep.violation("h2c:%s:%s:panic" % (l["curve"], l["class"]), {"observed": l, "explain": "HashToElement panicked"})
    hl = [l for l in hl if not l["panics"]]
    rnd = random.Random(C.SEED)
    pick = []
    for curve, nq in (("R255", 4), ("P256", 4), ("P384", 1), ("BLS12381G1", 1), ("P521", 0), ("BLS12381G2", 0)):
        ls = [l for l in hl if l["curve"] == curve]
        fixed, rest = ls[:2], ls[2:]
        rnd.shuffle(rest)
        pick += (ls[:3] if curve == "BLS12381G2" else ls) if thorough else (fixed[1:2] + rest)[:nq]
    anchor = [l for l in hl if l["curve"] == "P256" and l["class"] == "rfc9380-empty"][0]
    if bytes(anchor["x"]).hex() != "2c15230b26dbc6fc9a37051158c95b79656e17a1a920b11394ca91c44247d3e4":
        rep.violation("h2c:P256:rfc9380-empty", {"observed": anchor, "explain": "differs from the RFC 9380 appendix J.1.1 vector"})
    fals = copy.deepcopy(anchor)
    fals["y"][-1] ^= 1
    xj = [{"kind": l["kind"], "k": 0, "dst": l["dst"], "msg": l["msg"], "n": l["n"], "want": l["uniform"]} for l in pick]
    groups = [list(range(len(xj)))[i::8] for i in range(8)]
    groups = [g for g in groups if g]
    with ThreadPoolExecutor(min(C.NCPU, 14)) as ex:
        fx = [ex.submit(expander_jobs, w, gi, [xj[i] for i in g]) for gi, g in enumerate(groups)]
        ranchor = [l for l in hl if l["curve"] == "R255"][0]
        rfals = copy.deepcopy(ranchor)
        rfals["x"][3] ^= 4
        fh = [ex.submit(h2c_job, w, i, l) for i, l in enumerate([anchor, fals] + pick + [ranchor, rfals])]
        xres = [f.result() for f in fx]
        hres = [f.result() for f in fh]
    if not hres[0][0]["ok"] or hres[1][0]["ok"]:
        raise C.Infra("H2CJob does not reproduce RFC 9380 J.1.1 / accepts a falsified point")
    if hres[-1][0]["ok"]:
        raise C.Infra("R255Job accepts a falsified encoding")
    hres = hres[:-2]
    for g, (bad, _) in zip(groups, xres):
        for bi in bad:
            l = pick[g[bi]]
            rep.violation("h2c:%s:%s:expander" % (l["curve"], l["class"]), {"observed": l, "explain": "expand_message_xmd output differs from RFC 9380 5.3.1 recomputed by TLC"})
    for l, (v, _) in zip(pick, hres[2:]):
        if not v["ok"]:
            rep.violation("h2c:%s:%s" % (l["curve"], l["class"]), {"observed": l, "tlc": {k: (bytes(x).hex() if isinstance(x, list) else x) for k, x in v.items()},
                                                                 "explain": "HashToElement differs from RFC 9380 hash_to_curve recomputed by TLC (H2CJob.tla / R255Job.tla)"})
    rep.add(h2c_calls=len(hl), h2c_tlc_recomputed=len(pick), h2c_curves=sorted({l["curve"] for l in pick}), h2c_states=sum(x[1] for x in hres) + sum(x[1] for x in xres))


def run(tier, rep, replay=None):
    w = C.scratch("c16")
    C.stage_specs(w, "C16")
    thorough = tier == "thorough"
    r1 = C.tlc_must(C.tlc(w, "MC_Oprf_big" if thorough else "MC_Oprf", "Empty.cfg", timeout=3000), "MC_Oprf (protocol algebra over a toy group, all keys/blinds/inputs)")
    r2 = C.tlc_must(C.tlc(w, "QnDleq", "Empty.cfg", timeout=900), "QnDleq (toy N=77: completeness; prover-chosen parameter accepts everything)")
    drv = C.go_build_driver(w, "c16")
    tp = os.path.join(w, "t.ndjson")
    C.run([drv, "-out", tp, "-seed", str(C.SEED), "-reps", "20" if thorough else "2", "-h2c", os.path.join(w, "h2c.ndjson"), "-nh2c", "16" if thorough else "4"], timeout=3300, what="c16 driver")
    hash_to_curve(w, drv, thorough, rep)
    lines = C.read_ndjson(tp)
    bad, r = C.validate_lines(w, "Trace_Proofs", "Lines.cfg", lines)
    for i in bad:
        ln = lines[i]
        if ln["ev"] == "oprf":
            key = "oprf:%s:%s:%s" % (ln["obj"], ln["mode"], ln["site"])
        elif ln["ev"] == "ot":
            key = "ot:%s" % ln["obj"]
        else:
            key = "proof:%s:%s:%s" % (ln["obj"].split()[0], ln["site"], "panic" if ln["panics"] else ("accepted" if ln["accepted"] else "rejected-honest"))
        rep.violation(key, {"observed": ln, "explain": "outcome differs from ProofVerdict.tla"})
    good = [i for i in range(len(lines)) if i not in set(bad) and lines[i]["ev"] == "proof" and lines[i]["site"] != "none"]
    if good:
        x = copy.deepcopy(lines[random.Random(C.SEED).choice(good)])
        x["accepted"] = 1
        b2, _ = C.validate_lines(w, "Trace_Proofs", "Lines.cfg", [x])
        if b2 != [0]:
            raise C.Infra("binding canary accepted")
    rep.add(states=max(1, r.distinct), transitions=max(1, r.generated), traces_validated_against_impl=len(lines),
            executions=sum(l["total"] for l in lines), objects=sorted({l["obj"] for l in lines}))
    for l in lines[:2] + [x for x in lines if x["ev"] == "proof"][:2] + [x for x in lines if x["ev"] == "ot"][:1]:
        rep.sample(l)
    rep.assumptions += ["hash-to-group: TLC recomputes group.HashToElement of all four OPRF groups and bls12381.G1.Hash / G2.Hash from RFC 9380 / RFC 9496 on a sample (ExpanderJobs.tla + H2CJob.tla / G2HashJob.tla / R255Job.tla; P-521 and G2 in thorough only)",
                        "toy-group algebra (Q = 7 quick; 11 and 13 thorough) stands for the real groups' algebra"]


MANIFEST = {
 "text": "H2CJob.tla is RFC 9380 hash_to_curve for P256_XMD:SHA-256_SSWU_RO_, P384_XMD:SHA-384_SSWU_RO_, P521_XMD:SHA-512_SSWU_RO_ and BLS12381G1_XMD:SHA-256_SSWU_RO_ (the latter with the 11-isogeny evaluated by Horner's rule, projective addition / doubling on y^2 = x^3 + 4 and multiplication by h_eff one action per bit; hash_to_field reduction, simplified SWU with inv0 and square root as exponentiations one action per bit, sgn0, affine point addition; Barrett arithmetic on base-4096 digits, constants checked by ASSUME) with which - together with ExpanderJobs.tla for expand_message_xmd - TLC recomputes group.HashToElement (the HashToGroup of the RFC 9497 suites) and bls12381.G1.Hash (the message hash of BLS signatures in G1) for sampled messages and domain-separation tags incl. over-long and empty tags, after reproducing RFC 9380 J.1.1 and refusing a falsified point; G2HashJob.tla is the same for BLS12381G2_XMD:SHA-256_SSWU_RO_ over Fp2 (inverse and square root through the norm, sgn0 of Fp2, the 3-isogeny, multiplication by the 636-bit h_eff; about 10 minutes per call, thorough tier). R255Job.tla is hash_to_ristretto255 (RFC 9380 appendix B: the one-way map of RFC 9496 4.3.4 with SQRT_RATIO_M1 on both halves, complete addition, the encoding of 4.3.2; constants checked against their defining equations). Oprf.tla checks the algebra of OPRF/POPRF blinding, DLEQ and Schnorr completeness, DLEQ algebraic soundness (a false statement fits at most one challenge) and OT key agreement for ALL keys, blinds and inputs of a toy prime-order group; QnDleq.tla (N=77) shows completeness and that a verifier taking the security parameter from the proof accepts (Z, C=0, parameter 0) for every statement. The driver runs all four suites x three modes (derived and random keys, batches of 1-4, input lengths 0..65535, structured blinds 1 / order-1 / random, batch-of-one consistency, FullEvaluate and VerifyFinalize) and every alteration site (evaluated element changed / swapped / identity, proof c or s bit-flipped or zeroed, other key, other info, other blinded elements), DLEQ batch proofs, Schnorr proofs and Qn-DLEQ proofs with every statement / proof / context alteration and degenerate assembly (zero challenge, zero response, identity elements, prover-chosen parameter, proof made for another key), and both OT choice bits incl. decrypting the other ciphertext with the derived key; TLC judges the recorded outcomes against ProofVerdict.tla. Further alteration sites: proof-nil, proof-trailing, zero-blind, statement-negated, statement-oversize, unequal OT ciphertext lengths; the honest Schnorr proof must satisfy the verification equation for the challenge the driver computes from the documented transcript.",
 "note": "Seeded random keys / inputs (2 repetitions per suite and mode in quick, 20 in thorough).",
 "technique": "TLC exhaustive check of protocol algebra on toy groups + alteration-site scenarios replayed on real code + TLC judgement of recorded outcomes",
}
