"""C16 OPRF, DLEQ/Schnorr/Qn-DLEQ proofs, simplest OT.  spec/C16"""
import json, os, random, copy
from vlib import common as C

LEVEL = "model_checking"


def run(tier, rep, replay=None):
    w = C.scratch("c16")
    C.stage_specs(w, "C16")
    thorough = tier == "thorough"
    r1 = C.tlc_must(C.tlc(w, "MC_Oprf_big" if thorough else "MC_Oprf", "Empty.cfg", timeout=3000), "MC_Oprf (protocol algebra over a toy group, all keys/blinds/inputs)")
    r2 = C.tlc_must(C.tlc(w, "QnDleq", "Empty.cfg", timeout=900), "QnDleq (toy N=77: completeness; prover-chosen parameter accepts everything)")
    drv = C.go_build_driver(w, "c16")
    tp = os.path.join(w, "t.ndjson")
    C.run([drv, "-out", tp, "-seed", str(C.SEED), "-reps", "20" if thorough else "2"], timeout=3300, what="c16 driver")
    lines = C.read_ndjson(tp)
    bad, r = C.validate_lines(w, "Trace_Proofs", "Lines.cfg", lines)
    for i in bad:
        ln = lines[i]
        if ln["ev"] == "oprf":
            key = "oprf:%s:%s:%s" % (ln["obj"], ln["mode"], ln["site"])
        elif ln["ev"] == "ot":
            key = "ot:%s" % ln["obj"]
        else:
            key = "proof:%s:%s:%s" % (ln["obj"].split()[0], ln["site"], "panic" if ln["panics"] else ("accepted" if ln["accepted"] else "rejected-honest"))
        rep.violation(key, {"observed": ln, "explain": "outcome differs from ProofVerdict.tla"})
    good = [i for i in range(len(lines)) if i not in set(bad) and lines[i]["ev"] == "proof" and lines[i]["site"] != "none"]
    if good:
        x = copy.deepcopy(lines[random.Random(C.SEED).choice(good)])
        x["accepted"] = 1
        b2, _ = C.validate_lines(w, "Trace_Proofs", "Lines.cfg", [x])
        if b2 != [0]:
            raise C.Infra("binding canary accepted")
    rep.add(states=max(1, r.distinct), transitions=max(1, r.generated), traces_validated_against_impl=len(lines),
            executions=sum(l["total"] for l in lines), objects=sorted({l["obj"] for l in lines}))
    for l in lines[:2] + [x for x in lines if x["ev"] == "proof"][:2] + [x for x in lines if x["ev"] == "ot"][:1]:
        rep.sample(l)
    rep.assumptions += ["hash-to-group itself is anchored by the RFC 9497 vectors of the repository's tests; here: relations between client and server computations",
                        "toy-group algebra (Q = 7 quick; 11 and 13 thorough) stands for the real groups' algebra"]


MANIFEST = {
 "text": "Oprf.tla checks the algebra of OPRF/POPRF blinding, DLEQ and Schnorr completeness, DLEQ algebraic soundness (a false statement fits at most one challenge) and OT key agreement for ALL keys, blinds and inputs of a toy prime-order group; QnDleq.tla (N=77) shows completeness and that a verifier taking the security parameter from the proof accepts (Z, C=0, parameter 0) for every statement. The driver runs all four suites x three modes (derived and random keys, batches of 1-4, input lengths 0..65535, structured blinds 1 / order-1 / random, batch-of-one consistency, FullEvaluate and VerifyFinalize) and every alteration site (evaluated element changed / swapped / identity, proof c or s bit-flipped or zeroed, other key, other info, other blinded elements), DLEQ batch proofs, Schnorr proofs and Qn-DLEQ proofs with every statement / proof / context alteration and degenerate assembly (zero challenge, zero response, identity elements, prover-chosen parameter, proof made for another key), and both OT choice bits incl. decrypting the other ciphertext with the derived key; TLC judges the recorded outcomes against ProofVerdict.tla.",
 "note": "Seeded random keys / inputs (2 repetitions per suite and mode in quick, 20 in thorough).",
 "technique": "TLC exhaustive check of protocol algebra on toy groups + alteration-site scenarios replayed on real code + TLC judgement of recorded outcomes",
}
