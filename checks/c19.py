"""C19 Prio3: aggregates, rejection of invalid / altered reports, constructors, round trips.  spec/C19"""
import os, random, copy
from vlib import common as C

LEVEL = "model_checking"
PKGS = ["count", "sum", "sumvec", "histogram", "mhcv"]


def key_of(ln):
    if ln["ev"] == "new":
        return "new:%s:a=%s,b=%s,c=%s,shares=%s:%s" % (ln["inst"], ln["a"], ln["b"], ln["c"], ln["shares"], ln["outcome"])
    if ln["ev"] == "unshard":
        return "unshard:%s:%s" % (ln["inst"], "panic" if ln["panics"] else ("err" if ln["err"] else "wrong-aggregate"))
    what = "panic" if ln["panics"] else ("accepted" if ln["accepted"] else "rejected@" + ln["stage"])
    if not ln["panics"] and not ln.get("owned", True):
        what = "state-aliases-input-share"
    return "report:%s:%s:%s:%s:%s" % (ln["inst"], ln["kind"], ln["site"], "" if ln["panics"] else ln.get("note", ""), what)


def run(tier, rep, replay=None):
    w = C.scratch("c19")
    C.stage_specs(w, "C19")
    thorough = tier == "thorough"
    mcs = ["MC_Prio3_q_jr", "MC_Prio3_q_nojr", "MC_Prio3_nojr"] + (["MC_Prio3_q3_jr", "MC_Prio3_jr"] if thorough else [])
    st = tr = 0
    for cfg in mcs:
        r = C.tlc_must(C.tlc(w, "Prio3", cfg + ".cfg", timeout=3000), "Prio3 protocol model %s" % cfg)
        st, tr = st + r.distinct, tr + r.generated
    C.tlc_must(C.tlc(w, "Prio3Circuits", "Empty.cfg", workers=1, timeout=1800), "Prio3Circuits (validity circuits decide Valid over F_7, all vectors, all joint randomness)")
    lines = []
    outd = os.path.join(w, "out")
    os.makedirs(outd, exist_ok=True)
    env = dict(os.environ, VERIF_OUT=outd, VERIF_SEED=str(C.SEED))
    if thorough:
        env["VERIF_THOROUGH"] = "1"
    for pkg in PKGS:
        tb = C.go_build_intree(w, "vdaf/prio3/" + pkg)
        C.run([tb, "-test.run", "TestZZVerifRun", "-test.count=1", "-test.timeout=50m"], env=env, timeout=3300, what="prio3 session recorder %s" % pkg)
        lines += C.read_ndjson(os.path.join(outd, pkg + ".ndjson"))
    acc, rejected, states = C.validate_stateful(w, "Trace_Prio3", "Trace_Prio3.cfg", lines, max_rounds=40)
    for t, ln, tail in rejected:
        if t == -1:
            rep.violation("more", ln)
            continue
        short = {k: v for k, v in ln.items() if k not in ("enc",)}
        short["enc_len"] = len(ln.get("enc", []))
        rep.violation(key_of(ln), {"observed": short, "session": t, "explain": "line cannot be explained by Trace_Prio3.tla (Prio3Types.tla)"})
    # binding canaries: an accepted invalid report / a wrong aggregate must be rejected
    rnd = random.Random(C.SEED)
    okset = {id(x) for x in acc}
    sessions = {}
    for ln in acc:
        sessions.setdefault(ln["tr"], []).append(ln)
    cands = [s for s in sessions.values() if any(l["ev"] == "report" and l["kind"] == "raw" and not l["accepted"] for l in s)]
    if cands:
        for mut in ("accept-invalid", "aggregate"):
            s = copy.deepcopy(rnd.choice(cands))
            if mut == "accept-invalid":
                x = [l for l in s if l["ev"] == "report" and l["kind"] == "raw" and not l["accepted"]][0]
                x["accepted"] = True
            else:
                x = [l for l in s if l["ev"] == "unshard"][-1]
                x["result"] = [[7] + list(d) for d in x["result"]]
            a2, rj2, _ = C.validate_stateful(w, "Trace_Prio3", "Trace_Prio3.cfg", s, max_rounds=2)
            if not rj2:
                raise C.Infra("binding canary (%s) accepted" % mut)
    reports = [l for l in lines if l["ev"] == "report"]
    rep.add(states=max(1, st), transitions=max(1, tr), traces_validated_against_impl=len(sessions) + len(rejected), trace_lines=len(lines),
            reports=len(reports), altered_reports=sum(1 for l in reports if l["site"] != "none"), raw_invalid=sum(1 for l in reports if l["kind"] == "raw"),
            constructors=sum(1 for l in lines if l["ev"] == "new"), sites=sorted({l["site"] for l in reports}), trace_states=states)
    for l in [x for x in lines if x["ev"] == "new"][:2] + [x for x in reports if x["site"] != "none"][:2] + [x for x in lines if x["ev"] == "unshard"][:1]:
        rep.sample({k: v for k, v in l.items() if k != "enc"})
    rep.assumptions += ["the fully linear proof is ideal in the protocol model; the real proof system is exercised by the replayed sessions (soundness error 2^-60 or less per report)",
                        "batch totals are kept below the field modulus and below 2^64 (the aggregate type)",
                        "a single message is altered per report; without joint randomness a nonce altered for ALL aggregators is by design not detectable and is not tried"]


MANIFEST = {
 "text": "Prio3.tla model-checks the protocol (shard into additive shares over a toy field, in-flight alteration of any share / proof / public-share part, prepare with joint-randomness consistency, aggregate, repeated unshard) with an ideal proof system: the unsharded value is the sum of exactly the accepted reports, accepted reports are valid, a single alteration is never accepted, unsharding never changes an aggregation share. Prio3Circuits.tla evaluates the draft's validity circuits over F_7 for ALL vectors and ALL joint randomness and proves they decide Prio3Types!Valid (incl. lengths that are not a multiple of the chunk length). In-tree recorders run every instance (Count, Sum, SumVec, Histogram, MultihotCountVec) on admissible, boundary and degenerate parameters and 2..5 (255 thorough) aggregators: honest batches with extremes, non-measurements, 15 single-message alteration sites, invalid encodings proved honestly through the library's own Prove (non-bit entries at first / last / random position, mismatched range halves, two-hot / zero-hot / non-bit-sum-one histograms, over-weight vectors whose reported weight hides the excess), every message through its marshal/unmarshal round trip, unshard mid-batch, twice, after more reports and via marshalled aggregation shares. TLC replays each session against Trace_Prio3.tla, which computes the expected encoding, validity and aggregate itself (BigNat arithmetic). The preparation state must not change when the caller decodes the next report into the InputShare object it passed (owned), and the site prep-shares-none (no preparation share reaches the combining step) must be rejected.",
 "note": "Parameter sets and measurements are fixed boundary cases plus seeded random ones; thorough adds 255 aggregators and a dozen random parameter sets per instance.",
 "technique": "TLC exhaustive check of toy protocol model and of validity circuits over F_7 + in-tree session recorders on real code + TLC stateful trace validation computing expected aggregates",
}
