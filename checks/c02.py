"""C02 signatures: honest ones verify; any altered key, message or signature fails.  spec/C02"""
import json, os, random, copy
from vlib import common as C

LEVEL = "model_checking"


def run(tier, rep, replay=None):
    w = C.scratch("c02")
    C.stage_specs(w, "C02")
    thorough = tier == "thorough"
    r1 = C.tlc_must(C.tlc(w, "SigVerdict", "MC_SigVerdict.cfg", workers=4, timeout=600), "MC_SigVerdict")
    r2 = C.tlc_must(C.tlc(w, "BlsAgg", "MC_BlsAgg.cfg", workers=8, timeout=600), "MC_BlsAgg")
    rep.add(states=r1.distinct + r2.distinct, transitions=r1.generated + r2.generated)
    C.tlc_must(C.tlc(w, "Gen_SigVerdict", "Gen.cfg", timeout=600), "Gen_SigVerdict")
    drv = C.go_build_driver(w, "c02")
    tp = os.path.join(w, "t.ndjson")
    C.run([drv, "-scen", os.path.join(w, "scenarios.json"), "-out", tp, "-seed", str(C.SEED),
           "-stride", "1" if thorough else "5", "-keys", "4" if thorough else "2"], timeout=3400, what="c02 driver")
    lines = C.read_ndjson(tp)
    bad, r = C.validate_lines(w, "Trace_SigVerdict", "Lines.cfg", lines)
    for i in bad:
        ln = lines[i]
        if ln["ev"] == "unmodelled":
            raise C.Infra("variant table drift: %s" % ln)
        what = "panic" if ln["panics"] else ("accepted" if ln["accepted"] and ln["site"] not in ("none", "ctx-nil-vs-empty", "permuted") else "rejected-or-inconsistent")
        rep.violation("sig:%s:%s:%s" % (ln["variant"], ln["site"], what), {"observed": ln, "explain": "verification outcome not allowed by SigVerdict.tla / BlsAgg.tla"})
    good = [i for i in range(len(lines)) if i not in set(bad) and lines[i]["ev"] == "site" and lines[i]["site"] == "sig-bit"]
    if good:
        x = copy.deepcopy(lines[random.Random(C.SEED).choice(good)])
        x["accepted"] = 1
        b2, _ = C.validate_lines(w, "Trace_SigVerdict", "Lines.cfg", [x])
        if b2 != [0]:
            raise C.Infra("binding canary accepted")
        rep.add(canary="one accepted bit-flipped signature injected -> rejected")
    rep.add(traces_validated_against_impl=len(lines), variants=len({l["variant"] for l in lines}),
            verification_calls=sum(l.get("total", 0) for l in lines), trace_states=r.distinct)
    for l in lines[:3] + [x for x in lines if x["ev"] == "blsagg"][:1]:
        rep.sample(l)
    rep.assumptions += ["verdict booleans only; which alteration makes verification fail first is not asserted"]


MANIFEST = {
 "text": "SigVerdict.tla lists the 20 signature variants circl offers (sign.Scheme wrappers, Ed25519 pure/ctx/ph, Ed448 pure/ph, ML-DSA package APIs, BLS in both key groups) with their context/determinism/scalar/hybrid attributes and 21 alteration sites, and decides verification symbolically (accept iff every bound component is honest and the encoding canonical); BlsAgg.tla models aggregation with symbolic discrete logs (permutation accepted; duplicated/missing/other-message rejected), both model-checked. For every applicable (variant, site) the driver signs with 2 seeded keys and applies EVERY concrete alteration of the site (every single-bit flip of signatures up to 1000 bytes and a stride-5 sweep of ML-DSA/Dilithium ones in quick, every truncation length, appended bytes, S+kL, swapped hybrid halves, public-key bit flips and malformed key bytes, contexts 0/1/17/254/255/256/1000, sibling-variant verification), under recover; TLC judges the counts. BlsAgg.tla carries the basic scheme's distinct-message rule; the scenario rogue-key (x*G - pk_victim over {m, m}) is replayed on real keys.",
 "note": "Quick strides ML-DSA/Dilithium signature bit flips (every 5th bit, offset varies by key) and public-key flips (2048 per key); thorough does every bit. Message/key seeds are seeded random.",
 "technique": "TLC model check of symbolic verification decision + BLS aggregation algebra; TLC-emitted (variant, site) table replayed exhaustively per site on real code; TLC trace judgement",
}
