"""C01 KEMs: decapsulation inverts encapsulation; tampering never yields the key.  spec/C01/KemCompose.tla"""
import json, os, random, copy
from vlib import common as C

LEVEL = "model_checking"


def run(tier, rep, replay=None):
    w = C.scratch("c01")
    C.stage_specs(w, "C01")
    thorough = tier == "thorough"
    r1 = C.tlc_must(C.tlc(w, "KemCompose", "MC_KemCompose.cfg", workers=4, timeout=600), "MC_KemCompose")
    rep.add(states=r1.distinct, transitions=r1.generated)
    C.tlc_must(C.tlc(w, "Gen_KemCompose", "Gen.cfg", timeout=600), "Gen_KemCompose")
    drv = C.go_build_driver(w, "c01")
    tp = os.path.join(w, "t.ndjson")
    C.run([drv, "-scen", os.path.join(w, "scenarios.json"), "-terms", os.path.join(w, "terms.json"), "-out", tp, "-seed", str(C.SEED),
           "-keys", "6" if thorough else "2", "-frodobits", "0" if thorough else "500", "-multi", "200" if thorough else "24"],
          timeout=3400, what="c01 driver")
    lines = C.read_ndjson(tp)
    bad, r = C.validate_lines(w, "Trace_KemCompose", "Lines.cfg", lines)
    for i in bad:
        ln = lines[i]
        if ln["ev"] == "basic":
            what = ",".join(k for k in ("derive_det", "encaps_det", "sizes_ok", "roundtrip_ok", "decaps_ok") if not ln[k])
            key = "kem:%s:basic:%s" % (ln["scheme"], what)
        elif ln["ev"] == "alter":
            key = "kem:%s:%s:%s:%s" % (ln["scheme"], ln["kind"], ln["region"], "panic" if ln["panic"] else "class=" + ln["class"])
        else:
            raise C.Infra("registry drift: %s" % ln)
        rep.violation(key, {"observed": ln, "explain": "outcome counts not allowed by KemCompose.tla for this scenario"})
    good = [i for i in range(len(lines)) if i not in set(bad) and lines[i]["ev"] == "alter" and lines[i]["class"] == "reject-exact"]
    if good:
        x = copy.deepcopy(lines[random.Random(C.SEED).choice(good)])
        x["exact"] -= 1; x["other"] += 1
        b2, _ = C.validate_lines(w, "Trace_KemCompose", "Lines.cfg", [x])
        if b2 != [0]:
            raise C.Infra("binding canary accepted")
        rep.add(canary="one inexact rejection secret injected -> rejected")
    rep.add(traces_validated_against_impl=len(lines), schemes=len({l["scheme"] for l in lines}),
            altered_ciphertexts=sum(l.get("total", 0) for l in lines), exact_rejections_checked=sum(l.get("exact", 0) for l in lines),
            trace_states=r.distinct)
    for l in [x for x in lines if x["ev"] == "basic"][:1] + [x for x in lines if x["ev"] == "alter"][:4]:
        rep.sample(l)
    rep.assumptions += ["x/crypto SHA-3/SHAKE and math/big X25519 interpret the rejection / combiner terms",
                        "private-key layouts (z = last 32 bytes of an ML-KEM/Kyber key, s = first 16 bytes of a FrodoKEM-640 key, X-Wing key = 32-byte seed) are those of the standards",
                        "byte-exactness of the honest secret is C03's subject; here honest/rejection relations"]


MANIFEST = {
 "text": "KemCompose.tla models every KEM circl offers (21 schemes) as a composition of leaves (FO with implicit rejection, raw DH shares, RFC 9180 DHKEM, X-Wing) and derives, per ciphertext region and alteration kind, the class of outcome decapsulation may have; TLC checks on arbitrary compositions that the honest secret is possible only without alteration or on the masked bit of a raw X25519 share and that FO-only compositions never error. The driver runs EVERY single-bit flip of every ciphertext (sampled for FrodoKEM in quick), multi-byte edits, all-zero / all-0xFF / other-key ciphertexts on 2 key pairs per scheme (incl. an all-0xFF seed), checks determinism, sizes, marshal round trips, and compares implicit-rejection secrets byte for byte with SHAKE256(z||c), SHAKE256(z||SHA3-256(c)), SHAKE128(c||s) and the X-Wing combiner evaluated from the TLA+ terms; TLC judges the aggregated record and also that the model registry equals circl's.",
 "note": "Seeds are seeded random plus one edge seed; the honest secret's byte-exactness is C03. FrodoKEM flips sampled in quick (500 of 77 760 per key), complete in thorough.",
 "technique": "TLC model check of KEM composition algebra + TLC-emitted scenario table and rejection terms replayed on real KEMs + TLC trace judgement",
}
