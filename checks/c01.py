"""C01 KEMs: decapsulation inverts encapsulation; tampering never yields the key.  spec/C01/KemCompose.tla"""
import json, os, random, copy
from vlib import common as C

LEVEL = "model_checking"


def run(tier, rep, replay=None):
    w = C.scratch("c01")
    C.stage_specs(w, "C01")
    thorough = tier == "thorough"
    r1 = C.tlc_must(C.tlc(w, "KemCompose", "MC_KemCompose.cfg", workers=4, timeout=600), "MC_KemCompose")
    rep.add(states=r1.distinct, transitions=r1.generated)
    C.tlc_must(C.tlc(w, "Gen_KemCompose", "Gen.cfg", timeout=600), "Gen_KemCompose")
    drv = C.go_build_driver(w, "c01")
    tp = os.path.join(w, "t.ndjson")
    C.run([drv, "-scen", os.path.join(w, "scenarios.json"), "-terms", os.path.join(w, "terms.json"), "-out", tp, "-seed", str(C.SEED),
           "-keys", "6" if thorough else "2", "-frodobits", "0" if thorough else "500", "-multi", "200" if thorough else "24",
           "-hashjobs", os.path.join(w, "hashjobs.json")],
          timeout=3400, what="c01 driver")
    # ---- TLC itself recomputes the X-Wing key expansion and combiner (honest and implicitly rejected) and FrodoKEM's rejection secret
    hj = json.load(open(os.path.join(w, "hashjobs.json")))
    for f in hj["facts"] or []:
        if not f["ok"]:
            rep.violation("kem:%s" % f["name"], {"observed": f, "explain": "X-Wing / FrodoKEM decomposition does not hold"})
    jobs = hj["jobs"] or []
    fals = copy.deepcopy([j for j in jobs if j["name"].endswith("combiner-honest")][0])
    fals["want"][0] ^= 1
    d = os.path.join(w, "hj")
    os.makedirs(d, exist_ok=True)
    C.stage_specs(d, "C01")
    json.dump(jobs + [fals], open(os.path.join(d, "jobs.json"), "w"))
    rh = C.tlc(d, "HashJobs", "HashJobs.cfg", workers=1, heap="3g", timeout=1700, stack="256m")
    vp = os.path.join(d, "verdict.json")
    if not rh.ok or not os.path.exists(vp):
        raise C.Infra("HashJobs failed:\n%s" % rh.tail(40))
    v = json.load(open(vp))
    hbad = {int(x) - 1 for x in (v["bad"] if isinstance(v["bad"], list) else list(v["bad"].values()))}
    if v["consumed"] != len(jobs) + 1 or len(jobs) not in hbad:
        raise C.Infra("HashJobs did not consume every job / accepted a falsified combiner output: %s" % v)
    for i in sorted(hbad - {len(jobs)}):
        rep.violation("kem:%s" % jobs[i]["name"], {"job": {k: (bytes(x).hex() if isinstance(x, list) else x) for k, x in jobs[i].items()},
                                                  "explain": "the library's value is not what TLC computes from FIPS 202 for this input (HashJobs.tla): X-Wing's SHAKE256 key expansion / SHA3-256 combiner, FrodoKEM's SHAKE128(c || s)"})
    rep.add(tlc_recomputed_hashes=sorted(j["name"] for j in jobs), tlc_hash_states=rh.distinct)
    lines = C.read_ndjson(tp)
    bad, r = C.validate_lines(w, "Trace_KemCompose", "Lines.cfg", lines)
    for i in bad:
        ln = lines[i]
        if ln["ev"] == "basic":
            what = ",".join(k for k in ("derive_det", "encaps_det", "sizes_ok", "roundtrip_ok", "decaps_ok") if not ln[k])
            key = "kem:%s:basic:%s" % (ln["scheme"], what)
        elif ln["ev"] == "alter":
            key = "kem:%s:%s:%s:%s" % (ln["scheme"], ln["kind"], ln["region"], "panic" if ln["panic"] else "class=" + ln["class"])
        else:
            raise C.Infra("registry drift: %s" % ln)
        rep.violation(key, {"observed": ln, "explain": "outcome counts not allowed by KemCompose.tla for this scenario"})
    good = [i for i in range(len(lines)) if i not in set(bad) and lines[i]["ev"] == "alter" and lines[i]["class"] == "reject-exact"]
    if good:
        x = copy.deepcopy(lines[random.Random(C.SEED).choice(good)])
        x["exact"] -= 1; x["other"] += 1
        b2, _ = C.validate_lines(w, "Trace_KemCompose", "Lines.cfg", [x])
        if b2 != [0]:
            raise C.Infra("binding canary accepted")
        rep.add(canary="one inexact rejection secret injected -> rejected")
    rep.add(traces_validated_against_impl=len(lines), schemes=len({l["scheme"] for l in lines}),
            altered_ciphertexts=sum(l.get("total", 0) for l in lines), exact_rejections_checked=sum(l.get("exact", 0) for l in lines),
            trace_states=r.distinct)
    for l in [x for x in lines if x["ev"] == "basic"][:1] + [x for x in lines if x["ev"] == "alter"][:4]:
        rep.sample(l)
    rep.assumptions += ["x/crypto SHA-3/SHAKE and math/big X25519 interpret the rejection / combiner terms at volume; TLC recomputes X-Wing's key expansion and combiner (honest, implicitly rejected) and one FrodoKEM rejection secret per run with HashJobs.tla",
                        "private-key layouts (z = last 32 bytes of an ML-KEM/Kyber key, s = first 16 bytes of a FrodoKEM-640 key, X-Wing key = 32-byte seed) are those of the standards",
                        "byte-exactness of the honest secret is C03's subject; here honest/rejection relations"]


MANIFEST = {
 "text": "KemCompose.tla models every KEM circl offers (21 schemes) as a composition of leaves (FO with implicit rejection, raw DH shares, RFC 9180 DHKEM, X-Wing) and derives, per ciphertext region and alteration kind, the class of outcome decapsulation may have; TLC checks on arbitrary compositions that the honest secret is possible only without alteration or on the masked bit of a raw X25519 share and that FO-only compositions never error. The driver runs EVERY single-bit flip of every ciphertext (sampled for FrodoKEM in quick), multi-byte edits, all-zero / all-0xFF / other-key ciphertexts on 2 key pairs per scheme (incl. an all-0xFF seed), checks determinism, sizes, marshal round trips, and compares implicit-rejection secrets byte for byte with SHAKE256(z||c), SHAKE256(z||SHA3-256(c)), SHAKE128(c||s) and the X-Wing combiner evaluated from the TLA+ terms; TLC judges the aggregated record and also that the model registry equals circl's. X-Wing is also decomposed into the library's own ML-KEM-768 and X25519 (C03, C06) so that TLC recomputes, with the executable FIPS 202 of HashJobs.tla, its SHAKE256 key expansion and its SHA3-256 combiner for an honest and an implicitly rejected encapsulation, and FrodoKEM's SHAKE128(c || s) rejection secret.",
 "note": "Seeds are seeded random plus one edge seed; the honest secret's byte-exactness is C03. FrodoKEM flips sampled in quick (500 of 77 760 per key), complete in thorough.",
 "technique": "TLC model check of KEM composition algebra + TLC-emitted scenario table and rejection terms replayed on real KEMs + TLC trace judgement",
}
