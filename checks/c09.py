"""C09 decoders accept only canonical encodings of members of the intended group.  spec/C09/Canon.tla"""
import json, os, random, copy
from vlib import common as C

LEVEL = "exploration"


def run(tier, rep, replay=None):
    w = C.scratch("c09")
    C.stage_specs(w, "C09")
    thorough = tier == "thorough"
    r1 = C.tlc_must(C.tlc(w, "Canon", "MC_Canon.cfg", workers=4, timeout=600), "MC_Canon")
    lines = []
    for label, tags in (("default", ""), ("purego", "purego")):
        drv = C.go_build_driver(w, "c09", tags=tags)
        tp = os.path.join(w, "t-%s.ndjson" % label)
        C.run([drv, "-out", tp, "-seed", str(C.SEED), "-flips", "8" if thorough else "2", "-rand", "3000" if thorough else "200"], timeout=3300, what="c09 driver " + label)
        got = C.read_ndjson(tp)
        for x in got:
            x["impl"] += " [" + label + "]"
        lines += got
    bad, r = C.validate_lines(w, "Trace_Canon", "Lines.cfg", lines)
    for i in bad:
        ln = lines[i]
        if ln["panics"]:
            what = "panic"
        elif ln["reenc_diff"]:
            what = "accepts-non-canonical"
        elif ln["not_member"]:
            what = "accepts-non-member"
        elif ln["accepted"] and ln["class"] not in ("valid",):
            what = "accepted"
        else:
            what = "rejects-valid"
        for sh in (ln.get("shapes") or [ln["class"]]):
            rep.violation("decode:%s:%s:%s" % (ln["impl"].split(" [")[0], what, sh if ln.get("shapes") else "class=" + ln["class"]),
                          {"observed": ln, "explain": "decoder verdicts for this class differ from Canon.tla"})
    good = [i for i in range(len(lines)) if i not in set(bad) and lines[i]["class"] == "valid"]
    if good:
        x = copy.deepcopy(lines[random.Random(C.SEED).choice(good)])
        x["reenc_diff"] = 1
        b2, _ = C.validate_lines(w, "Trace_Canon", "Lines.cfg", [x])
        if b2 != [0]:
            raise C.Infra("binding canary accepted")
    n = sum(l["total"] for l in lines)
    rep.add(evaluations=n, distinct_nontrivial=sum(l["total"] for l in lines if l["class"] not in ("random",)),
            rule="byte strings of the exact encoded length built per (format, field class) with math/big plus every single-bit flip of valid encodings; non-trivial = constructed class members and bit flips (they parse up to the faulty field); pure random strings are counted in evaluations only",
            states=r1.distinct, transitions=r1.generated, formats=sorted({l["fmt"] for l in lines}), decoders=sorted({l["impl"] for l in lines}),
            accepted=sum(l["accepted"] for l in lines))
    for l in lines[:3]:
        rep.sample({k: l[k] for k in ("fmt", "impl", "class", "total", "accepted", "reenc_diff", "not_member")})
    rep.assumptions += ["membership of an accepted value is tested with the library's own group arithmetic ((L-1)P + P = O), which C13 validates; curve equations of SEC1 points with math/big",
                        "exact encoded lengths only; trailing bytes are C02 / C10's subject"]


MANIFEST = {
 "text": "Canon.tla models an encoded group element as a tuple of field classes and the decoder as 'accept iff every field canonical, on the curve, and in the prime-order subgroup where the library relies on it'; TLC enumerates all class combinations for the 13 formats (decision total, encoder image = accepted set, each harness class is a single fault, every single fault is rejected). The driver builds members of each class with math/big - coordinates equal to or above the modulus, spare / flag / infinity bits, points off the curve, points on the curve outside the r-torsion (small-x BLS12-381 G1 and G2 points), x = 0 with sign bit, non-canonical aliases of real Ed448 / Ed25519 keys signed over - plus every single-bit flip of valid encodings and random strings, feeds them to G1/G2.SetBytes, BLS public keys (Validate), the four group decoders, OPRF public keys, goldilocks.FromBytes, Ed448/Ed25519 verification, fourq.Point.Unmarshal, curve4q.Shared and ML-KEM public-key parsing (default and purego builds), and records acceptance, re-serialisation equality and membership; TLC judges each (format, class). Canon.tla has the field length (exact / longer): the class trailing (an encoding followed by further bytes) is applied to every slice-taking decoder, the uncompressed forms of BLS and OPRF public keys are bad-flags inputs, and the ed25519 / ed448 scheme key decoders are a format of their own.",
 "note": "Classes and bit flips, not all byte strings. Membership of accepted values uses the library's own scalar multiplication (validated by C13).",
 "technique": "TLC-enumerated field-class model of canonical decoding; class members constructed with math/big and all single-bit flips replayed on real decoders; TLC judges recorded verdicts",
}
