"""C05 Ed25519 / Ed448 sign and verify exactly as RFC 8032 specifies.  spec/C05"""
import json, os, random, copy
from concurrent.futures import ThreadPoolExecutor
from vlib import common as C

LEVEL = "model_checking"


def ed_job(w, i, job, module="Ed25519SignJob"):
    d = os.path.join(w, "ed%d" % i)
    os.makedirs(d, exist_ok=True)
    C.stage_specs(d, "C05")
    json.dump(job, open(os.path.join(d, "job.json"), "w"))
    r = C.tlc(d, module, module + ".cfg", workers=1, heap="3g", timeout=3300, stack="256m")
    vp = os.path.join(d, "verdict.json")
    if not r.ok or not os.path.exists(vp):
        raise C.Infra("%s failed:\n%s" % (module, r.tail(40)))
    v = json.load(open(vp))
    if not v["done"]:
        raise C.Infra("%s did not reach the end:\n%s" % (module, r.tail(20)))
    return v, r.distinct


def run(tier, rep, replay=None):
    w = C.scratch("c05")
    C.stage_specs(w, "C05", "C12")
    thorough = tier == "thorough"
    C.tlc_must(C.tlc(w, "MC_EdVerdict", "MC_EdVerdict.cfg", timeout=900), "MC_EdVerdict (cofactor 8, order 5)")
    C.tlc_must(C.tlc(w, "MC_EdVerdict", "MC_EdVerdict4.cfg", timeout=900), "MC_EdVerdict (cofactor 4, order 7)")
    drv = C.go_build_driver(w, "c05")
    tp = os.path.join(w, "t.ndjson")
    C.run([drv, "-out", tp, "-seed", str(C.SEED)] + (["-thorough"] if thorough else []), timeout=3300, what="c05 driver")
    lines = C.read_ndjson(tp)
    bad, r = C.validate_lines(w, "Trace_Eddsa", "Lines.cfg", lines)
    for i in bad:
        ln = lines[i]
        if ln["ev"] == "sign":
            what = "panic" if ln["panics"] else ("public-key" if ln["pk"] != ln["ref_pk"] else ("signature" if ln["sig"] != ln["ref_sig"] else "scalar-arithmetic"))
            key = "sign:%s:%s" % (ln["variant"], what)
            det = {k: ln[k] for k in ("variant", "class", "pk", "ref_pk", "sig", "ref_sig", "note")}
        else:
            cls = ln["class"].split("#")[0]
            what = "panic" if ln["panics"] else ("entry-points-disagree" if not ln["entry_points_agree"] else ("accepted" if ln["accepted"] else "rejected"))
            key = "verify:%s:%s:%s" % (ln["variant"], cls, what)
            det = {k: ln[k] for k in ("variant", "class", "pub", "msg", "ctx", "sig", "facts", "accepted", "entry_points_agree", "note")}
        rep.violation(key, {"observed": det, "explain": "differs from RFC 8032 (Rfc8032Verdict.tla / the math-big transcription)"})
    # ---- TLC recomputes Ed25519 key derivation and signatures (pure / ctx / ph) from RFC 8032 for a sample of the run
    hx = lambda h: list(bytes.fromhex(h))
    rnd = random.Random(C.SEED)
    rfc = {"variant": "pure", "seed": hx("4ccd089b28ff96da9db6c346ec114e0f5b8a319f35aba624da8cf6ed4fb8a6fb"), "msg": [0x72], "ctx": [],
           "pk": hx("3d4017c3e843895a92b70aa74d1b7ebc9c982ccf2ec4968cc0cd55f12af4660c"),
           "sig": hx("92a009a9f0d4cab8720e820b5f642540a2b27b5416503f8fb3762223ebdb69da085ac1e43e15996e458f3613d0f11d8c387b2eaeb4302aeeb00d291612bb0c00")}
    fals = copy.deepcopy(rfc)
    fals["sig"][40] ^= 1
    ejobs = [(rfc, "rfc8032-test-2"), (fals, "falsified")]
    for variant, name in (("Ed25519", "pure"), ("Ed25519ctx", "ctx"), ("Ed25519ph", "ph")):
        sg = [l for l in lines if l["ev"] == "sign" and l["variant"] == variant and not l["panics"]]
        rnd.shuffle(sg)
        for l in sg[:(3 if thorough else 1)]:
            ejobs.append(({"variant": name, "seed": hx(l["seed"]), "msg": hx(l["msg"]), "ctx": hx(l["ctx"]), "pk": hx(l["pk"]), "sig": hx(l["sig"])}, variant + " " + l["class"]))
    if thorough:     # Ed448 / Ed448ph: about 10 minutes per signature
        for variant, name in (("Ed448", "pure"), ("Ed448ph", "ph")):
            sg = [l for l in lines if l["ev"] == "sign" and l["variant"] == variant and not l["panics"]]
            rnd.shuffle(sg)
            for l in sg[:2]:
                ejobs.append(({"variant": name, "seed": hx(l["seed"]), "msg": hx(l["msg"]), "ctx": hx(l["ctx"]), "pk": hx(l["pk"]), "sig": hx(l["sig"])}, variant + " " + l["class"]))
    with ThreadPoolExecutor(min(C.NCPU, 12)) as ex:
        eres = list(ex.map(lambda ij: ed_job(w, ij[0], ij[1][0], "Ed448SignJob" if ij[1][1].startswith("Ed448") else "Ed25519SignJob"), enumerate(ejobs)))
    if not (eres[0][0]["pk"] and eres[0][0]["sig"]) or eres[1][0]["sig"]:
        raise C.Infra("Ed25519SignJob does not reproduce RFC 8032 test 2 / accepts a falsified signature")
    for (job, cls), (v, _) in list(zip(ejobs, eres))[2:]:
        for part in ("pk", "sig"):
            if not v[part]:
                rep.violation("rfc8032:%s:%s" % (cls.split(" ")[0], "public-key" if part == "pk" else "signature"),
                              {"class": cls, "seed": bytes(job["seed"]).hex(), "msg": bytes(job["msg"]).hex(), "ctx": bytes(job["ctx"]).hex(),
                               "explain": "the library's %s is not the value TLC computes from RFC 8032 (Ed25519SignJob.tla / Ed448SignJob.tla)" % part})
    rep.add(tlc_recomputed_ed25519=len(ejobs) - 2, tlc_recompute_states=sum(x[1] for x in eres))
    # ---- TLC itself verifies (RFC 8032 5.1.7: decoding, subgroup test, both group equations) a sample of the Ed25519 verify lines
    vname = {"Ed25519": "pure", "Ed25519ctx": "ctx", "Ed25519ph": "ph"}
    vrfc = {"variant": "pure", "pk": rfc["pk"], "msg": rfc["msg"], "ctx": [], "sig": rfc["sig"], "accepted": True}
    vjobs = [(vrfc, None), (dict(vrfc, sig=fals["sig"]), None)]
    vl = [l for l in lines if l["ev"] == "verify" and l["variant"] in vname and not l["panics"]]
    byclass = {}
    for l in vl:
        byclass.setdefault(l["class"].split("#")[0].split("+")[0], []).append(l)
    classes = sorted(byclass)
    rnd.shuffle(classes)
    for c in classes[:(20 if thorough else 4)]:
        l = rnd.choice(byclass[c])
        vjobs.append(({"variant": vname[l["variant"]], "pk": hx(l["pub"]), "msg": hx(l["msg"]), "ctx": hx(l["ctx"]), "sig": hx(l["sig"]), "accepted": l["accepted"]}, l))
    with ThreadPoolExecutor(min(C.NCPU, 12)) as ex:
        vres = list(ex.map(lambda ij: ed_job(w, 100 + ij[0], ij[1][0], "Ed25519VerifyJob"), enumerate(vjobs)))
    if not (vres[0][0]["consistent"] and vres[0][0]["verdict"] == "accept") or vres[1][0]["consistent"]:
        raise C.Infra("Ed25519VerifyJob does not accept RFC 8032 test 2 / does not refuse a falsified signature")
    for (job, l), (v, _) in list(zip(vjobs, vres))[2:]:
        f = v["facts"]
        if f and f["a_canon"] and f["r_canon"] and l["facts"]["a_canon"] and l["facts"]["r_canon"] and f != l["facts"]:
            raise C.Infra("Ed25519VerifyJob and the math/big transcription disagree on the facts of %s %s: %s vs %s" % (l["variant"], l["class"], f, l["facts"]))
        if not v["consistent"]:
            rep.violation("rfc8032-verify:%s:%s:%s" % (l["variant"], l["class"].split("#")[0], "accepted" if l["accepted"] else "rejected"),
                          {"observed": {k: l[k] for k in ("variant", "class", "pub", "msg", "ctx", "sig", "accepted")}, "tlc_facts": f, "tlc_verdict": v["verdict"],
                           "explain": "the library's answer is not one RFC 8032 verification allows, as executed by TLC (Ed25519VerifyJob.tla)"})
    rep.add(tlc_verified_ed25519=len(vjobs) - 2, tlc_verified_classes=sorted({l["class"].split("#")[0] for _, l in vjobs[2:]}), tlc_verify_states=sum(x[1] for x in vres))
    good = [i for i in range(len(lines)) if i not in set(bad)]
    gv = [i for i in good if lines[i]["ev"] == "verify" and not lines[i]["accepted"] and not lines[i]["facts"]["cofactored"]]
    gs = [i for i in good if lines[i]["ev"] == "sign"]
    can = []
    if gv:
        x = copy.deepcopy(lines[random.Random(C.SEED).choice(gv)]); x["accepted"] = True; can.append(x)
    if gs:
        y = copy.deepcopy(lines[random.Random(C.SEED).choice(gs)]); y["sdig"] = [(y["sdig"][0] + 1) % 4096] + y["sdig"][1:]; can.append(y)
    if can:
        b2, _ = C.validate_lines(w, "Trace_Eddsa", "Lines.cfg", can)
        if b2 != list(range(len(can))):
            raise C.Infra("binding canary accepted")
    ver = [l for l in lines if l["ev"] == "verify"]
    rep.add(states=max(1, r.distinct), transitions=max(1, r.generated), traces_validated_against_impl=len(lines), sign_lines=len(lines) - len(ver), verify_lines=len(ver),
            verify_classes=sorted({l["class"].split("#")[0] for l in ver}), mandatory_accept=sum(1 for l in ver if l["facts"]["cofactorless"] and l["facts"]["a_prime"] and l["facts"]["s_less"] and l["facts"]["a_canon"] and l["facts"]["r_canon"]),
            either=sum(1 for l in ver if l["facts"]["cofactored"] and not (l["facts"]["cofactorless"] and l["facts"]["a_prime"]) and l["facts"]["s_less"] and l["facts"]["a_canon"] and l["facts"]["r_canon"]))
    for l in [x for x in lines if x["ev"] == "sign"][:1] + ver[:2]:
        rep.sample({k: v for k, v in l.items() if k not in ("hr", "hk", "q1", "q2", "q3", "rr", "kk", "s", "sdig")})
    rep.assumptions += ["TLC itself recomputes Ed25519 / Ed25519ctx / Ed25519ph keys and signatures for a sample (Ed25519SignJob.tla, about 50 s each) and executes RFC 8032 verification for a sample of the verify lines (Ed25519VerifyJob.tla, about 50 s each, its facts cross-checked with the transcription's); for Ed448 and for the facts of the remaining verify lines, point arithmetic and hashing on the oracle side come from a math/big transcription of RFC 8032 (harness/drivers/edref: SHA-512 from the standard library, SHAKE256 from golang.org/x/crypto); TLC decides the verdict from the recorded facts and re-derives the scalar arithmetic of every signature (BigNat)",
                        "the reduction of 512-/912-bit hash values is exercised on structured inputs by the C12 in-tree recorder of sign/ed25519; here hash values are whatever the messages give",
                        "Ed25519ctx with an empty context (RFC: SHOULD NOT) is not exercised"]


MANIFEST = {
 "text": "Ed25519SignJob.tla is RFC 8032 section 5.1 key generation and signing (pure, ctx, ph) as an executable behaviour - SHA-512 one action per round (Sha512Ops.tla), clamping, scalar multiplication on edwards25519 with the complete addition law one action per bit, inversion, encoding, reduction modulo L - with which TLC recomputes public keys and signatures of sampled (seed, message, context) triples of the run after reproducing RFC 8032 test 2 and rejecting a falsified signature; Ed448SignJob.tla is the same for section 5.2 (SHAKE256, edwards448 in projective coordinates, 57-byte encodings; about 10 minutes per signature, thorough tier only). Ed25519VerifyJob.tla executes section 5.1.7 (point decoding with the square root of 5.1.3, S < L, [L]A, k, both group equations) on sampled verify lines of every class and requires the library's answer to be one the verdict table allows. Rfc8032Verdict.tla states what RFC 8032 verification decides as a function of facts about the inputs (lengths, S < L, canonical encodings of A and R, A in the prime-order subgroup, cofactorless / cofactored equation): mandatory reject, mandatory accept, or the room the RFC leaves for torsion components; MC_EdVerdict checks the table exhaustively on toy cyclic groups with cofactor 8 and 4 (cofactorless implies cofactored, equivalence on the prime-order subgroup, honest signatures are accepted, S + L satisfies the same equations so only the S < L test rejects it). The driver derives keys and signs with all five variants over structured seeds, 11 message lengths and context lengths 0 / 1 / 255 and compares public key and signature bytes with a math/big transcription of RFC 8032; TLC additionally re-derives r = H_r mod L, k = H_k mod L and S = r + k s mod L for the S found in the library's signature. Verification is exercised on honest signatures, S + jL for every j that fits, S in {0, L-1, L, L+1, 2^bits, all-ones}, the 57th byte of Ed448's S, single-bit alterations of signature / key, altered message / context, 256-byte contexts, wrong and empty lengths, Ed448 junk bits in A and R (signed with the junk bytes in the challenge hash), all small-order points as A and as R, their y+p and x=0-with-sign-bit spellings, mixed-order keys, y >= p, random strings; each verdict must be consistent with the table and identical through VerifyAny / the scheme object.",
 "note": "Seeds and messages are structured plus seeded random (2 repetitions per variant quick, 12 thorough).",
 "technique": "executable RFC 8032 Ed25519 signing in TLA+ recomputing sampled outputs + TLC exhaustive check of the decision table on toy groups + TLC judgement of recorded sign/verify calls (RFC 8032 decision table, BigNat re-derivation of S) + differential against a math/big transcription of RFC 8032",
}
