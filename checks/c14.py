"""C14 optimised and portable builds compute identical results.  spec/C14"""
import os, random, copy
import concurrent.futures as cf
from vlib import common as C

LEVEL = "other"
ALLOFF = "cpu.avx2=off,cpu.bmi2=off,cpu.adx=off"
CONFIGS = [("default", "", ""), ("noavx2", "", "cpu.avx2=off"), ("nobmi2", "", "cpu.bmi2=off"), ("noadx", "", "cpu.adx=off"), ("alloff", "", ALLOFF),
           ("purego", "purego", ""), ("purego-alloff", "purego", ALLOFF)]


def run(tier, rep, replay=None):
    w = C.scratch("c14")
    C.stage_specs(w, "C14")
    thorough = tier == "thorough"
    r0 = C.tlc_must(C.tlc(w, "MC_Lockstep", "MC_Lockstep_FALSE.cfg", timeout=600), "MC_Lockstep (faithful back-ends stay in lockstep)")
    rb = C.tlc(w, "MC_Lockstep", "MC_Lockstep_TRUE.cfg", timeout=600)
    if "Invariant InLockstep is violated" not in rb.out:
        raise C.Infra("MC_Lockstep: seeded back-end deviation not found")
    bins = {"": C.go_build_driver(w, "c14"), "purego": C.go_build_driver(w, "c14", tags="purego")}
    seeds = [C.SEED + 1000 * i for i in range(10 if thorough else 1)]

    def one(job):
        (name, tags, dbg), seed = job
        out = os.path.join(w, "t-%s-%d.ndjson" % (name, seed))
        env = dict(os.environ)
        if dbg:
            env["GODEBUG"] = dbg
        C.run([bins[tags], "-out", out, "-seed", str(seed)] + (["-thorough"] if thorough else []), env=env, timeout=3300, what="c14 transcript " + name)
        return name, seed, C.read_ndjson(out)

    tr = {}
    with cf.ThreadPoolExecutor(8) as ex:
        for name, seed, ls in ex.map(one, [(c, s) for c in CONFIGS for s in seeds]):
            tr[(name, seed)] = ls
    merged = []
    for seed in seeds:
        # per primitive: the k-th line of the primitive's own transcript under every configuration (a divergence stays inside its primitive)
        per = {}
        for c in CONFIGS:
            for ln in tr[(c[0], seed)]:
                per.setdefault(ln["prim"], {}).setdefault(c[0], []).append(ln)
        for prim0, byc in per.items():
            prim = "%s#%d" % (prim0, seed)
            n = max(len(v) for v in byc.values())
            for k in range(n):
                ref = next(v[k] for v in byc.values() if k < len(v))
                e = {"tr": prim, "prim": prim, "k": k + 1, "op": ref["op"], "ins": {}, "outs": {}}
                for c in CONFIGS:
                    t = byc.get(c[0], [])
                    if k < len(t):        # a shorter transcript leaves the configuration out of the line: Agree fails
                        e["ins"][c[0]] = t[k]["prim"] + "|" + t[k]["op"] + "|" + t[k]["in"]
                        e["outs"][c[0]] = t[k]["out"]
                merged.append(e)
    merged.sort(key=lambda e: (e["tr"], e["k"]))
    acc, rejected, states = C.validate_stateful(w, "Trace_Lockstep", "Trace_Lockstep.cfg", merged, max_rounds=60, timeout=3000)
    for t, ln, tail in rejected:
        if t == -1:
            rep.violation("more", ln)
            continue
        outs = ln.get("outs", {})
        groups = {}
        for c, v in outs.items():
            groups.setdefault(v, []).append(c)
        odd = sorted(min(groups.values(), key=len)) if len(groups) > 1 else []
        what = "inputs-differ" if len(set(ln.get("ins", {}).values())) > 1 else ("outputs-differ" if len(groups) > 1 else "missing-configuration")
        rep.violation("lockstep:%s:%s:%s:%s" % (ln["prim"].split("#")[0], ln["op"], what, "+".join(odd)),
                      {"observed": ln, "explain": "configurations disagree on this transcript line (later lines of this primitive are not examined)"})
    if acc:
        rnd = random.Random(C.SEED)
        prim = rnd.choice(sorted({l["tr"] for l in acc}))
        s = copy.deepcopy([l for l in acc if l["tr"] == prim])
        s[len(s) // 2]["outs"]["purego"] = "00" * 12
        _, rj, _ = C.validate_stateful(w, "Trace_Lockstep", "Trace_Lockstep.cfg", s, max_rounds=2)
        if not rj:
            raise C.Infra("binding canary accepted")
    rep.add(states=max(1, r0.distinct), transitions=max(1, r0.generated), traces_validated_against_impl=len(CONFIGS) * len(seeds), transcript_lines=len(merged), evaluations=len(merged) * len(CONFIGS), distinct_nontrivial=len({v for l in merged for v in l['outs'].values()}),
            configurations=[c[0] for c in CONFIGS], primitives=sorted({l["prim"].split("#")[0] for l in merged}), trace_states=states)
    for l in merged[:2]:
        rep.sample(l)
    rep.assumptions += ["CPU features are switched with GODEBUG=cpu.*=off (honoured by golang.org/x/sys/cpu); configurations the host CPU lacks cannot be reached",
                        "the 2-way Keccak back-end is not enabled on amd64 (ARM only); it is compared with the scalar permutation only where IsEnabledX2 is true",
                        "randomised signature schemes are compared through verification results only",
                        "the same seeded inputs are used in every configuration; they are edge-biased (limb corner values, low-order points, single writes of up to 33 (129 thorough) K12 chunks) but finite"]


MANIFEST = {
 "text": "A seeded, edge-biased transcript of public operations (fp25519 / fp448 incl. all-ones and complementary unreduced operands and aliased destinations; X25519 / X448 incl. low-order and non-canonical points; FourQ / Curve4Q incl. crafted valid points whose y-coordinate forces a borrow across the word boundary in the vectorised GF(p^2) squaring; P-384 incl. scalar = order and CombinedMult; Ed25519 / Ed448 incl. ctx and ph variants and altered signatures; every kem/schemes KEM (Kyber, ML-KEM, hybrids, X-Wing, FrodoKEM, SIKE) with derive / encapsulate / decapsulate / altered ciphertext / key round trips; every sign/schemes scheme; SHAKE, SHA-3, TurboSHAKE, BLAKE2X, KangarooTwelve with ONE write of up to 33 chunks and with random chunkings; keccakf1600 scalar vs x2 / x4; HPKE over 5 KEMs x 2 AEADs; CSIDH) is run under 7 configurations: default, cpu.avx2=off, cpu.bmi2=off, cpu.adx=off, all three off, -tags purego, purego with all three off. TLC replays the merged transcript against Lockstep.tla (per primitive: consecutive lines, same input digest and same output digest under every configuration); MC_Lockstep shows the specification catches a back-end that deviates on one input.",
 "note": "Inputs are seeded and finite; thorough runs ten seeds with four times the repetitions and longer single writes.",
 "technique": "lock-step differential transcript across build/CPU configurations, judged by TLC against a deterministic-machine specification (Lockstep.tla)",
}
