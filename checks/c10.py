"""C10 no byte string makes a parser, verifier, opener or decapsulator panic.  spec/C10/Codec.tla"""
import json, os, random, copy, re, subprocess
from vlib import common as C

LEVEL = "exploration"


def root_cause(note):
    """first circl frame of the panic stack = root cause id"""
    frames = re.findall(r"github\.com/cloudflare/circl/([\w/\.\(\)\*\[\]\-]+)\(", note)
    for f in frames:
        if not f.startswith("zzverif"):
            return f
    return "unknown"


def run(tier, rep, replay=None):
    w = C.scratch("c10")
    C.stage_specs(w, "C10")
    thorough = tier == "thorough"
    r1 = C.tlc_must(C.tlc(w, "Codec", "MC_Codec.cfg", workers=8, timeout=900, deadlock=False), "MC_Codec")
    drv = C.go_build_driver(w, "c10")
    if replay:
        d = json.load(open(replay))["detail"]["observed"]
        p = C.run([drv, "-replay", d["adapter"], "-input", d["input"]], timeout=120)
        print(p.stdout)
        if 'panic=""' not in p.stdout or "timeout=true" in p.stdout:
            rep.violation("panic:%s" % d["adapter"], {"observed": d})
        rep.add(evaluations=1, distinct_nontrivial=2, rule="replay of one recorded input", samples=[d["adapter"]])
        return
    tp = os.path.join(w, "t.ndjson")
    C.run([drv, "-out", tp, "-seed", str(C.SEED), "-scale", "6" if thorough else "1"], timeout=3400, what="c10 driver")
    lines = C.read_ndjson(tp)
    bad, r = C.validate_lines(w, "Trace_Codec", "Lines.cfg", lines)
    for i in bad:
        ln = lines[i]
        what = "timeout" if ln["timeouts"] else "panic"
        rc = root_cause(ln["note"]) if ln["panics"] else "no-return"
        rep.violation("%s:%s:%s" % (what, ln["adapter"], rc), {"observed": ln, "root_cause": rc,
                      "explain": "a decoding entry point panicked or did not return on this input; replay with bin/check C10 --replay <this file>"})
    good = [i for i in range(len(lines)) if i not in set(bad)]
    if good:
        x = copy.deepcopy(lines[random.Random(C.SEED).choice(good)])
        x["panics"] = 1; x["rejected"] = max(0, x["rejected"] - 1)
        b2, _ = C.validate_lines(w, "Trace_Codec", "Lines.cfg", [x])
        if b2 != [0]:
            raise C.Infra("binding canary accepted")
    # structure-aware class "reshape-component" (in package: the tkn20 ciphertext header is re-encoded around one component of another shape)
    tb = C.go_build_intree(w, "abe/cpabe/tkn20/internal/tkn")
    rp = os.path.join(w, "reshape.ndjson")
    C.run([tb, "-test.run", "TestVerifReshape", "-test.count=1"], env=dict(os.environ, VERIF_OUT=rp, VERIF_SEED=str(C.SEED)), timeout=1500, what="in-tree reshape recorder")
    rlines = C.read_ndjson(rp)
    if len(rlines) < 50:
        raise C.Infra("reshape recorder produced %d lines" % len(rlines))
    d = os.path.join(w, "reshape")
    os.makedirs(d, exist_ok=True)
    C.stage_specs(d, "C10")
    rbad, _ = C.validate_lines(d, "Trace_Reshape", "Lines.cfg", rlines)
    for i in rbad:
        ln = rlines[i]
        rep.violation("tkn20:reshape:%s:%dx%d:%s" % (ln["comp"].split("[")[0], ln["rows"], ln["cols"], "panic" if ln["panics"] else "accepted"),
                      {"observed": ln, "explain": "a tkn20 ciphertext re-encoded around one header component of another shape made DecryptCCA panic / was accepted (Trace_Reshape.tla)"})
    x = dict(rlines[0]); x["panics"] = 1
    if C.validate_lines(d, "Trace_Reshape", "Lines.cfg", [x])[0] != [0]:
        raise C.Infra("reshape binding canary accepted")
    rep.add(reshaped_ciphertexts=len(rlines))
    # coverage lint: exported decoding entry points (go/ast scan of /repo) vs adapter table
    ads = C.run([drv, "-list"], timeout=300).stdout.strip().splitlines()
    adapters = sorted({a.split("\t")[0] for a in ads})
    covered = {a.split("\t")[1] for a in ads if "\t" in a}
    scan = subprocess.run(["go", "run", ".", C.REPO], cwd=os.path.join(C.VERIF, "harness/tools/scan"), env=dict(C.GOENV, GOFLAGS="-mod=mod", GOWORK="off"),
                          stdout=subprocess.PIPE, stderr=subprocess.PIPE, text=True)
    entry = []
    for l in scan.stdout.strip().splitlines():
        f = l.split("\t")
        if len(f) >= 3:
            entry.append("%s|%s|%s" % (f[0], f[1], f[2]))
    n_inputs = sum(l["total"] for l in lines)
    reached = sum(l["total"] for l in lines if l["class"] not in ("degenerate",))
    rep.add(evaluations=n_inputs, distinct_nontrivial=reached,
            rule="inputs = Codec!MutationClasses applied to valid encodings of each of %d adapters; non-trivial = every input other than the empty / one-byte / constant strings (it has the right framing up to the mutated offset, so it gets past the first length check); counted per call" % len(adapters),
            adapters=len(adapters), exported_decoding_entry_points_found_by_scan=len(entry), states=r1.distinct, transitions=r1.generated,
            accepted=sum(l["accepted"] for l in lines), rejected=sum(l["rejected"] for l in lines))
    rep.add(adapter_names=adapters)
    for l in lines[:2] + [x for x in lines if x["class"] == "window2"][:2]:
        rep.sample({k: l[k] for k in ("adapter", "class", "total", "accepted", "rejected", "panics", "timeouts")})
    rep.assumptions += ["memory safety as such is not observable: only panics and non-termination (15 s deadline) are",
                        "documented exact-length preconditions (xwing.Decapsulate, sidh KEM.Decapsulate ciphertext size) are honoured by the adapters",
                        "inputs are model-generated mutations of valid encodings, not coverage-guided"]


MANIFEST = {
 "text": "Codec.tla models a decoder of nested fixed / length-prefixed / count-prefixed formats that checks the remaining length before every read and is model-checked over every input up to a bound (in bounds, terminates in linear work, outcome Accepted or Rejected only), and names the mutation operator classes. The driver has an adapter for every exported decoding entry point (265 adapters: all KEM and signature schemes incl. SIKE, HPKE contexts / Receiver.Setup* / Open, groups, OPRF keys, DLEQ proofs, tkn20 keys / ciphertexts / policy strings, BLS, BLS12-381 points and field elements, Goldilocks, CSIDH/SIDH, PEM/PKIX, tss/rsa, blind RSA, Prio3 field vectors, Ascon) and applies every operator class to valid encodings - every truncation, 1/2/4-byte length-field-shaped overwrites at every offset, extensions, bit flips, degenerate strings - under recover with a 15 s deadline; TLC rejects any recorded panic or timeout. A go/ast scan of the exported API is reported next to the adapter table. Two structure-aware classes: reshape-component (in-package recorder: a tkn20 ciphertext header re-encoded consistently around one matrix of another shape, Trace_Reshape.tla) and use-after-accept (a policy extracted from mutated bytes is printed, queried and encrypted under).",
 "note": "Exploration, not proof: structured mutation without coverage feedback; expensive entry points (pairings, RSA, FrodoKEM, SIKE) get a sampled subset per run (seed-dependent); thorough multiplies volume by 6.",
 "technique": "TLC-checked decoder model defines outcome set and mutation operator classes; exhaustive-per-offset structured mutation of valid encodings on real entry points under recover; TLC judges recorded outcomes",
}
