"""C15 hashes / XOFs / Ascon on every input and chunking.  spec/C15, spec/lib/KeccakOps.tla"""
import json, os, random, copy, shutil, subprocess
from concurrent.futures import ThreadPoolExecutor
from vlib import common as C

LEVEL = "model_checking"


def tlc_jobs(w, sub, module, jobsfile, jobs):
    """Run HashJobs / K12Jobs on a slice of jobs in its own directory; returns bad job names."""
    d = os.path.join(w, sub)
    os.makedirs(d, exist_ok=True)
    C.stage_specs(d, "C15")
    json.dump(jobs, open(os.path.join(d, jobsfile), "w"))
    r = C.tlc(d, module, module + ".cfg", workers=1, heap="3g", timeout=1700, stack="256m")
    vp = os.path.join(d, "verdict.json")
    if not r.ok or not os.path.exists(vp):
        raise C.Infra("%s failed:\n%s" % (module, r.tail(40)))
    v = json.load(open(vp))
    if v["consumed"] != len(jobs):
        raise C.Infra("%s consumed %d of %d jobs" % (module, v["consumed"], len(jobs)))
    bad = v["bad"] if isinstance(v["bad"], list) else list(v["bad"].values())
    return [jobs[int(i) - 1] for i in bad], r.distinct


def split(xs, n):
    n = max(1, min(n, len(xs)))
    return [xs[i::n] for i in range(n)]


def run(tier, rep, replay=None):
    w = C.scratch("c15")
    C.stage_specs(w, "C15")
    thorough = tier == "thorough"
    # 1. design level: every chunking of the implementation-shaped sponge equals the FIPS 202 definition
    r1 = C.tlc_must(C.tlc(w, "SpongeImpl", "MC_Sponge_big.cfg" if thorough else "MC_Sponge.cfg", workers=C.NCPU, heap="10g", timeout=1700), "MC_Sponge")
    r2 = C.tlc_must(C.tlc(w, "XofMachine", "MC_Xof.cfg", workers=4, timeout=600), "MC_Xof")
    rep.add(states=r1.distinct + r2.distinct, transitions=r1.generated + r2.generated)
    # 2. schedules at real sizes
    for fam in ("sponge", "k12"):
        g = C.tlc(w, "Gen_Xof", "Gen_%s.cfg" % fam, workers=1, simulate="num=%d" % (600 if thorough else 60), depth=12, seed=C.SEED, timeout=600)
        if not os.path.exists(os.path.join(w, "schedules.json")):
            raise C.Infra("Gen_Xof failed:\n" + g.tail())
        shutil.move(os.path.join(w, "schedules.json"), os.path.join(w, "schedules_%s.json" % fam))
    # 3. real code
    drv = C.go_build_driver(w, "c15")
    p = C.run([drv, "-dir", w, "-seed", str(C.SEED), "-nsched", "400" if thorough else "40", "-njobs", "2" if thorough else "1"],
              timeout=1700, what="c15 driver")
    lines = C.read_ndjson(os.path.join(w, "trace.ndjson"))
    # forced lane counts through the unexported constructor
    tb = C.go_build_intree(w, "xof/k12")
    sch = json.load(open(os.path.join(w, "schedules_k12.json")))
    random.Random(C.SEED).shuffle(sch)
    json.dump(sch[:300 if thorough else 30], open(os.path.join(w, "sched_lanes.json"), "w"))
    C.run([tb, "-test.run", "TestVerifLanes", "-test.count=1"], env=dict(os.environ, VERIF_SCHED=os.path.join(w, "sched_lanes.json"),
          VERIF_OUT=os.path.join(w, "lanes.ndjson")), timeout=1700, what="k12 lanes recorder")
    lines += C.read_ndjson(os.path.join(w, "lanes.ndjson"))
    # 4. spot sample recomputed by TLC from the executable definitions (parallel JVMs)
    jobs = json.load(open(os.path.join(w, "jobs.json")))
    kjobs = json.load(open(os.path.join(w, "k12jobs.json")))
    ajobs = json.load(open(os.path.join(w, "asconjobs.json")))
    for i, j in enumerate(ajobs):
        j["name"] = "Ascon-%s/ad%d/pt%d" % (j["mode"], len(j["ad"]), len(j["pt"]))
    tasks = [("hj%d" % i, "HashJobs", "jobs.json", s) for i, s in enumerate(split(jobs, 6))] + \
            [("kj%d" % i, "K12Jobs", "k12jobs.json", s) for i, s in enumerate(split(kjobs, 6))] + \
            [("aj%d" % i, "AsconJobs", "asconjobs.json", s) for i, s in enumerate(split(ajobs, 3))]
    with ThreadPoolExecutor(max_workers=12) as ex:
        res = list(ex.map(lambda t: tlc_jobs(w, *t), tasks))
    jstates = 0
    for bad, st in res:
        jstates += st
        for j in bad:
            rep.violation("digest:%s" % j["name"].split("/")[0], {"job": j["name"], "circl_output": j["want"][:64],
                          "explain": "bytes produced by circl differ from the executable FIPS 202 / K12 definition evaluated by TLC"})
    rc = json.load(open(os.path.join(w, "refcheck.json")))
    if not rc["ok"] and not any(True for bad, _ in res if bad):
        raise C.Infra("plain Go reference disagrees with circl although TLC accepts circl's outputs: %s" % rc["notes"])
    # 4c. RFC 9380 expanders: TLC recomputes a sample (ExpanderJobs.tla) and judges every recorded call
    ejobs = json.load(open(os.path.join(w, "expanderjobs.json")))
    if ejobs:
        fals = copy.deepcopy(ejobs[0]); fals["want"][0] ^= 1
        ebad, est = tlc_jobs(w, "ej", "ExpanderJobs", "jobs.json", ejobs + [fals])
        if [j for j in ebad if j is not ebad[-1]] or not ebad or ebad[-1]["want"] != fals["want"]:
            for j in ebad:
                if j["want"] != fals["want"]:
                    rep.violation("expander:%s:dst=%d:msg=%d:n=%d" % (j["kind"], len(j["dst"]), len(j["msg"]), j["n"]), {"job": {k: (v if not isinstance(v, list) else bytes(v).hex()) for k, v in j.items()},
                                                                                                                "explain": "output differs from RFC 9380 section 5.3 recomputed by TLC (ExpanderJobs.tla)"})
            if not any(j["want"] == fals["want"] for j in ebad):
                raise C.Infra("ExpanderJobs accepted a falsified output")
    elines = C.read_ndjson(os.path.join(w, "expander.ndjson"))
    xbad, xr = C.validate_lines(w, "Trace_Expander", "Lines.cfg", elines)
    for i in xbad:
        e = elines[i]
        what = "beyond-limit-returns-output" if not e["admitted"] else ("panic" if e["panics"] else "wrong-output")
        rep.violation("expander:%s:%s:n=%d" % (e["kind"], what, e["n"] if not e["admitted"] else 0), {"observed": {k: (v if k not in ("out", "ref") else v[:64]) for k, v in e.items()},
                                                                         "explain": "RFC 9380 expander call not explained by Trace_Expander.tla"})
    rep.add(expander_calls=len(elines), expander_tlc_recomputed=len(ejobs), expander_kinds=sorted({e["kind"] for e in elines}))
    # 4b. Ascon behaviour lines (round trip, in place, append, single-bit alterations)
    alines = C.read_ndjson(os.path.join(w, "ascon.ndjson"))
    abad, ar = C.validate_lines(w, "Trace_Ascon", "Lines.cfg", alines)
    for i in abad:
        a = alines[i]
        rep.violation("ascon:%s:%s" % (a["ev"], a["what"] or "variants"), {"observed": a, "explain": "Ascon Open accepted/released on altered input, or in-place/append variants disagree"})
    rep.add(ascon_single_bit_alterations=sum(a["bit"] for a in alines if a["ev"] == "tamper-sweep"), ascon_cases=len(ajobs))
    # 5. call traces against XofMachine
    acc, rejected, tstates = C.validate_stateful(w, "Trace_Xof", "Trace_Xof.cfg", lines)
    for tr, b, _ in rejected:
        hist = [x for x in lines if x.get("tr") == tr]
        rep.violation("xof-trace:%s:%s" % (b.get("kind", "?"), b.get("op", "?")), {"rejected_call": b, "history": hist[:hist.index(b) + 1] if b in hist else [],
                      "explain": "returned bytes are not Stream(absorbed)[squeezed..] of the one-shot reference (or the call panicked)"})
    # canary
    rd = [i for i, x in enumerate(acc) if x["op"] == "read" and x["n"] >= 8]
    if rd:
        rnd = random.Random(C.SEED)
        i = rnd.choice(rd)
        tr = acc[i]["tr"]
        can = [dict(x) for x in acc if x["tr"] == tr]
        k = [j for j, x in enumerate(can) if x["op"] == "read" and x["n"] >= 8][0]
        can[k]["pobs"] += 1
        _, rj, _ = C.validate_stateful(w, "Trace_Xof", "Trace_Xof.cfg", can)
        if not rj:
            raise C.Infra("binding canary accepted")
        rep.add(canary="shifted one observed stream offset -> rejected")
    ntr = len({x["tr"] for x in lines})
    kinds = sorted({x["kind"] for x in lines})
    rep.add(traces_validated_against_impl=ntr, trace_lines=len(lines), trace_states=tstates, kinds=kinds,
            tlc_recomputed_digests=len(jobs) + len(kjobs) + len(ajobs), digest_states=jstates)
    for x in [l for l in lines if l["op"] == "read"][:2] + [l for l in lines if l["op"] == "sum"][:1]:
        rep.sample(x)
    rep.sample({"tlc_recomputed": [j["name"] for j in jobs[:5]] + [j["name"] for j in kjobs]})
    rep.assumptions += ["the plain Go Keccak/K12 reference is an accelerator: certified on this run's spot sample against TLC-evaluated KeccakOps.tla",
                        "BLAKE2X reference is x/crypto one-shot (same underlying code as circl's wrapper): chunking/clone/reset consistency only"]


MANIFEST = {
 "text": "ExpanderJobs.tla is RFC 9380 section 5.3 (expand_message_xmd over SHA-256 / SHA-384 / SHA-512, expand_message_xof over SHAKE128 / SHAKE256, over-long DST hashing) as an executable job machine with which TLC recomputes a sample of the library's expander outputs; every recorded expander call (DST lengths 0..300, message lengths 0..200, output lengths 1..1000, the maxima, and requests beyond the RFC's limits, which must abort) is judged by TLC against a transcription. SpongeImpl.tla (implementation shape of sha3.go over a symbolic permutation) is model-checked against the FIPS 202 definition for every split of the input into writes and the output into reads with Clone/Reset interleaved; XofMachine.tla is the API-level machine. KeccakOps/HashJobs/K12Jobs are executable FIPS 202 / KangarooTwelve definitions: TLC recomputes circl's SHA3-*, SHAKE*, TurboSHAKE*, K12 outputs and the x2/x4 permutation lanes on a boundary-length spot sample byte for byte. TLC-simulated call schedules at real block/chunk boundaries are replayed on sha3.State, xof.XOF (SHAKE, BLAKE2X, K12), k12.State with lanes forced to 1/2/4, and every read must be Stream(absorbed)[squeezed..) of the one-shot reference (trace validation, canary).",
 "note": "Reference streams at volume come from a plain Go Keccak/K12 that is certified against the TLA+ definition on the spot sample of the same run; message content is a fixed pseudo-random string (prefixes), lengths and chunkings vary. Ascon: 3 modes x boundary lengths recomputed by TLC; RFC 9380 expanders: a sample of about 40 outputs recomputed by TLC per run, the rest against a transcription.",
 "technique": "TLC exhaustive chunking check of implementation-shaped sponge model + executable Keccak/K12 TLA+ evaluated by TLC as oracle + TLC-simulated schedules replayed + TLC trace validation",
}
