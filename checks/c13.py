"""C13 group law, scalar multiplication, pairing.  spec/C13/GroupMachine.tla"""
import json, os, random, copy
from concurrent.futures import ThreadPoolExecutor
from vlib import common as C

LEVEL = "model_checking"
CONFIGS = [("default", "", {}), ("purego", "purego", {}), ("noadx", "", {"GODEBUG": "cpu.adx=off,cpu.bmi2=off"})]   # the legacy assembly of fp25519 / fp448 / FourQ
INTREE = ["sign/ed25519"]


def run(tier, rep, replay=None):
    w = C.scratch("c13")
    C.stage_specs(w, "C13", "C12")
    thorough = tier == "thorough"
    C.tlc_must(C.tlc(w, "ToyGroup", "Empty.cfg", timeout=900), "ToyGroup (affine group law on a toy curve is a group; same element iff same form)")
    lines = []
    for ci, (label, tags, env) in enumerate(CONFIGS):
        drv = C.go_build_driver(w, "c13", tags=tags)
        tp = os.path.join(w, "t-%s.ndjson" % label)
        C.run([drv, "-out", tp, "-seed", str(C.SEED + ci), "-impl", label, "-traces", "240" if thorough else "5", "-steps", "16" if thorough else "13",
               "-pairings", "30" if thorough else "3"], env=dict(os.environ, **env), timeout=3300, what="c13 driver " + label)
        got = C.read_ndjson(tp)
        for x in got:
            x["tr"] = x["tr"] + 100000 * ci
        lines += got
    for pi, pkg in enumerate(INTREE):
        for ci, (label, tags, env) in enumerate(CONFIGS):
            tb = C.go_build_intree(w, pkg, tags=tags)
            tp = os.path.join(w, "i-%s-%s.ndjson" % (pkg.replace("/", "_"), label))
            C.run([tb, "-test.run", "TestVerifGroup", "-test.count=1"], env=dict(os.environ, VERIF_OUT=tp, VERIF_SEED=str(C.SEED + ci), VERIF_IMPL=label, VERIF_TRACES="240" if thorough else "6",
                  VERIF_STEPS="16" if thorough else "13", VERIF_TR0=str(1000000 * (pi + 1) + 100000 * ci), **env), timeout=3300, what="in-tree group recorder %s %s" % (pkg, label))
            lines += C.read_ndjson(tp)
    # shard whole sub-traces over parallel JVMs
    trs = sorted({x["tr"] for x in lines})
    nsh = 14
    shards = [[x for x in lines if trs.index(x["tr"]) % nsh == i] for i in range(nsh)] if len(trs) < 4000 else None
    if shards is None:
        idx = {t: i for i, t in enumerate(trs)}
        shards = [[] for _ in range(nsh)]
        for x in lines:
            shards[idx[x["tr"]] % nsh].append(x)
    def one(i):
        d = os.path.join(w, "v%d" % i)
        os.makedirs(d, exist_ok=True)
        C.stage_specs(d, "C13", "C12")
        if not shards[i]:
            return [], [], 0
        return C.validate_stateful(d, "Trace_GroupMachine", "Trace_GroupMachine.cfg", shards[i], heap="2g", timeout=3300, max_rounds=8)
    with ThreadPoolExecutor(max_workers=nsh) as ex:
        res = list(ex.map(one, range(nsh)))
    states = sum(r[2] for r in res)
    for acc, rejected, _ in res:
        for tr, b, _ in rejected:
            hist = [x for x in lines if x["tr"] == tr]
            upto = hist[:hist.index(b) + 1] if b in hist else []
            what = b.get("op", "?")
            if what in ("eq", "id"):   # name the operation that produced the inconsistent register
                regs = {b.get("a"), b.get("b")}
                prod = [x for x in upto if x.get("dst") in regs and x["op"] not in ("eq", "id", "reset")]
                what = "%s-after-%s" % (what, prod[-1]["op"] if prod else "?")
            rep.violation("group:%s:%s" % (b.get("impl", "?").rsplit(" ", 1)[0], what), {"rejected_event": b, "history": upto[-25:],
                          "explain": "observed equality / identity does not match the forms computed by GroupMachine, or a decode failed"})
    accl = [x for a, _, _ in res for x in a]
    eqs = [x for x in accl if x["op"] == "eq" and x["a"] != x["b"]]
    if eqs:
        pick = random.Random(C.SEED).choice(eqs)
        can = [dict(x) for x in accl if x["tr"] == pick["tr"]]
        for x in can:
            if x["op"] == "eq" and x["a"] == pick["a"] and x["b"] == pick["b"]:
                x["eq"] = not x["eq"]
        _, rj, _ = C.validate_stateful(w, "Trace_GroupMachine", "Trace_GroupMachine.cfg", can)
        if not rj:
            raise C.Infra("binding canary accepted")
        rep.add(canary="one observed equality flipped -> rejected")
    by = {}
    for l in lines:
        k = "%s/%s" % (l["impl"].rsplit(" ", 1)[0], l["op"])
        by[k] = by.get(k, 0) + 1
    rep.add(states=states, transitions=states, traces_validated_against_impl=len(trs), events=len(lines), events_by_group_op=by)
    for l in [x for x in lines if x["op"] == "combined"][:1] + [x for x in lines if x["op"] == "pair"][:1] + [x for x in lines if x["op"] == "eq"][:1]:
        rep.sample(l)
    rep.assumptions += ["every register is a multiple of the generator (prime-order subgroup), so equal forms <=> equal elements; FourQ after its cofactor clearing",
                        "the forms' anchor is the library's own generator; a uniformly wrong but homomorphic group law would need the generator itself to be wrong (C09 checks generator encodings against the standards)"]


MANIFEST = {
 "text": "GroupMachine.tla tracks, for every register, its coefficient modulo the group order (as BigNat, with untrusted quotient hints) through fixed-base, variable-base, addition, doubling, negation, double-scalar multiplication, decode(encode), pairings and products of pairings, and requires every observed equality / identity test (IsEqual and canonical bytes) to say exactly what the forms say; a toy curve of prime order is checked exhaustively to be a group generated by G with 'same element iff same form'. Recorders drive ecc/p384 (both back-ends), the internal edwards25519 group of sign/ed25519 (in package: signed-digit fixed-base multiplication, omega-NAF double-scalar multiplication, mixed additions), group.P256/P384/P521/ristretto255, Goldilocks, FourQ (x392), BLS12-381 G1/G2/Gt and Pair/ProdPair/ProdPairFrac with structured scalars of full width (0, 1, multiples of the order and neighbours, 2^k, maximum, recoding corner patterns), related points (P+P, P+(-P), Q=G, m=n, m=-n) and identity inputs; TLC validates every sub-trace. A deterministic sweep drives the fixed-base path over scalars with runs of 64 / 65 one bits at every offset and compares it with the double-scalar path.",
 "note": "Seeded sampling of operation sequences (5 sub-traces of 13 steps per group and configuration in quick, 240 x 16 in thorough). Hash-to-group membership is covered in C09/C16.",
 "technique": "TLA+ Z_L-module specification with BigNat; TLC trace validation of real group operations with untrusted quotient hints; toy-curve exhaustive check of the group law",
}
