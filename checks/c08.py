"""C08 HPKE context: nonce never reused, lock-step.  spec/C08/HpkeContext.tla"""
import json, os, shutil, random
from vlib import common as C

LEVEL = "model_checking"


def validate(w, trace_lines, rep, label):
    """Validate trace lines with TLC; on rejection drop the offending trace (tr id) and go on.
    Returns (accepted_traces, rejected list of (tr, line_record))."""
    rejected = []
    lines = list(trace_lines)
    states = 0
    for _ in range(12):
        C.write_ndjson(os.path.join(w, "trace.ndjson"), lines)
        if os.path.exists(os.path.join(w, "verdict.json")):
            os.remove(os.path.join(w, "verdict.json"))
        r = C.tlc(w, "Trace_HpkeContext", "Trace_HpkeContext.cfg", workers=1, heap="3g", timeout=900)
        vp = os.path.join(w, "verdict.json")
        if "is violated" in r.out:   # a safety invariant of the spec broken by the real behaviour
            import re
            m = re.search(r"Invariant (\w+) is violated", r.out)
            # the violating state is at the high-water mark
        if not os.path.exists(vp):
            raise C.Infra("trace validation produced no verdict (%s):\n%s" % (label, r.tail(50)))
        v = json.load(open(vp))
        states += r.distinct
        if v["consumed"] >= v["total"] and r.ok:
            return lines, rejected, states
        bad = lines[min(v["consumed"], len(lines) - 1)]
        rejected.append((bad["tr"], bad, r.tail(8) if "is violated" in r.out else ""))
        lines = [x for x in lines if x["tr"] != bad["tr"]]
        if not lines:
            break
    return lines, rejected, states


def run(tier, rep, replay=None):
    w = C.scratch("c08")
    C.stage_specs(w, "C08")
    thorough = tier == "thorough"
    # 1. design-level model checking (exhaustive, small constants)
    r0 = C.tlc_must(C.tlc(w, "MC_Inc", "Empty.cfg", workers=1, timeout=300), "MC_Inc (Inc = +1 theorem)")
    cfg = "MC_HpkeContext.cfg" if thorough else "MC_HpkeContext_small.cfg"
    r1 = C.tlc_must(C.tlc(w, "HpkeContext", cfg, workers=C.NCPU, heap="12g", timeout=1500), cfg)
    rep.add(states=r1.distinct, transitions=r1.generated, mc_config=cfg, mc_depth=r1.depth)
    # 2. behaviours at the real counter size
    nsim = 2500 if thorough else 250
    g = C.tlc(w, "Gen_HpkeContext", "Gen_HpkeContext.cfg", workers=1, simulate="num=%d" % nsim, depth=16,
              seed=C.SEED, timeout=900)
    bp = os.path.join(w, "behaviours.json")
    if not os.path.exists(bp):
        raise C.Infra("behaviour generation failed:\n" + g.tail())
    # 3. replay on the real code, record trace
    drv = C.go_build_driver(w, "c08")
    tp = os.path.join(w, "trace_all.ndjson")
    p = C.run([drv, "-beh", bp, "-out", tp, "-seed", str(C.SEED), "-maxb", "6000" if thorough else "350",
               "-nrand", "1500" if thorough else "60"], timeout=1500, what="c08 driver")
    lines = C.read_ndjson(tp)
    ntr = len({x["tr"] for x in lines})
    # 4. validate
    acc, rejected, tstates = validate(w, lines, rep, "main")
    for tr, bad, inv in rejected:
        hist = [x for x in lines if x["tr"] == tr]
        idx = hist.index(bad)
        key = "hpke-context:%s:%s" % (bad["ev"], "ok" if bad["ok"] else "fail")
        rep.violation(key, {"rejected_event": bad, "history_up_to_event": hist[:idx + 1], "invariant": inv,
                            "explain": "no HpkeContext action explains this observed call"})
    # 5. binding canary: corrupt one logged field of an accepted trace; TLC must reject it
    if acc:
        rnd = random.Random(C.SEED)
        trs = sorted({x["tr"] for x in acc})
        pick = rnd.choice(trs)
        can = [dict(x) for x in acc if x["tr"] == pick]
        cand = [i for i, x in enumerate(can) if x["ev"] in ("seal", "open", "garbage") and i > 0]
        if cand:
            i = rnd.choice(cand)
            sq = list(can[i]["oseq"]); sq[-1] = (sq[-1] + 1) % 256; can[i]["oseq"] = sq
            _, rj, _ = validate(w, can, rep, "canary")
            if not rj:
                raise C.Infra("binding canary: corrupted trace was accepted")
            rep.add(canary="corrupted oseq of event %d of trace %d rejected" % (i, pick))
    rep.add(traces_validated_against_impl=ntr, events=len(lines), trace_states=tstates,
            behaviours_from_tlc=len(json.load(open(bp))))
    for x in lines[:3] + [x for x in lines if x["ev"] == "seal" and not x["ok"]][:1] + [x for x in lines if x["ev"] == "openmax"][:1]:
        rep.sample(x)
    rep.assumptions += ["AEAD abstracted: a ciphertext opens iff key, nonce counter and aad match (Go std AES-GCM / x/crypto ChaCha20-Poly1305 used to observe the nonce)",
                        "context serialisation parsed per its doc comment and re-validated each run"]

MANIFEST = {
 "text": "HpkeContext.tla (one action per public call, byte-wise counter as in increment()) is model-checked exhaustively by TLC for small counters (NonceUnique, LockStep, NoWrap, IthSealNonce, FailKeeps, Inc=+1); TLC then simulates the same actions at the real size (B=256, Nn=12) from carry-boundary start values, the schedules are replayed on real sealer/opener contexts for all three AEADs, and the recorded trace (post sequence numbers, nonce actually used, plaintext released) is accepted by TLC only if every call is a step of the specification. A binding canary (one corrupted field) must be rejected on every run. A context that refuses its own marshalled form is recorded as a restore event with ok = false, for which the specification has no step.",
 "note": "Assumes AEAD primitives are correct (std AES-GCM / x/crypto ChaCha20-Poly1305 are used to observe which nonce sealed a ciphertext). Histories are bounded (depth 16-18, ~400 schedules x 3 AEADs in quick); not all histories.",
 "technique": "TLC exhaustive model checking (small counters) + TLC-simulated behaviours replayed on real contexts + TLC trace validation",
}
