"""C17 threshold schemes.  spec/C17/Shamir.tla, Shoup.tla"""
import json, os, random, copy
from vlib import common as C

LEVEL = "model_checking"


def key_of(ln):
    ev = ln["ev"]
    if ev == "ss":
        return "secretsharing:%s:t=%d,n=%d,picked=%d:%s" % (ln["group"], ln["t"], ln["n"], len(ln["pick"]), ln["recover"])
    if ev == "ss-huge":
        return "secretsharing:huge-threshold:t=%s:%s" % (ln["ids"], "recover-" + ln["recover"] if ln["recover"] != "error" else "verify")
    if ev == "poly":
        return "polynomial:Evaluate:%s" % ln["group"]
    if ev == "rsa":
        return "tss-rsa:combine:l=%d,k=%d,S=%s:%s" % (ln["l"], ln["k"], "-".join(map(str, ln["pick"])), ln["result"])
    if ev == "lambda":
        return "tss-rsa:computeLambda:l=%d,S=%s,j=%d" % (ln["l"], "-".join(map(str, ln["S"])), ln["j"])
    return "tss-rsa:computePolynomial:k=%d,x=%d" % (len(ln["a"]), ln["x"])


def run(tier, rep, replay=None):
    w = C.scratch("c17")
    C.stage_specs(w, "C17")
    thorough = tier == "thorough"
    r1 = C.tlc_must(C.tlc(w, "Shamir", "MC_Shamir.cfg", workers=C.NCPU, heap="8g", timeout=900), "MC_Shamir")
    C.tlc_must(C.tlc(w, "MC_Privacy", "MC_Privacy.cfg", timeout=900), "MC_Privacy")
    C.tlc_must(C.tlc(w, "MC_Shoup", "Empty.cfg", timeout=1200), "MC_Shoup (toy RSA: every qualified ordered subset signs; lambda integral)")
    rep.add(states=r1.distinct, transitions=r1.generated)
    C.tlc_must(C.tlc(w, "Gen_Threshold", "Gen_thorough.cfg" if thorough else "Gen_quick.cfg", timeout=900), "Gen_Threshold")
    drv = C.go_build_driver(w, "c17")
    tp = os.path.join(w, "t1.ndjson")
    C.run([drv, "-ss", os.path.join(w, "ss.json"), "-rsa", os.path.join(w, "rsa.json"), "-out", tp, "-seed", str(C.SEED),
           "-bits", "2048" if thorough else "1024", "-big", "40" if thorough else "6"], timeout=3000, what="c17 driver")
    lines = C.read_ndjson(tp)
    tb = C.go_build_intree(w, "tss/rsa")
    t2 = os.path.join(w, "t2.ndjson")
    C.run([tb, "-test.run", "TestVerifLambdaPoly", "-test.count=1"], env=dict(os.environ, VERIF_OUT=t2), timeout=600,
          what="tss/rsa in-tree recorder")
    lines += C.read_ndjson(t2)
    bad, r = C.validate_lines(w, "Trace_Threshold", "Lines.cfg", lines)
    for i in bad:
        rep.violation(key_of(lines[i]), {"observed": lines[i], "explain": "outcome differs from Shamir.tla / Shoup.tla"})
    good = [i for i in range(len(lines)) if i not in set(bad)]
    rnd = random.Random(C.SEED)
    for ev, field, newv in (("rsa", "result", "error"), ("lambda", "lam", None), ("ss", "recover", "other")):
        c = [i for i in good if lines[i]["ev"] == ev]
        if c:
            x = copy.deepcopy(lines[rnd.choice(c)])
            x[field] = (x[field] + 1) if newv is None else ("valid" if x[field] == newv else newv)
            b2, _ = C.validate_lines(w, "Trace_Threshold", "Lines.cfg", [x])
            if b2 != [0]:
                raise C.Infra("binding canary (%s) accepted" % ev)
    rep.add(canary="corrupted rsa/lambda/ss lines rejected")
    cnt = {}
    for ln in lines:
        cnt[ln["ev"]] = cnt.get(ln["ev"], 0) + 1
    rep.add(traces_validated_against_impl=len(lines), by_kind=cnt, trace_states=r.distinct)
    for ev in ("ss", "poly", "rsa", "lambda", "rpoly"):
        for ln in lines:
            if ln["ev"] == ev:
                rep.sample(ln); break
    rep.assumptions += ["crypto/rsa verification is the judge of combined signatures", "RSA keys from crypto/rsa.GenerateKey (1024 bit quick / 2048 thorough)"]


MANIFEST = {
 "text": "Shamir.tla (executable sharing over Z_Q with Feldman commitments in a toy group) is model-checked exhaustively (every polynomial, every ordered pick sequence, every (id,value) probe: RecoverCorrect, RefusedIffFew, FeldmanExact, perfect privacy); Shoup.tla (executable threshold RSA over N=77) shows every qualified ordered subset signs correctly and lambda is integral. TLC enumerates ordered share/player subsets; the driver replays them on the four real groups (secret 0/1/L-1/random, ids 1..n and arbitrary) and on tss/rsa (both paddings, cache, blinding, sorted/shuffled, supersets, l up to 30 sampled) judged with crypto/rsa; math/polynomial.Evaluate, computeLambda and computePolynomial outputs are recomputed by TLC from the executable definitions. Thresholds of 2^63 and above (ss-huge lines) and RSA moduli of 8j, 8j+1 and 8j+7 bits.",
 "note": "(t,n) up to 4 (quick) / 5 (thorough), RSA l up to 6 / 8 exhaustive subsets plus sampled l<=30; one RSA key per run; Feldman altered-id with t=0 is a valid share and is not asserted.",
 "technique": "TLC exhaustive check of executable toy-field specs + TLC-enumerated subset scenarios replayed on real code + TLC recomputation of logged numeric outputs",
}
