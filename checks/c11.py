"""C11 results depend only on explicit arguments: no aliasing, stale state or races.  spec/C11"""
import os, random, copy, glob, re
import concurrent.futures as cf
from vlib import common as C

LEVEL = "model_checking"


def expect_violation(r, inv, what):
    if ("Invariant %s is violated" % inv) not in r.out:
        raise C.Infra("%s: TLC did not find the seeded bug (the specification lost its teeth):\n%s" % (what, r.tail(20)))


def run(tier, rep, replay=None):
    w = C.scratch("c11")
    C.stage_specs(w, "C11")
    thorough = tier == "thorough"
    r0 = C.tlc_must(C.tlc(w, "MC_PureCalls", "MC_PureCalls_none.cfg", timeout=900), "MC_PureCalls (faithful toy implementation is explainable)")
    expect_violation(C.tlc(w, "MC_PureCalls", "MC_PureCalls_gen-aliases.cfg", timeout=900), "Explainable", "gen-aliases")
    expect_violation(C.tlc(w, "MC_PureCalls", "MC_PureCalls_copy-aliases.cfg", timeout=900), "Explainable", "copy-aliases")
    r1 = C.tlc_must(C.tlc(w, "LazyInit", "MC_LazyInit_once.cfg", timeout=900), "LazyInit once")
    expect_violation(C.tlc(w, "LazyInit", "MC_LazyInit_racy.cfg", timeout=900), "ReturnsAreF", "LazyInit racy")
    # ---- sequential histories
    drv = C.go_build_driver(w, "c11")
    tp = os.path.join(w, "seq.ndjson")
    ap = os.path.join(w, "args.ndjson")
    C.run([drv, "-out", tp, "-seed", str(C.SEED), "-reps", "6" if thorough else "1", "-scale", "3" if thorough else "1", "-args", ap], timeout=3300, what="c11 driver")
    lines = C.read_ndjson(tp)
    alines = C.read_ndjson(ap)
    abad, _ = C.validate_lines(w, "Trace_Conc", "Lines.cfg", alines)
    for i in abad:
        ln = alines[i]
        if ln["ev"] == "retain":
            rep.violation("retain:%s:%s" % (ln["call"], "panic" if ln["panics"] else "object-changes-when-input-buffer-is-overwritten"), {"observed": ln, "explain": "the decoded object kept a reference to the caller's buffer (Trace_Conc.tla, retain)"})
            continue
        what = "panic" if ln["panics"] else ("argument-modified" if not ln["args_intact"] else ("writes-past-argument" if not ln["canaries_intact"] else "result-depends-on-layout"))
        rep.violation("args:%s:%s" % (ln["call"], what), {"observed": ln, "explain": "a byte-slice argument presented as a window of a larger buffer: the call wrote to the caller's memory, or returned something else than on private copies"})
    rep.add(args_calls=sum(1 for l in alines if l["ev"] == "args"), args_kinds=sorted({l["call"] for l in alines if l["ev"] == "args"}), decode_then_wipe_objects=sum(1 for l in alines if l["ev"] == "retain"))
    acc, rejected, states = C.validate_stateful(w, "Trace_PureCalls", "Trace_PureCalls.cfg", lines, max_rounds=40, timeout=3000)
    for t, ln, tail in rejected:
        if t == -1:
            rep.violation("more", ln)
            continue
        rep.violation("seq:%s:%s%s" % (ln.get("dom"), ln.get("op"), ":panic" if ln.get("panics") else ""),
                      {"observed": ln, "session": t, "explain": "call is not explainable by PureCalls.tla: same operation and argument values gave another result before, "
                       "or an object other than the receiver changed"})
    # canary: a non-receiver object changes
    cand = [s for s in {l["tr"] for l in acc}]
    if cand:
        t = random.Random(C.SEED).choice(sorted(cand))
        s = copy.deepcopy([l for l in acc if l["tr"] == t])
        for x in s[5:]:
            if x["ev"] == "call" and len(x["post"]) > 1:
                i = 0 if x["recv"] != 1 else 1
                x["post"][i] += 100000
                break
        _, rj, _ = C.validate_stateful(w, "Trace_PureCalls", "Trace_PureCalls.cfg", s, max_rounds=2)
        if not rj:
            raise C.Infra("binding canary (frame) accepted")
    # ---- concurrent histories, race-instrumented build, one process per kind
    rdrv = C.go_build_driver(w, "c11conc", race=True, timeout=1800)
    kinds = C.run([rdrv, "-list"], timeout=600).stdout.split()
    rounds = "10" if thorough else "2"

    def one(k):
        safe = re.sub(r"[^A-Za-z0-9_.-]", "_", k)
        out = os.path.join(w, "conc-%s.ndjson" % safe)
        lp = os.path.join(w, "race-%s" % safe)
        env = dict(os.environ, GORACE="log_path=%s halt_on_error=0 exitcode=0" % lp)
        r = C.run([rdrv, "-kind", k, "-out", out, "-seed", str(C.SEED), "-rounds", rounds], env=env, timeout=3000, check=False, what="c11conc " + k)
        if r.returncode != 0 or not os.path.exists(out):
            raise C.Infra("c11conc %s failed rc=%s:\n%s" % (k, r.returncode, r.stdout[-2000:]))
        report = "".join(open(f, errors="replace").read() for f in sorted(glob.glob(lp + "*")))
        ls = C.read_ndjson(out)
        fns = [x.strip() for x in report.split("\n") if x.strip().startswith("github.com/cloudflare/circl/") and "/zzverif/" not in x]
        ls.append({"ev": "race", "kind": k, "round": 0, "g": 0, "call": fns[0] if fns else "",
                   "res": "", "want": "", "panics": 0, "race": bool(report.strip()), "note": report[:3000]})
        return ls

    clines = []
    with cf.ThreadPoolExecutor(12) as ex:
        for ls in ex.map(one, kinds):
            clines += ls
    bad, r = C.validate_lines(w, "Trace_Conc", "Lines.cfg", clines)
    for i in bad:
        ln = clines[i]
        if ln["ev"] == "race":
            fn = re.sub(r"\[.*\]", "", ln["call"]).replace("github.com/cloudflare/circl/", "")
            rep.violation("race:%s:%s" % (ln["kind"], fn), {"kind": ln["kind"], "report": ln["note"], "explain": "data race reported while goroutines used a shared key/scheme"})
        else:
            rep.violation("conc:%s:%s" % (ln["kind"], ln["call"]), {"observed": ln, "explain": "a concurrent call returned something else than the same call run alone"})
    good = [i for i in range(len(clines)) if i not in set(bad) and clines[i]["ev"] == "conc"]
    if good:
        x = copy.deepcopy(clines[random.Random(C.SEED).choice(good)])
        x["res"] = "0000000000000000"
        y = {"ev": "race", "kind": "canary", "round": 0, "g": 0, "call": "", "res": "", "want": "", "panics": 0, "race": True, "note": ""}
        b2, _ = C.validate_lines(w, "Trace_Conc", "Lines.cfg", [x, y])
        if b2 != [0, 1]:
            raise C.Infra("binding canary (concurrent) accepted")
    rep.add(states=max(1, r0.distinct + r1.distinct), transitions=max(1, r0.generated + r1.generated), traces_validated_against_impl=len({l["tr"] for l in lines}) + len(kinds),
            sequential_calls=len(lines), domains=sorted({l["dom"] for l in lines}), concurrent_kinds=len(kinds), concurrent_calls=len(clines) - len(kinds),
            goroutines=8, rounds=int(rounds), trace_states=states)
    for l in lines[1:3] + clines[:2]:
        rep.sample({k: v for k, v in l.items() if k != "note"})
    rep.assumptions += ["interleavings are those the Go scheduler produces for 8 goroutines released together (first use of a fresh object in every round) plus what the race detector infers from happens-before; not all schedules",
                        "per-session objects (hpke Sender/Receiver/contexts, XOF states, OPRF clients' finalize data) are not shared: the property names keys, schemes, suites and tables",
                        "value tokens are canonical serialisations (for private keys with lazily derived public keys: the bytes AND the public key the object hands out)"]


MANIFEST = {
 "text": "PureCalls.tla models the library as unknown deterministic functions over a pool of value tokens with a memo (same operation + same argument values => same result, regardless of the receiver's previous contents, other objects, library globals or earlier calls) and a frame condition (only the receiver changes); TLC explores a toy implementation exhaustively and FINDS the seeded generator-aliasing and copy-aliasing bugs (non-vacuity). LazyInit.tla: the atomic getter satisfies 'every return equals the sequential value' for 3 threads, the publish-then-fill variant does not (TLC gives the schedule). The sequential driver runs random call sequences with deliberate aliasing (argument = receiver, decoding into used objects with the first decode of each input into a fresh one, mutation of returned generators / identities / copies) over 15 domains: the four group.Group implementations (elements, scalars, polynomials), ecc/bls12381 G1/G2/Scalar/Pair, goldilocks, FourQ, CSIDH keys, Kyber768 / ML-KEM-768 / ML-DSA-65 key objects, BLS and OPRF private keys with cached public keys, five XOFs (clone / write / read); after every call the tokens of ALL pool objects are logged and TLC validates the history against PureCalls. The concurrent driver (built with -race, one process per kind) releases 8 goroutines on a fresh shared object per round for 49 kinds (7 HPKE KEMs + suites, all kem/schemes, all sign/schemes, OPRF keys and servers, BLS keys, threshold-RSA key shares, blind RSA signer, groups incl. secret sharing, pairings, X25519); TLC checks every return equals the sequential value and that no data race was reported. Further kinds: concurrent use of one partially-blind-RSA Verifier, one Prio3 instance, one SIKE private key, one Goldilocks point, one FourQ encoding / Curve4Q peer key; public keys handed out by BLS / OPRF private keys (decoding into them must not change the private key); Lagrange polynomials; and retain lines - 70 kinds of decoded object must serialise to the same bytes after the buffer they were decoded from is overwritten.",
 "note": "Schedules are those produced by the runtime (2 rounds quick, 10 thorough) plus the race detector's happens-before inference; call sequences are seeded random.",
 "technique": "TLC exhaustive check of toy models with seeded bugs (non-vacuity) + TLC stateful trace validation of recorded call sequences (determinism memo + frame condition) + race-instrumented concurrent histories judged by TLC",
}
