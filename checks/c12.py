"""C12 field and scalar arithmetic = arithmetic mod p.  spec/C12/FieldMachine.tla over spec/lib/BigNat.tla"""
import json, os, random, copy
from concurrent.futures import ThreadPoolExecutor
from vlib import common as C

LEVEL = "model_checking"
CONFIGS = [("default", "", {}), ("purego", "purego", {}), ("noadx", "", {"GODEBUG": "cpu.adx=off,cpu.bmi2=off"})]


def validate_parallel(w, lines, nshards=14, module="Trace_FieldMachine", sub="v"):
    """split independent lines over several TLC JVMs"""
    shards = [lines[i::nshards] for i in range(nshards)]
    def one(i):
        d = os.path.join(w, "%s%d" % (sub, i))
        os.makedirs(d, exist_ok=True)
        C.stage_specs(d, "C12")
        if not shards[i]:
            return [], 0
        bad, r = C.validate_lines(d, module, "Lines.cfg", shards[i], heap="2g", timeout=3000)
        return [shards[i][b] for b in bad], r.distinct
    with ThreadPoolExecutor(max_workers=nshards) as ex:
        res = list(ex.map(one, range(nshards)))
    return [b for bl, _ in res for b in bl], sum(s for _, s in res)


def run(tier, rep, replay=None):
    w = C.scratch("c12")
    C.stage_specs(w, "C12")
    thorough = tier == "thorough"
    C.tlc_must(C.tlc(w, "MC_ToyField", "Empty.cfg", timeout=900), "MC_ToyField")
    lines = []
    tlines = []
    n = 8000 if thorough else 260
    for label, tags, env in CONFIGS:
        drv = C.go_build_driver(w, "c12", tags=tags)
        tp = os.path.join(w, "t-%s.ndjson" % label)
        args = [drv, "-out", tp, "-seed", str(C.SEED), "-n", str(n), "-impl", label]
        if label == "default":       # the tower fields have one (portable) implementation
            args += ["-tower", os.path.join(w, "tower.ndjson"), "-ntower", "40" if thorough else "5"]
        C.run(args, env=dict(os.environ, **env), timeout=3000, what="c12 driver " + label)
        lines += C.read_ndjson(tp)
    tlines = C.read_ndjson(os.path.join(w, "tower.ndjson"))
    sqlines = []
    for pkg in INTREE:
        for label, tags, env in CONFIGS:
            tb = C.go_build_intree(w, pkg, tags=tags)
            tp = os.path.join(w, "i-%s-%s.ndjson" % (pkg.replace("/", "_"), label))
            C.run([tb, "-test.run", "TestVerifField", "-test.count=1"], env=dict(os.environ, VERIF_OUT=tp, VERIF_SEED=str(C.SEED), VERIF_N=str(n), VERIF_IMPL=label, **env),
                  timeout=3000, what="in-tree recorder %s %s" % (pkg, label))
            if os.path.exists(tp):            # absent when the package has no such back-end under this build tag (P-384 under purego)
                lines += C.read_ndjson(tp)
            if pkg == "ecc/fourq":            # the square root of GF(p^2) used by point decoding
                sp = os.path.join(w, "sq-%s.ndjson" % label)
                C.run([tb, "-test.run", "TestVerifSqrt", "-test.count=1"], env=dict(os.environ, VERIF_OUT=sp, VERIF_SEED=str(C.SEED), VERIF_N=str(max(4, n // 40)), VERIF_IMPL=label, **env),
                      timeout=3000, what="in-tree fqSqrt recorder " + label)
                sqlines += C.read_ndjson(sp)
    tbad, tstates = validate_parallel(w, tlines, module="Trace_Tower", sub="tw")
    for ln in tbad:
        rep.violation("tower:%s:%s:%s" % (ln["f"], ln["op"], ln["alias"]), {"observed": {k: v for k, v in ln.items() if k not in ("qa", "qb")}, "explain": "tower-field result is not the one the reduction polynomials give (TowerMachine.tla), or an operand changed"})
    if tlines:
        gm = [l for l in tlines if l["op"] == "mul" and l["f"] == "fp6" and l not in tbad]
        if gm:
            x = copy.deepcopy(gm[0])
            z = x["z"][3]
            x["z"][3] = ([(z[0] + 1) % 4096] + z[1:]) if z else [1]
            b2, _ = C.validate_lines(w, "Trace_Tower", "Lines.cfg", [x])
            if b2 != [0]:
                raise C.Infra("tower binding canary accepted")
    rep.add(tower_events=len(tlines), tower_ops=sorted({l["f"] + "." + l["op"] for l in tlines}))
    sbad, sr = C.validate_lines(w, "Trace_FqSqrt", "Lines.cfg", sqlines)
    for i in sbad:
        ln = sqlines[i]
        rep.violation("field:fourq:fqsqrt:%s:%s" % (ln["class"].replace(" ", "-"), ln["impl"]), {"observed": ln, "explain": "u / v is a square of GF(p^2) (certified) but the result is not its root with the requested sign (Trace_FqSqrt.tla)"})
    sgood = [l for i, l in enumerate(sqlines) if i not in set(sbad) and l["square"] and l["class"] == "general"]
    if sgood:
        x = copy.deepcopy(sgood[0])
        x["c"][0][0] = (x["c"][0][0] + 1) % 4096
        b3, _ = C.validate_lines(w, "Trace_FqSqrt", "Lines.cfg", [x])
        if b3 != [0]:
            raise C.Infra("fqSqrt binding canary accepted")
    rep.add(fqsqrt_lines=len(sqlines), fqsqrt_classes=sorted({l["class"] for l in sqlines}))
    bad, states = validate_parallel(w, lines)
    for ln in bad:
        rep.violation("field:%s:%s:%s" % (ln["f"], ln["op"], ln["impl"].split()[-1]), {"observed": ln, "explain": "result is not congruent to the mathematical result / a non-destination register changed / wrong canonical form"})
    goodmul = [l for l in lines if l["op"] == "mul" and l not in bad]
    if goodmul:
        x = copy.deepcopy(random.Random(C.SEED).choice(goodmul))
        z = x["post"][x["z"] - 1]
        x["post"][x["z"] - 1] = ([(z[0] + 1) % 4096] + z[1:]) if z else [1]
        b2, _ = C.validate_lines(w, "Trace_FieldMachine", "Lines.cfg", [x])
        if b2 != [0]:
            raise C.Infra("binding canary accepted")
        rep.add(canary="destination of one mul altered by 1 -> rejected")
    by = {}
    for l in lines:
        k = "%s/%s" % (l["f"], l["op"])
        by[k] = by.get(k, 0) + 1
    rep.add(states=states, transitions=states, traces_validated_against_impl=len(lines), events_by_field_op=by,
            implementations=sorted({l["impl"] for l in lines}))
    for l in lines[:2]:
        rep.sample({k: l[k] for k in ("f", "impl", "op", "x", "y", "z", "pre", "post")})
    rep.assumptions += ["quotients / roots / certificates in the events are untrusted hints: TLC checks every congruence with BigNat",
                        "volume is boundary-biased sampling (structured whole-element set, full cross product for mul/add/sub), not the 2^512 operand pairs"]


INTREE = ["ecc/p384", "ecc/fourq", "dh/csidh", "sign/ed25519"]

MANIFEST = {
 "text": "TowerMachine.tla defines Fp2 = Fp[u]/(u^2+1), Fp6 = Fp2[v]/(v^3-(1+u)), Fp12 = Fp6[w]/(w^2-v) of BLS12-381 from their reduction polynomials and computes the expected coefficients of add / sub / neg / mul / sqr / inv / conjugation / multiplication by the non-residue over the integers (positive and negative parts, so no subtraction); TLC checks every recorded coefficient of ecc/bls12381/ff operations (structured coefficients 0, 1, p-1, p-k, (p-1)/2, 2^(64k), random; all aliasing patterns) with untrusted quotient hints and that operands are unchanged. FieldMachine.tla states, per operation, what a finite-field step must satisfy (destination congruent to the mathematical result for any admissible representative, canonical forms for reductions / zero and equality tests / byte export, all other registers unchanged bit for bit, square-root and non-residue certificates, inverse), with the moduli as constants; the same relations are checked exhaustively on toy primes of the same shapes. Recorders drive fp25519, fp448, Goldilocks scalars, BLS12-381 Fp and Scalar, Prio3 fp64/fp128 and the four group scalar fields (and, in package, P-384, FourQ, CSIDH, Ed25519 scalar reduction) through all operations with the structured whole-element operand set (neighbours of multiples of p, limb-boundary powers of two, maxima; full cross product for mul/add/sub), in all aliasing patterns, under three back-end configurations (default asm, purego, BMI2/ADX off), and TLC checks every recorded congruence with multi-precision BigNat arithmetic and untrusted quotient hints. Goldilocks scalars are also driven with unreduced 56-byte operands (Add, Sub, Mul, Neg).",
 "note": "Sampling, boundary-biased: ~260 events per field adapter and configuration in quick, 8000 in thorough. Tower fields: 22 operations x 5 aliasing patterns per run in quick (x 8 in thorough); Kyber / Dilithium Z_q reductions are evaluated over their complete domains in C03 / C04.",
 "technique": "TLA+ BigNat relations checked by TLC on recorded real-code operations (trace validation with untrusted hints); toy-prime exhaustive check of the relations",
}
