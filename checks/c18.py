"""C18 blind RSA / partially blind RSA / PSS verifier equivalence.  spec/C18"""
import os, random, copy
from vlib import common as C

LEVEL = "model_checking"


def run(tier, rep, replay=None):
    w = C.scratch("c18")
    C.stage_specs(w, "C18")
    thorough = tier == "thorough"
    r1 = C.tlc_must(C.tlc(w, "BlindRsa", "MC_BlindRsa.cfg", timeout=1800), "BlindRsa (toy N=77: all messages, blinds, alterations)")
    drv = C.go_build_driver(w, "c18")
    tp = os.path.join(w, "t.ndjson")
    args = [drv, "-out", tp, "-seed", str(C.SEED)] + (["-thorough"] if thorough else [])
    C.run(args, timeout=3300, what="c18 driver")
    lines = C.read_ndjson(tp)
    bad, r = C.validate_lines(w, "Trace_BlindRsa", "Lines.cfg", lines)
    for i in bad:
        ln = lines[i]
        if ln["ev"] == "pss":
            key = "pss:%s:bits=%d:%s:lib=%s,std=%s" % (ln["variant"], ln["bits"], ln["site"], ln["lib"], ln["std"])
            ln = {k: v for k, v in ln.items() if k not in ("dbmask",)}
        elif ln["ev"] == "signer":
            key = "signer:%s:bits=%d:%s:%s" % (ln["variant"], ln["bits"], ln["site"], "panic" if ln["panics"] else ("accepted" if ln["accepted"] else "refused"))
        else:
            key = "flow:%s:bits=%d:%s:%s" % (ln["variant"], ln["bits"], ln["site"], "panic" if ln["panics"] else ("finalized" if ln["finalize_ok"] else "failed"))
        rep.violation(key, {"observed": ln, "explain": "outcome differs from Trace_BlindRsa.tla / EmsaPss.tla"})
    rnd = random.Random(C.SEED)
    good = [i for i in range(len(lines)) if i not in set(bad)]
    gp = [i for i in good if lines[i]["ev"] == "pss"]
    gf = [i for i in good if lines[i]["ev"] == "flow" and lines[i]["site"] != "none"]
    can = []
    if gp:
        x = copy.deepcopy(lines[rnd.choice(gp)]); x["lib"] = not x["lib"]; can.append(x)
    if gf:
        x = copy.deepcopy(lines[rnd.choice(gf)]); x["finalize_ok"] = True; can.append(x)
    if can:
        b2, _ = C.validate_lines(w, "Trace_BlindRsa", "Lines.cfg", can)
        if b2 != list(range(len(can))):
            raise C.Infra("binding canary accepted")
    rep.add(states=max(1, r1.distinct), transitions=max(1, r1.generated), traces_validated_against_impl=len(lines),
            key_bits=sorted({l["bits"] for l in lines}), pss_cases=len(gp), variants=sorted({l["variant"] for l in lines}))
    for l in [x for x in lines if x["ev"] == "flow"][:2] + [x for x in lines if x["ev"] == "signer"][:2]:
        rep.sample({k: v for k, v in l.items() if k not in ("em", "dbmask", "mhash", "salt", "hprime")})
    rep.assumptions += ["SHA-384 and MGF1 values in pss lines are computed by the Go standard library and supplied as hints; TLC decides the EMSA-PSS structure itself",
                        "random keys per class (modulus bits 1024, 1025, 1031, 2048; more in thorough) drawn from the seed"]


MANIFEST = {
 "text": "BlindRsa.tla model-checks the blind-signature state machine over a toy modulus (N=77): for all messages and blinding factors Finalize(BlindSign(Blind(m))) = m^d, the result does not depend on the blind, and any altered blind signature never finalises. The driver runs the four RFC 9474 variants and the partially blind variant on real keys whose modulus has 1024 / 1025 / 1031 / 2048 bits (emBits a multiple of 8, short top byte): honest flows (signature verifies with the package verifier AND crypto/rsa.VerifyPSS, is independent of the blinding factor, has modulus length), every alteration of the blind signature (bit flips, 0, 1, N-1, N, N+1, wrong lengths, signature under other metadata) must be refused by Finalize, and the signer's range rule (accept iff right length and below N). For (message, signature) pairs made by raw-signing honest and deliberately malformed encoded messages (trailer, padding bytes, separator, top bits, masked DB bit, salt length, H) TLC evaluates EMSA-PSS-VERIFY (EmsaPss.tla) on the recorded EM and requires package verdict = crypto/rsa verdict = spec verdict.",
 "note": "Keys are random per class; quick flips 64 bits per variant and key, thorough flips every bit and adds 1032/2049/3072/4096-bit keys.",
 "technique": "TLC exhaustive check of toy blind-RSA state machine + scenario replay on real code + TLC evaluation of EMSA-PSS-VERIFY on recorded encodings (differential with crypto/rsa)",
}
