"""C18 blind RSA / partially blind RSA / PSS verifier equivalence.  spec/C18"""
import json, os, random, copy
from concurrent.futures import ThreadPoolExecutor
from vlib import common as C

LEVEL = "model_checking"


def digits(x):
    d = []
    while x > 0:
        d.append(x & 4095)
        x >>= 12
    return d


def pss_job(w, i, ln):
    """RFC 8017 RSASSA-PSS-VERIFY executed by TLC (RsaPssVerifyJob.tla); the quotients of the 17 modular products are untrusted hints."""
    n, sig = int(ln["n_hex"], 16), bytes.fromhex(ln["sig_hex"])
    s0 = int.from_bytes(sig, "big")
    hs, qs, x = [], [], s0
    for step in range(17):
        y = x if step < 16 else s0
        q, r = divmod(x * y, n)
        hs.append(digits(r)); qs.append(digits(q)); x = r
    job = {"n": digits(n), "sig": list(sig), "msg": list(bytes.fromhex(ln["msg_hex"])), "modbits": ln["bits"], "slen": ln["slen"], "auto": ln["auto"], "hs": hs, "qs": qs, "accepted": ln["lib"]}
    d = os.path.join(w, "pss%d" % i)
    os.makedirs(d, exist_ok=True)
    C.stage_specs(d, "C18")
    json.dump(job, open(os.path.join(d, "job.json"), "w"))
    r = C.tlc(d, "RsaPssVerifyJob", "RsaPssVerifyJob.cfg", workers=1, heap="3g", timeout=3000, stack="256m")
    vp = os.path.join(d, "verdict.json")
    if not r.ok or not os.path.exists(vp):
        raise C.Infra("RsaPssVerifyJob failed:\n%s" % r.tail(40))
    v = json.load(open(vp))
    if not v["done"] or not v["chain_ok"]:
        raise C.Infra("RsaPssVerifyJob: did not finish or rejected the harness's own quotient hints:\n%s" % r.tail(20))
    return v, r.distinct


def run(tier, rep, replay=None):
    w = C.scratch("c18")
    C.stage_specs(w, "C18")
    thorough = tier == "thorough"
    r1 = C.tlc_must(C.tlc(w, "BlindRsa", "MC_BlindRsa.cfg", timeout=1800), "BlindRsa (toy N=77: all messages, blinds, alterations)")
    drv = C.go_build_driver(w, "c18")
    tp = os.path.join(w, "t.ndjson")
    args = [drv, "-out", tp, "-seed", str(C.SEED)] + (["-thorough"] if thorough else [])
    C.run(args, timeout=3300, what="c18 driver")
    lines = C.read_ndjson(tp)
    bad, r = C.validate_lines(w, "Trace_BlindRsa", "Lines.cfg", lines)
    for i in bad:
        ln = lines[i]
        if ln["ev"] == "pss":
            key = "pss:%s:bits=%d:%s:lib=%s,std=%s" % (ln["variant"], ln["bits"], ln["site"], ln["lib"], ln["std"])
            ln = {k: v for k, v in ln.items() if k not in ("dbmask",)}
        elif ln["ev"] == "signer":
            key = "signer:%s:bits=%d:%s:%s" % (ln["variant"], ln["bits"], ln["site"], "panic" if ln["panics"] else ("accepted" if ln["accepted"] else "refused"))
        else:
            key = "flow:%s:bits=%d:%s:%s" % (ln["variant"], ln["bits"], ln["site"], "panic" if ln["panics"] else ("finalized" if ln["finalize_ok"] else "failed"))
        rep.violation(key, {"observed": ln, "explain": "outcome differs from Trace_BlindRsa.tla / EmsaPss.tla"})
    # ---- TLC executes RSASSA-PSS-VERIFY itself (RSAVP1 with checked quotients, SHA-384, MGF1, EMSA-PSS) on a sample of the (message, signature) pairs
    rnd0 = random.Random(C.SEED)
    pl = [l for l in lines if l["ev"] == "pss" and not l["panics"]]
    bysite = {}
    for l in pl:
        bysite.setdefault((l["site"], l["bits"] <= 1031), []).append(l)
    pick = []
    for k in sorted(bysite):
        if k[1] or thorough:                       # 1024..1031-bit keys in quick (about 15 s each), all sizes in thorough
            pick.append(rnd0.choice(bysite[k]))
    if not thorough:
        rnd0.shuffle(pick)
        honest = [l for l in pick if l["site"] == "none"][:1]
        pick = honest + [l for l in pick if l["site"] != "none"][:7]
    with ThreadPoolExecutor(min(C.NCPU, 12)) as ex:
        pres = list(ex.map(lambda il: pss_job(w, il[0], il[1]), enumerate(pick)))
    for ln, (v, _) in zip(pick, pres):
        if not v["agrees"]:
            rep.violation("rfc8017:%s:bits=%d:%s:lib=%s" % (ln["variant"], ln["bits"], ln["site"], ln["lib"]),
                          {"n": ln["n_hex"], "sig": ln["sig_hex"], "msg": ln["msg_hex"], "tlc_verdict": v["verdict"], "explain": "the library's verdict differs from RSASSA-PSS-VERIFY executed by TLC (RsaPssVerifyJob.tla)"})
    rep.add(tlc_executed_pss_verify=len(pick), tlc_executed_sites=sorted({l["site"] for l in pick}))
    rnd = random.Random(C.SEED)
    good = [i for i in range(len(lines)) if i not in set(bad)]
    gp = [i for i in good if lines[i]["ev"] == "pss"]
    gf = [i for i in good if lines[i]["ev"] == "flow" and lines[i]["site"] != "none"]
    can = []
    if gp:
        x = copy.deepcopy(lines[rnd.choice(gp)]); x["lib"] = not x["lib"]; can.append(x)
    if gf:
        x = copy.deepcopy(lines[rnd.choice(gf)]); x["finalize_ok"] = True; can.append(x)
    if can:
        b2, _ = C.validate_lines(w, "Trace_BlindRsa", "Lines.cfg", can)
        if b2 != list(range(len(can))):
            raise C.Infra("binding canary accepted")
    rep.add(states=max(1, r1.distinct), transitions=max(1, r1.generated), traces_validated_against_impl=len(lines),
            key_bits=sorted({l["bits"] for l in lines}), pss_cases=len(gp), variants=sorted({l["variant"] for l in lines}))
    for l in [x for x in lines if x["ev"] == "flow"][:2] + [x for x in lines if x["ev"] == "signer"][:2]:
        rep.sample({k: v for k, v in l.items() if k not in ("em", "dbmask", "mhash", "salt", "hprime")})
    rep.assumptions += ["for every pss line SHA-384 and MGF1 values are hints from the Go standard library and TLC decides the EMSA-PSS structure; for a sample TLC executes the whole RSASSA-PSS-VERIFY itself - modular exponentiation with checked quotient hints, SHA-384 and MGF1 in TLA+ (RsaPssVerifyJob.tla)",
                        "random keys per class (modulus bits 1024, 1025, 1031, 2048; more in thorough) drawn from the seed"]


MANIFEST = {
 "text": "RsaPssVerifyJob.tla is RFC 8017 RSASSA-PSS-VERIFY as an executable behaviour (s^65537 mod n as 17 products whose quotients are untrusted hints checked with multi-precision arithmetic, I2OSP, SHA-384 one action per round, MGF1, the EMSA-PSS structure incl. Go's automatic salt length): TLC itself decides a sample of the honest and malformed (message, signature) pairs of the run and must agree with the package verifier. BlindRsa.tla model-checks the blind-signature state machine over a toy modulus (N=77): for all messages and blinding factors Finalize(BlindSign(Blind(m))) = m^d, the result does not depend on the blind, and any altered blind signature never finalises. The driver runs the four RFC 9474 variants and the partially blind variant on real keys whose modulus has 1024 / 1025 / 1031 / 2048 bits (emBits a multiple of 8, short top byte): honest flows (signature verifies with the package verifier AND crypto/rsa.VerifyPSS, is independent of the blinding factor, has modulus length), every alteration of the blind signature (bit flips, 0, 1, N-1, N, N+1, wrong lengths, signature under other metadata) must be refused by Finalize, and the signer's range rule (accept iff right length and below N). For (message, signature) pairs made by raw-signing honest and deliberately malformed encoded messages (trailer, padding bytes, separator, top bits, masked DB bit, salt length, H) TLC evaluates EMSA-PSS-VERIFY (EmsaPss.tla) on the recorded EM and requires package verdict = crypto/rsa verdict = spec verdict.",
 "note": "Keys are random per class; quick flips 64 bits per variant and key, thorough flips every bit and adds 1032/2049/3072/4096-bit keys.",
 "technique": "executable RFC 8017 RSASSA-PSS-VERIFY in TLA+ deciding sampled signatures + TLC exhaustive check of toy blind-RSA state machine + scenario replay on real code + TLC evaluation of EMSA-PSS-VERIFY on recorded encodings (differential with crypto/rsa)",
}
