"""C04 ML-DSA and Dilithium compute exactly the functions of FIPS 204 / Dilithium 3.1.  spec/C04"""
import json, os, random, copy
from concurrent.futures import ThreadPoolExecutor
from vlib import common as C

LEVEL = "model_checking"
Q = 8380417
HELPER_PKGS = ["sign/internal/dilithium", "sign/mldsa/mldsa44/internal", "sign/mldsa/mldsa65/internal"]
HEDGED = {"ML-DSA-44": "sign/mldsa/mldsa44", "ML-DSA-65": "sign/mldsa/mldsa65", "ML-DSA-87": "sign/mldsa/mldsa87"}


def key_of(ln):
    ev = ln["ev"]
    if ev == "helper":
        return "helper:%s:alpha=%s:hint=%s:%s" % (ln["fn"], ln["alpha"], ln["hint"], ln["impl"])
    if ev == "verify":
        return "verify:%s:%s:%s" % (ln["param"], ln["class"].split(" ")[0], "panic" if ln["panics"] else ("accepted" if ln["accepted"] else "rejected"))
    return "%s:%s:%s" % (ev, ln["param"], "panic" if ln["panics"] else "bytes-differ")


def run(tier, rep, replay=None):
    w = C.scratch("c04")
    C.stage_specs(w, "C04")
    thorough = tier == "thorough"
    C.tlc_must(C.tlc(w, "MC_HintBits", "MC_HintBits_strict.cfg", timeout=900), "MC_HintBits (every hint string / vector of toy size)")
    if "an accepted hint string is not the canonical packing" not in C.tlc(w, "MC_HintBits", "MC_HintBits_lax.cfg", timeout=900).out:
        raise C.Infra("MC_HintBits: the seeded deviation (repeated indices accepted) was not found")
    drv = C.go_build_driver(w, "c04")
    tp, hj = os.path.join(w, "t.ndjson"), os.path.join(w, "hedged.json")
    C.run([drv, "-out", tp, "-hedged", hj, "-seed", str(C.SEED)] + (["-thorough"] if thorough else []), timeout=3300, what="c04 driver")
    lines = C.read_ndjson(tp)
    # hedged signing (explicit rnd) through ML-DSA.Sign_internal, in-tree
    jobs = json.load(open(hj))
    for param, pkg in HEDGED.items():
        mine = [j for j in jobs if j["Param"] == param]
        if not mine:
            continue
        tb = C.go_build_intree(w, pkg)
        ip, op = os.path.join(w, "hin-%s.json" % param), os.path.join(w, "hout-%s.json" % param)
        json.dump(mine, open(ip, "w"))
        C.run([tb, "-test.run", "TestZZVerifHedged", "-test.count=1"], env=dict(os.environ, VERIF_IN=ip, VERIF_OUT=op), timeout=1700, what="hedged recorder " + param)
        for j, got in zip(mine, json.load(open(op))):
            lines.append({"ev": "sign", "param": param, "class": "hedged rnd=" + j["Rnd"][:8], "panics": 0, "sig": got, "ref_sig": j["Want"], "seed": j["Seed"], "msg": j["Mprime"], "hints": []})
    # helper functions: strided in quick, the whole of [0, q) in thorough (chunked)
    tasks = []
    for pkg in HELPER_PKGS:
        for label, tags in (("default", ""), ("purego", "purego")):
            tb = C.go_build_intree(w, pkg, tags=tags)
            if thorough and label == "default":
                nchunk = 24
                for c in range(nchunk):
                    tasks.append((tb, pkg, label, c * (Q // nchunk + 1), min(Q, (c + 1) * (Q // nchunk + 1)), 1))
            else:
                tasks.append((tb, pkg, label, 0, Q, 211))

    def helper_task(t):
        tb, pkg, label, lo, hi, step = t
        hp = os.path.join(w, "help-%s-%s-%d.ndjson" % (pkg.replace("/", "_"), label, lo))
        C.run([tb, "-test.run", "TestZZVerifHelpers", "-test.count=1"], env=dict(os.environ, VERIF_OUT=hp, VERIF_IMPL=label + " " + pkg, VERIF_LO=str(lo), VERIF_HI=str(hi), VERIF_STEP=str(step)),
              timeout=3000, what="dilithium helper recorder %s %s" % (pkg, label))
        ls = C.read_ndjson(hp)
        os.remove(hp)
        d = os.path.join(w, "hv-%s-%s-%d" % (pkg.replace("/", "_"), label, lo))
        os.makedirs(d, exist_ok=True)
        C.stage_specs(d, "C04")
        bad, r = C.validate_lines(d, "Trace_Dsa", "Lines.cfg", ls, heap="6g", timeout=3000)
        out = [ls[i] for i in bad]
        n = sum(len(l["ys"]) for l in ls)
        return out, n, len(ls)

    hbad, hvals, hblocks = [], 0, 0
    with ThreadPoolExecutor(8) as ex:
        for b, n, nb in ex.map(helper_task, tasks):
            hbad += b
            hvals += n
            hblocks += nb
    for ln in hbad:
        rep.violation(key_of(ln), {"observed": {k: (v if not isinstance(v, list) else v[:12]) for k, v in ln.items()}, "explain": "helper output differs from FIPS 204 (DilithiumHelpers.tla)"})
    bad, r = C.validate_lines(w, "Trace_Dsa", "Lines.cfg", lines)
    for i in bad:
        ln = lines[i]
        det = {k: v for k, v in ln.items() if k not in ("hints",) and v not in ("", [], None)}
        for k in ("pk", "ref_pk", "sk", "ref_sk", "sig", "ref_sig"):
            if k in det and len(det[k]) > 200:
                det[k] = det[k][:200] + "..."
        rep.violation(key_of(ln), {"observed": det, "explain": "line rejected by Trace_Dsa.tla"})
    good = [i for i in range(len(lines)) if i not in set(bad)]
    can = []
    gv = [i for i in good if lines[i]["ev"] == "verify" and not lines[i]["accepted"] and lines[i]["class"].startswith("hint-duplicated")]
    if gv:
        x = copy.deepcopy(lines[gv[0]]); x["accepted"] = True; can.append(x)
    gz = [i for i in good if lines[i]["ev"] == "verify" and lines[i]["class"].startswith("z-norm-violated")]
    if gz:
        y = copy.deepcopy(lines[gz[0]]); y["accepted"] = True; can.append(y)
    gs = [i for i in good if lines[i]["ev"] == "sign"]
    if gs:
        z = copy.deepcopy(lines[gs[0]]); z["sig"] = "00" + z["sig"][2:] if not z["sig"].startswith("00") else "01" + z["sig"][2:]; can.append(z)
    if can:
        b2, _ = C.validate_lines(w, "Trace_Dsa", "Lines.cfg", can)
        if b2 != list(range(len(can))):
            raise C.Infra("binding canary accepted")
    ver = [l for l in lines if l["ev"] == "verify"]
    rep.add(states=max(1, r.distinct), transitions=max(1, r.generated), traces_validated_against_impl=len(lines) + hblocks, keygen=sum(1 for l in lines if l["ev"] == "keygen"),
            sign=sum(1 for l in lines if l["ev"] == "sign"), hedged=len(jobs), verify=len(ver), verify_classes=sorted({l["class"].split(" ")[0].split("=")[0] for l in ver}),
            z_norm_violated_consistent=sum(1 for l in ver if l["class"].startswith("z-norm-violated")), helper_values=hvals, helper_blocks=hblocks,
            helper_domain="complete [0,q) for power2round / decompose / useHint / le2qModQ (default build), strided under purego" if thorough else "every 211th value of [0,q) plus corner sets")
    for l in [x for x in ver if x["class"].startswith("hint")][:2] + [x for x in lines if x["ev"] == "sign"][:1]:
        rep.sample({k: (v if not isinstance(v, str) or len(v) < 80 else v[:80] + "...") for k, v in l.items() if k != "hints"})
    rep.assumptions += ["byte-for-byte comparison of keys and signatures and the commitment-hash fact of verification use a plain transcription of FIPS 204 / Dilithium 3.1 (harness/drivers/mldsaref: int64 arithmetic mod q, golang.org/x/crypto/sha3); no executable TLA+ of the full signing algorithm is run (an ML-DSA signature takes several rejection-loop iterations of k*l NTT products; the scalar building blocks and the decoding rules are what TLC evaluates)",
                        "hedged signing is exercised through the unexported Sign_internal entry point with explicit rnd; the public API's own randomness cannot be injected",
                        "quick evaluates the rounding functions on every 211th value of [0, q) plus corner sets; thorough on all of [0, q)"]


MANIFEST = {
 "text": "HintBits.tla is FIPS 204 HintBitPack / HintBitUnpack; MC_HintBits checks for EVERY hint string and vector of a toy size that unpack(pack(h)) = h and that an accepted string is the canonical packing of its vector (TLC finds the seeded deviation that lets indices repeat). DilithiumHelpers.tla states Power2Round, Decompose, MakeHint, UseHint (both gamma2) and the modular reductions; TLC evaluates them on the implementation's outputs - every 211th value of [0, q) x {0, 1} plus corner sets in quick, the complete domain in thorough - under the default and purego builds. The driver compares public key, private key and deterministic signature bytes of the three ML-DSA and three Dilithium parameter sets with a transcription of the standards (structured and random seeds, messages of 0 / 1 / 33 / 200 bytes, contexts of 0 / 1 / 255 bytes) and, through Sign_internal, hedged signatures with explicit rnd. Verification is judged by TLC from recorded facts: accepted iff lengths and context length are right, HintBitUnpack (run by TLC on the recorded hint bytes) succeeds, max |z| < gamma1 - beta and the recomputed commitment hash equals c~; exercised on honest signatures, altered c~ / z / message / context / key, 256-byte contexts, wrong lengths, z coefficients set to +-(gamma1-beta), gamma1-beta-1, +-gamma1, CONSISTENT signatures whose z violates the bound (made by the transcription with the check switched off, so only the norm test can reject them), and hint sections with swapped, duplicated, removed indices, non-zero padding, decreasing / over-large counts.",
 "note": "No executable TLA+ of full ML-DSA signing; seeds and messages are structured plus seeded random (2 random seeds per parameter set quick, 12 thorough).",
 "technique": "TLC exhaustive check of hint (un)packing on toy sizes (with seeded deviation) + TLC evaluation of FIPS 204 rounding/reduction contracts on dumped domains + TLC judgement of recorded verifications (HintBitUnpack executed in TLA+) + differential against a transcription of FIPS 204 / Dilithium 3.1",
}
