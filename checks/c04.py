"""C04 ML-DSA and Dilithium compute exactly the functions of FIPS 204 / Dilithium 3.1.  spec/C04"""
import json, os, random, copy
from concurrent.futures import ThreadPoolExecutor
from vlib import common as C

LEVEL = "model_checking"
Q = 8380417
HELPER_PKGS = ["sign/internal/dilithium", "sign/mldsa/mldsa44/internal", "sign/mldsa/mldsa65/internal"]
HEDGED = {"ML-DSA-44": "sign/mldsa/mldsa44", "ML-DSA-65": "sign/mldsa/mldsa65", "ML-DSA-87": "sign/mldsa/mldsa87"}


QM1 = Q - 1
#              flavor      k  l  eta tau beta g1bits gamma2     omega ctl
PARAMS = {"ML-DSA-44": ("mldsa", 4, 4, 2, 39, 78, 17, QM1 // 88, 80, 32), "ML-DSA-65": ("mldsa", 6, 5, 4, 49, 196, 19, QM1 // 32, 55, 48),
          "ML-DSA-87": ("mldsa", 8, 7, 2, 60, 120, 19, QM1 // 32, 75, 64), "Dilithium2": ("dilithium", 4, 4, 2, 39, 78, 17, QM1 // 88, 80, 32),
          "Dilithium3": ("dilithium", 6, 5, 4, 49, 196, 19, QM1 // 32, 55, 32), "Dilithium5": ("dilithium", 8, 7, 2, 60, 120, 19, QM1 // 32, 75, 32)}


def tla_job(w, i, module, job):
    d = os.path.join(w, "job%d" % i)
    os.makedirs(d, exist_ok=True)
    C.stage_specs(d, "C04")
    json.dump(job, open(os.path.join(d, "job.json"), "w"))
    r = C.tlc(d, module, module + ".cfg", workers=1, heap="3g", timeout=3000, stack="256m")
    vp = os.path.join(d, "verdict.json")
    if not r.ok or not os.path.exists(vp):
        raise C.Infra("%s failed:\n%s" % (module, r.tail(40)))
    v = json.load(open(vp))
    if not v["done"] or not v.get("sampled", True):
        raise C.Infra("%s did not reach the end / ran out of squeezed bytes:\n%s" % (module, r.tail(20)))
    return v, r.distinct


def key_of(ln):
    ev = ln["ev"]
    if ev == "helper":
        return "helper:%s:alpha=%s:hint=%s:%s" % (ln["fn"], ln["alpha"], ln["hint"], ln["impl"])
    if ev == "verify":
        return "verify:%s:%s:%s" % (ln["param"], ln["class"].split(" ")[0], "panic" if ln["panics"] else ("accepted" if ln["accepted"] else "rejected"))
    return "%s:%s:%s" % (ev, ln["param"], "panic" if ln["panics"] else "bytes-differ")


def run(tier, rep, replay=None):
    w = C.scratch("c04")
    C.stage_specs(w, "C04")
    thorough = tier == "thorough"
    C.tlc_must(C.tlc(w, "MC_HintBits", "MC_HintBits_strict.cfg", timeout=900), "MC_HintBits (every hint string / vector of toy size)")
    if "an accepted hint string is not the canonical packing" not in C.tlc(w, "MC_HintBits", "MC_HintBits_lax.cfg", timeout=900).out:
        raise C.Infra("MC_HintBits: the seeded deviation (repeated indices accepted) was not found")
    drv = C.go_build_driver(w, "c04")
    tp, hj = os.path.join(w, "t.ndjson"), os.path.join(w, "hedged.json")
    C.run([drv, "-out", tp, "-hedged", hj, "-seed", str(C.SEED)] + (["-thorough"] if thorough else []), timeout=3300, what="c04 driver")
    lines = C.read_ndjson(tp)
    # hedged signing (explicit rnd) through ML-DSA.Sign_internal, in-tree
    jobs = json.load(open(hj))
    hedged_got = []
    for param, pkg in HEDGED.items():
        mine = [j for j in jobs if j["Param"] == param]
        if not mine:
            continue
        tb = C.go_build_intree(w, pkg)
        ip, op = os.path.join(w, "hin-%s.json" % param), os.path.join(w, "hout-%s.json" % param)
        json.dump(mine, open(ip, "w"))
        C.run([tb, "-test.run", "TestZZVerifHedged", "-test.count=1"], env=dict(os.environ, VERIF_IN=ip, VERIF_OUT=op), timeout=1700, what="hedged recorder " + param)
        for j, got in zip(mine, json.load(open(op))):
            hedged_got.append((j, got))
            lines.append({"ev": "sign", "param": param, "class": "hedged rnd=" + j["Rnd"][:8], "panics": 0, "sig": got, "ref_sig": j["Want"], "seed": j["Seed"], "msg": j["Mprime"], "hints": []})
    # helper functions: strided in quick, the whole of [0, q) in thorough (chunked)
    tasks = []
    for pkg in HELPER_PKGS:
        for label, tags in (("default", ""), ("purego", "purego")):
            tb = C.go_build_intree(w, pkg, tags=tags)
            if thorough and label == "default":
                nchunk = 24
                for c in range(nchunk):
                    tasks.append((tb, pkg, label, c * (Q // nchunk + 1), min(Q, (c + 1) * (Q // nchunk + 1)), 1))
            else:
                tasks.append((tb, pkg, label, 0, Q, 211))

    def helper_task(t):
        tb, pkg, label, lo, hi, step = t
        hp = os.path.join(w, "help-%s-%s-%d.ndjson" % (pkg.replace("/", "_"), label, lo))
        C.run([tb, "-test.run", "TestZZVerifHelpers", "-test.count=1"], env=dict(os.environ, VERIF_OUT=hp, VERIF_IMPL=label + " " + pkg, VERIF_LO=str(lo), VERIF_HI=str(hi), VERIF_STEP=str(step)),
              timeout=3000, what="dilithium helper recorder %s %s" % (pkg, label))
        ls = C.read_ndjson(hp)
        os.remove(hp)
        d = os.path.join(w, "hv-%s-%s-%d" % (pkg.replace("/", "_"), label, lo))
        os.makedirs(d, exist_ok=True)
        C.stage_specs(d, "C04")
        bad, r = C.validate_lines(d, "Trace_Dsa", "Lines.cfg", ls, heap="6g", timeout=3000)
        out = [ls[i] for i in bad]
        n = sum(len(l["ys"]) for l in ls)
        return out, n, len(ls)

    hbad, hvals, hblocks = [], 0, 0
    with ThreadPoolExecutor(8) as ex:
        for b, n, nb in ex.map(helper_task, tasks):
            hbad += b
            hvals += n
            hblocks += nb
    for ln in hbad:
        rep.violation(key_of(ln), {"observed": {k: (v if not isinstance(v, list) else v[:12]) for k, v in ln.items()}, "explain": "helper output differs from FIPS 204 (DilithiumHelpers.tla)"})
    bad, r = C.validate_lines(w, "Trace_Dsa", "Lines.cfg", lines)
    for i in bad:
        ln = lines[i]
        det = {k: v for k, v in ln.items() if k not in ("hints",) and v not in ("", [], None)}
        for k in ("pk", "ref_pk", "sk", "ref_sk", "sig", "ref_sig"):
            if k in det and len(det[k]) > 200:
                det[k] = det[k][:200] + "..."
        rep.violation(key_of(ln), {"observed": det, "explain": "line rejected by Trace_Dsa.tla"})
    # ---- TLC recomputes key generation and decides verification from FIPS 204 / Dilithium 3.1 itself for a sample of the run
    hx = lambda h: list(bytes.fromhex(h))
    rnd = random.Random(C.SEED)
    tjobs = []
    per = 3 if thorough else 1
    for param, (flavor, k, l, eta, tau, beta, g1bits, gamma2, omega, ctl) in PARAMS.items():
        kg = [x for x in lines if x["ev"] == "keygen" and x["param"] == param and not x["panics"]]
        rnd.shuffle(kg)
        for x in kg[:per]:
            tjobs.append(("MLDSAKeyGenJob", {"flavor": flavor, "k": k, "l": l, "eta": eta, "xi": hx(x["seed"]), "pk": hx(x["pk"]), "sk": hx(x["sk"])}, param, "keygen"))
        skof = {x["seed"]: x["sk"] for x in kg}
        sg = [x for x in lines if x["ev"] == "sign" and x["param"] == param and not x["panics"] and not x["class"].startswith("hedged") and x.get("seed") in skof]
        rnd.shuffle(sg)
        sbase = {"flavor": flavor, "k": k, "l": l, "eta": eta, "tau": tau, "beta": beta, "g1bits": g1bits, "gamma2": gamma2, "omega": omega, "ctl": ctl}
        bsg = sorted([x for x in sg if x["class"].startswith("boundary")], key=lambda x: x["class"])
        if bsg and not thorough:      # one message whose signing loop meets a rejection test exactly at its bound (all four kinds in thorough)
            bsg = [bsg[C.SEED % len(bsg)]]
        for x in [y for y in sg if not y["class"].startswith("boundary")][:per] + bsg:
            msg, ctx = hx(x["msg"]), hx(x["ctx"])
            mprime = ([0, len(ctx)] + ctx + msg) if flavor == "mldsa" else msg
            tjobs.append(("MLDSASignJob", dict(sbase, sk=hx(skof[x["seed"]]), mprime=mprime, rnd=[0] * 32, sig=hx(x["sig"])), param, "sign:" + ("boundary" if x["class"].startswith("boundary") else "deterministic")))
        hg = [(j, got) for j, got in hedged_got if j["Param"] == param and j["Seed"] in skof]
        rnd.shuffle(hg)
        for j, got in hg[:per]:
            tjobs.append(("MLDSASignJob", dict(sbase, sk=hx(skof[j["Seed"]]), mprime=hx(j["Mprime"]), rnd=hx(j["Rnd"]), sig=hx(got)), param, "sign:hedged"))
        ver = [x for x in lines if x["ev"] == "verify" and x["param"] == param and not x["panics"] and x["len_ok"] and x["ctx_ok"]]
        byclass = {}
        for x in ver:
            byclass.setdefault(x["class"].split(" ")[0].split("=")[0], []).append(x)
        want = ["honest", "z-norm-violated-consistent", "hint-duplicated", "hint-swapped", "ctilde-bit", "hint-padding-nonzero", "z-coefficient"]
        for cls in (want if thorough else want[:3] + [rnd.choice(want[3:])]):
            if cls in byclass:
                x = rnd.choice(byclass[cls])
                msg, ctx = hx(x["msg"]), hx(x["ctx"])
                mprime = ([0, len(ctx)] + ctx + msg) if flavor == "mldsa" else msg
                tjobs.append(("MLDSAVerifyJob", {"flavor": flavor, "k": k, "l": l, "tau": tau, "beta": beta, "g1bits": g1bits, "gamma2": gamma2, "omega": omega, "ctl": ctl,
                                                 "pk": hx(x["pk"]), "mprime": mprime, "sig": hx(x["sig"]), "accepted": x["accepted"]}, param, "verify:" + cls))
    fals = copy.deepcopy(tjobs[0][1])
    fals["pk"][40] ^= 1
    with ThreadPoolExecutor(min(C.NCPU, 14)) as ex:
        tres = list(ex.map(lambda ij: tla_job(w, ij[0], ij[1][0], ij[1][1]), enumerate(tjobs + [("MLDSAKeyGenJob", fals, "", "falsified")])))
    if tres[-1][0]["pk"]:
        raise C.Infra("MLDSAKeyGenJob accepted a falsified public key")
    for (module, job, param, cls), (v, _) in zip(tjobs, tres[:-1]):
        if module == "MLDSAKeyGenJob":
            for part in ("pk", "sk"):
                if not v[part]:
                    rep.violation("standard:%s:keygen:%s" % (param, part), {"xi": bytes(job["xi"]).hex(), "explain": "the library's %s is not the value TLC computes from FIPS 204 / Dilithium 3.1 (MLDSAKeyGenJob.tla)" % part})
        elif module == "MLDSASignJob":
            if not v["sig"]:
                rep.violation("standard:%s:%s" % (param, cls), {"mprime": bytes(job["mprime"]).hex()[:120], "rnd": bytes(job["rnd"]).hex(), "attempts_in_standard": v["attempts"],
                                                               "explain": "the library's signature is not the one TLC computes from Sign_internal (MLDSASignJob.tla)"})
        elif not v["agrees"]:
            rep.violation("standard:%s:%s:%s" % (param, cls, "accepted" if job["accepted"] else "rejected"),
                          {"conditions": {k2: v[k2] for k2 in ("hint_ok", "z_ok", "ctilde_ok")}, "sig": bytes(job["sig"]).hex()[:120], "explain": "the library's verdict differs from Verify_internal executed by TLC (MLDSAVerifyJob.tla)"})
    good = [i for i in range(len(lines)) if i not in set(bad)]
    can = []
    gv = [i for i in good if lines[i]["ev"] == "verify" and not lines[i]["accepted"] and lines[i]["class"].startswith("hint-duplicated")]
    if gv:
        x = copy.deepcopy(lines[gv[0]]); x["accepted"] = True; can.append(x)
    gz = [i for i in good if lines[i]["ev"] == "verify" and lines[i]["class"].startswith("z-norm-violated")]
    if gz:
        y = copy.deepcopy(lines[gz[0]]); y["accepted"] = True; can.append(y)
    gs = [i for i in good if lines[i]["ev"] == "sign"]
    if gs:
        z = copy.deepcopy(lines[gs[0]]); z["sig"] = "00" + z["sig"][2:] if not z["sig"].startswith("00") else "01" + z["sig"][2:]; can.append(z)
    if can:
        b2, _ = C.validate_lines(w, "Trace_Dsa", "Lines.cfg", can)
        if b2 != list(range(len(can))):
            raise C.Infra("binding canary accepted")
    ver = [l for l in lines if l["ev"] == "verify"]
    states_t = sum(x[1] for x in tres)
    rep.add(tlc_recompute_states=states_t)
    rep.add(states=max(1, r.distinct), transitions=max(1, r.generated), traces_validated_against_impl=len(lines) + hblocks, keygen=sum(1 for l in lines if l["ev"] == "keygen"),
            sign=sum(1 for l in lines if l["ev"] == "sign"), hedged=len(jobs), verify=len(ver), tlc_recomputed=len(tjobs), tlc_recomputed_kinds=sorted({j[3] for j in tjobs}), verify_classes=sorted({l["class"].split(" ")[0].split("=")[0] for l in ver}),
            z_norm_violated_consistent=sum(1 for l in ver if l["class"].startswith("z-norm-violated")), helper_values=hvals, helper_blocks=hblocks,
            helper_domain="complete [0,q) for power2round / decompose / useHint / le2qModQ (default build), strided under purego" if thorough else "every 211th value of [0,q) plus corner sets")
    for l in [x for x in ver if x["class"].startswith("hint")][:2] + [x for x in lines if x["ev"] == "sign"][:1]:
        rep.sample({k: (v if not isinstance(v, str) or len(v) < 80 else v[:80] + "...") for k, v in l.items() if k != "hints"})
    rep.assumptions += ["byte-for-byte comparison of keys and signatures and the commitment-hash fact of verification use a plain transcription of FIPS 204 / Dilithium 3.1 (harness/drivers/mldsaref: int64 arithmetic mod q, golang.org/x/crypto/sha3); TLC itself recomputes key generation (MLDSAKeyGenJob.tla), deterministic and hedged signatures through the whole rejection loop (MLDSASignJob.tla) and executes Verify_internal (MLDSAVerifyJob.tla) for a sample of the run's keys, messages and signatures of every parameter set",
                        "hedged signing is exercised through the unexported Sign_internal entry point with explicit rnd; the public API's own randomness cannot be injected",
                        "quick evaluates the rounding functions on every 211th value of [0, q) plus corner sets; thorough on all of [0, q)"]


MANIFEST = {
 "text": "MLDSAKeyGenJob.tla, MLDSASignJob.tla and MLDSAVerifyJob.tla are FIPS 204 KeyGen_internal, Sign_internal (rejection loop included: ExpandMask, HighBits, SampleInBall, the norm tests, MakeHint, sigEncode; attempts repeat the program of hash jobs with kappa advanced) and Verify_internal - and their Dilithium 3.1 variants - as executable behaviours for every parameter set (Keccak job machine, ExpandA / ExpandS rejection sampling, NTT by layers with 32-bit-safe modular products, Power2Round, UseHint, encodings): TLC recomputes pk / sk of sampled seeds, deterministic and hedged signature bytes of sampled messages, and decides verification of sampled honest, norm-violating, hint-malformed and altered signatures of the run itself, after rejecting a falsified public key. HintBits.tla is FIPS 204 HintBitPack / HintBitUnpack; MC_HintBits checks for EVERY hint string and vector of a toy size that unpack(pack(h)) = h and that an accepted string is the canonical packing of its vector (TLC finds the seeded deviation that lets indices repeat). DilithiumHelpers.tla states Power2Round, Decompose, MakeHint, UseHint (both gamma2) and the modular reductions; TLC evaluates them on the implementation's outputs - every 211th value of [0, q) x {0, 1} plus corner sets in quick, the complete domain in thorough - under the default and purego builds. The driver compares public key, private key and deterministic signature bytes of the three ML-DSA and three Dilithium parameter sets with a transcription of the standards (structured and random seeds, seeds found by search whose matrix expansion draws the 23-bit candidate q resp. q - 1, messages of 0 / 1 / 33 / 200 bytes, messages found by search one of whose signing attempts has max|z| = gamma1 - beta, max|r0| = gamma2 - beta, exactly omega resp. omega + 1 hints while the other tests pass, contexts of 0 / 1 / 255 bytes) and, through Sign_internal, hedged signatures with explicit rnd. Verification is judged by TLC from recorded facts: accepted iff lengths and context length are right, HintBitUnpack (run by TLC on the recorded hint bytes) succeeds, max |z| < gamma1 - beta and the recomputed commitment hash equals c~; exercised on honest signatures, altered c~ / z / message / context / key, 256-byte contexts, wrong lengths, z coefficients set to +-(gamma1-beta), gamma1-beta-1, +-gamma1, CONSISTENT signatures whose z violates the bound (made by the transcription with the check switched off, so only the norm test can reject them), and hint sections with swapped, duplicated, removed indices, non-zero padding, decreasing / over-large counts.",
 "note": "TLC recomputation per parameter set: 1 key generation, 1 deterministic and 1 hedged signature, 4 verifications in quick; 3 / 3 / 3 / 7 in thorough; seeds and messages are structured plus seeded random (2 random seeds per parameter set quick, 12 thorough).",
 "technique": "executable FIPS 204 KeyGen / Sign / Verify in TLA+ recomputing sampled outputs and verdicts + TLC exhaustive check of hint (un)packing on toy sizes (with seeded deviation) + TLC evaluation of FIPS 204 rounding/reduction contracts on dumped domains + TLC judgement of recorded verifications (HintBitUnpack executed in TLA+) + differential against a transcription of FIPS 204 / Dilithium 3.1",
}
