---- MODULE ToyGroup ----
(* Design-level check of GroupMachine's reading of a group: on a toy elliptic curve of PRIME order the affine group
   law with its explicit case analysis (identity, P = Q, P = -Q) is a group, every point is a multiple of the
   generator, and "same element iff same form" holds - the facts the trace specification relies on.
   Curve y^2 = x^3 + x + 6 over GF(11) has 13 points (prime).                                              *)
EXTENDS Integers, FiniteSets, TLC
P == 11
A == 1
B == 6
Inf == <<"inf">>
Fp == 0..(P-1)
Pts == {Inf} \cup { <<x, y>> : x \in Fp, y \in Fp }
OnCurve(pt) == pt = Inf \/ ((pt[2]*pt[2]) % P) = ((pt[1]*pt[1]*pt[1] + A*pt[1] + B) % P)
E == { pt \in Pts : OnCurve(pt) }
Inv(a) == CHOOSE i \in Fp : ((a*i) % P) = 1
NegP(pt) == IF pt = Inf THEN Inf ELSE <<pt[1], (P - pt[2]) % P>>
AddP(p1, p2) ==
  IF p1 = Inf THEN p2 ELSE IF p2 = Inf THEN p1
  ELSE IF p1[1] = p2[1] /\ ((p1[2] + p2[2]) % P) = 0 THEN Inf                    \* P = -Q (includes doubling a 2-torsion point)
  ELSE LET lam == IF p1 = p2 THEN ((3*p1[1]*p1[1] + A) * Inv((2*p1[2]) % P)) % P   \* tangent
                  ELSE (((p2[2] - p1[2] + P) % P) * Inv((p2[1] - p1[1] + P) % P)) % P
           x3 == (lam*lam - p1[1] - p2[1] + 2*P) % P
       IN <<x3, (lam*(p1[1] - x3 + P) - p1[2] + P*P) % P>>
RECURSIVE MulP(_,_)
MulP(k, pt) == IF k = 0 THEN Inf ELSE AddP(pt, MulP(k - 1, pt))
G == <<2, 7>>
L == Cardinality(E)
ASSUME L = 13 /\ G \in E
ASSUME \A p1, p2 \in E : AddP(p1, p2) \in E /\ AddP(p1, p2) = AddP(p2, p1)
ASSUME \A p1, p2, p3 \in E : AddP(AddP(p1, p2), p3) = AddP(p1, AddP(p2, p3))
ASSUME \A p1 \in E : AddP(p1, NegP(p1)) = Inf /\ AddP(p1, Inf) = p1
ASSUME \A a, b \in 0..(2*L) : (MulP(a, G) = MulP(b, G)) <=> ((a % L) = (b % L))          \* same element iff same form
ASSUME \A pt \in E : \E k \in 0..(L-1) : MulP(k, G) = pt                                 \* G generates: every element has a form
ASSUME \A m, n, k \in 0..L : AddP(MulP(m, G), MulP(n, MulP(k, G))) = MulP((m + n*k) % L, G)   \* combined multiplication
====
