---- MODULE Trace_GroupMachine ----
EXTENDS Integers, Sequences, TLC, Json
VARIABLES form, l
INSTANCE GroupMachine
Tr == TLCGet(3)
TInit == l = 1 /\ form = <<>>
TNext == l <= Len(Tr) /\ Step(Tr[l]) /\ l' = l + 1
TSpec == TInit /\ [][TNext]_<<form, l>>
ASSUME TLCSet(1, 0) /\ TLCSet(3, ndJsonDeserialize("trace.ndjson"))
HighWater == TLCSet(1, IF l > TLCGet(1) THEN l ELSE TLCGet(1))
Verdict == JsonSerialize("verdict.json", [consumed |-> TLCGet(1) - 1, total |-> Len(Tr)])
====
