---- MODULE MLKEMJob ----
(* C03, anchor for every parameter set.  FIPS 203 ML-KEM.KeyGen_internal(d, z) followed by Encaps_internal(ek, m) - and the round-3 Kyber
   variant of both - as an executable behaviour for k in {2, 3, 4}: SHA3 / SHAKE as a sponge job machine (three actions per Keccak round,
   16-bit limbs) over a program of hash jobs that depends on k, sampling, NTT layer by layer, base multiplication, compression, encoding.
   Every value is derived from the standards' text.  job.json: [op, flavor, k, eta1, du, dv, d, z, m, ek, dk, ct, ss] - parameters, seeds and what
   the library returned; the verdict says which of ek / dk / ct / ss are the standard's values.
   op = "decaps": ML-KEM.Decaps_internal(dk, ct) resp. Kyber decapsulation - K-PKE.Decrypt, G, re-encryption with the SAME encryption phase,
   comparison with the received ciphertext and the implicit-rejection key J(z || c) resp. KDF(z || H(c)); the verdict's ss says whether the
   library's shared secret is the standard's, `same` whether the ciphertext re-encrypted to itself. *)
EXTENDS Integers, Sequences, TLC, Bitwise, Json
JobIn == JsonDeserialize("job.json")
\* lane = <<l1,l2,l3,l4>> 16-bit limbs, l1 least significant
M16 == 65535
Pow2(n) == 2^n
XorL(a, b) == <<a[1] ^^ b[1], a[2] ^^ b[2], a[3] ^^ b[3], a[4] ^^ b[4]>>
NotL(a) == <<M16 - a[1], M16 - a[2], M16 - a[3], M16 - a[4]>>
AndL(a, b) == <<a[1] & b[1], a[2] & b[2], a[3] & b[3], a[4] & b[4]>>
\* rotate left by n (0..63)
RotL(a, n) == LET w == n \div 16
                  b == n % 16
                  Get(i) == a[((((i - 1 - w) % 4) + 4) % 4) + 1]      \* limb i takes from limb i-w
                  Prev(i) == a[((((i - 2 - w) % 4) + 4) % 4) + 1]
                  Limb(i) == IF b = 0 THEN Get(i)
                             ELSE ((Get(i) % Pow2(16 - b)) * Pow2(b)) + shiftR(Prev(i), 16 - b)
              IN <<Limb(1), Limb(2), Limb(3), Limb(4)>>
RhoOff == <<0, 1, 62, 28, 27, 36, 44, 6, 55, 20, 3, 10, 43, 25, 39, 41, 45, 15, 21, 8, 18, 2, 61, 56, 14>>  \* index x+5y+1
RC == << <<1,0,0,0>>, <<32898,0,0,0>>, <<32906,0,0,32768>>, <<32768,32768,0,32768>>,
         <<32907,0,0,0>>, <<1,32768,0,0>>, <<32897,32768,0,32768>>, <<32777,0,0,32768>>,
         <<138,0,0,0>>, <<136,0,0,0>>, <<32777,32768,0,0>>, <<10,32768,0,0>>,
         <<32907,32768,0,0>>, <<139,0,0,32768>>, <<32905,0,0,32768>>, <<32771,0,0,32768>>,
         <<32770,0,0,32768>>, <<128,0,0,32768>>, <<32778,0,0,0>>, <<10,32768,0,32768>>,
         <<32897,32768,0,32768>>, <<32896,0,0,32768>>, <<1,32768,0,0>>, <<32776,32768,0,32768>> >>
Idx(x, y) == x + 5*y   \* 0-based index into 0..24


\* ---------- parameters come with the job ----------
K == JobIn.k
Eta1 == JobIn.eta1
Du == JobIn.du
Dv == JobIn.dv
MLKEMFlavor == JobIn.flavor = "mlkem"
Q == 3329
Decaps == JobIn.op = "decaps"
Dseed == JobIn.d
Zseed == JobIn.z
Mrand == JobIn.m
RECURSIVE PowMod(_,_,_)
PowMod(b, e, n) == IF e = 0 THEN 1 ELSE LET h == PowMod(b, e \div 2, n) IN IF (e % 2) = 0 THEN (h*h) % n ELSE (((h*h) % n) * b) % n
BitRev7(i) == ((i % 2) * 64) + (((i \div 2) % 2) * 32) + (((i \div 4) % 2) * 16) + (((i \div 8) % 2) * 8)
              + (((i \div 16) % 2) * 4) + (((i \div 32) % 2) * 2) + ((i \div 64) % 2)
Zeta == [i \in 0..127 |-> PowMod(17, BitRev7(i), Q)]
Gamma == [i \in 0..127 |-> PowMod(17, 2 * BitRev7(i) + 1, Q)]
\* ---------- byte-level helpers ----------
RECURSIVE Cat(_,_)
Cat(a, b) == a \o b
SampleNTTFrom(Bs) ==                      \* FIPS 203 Alg 7 on a pre-squeezed buffer
  LET RECURSIVE Go(_,_)
      Go(i, acc) == IF Len(acc) >= 256 \/ 3*i + 3 > Len(Bs) THEN acc
                    ELSE LET d1 == Bs[3*i+1] + 256 * (Bs[3*i+2] % 16)
                             d2 == (Bs[3*i+2] \div 16) + 16 * Bs[3*i+3]
                             a1 == IF d1 < Q THEN Append(acc, d1) ELSE acc
                             a2 == IF d2 < Q /\ Len(a1) < 256 THEN Append(a1, d2) ELSE a1
                         IN Go(i + 1, a2)
  IN Go(0, <<>>)
Bit(Bs, n) == (Bs[(n \div 8) + 1] \div (2^(n % 8))) % 2
CBD3(Bs) == [i \in 1..256 |-> LET b == 6 * (i - 1)
                                  x == Bit(Bs, b) + Bit(Bs, b+1) + Bit(Bs, b+2)
                                  y == Bit(Bs, b+3) + Bit(Bs, b+4) + Bit(Bs, b+5)
                              IN (x - y + Q) % Q]
Enc12(f) == [n \in 1..384 |-> LET p == (n - 1) \div 3  m == (n - 1) % 3
                                  c0 == f[2*p + 1]  c1 == f[2*p + 2]
                              IN IF m = 0 THEN c0 % 256 ELSE IF m = 1 THEN (c0 \div 256) + 16 * (c1 % 16) ELSE c1 \div 16]
\* one NTT layer (lam = 0..6) on a 1-indexed 256-sequence
NTTLayer(f, lam) == LET len == 128 \div (2^lam)
                    IN [j1 \in 1..256 |-> LET j == j1 - 1
                                              g == j \div (2*len)
                                              z == Zeta[(2^lam) + g]
                                          IN IF (j % (2*len)) < len
                                             THEN (f[j1] + ((z * f[j1 + len]) % Q)) % Q
                                             ELSE (f[j1 - len] - ((z * f[j1]) % Q) + Q) % Q]
BaseMul(a, b) == [n \in 1..256 |-> LET i == (n - 1) \div 2
                                       a0 == a[2*i+1]  a1 == a[2*i+2]  b0 == b[2*i+1]  b1 == b[2*i+2]
                                   IN IF ((n - 1) % 2) = 0 THEN (((a0*b0) % Q) + ((((a1*b1) % Q) * Gamma[i]) % Q)) % Q
                                      ELSE (((a0*b1) % Q) + ((a1*b0) % Q)) % Q]
PAdd(a, b) == [n \in 1..256 |-> (a[n] + b[n]) % Q]
CBD2(Bs) == [i \in 1..256 |-> LET b == 4 * (i - 1)
                                  x == Bit(Bs, b) + Bit(Bs, b+1)
                                  y == Bit(Bs, b+2) + Bit(Bs, b+3)
                              IN (x - y + Q) % Q]
Compress(x, d) == (((2^(d+1)) * x + Q) \div (2*Q)) % (2^d)
Decompress(y, d) == (2*Q*y + (2^d)) \div (2^(d+1))
EncD(f, d) == [n \in 1..(32*d) |-> LET bitAt(k) == (f[(k \div d) + 1] \div (2^(k % d))) % 2
                                       b0 == 8 * (n - 1)
                                   IN bitAt(b0) + 2*bitAt(b0+1) + 4*bitAt(b0+2) + 8*bitAt(b0+3)
                                      + 16*bitAt(b0+4) + 32*bitAt(b0+5) + 64*bitAt(b0+6) + 128*bitAt(b0+7)]
\* inverse NTT layer lam = 0..6 (len = 2^(lam+1)); final scaling by 3303 done separately
INTTLayer(f, lam) == LET len == 2^(lam+1)
                         G == 128 \div len
                     IN [j1 \in 1..256 |-> LET j == j1 - 1
                                               g == j \div (2*len)
                                               z == Zeta[2*G - 1 - g]
                                           IN IF (j % (2*len)) < len
                                              THEN (f[j1] + f[j1 + len]) % Q
                                              ELSE (z * ((f[j1] - f[j1 - len] + Q) % Q)) % Q]
Scale(f) == [n \in 1..256 |-> (f[n] * 3303) % Q]

CBD(Bs, eta) == IF eta = 3 THEN CBD3(Bs) ELSE CBD2(Bs)
\* ---------- the program of hash jobs, as names <<kind, indices>> ----------
RECURSIVE SeqOf(_, _, _)
SeqOf(F(_), i, n) == IF i >= n THEN <<>> ELSE <<F(i)>> \o SeqOf(F, i + 1, n)
XName(t) == <<"X", t \div K, t % K>>                 \* A[i][j], i = t div K, j = t mod K
PName(r) == <<"P", r, 0>>
RName(r) == <<"R", r, 0>>
ProgDecaps == <<<<"DEC", 0, 0>>>> \o SeqOf(XName, 0, K * K) \o <<<<"G2", 0, 0>>>> \o SeqOf(RName, 0, 2 * K + 1) \o <<<<"ENC", 0, 0>>>>
              \o (IF MLKEMFlavor THEN <<<<"J", 0, 0>>>> ELSE <<<<"Hc", 0, 0>>, <<"KDF", 0, 0>>, <<"KDFz", 0, 0>>>>) \o <<<<"DONE", 0, 0>>>>
ProgEncaps == <<<<"G", 0, 0>>>> \o SeqOf(XName, 0, K * K) \o SeqOf(PName, 0, 2 * K) \o <<<<"ARITH", 0, 0>>, <<"H", 0, 0>>>>
        \o (IF MLKEMFlavor THEN <<>> ELSE <<<<"Hm", 0, 0>>>>) \o <<<<"G2", 0, 0>>>> \o SeqOf(RName, 0, 2 * K + 1) \o <<<<"ENC", 0, 0>>>>
        \o (IF MLKEMFlavor THEN <<>> ELSE <<<<"Hc", 0, 0>>, <<"KDF", 0, 0>>>>) \o <<<<"DONE", 0, 0>>>>
Prog == IF Decaps THEN ProgDecaps ELSE ProgEncaps
DkIn == JobIn.dk
EkOfDk == SubSeq(DkIn, 384 * K + 1, 768 * K + 32)
VARIABLES A, r, ph, blk, outacc, pc, res, polys, lam
vars == <<A, r, ph, blk, outacc, pc, res, polys, lam>>
Cur == Prog[pc]
R(name) == res[name]
Mseed == IF Decaps THEN R(<<"mprime", 0, 0>>) ELSE IF MLKEMFlavor THEN Mrand ELSE R(<<"Hm", 0, 0>>)          \* round 3 hashes the random message first
Rho == IF Decaps THEN SubSeq(EkOfDk, 384 * K + 1, 384 * K + 32) ELSE SubSeq(R(<<"G", 0, 0>>), 1, 32)
ZOfDk == SubSeq(DkIn, 768 * K + 65, 768 * K + 96)
CtForHash == IF Decaps THEN JobIn.ct ELSE R(<<"ct", 0, 0>>)                         \* decapsulation hashes the RECEIVED ciphertext
Sigma == SubSeq(R(<<"G", 0, 0>>), 33, 64)
KBar == SubSeq(R(<<"G2", 0, 0>>), 1, 32)
RR == SubSeq(R(<<"G2", 0, 0>>), 33, 64)
SharedSecret == IF MLKEMFlavor THEN KBar ELSE R(<<"KDF", 0, 0>>)
Job == LET n == Cur[1] IN
  CASE n = "G" -> [rate |-> 72, ds |-> 6, in |-> IF MLKEMFlavor THEN Dseed \o <<K>> ELSE Dseed, outlen |-> 64]
    [] n = "X" -> [rate |-> 168, ds |-> 31, in |-> Rho \o <<Cur[3], Cur[2]>>, outlen |-> 840]      \* XOF(rho || j || i)
    [] n = "P" -> [rate |-> 136, ds |-> 31, in |-> Sigma \o <<Cur[2]>>, outlen |-> 64 * Eta1]
    [] n = "H" -> [rate |-> 136, ds |-> 6, in |-> R(<<"ek", 0, 0>>), outlen |-> 32]
    [] n = "Hm" -> [rate |-> 136, ds |-> 6, in |-> Mrand, outlen |-> 32]
    [] n = "G2" -> [rate |-> 72, ds |-> 6, in |-> Mseed \o R(<<"H", 0, 0>>), outlen |-> 64]
    [] n = "R" -> [rate |-> 136, ds |-> 31, in |-> RR \o <<Cur[2]>>, outlen |-> IF Cur[2] < K THEN 64 * Eta1 ELSE 128]
    [] n = "Hc" -> [rate |-> 136, ds |-> 6, in |-> CtForHash, outlen |-> 32]
    [] n = "J" -> [rate |-> 136, ds |-> 31, in |-> ZOfDk \o JobIn.ct, outlen |-> 32]
    [] n = "KDFz" -> [rate |-> 136, ds |-> 31, in |-> ZOfDk \o R(<<"Hc", 0, 0>>), outlen |-> 32]
    [] n = "KDF" -> [rate |-> 136, ds |-> 31, in |-> KBar \o R(<<"Hc", 0, 0>>), outlen |-> 32]
IsHashJob == Cur[1] \notin {"ARITH", "ENC", "DEC", "DONE"}
PadLen(J) == ((Len(J.in) \div J.rate) + 1) * J.rate
PadByte(J, i) == LET b == IF i <= Len(J.in) THEN J.in[i] ELSE IF i = Len(J.in) + 1 THEN J.ds ELSE 0
                 IN IF i = PadLen(J) THEN (b ^^ 128) ELSE b
NBlocks(J) == PadLen(J) \div J.rate
BlockLane(J, k, j) == [t \in 1..4 |-> PadByte(J, k*J.rate + 8*j + 2*(t-1) + 1) + 256 * PadByte(J, k*J.rate + 8*j + 2*(t-1) + 2)]
Zero == <<0,0,0,0>>
StateBytes(n) == [i \in 1..n |-> LET j == (i-1) \div 8  t == ((i-1) % 8) \div 2
                                 IN IF ((i-1) % 2) = 0 THEN A[j][t+1] % 256 ELSE A[j][t+1] \div 256]
Absorb == /\ IsHashJob /\ ph = "absorb"
          /\ LET J == Job IN A' = [i \in 0..24 |-> IF i < (J.rate \div 8) THEN XorL(A[i], LET bl == BlockLane(J, blk, i) IN <<bl[1],bl[2],bl[3],bl[4]>>) ELSE A[i]]
          /\ ph' = "theta" /\ r' = 1 /\ UNCHANGED <<blk, outacc, pc, res, polys, lam>>
Theta == /\ ph = "theta"
         /\ LET C == [x \in 0..4 |-> XorL(XorL(XorL(XorL(A[Idx(x,0)], A[Idx(x,1)]), A[Idx(x,2)]), A[Idx(x,3)]), A[Idx(x,4)])]
                D == [x \in 0..4 |-> XorL(C[(x+4)%5], RotL(C[(x+1)%5], 1))]
            IN A' = [i \in 0..24 |-> XorL(A[i], D[i % 5])]
         /\ ph' = "rhopi" /\ UNCHANGED <<r, blk, outacc, pc, res, polys, lam>>
RhoPi == /\ ph = "rhopi"
         /\ A' = [j \in 0..24 |-> LET X == j % 5  Y == j \div 5
                                      y == X
                                      x == CHOOSE xx \in 0..4 : ((2*xx + 3*y) % 5) = Y
                                  IN RotL(A[Idx(x,y)], RhoOff[Idx(x,y)+1])]
         /\ ph' = "chi" /\ UNCHANGED <<r, blk, outacc, pc, res, polys, lam>>
Chi == /\ ph = "chi"
       /\ A' = [j \in 0..24 |-> LET x == j % 5  y == j \div 5
                                    v == XorL(A[j], AndL(NotL(A[Idx((x+1)%5, y)]), A[Idx((x+2)%5, y)]))
                                IN IF j = 0 THEN XorL(v, RC[r]) ELSE v]
       /\ IF r = 24 THEN /\ r' = 1 /\ blk' = blk + 1
                         /\ ph' = (IF blk + 1 < NBlocks(Job) THEN "absorb" ELSE "squeeze")
                    ELSE r' = r + 1 /\ blk' = blk /\ ph' = "theta"
       /\ UNCHANGED <<outacc, pc, res, polys, lam>>
Squeeze == /\ ph = "squeeze"
           /\ LET J == Job
                  acc == outacc \o StateBytes(J.rate)
              IN IF Len(acc) >= J.outlen
                 THEN /\ res' = (Cur :> SubSeq(acc, 1, J.outlen)) @@ res
                      /\ pc' = pc + 1 /\ outacc' = <<>> /\ blk' = 0 /\ ph' = "absorb" /\ r' = 1
                      /\ A' = [i \in 0..24 |-> Zero] /\ UNCHANGED <<polys, lam>>
                 ELSE /\ outacc' = acc /\ ph' = "theta" /\ r' = 1 /\ blk' = blk   \* blk >= NBlocks keeps us squeezing
                      /\ UNCHANGED <<A, pc, res, polys, lam>>
\* ---------- key generation arithmetic: polys = s_0..s_{K-1}, e_0..e_{K-1} ----------
AHat(i, j) == SampleNTTFrom(R(<<"X", i, j>>))
RECURSIVE DotRow(_, _, _, _)
\* sum over j of M(j) o v[j]
DotRow(M(_), v, j, acc) == IF j >= K THEN acc ELSE DotRow(M, v, j + 1, PAdd(acc, BaseMul(M(j), v[j + 1])))
ZeroPoly == [n \in 1..256 |-> 0]
ArithStart == /\ Cur[1] = "ARITH" /\ lam = -1
              /\ polys' = [n \in 1..(2 * K) |-> CBD(R(<<"P", n - 1, 0>>), Eta1)]
              /\ lam' = 0 /\ UNCHANGED <<A, r, ph, blk, outacc, pc, res>>
ArithLayer == /\ Cur[1] = "ARITH" /\ lam \in 0..6
              /\ polys' = [n \in 1..(2 * K) |-> NTTLayer(polys[n], lam)]
              /\ lam' = lam + 1 /\ UNCHANGED <<A, r, ph, blk, outacc, pc, res>>
RECURSIVE CatPolys(_, _, _)
CatPolys(F(_), i, n) == IF i >= n THEN <<>> ELSE F(i) \o CatPolys(F, i + 1, n)
ArithFinish == /\ Cur[1] = "ARITH" /\ lam = 7
               /\ LET T(i) == LET Row(j) == AHat(i, j) IN PAdd(DotRow(Row, polys, 0, ZeroPoly), polys[K + i + 1])
                      TE(i) == Enc12(T(i))
                      SE(i) == Enc12(polys[i + 1])
                      ek == CatPolys(TE, 0, K) \o Rho
                      dkpke == CatPolys(SE, 0, K)
                  IN res' = (<<"ek", 0, 0>> :> ek) @@ (<<"dkpke", 0, 0>> :> dkpke) @@ res
               /\ pc' = pc + 1 /\ lam' = 8 /\ UNCHANGED <<A, r, ph, blk, outacc, polys>>
\* ---------- K-PKE.Encrypt: polys = y_0..y_{K-1} through the NTT (lam 10..17), products through the inverse NTT (lam 20..27)
MsgPoly == [i \in 1..256 |-> Decompress(Bit(Mseed, i - 1), 1)]
EncStart == /\ Cur[1] = "ENC" /\ lam = 8
            /\ polys' = [n \in 1..K |-> CBD(R(<<"R", n - 1, 0>>), Eta1)]
            /\ lam' = 10 /\ UNCHANGED <<A, r, ph, blk, outacc, pc, res>>
EncNTT == /\ Cur[1] = "ENC" /\ lam \in 10..16
          /\ polys' = [n \in 1..K |-> NTTLayer(polys[n], lam - 10)]
          /\ lam' = lam + 1 /\ UNCHANGED <<A, r, ph, blk, outacc, pc, res>>
That(i) == LET ek == R(<<"ek", 0, 0>>) IN
           [n \in 1..256 |-> LET p == (n - 1) \div 2   o == 384 * i + 3 * p
                              IN IF ((n - 1) % 2) = 0 THEN ek[o + 1] + 256 * (ek[o + 2] % 16)
                                                      ELSE (ek[o + 2] \div 16) + 16 * ek[o + 3]]
EncMul == /\ Cur[1] = "ENC" /\ lam = 17
          /\ polys' = [n \in 1..(K + 1) |-> IF n <= K THEN LET Col(j) == AHat(j, n - 1) IN DotRow(Col, polys, 0, ZeroPoly)      \* u = A^T y
                                            ELSE DotRow(That, polys, 0, ZeroPoly)]                                       \* v = t^T y
          /\ lam' = 20 /\ UNCHANGED <<A, r, ph, blk, outacc, pc, res>>
EncINTT == /\ Cur[1] = "ENC" /\ lam \in 20..26
           /\ polys' = [n \in 1..(K + 1) |-> INTTLayer(polys[n], lam - 20)]
           /\ lam' = lam + 1 /\ UNCHANGED <<A, r, ph, blk, outacc, pc, res>>
EncFinish == /\ Cur[1] = "ENC" /\ lam = 27
             /\ LET U(i) == PAdd(Scale(polys[i + 1]), CBD2(R(<<"R", K + i, 0>>)))
                    UE(i) == LET u == U(i) IN EncD([n \in 1..256 |-> Compress(u[n], Du)], Du)
                    v == PAdd(PAdd(Scale(polys[K + 1]), CBD2(R(<<"R", 2 * K, 0>>))), MsgPoly)
                    c2 == EncD([n \in 1..256 |-> Compress(v[n], Dv)], Dv)
                IN res' = (<<"ct", 0, 0>> :> (CatPolys(UE, 0, K) \o c2)) @@ res
             /\ pc' = pc + 1 /\ lam' = 30 /\ UNCHANGED <<A, r, ph, blk, outacc, polys>>
\* ---------- K-PKE.Decrypt (decapsulation): u through the NTT (lam 40..46), s^T u through the inverse NTT (lam 50..56)
DecodeD(bs, off, d) == [n \in 1..256 |-> LET RECURSIVE Val(_) Val(b) == IF b = d THEN 0 ELSE Bit(bs, 8 * off + (n - 1) * d + b) * (2^b) + Val(b + 1) IN Val(0)]
SHat(i) == [n \in 1..256 |-> LET p == (n - 1) \div 2   o == 384 * i + 3 * p
                             IN (IF ((n - 1) % 2) = 0 THEN DkIn[o + 1] + 256 * (DkIn[o + 2] % 16) ELSE (DkIn[o + 2] \div 16) + 16 * DkIn[o + 3]) % Q]
PSub(a, b) == [n \in 1..256 |-> (a[n] - b[n] + Q) % Q]
DecStart == /\ Cur[1] = "DEC" /\ lam = -1
            /\ polys' = [i \in 1..K |-> LET c == DecodeD(JobIn.ct, 32 * Du * (i - 1), Du) IN [n \in 1..256 |-> Decompress(c[n], Du)]]
            /\ lam' = 40 /\ UNCHANGED <<A, r, ph, blk, outacc, pc, res>>
DecNTT == /\ Cur[1] = "DEC" /\ lam \in 40..46
          /\ polys' = [n \in 1..K |-> NTTLayer(polys[n], lam - 40)]
          /\ lam' = lam + 1 /\ UNCHANGED <<A, r, ph, blk, outacc, pc, res>>
DecMul == /\ Cur[1] = "DEC" /\ lam = 47
          /\ polys' = <<DotRow(SHat, polys, 0, ZeroPoly)>>
          /\ lam' = 50 /\ UNCHANGED <<A, r, ph, blk, outacc, pc, res>>
DecINTT == /\ Cur[1] = "DEC" /\ lam \in 50..56
           /\ polys' = <<INTTLayer(polys[1], lam - 50)>>
           /\ lam' = lam + 1 /\ UNCHANGED <<A, r, ph, blk, outacc, pc, res>>
DecFinish == /\ Cur[1] = "DEC" /\ lam = 57
             /\ LET c2 == DecodeD(JobIn.ct, 32 * Du * K, Dv)
                    v == [n \in 1..256 |-> Decompress(c2[n], Dv)]
                    w == PSub(v, Scale(polys[1]))
                    mp == EncD([n \in 1..256 |-> Compress(w[n], 1)], 1)
                IN res' = (<<"mprime", 0, 0>> :> mp) @@ (<<"ek", 0, 0>> :> EkOfDk) @@ (<<"H", 0, 0>> :> SubSeq(DkIn, 768 * K + 33, 768 * K + 64)) @@ res
             /\ pc' = pc + 1 /\ lam' = 8 /\ UNCHANGED <<A, r, ph, blk, outacc, polys>>
Init == /\ A = [i \in 0..24 |-> Zero] /\ r = 1 /\ ph = "absorb" /\ blk = 0 /\ outacc = <<>>
        /\ pc = 1 /\ res = <<>> /\ polys = <<>> /\ lam = -1
Next == Absorb \/ Theta \/ RhoPi \/ Chi \/ Squeeze \/ ArithStart \/ ArithLayer \/ ArithFinish \/ EncStart \/ EncNTT \/ EncMul \/ EncINTT \/ EncFinish \/ DecStart \/ DecNTT \/ DecMul \/ DecINTT \/ DecFinish
Spec == Init /\ [][Next]_vars
DkBytes == R(<<"dkpke", 0, 0>>) \o R(<<"ek", 0, 0>>) \o R(<<"H", 0, 0>>) \o Zseed
Same == R(<<"ct", 0, 0>>) = JobIn.ct                                                 \* the re-encryption equals the received ciphertext
DecapsSecret == IF Same THEN SharedSecret ELSE IF MLKEMFlavor THEN R(<<"J", 0, 0>>) ELSE R(<<"KDFz", 0, 0>>)
ASSUME TLCSet(1, [done |-> FALSE, ek |-> FALSE, dk |-> FALSE, ct |-> FALSE, ss |-> FALSE, same |-> FALSE, sampled |-> FALSE])
Check == (Cur[1] = "DONE") => TLCSet(1, [done |-> TRUE, ek |-> Decaps \/ R(<<"ek", 0, 0>>) = JobIn.ek, dk |-> Decaps \/ DkBytes = JobIn.dk,
                                          ct |-> Decaps \/ R(<<"ct", 0, 0>>) = JobIn.ct, same |-> Same,
                                          ss |-> (IF Decaps THEN DecapsSecret ELSE SharedSecret) = JobIn.ss,
                                          sampled |-> \A t \in 0..(K * K - 1) : Len(AHat(t \div K, t % K)) = 256])      \* 840 squeezed bytes sufficed
Verdict == JsonSerialize("verdict.json", TLCGet(1))
====
