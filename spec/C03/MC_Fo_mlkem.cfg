CONSTANTS Msgs = {0, 1, 2}  CtIds = {10, 11, 12}  Flavor = "mlkem"  RejectFrom = "received"
