---- MODULE Trace_Kem ----
(* keygen / encaps : bytes equal FIPS 203 / round-3 Kyber (r.ref: the transcription of the standard)
   decaps          : the returned key is FoTransform!Expected - the accept key when c re-encrypts to itself, otherwise the rejection key
                     made from the RECEIVED ciphertext - and in particular not the value made from the re-encrypted one
   parse-ek        : ML-KEM encapsulation keys are accepted exactly when every 12-bit coefficient TLC decodes from the bytes is below q,
                     and an accepted key re-encodes to the same bytes
   parse-dk        : ML-KEM decapsulation keys are refused when the embedded hash is not H(ek) (r.hash_ok), accepted when it is and the embedded
                     ek is canonical (r.ek_canon), and an accepted key always re-encodes to the same bytes (a key with a matching hash over a
                     non-canonical ek may be refused or kept byte for byte, never normalised)
   helper          : KyberHelpers!OkBlock *)
EXTENDS Integers, Sequences, TLC, Json
VARIABLES l, bad
KH == INSTANCE KyberHelpers
FO == INSTANCE FoTransform WITH Msgs <- {}, CtIds <- {}, Flavor <- "mlkem", RejectFrom <- "received"
Q == 3329
Coef(b, i) == LET o == 3 * ((i - 1) \div 2) IN IF ((i - 1) % 2) = 0 THEN b[o + 1] + 256 * (b[o + 2] % 16) ELSE (b[o + 2] \div 16) + 16 * b[o + 3]
Reduced(b, k) == \A i \in 1..(256 * k) : Coef(b, i) < Q
OkLine(r) ==
  CASE r.ev = "keygen" -> r.panics = 0 /\ r.ek = r.ref_ek /\ r.dk = r.ref_dk
    [] r.ev = "encaps" -> r.panics = 0 /\ r.ct = r.ref_ct /\ r.ss = r.ref_ss
    [] r.ev = "decaps" -> r.panics = 0 /\ r.k = FO!Expected(r) /\ (r.k_reject # r.k_reject_cprime => (r.same \/ r.k # r.k_reject_cprime))
    [] r.ev = "parse-ek" -> r.panics = 0 /\ (r.accepted <=> Reduced(r.bytes, r.kk)) /\ (r.accepted => r.reencodes)
    [] r.ev = "parse-dk" -> r.panics = 0 /\ (r.accepted => r.hash_ok /\ r.reencodes) /\ (r.hash_ok /\ r.ek_canon => r.accepted)
    [] r.ev = "helper" -> KH!OkBlock(r)
    [] OTHER -> FALSE
INSTANCE LinesTrace WITH Ok <- OkLine
ASSUME TLCSet(1, 0) /\ TLCSet(2, {}) /\ TLCSet(3, ndJsonDeserialize("trace.ndjson"))
====
