---- MODULE FoTransform ----
(* C03, KEM level.  The Fujisaki-Okamoto layer of ML-KEM (FIPS 203 Algorithms 17, 18) and of round-3 Kyber over an ABSTRACT public
   key encryption scheme: Enc and Dec are uninterpreted (tuples), hashes are injective constructors.  Checked for all messages,
   randomness values, keys and ciphertexts of a small universe:
     Correct        Decaps(dk, Encaps(ek, m).c) = Encaps(ek, m).K
     RejectBinds    for a ciphertext that is not the re-encryption of its decryption the result is the rejection key computed from
                    the RECEIVED ciphertext (J(z || c) resp. KDF(z || H(c))): two different such ciphertexts give different keys
   The same definitions judge the recorded decapsulations (Trace_Kem.tla): which of the candidate hash values, all computed by the
   transcription, the library must have returned. *)
EXTENDS Integers, FiniteSets, TLC
CONSTANTS Msgs, CtIds, Flavor, RejectFrom      \* RejectFrom: "received" (the standard) | "reencrypted" (a seeded deviation TLC must catch)
\*                 \* Flavor: "mlkem" | "kyber"
Cts == {<<"junk", i>> : i \in CtIds}            \* ciphertext strings that nobody produced by encrypting
G(m, h) == <<"G", m, h>>                       \* G(m || H(ek)) = (K, r)
Kof(g) == <<"K", g>>
Rof(g) == <<"r", g>>
Hc(c) == <<"H", c>>
KDF(a, b) == <<"KDF", a, b>>
J(z, c) == <<"J", z, c>>
\* an abstract PKE: encryption under randomness r is injective in (m, r); decryption inverts honest ciphertexts and maps every other
\* string of Cts to SOME message (chosen by the constant function DecOf)
Enc(m, r) == <<"ct", m, r>>
Dec(c, decof) == IF c[1] = "junk" THEN decof[c] ELSE c[2]
Encaps(m) == LET g == G(m, "h") c == Enc(m, Rof(g))
             IN [c |-> c, K |-> IF Flavor = "mlkem" THEN Kof(g) ELSE KDF(Kof(g), Hc(c))]
Decaps(c, decof) == LET m2 == Dec(c, decof)
                        g == G(m2, "h")
                        c2 == Enc(m2, Rof(g))
                    IN IF c = c2 THEN (IF Flavor = "mlkem" THEN Kof(g) ELSE KDF(Kof(g), Hc(c)))
                       ELSE LET cc == IF RejectFrom = "received" THEN c ELSE c2
                            IN (IF Flavor = "mlkem" THEN J("z", cc) ELSE KDF("z", Hc(cc)))
Correct == \A m \in Msgs, decof \in [Cts -> Msgs] : Decaps(Encaps(m).c, decof) = Encaps(m).K
RejectBinds == \A c1, c2 \in Cts, decof \in [Cts -> Msgs] : c1 # c2 => Decaps(c1, decof) # Decaps(c2, decof)
ASSUME Correct /\ (RejectBinds \/ Print("RejectBinds fails", FALSE))
\* ---- the decision used on recorded decapsulations: r.same says whether c is the re-encryption of its decryption
Expected(r) == IF r.same THEN r.k_accept ELSE r.k_reject
====
