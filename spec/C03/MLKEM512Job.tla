---- MODULE MLKEM512Job ----
(* C03, anchor.  FIPS 203 ML-KEM-512 KeyGen_internal(d, z) followed by Encaps_internal(ek, m) as an executable behaviour: SHA3 / SHAKE
   as a sponge job machine (three actions per Keccak round, 16-bit limbs), sampling, NTT layer by layer, base multiplication,
   compression and encoding - every value derived from the standard's text, nothing from the implementation.  job.json holds
   [d, z, m, ek, ct, ss]: the seeds and what the library returned; the verdict says which of ek / ct / ss are the standard's values. *)
EXTENDS Integers, Sequences, TLC, Bitwise, Json
JobIn == JsonDeserialize("job.json")
\* lane = <<l1,l2,l3,l4>> 16-bit limbs, l1 least significant
M16 == 65535
Pow2(n) == 2^n
XorL(a, b) == <<a[1] ^^ b[1], a[2] ^^ b[2], a[3] ^^ b[3], a[4] ^^ b[4]>>
NotL(a) == <<M16 - a[1], M16 - a[2], M16 - a[3], M16 - a[4]>>
AndL(a, b) == <<a[1] & b[1], a[2] & b[2], a[3] & b[3], a[4] & b[4]>>
\* rotate left by n (0..63)
RotL(a, n) == LET w == n \div 16
                  b == n % 16
                  Get(i) == a[((((i - 1 - w) % 4) + 4) % 4) + 1]      \* limb i takes from limb i-w
                  Prev(i) == a[((((i - 2 - w) % 4) + 4) % 4) + 1]
                  Limb(i) == IF b = 0 THEN Get(i)
                             ELSE ((Get(i) % Pow2(16 - b)) * Pow2(b)) + shiftR(Prev(i), 16 - b)
              IN <<Limb(1), Limb(2), Limb(3), Limb(4)>>
RhoOff == <<0, 1, 62, 28, 27, 36, 44, 6, 55, 20, 3, 10, 43, 25, 39, 41, 45, 15, 21, 8, 18, 2, 61, 56, 14>>  \* index x+5y+1
RC == << <<1,0,0,0>>, <<32898,0,0,0>>, <<32906,0,0,32768>>, <<32768,32768,0,32768>>,
         <<32907,0,0,0>>, <<1,32768,0,0>>, <<32897,32768,0,32768>>, <<32777,0,0,32768>>,
         <<138,0,0,0>>, <<136,0,0,0>>, <<32777,32768,0,0>>, <<10,32768,0,0>>,
         <<32907,32768,0,0>>, <<139,0,0,32768>>, <<32905,0,0,32768>>, <<32771,0,0,32768>>,
         <<32770,0,0,32768>>, <<128,0,0,32768>>, <<32778,0,0,0>>, <<10,32768,0,32768>>,
         <<32897,32768,0,32768>>, <<32896,0,0,32768>>, <<1,32768,0,0>>, <<32776,32768,0,32768>> >>
Idx(x, y) == x + 5*y   \* 0-based index into 0..24

\* ---------- parameters (ML-KEM-512) ----------
K == 2
Eta1 == 3
Q == 3329
Dseed == JobIn.d
Zseed == JobIn.z
Mseed == JobIn.m
RECURSIVE PowMod(_,_,_)
PowMod(b, e, n) == IF e = 0 THEN 1 ELSE LET h == PowMod(b, e \div 2, n) IN IF (e % 2) = 0 THEN (h*h) % n ELSE (((h*h) % n) * b) % n
BitRev7(i) == ((i % 2) * 64) + (((i \div 2) % 2) * 32) + (((i \div 4) % 2) * 16) + (((i \div 8) % 2) * 8)
              + (((i \div 16) % 2) * 4) + (((i \div 32) % 2) * 2) + ((i \div 64) % 2)
Zeta == [i \in 0..127 |-> PowMod(17, BitRev7(i), Q)]
Gamma == [i \in 0..127 |-> PowMod(17, 2 * BitRev7(i) + 1, Q)]
\* ---------- byte-level helpers ----------
RECURSIVE Cat(_,_)
Cat(a, b) == a \o b
SampleNTTFrom(Bs) ==                      \* FIPS 203 Alg 7 on a pre-squeezed buffer
  LET RECURSIVE Go(_,_)
      Go(i, acc) == IF Len(acc) >= 256 \/ 3*i + 3 > Len(Bs) THEN acc
                    ELSE LET d1 == Bs[3*i+1] + 256 * (Bs[3*i+2] % 16)
                             d2 == (Bs[3*i+2] \div 16) + 16 * Bs[3*i+3]
                             a1 == IF d1 < Q THEN Append(acc, d1) ELSE acc
                             a2 == IF d2 < Q /\ Len(a1) < 256 THEN Append(a1, d2) ELSE a1
                         IN Go(i + 1, a2)
  IN Go(0, <<>>)
Bit(Bs, n) == (Bs[(n \div 8) + 1] \div (2^(n % 8))) % 2
CBD3(Bs) == [i \in 1..256 |-> LET b == 6 * (i - 1)
                                  x == Bit(Bs, b) + Bit(Bs, b+1) + Bit(Bs, b+2)
                                  y == Bit(Bs, b+3) + Bit(Bs, b+4) + Bit(Bs, b+5)
                              IN (x - y + Q) % Q]
Enc12(f) == [n \in 1..384 |-> LET p == (n - 1) \div 3  m == (n - 1) % 3
                                  c0 == f[2*p + 1]  c1 == f[2*p + 2]
                              IN IF m = 0 THEN c0 % 256 ELSE IF m = 1 THEN (c0 \div 256) + 16 * (c1 % 16) ELSE c1 \div 16]
\* one NTT layer (lam = 0..6) on a 1-indexed 256-sequence
NTTLayer(f, lam) == LET len == 128 \div (2^lam)
                    IN [j1 \in 1..256 |-> LET j == j1 - 1
                                              g == j \div (2*len)
                                              z == Zeta[(2^lam) + g]
                                          IN IF (j % (2*len)) < len
                                             THEN (f[j1] + ((z * f[j1 + len]) % Q)) % Q
                                             ELSE (f[j1 - len] - ((z * f[j1]) % Q) + Q) % Q]
BaseMul(a, b) == [n \in 1..256 |-> LET i == (n - 1) \div 2
                                       a0 == a[2*i+1]  a1 == a[2*i+2]  b0 == b[2*i+1]  b1 == b[2*i+2]
                                   IN IF ((n - 1) % 2) = 0 THEN (((a0*b0) % Q) + ((((a1*b1) % Q) * Gamma[i]) % Q)) % Q
                                      ELSE (((a0*b1) % Q) + ((a1*b0) % Q)) % Q]
PAdd(a, b) == [n \in 1..256 |-> (a[n] + b[n]) % Q]
CBD2(Bs) == [i \in 1..256 |-> LET b == 4 * (i - 1)
                                  x == Bit(Bs, b) + Bit(Bs, b+1)
                                  y == Bit(Bs, b+2) + Bit(Bs, b+3)
                              IN (x - y + Q) % Q]
Compress(x, d) == (((2^(d+1)) * x + Q) \div (2*Q)) % (2^d)
Decompress(y, d) == (2*Q*y + (2^d)) \div (2^(d+1))
EncD(f, d) == [n \in 1..(32*d) |-> LET bitAt(k) == (f[(k \div d) + 1] \div (2^(k % d))) % 2
                                       b0 == 8 * (n - 1)
                                   IN bitAt(b0) + 2*bitAt(b0+1) + 4*bitAt(b0+2) + 8*bitAt(b0+3)
                                      + 16*bitAt(b0+4) + 32*bitAt(b0+5) + 64*bitAt(b0+6) + 128*bitAt(b0+7)]
\* inverse NTT layer lam = 0..6 (len = 2^(lam+1)); final scaling by 3303 done separately
INTTLayer(f, lam) == LET len == 2^(lam+1)
                         G == 128 \div len
                     IN [j1 \in 1..256 |-> LET j == j1 - 1
                                               g == j \div (2*len)
                                               z == Zeta[2*G - 1 - g]
                                           IN IF (j % (2*len)) < len
                                              THEN (f[j1] + f[j1 + len]) % Q
                                              ELSE (z * ((f[j1] - f[j1 - len] + Q) % Q)) % Q]
Scale(f) == [n \in 1..256 |-> (f[n] * 3303) % Q]
MsgPoly == [i \in 1..256 |-> Decompress(Bit(Mseed, i - 1), 1)]

\* ---------- sponge jobs ----------
Prog == <<"G", "X00", "X01", "X10", "X11", "P0", "P1", "P2", "P3", "ARITH", "H", "G2", "R0", "R1", "R2", "R3", "R4", "ENC", "DONE">>
VARIABLES A, r, ph, blk, outacc, pc, res, polys, lam
vars == <<A, r, ph, blk, outacc, pc, res, polys, lam>>
KK == SubSeq(res["G2"], 1, 32)
RR == SubSeq(res["G2"], 33, 64)
Rho == SubSeq(res["G"], 1, 32)
Sigma == SubSeq(res["G"], 33, 64)
Job == LET n == Prog[pc] IN
  CASE n = "G" -> [rate |-> 72, ds |-> 6, in |-> Dseed \o <<K>>, outlen |-> 64]
    [] n = "X00" -> [rate |-> 168, ds |-> 31, in |-> Rho \o <<0, 0>>, outlen |-> 672]
    [] n = "X01" -> [rate |-> 168, ds |-> 31, in |-> Rho \o <<1, 0>>, outlen |-> 672]   \* A[0][1] <- XOF(rho, j=1, i=0)
    [] n = "X10" -> [rate |-> 168, ds |-> 31, in |-> Rho \o <<0, 1>>, outlen |-> 672]
    [] n = "X11" -> [rate |-> 168, ds |-> 31, in |-> Rho \o <<1, 1>>, outlen |-> 672]
    [] n = "P0" -> [rate |-> 136, ds |-> 31, in |-> Sigma \o <<0>>, outlen |-> 192]
    [] n = "P1" -> [rate |-> 136, ds |-> 31, in |-> Sigma \o <<1>>, outlen |-> 192]
    [] n = "P2" -> [rate |-> 136, ds |-> 31, in |-> Sigma \o <<2>>, outlen |-> 192]
    [] n = "P3" -> [rate |-> 136, ds |-> 31, in |-> Sigma \o <<3>>, outlen |-> 192]
    [] n = "H" -> [rate |-> 136, ds |-> 6, in |-> res["ek"], outlen |-> 32]
    [] n = "G2" -> [rate |-> 72, ds |-> 6, in |-> Mseed \o res["H"], outlen |-> 64]
    [] n = "R0" -> [rate |-> 136, ds |-> 31, in |-> RR \o <<0>>, outlen |-> 192]
    [] n = "R1" -> [rate |-> 136, ds |-> 31, in |-> RR \o <<1>>, outlen |-> 192]
    [] n = "R2" -> [rate |-> 136, ds |-> 31, in |-> RR \o <<2>>, outlen |-> 128]
    [] n = "R3" -> [rate |-> 136, ds |-> 31, in |-> RR \o <<3>>, outlen |-> 128]
    [] n = "R4" -> [rate |-> 136, ds |-> 31, in |-> RR \o <<4>>, outlen |-> 128]
IsHashJob == Prog[pc] \notin {"ARITH", "ENC", "DONE"}
PadLen(J) == ((Len(J.in) \div J.rate) + 1) * J.rate
PadByte(J, i) == LET b == IF i <= Len(J.in) THEN J.in[i] ELSE IF i = Len(J.in) + 1 THEN J.ds ELSE 0
                 IN IF i = PadLen(J) THEN (b ^^ 128) ELSE b
NBlocks(J) == PadLen(J) \div J.rate
BlockLane(J, k, j) == [t \in 1..4 |-> PadByte(J, k*J.rate + 8*j + 2*(t-1) + 1) + 256 * PadByte(J, k*J.rate + 8*j + 2*(t-1) + 2)]
Zero == <<0,0,0,0>>
StateBytes(n) == [i \in 1..n |-> LET j == (i-1) \div 8  t == ((i-1) % 8) \div 2
                                 IN IF ((i-1) % 2) = 0 THEN A[j][t+1] % 256 ELSE A[j][t+1] \div 256]
Absorb == /\ IsHashJob /\ ph = "absorb"
          /\ LET J == Job IN A' = [i \in 0..24 |-> IF i < (J.rate \div 8) THEN XorL(A[i], LET bl == BlockLane(J, blk, i) IN <<bl[1],bl[2],bl[3],bl[4]>>) ELSE A[i]]
          /\ ph' = "theta" /\ r' = 1 /\ UNCHANGED <<blk, outacc, pc, res, polys, lam>>
Theta == /\ ph = "theta"
         /\ LET C == [x \in 0..4 |-> XorL(XorL(XorL(XorL(A[Idx(x,0)], A[Idx(x,1)]), A[Idx(x,2)]), A[Idx(x,3)]), A[Idx(x,4)])]
                D == [x \in 0..4 |-> XorL(C[(x+4)%5], RotL(C[(x+1)%5], 1))]
            IN A' = [i \in 0..24 |-> XorL(A[i], D[i % 5])]
         /\ ph' = "rhopi" /\ UNCHANGED <<r, blk, outacc, pc, res, polys, lam>>
RhoPi == /\ ph = "rhopi"
         /\ A' = [j \in 0..24 |-> LET X == j % 5  Y == j \div 5
                                      y == X
                                      x == CHOOSE xx \in 0..4 : ((2*xx + 3*y) % 5) = Y
                                  IN RotL(A[Idx(x,y)], RhoOff[Idx(x,y)+1])]
         /\ ph' = "chi" /\ UNCHANGED <<r, blk, outacc, pc, res, polys, lam>>
Chi == /\ ph = "chi"
       /\ A' = [j \in 0..24 |-> LET x == j % 5  y == j \div 5
                                    v == XorL(A[j], AndL(NotL(A[Idx((x+1)%5, y)]), A[Idx((x+2)%5, y)]))
                                IN IF j = 0 THEN XorL(v, RC[r]) ELSE v]
       /\ IF r = 24 THEN /\ r' = 1 /\ blk' = blk + 1
                         /\ ph' = (IF blk + 1 < NBlocks(Job) THEN "absorb" ELSE "squeeze")
                    ELSE r' = r + 1 /\ blk' = blk /\ ph' = "theta"
       /\ UNCHANGED <<outacc, pc, res, polys, lam>>
Squeeze == /\ ph = "squeeze"
           /\ LET J == Job
                  acc == outacc \o StateBytes(J.rate)
              IN IF Len(acc) >= J.outlen
                 THEN /\ res' = (Prog[pc] :> SubSeq(acc, 1, J.outlen)) @@ res
                      /\ pc' = pc + 1 /\ outacc' = <<>> /\ blk' = 0 /\ ph' = "absorb" /\ r' = 1
                      /\ A' = [i \in 0..24 |-> Zero] /\ UNCHANGED <<polys, lam>>
                 ELSE /\ outacc' = acc /\ ph' = "theta" /\ r' = 1 /\ blk' = blk   \* blk >= NBlocks keeps us squeezing
                      /\ UNCHANGED <<A, pc, res, polys, lam>>
\* ---------- arithmetic phase: polys = <<s0, s1, e0, e1>> ----------
ArithStart == /\ Prog[pc] = "ARITH" /\ lam = -1
              /\ polys' = <<CBD3(res["P0"]), CBD3(res["P1"]), CBD3(res["P2"]), CBD3(res["P3"])>>
              /\ lam' = 0 /\ UNCHANGED <<A, r, ph, blk, outacc, pc, res>>
ArithLayer == /\ Prog[pc] = "ARITH" /\ lam \in 0..6
              /\ polys' = [n \in 1..4 |-> NTTLayer(polys[n], lam)]
              /\ lam' = lam + 1 /\ UNCHANGED <<A, r, ph, blk, outacc, pc, res>>
ArithFinish == /\ Prog[pc] = "ARITH" /\ lam = 7
               /\ LET a00 == SampleNTTFrom(res["X00"])  a01 == SampleNTTFrom(res["X01"])
                      a10 == SampleNTTFrom(res["X10"])  a11 == SampleNTTFrom(res["X11"])
                      t0 == PAdd(PAdd(BaseMul(a00, polys[1]), BaseMul(a01, polys[2])), polys[3])
                      t1 == PAdd(PAdd(BaseMul(a10, polys[1]), BaseMul(a11, polys[2])), polys[4])
                      ek == Enc12(t0) \o Enc12(t1) \o Rho
                      dkpke == Enc12(polys[1]) \o Enc12(polys[2])
                  IN res' = ("ek" :> ek) @@ ("dkpke" :> dkpke) @@ res
               /\ pc' = pc + 1 /\ lam' = 8 /\ UNCHANGED <<A, r, ph, blk, outacc, polys>>

\* ---- K-PKE.Encrypt: polys = <<y0, y1>> through NTT (lam 10..17), then products through inverse NTT (lam 20..28)
EncStart == /\ Prog[pc] = "ENC" /\ lam = 8
            /\ polys' = <<CBD3(res["R0"]), CBD3(res["R1"])>>
            /\ lam' = 10 /\ UNCHANGED <<A, r, ph, blk, outacc, pc, res>>
EncNTT == /\ Prog[pc] = "ENC" /\ lam \in 10..16
          /\ polys' = [n \in 1..2 |-> NTTLayer(polys[n], lam - 10)]
          /\ lam' = lam + 1 /\ UNCHANGED <<A, r, ph, blk, outacc, pc, res>>
That(i) == LET ek == res["ek"] IN
           [n \in 1..256 |-> LET p == (n - 1) \div 2   o == 384 * i + 3 * p
                              IN IF ((n - 1) % 2) = 0 THEN ek[o + 1] + 256 * (ek[o + 2] % 16)
                                                      ELSE (ek[o + 2] \div 16) + 16 * ek[o + 3]]
EncMul == /\ Prog[pc] = "ENC" /\ lam = 17
          /\ LET a00 == SampleNTTFrom(res["X00"])  a01 == SampleNTTFrom(res["X01"])
                 a10 == SampleNTTFrom(res["X10"])  a11 == SampleNTTFrom(res["X11"])
                 \* u = A^T y : u0 = a00*y0 + a10*y1 ; u1 = a01*y0 + a11*y1 ; v = t0*y0 + t1*y1
             IN polys' = << PAdd(BaseMul(a00, polys[1]), BaseMul(a10, polys[2])),
                            PAdd(BaseMul(a01, polys[1]), BaseMul(a11, polys[2])),
                            PAdd(BaseMul(That(0), polys[1]), BaseMul(That(1), polys[2])) >>
          /\ lam' = 20 /\ UNCHANGED <<A, r, ph, blk, outacc, pc, res>>
EncINTT == /\ Prog[pc] = "ENC" /\ lam \in 20..26
           /\ polys' = [n \in 1..3 |-> INTTLayer(polys[n], lam - 20)]
           /\ lam' = lam + 1 /\ UNCHANGED <<A, r, ph, blk, outacc, pc, res>>
EncFinish == /\ Prog[pc] = "ENC" /\ lam = 27
             /\ LET u0 == PAdd(Scale(polys[1]), CBD2(res["R2"]))
                    u1 == PAdd(Scale(polys[2]), CBD2(res["R3"]))
                    v  == PAdd(PAdd(Scale(polys[3]), CBD2(res["R4"])), MsgPoly)
                    c1 == EncD([n \in 1..256 |-> Compress(u0[n], 10)], 10) \o EncD([n \in 1..256 |-> Compress(u1[n], 10)], 10)
                    c2 == EncD([n \in 1..256 |-> Compress(v[n], 4)], 4)
                IN res' = ("ct" :> (c1 \o c2)) @@ res
             /\ pc' = pc + 1 /\ lam' = 30 /\ UNCHANGED <<A, r, ph, blk, outacc, polys>>
Init == /\ A = [i \in 0..24 |-> Zero] /\ r = 1 /\ ph = "absorb" /\ blk = 0 /\ outacc = <<>>
        /\ pc = 1 /\ res = <<>> /\ polys = <<>> /\ lam = -1
Next == Absorb \/ Theta \/ RhoPi \/ Chi \/ Squeeze \/ ArithStart \/ ArithLayer \/ ArithFinish \/ EncStart \/ EncNTT \/ EncMul \/ EncINTT \/ EncFinish
Spec == Init /\ [][Next]_vars
ASSUME TLCSet(1, [done |-> FALSE, ek |-> FALSE, ct |-> FALSE, ss |-> FALSE])
Check == (Prog[pc] = "DONE") => TLCSet(1, [done |-> TRUE, ek |-> res["ek"] = JobIn.ek, ct |-> res["ct"] = JobIn.ct, ss |-> KK = JobIn.ss])
Verdict == JsonSerialize("verdict.json", TLCGet(1))
====
