---- MODULE KyberHelpers ----
(* C03, scalar level.  The helper functions of the Kyber / ML-KEM code as mathematical statements, evaluated by TLC over the
   values the recorder dumped - the ENTIRE domain for Barrett reduction, conversion to Montgomery form, conditional subtraction,
   Compress_d / Decompress_d (d in {1, 4, 5, 10, 11}) and 12-bit (un)packing; both ends, the neighbourhood of zero and a stride
   through the rest of its 2^16 q wide domain for Montgomery reduction.  A block is [fn, d, x0, step, ys]: ys[i] = fn(x0 + (i-1) step). *)
EXTENDS Integers, Sequences, TLC
Q == 3329
Mod(x) == ((x % Q) + Q) % Q
X(r, i) == r.x0 + (i - 1) * r.step
Compress(x, d) == (((2^(d + 1)) * x + Q) \div (2 * Q)) % (2^d)            \* round(2^d / q * x) mod 2^d   (FIPS 203 4.7)
Decompress(y, d) == (2 * Q * y + (2^d)) \div (2^(d + 1))                    \* round(q / 2^d * y)          (FIPS 203 4.8)
OkVal(r, x, y) ==
  CASE r.fn = "barrettReduce" -> y \in 0..Q /\ Mod(y) = Mod(x) /\ ((y = Q) <=> (x < 0 /\ Mod(x) = 0))
    [] r.fn = "toMont" -> y > -Q /\ y < Q /\ Mod(y) = Mod(Mod(x) * 65536)
    [] r.fn = "csubq" -> y = (IF x < Q THEN x ELSE x - Q)
    [] r.fn = "montReduce" -> y > -Q /\ y < Q /\ Mod(Mod(y) * 65536) = Mod(x)
    [] r.fn = "compress" -> y = Compress(x % Q, r.d)                                   \* the recorder wraps the last block
    [] r.fn = "decompress" -> y = Decompress(x % (2^r.d), r.d)
    [] r.fn = "unpack12" -> y = x
    [] r.fn = "pack12" -> y = x
    [] OTHER -> FALSE
OkBlock(r) == \A i \in 1..Len(r.ys) : OkVal(r, X(r, i), r.ys[i])
====
