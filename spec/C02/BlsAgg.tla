---- MODULE BlsAgg ----
(* BLS aggregation with symbolic discrete logs over Z_Q: H(m) are independent generators, so an element of the
   signature group is a vector of coefficients (one per message).  sigma_i = sk_i * H(m_i); Aggregate adds;
   VerifyAggregate(pairs, agg) holds iff the messages are pairwise distinct (the BASIC scheme of
   draft-irtf-cfrg-bls-signature-05, 3.1.1 - without that rule a rogue key x*G - pk_victim makes an aggregate over
   {m, m} verify although the victim never signed m), the sum over pairs of sk(pk) * H(m) equals agg and every pk is
   valid (non-identity, i.e. sk # 0).                                                                   *)
EXTENDS Integers, Sequences, FiniteSets, TLC
CONSTANTS Q, Msgs, NSigners
Sk == 1..(Q-1)
Vec == [Msgs -> 0..(Q-1)]
Zero == [m \in Msgs |-> 0]
AddV(a, b) == [m \in Msgs |-> (a[m] + b[m]) % Q]
SigOf(sk, m) == [x \in Msgs |-> IF x = m THEN sk % Q ELSE 0]
RECURSIVE Sum(_)
Sum(pairs) == IF pairs = <<>> THEN Zero ELSE AddV(SigOf(Head(pairs)[1], Head(pairs)[2]), Sum(Tail(pairs)))
DistinctMsgs(pairs) == \A i, j \in 1..Len(pairs) : i # j => pairs[i][2] # pairs[j][2]
VerifyAgg(pairs, agg) == DistinctMsgs(pairs) /\ (\A i \in 1..Len(pairs) : pairs[i][1] # 0) /\ Sum(pairs) = agg
VARIABLES signers, presented, verdict
Init == /\ signers \in [1..NSigners -> Sk \X Msgs] /\ presented = <<>> /\ verdict = "none"
Perms == {p \in [1..NSigners -> 1..NSigners] : \A i, j \in 1..NSigners : i # j => p[i] # p[j]}
\* presented = <<kind, (key, message) pairs, aggregate>>
Present == /\ presented = <<>>
           /\ \/ \E p \in Perms : presented' = <<"permuted", [i \in 1..NSigners |-> signers[p[i]]], Sum(signers)>>
              \/ \E i \in 1..NSigners : presented' = <<"duplicated", Append(signers, signers[i]), Sum(signers)>>
              \/ \E i \in 1..NSigners : presented' = <<"missing", [j \in 1..(NSigners-1) |-> IF j < i THEN signers[j] ELSE signers[j+1]], Sum(signers)>>
              \/ \E i \in 1..NSigners, m \in Msgs : m # signers[i][2] /\ presented' = <<"other-msg", [signers EXCEPT ![i] = <<signers[i][1], m>>], Sum(signers)>>
              \* rogue key: the attacker knows x, publishes the key x*G - pk_victim (discrete log x - sk_victim, unknown to it) and signs m with x
              \/ \E i \in 1..NSigners, x \in Sk, m \in Msgs : (x - signers[i][1]) % Q # 0
                    /\ presented' = <<"rogue-key", <<<<signers[i][1], m>>, <<(x - signers[i][1]) % Q, m>>>>, SigOf(x, m)>>
           /\ UNCHANGED <<signers, verdict>>
Verify == /\ presented # <<>> /\ verdict = "none"
          /\ verdict' = (IF VerifyAgg(presented[2], presented[3]) THEN "accept" ELSE "reject") /\ UNCHANGED <<signers, presented>>
Next == Present \/ Verify
Spec == Init /\ [][Next]_<<signers, presented, verdict>>
PermutationAccepted == (verdict # "none" /\ presented[1] = "permuted" /\ DistinctMsgs(signers)) => verdict = "accept"
OthersRejected == (verdict # "none" /\ presented[1] # "permuted") => verdict = "reject"
====
